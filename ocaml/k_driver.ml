(* Line protocol for the extracted K model (coq/K/Kore.v, Exec.v); shared with harness/impl/kore_runner.py.
   Trusted: token parsing, hex<->Coq string, int<->N/nat conversion, printing.

   sort  := v <hex> | a <hex>
   kore  := E <hex> sort | N <op> <nsorts> sort* <nargs> kore*
   op    := rw and or in not next imp ceil floor iff eq app:<hex> top bot dv:<hex> ex un<k>
   sig   := <nsorts> <hex>* <nsyms> (<hex> <nparams> <nargs> <functional> <cell> <ctor>)*
   item  := R <ord> <n> (<hex> kore)* | C kore | O
   CONV sig kore                         -> OK <pat> | <meta names> | <sort names>      or NONE
   GEN  sig <nax> kore* kore <nitems> item*
                                         -> OK A <pats> C <pats> P <conclusions of the proof expressions>   or NONE
   HINTS sig <n> hint...   with hint = before after kind(R or Q) ordinal rule <nd> then nd pairs (id pat)
                                         -> as GEN (ExecutionProofExp.from_proof_hints on hint objects)
   RULES sig <nax> kore...   -> OK n [ord kind pat | meta names | sort names ; ...]  (from_kore_definition: every loaded rule with its cached scope)
   DEF/DEF2 <id> sig <nax> kore...  -> as RULES; remembers the definition under <id> (the real side keeps the LanguageSemantics object)
   USE <id> kore <nitems> item...   -> as GEN, on the remembered definition (several definitions interleaved in one process)
   pat printed in prefix form: I l r, A l r, X<n> p, U<n> p, e<n>, s<n>, m<n>, y<hex>            *)
module M = K_model

let rec pos_of_int i = if i = 1 then M.XH else if i land 1 = 0 then M.XO (pos_of_int (i/2)) else M.XI (pos_of_int (i/2))
let n_of_int i = if i = 0 then M.N0 else M.Npos (pos_of_int i)
let rec int_of_pos = function M.XH -> 1 | M.XO p -> 2 * int_of_pos p | M.XI p -> 2 * int_of_pos p + 1
let int_of_n = function M.N0 -> 0 | M.Npos p -> int_of_pos p
let rec nat_of_int i = if i <= 0 then M.O else M.S (nat_of_int (i-1))

let ascii_of_int c =
  let b k = (c lsr k) land 1 = 1 in
  M.Ascii (b 0, b 1, b 2, b 3, b 4, b 5, b 6, b 7)
let int_of_ascii (M.Ascii (b0,b1,b2,b3,b4,b5,b6,b7)) =
  let v b k = if b then 1 lsl k else 0 in
  v b0 0 + v b1 1 + v b2 2 + v b3 3 + v b4 4 + v b5 5 + v b6 6 + v b7 7
let cstr_of_bytes (l:int list) = List.fold_right (fun c acc -> M.String (ascii_of_int c, acc)) l M.EmptyString
let rec bytes_of_cstr = function M.EmptyString -> [] | M.String (a, r) -> int_of_ascii a :: bytes_of_cstr r
let unhex s =
  if s = "-" then [] else
  List.init (String.length s / 2) (fun i -> int_of_string ("0x" ^ String.sub s (2*i) 2))
let hex l = if l = [] then "-" else String.concat "" (List.map (Printf.sprintf "%02x") l)
let cstr s = cstr_of_bytes (unhex s)
let show_cstr s = hex (bytes_of_cstr s)

exception Bad
type stream = { toks : string array; mutable pos : int }
let next st = if st.pos >= Array.length st.toks then raise Bad else (let t = st.toks.(st.pos) in st.pos <- st.pos + 1; t)
let next_int st = int_of_string (next st)
let rec times n f = if n <= 0 then [] else let x = f () in x :: times (n-1) f

let p_sort st = match next st with
  | "v" -> M.SortVar (cstr (next st))
  | "a" -> M.SortApp (cstr (next st))
  | _ -> raise Bad

let p_op t =
  let pre p = String.length t > String.length p && String.sub t 0 (String.length p) = p in
  let rest p = String.sub t (String.length p) (String.length t - String.length p) in
  match t with
  | "rw" -> M.OpRewrites | "and" -> M.OpAnd | "or" -> M.OpOr | "in" -> M.OpIn | "not" -> M.OpNot
  | "next" -> M.OpNext | "imp" -> M.OpImplies | "ceil" -> M.OpCeil | "floor" -> M.OpFloor
  | "iff" -> M.OpIff | "eq" -> M.OpEquals | "top" -> M.OpTop | "bot" -> M.OpBottom | "ex" -> M.OpExists
  | _ when pre "app:" -> M.OpApp (cstr (rest "app:"))
  | _ when pre "dv:" -> M.OpDV (cstr (rest "dv:"))
  | _ when pre "un" -> M.OpUnsupported
  | _ -> raise Bad

let rec p_kore st = match next st with
  | "E" -> let x = cstr (next st) in let s = p_sort st in M.KEVar (x, s)
  | "N" -> let op = p_op (next st) in
           let ns = next_int st in let ss = times ns (fun () -> p_sort st) in
           let na = next_int st in let args = times na (fun () -> p_kore st) in
           M.KNode (op, ss, args)
  | _ -> raise Bad

let p_sig st =
  let ns = next_int st in let sorts = times ns (fun () -> cstr (next st)) in
  let ny = next_int st in
  let syms = times ny (fun () ->
    let name = cstr (next st) in let np = next_int st in let na = next_int st in
    let fn = next_int st = 1 in let _cell = next_int st in let _ctor = next_int st in
    { M.ks_name = name; ks_nparams = nat_of_int np; ks_nargs = nat_of_int na; ks_functional = fn }) in
  { M.sg_sorts = sorts; sg_symbols = syms }

let p_item st = match next st with
  | "R" -> let o = next_int st in let n = next_int st in
           let sub = times n (fun () -> let x = cstr (next st) in let k = p_kore st in (x, k)) in
           M.TRule (n_of_int o, sub)
  | "C" -> M.TConfig (p_kore st)
  | "O" -> M.TOther
  | _ -> raise Bad

let num t = int_of_string (String.sub t 1 (String.length t - 1))
let rec p_pat st =
  let t = next st in
  match t.[0] with
  | 'I' -> let l = p_pat st in let r = p_pat st in M.PImp (l, r)
  | 'A' -> let l = p_pat st in let r = p_pat st in M.PApp (l, r)
  | 'X' -> let x = num t in M.PEx (n_of_int x, p_pat st)
  | 'U' -> let x = num t in M.PMu (n_of_int x, p_pat st)
  | 'e' -> M.PEVar (n_of_int (num t))
  | 's' -> M.PSVar (n_of_int (num t))
  | 'm' -> M.PMeta (n_of_int (num t))
  | 'y' -> M.PSym (cstr (String.sub t 1 (String.length t - 1)))
  | _ -> raise Bad

let p_hint st =
  let before = p_pat st in let after = p_pat st in
  let kind = (match next st with "R" -> M.RRewrite | "Q" -> M.REquational | _ -> raise Bad) in
  let o = next_int st in let rp = p_pat st in
  let nd = next_int st in
  let d = times nd (fun () -> let i = next_int st in let q = p_pat st in (n_of_int i, q)) in
  { M.h_before = before; h_after = after; h_rule = { M.r_kind = kind; r_ordinal = n_of_int o; r_pat = rp }; h_subst = d }

let rec show_pat b p = match p with
  | M.PEVar n -> Buffer.add_string b (Printf.sprintf "e%d" (int_of_n n))
  | M.PSVar n -> Buffer.add_string b (Printf.sprintf "s%d" (int_of_n n))
  | M.PMeta n -> Buffer.add_string b (Printf.sprintf "m%d" (int_of_n n))
  | M.PSym s -> Buffer.add_string b ("y" ^ show_cstr s)
  | M.PImp (l, r) -> Buffer.add_string b "I "; show_pat b l; Buffer.add_char b ' '; show_pat b r
  | M.PApp (l, r) -> Buffer.add_string b "A "; show_pat b l; Buffer.add_char b ' '; show_pat b r
  | M.PEx (x, q) -> Buffer.add_string b (Printf.sprintf "X%d " (int_of_n x)); show_pat b q
  | M.PMu (x, q) -> Buffer.add_string b (Printf.sprintf "U%d " (int_of_n x)); show_pat b q
let pat_str p = let b = Buffer.create 256 in show_pat b p; Buffer.contents b
let pats_str l = Printf.sprintf "%d [%s]" (List.length l) (String.concat " ; " (List.map pat_str l))
let names_str l = String.concat "," (List.map show_cstr l)
let delta_str d = String.concat " , " (List.map (fun (i, p) -> Printf.sprintf "%d=%s" (int_of_n i) (pat_str p)) d)

let guards = ref M.guards_sound
let defs : (string, M.sig0 * M.kore list) Hashtbl.t = Hashtbl.create 16

let rules_answer sg axs =
  match M.load_axioms sg M.N0 axs with
  | Some rs ->
      Printf.sprintf "OK %d [%s]" (List.length rs)
        (String.concat " ; " (List.map (fun lr ->
           Printf.sprintf "%d %s %s | %s | %s" (int_of_n lr.M.lr_rule.M.r_ordinal)
             (match lr.M.lr_rule.M.r_kind with M.RRewrite -> "R" | M.REquational -> "Q")
             (pat_str lr.M.lr_rule.M.r_pat) (names_str lr.M.lr_scope.M.sc_meta) (names_str lr.M.lr_scope.M.sc_sort)) rs))
  | None -> "NONE"

let gen_answer sg axs init items =
  match M.gen_module !guards sg axs init items with
  | Some m ->
      Printf.sprintf "OK A %s C %s P %s" (pats_str m.M.m_axioms) (pats_str m.M.m_claims)
        (pats_str (List.map (fun (a, d) -> M.inst d a) m.M.m_proofs))
  | None -> "NONE"

let run line =
  let toks = Array.of_list (List.filter (fun s -> s <> "") (String.split_on_char ' ' line)) in
  let st = { toks; pos = 0 } in
  match next st with
  | "CONV" ->
      let sg = p_sig st in let k = p_kore st in
      (match M.convert sg M.scope0 k with
       | Some (sc, p) -> Printf.sprintf "OK %s | %s | %s" (pat_str p) (names_str sc.M.sc_meta) (names_str sc.M.sc_sort)
       | None -> "NONE")
  | "DEF" | "DEF2" ->
      let id = next st in
      let sg = p_sig st in
      let nax = next_int st in let axs = times nax (fun () -> p_kore st) in
      Hashtbl.replace defs id (sg, axs);
      rules_answer sg axs
  | "USE" ->
      let id = next st in
      let (sg, axs) = (try Hashtbl.find defs id with Not_found -> raise Bad) in
      let init = p_kore st in
      let ni = next_int st in let items = times ni (fun () -> p_item st) in
      gen_answer sg axs init items
  | "RULES" | "RULES2" ->
      let sg = p_sig st in
      let nax = next_int st in let axs = times nax (fun () -> p_kore st) in
      (match M.load_axioms sg M.N0 axs with
       | Some rs ->
           Printf.sprintf "OK %d [%s]" (List.length rs)
             (String.concat " ; " (List.map (fun lr ->
                Printf.sprintf "%d %s %s | %s | %s" (int_of_n lr.M.lr_rule.M.r_ordinal)
                  (match lr.M.lr_rule.M.r_kind with M.RRewrite -> "R" | M.REquational -> "Q")
                  (pat_str lr.M.lr_rule.M.r_pat) (names_str lr.M.lr_scope.M.sc_meta) (names_str lr.M.lr_scope.M.sc_sort)) rs))
       | None -> "NONE")
  | "HINTS" ->
      let sg = p_sig st in
      let n = next_int st in let hs = times n (fun () -> p_hint st) in
      (match M.from_hints !guards sg hs with
       | Some m ->
           Printf.sprintf "OK A %s C %s P %s" (pats_str m.M.m_axioms) (pats_str m.M.m_claims)
             (pats_str (List.map (fun (a, d) -> M.inst d a) m.M.m_proofs))
       | None -> "NONE")
  | "GEN" | "GEN2" ->
      let sg = p_sig st in
      let nax = next_int st in let axs = times nax (fun () -> p_kore st) in
      let init = p_kore st in
      let ni = next_int st in let items = times ni (fun () -> p_item st) in
      (match M.gen_module !guards sg axs init items with
       | Some m ->
           Printf.sprintf "OK A %s C %s P %s" (pats_str m.M.m_axioms) (pats_str m.M.m_claims)
             (pats_str (List.map (fun (a, d) -> M.inst d a) m.M.m_proofs))
       | None -> "NONE")
  | _ -> raise Bad

let () =
  Array.iteri (fun i a -> if a = "--guards" then
     guards := (match Sys.argv.(i+1) with "pinned" -> M.guards_pinned | _ -> M.guards_sound)) Sys.argv;
  (try while true do
    let line = input_line stdin in
    if String.trim line <> "" then
      print_endline (try run line with Bad | Invalid_argument _ | Failure _ | Not_found -> "BAD")
  done with End_of_file -> ())

(* C10 line protocol.  Trusted: s-expression reader, hex/int<->N conversion, printing.
   request  :=  expr
   expr     :=  '(' 'C' idx arg* ')'          call entry point idx (index table Gen/PropLib.index.json)
             |  '(' 'N' 'P'hex n l ')'        conjunction_implies_nth(term, n, l)  (Lib/NthDef.v)
   arg      :=  'P'hex                        a pattern argument
             |  '(' 'S' (id'='hex)* ')'       an instantiation map (insertion order)
             |  'V'n                          an element variable (EVar n)
             |  expr                          a premise thunk built by another entry point
             |  '(' 'A' hex ')'               a premise thunk loading the declared assumption `hex`
   answer   :=  'OK' conc-hex md5(trace) size replayed-conc-hex|'-' uses_only  |  'NONE'  |  'BAD' *)
open Lib_model

let rec pos_of_int i = if i = 1 then XH else if i land 1 = 0 then XO (pos_of_int (i/2)) else XI (pos_of_int (i/2))
let n_of_int i = if i = 0 then N0 else Npos (pos_of_int i)
let rec int_of_pos = function XH -> 1 | XO p -> 2 * int_of_pos p | XI p -> 2 * int_of_pos p + 1
let int_of_n = function N0 -> 0 | Npos p -> int_of_pos p

exception Bad
let unhex s =
  if s = "-" then [] else begin
    if String.length s mod 2 <> 0 then raise Bad;
    List.init (String.length s / 2) (fun i -> int_of_string ("0x" ^ String.sub s (2*i) 2)) end

let dec (b:int array) =
  let i = ref 0 in
  let byte () = if !i >= Array.length b then raise Bad else (let x = b.(!i) in incr i; x) in
  let rec go () =
    let t = byte () in
    match t with
    | 0 -> EVar (n_of_int (byte ()))
    | 1 -> SVar (n_of_int (byte ()))
    | 2 -> Sym (n_of_int (byte ()))
    | 3 -> let l = go () in let r = go () in Imp (l, r)
    | 4 -> let l = go () in let r = go () in App (l, r)
    | 5 -> let x = byte () in let p = go () in Ex (n_of_int x, p)
    | 6 -> let x = byte () in let p = go () in Mu (n_of_int x, p)
    | 7 -> let id = byte () in
           let rd () = let n = byte () in List.init n (fun _ -> 0) |> List.map (fun _ -> n_of_int (byte ())) in
           let a = rd () in let b' = rd () in let c = rd () in let d = rd () in let e = rd () in
           MVar (n_of_int id, a, b', c, d, e)
    | 8 -> let p = go () in let x = byte () in let q = go () in ESub (p, n_of_int x, q)
    | 9 -> let p = go () in let x = byte () in let q = go () in SSub (p, n_of_int x, q)
    | _ -> raise Bad in
  let p = go () in
  if !i <> Array.length b then raise Bad; p
let pat_of s = dec (Array.of_list (unhex s))

let enc_buf buf p =
  let b x = Buffer.add_string buf (Printf.sprintf "%02x" x) in
  let rec go p = match p with
    | EVar n -> b 0; b (int_of_n n) | SVar n -> b 1; b (int_of_n n) | Sym n -> b 2; b (int_of_n n)
    | Imp (l, r) -> b 3; go l; go r | App (l, r) -> b 4; go l; go r
    | Ex (x, p) -> b 5; b (int_of_n x); go p | Mu (x, p) -> b 6; b (int_of_n x); go p
    | MVar (id, a, c, d, e, f) ->
        b 7; b (int_of_n id); List.iter (fun l -> b (List.length l); List.iter (fun x -> b (int_of_n x)) l) [a; c; d; e; f]
    | ESub (p, x, q) -> b 8; go p; b (int_of_n x); go q
    | SSub (p, x, q) -> b 9; go p; b (int_of_n x); go q in
  go p
let show p = let buf = Buffer.create 64 in enc_buf buf p; Buffer.contents buf

(* tokens *)
let tokenize line =
  let toks = ref [] and cur = Buffer.create 16 in
  let flush () = if Buffer.length cur > 0 then (toks := Buffer.contents cur :: !toks; Buffer.clear cur) in
  String.iter (fun c -> match c with
    | '(' | ')' -> flush (); toks := String.make 1 c :: !toks
    | ' ' | '\t' | '\r' -> flush ()
    | c -> Buffer.add_char cur c) line;
  flush (); List.rev !toks

let assumed : pat list ref = ref []

let rec parse_expr toks : thunk * string list =
  match toks with
  | "(" :: "C" :: idx :: rest ->
      let i = int_of_string idx in
      let rec args acc toks = match toks with
        | ")" :: rest -> (List.rev acc, rest)
        | tok :: rest when String.length tok >= 2 && tok.[0] = 'V' ->
            args (AVar (n_of_int (int_of_string (String.sub tok 1 (String.length tok - 1)))) :: acc) rest
        | "(" :: "S" :: rest ->
            let rec items acc2 toks = match toks with
              | ")" :: rest -> (List.rev acc2, rest)
              | it :: rest ->
                  (match String.index_opt it '=' with
                   | Some j -> items ((n_of_int (int_of_string (String.sub it 0 j)),
                                       pat_of (String.sub it (j+1) (String.length it - j - 1))) :: acc2) rest
                   | None -> raise Bad)
              | [] -> raise Bad in
            let (dl, rest) = items [] rest in args (ASubst dl :: acc) rest
        | "(" :: _ -> let (t, rest) = parse_expr toks in args (AThunk t :: acc) rest
        | tok :: rest when String.length tok >= 1 && tok.[0] = 'P' ->
            args (APat (pat_of (String.sub tok 1 (String.length tok - 1))) :: acc) rest
        | _ -> raise Bad in
      let (a, rest) = args [] rest in
      (match dispatch (n_of_int i) a with
       | Some t -> (t, rest)
       | None -> raise Bad)
  | "(" :: "N" :: tok :: n :: l :: ")" :: rest when String.length tok >= 1 && tok.[0] = 'P' ->
      (* hand-modelled Tautology.conjunction_implies_nth(term, n, l) *)
      let rec nat_of_int i = if i <= 0 then O else S (nat_of_int (i - 1)) in
      let ni = int_of_string n and li = int_of_string l in
      if ni < 0 || li < 0 || li > 64 then (None, rest)
      else (conj_nth (pat_of (String.sub tok 1 (String.length tok - 1))) (nat_of_int ni) (nat_of_int li), rest)
  | "(" :: "A" :: h :: ")" :: rest ->
      let p = pat_of h in
      assumed := p :: !assumed;
      (Some (LoadAx p, p), rest)
  | _ -> raise Bad

let trace_string t =
  let buf = Buffer.create 4096 in
  List.iter (fun r ->
    (match r with
     | RProp1 -> Buffer.add_string buf "1"
     | RProp2 -> Buffer.add_string buf "2"
     | RProp3 -> Buffer.add_string buf "3"
     | RMP -> Buffer.add_string buf "M"
     | RInst d ->
         Buffer.add_string buf "I:";
         List.iteri (fun k (id, p) ->
           if k > 0 then Buffer.add_char buf ',';
           Buffer.add_string buf (string_of_int (int_of_n id)); Buffer.add_char buf '='; enc_buf buf p) d
     | RLoad a -> Buffer.add_string buf "L:"; enc_buf buf a
     | RGen x -> Buffer.add_string buf "G:"; Buffer.add_string buf (string_of_int (int_of_n x)));
    Buffer.add_char buf ' ') (trace t);
  Buffer.contents buf

let run line =
  assumed := [];
  let (t, rest) = parse_expr (tokenize line) in
  if rest <> [] then raise Bad;
  match t with
  | None -> "NONE"
  | Some (tm, c) ->
      let axs = all_class_axioms @ List.rev !assumed in
      let replay = match static_conc true axs tm with Some c' -> show c' | None -> "-" in
      Printf.sprintf "OK %s %s %d %s %s" (show c) (Digest.to_hex (Digest.string (trace_string tm)))
        (int_of_n (psize tm)) replay (if uses_only axs tm then "1" else "0")

let () =
  (try while true do
    let line = input_line stdin in
    if String.trim line <> "" then
      print_endline (try run line with Bad | Invalid_argument _ | Failure _ | Not_found -> "BAD")
  done with End_of_file -> ())

(* Line protocol for the extracted PTerm model (C08/C02).  Trusted: int<->N conversion, token parsing, printing.
   Requests are streams of decimal tokens (see harness/impl/pterm_runner.py for the pat/term encodings):
     T  base nlayers layer* axs term mem stack phase claims tbl     run a thunk under an interpreter stack
        layer = 0 <n> pat*  (memoiser with set)  |  1  (instantiation optimiser);   base 0..4
        -> FAIL | OK <conc> | S <terms> | M <terms> | X <extra>
     C  axs term                                                    static_conc -> NONE | OK <pat>
     M  memo axs claims proofs                                      serialize; memo = 0 | 1 <n> pat*
        -> FAIL | OK <gamma hex> <claim hex> <proof hex> <ACCEPT|REJECT by the checker model, guards_sound>
     U  axs claims proofs                                           counting pre-pass usage table
*)
open Pterm_model

let rec pos_of_int i = if i = 1 then XH else if i land 1 = 0 then XO (pos_of_int (i/2)) else XI (pos_of_int (i/2))
let n_of_int i = if i = 0 then N0 else Npos (pos_of_int i)
let rec int_of_pos = function XH -> 1 | XO p -> 2 * int_of_pos p | XI p -> 2 * int_of_pos p + 1
let int_of_n = function N0 -> 0 | Npos p -> int_of_pos p

exception Bad
let toks = ref [||]
let pos = ref 0
let next () = if !pos >= Array.length !toks then raise Bad else (let x = !toks.(!pos) in incr pos; int_of_string x)
let nn () = n_of_int (next ())
let rec lst f = let n = next () in List.init n (fun _ -> ()) |> List.map (fun () -> f ())

let rec rpat () =
  match next () with
  | 0 -> EVar (nn ()) | 1 -> SVar (nn ()) | 2 -> Sym (nn ())
  | 3 -> let l = rpat () in let r = rpat () in Imp (l, r)
  | 4 -> let l = rpat () in let r = rpat () in App (l, r)
  | 5 -> let x = nn () in Ex (x, rpat ())
  | 6 -> let x = nn () in Mu (x, rpat ())
  | 7 -> let id = nn () in let a = lst nn in let b = lst nn in let c = lst nn in let d = lst nn in let e = lst nn in
         MVar (id, a, b, c, d, e)
  | 8 -> let p = rpat () in let x = nn () in let q = rpat () in ESub (p, x, q)
  | 9 -> let p = rpat () in let x = nn () in let q = rpat () in SSub (p, x, q)
  | _ -> raise Bad
let rdelta () = lst (fun () -> let k = nn () in let p = rpat () in (k, p))
let rec rterm () =
  match next () with
  | 10 -> PProp1 | 11 -> PProp2 | 12 -> PProp3 | 13 -> PQuant
  | 14 -> let a = rterm () in let b = rterm () in PMP (a, b)
  | 15 -> let a = rterm () in let x = nn () in PGen (a, x)
  | 16 -> let a = rterm () in let d = rdelta () in PDynInst (a, d)
  | 17 -> let a = rterm () in let d = rdelta () in PInst (a, d)
  | 18 -> PLoadAxiom (rpat ())
  | _ -> raise Bad
let ritem () = match next () with 0 -> TPat (rpat ()) | 1 -> TProved (rpat ()) | _ -> raise Bad
let rlayer () = match next () with 0 -> LMemo (lst rpat) | 1 -> LInstOpt | _ -> raise Bad
let rbase () = match next () with 0 -> BBasic | 1 -> BStateful | 2 -> BCounting | 3 -> BSerializing | 4 -> BPretty | _ -> raise Bad
let rphase () = match next () with 0 -> Gamma | 1 -> Claim | _ -> Proof

let rec enc p = match p with
  | EVar n -> [0; int_of_n n] | SVar n -> [1; int_of_n n] | Sym n -> [2; int_of_n n]
  | Imp (l, r) -> 3 :: enc l @ enc r | App (l, r) -> 4 :: enc l @ enc r
  | Ex (x, p) -> 5 :: int_of_n x :: enc p | Mu (x, p) -> 6 :: int_of_n x :: enc p
  | MVar (id, a, b, c, d, e) ->
      7 :: int_of_n id :: List.concat_map (fun l -> List.length l :: List.map int_of_n l) [a; b; c; d; e]
  | ESub (p, x, q) -> 8 :: enc p @ (int_of_n x :: enc q)
  | SSub (p, x, q) -> 9 :: enc p @ (int_of_n x :: enc q)
let show_ints l = String.concat " " (List.map string_of_int l)
let show p = show_ints (enc p)
let enc_item = function TPat p -> 0 :: enc p | TProved p -> 1 :: enc p
let show_items l = show_ints (List.length l :: List.concat_map enc_item l)
let show_ns l = show_ints (List.map int_of_n l)
let hex l = if l = [] then "-" else String.concat "" (List.map (fun b -> Printf.sprintf "%02x" (int_of_n b)) l)

let run line =
  toks := Array.of_list (List.filter (fun s -> s <> "") (String.split_on_char ' ' line));
  pos := 1;
  match !toks.(0) with
  | "T" ->
      let b = rbase () in
      let ls = lst rlayer in
      let axs = lst rpat in
      let t = rterm () in
      let mem = lst ritem in
      let stk = lst ritem in
      let ph = rphase () in
      let cl = lst rpat in
      let tbl = lst nn in
      let s = { s_stack = stk; s_mem = mem; s_claims = cl; s_phase = ph } in
      (match stack_calls b ls axs t mem with
       | None -> "FAIL"
       | Some ((cs, c), _) ->
           let fin s' extra = Printf.sprintf "OK %s | S %s | M %s | X %s" (show c) (show_items s'.s_stack) (show_items s'.s_mem) extra in
           (match b with
            | BBasic -> Printf.sprintf "OK %s" (show c)
            | BStateful -> (match st_run cs s with Some s' -> fin s' "" | None -> "FAIL")
            | BCounting -> (match count_run cs s [] with
                            | Some (s', u) -> fin s' (String.concat " ; " (List.map (fun (p, n) -> show p ^ " " ^ string_of_int (int_of_n n)) u))
                            | None -> "FAIL")
            | BSerializing -> (match ser_run cs tbl s with
                               | Some ((_, s'), bs) -> fin s' (show_ns bs)
                               | None -> "FAIL")
            | BPretty -> (match pretty_run cs s with
                          | Some (s', tks) -> fin s' (String.concat " ; " (List.map show_ns tks))
                          | None -> "FAIL")))
  | "C" ->
      let axs = lst rpat in
      let t = rterm () in
      (match static_conc axs t with Some c -> "OK " ^ show c | None -> "NONE")
  | "M" ->
      let memo = (match next () with 0 -> None | _ -> Some (lst rpat)) in
      let axs = lst rpat in let cls = lst rpat in let prs = lst rterm in
      let m = { m_axioms = axs; m_claims = cls; m_proofs = prs } in
      (match serialize memo m with
       | None -> "FAIL"
       | Some ((g, c), p) ->
           let v = (match verify guards_sound g c p with Some _ -> "ACCEPT" | None -> "REJECT") in
           Printf.sprintf "OK %s %s %s %s" (hex g) (hex c) (hex p) v)
  | "U" ->
      let axs = lst rpat in let cls = lst rpat in let prs = lst rterm in
      let m = { m_axioms = axs; m_claims = cls; m_proofs = prs } in
      (match count_module m with
       | None -> "FAIL"
       | Some u -> "OK " ^ String.concat " ; " (List.map (fun (p, n) -> show p ^ " " ^ string_of_int (int_of_n n)) u))
  | "W" ->
      (* diagnosis for signatures: WHICH checker-side well-formedness condition a toolkit-accepted module misses *)
      let axs = lst rpat in let cls = lst rpat in let prs = lst rterm in
      let m = { m_axioms = axs; m_claims = cls; m_proofs = prs } in
      let fails = ref [] in
      let add f = if not (List.mem f !fails) then fails := f :: !fails in
      let rec pf p = match p with
        | EVar _ | SVar _ | Sym _ -> ()
        | MVar (_, ef, _, _, _, holes) -> if List.exists (fun h -> List.mem h ef) holes then add "holes"
        | Imp (l, r) | App (l, r) -> pf l; pf r
        | Ex (_, q) -> pf q
        | Mu (x, q) -> pf q; if not (pat_positive q x) then add "mu"
        | ESub (q, _, plug) | SSub (q, _, plug) ->
            pf q; pf plug; if is_redundant_subst p then add "redundant"; if not (is_meta_head q) then add "shape" in
      let rec tf t = match t with
        | PMP (a, b) -> tf a; tf b
        | PGen (a, _) -> tf a
        | PInst (a, _) -> add "static-inst"; tf a
        | PLoadAxiom p -> if not (List.exists (fun a -> pat_eqb p a) axs) then add "loads"
        | PDynInst (a, d) ->
            tf a;
            if d <> [] then begin
              List.iter (fun (_, p) -> pf p) d;
              match static_conc axs a with
              | None -> add "static"
              | Some c ->
                  let ids = List.rev (List.map fst d) and plugs = List.rev (List.map snd d) in
                  (match inst guards_sound c ids plugs with
                   | Some r -> if not (pat_eqb r (py_inst d c)) then add "differs"
                   | None ->
                       (match inst { guards_sound with g_inst_constraints = false } c ids plugs with
                        | Some _ -> add "constraints" | None -> add "capture"))
            end
        | _ -> () in
      List.iter pf axs; List.iter pf cls; List.iter tf prs;
      if List.length cls <> List.length prs then add "claims";
      if module_ok m then (if !fails = [] then "WF" else "WF-BUT " ^ String.concat " " !fails)
      else "WFFAIL " ^ (if !fails = [] then "other" else String.concat " " (List.rev !fails))
  | _ -> "BAD"

let () =
  (try while true do
    let line = input_line stdin in
    if String.trim line <> "" then
      print_endline (try run line with Bad | Invalid_argument _ | Failure _ | Not_found -> "BAD")
  done with End_of_file -> ())

(* Line protocol for the extracted C15 model.  Trusted: int<->N conversion, string codec, printing.
   A string is dot-separated decimal code points ("-" = empty); a list of strings is ';'-separated
   ("_" = empty list). *)
open Mm15_model

let rec pos_of_int i = if i = 1 then XH else if i land 1 = 0 then XO (pos_of_int (i/2)) else XI (pos_of_int (i/2))
let n_of_int i = if i = 0 then N0 else Npos (pos_of_int i)
let rec int_of_pos = function XH -> 1 | XO p -> 2 * int_of_pos p | XI p -> 2 * int_of_pos p + 1
let int_of_n = function N0 -> 0 | Npos p -> int_of_pos p
let rec int_of_nat = function O -> 0 | S n -> 1 + int_of_nat n
let rec nat_of_int i = if i = 0 then O else S (nat_of_int (i-1))

let str_of s = if s = "-" then [] else List.map (fun x -> n_of_int (int_of_string x)) (String.split_on_char '.' s)
let show_str l = if l = [] then "-" else String.concat "." (List.map (fun c -> string_of_int (int_of_n c)) l)
let strs_of s = if s = "_" then [] else List.map str_of (String.split_on_char ';' s)
let show_strs l = if l = [] then "_" else String.concat ";" (List.map show_str l)
let show_ns l = if l = [] then "_" else String.concat "," (List.map (fun c -> string_of_int (int_of_n c)) l)
let ascii l = String.concat "" (List.map (fun c -> String.make 1 (Char.chr (int_of_n c))) l)

let run line =
  let f = Array.of_list (List.filter (fun s -> s <> "") (String.split_on_char ' ' line)) in
  match f.(0) with
  | "D" -> (match decode_word (str_of f.(1)) with Some n -> "S " ^ string_of_int (int_of_n n) | None -> "N")
  | "E" -> show_str (encode (n_of_int (int_of_string f.(1))))
  | "R" -> let lo = int_of_string f.(1) and hi = int_of_string f.(2) in
           let b = Buffer.create 4096 in
           for n = lo to hi do
             let w = encode (n_of_int n) in
             Buffer.add_string b (ascii w); Buffer.add_char b '=';
             (match decode_word w with Some m -> Buffer.add_string b (string_of_int (int_of_n m)) | None -> Buffer.add_char b 'N');
             if n < hi then Buffer.add_char b ' '
           done; Buffer.contents b
  | "S" -> (match split_steps (str_of f.(1)) with Some l -> "S " ^ show_ns l | None -> "N")
  | "P" -> (match import_proof (strs_of f.(1)) (str_of f.(2)) with
            | Some (tbl, st) -> "OK " ^ show_strs tbl ^ " " ^ show_ns st | None -> "N")
  | "I" -> let fl = strs_of f.(2) and fv = strs_of f.(3) in
           (match import_statement (f.(1) = "1") (List.combine fl fv) (strs_of f.(4)) (str_of f.(5)) with
            | Some (tbl, st) -> "OK " ^ show_strs tbl ^ " " ^ show_ns st | None -> "N")
  | "J" -> let fl = strs_of f.(2) and fv = strs_of f.(3) in
           (match import_proof (mandatory (f.(1) = "1") (List.combine fl fv) (strs_of f.(4))) (str_of f.(5)) with
            | Some (tbl, st) -> "OK " ^ show_strs tbl ^ " " ^ show_ns st | None -> "N")
  | "B" -> (match appendixB_decode (str_of f.(1)) with Some n -> "S " ^ string_of_int (int_of_n n) | None -> "N")
  | "A" -> (match appendixB_stream (str_of f.(1)) with Some l -> "S " ^ show_ns l | None -> "N")
  | "Y" -> (* Y <dedup 0|1> <m> <k> <n:t,n:t,...|_> : marked-step bookkeeping of exec_proof *)
           let steps = if f.(4) = "_" then [] else
             List.map (fun x -> match String.split_on_char ':' x with
                                | [n; t] -> (n_of_int (int_of_string n), n_of_int (int_of_string t))
                                | _ -> failwith "step") (String.split_on_char ',' f.(4)) in
           (match replay_marks_N (f.(1) = "1") (nat_of_int (int_of_string f.(2))) (nat_of_int (int_of_string f.(3))) steps None [] with
            | None -> "N"
            | Some tr -> "OK " ^ (if tr = [] then "_" else String.concat "," (List.map (function
                  | EZ p -> "z" ^ string_of_int (int_of_n p)
                  | ELabel t -> "l" ^ string_of_int (int_of_n t)
                  | ERef (j, p) -> "r" ^ string_of_int (int_of_nat j) ^ ":" ^ string_of_int (int_of_n p)) tr)))
  | "T" -> show_str (proof_field (str_of f.(1)))
  | "W" -> let lo = int_of_string f.(1) and hi = int_of_string f.(2) in
           let r = ref [] in
           for c = hi downto lo do
             let s = is_space (n_of_int c) and l = lex_space (n_of_int c) in
             if s || l then r := (string_of_int c ^ (if s then "s" else "") ^ (if l then "l" else "")) :: !r
           done; "W " ^ String.concat "," !r
  | "C" -> (match classify (nat_of_int (int_of_string f.(1))) (nat_of_int (int_of_string f.(2))) (n_of_int (int_of_string f.(3))) with
            | RMark -> "mark" | RHyp i -> "hyp " ^ string_of_int (int_of_nat i)
            | RLabel i -> "label " ^ string_of_int (int_of_nat i) | RSaved j -> "saved " ^ string_of_int (int_of_nat j))
  | _ -> "?"

let () =
  (try while true do
    let line = input_line stdin in
    (try print_endline (run line) with _ -> print_endline "ERR")
  done with End_of_file -> ())

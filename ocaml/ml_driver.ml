(* Line protocol shared with harness/rust/harness.rs.  Trusted: hex/int<->N conversion and printing. *)
open Ml_model

let rec pos_of_int i = if i = 1 then XH else if i land 1 = 0 then XO (pos_of_int (i/2)) else XI (pos_of_int (i/2))
let n_of_int i = if i = 0 then N0 else Npos (pos_of_int i)
let rec int_of_pos = function XH -> 1 | XO p -> 2 * int_of_pos p | XI p -> 2 * int_of_pos p + 1
let int_of_n = function N0 -> 0 | Npos p -> int_of_pos p

let unhex s =
  if s = "-" then [] else
  let n = String.length s / 2 in
  List.init n (fun i -> int_of_string ("0x" ^ String.sub s (2*i) 2))
let hex l = if l = [] then "-" else String.concat "" (List.map (Printf.sprintf "%02x") l)

exception Bad
let dec (b:int array) =
  let i = ref 0 in
  let byte () = if !i >= Array.length b then raise Bad else (let x = b.(!i) in incr i; x) in
  let rec go () =
    let t = byte () in
    match t with
    | 0 -> EVar (n_of_int (byte ()))
    | 1 -> SVar (n_of_int (byte ()))
    | 2 -> Sym (n_of_int (byte ()))
    | 3 -> let l = go () in let r = go () in Imp (l, r)
    | 4 -> let l = go () in let r = go () in App (l, r)
    | 5 -> let x = byte () in let p = go () in Ex (n_of_int x, p)
    | 6 -> let x = byte () in let p = go () in Mu (n_of_int x, p)
    | 7 -> let id = byte () in
           let rd () = let n = byte () in List.init n (fun _ -> 0) |> List.map (fun _ -> n_of_int (byte ())) in
           let a = rd () in let b' = rd () in let c = rd () in let d = rd () in let e = rd () in
           MVar (n_of_int id, a, b', c, d, e)
    | 8 -> let p = go () in let x = byte () in let q = go () in ESub (p, n_of_int x, q)
    | 9 -> let p = go () in let x = byte () in let q = go () in SSub (p, n_of_int x, q)
    | _ -> raise Bad in
  go ()
let pat_of s = dec (Array.of_list (unhex s))
let rec enc p = match p with
  | EVar n -> [0; int_of_n n] | SVar n -> [1; int_of_n n] | Sym n -> [2; int_of_n n]
  | Imp (l, r) -> 3 :: enc l @ enc r | App (l, r) -> 4 :: enc l @ enc r
  | Ex (x, p) -> 5 :: int_of_n x :: enc p | Mu (x, p) -> 6 :: int_of_n x :: enc p
  | MVar (id, a, b, c, d, e) ->
      7 :: int_of_n id :: List.concat_map (fun l -> List.length l :: List.map int_of_n l) [a; b; c; d; e]
  | ESub (p, x, q) -> 8 :: enc p @ (int_of_n x :: enc q)
  | SSub (p, x, q) -> 9 :: enc p @ (int_of_n x :: enc q)
let show p = hex (enc p)
let show_term = function TPat p -> "P" ^ show p | TProved p -> "T" ^ show p
let show_state st =
  Printf.sprintf "S[%s] M[%s] C[%s]"
    (String.concat "," (List.map show_term st.stack))
    (String.concat "," (List.map show_term st.memory))
    (String.concat "," (List.map show st.claims))
let bytes s = List.map n_of_int (unhex s)
let b2s b = if b then "1" else "0"

let run g line =
  let f = Array.of_list (List.filter (fun s -> s <> "") (String.split_on_char ' ' line)) in
  match f.(0) with
  | "V" -> (match verify g (bytes f.(1)) (bytes f.(2)) (bytes f.(3)) with
            | Some st -> "ACCEPT " ^ show_state st | None -> "REJECT")
  | "E" -> let ph = (match f.(1) with "G" -> Gamma | "C" -> Claim | _ -> Proof) in
           (match exec g ph (bytes f.(2)) st0 with Some st -> "OK " ^ show_state st | None -> "REJECT")
  | "DV" -> (match doc_verify (bytes f.(1)) (bytes f.(2)) (bytes f.(3)) with
            | Some st -> "ACCEPT " ^ show_state st | None -> "REJECT")
  | "DE" -> let ph = (match f.(1) with "G" -> Gamma | "C" -> Claim | _ -> Proof) in
           (match doc_exec ph (bytes f.(2)) st0 with Some st -> "OK " ^ show_state st | None -> "REJECT")
  | "DW" -> b2s (doc_wf (pat_of f.(1)))
  | "F" -> let p = pat_of f.(1) and x = n_of_int (int_of_string f.(2)) in
           b2s (e_fresh p x) ^ b2s (s_fresh p x) ^ b2s (pat_positive p x) ^ b2s (pat_negative p x)
  | "W" -> (match well_formed (pat_of f.(1)) with Some b -> b2s b | None -> "REJECT")
  | "SE" -> (match apply_esubst g (pat_of f.(1)) (n_of_int (int_of_string f.(2))) (pat_of f.(3)) with
             | Some q -> show q | None -> "REJECT")
  | "SS" -> (match apply_ssubst g (pat_of f.(1)) (n_of_int (int_of_string f.(2))) (pat_of f.(3)) with
             | Some q -> show q | None -> "REJECT")
  | "I" -> let plugs = Array.to_list (Array.sub f 3 (Array.length f - 3)) |> List.map pat_of in
           (match inst g (pat_of f.(1)) (bytes f.(2)) plugs with Some q -> show q | None -> "REJECT")
  | "Q" -> b2s (pat_eqb (pat_of f.(1)) (pat_of f.(2)))
  | _ -> "REJECT"

let () =
  let g = ref guards_sound in
  let of_bits s = let b i = s.[i] = '1' in
    { g_ssubst_exists_capture = b 0; g_esubst_mu_capture = b 1; g_ssubst_mu_capture = b 2;
      g_esubst_exists_capture = b 3; g_inst_constraints = b 4; g_gen_fresh = b 5; g_mp_antecedent = b 6;
      g_instantiate_arity = b 7; g_publish_claim_eq = b 8; g_evar_plugs_only = b 9 } in
  Array.iteri (fun i a -> if a = "--guards" then
     g := (match Sys.argv.(i+1) with "pinned" -> guards_pinned | "sound" -> guards_sound
           | s -> of_bits s)) Sys.argv;
  (try while true do
    let line = input_line stdin in
    if String.trim line <> "" then
      print_endline (try run !g line with Bad | Invalid_argument _ | Failure _ | Not_found -> "REJECT")
  done with End_of_file -> ())

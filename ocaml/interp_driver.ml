(* Line-protocol driver for the extracted interpreter models (coq/Interp).  Trusted: int<->N
   conversion, parsing of the request lines, printing.  The same request grammar is implemented for
   the real code by harness/impl/interp_runner.py.

   pattern  = ints joined by '.', prefix code: 0 n=EVar 1 n=SVar 2 n=Sym 3 l r=Imp 4 l r=App
              5 x p=Ex 6 X p=Mu 7 id (len elems)*5=MVar 8 p x plug=ESub 9 p X plug=SSub
   term     = 'P'pattern | 'T'pattern            list = ints joined by ',' or '-'
   call     = name(:arg)*   ev sv sy mv im ap ex mu es ss p1 p2 p3 qu mp ge in ip po sa lo pp pa pc ic if
   requests:
     SER   <G|C|P> <claims|-> call*            run the serialiser from a fresh tracker
     TRACE <G|C|P> <claims|-> call*            same, one record per call (state, bytes, wf code, machine)
     DES   <fixed|pinned|bits> <G|C|P> <claims|-> <hex|->      deserialise one file into a fresh tracker
     DES3  <flags> <claims|-> <hexG> <hexC> <hexP> <G|C|P>     gamma, into_claim, claim, into_proof, proof
*)
open Interp_model

let rec pos_of_int i = if i = 1 then XH else if i land 1 = 0 then XO (pos_of_int (i/2)) else XI (pos_of_int (i/2))
let n_of_int i = if i < 0 then failwith "neg" else if i = 0 then N0 else Npos (pos_of_int i)
let rec int_of_pos = function XH -> 1 | XO p -> 2 * int_of_pos p | XI p -> 2 * int_of_pos p + 1
let int_of_n = function N0 -> 0 | Npos p -> int_of_pos p
let rec nat_of_int i = if i = 0 then O else S (nat_of_int (i-1))
let rec int_of_nat = function O -> 0 | S n -> 1 + int_of_nat n

let unhex s =
  if s = "-" then [] else
  let n = String.length s / 2 in
  List.init n (fun i -> int_of_string ("0x" ^ String.sub s (2*i) 2))
let hex l = if l = [] then "-" else String.concat "" (List.map (fun n -> Printf.sprintf "%02x" (int_of_n n)) l)

exception Bad
let ints_of s sep = if s = "-" || s = "" then [] else List.map int_of_string (String.split_on_char sep s)

let dec_pat (b:int array) =
  let i = ref 0 in
  let byte () = if !i >= Array.length b then raise Bad else (let x = b.(!i) in incr i; x) in
  let rec go () =
    let t = byte () in
    match t with
    | 0 -> EVar (n_of_int (byte ()))
    | 1 -> SVar (n_of_int (byte ()))
    | 2 -> Sym (n_of_int (byte ()))
    | 3 -> let l = go () in let r = go () in Imp (l, r)
    | 4 -> let l = go () in let r = go () in App (l, r)
    | 5 -> let x = byte () in let p = go () in Ex (n_of_int x, p)
    | 6 -> let x = byte () in let p = go () in Mu (n_of_int x, p)
    | 7 -> let id = byte () in
           let rd () = let n = byte () in List.init n (fun _ -> 0) |> List.map (fun _ -> n_of_int (byte ())) in
           let a = rd () in let b' = rd () in let c = rd () in let d = rd () in let e = rd () in
           MVar (n_of_int id, a, b', c, d, e)
    | 8 -> let p = go () in let x = byte () in let q = go () in ESub (p, n_of_int x, q)
    | 9 -> let p = go () in let x = byte () in let q = go () in SSub (p, n_of_int x, q)
    | _ -> raise Bad in
  let p = go () in
  if !i <> Array.length b then raise Bad else p
let pat_of s = dec_pat (Array.of_list (ints_of s '.'))

(* patterns with notation: tag 10 = body n (key value)*n *)
let dec_npat (b:int array) =
  let i = ref 0 in
  let byte () = if !i >= Array.length b then raise Bad else (let x = b.(!i) in incr i; x) in
  let rec go () =
    let t = byte () in
    match t with
    | 0 -> NE (n_of_int (byte ()))
    | 1 -> NS (n_of_int (byte ()))
    | 2 -> NY (n_of_int (byte ()))
    | 3 -> let l = go () in let r = go () in NImp (l, r)
    | 4 -> let l = go () in let r = go () in NApp (l, r)
    | 5 -> let x = byte () in let p = go () in NEx (n_of_int x, p)
    | 6 -> let x = byte () in let p = go () in NMu (n_of_int x, p)
    | 7 -> let id = byte () in
           let rd () = let n = byte () in List.init n (fun _ -> 0) |> List.map (fun _ -> n_of_int (byte ())) in
           let a = rd () in let b' = rd () in let c = rd () in let d = rd () in let e = rd () in
           NMV (n_of_int id, a, b', c, d, e)
    | 8 -> let p = go () in let x = byte () in let q = go () in NESub (p, n_of_int x, q)
    | 9 -> let p = go () in let x = byte () in let q = go () in NSSub (p, n_of_int x, q)
    | 10 -> let body = go () in let n = byte () in
            let rec kv k = if k = 0 then [] else (let key = byte () in let v = go () in (n_of_int key, v) :: kv (k-1)) in
            NInst (body, kv n)
    | _ -> raise Bad in
  let p = go () in
  if !i <> Array.length b then raise Bad else p
let npat_of s = dec_npat (Array.of_list (ints_of s '.'))
let npats_of s = if s = "-" || s = "" then [] else List.map npat_of (String.split_on_char ';' s)
let rec enc p = match p with
  | EVar n -> [0; int_of_n n] | SVar n -> [1; int_of_n n] | Sym n -> [2; int_of_n n]
  | Imp (l, r) -> 3 :: enc l @ enc r | App (l, r) -> 4 :: enc l @ enc r
  | Ex (x, p) -> 5 :: int_of_n x :: enc p | Mu (x, p) -> 6 :: int_of_n x :: enc p
  | MVar (id, a, b, c, d, e) ->
      7 :: int_of_n id :: List.concat_map (fun l -> List.length l :: List.map int_of_n l) [a; b; c; d; e]
  | ESub (p, x, q) -> 8 :: enc p @ (int_of_n x :: enc q)
  | SSub (p, x, q) -> 9 :: enc p @ (int_of_n x :: enc q)
let show p = String.concat "." (List.map string_of_int (enc p))
let show_term = function TPat p -> "P" ^ show p | TProved p -> "T" ^ show p
let term_of s =
  let body = String.sub s 1 (String.length s - 1) in
  match s.[0] with 'P' -> TPat (pat_of body) | 'T' -> TProved (pat_of body) | _ -> raise Bad
let nlist s = List.map n_of_int (ints_of s ',')
let phase_of = function "G" -> Gamma | "C" -> Claim | "P" -> Proof | _ -> raise Bad
let show_phase = function Gamma -> "G" | Claim -> "C" | Proof -> "P"
let claims_of s = if s = "-" then [] else List.map pat_of (String.split_on_char ';' s)

let rec delta_of = function
  | [] -> []
  | k :: v :: r -> (n_of_int (int_of_string k), pat_of v) :: delta_of r
  | _ -> raise Bad

let call_of s =
  match String.split_on_char ':' s with
  | ["ev"; i] -> CEVar (n_of_int (int_of_string i))
  | ["sv"; i] -> CSVar (n_of_int (int_of_string i))
  | ["sy"; i] -> CSymbol (n_of_int (int_of_string i))
  | ["mv"; i; a; b; c; d; e] -> CMetaVar (n_of_int (int_of_string i), nlist a, nlist b, nlist c, nlist d, nlist e)
  | ["im"; l; r] -> CImplies (pat_of l, pat_of r)
  | ["ap"; l; r] -> CApp (pat_of l, pat_of r)
  | ["ex"; x; p] -> CExists (n_of_int (int_of_string x), pat_of p)
  | ["mu"; x; p] -> CMu (n_of_int (int_of_string x), pat_of p)
  | ["es"; x; p; q] -> CESubst (n_of_int (int_of_string x), pat_of p, pat_of q)
  | ["ss"; x; p; q] -> CSSubst (n_of_int (int_of_string x), pat_of p, pat_of q)
  | ["p1"] -> CProp1 | ["p2"] -> CProp2 | ["p3"] -> CProp3 | ["qu"] -> CQuantifier
  | ["mp"; l; r] -> CModusPonens (pat_of l, pat_of r)
  | ["ge"; p; x] -> CGeneralization (pat_of p, n_of_int (int_of_string x))
  | "in" :: p :: kv -> CInstantiate (pat_of p, delta_of kv)
  | "ip" :: p :: kv -> CInstantiatePattern (pat_of p, delta_of kv)
  | ["po"; t] -> CPop (term_of t)
  | ["sa"; t] -> CSave (term_of t)
  | ["lo"; t] -> CLoad (term_of t)
  | ["pp"; p] -> CPublishProof (pat_of p)
  | ["pa"; p] -> CPublishAxiom (pat_of p)
  | ["pc"; p] -> CPublishClaim (pat_of p)
  | ["ic"] -> CIntoClaim
  | ["if"] -> CIntoProof
  | _ -> raise Bad

let show_tracker tr =
  Printf.sprintf "%s S[%s] M[%s] C[%s]" (show_phase tr.t_phase)
    (String.concat "," (List.map (fun (t, _) -> show_term t) tr.t_stack))
    (String.concat "," (List.map show_term tr.t_memory))
    (String.concat "," (List.map show tr.t_claims))
let show_marks tr = String.concat "" (List.map (fun (_, b) -> if b then "1" else "0") tr.t_stack)
let show_state st =
  Printf.sprintf "S[%s] M[%s] C[%s]"
    (String.concat "," (List.map show_term st.stack))
    (String.concat "," (List.map show_term st.memory))
    (String.concat "," (List.map show st.claims))
let show_tbl tbl = if tbl = [] then "-" else String.concat "," (List.map (fun n -> string_of_int (int_of_n n)) tbl)

let flags_of = function
  | "fixed" -> dflags_fixed
  | "pinned" -> dflags_pinned
  | s when String.length s = 7 ->
      let b i = s.[i] = '1' in
      { df_subst_plug_top = b 0; df_metavar_ints = b 1; df_no_quantifier = b 2; df_no_generalization = b 3;
        df_publish_gamma_skip = b 4; df_publish_proof_bad = b 5; df_zero_stops = b 6 }
  | _ -> raise Bad

(* run the serialiser call by call; returns (k, tbl, tr, files, records) where k = number of accepted calls *)
let ser ph claims calls trace =
  let g = guards_sound in
  let recs = Buffer.create 256 in
  let rec go k tbl tr ((fg, fc, fp) as f) = function
    | [] -> (None, tbl, tr, f)
    | c :: cs ->
        let code = if trace then int_of_n (wf_code g tr c) else 0 in
        (match ser_step tbl tr c with
         | None -> (Some k, tbl, tr, f)
         | Some ((tbl', tr'), bs) ->
             let f' = (match tr.t_phase with
                       | Gamma -> (fg @ bs, fc, fp) | Claim -> (fg, fc @ bs, fp) | Proof -> (fg, fc, fp @ bs)) in
             if trace then begin
               let (a, b, c') = f' in
               (* the checker model on the files so far *)
               let m =
                 (match exec g Gamma a st0 with
                  | None -> "REJECT"
                  | Some s1 ->
                      if tr'.t_phase = Gamma then show_state s1 else
                      (match exec g Claim b (set_stack [] s1) with
                       | None -> "REJECT"
                       | Some s2 ->
                           if tr'.t_phase = Claim then show_state s2 else
                           (match exec g Proof c' (set_stack [] s2) with
                            | None -> "REJECT"
                            | Some s3 -> show_state s3))) in
               Buffer.add_string recs
                 (Printf.sprintf " | %s R[%s] n=%d w=%d m=%s" (show_tracker tr') (show_marks tr')
                    (List.length bs) code m)
             end;
             go (k+1) tbl' tr' f' cs) in
  let (fail, tbl, tr, (fg, fc, fp)) = go 0 [] (fresh_tracker ph claims) ([], [], []) calls in
  let head = (match fail with
              | None -> "OK"
              | Some k -> Printf.sprintf "REJECT %d" k) in
  Printf.sprintf "%s tbl[%s] G[%s] C[%s] P[%s] %s%s" head (show_tbl tbl) (hex fg) (hex fc) (hex fp)
    (show_tracker tr) (Buffer.contents recs)

let run line =
  let f = Array.of_list (List.filter (fun s -> s <> "") (String.split_on_char ' ' line)) in
  let rest k = Array.to_list (Array.sub f k (Array.length f - k)) in
  match f.(0) with
  | "SER" -> ser (phase_of f.(1)) (claims_of f.(2)) (List.map call_of (rest 3)) false
  | "TRACE" -> ser (phase_of f.(1)) (claims_of f.(2)) (List.map call_of (rest 3)) true
  | "DES" ->
      let df = flags_of f.(1) in
      let tr0 = fresh_tracker (phase_of f.(2)) (claims_of f.(3)) in
      (match deser df (List.map n_of_int (unhex f.(4))) tr0 with
       | Some tr -> "OK " ^ show_tracker tr
       | None -> "REJECT")
  | "DES3" ->
      let df = flags_of f.(1) in
      let tr0 = fresh_tracker Gamma (claims_of f.(2)) in
      let b i = List.map n_of_int (unhex f.(i)) in
      let upto = phase_of f.(6) in
      (match deser df (b 3) tr0 with
       | None -> "REJECT G"
       | Some t1 ->
           if upto = Gamma then "OK " ^ show_tracker t1 else
           (match stateful_step t1 CIntoClaim with
            | None -> "REJECT G"
            | Some t1' ->
                (match deser df (b 4) t1' with
                 | None -> "REJECT C"
                 | Some t2 ->
                     if upto = Claim then "OK " ^ show_tracker t2 else
                     (match stateful_step t2 CIntoProof with
                      | None -> "REJECT C"
                      | Some t2' ->
                          (match deser df (b 5) t2' with
                           | None -> "REJECT P"
                           | Some t3 -> "OK " ^ show_tracker t3)))))
  | "MOD" ->
      (* MOD <0|1> <sel|-> <module>...   module = AX|CL|SUBS  (subs = indices of earlier modules); root = last *)
      let opt = f.(1) = "1" in
      let sel = npats_of f.(2) in
      let mods = ref [] in
      List.iter (fun ms ->
        match String.split_on_char '|' ms with
        | [ax; cl; subs] ->
            let ss = List.map (fun i -> List.nth (List.rev !mods) i) (ints_of subs ',') in
            mods := Mod (npats_of ax, npats_of cl, ss) :: !mods
        | _ -> raise Bad) (rest 3);
      let m = List.hd !mods in
      let selp = if opt then Some (fun p -> List.exists (fun q -> npat_eqb p q) sel) else None in
      let calls =
        (match selp with
         | None -> (match gamma_calls m, claim_calls m with Some g, Some c -> Some (g, c) | _ -> None)
         | Some s -> (match mgamma_calls s m with
                      | Some (g, mem1) -> (match mclaim_calls s m mem1 with Some (c, _) -> Some (g, c) | None -> None)
                      | None -> None)) in
      (match calls, mod_files selp m with
       | Some (gc, cc), Some (((tbl, _), gb), cb) ->
           (* boundary codes along the run *)
           let g = guards_sound in
           let rec codes tbl tr acc = function
             | [] -> acc
             | c :: cs -> let w = int_of_n (wf_code g tr c) in
                          (match ser_step tbl tr c with
                           | Some ((tbl', tr'), _) -> codes tbl' tr' (max acc w) cs
                           | None -> max acc w) in
           let cl = (match m with Mod (_, c, _) -> List.map expand c) in
           let w = codes [] (fresh_tracker Gamma cl) 0 (gc @ [CIntoClaim] @ cc) in
           Printf.sprintf "OK tbl[%s] G[%s] C[%s] J[%s] D[%s] w=%d AX[%s]" (show_tbl tbl) (hex gb) (hex cb)
             (String.concat "," (List.map show (gamma_axioms g gb)))
             (String.concat "," (List.map show (declared_claims g gb cb))) w
             (String.concat "," (List.map (fun a -> show (expand a)) (flat_axioms m)))
       | _, _ -> "REJECT")
  | _ -> "BAD"

let () =
  (try while true do
    let line = input_line stdin in
    if String.trim line <> "" then
      print_endline (try run line with Bad | Invalid_argument _ | Failure _ | Not_found -> "BAD")
  done with End_of_file -> ())

(* Line-protocol driver for the extracted C17 model (MM17).  Trusted: OCaml string <-> Coq string
   conversion, the prefix (de)serialisation of tokens/ASTs, printing.
   Requests (one per line, fields separated by single blanks; tokens never contain blanks):
     PARSE tok..                   -> OK db | NONE
     PRINT db                      -> tok..
     WF db                         -> 0 | 1
     SLICE fixed|pinned db nsd [key n dep..].. nincl label.. nexcl label..
                                   -> crashed(0|1) nslices [label db]..
     VERIFY db label               -> 0 | 1
   AST syntax: db = n stmt..; stmt = C n x.. | V n x.. | D n x.. | F l ty v | E l n term.. | A l n term..
               | P l n term.. 1 m tok.. | P l n term.. 0 | B n stmt..; term = M x | A c n term..  *)
module M = Mm17_model

let ascii_of_char c =
  let n = Char.code c in
  let b i = (n lsr i) land 1 = 1 in
  M.Ascii (b 0, b 1, b 2, b 3, b 4, b 5, b 6, b 7)
let char_of_ascii (M.Ascii (a0, a1, a2, a3, a4, a5, a6, a7)) =
  let v b i = if b then 1 lsl i else 0 in
  Char.chr (v a0 0 + v a1 1 + v a2 2 + v a3 3 + v a4 4 + v a5 5 + v a6 6 + v a7 7)
let cs (s : string) : M.string =
  let r = ref M.EmptyString in
  for i = String.length s - 1 downto 0 do r := M.String (ascii_of_char s.[i], !r) done; !r
let os (s : M.string) : string =
  let b = Buffer.create 16 in
  let rec go = function M.EmptyString -> () | M.String (a, r) -> Buffer.add_char b (char_of_ascii a); go r in
  go s; Buffer.contents b

let tok_of = function
  | "$c" -> M.KC | "$v" -> M.KV | "$d" -> M.KD | "$f" -> M.KF | "$e" -> M.KE | "$a" -> M.KA | "$p" -> M.KP
  | "$=" -> M.KEq | "$." -> M.KDot | "${" -> M.KOpen | "$}" -> M.KClose | s -> M.TS (cs s)
let str_of_tok = function
  | M.KC -> "$c" | M.KV -> "$v" | M.KD -> "$d" | M.KF -> "$f" | M.KE -> "$e" | M.KA -> "$a" | M.KP -> "$p"
  | M.KEq -> "$=" | M.KDot -> "$." | M.KOpen -> "${" | M.KClose -> "$}" | M.TS s -> os s

exception Bad of string
(* reader over an array of fields *)
let fields = ref [||]
let pos = ref 0
let next () = if !pos >= Array.length !fields then raise (Bad "eof") else (let x = !fields.(!pos) in incr pos; x)
let next_int () = int_of_string (next ())
let rec rep n f = if n <= 0 then [] else let x = f () in x :: rep (n - 1) f
let rd_list f = let n = next_int () in rep n f
let rd_str () = cs (next ())
let rec rd_term () =
  match next () with
  | "M" -> M.MV (rd_str ())
  | "A" -> let c = rd_str () in let args = rd_list rd_term in M.App (c, args)
  | s -> raise (Bad ("term tag " ^ s))
let rec rd_stmt () =
  match next () with
  | "C" -> M.SC (rd_list rd_str)
  | "V" -> M.SV (rd_list rd_str)
  | "D" -> M.SD (rd_list rd_str)
  | "F" -> let l = rd_str () in let ty = rd_str () in let v = rd_str () in M.SF (l, ty, v)
  | "E" -> let l = rd_str () in M.SE (l, rd_list rd_term)
  | "A" -> let l = rd_str () in M.SA (l, rd_list rd_term)
  | "P" -> let l = rd_str () in let ts = rd_list rd_term in
           (match next () with
            | "1" -> M.SP (l, ts, Some (rd_list rd_str))
            | _ -> M.SP (l, ts, None))
  | "B" -> M.SB (rd_list rd_stmt)
  | s -> raise (Bad ("stmt tag " ^ s))
let rd_db () = rd_list rd_stmt

let buf = Buffer.create 65536
let w s = Buffer.add_string buf s; Buffer.add_char buf ' '
let wi n = w (string_of_int n)
let ws s = w (os s)
let wl f l = wi (List.length l); List.iter f l
let rec w_term = function
  | M.MV x -> w "M"; ws x
  | M.App (c, args) -> w "A"; ws c; wl w_term args
let rec w_stmt = function
  | M.SC l -> w "C"; wl ws l
  | M.SV l -> w "V"; wl ws l
  | M.SD l -> w "D"; wl ws l
  | M.SF (l, ty, v) -> w "F"; ws l; ws ty; ws v
  | M.SE (l, ts) -> w "E"; ws l; wl w_term ts
  | M.SA (l, ts) -> w "A"; ws l; wl w_term ts
  | M.SP (l, ts, pf) -> w "P"; ws l; wl w_term ts;
      (match pf with Some p -> w "1"; wl ws p | None -> w "0")
  | M.SB ss -> w "B"; wl w_stmt ss
let w_db db = wl w_stmt db

let split_line line =
  Array.of_list (List.filter (fun s -> s <> "") (String.split_on_char ' ' line))

let handle line =
  fields := split_line line; pos := 0; Buffer.clear buf;
  (match next () with
   | "PARSE" ->
       let n = Array.length !fields in
       let toks = List.init (n - 1) (fun i -> tok_of !fields.(i + 1)) in
       (match M.parse_db toks with
        | Some db -> w "OK"; w_db db
        | None -> w "NONE")
   | "PRINT" -> let db = rd_db () in List.iter (fun t -> w (str_of_tok t)) (M.print_db db)
   | "WF" -> let db = rd_db () in w (if M.wf_db db then "1" else "0")
   | "SLICE" ->
       let g = (match next () with "pinned" -> M.sguards_pinned | _ -> M.sguards_fixed) in
       let db = rd_db () in
       let sd = rd_list (fun () -> let k = rd_str () in let d = rd_list rd_str in (k, d)) in
       let incl = rd_list rd_str in
       let excl = rd_list rd_str in
       let (ys, crashed) = M.slice_database g db sd incl excl in
       w (if crashed then "1" else "0");
       wl (fun (l, s) -> ws l; w_db s) ys
   | "VERIFY" -> let db = rd_db () in let l = rd_str () in w (if M.mm_verify db l then "1" else "0")
   | "AGREE" -> let db = rd_db () in let s = rd_db () in let l = rd_str () in
                w (if M.scope_agree db s l then "1" else "0")
   | "HYPS3" -> let db = rd_db () in let l = rd_str () in
                w (if M.sym_disjoint db then "1" else "0"); w (if M.compressed_lemma db l then "1" else "0")
   | "DECL" -> let db = rd_db () in w (if M.declares_all db then "1" else "0")
   | "CONSISTENT" -> let db = rd_db () in w (if M.consistent db then "1" else "0")
   | c -> raise (Bad ("command " ^ c))
  );
  let s = Buffer.contents buf in
  if String.length s > 0 && s.[String.length s - 1] = ' ' then String.sub s 0 (String.length s - 1) else s

let () =
  (try while true do
     let line = input_line stdin in
     let out = (try handle line with Bad m -> "ERROR " ^ m | Failure m -> "ERROR " ^ m | Stack_overflow -> "ERROR stack") in
     print_string out; print_newline ()
   done with End_of_file -> ())

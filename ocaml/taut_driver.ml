(* Line-protocol driver for the extracted tautology-prover model (C09).
   Same request grammar and answer format as harness/impl/taut_runner.py.
   Trusted: int<->N/Z conversion, parsing and printing.
   usage: mlref_taut [--pinned] [--fuel n] [--timeout seconds]   (links the unix library for alarm()) *)
open Taut_model

let rec pos_of_int i = if i = 1 then XH else if i land 1 = 0 then XO (pos_of_int (i/2)) else XI (pos_of_int (i/2))
let n_of_int i = if i = 0 then N0 else Npos (pos_of_int i)
let rec int_of_pos = function XH -> 1 | XO p -> 2 * int_of_pos p | XI p -> 2 * int_of_pos p + 1
let int_of_n = function N0 -> 0 | Npos p -> int_of_pos p
let z_of_int i = if i = 0 then Z0 else if i > 0 then Zpos (pos_of_int i) else Zneg (pos_of_int (-i))
let int_of_z = function Z0 -> 0 | Zpos p -> int_of_pos p | Zneg p -> - (int_of_pos p)
let rec nat_of_int i = if i <= 0 then O else S (nat_of_int (i-1))

exception Bad

(* ---- parsing ---- *)
let toks s = ref (List.filter (fun x -> x <> "") (String.split_on_char ' ' s))
let next t = match !t with [] -> raise Bad | x :: r -> t := r; x
let rec parse_form t =
  let x = next t in
  match x.[0] with
  | 'b' -> FBot
  | 't' -> FTop
  | 'v' -> FVar (n_of_int (int_of_string (String.sub x 1 (String.length x - 1))))
  | 'n' -> FNeg (parse_form t)
  | c -> let a = parse_form t in let b = parse_form t in
         (match c with 'i' -> FImp (a, b) | 'a' -> FAnd (a, b) | 'o' -> FOr (a, b) | 'e' -> FEquiv (a, b) | _ -> raise Bad)
let rec parse_cf t =
  let x = next t in
  let n = x.[1] = '1' in
  match x.[0] with
  | 'B' -> CBot n
  | 'V' -> CVar (n, n_of_int (int_of_string (String.sub x 3 (String.length x - 3))))
  | 'O' -> let l = parse_cf t in let r = parse_cf t in COr (n, l, r)
  | 'A' -> let l = parse_cf t in let r = parse_cf t in CAnd (n, l, r)
  | _ -> raise Bad
let parse_clause s =
  let s = String.concat "" (String.split_on_char '[' s) in
  let s = String.concat "" (String.split_on_char ']' s) in
  let s = String.concat "" (String.split_on_char '{' s) in
  let s = String.concat "" (String.split_on_char '}' s) in
  if s = "" then [] else List.map (fun x -> z_of_int (int_of_string x)) (String.split_on_char ',' s)
let parse_clauses s =
  if s.[0] <> 'L' then raise Bad;
  let body = String.sub s 1 (String.length s - 1) in
  if body = "" then [] else begin
    (* split on "][" *)
    let inner = String.sub body 1 (String.length body - 2) in
    let parts = ref [] and cur = Buffer.create 16 in
    let n = String.length inner in
    let i = ref 0 in
    while !i < n do
      if !i + 1 < n && inner.[!i] = ']' && inner.[!i+1] = '[' then begin
        parts := Buffer.contents cur :: !parts; Buffer.clear cur; i := !i + 2 end
      else begin Buffer.add_char cur inner.[!i]; incr i end
    done;
    parts := Buffer.contents cur :: !parts;
    List.rev_map parse_clause !parts
  end

(* ---- printing ---- *)
let rec show_core = function
  | KBot -> "b" | KVar n -> "v" ^ string_of_int (int_of_n n)
  | KImp (a, b) -> "i " ^ show_core a ^ " " ^ show_core b
let b01 b = if b then "1" else "0"
let rec show_cf = function
  | CBot n -> "B" ^ b01 n
  | CVar (n, i) -> "V" ^ b01 n ^ ":" ^ string_of_int (int_of_n i)
  | COr (n, l, r) -> "O" ^ b01 n ^ " " ^ show_cf l ^ " " ^ show_cf r
  | CAnd (n, l, r) -> "A" ^ b01 n ^ " " ^ show_cf l ^ " " ^ show_cf r
let ints c = String.concat "," (List.map (fun z -> string_of_int (int_of_z z)) c)
let show_clause c = "[" ^ ints c ^ "]"
let show_clauses cs = "L" ^ String.concat "" (List.map show_clause cs)
let show_set c = "{" ^ ints c ^ "}"
let show_hint h =
  if h = [] then "-" else
  String.concat " " (List.map (fun (k, v) -> match v with
    | HIdx i -> show_set k ^ "=I" ^ string_of_int (int_of_n i)
    | HRes (l, r, x) -> show_set k ^ "=R" ^ show_set l ^ show_set r ^ string_of_int (int_of_z x)) h)

let no_shadow = ref true
let fuel = ref (nat_of_int 200000)

exception Out of string   (* "ERR" | "FUEL" *)
let get = function Ok a -> a | Err -> raise (Out "ERR") | Fuel -> raise (Out "FUEL")
let geto = function Some a -> a | None -> raise (Out "ERR")

let show_resolution cls =
  let ((v, l), h) = get (start_resolution !no_shadow !fuel cls) in
  let vs = match v with None -> "N" | Some true -> "T" | Some false -> "F" in
  let build = match v with
    | Some false -> let b = get (build_term !fuel h [] cls) in
                    if b <> [] then raise (Out "ERR") else show_clause b
    | _ -> "-" in
  let ls = if l = [] then "-" else String.concat "" (List.map show_set l) in
  (v, Printf.sprintf "res=%s l=%s hint=%s build=%s" vs ls (show_hint h) build)

let cmd_P arg =
  let f = parse_form (toks arg) in
  let out = ref [ "expand=" ^ show_core (expand f) ] in
  let add s = out := s :: !out in
  let fin () = String.concat " ; " (List.rev !out) in
  let dec = decide !no_shadow !fuel f in
  let vd = match dec with Ok None -> "N" | Ok (Some true) -> "T" | Ok (Some false) -> "F" | Err -> "ERR" | Fuel -> "FUEL" in
  let conj = to_conj_form (FNeg f) in
  add ("conj=" ^ show_cf conj);
  (* proof layer (schema level): conclusions of the proofs returned by to_conj_form / propag_neg *)
  let pl = (match tcfp (expand (FNeg f)) with
    | None -> "NONE"
    | Some ((c, l), r) ->
       let s1 = show_core l ^ "|" ^ (match r with None -> "-" | Some x -> show_core x) in
       let s2 = (match c with CBot _ -> "-" | _ ->
                  (match pnp false c with None -> "NONE" | Some ((_, p1), p2) -> show_core p1 ^ "|" ^ show_core p2)) in
       Digest.to_hex (Digest.string (s1 ^ "|" ^ s2))) in
  add ("pl=" ^ pl);
  (match conj with
   | CBot n -> add ("verdict=" ^ (if n then "F" else "T")); if vd <> (if n then "F" else "T") then add ("DECIDE-MISMATCH " ^ vd)
   | _ ->
     let n = geto (propag_neg conj) in add ("neg=" ^ show_cf n);
     let c = get (to_cnf !fuel n) in add ("cnf=" ^ show_cf c);
     (match to_cnf_p !fuel n with
      | Ok ((_, q1), q2) -> add ("plc=" ^ Digest.to_hex (Digest.string (show_core q1 ^ "|" ^ show_core q2)))
      | _ -> add "plc=NONE");
     let cls = geto (to_clauses c) in add ("cls=" ^ show_clauses cls);
     (match to_clauses_p c with
      | Some ((_, q1), q2) -> add ("pll=" ^ Digest.to_hex (Digest.string (show_core q1 ^ "|" ^ show_core q2)))
      | None -> add "pll=NONE");
     let (v, s) = show_resolution cls in add s;
     let vs = match v with None -> "N" | Some true -> "F" | Some false -> "T" in
     add ("verdict=" ^ vs);
     (* conclusions of the proofs returned by start_resolution_algorithm and prove_tautology (glue model with
        the modelled helpers) *)
     let show_pf = function
       | Ok (Some (b, c)) -> (if b then "T" else "F") ^ show_core c
       | Ok None -> "N" | Err -> "ERR" | Fuel -> "FUEL" in
     add ("plf=" ^ Digest.to_hex (Digest.string (show_pf (start_resolution_p model_pieces !no_shadow !fuel cls) ^ "|" ^
                                                 show_pf (prove_tautology_p model_pieces !no_shadow !fuel f))));
     add ("entry=" ^ vd));
  fin ()

let handle line =
  let i = try String.index line ' ' with Not_found -> String.length line in
  let cmd = String.sub line 0 i in
  let arg = if i >= String.length line then "" else String.sub line (i+1) (String.length line - i - 1) in
  match cmd with
  | "P" -> cmd_P arg
  | "N" -> show_cf (geto (propag_neg (parse_cf (toks arg))))
  | "C" -> show_cf (get (to_cnf !fuel (parse_cf (toks arg))))
  | "L" -> show_clauses (geto (to_clauses (parse_cf (toks arg))))
  | "R" -> snd (show_resolution (parse_clauses (String.trim arg)))
  | "V" -> (match String.split_on_char ' ' (String.trim arg) with
            | [a; b] -> (match resolvable (mkset (parse_clause a)) (mkset (parse_clause b)) with
                         | None -> "None"
                         | Some (r, rs) -> string_of_int (int_of_z r) ^ " " ^ show_set rs)
            | _ -> raise Bad)
  | "SC" -> (match String.split_on_char ' ' (String.trim arg) with
            | [a; x] -> (match s_simplify (parse_clause a) (z_of_int (int_of_string x)) with
                         | Some c -> Digest.to_hex (Digest.string (show_core c)) | None -> "ERR")
            | _ -> raise Bad)
  | "TC" -> (match s_trivial (parse_clause (String.trim arg)) with
             | Some c -> Digest.to_hex (Digest.string (show_core c)) | None -> "ERR")
  | "OM" -> (match String.split_on_char ' ' (String.trim arg) with
            | [ps; n] -> let ps = List.map (fun z -> nat_of_int (int_of_z z)) (parse_clause ps) in
                         let terms = List.init (int_of_string n) (fun i -> KVar (n_of_int i)) in
                         (match or_move_to_front ps terms with
                          | Some c -> Digest.to_hex (Digest.string (show_core c)) | None -> "ERR")
            | _ -> raise Bad)
  | "MC" -> (match String.split_on_char ' ' (String.trim arg) with
            | [a; b] -> let l = parse_clause a and r = parse_clause b in
                        (match s_merge (clause_core l) (nat_of_int (List.length l)) (clause_core r) with
                         | Some c -> Digest.to_hex (Digest.string (show_core c)) | None -> "ERR")
            | _ -> raise Bad)
  | "S" -> (match String.split_on_char ' ' (String.trim arg) with
            | [a; x] -> show_clause (simplify_clause (parse_clause a) (z_of_int (int_of_string x)))
            | _ -> raise Bad)
  | _ -> "BADCMD"

exception Timeout
let tmo = ref 10

let () =
  Array.iteri (fun i a ->
    if a = "--pinned" then no_shadow := false;
    if a = "--timeout" then tmo := int_of_string Sys.argv.(i+1);
    if a = "--fuel" then fuel := nat_of_int (int_of_string Sys.argv.(i+1))) Sys.argv;
  Sys.set_signal Sys.sigalrm (Sys.Signal_handle (fun _ -> raise Timeout));
  (try while true do
    let line = input_line stdin in
    if line = "" then print_endline "" else begin
    let out = (try (ignore (Unix.alarm !tmo); let r = handle line in ignore (Unix.alarm 0); r)
               with Out s -> s | Bad -> "BAD" | Failure _ -> "BAD" | Invalid_argument _ -> "BAD"
                  | Stack_overflow -> "STACK" | Timeout -> "TIMEOUT" | Not_found -> "BAD") in
    ignore (Unix.alarm 0);
    print_endline out end
  done with End_of_file -> ())

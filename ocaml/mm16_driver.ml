(* Line protocol for the extracted C16 models.  Trusted: tokenising, int<->N conversion, printing.
   Request:  <cmd> <flags> <target-label> <db tokens...>
     cmd = T (translate)  V (reference verifier)  G (in_fragment)  X (translate + verify with the checker model)
   Database tokens (whitespace separated), items in order:
     F <label> <tc> <v>
     A <label> <k> (<label> <stmt>)*k <stmt>
     P <label> <k> (<label> <stmt>)*k <stmt> <n> <label>*n <m> <step>*m
   stmt  = <tc> <nterms> <term>*      term = v <n> | a <c> <nargs> <term>*
   label = i | p | 1 | 2 | m | r<n> | o<n>                                            *)
open Mm16_model

let rec pos_of_int i = if i = 1 then XH else if i land 1 = 0 then XO (pos_of_int (i/2)) else XI (pos_of_int (i/2))
let n_of_int i = if i = 0 then N0 else Npos (pos_of_int i)
let rec int_of_pos = function XH -> 1 | XO p -> 2 * int_of_pos p | XI p -> 2 * int_of_pos p + 1
let int_of_n = function N0 -> 0 | Npos p -> int_of_pos p

let hex l = if l = [] then "-" else String.concat "" (List.map (fun b -> Printf.sprintf "%02x" (int_of_n b)) l)
let hexi l = if l = [] then "-" else String.concat "" (List.map (Printf.sprintf "%02x") l)

let rec enc p = match p with
  | EVar n -> [0; int_of_n n] | SVar n -> [1; int_of_n n] | Sym n -> [2; int_of_n n]
  | Imp (l, r) -> 3 :: enc l @ enc r | App (l, r) -> 4 :: enc l @ enc r
  | Ex (x, p) -> 5 :: int_of_n x :: enc p | Mu (x, p) -> 6 :: int_of_n x :: enc p
  | MVar (id, a, b, c, d, e) ->
      7 :: int_of_n id :: List.concat_map (fun l -> List.length l :: List.map int_of_n l) [a; b; c; d; e]
  | ESub (p, x, q) -> 8 :: enc p @ (int_of_n x :: enc q)
  | SSub (p, x, q) -> 9 :: enc p @ (int_of_n x :: enc q)
let show p = hexi (enc p)
let show_term = function TPat p -> "P" ^ show p | TProved p -> "T" ^ show p
let show_state st =
  Printf.sprintf "S[%s] M[%s] C[%s]"
    (String.concat "," (List.map show_term st.stack))
    (String.concat "," (List.map show_term st.memory))
    (String.concat "," (List.map show st.claims))

exception Bad of string
let parse_db (tk:string array) (start:int) : db =
  let i = ref start in
  let next () = if !i >= Array.length tk then raise (Bad "eof") else (let s = tk.(!i) in incr i; s) in
  let num () = n_of_int (int_of_string (next ())) in
  let inum () = int_of_string (next ()) in
  let label_of s =
    match s with
    | "i" -> LImpIsPattern | "p" -> LAppIsPattern | "1" -> LProp1 | "2" -> LProp2 | "m" -> LMp
    | _ ->
      let n = n_of_int (int_of_string (String.sub s 1 (String.length s - 1))) in
      (match s.[0] with 'r' -> LRuleOther n | 'o' -> LOther n | _ -> raise (Bad ("label " ^ s))) in
  let label () = label_of (next ()) in
  let rec term () =
    match next () with
    | "v" -> TVar (num ())
    | "a" -> let c = num () in let k = inum () in TApp (c, List.init k (fun _ -> ()) |> List.map (fun () -> term ()))
    | s -> raise (Bad ("term " ^ s)) in
  let stmt () = let tc = num () in let k = inum () in (tc, List.init k (fun _ -> ()) |> List.map (fun () -> term ())) in
  let assertion () =
    let l = label () in let k = inum () in
    let ess = List.init k (fun _ -> ()) |> List.map (fun () -> let el = label () in let s = stmt () in (el, s)) in
    let s = stmt () in
    { a_label = l; a_ess = ess; a_stmt = s } in
  let items = ref [] in
  while !i < Array.length tk do
    (match next () with
     | "F" -> let l = label () in let tc = num () in let v = num () in items := IFloat (l, tc, v) :: !items
     | "A" -> items := IAx (assertion ()) :: !items
     | "P" -> let a = assertion () in
              let n = inum () in let pl = List.init n (fun _ -> ()) |> List.map (fun () -> label ()) in
              let m = inum () in let st = List.init m (fun _ -> ()) |> List.map (fun () -> num ()) in
              items := IProv (a, pl, st) :: !items
     | s -> raise (Bad ("item " ^ s)))
  done;
  List.rev !items

let label_of_string s =
  match s with
  | "i" -> LImpIsPattern | "p" -> LAppIsPattern | "1" -> LProp1 | "2" -> LProp2 | "m" -> LMp
  | _ -> let n = n_of_int (int_of_string (String.sub s 1 (String.length s - 1))) in
         (match s.[0] with 'r' -> LRuleOther n | _ -> LOther n)

let run line =
  let tk = Array.of_list (List.filter (fun s -> s <> "") (String.split_on_char ' ' line)) in
  let cmd = tk.(0) in
  let allc = tk.(1) = "1" in
  let target = label_of_string tk.(2) in
  let d = parse_db tk 3 in
  match cmd with
  | "V" -> if mm_verify d target then "1" else "0"
  | "G" -> if in_fragment d target then "1" else "0"
  | "T" | "X" ->
    (match translate_gen allc d target with
     | None -> "NONE"
     | Some ((g, c), p) ->
       let imgs = (match spec_images allc d target with
                   | Some (axs, cl) -> "CL " ^ show cl ^ " AX " ^ String.concat "," (List.map show axs)
                   | None -> "CL ? AX ?") in
       let verdict = if cmd = "X" then
           (match verify guards_sound g c p with Some st -> " ACCEPT " ^ show_state st | None -> " REJECT")
         else "" in
       Printf.sprintf "OK %s %s %s %s%s" (hex g) (hex c) (hex p) imgs verdict)
  | _ -> "BAD"

let () =
  (try while true do
    let line = input_line stdin in
    if String.trim line <> "" then
      print_endline (try run line with Bad s -> "BAD " ^ s | Invalid_argument s -> "BAD " ^ s | Failure s -> "BAD " ^ s | Not_found -> "BAD nf")
  done with End_of_file -> ())

(* Line protocol for the extracted generator-pattern model (coq/Py/Pattern.v, Py/Pretty.v).
   Trusted: tokenising, int<->N conversion, term reader/printer.
   Term syntax (prefix, space separated, all numbers decimal):
     e N | s N | y N | i A B | a A B | x N A | m N A | v id k ef.. k sf.. k pos.. k neg.. k holes..
     | E A N B | S A N B | I A k (key V)*          delta:  k (key V)*
   Request:  OP flags args...   flags = 6 chars 0/1:
     fresh_simplify inst_extend mv_keep_subst match_list_none assert_none match_simplify *)
open Py_model

let rec pos_of_int i = if i = 1 then XH else if i land 1 = 0 then XO (pos_of_int (i/2)) else XI (pos_of_int (i/2))
let n_of_int i = if i < 0 then failwith "neg" else if i = 0 then N0 else Npos (pos_of_int i)
let rec int_of_pos = function XH -> 1 | XO p -> 2 * int_of_pos p | XI p -> 2 * int_of_pos p + 1
let int_of_n = function N0 -> 0 | Npos p -> int_of_pos p
let rec nat_of_int i = if i <= 0 then O else S (nat_of_int (i-1))
let rec int_of_nat = function O -> 0 | S n -> 1 + int_of_nat n

let fuel = ref (nat_of_int 200000)

exception Bad
type toks = { a : string array; mutable i : int }
let next t = if t.i >= Array.length t.a then raise Bad else (let s = t.a.(t.i) in t.i <- t.i + 1; s)
let int t = try int_of_string (next t) with Failure _ -> raise Bad
let num t = n_of_int (int t)
let rec times k f = if k <= 0 then [] else let x = f () in x :: times (k-1) f
let nlist t = let k = int t in times k (fun () -> num t)

let rec term t =
  match next t with
  | "e" -> PEVar (num t) | "s" -> PSVar (num t) | "y" -> PSym (num t)
  | "i" -> let l = term t in let r = term t in PImp (l, r)
  | "a" -> let l = term t in let r = term t in PApp (l, r)
  | "x" -> let x = num t in let p = term t in PEx (x, p)
  | "m" -> let x = num t in let p = term t in PMu (x, p)
  | "v" -> let id = num t in let a = nlist t in let b = nlist t in let c = nlist t in let d = nlist t in
           let e = nlist t in PMVar (id, a, b, c, d, e)
  | "E" -> let p = term t in let x = num t in let q = term t in PESub (p, x, q)
  | "S" -> let p = term t in let x = num t in let q = term t in PSSub (p, x, q)
  | "I" -> let p = term t in let d = delta t in PInst (p, d)
  | _ -> raise Bad
and delta t = let k = int t in times k (fun () -> let key = num t in let v = term t in (key, v))

let nl l = string_of_int (List.length l) :: List.map (fun n -> string_of_int (int_of_n n)) l
let rec sh p = match p with
  | PEVar n -> ["e"; string_of_int (int_of_n n)] | PSVar n -> ["s"; string_of_int (int_of_n n)]
  | PSym n -> ["y"; string_of_int (int_of_n n)]
  | PImp (l, r) -> "i" :: sh l @ sh r | PApp (l, r) -> "a" :: sh l @ sh r
  | PEx (x, p) -> "x" :: string_of_int (int_of_n x) :: sh p
  | PMu (x, p) -> "m" :: string_of_int (int_of_n x) :: sh p
  | PMVar (id, a, b, c, d, e) -> "v" :: string_of_int (int_of_n id) :: List.concat_map nl [a; b; c; d; e]
  | PESub (p, x, q) -> "E" :: sh p @ (string_of_int (int_of_n x) :: sh q)
  | PSSub (p, x, q) -> "S" :: sh p @ (string_of_int (int_of_n x) :: sh q)
  | PInst (p, d) -> "I" :: sh p @ shd d
and shd d = string_of_int (List.length d) :: List.concat_map (fun (k, v) -> string_of_int (int_of_n k) :: sh v) d
let show p = String.concat " " (sh p)
let showd d = String.concat " " (shd d)
let b2s b = if b then "1" else "0"

let flags s =
  if String.length s <> 6 then raise Bad;
  let b i = s.[i] = '1' in
  { f_fresh_simplify = b 0; f_inst_extend = b 1; f_mv_keep_subst = b 2;
    f_match_list_none = b 3; f_assert_none = b 4; f_match_simplify = b 5 }

let fmt t = let k = int t in
  times k (fun () -> match next t with
    | "L" -> let n = int t in Lit (times n (fun () -> num t))
    | "H" -> Hole (nat_of_int (int t))
    | _ -> raise Bad)
let nots : (int, notation) Hashtbl.t = Hashtbl.create 64
let notation t =
  let s = next t in
  if String.length s > 0 && s.[0] = '#' then
    (try Hashtbl.find nots (int_of_string (String.sub s 1 (String.length s - 1))) with Not_found | Failure _ -> raise Bad)
  else begin
    let ar = (try int_of_string s with Failure _ -> raise Bad) in let d = term t in let f = fmt t in
    { nt_label = []; nt_arity = nat_of_int ar; nt_def = d; nt_fmt = f }
  end
let syms : (n * str) list ref = ref []

let str t = let k = int t in times k (fun () -> num t)
let call t =
  match next t with
  | "EV" -> KEVar (num t) | "SV" -> KSVar (num t) | "SY" -> KSymbol (str t)
  | "MV" -> let id = num t in let a = nlist t in let b = nlist t in let c = nlist t in let d = nlist t in
            let e = nlist t in KMetaVar (id, a, b, c, d, e)
  | "IM" -> KImplies | "AP" -> KApp | "EX" -> KExists (num t) | "MU" -> KMu (num t)
  | "ES" -> KESubst (num t) | "SS" -> KSSubst (num t)
  | "P1" -> KProp1 | "P2" -> KProp2 | "P3" -> KProp3 | "MP" -> KModusPonens | "QU" -> KQuantifier
  | "GE" -> KGeneralization (num t) | "IN" -> KInst (nlist t)
  | "PO" -> KPop | "SA" -> KSave | "LO" -> let s = str t in let i = num t in KLoad (s, i) | "PU" -> KPublish
  | _ -> raise Bad

let fuelled = function None -> "FUEL" | Some s -> s
let tuple l = String.concat " " (string_of_int (List.length l) :: List.map show l)

let run line =
  let t = { a = Array.of_list (List.filter (fun s -> s <> "") (String.split_on_char ' ' line)); i = 0 } in
  let op = next t in
  match op with
  | "FUEL" -> fuel := nat_of_int (int t); "OK"
  | "SYM" -> let id = num t in let k = int t in let s = times k (fun () -> num t) in
             syms := (id, s) :: List.filter (fun (i, _) -> i <> id) !syms; "OK"
  | "NOT" -> let id = int t in let nt = notation t in Hashtbl.replace nots id nt; "OK"
  | _ ->
  let f = flags (next t) in
  let n = !fuel in
  match op with
  | "X" -> show (embed (expand f (term t)))
  | "I" -> let p = term t in let d = delta t in fuelled (Option.map show (py_inst f n p d))
  | "ES" -> let p = term t in let x = num t in let q = term t in fuelled (Option.map show (py_esubst f n p x q))
  | "SS" -> let p = term t in let x = num t in let q = term t in fuelled (Option.map show (py_ssubst f n p x q))
  | "SIMP" -> fuelled (Option.map show (simplify f n (term t)))
  | "HNF" -> fuelled (Option.map show (hnf f n (term t)))
  | "EQ" -> let a = term t in let b = term t in fuelled (Option.map b2s (py_eq f n a b))
  | "FR" -> let p = term t in let x = num t in fuelled (Option.map b2s (py_fresh f n p x))
  | "MV" -> let l = List.sort_uniq compare (List.map int_of_n (metavars (term t))) in
            String.concat " " ("MV" :: List.map string_of_int l)
  | "MS" -> let p = term t in let i = term t in let d = delta t in
            fuelled (Option.map (function None -> "NONE" | Some d -> showd d) (match_single f n p i d))
  | "ML" -> let k = int t in let eqs = times k (fun () -> let p = term t in let i = term t in (p, i)) in
            fuelled (Option.map (function None -> "NONE" | Some d -> showd d) (match_list f n eqs []))
  | "MSI" -> let p = term t in let i = term t in let d = delta t in
      (match match_single f n p i d with
       | None -> "FUEL" | Some None -> "NONE"
       | Some (Some th) ->
         (match py_inst f n p th with None -> "FUEL" | Some r ->
           (match py_eq f n r i with None -> "FUEL" | Some b -> b2s b)))
  | "MLI" -> let k = int t in let eqs = times k (fun () -> let p = term t in let i = term t in (p, i)) in
      (match match_list f n eqs [] with
       | None -> "FUEL" | Some None -> "NONE"
       | Some (Some th) ->
         (try b2s (List.for_all (fun (p, i) ->
              match py_inst f n p th with None -> raise Exit | Some r ->
                (match py_eq f n r i with None -> raise Exit | Some b -> b)) eqs)
          with Exit -> "FUEL"))
  | "RT" -> let nt = notation t in let k = int t in let args = times k (fun () -> term t) in
      (match ncall nt args with None -> "RAISE" | Some app ->
        (match nassert f n nt app with None -> "FUEL" | Some None -> "RAISE"
         | Some (Some res) ->
           (match ncall nt res with None -> "RAISE" | Some app' ->
             (match py_eq f n app' app with None -> "FUEL" | Some b -> b2s b ^ " " ^ tuple res))))
  | "HIST" -> let k = int t in
      let item () = (match next t with
        | "MS" -> let p = term t in let i = term t in let dl = delta t in
                  fuelled (Option.map (function None -> "NONE" | Some d -> showd d) (match_single f n p i dl))
        | "ML" -> let m = int t in let eqs = times m (fun () -> let p = term t in let i = term t in (p, i)) in
                  fuelled (Option.map (function None -> "NONE" | Some d -> showd d) (match_list f n eqs []))
        | _ -> raise Bad) in
      String.concat " | " (times k item)
  | "NC" -> let nt = notation t in let k = int t in let args = times k (fun () -> term t) in
            (match ncall nt args with None -> "RAISE" | Some p -> show p)
  | "NM" -> let nt = notation t in let p = term t in
            fuelled (Option.map (function None -> "NONE" | Some l -> tuple l) (nmatches f n nt p))
  | "NA" -> let nt = notation t in let p = term t in
            fuelled (Option.map (function None -> "RAISE" | Some l -> tuple l) (nassert f n nt p))
  | "UI" -> fuelled (Option.map (function None -> "NONE" | Some (l, r) -> show l ^ " " ^ show r) (unwrap_imp f n (term t)))
  | "UA" -> fuelled (Option.map (function None -> "NONE" | Some (l, r) -> show l ^ " " ^ show r) (unwrap_app f n (term t)))
  | "DE" -> fuelled (Option.map (function None -> "NONE" | Some x -> string_of_int (int_of_n x)) (decon_evar f n (term t)))
  | "DS" -> fuelled (Option.map (function None -> "NONE" | Some x -> string_of_int (int_of_n x)) (decon_svar f n (term t)))
  | "DY" -> fuelled (Option.map (function None -> "NONE" | Some x -> string_of_int (int_of_n x)) (decon_sym f n (term t)))
  | "DX" -> fuelled (Option.map (function None -> "NONE" | Some (x, q) -> string_of_int (int_of_n x) ^ " " ^ show q) (decon_ex f n (term t)))
  | "DM" -> fuelled (Option.map (function None -> "NONE" | Some (x, q) -> string_of_int (int_of_n x) ^ " " ^ show q) (decon_mu f n (term t)))
  | "UW" | "UE" -> let c = num t in let p = term t in
      fuelled (Option.map (function None -> (if op = "UW" then "NONE" else "RAISE") | Some l -> tuple l) (unwrap_cls f n c p))
  | "DN" -> fuelled (Option.map (fun (h, args) -> "H " ^ show h ^ " " ^ tuple args) (decon_nary f n (term t)))
  | "DNP" -> let a = term t in let b = term t in
      let one p = fuelled (Option.map (fun (h, args) -> "H " ^ show h ^ " " ^ tuple args) (decon_nary f n p)) in
      one a ^ " | " ^ one b
  | "MP" | "MPS" | "MPX" -> let l = term t in let r = term t in
            fuelled (Option.map (function None -> "RAISE" | Some p -> show p) (basic_mp f n l r))
  | "GEN" | "GENS" -> let c = term t in let x = num t in
             fuelled (Option.map (function None -> "RAISE" | Some p -> show p) (basic_gen f n c x))
  | "BI" | "BIS" -> let c = term t in let d = delta t in fuelled (Option.map show (basic_inst f n c d))
  | "PR" -> let simp = (next t = "1") in let k = int t in
            let ids = times k (fun () -> int t) in
            (* {n.definition: n for n in notations}: the LAST notation with a given definition wins *)
            let nts = List.rev (List.map (fun i -> try Hashtbl.find nots i with Not_found -> raise Bad) ids) in
            let o = { o_simplify = simp; o_notations = nts; o_syms = !syms } in
            let p = term t in
            fuelled (Option.map (function None -> "RAISE"
                                        | Some s -> String.concat " " ("S" :: List.map (fun c -> string_of_int (int_of_n c)) s))
                       (pretty f n o p))
  | "PRI" -> (* pretty (p.instantiate delta): the printed argument order of an instantiated notation application *)
            let simp = (next t = "1") in let k = int t in
            let ids = times k (fun () -> int t) in
            let nts = List.rev (List.map (fun i -> try Hashtbl.find nots i with Not_found -> raise Bad) ids) in
            let o = { o_simplify = simp; o_notations = nts; o_syms = !syms } in
            let p = term t in let d = delta t in
            (match py_inst f n p d with
             | None -> "FUEL"
             | Some q ->
            fuelled (Option.map (function None -> "RAISE"
                                        | Some s -> String.concat " " ("S" :: List.map (fun c -> string_of_int (int_of_n c)) s))
                       (pretty f n o q)))
  | "EMIT" -> let k = int t in let cs = times k (fun () -> call t) in
      let bs = emits [] cs in
      let ints l = String.concat " " (List.map (fun c -> string_of_int (int_of_n c)) l) in
      let dec = (match decode (nat_of_int k) bs with
                 | Some l -> if List.length l = k then "1" else "0" | None -> "0") in
      "B " ^ dec ^ " " ^ ints bs ^ " | " ^ String.concat " ; " (List.map (fun c -> ints (pretty_step c)) cs)
  | "COV" -> let nt = notation t in b2s (covers nt)
  | _ -> raise Bad

let () =
  (try while true do
    let line = input_line stdin in
    if String.trim line <> "" then
      print_endline (try run line with Bad | Invalid_argument _ | Failure _ | Not_found -> "BAD")
  done with End_of_file -> ())

(* Line protocol for the extracted C18 finalize model.  Trusted: int<->N/Z conversion, parsing, printing.
   F <oracle id|rev|rot> <slots> <memory a,b,..|_> <entry>|<entry>|...      entry = uses;score;cx;k:n,k:n (or _)
   keys are the positions of the entries (0-based).  Answer: OK <suggested in order chosen a,b,..|_> <u;s;c|...> or N *)
open Det_model

let rec pos_of_int i = if i = 1 then XH else if i land 1 = 0 then XO (pos_of_int (i/2)) else XI (pos_of_int (i/2))
let n_of_int i = if i = 0 then N0 else Npos (pos_of_int i)
let z_of_int i = if i = 0 then Z0 else if i > 0 then Zpos (pos_of_int i) else Zneg (pos_of_int (-i))
let rec int_of_pos = function XH -> 1 | XO p -> 2 * int_of_pos p | XI p -> 2 * int_of_pos p + 1
let int_of_n = function N0 -> 0 | Npos p -> int_of_pos p
let int_of_z = function Z0 -> 0 | Zpos p -> int_of_pos p | Zneg p -> - (int_of_pos p)
let rec nat_of_int i = if i <= 0 then O else S (nat_of_int (i-1))

(* strings: dot-separated code points ("-" empty); lists of strings ';'-separated ("_" empty list) *)
let str_of s = if s = "-" then [] else List.map (fun x -> n_of_int (int_of_string x)) (String.split_on_char '.' s)
let show_str l = if l = [] then "-" else String.concat "." (List.map (fun c -> string_of_int (int_of_n c)) l)
let strs_of s = if s = "_" then [] else List.map str_of (String.split_on_char ';' s)
let show_strs l = if l = [] then "_" else String.concat ";" (List.map show_str l)

let split c s = if s = "_" || s = "" then [] else String.split_on_char c s

let run line =
  let f = Array.of_list (List.filter (fun s -> s <> "") (String.split_on_char ' ' line)) in
  match f.(0) with
  | "F" ->
    let ord = (match f.(1) with "rev" -> ord_rev | "rot" -> ord_rot | _ -> ord_id) in
    let slots = nat_of_int (int_of_string f.(2)) in
    let memo = List.map (fun x -> n_of_int (int_of_string x)) (split ',' f.(3)) in
    let entries = split '|' f.(4) in
    let u = List.mapi (fun i e ->
      match String.split_on_char ';' e with
      | [a; b; c; d] ->
        let used = List.map (fun kv -> match String.split_on_char ':' kv with
                                        | [k; n] -> (n_of_int (int_of_string k), z_of_int (int_of_string n))
                                        | _ -> failwith "kv") (split ',' d) in
        (n_of_int i, { uses = z_of_int (int_of_string a); score = z_of_int (int_of_string b);
                       cx = z_of_int (int_of_string c); used = used })
      | _ -> failwith "entry") entries in
    (match finalize ord slots memo u with
     | None -> "N"
     | Some (u', sug) ->
       let s = if sug = [] then "_" else String.concat "," (List.map (fun k -> string_of_int (int_of_n k)) sug) in
       let t = String.concat "|" (List.map (fun (_, st) ->
                 Printf.sprintf "%d;%d;%d" (int_of_z st.uses) (int_of_z st.score) (int_of_z st.cx)) u') in
       "OK " ^ s ^ " " ^ (if t = "" then "_" else t))
  | "Q" -> show_strs (sort_str (strs_of f.(1)))
  | "M" -> show_strs (metavars_in_order (strs_of f.(1)) (strs_of f.(2)))
  | "K" -> (* K <base> <selected names> : numbers given by GlobalScope.unambiguize in the all-same-choice scope *)
           let rec int_of_nat = function O -> 0 | S n -> 1 + int_of_nat n in
           let r = unambiguize_numbers (nat_of_int (int_of_string f.(1))) (strs_of f.(2)) in
           if r = [] then "_" else String.concat ";" (List.map (fun (v, n) -> show_str v ^ "=" ^ string_of_int (int_of_nat n)) r)
  | "U" -> show_strs (unlink_all (strs_of f.(1)) (strs_of f.(2)))
  | _ -> "?"

let () =
  (try while true do
    let line = input_line stdin in
    (try print_endline (run line) with _ -> print_endline "ERR")
  done with End_of_file -> ())

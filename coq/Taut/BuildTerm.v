(** C09 — the clause-level skeleton of build_proof_from_hint never trips its asserts on a hint
    dictionary produced by the resolution loop (either variant), and rebuilds the empty clause. *)
From Coq Require Import ZArith NArith List Bool Lia.
From Pi2 Require Import Taut.Model Taut.Stages Taut.Sets Taut.Resolution Taut.Complete Taut.Termination.
Import ListNotations.
Local Open Scope Z_scope.

Lemma sorted_ext : forall l1 l2, ssorted l1 -> ssorted l2 -> (forall y, In y l1 <-> In y l2) -> l1 = l2.
Proof.
  induction l1 as [|a1 t1 IH]; intros l2 S1 S2 H.
  - destruct l2 as [|a2 t2]; auto. exfalso. apply (proj2 (H a2)). cbn; auto.
  - destruct l2 as [|a2 t2]. { exfalso. apply (proj1 (H a1)). cbn; auto. }
    pose proof (ssorted_head_lt _ _ S1) as L1. pose proof (ssorted_head_lt _ _ S2) as L2.
    assert (a1 = a2).
    { destruct (proj1 (H a1) (or_introl eq_refl)) as [E|Hin]; auto.
      destruct (proj2 (H a2) (or_introl eq_refl)) as [E|Hin2]; auto.
      specialize (L1 _ Hin2). specialize (L2 _ Hin). lia. }
    subst a2. f_equal. apply IH; [eapply ssorted_tail; eauto|eapply ssorted_tail; eauto|].
    intros y. split; intros Hy.
    + destruct (proj1 (H y) (or_intror Hy)) as [E|Hin]; auto. specialize (L1 _ Hy). lia.
    + destruct (proj2 (H y) (or_intror Hy)) as [E|Hin]; auto. specialize (L2 _ Hy). lia.
Qed.

(** what an entry of the dictionary must satisfy w.r.t. the keys inserted before it *)
Definition src_ok (terms : list (list Z)) (before : list (list Z)) (k : list Z) (s : hsrc) : Prop :=
  match s with
  | HIdx i => exists c, nth_error terms (N.to_nat i) = Some c /\ mkset c = k
  | HRes a b x =>
      In a before /\ In b before /\ In (- x) a /\ In x b /\
      forall y, In y k <-> (In y a /\ y <> - x) \/ (In y b /\ y <> x)
  end.

Definition hint_ok (terms : list (list Z)) (h : hint) : Prop :=
  NoDup (map fst h) /\
  forall h1 k s h2, h = h1 ++ (k, s) :: h2 -> ssorted k /\ src_ok terms (map fst h1) k s.

Lemma hint_get_app : forall h1 k s h2, ~ In k (map fst h1) -> hint_get k (h1 ++ (k, s) :: h2) = Some s.
Proof.
  induction h1 as [|[k0 s0] t IH]; intros k s h2 Hn; cbn.
  - rewrite clause_eqb_refl. reflexivity.
  - destruct (clause_eqb k0 k) eqn:E.
    + apply clause_eqb_eq in E. subst. exfalso. apply Hn. cbn; auto.
    + apply IH. intro Hin. apply Hn. cbn; auto.
Qed.

Lemma build_term_mono : forall n h cl terms t, build_term n h cl terms = Ok t ->
  forall m, (n <= m)%nat -> build_term m h cl terms = Ok t.
Proof.
  induction n as [|n IH]; intros h cl terms t H m Hm; [discriminate|].
  destruct m as [|m]; [lia|]. assert (Hnm : (n <= m)%nat) by lia.
  cbn [build_term] in *.
  destruct (hint_get cl h) as [[i|ls rs x]|]; auto.
  destruct (build_term n h ls terms) as [tl| |] eqn:El; cbn [rbind] in H; try discriminate.
  destruct (build_term n h rs terms) as [tr| |] eqn:Er; cbn [rbind] in H; try discriminate.
  rewrite (IH _ _ _ _ El m Hnm), (IH _ _ _ _ Er m Hnm). exact H.
Qed.

Lemma NoDup_app_notin : forall (A : Type) (l1 l2 : list A) x, NoDup (l1 ++ x :: l2) -> ~ In x l1.
Proof.
  intros A l1 l2 x H Hin. apply NoDup_remove_2 in H. apply H. apply in_app_iff. auto.
Qed.

(** every key of a well-formed dictionary is rebuilt (as a list whose set is the key) with fuel
    proportional to its position *)
Lemma build_term_ok : forall terms h, hint_ok terms h ->
  forall p h1 k s h2, h = h1 ++ (k, s) :: h2 -> length h1 = p ->
  exists t, build_term (S p) h k terms = Ok t /\ mkset t = k.
Proof.
  intros terms h [Hnd Hok] p. induction p as [p IH] using lt_wf_ind.
  intros h1 k s h2 Eh Hlen.
  destruct (Hok _ _ _ _ Eh) as [Hs Hsrc].
  assert (Hnotin : ~ In k (map fst h1)).
  { rewrite Eh, map_app in Hnd. cbn in Hnd. eapply NoDup_app_notin; eauto. }
  assert (Hget : hint_get k h = Some s) by (rewrite Eh; apply hint_get_app; auto).
  cbn [build_term]. rewrite Hget.
  destruct s as [i|a b x]; cbn [src_ok] in Hsrc.
  - destruct Hsrc as (c & Ec & Em). exists c. rewrite Ec. cbn. auto.
  - destruct Hsrc as (Ha & Hb & Hxa & Hxb & Hk).
    assert (Hsub : forall c, In c (map fst h1) ->
              exists t, build_term p h c terms = Ok t /\ mkset t = c).
    { intros c Hc. apply in_map_iff in Hc as ([c' sc] & Ec & Hc). cbn in Ec. subst c'.
      apply in_split in Hc as (g1 & g2 & Eg).
      assert (Eh' : h = g1 ++ (c, sc) :: (g2 ++ (k, HRes a b x) :: h2)).
      { rewrite Eh, Eg. rewrite <- app_assoc. reflexivity. }
      assert (Hlt : (length g1 < p)%nat).
      { rewrite <- Hlen, Eg, app_length. cbn. lia. }
      destruct (IH _ Hlt _ _ _ _ Eh' eq_refl) as (t & Et & Em).
      exists t. split; auto. eapply build_term_mono; eauto. }
    destruct (Hsub a Ha) as (tl & El & Ml). destruct (Hsub b Hb) as (tr & Er & Mr).
    rewrite El, Er. cbn [rbind].
    assert (Hxl : In (- x) tl) by (apply (proj1 (mkset_in _ _)); rewrite Ml; auto).
    assert (Hxr : In x tr) by (apply (proj1 (mkset_in _ _)); rewrite Mr; auto).
    unfold simplify_clause.
    rewrite (proj2 (zmem_in _ _) Hxl), (proj2 (zmem_in _ _) Hxr).
    rewrite !Z.eqb_refl. cbn [andb].
    set (final := filter (fun y => negb (y =? - x)) tl ++ filter (fun y => negb (y =? x)) tr).
    assert (Efin : mkset final = k).
    { apply sorted_ext; [apply mkset_sorted|exact Hs|].
      intros y. rewrite mkset_in. unfold final. rewrite in_app_iff, !filter_In, !negb_true_iff, !Z.eqb_neq.
      rewrite Hk. rewrite <- Ml, <- Mr, !mkset_in. tauto. }
    rewrite Efin, clause_eqb_refl. exists final. auto.
Qed.

(* ------------------------------------------------------------------------------------------ *)
(** * the loop keeps the dictionary well formed *)

Lemma hint_ok_snoc : forall terms h k s,
  hint_ok terms h -> ~ In k (map fst h) -> ssorted k -> src_ok terms (map fst h) k s ->
  hint_ok terms (h ++ [(k, s)]).
Proof.
  intros terms h k s [Hnd Hok] Hn Hs Hsrc. split.
  - rewrite map_app. cbn. apply NoDup_snoc; auto.
  - intros h1 k' s' h2 E.
    destruct h2 as [|e h2'] using rev_ind.
    + apply app_inj_tail in E as [E1 E2]. inversion E2; subst. auto.
    + clear IHh2'. rewrite app_comm_cons, app_assoc in E. apply app_inj_tail in E as [E1 E2]. subst.
      eapply Hok; eauto.
Qed.

Lemma src_ok_mono : forall terms b1 b2 k s, incl b1 b2 -> src_ok terms b1 k s -> src_ok terms b2 k s.
Proof. intros terms b1 b2 k [i|a b x] Hi H; cbn in *; auto. intuition. Qed.

Lemma res_loop_hint_ok : forall terms ns fuel l h i cl1 j b l' h',
  res_loop ns fuel l h i cl1 j = Ok (b, l', h') ->
  hint_ok terms h -> incl l (map fst h) -> In cl1 l -> Forall ssorted l ->
  hint_ok terms h' /\ (b = true -> In [] (map fst h')).
Proof.
  intros terms ns fuel; induction fuel as [|fuel IH]; intros l h i cl1 j b l' h' H Hok Hincl Hin Hsl; [discriminate|].
  cbn [res_loop] in H.
  assert (Hnext : match nth_error l (S i) with
                  | Some c => res_loop ns fuel l h (S i) c 0
                  | None => Ok (false, l, h)
                  end = Ok (b, l', h') -> hint_ok terms h' /\ (b = true -> In [] (map fst h'))).
  { intros Hn. destruct (nth_error l (S i)) as [c|] eqn:En.
    - eapply IH; eauto. eapply nth_error_In; eauto.
    - inversion Hn; subst. split; [auto|discriminate]. }
  destruct (nth_error l j) as [cl2|] eqn:Ej; [|auto].
  destruct (clause_eqb cl2 cl1) eqn:Eeq; [auto|].
  assert (Hin2 : In cl2 l) by (eapply nth_error_In; eauto).
  destruct (resolvable cl1 cl2) as [[r rs]|] eqn:Er; [|eapply IH; eauto].
  destruct (hint_mem rs h) eqn:Em; [eapply IH; eauto|].
  pose proof (resolvable_some _ _ _ _ Er) as (Hr2 & Hr1 & Hrs & _).
  rewrite Forall_forall in Hsl.
  assert (Hsrs : ssorted rs) by (eapply resolvent_sorted; eauto).
  assert (Hnotin : ~ In rs (map fst h)).
  { intro Hc. apply hint_mem_in in Hc. congruence. }
  set (src := if r <? 0 then HRes cl2 cl1 (- r) else HRes cl1 cl2 r) in *.
  assert (Hsrc : src_ok terms (map fst h) rs src).
  { unfold src. destruct (r <? 0); cbn [src_ok]; rewrite ?Z.opp_involutive; repeat split; auto;
      try (intros Hy; apply (proj1 (Hrs y)) in Hy; tauto);
      try (intros Hy; apply (proj2 (Hrs y)); tauto). }
  pose proof (hint_ok_snoc _ _ _ _ Hok Hnotin Hsrs Hsrc) as Hok'.
  destruct rs as [|x rs'].
  - inversion H; subst. split; auto. intros _. rewrite map_app, in_app_iff. cbn; auto.
  - eapply IH; eauto.
    + intros c Hc. rewrite map_app, in_app_iff. apply in_app_iff in Hc as [Hc|[<-|[]]]; cbn; auto.
    + apply in_app_iff. left. destruct (r <? 0), ns; cbn; auto.
    + apply Forall_forall. intros c Hc. apply in_app_iff in Hc as [Hc|[<-|[]]]; auto.
Qed.

(* ------------------------------------------------------------------------------------------ *)
(** * the initial dictionary *)

Lemma hint_set_entries : forall c s h k s', In (k, s') (hint_set c s h) -> In (k, s') h \/ (k = c /\ s' = s).
Proof.
  intros c s h; induction h as [|[k0 s0] t IH]; intros k s' H; cbn in H.
  - destruct H as [E|[]]. inversion E; auto.
  - destruct (clause_eqb k0 c) eqn:Ec.
    + apply clause_eqb_eq in Ec. subst. destruct H as [E|H]; [inversion E; auto|cbn; auto].
    + destruct H as [E|H]; [cbn; auto|]. destruct (IH _ _ H); cbn; auto.
Qed.

Lemma init_hint_entries : forall rl i h k s,
  In (k, s) (init_hint rl i h) ->
  In (k, s) h \/ exists j, s = HIdx (i + N.of_nat j)%N /\ nth_error rl j = Some k.
Proof.
  induction rl as [|c t IH]; intros i h k s H; cbn [init_hint] in H; auto.
  apply IH in H as [H|(j & -> & Hj)].
  - destruct (is_trivial c); auto.
    apply hint_set_entries in H as [H|[-> ->]]; auto.
    right. exists O. split; [f_equal; lia|reflexivity].
  - right. exists (S j). split; [f_equal; lia|exact Hj].
Qed.

Lemma nth_error_map_inv : forall (A B : Type) (f : A -> B) l j k,
  nth_error (map f l) j = Some k -> exists c, nth_error l j = Some c /\ f c = k.
Proof.
  intros A B f l; induction l as [|a t IH]; intros [|j] k H; cbn in *; try discriminate.
  - inversion H; eauto.
  - eauto.
Qed.

Lemma init_hint_ok : forall cls, hint_ok cls (init_hint (map mkset cls) 0%N []).
Proof.
  intros cls. split; [apply init_hint_nodup; constructor|].
  intros h1 k s h2 E.
  assert (Hin : In (k, s) (init_hint (map mkset cls) 0%N [])) by (rewrite E; apply in_app_iff; cbn; auto).
  apply init_hint_entries in Hin as [[]|(j & -> & Hj)].
  apply nth_error_map_inv in Hj as (c & Hc & <-).
  split; [apply mkset_sorted|]. cbn [src_ok]. exists c. split; auto.
  replace (N.to_nat (0 + N.of_nat j)) with j by lia. exact Hc.
Qed.

Theorem build_term_empty_fuel : forall ns fuel cls l h,
  start_resolution ns fuel cls = Ok (Some false, l, h) ->
  build_term (S (length h)) h [] cls = Ok [].
Proof.
  intros ns fuel cls l h H. unfold start_resolution in H.
  destruct cls as [|c0 cs']; [discriminate|].
  set (cls := c0 :: cs') in *.
  pose proof (init_hint_ok cls) as Hok0.
  destruct (init_hint (map mkset cls) 0%N []) as [|e h0'] eqn:Eh; [discriminate|].
  set (h0 := e :: h0') in *.
  destruct (resolution_algorithm ns fuel h0 (map fst h0)) as [[[b l1] h1]| |] eqn:Er; cbn [rbind] in H; try discriminate.
  destruct b; inversion H; subst l1 h1; clear H.
  unfold resolution_algorithm in Er. unfold h0 in Er at 2. cbn [map] in Er.
  assert (Hsl : Forall ssorted (map fst h0)).
  { apply Forall_forall. intros k Hk. apply in_map_iff in Hk as ([k' s] & <- & Hk).
    apply in_split in Hk as (g1 & g2 & Eg). destruct Hok0 as [_ Hok0]. destruct (Hok0 _ _ _ _ Eg). auto. }
  destruct (res_loop_hint_ok cls _ _ _ _ _ _ _ _ _ _ Er Hok0 (incl_refl _) (or_introl eq_refl) Hsl) as [Hok Hemp].
  specialize (Hemp eq_refl). apply in_map_iff in Hemp as ([k s] & Ek & Hin). cbn in Ek. subst k.
  apply in_split in Hin as (g1 & g2 & Eg).
  destruct (build_term_ok cls h Hok _ _ _ _ _ Eg eq_refl) as (t & Et & Em).
  assert (t = []).
  { destruct t as [|y t']; auto. exfalso.
    assert (In y (mkset (y :: t'))) by (apply mkset_in; cbn; auto). rewrite Em in H. destruct H. }
  subst t. eapply build_term_mono; eauto.
  rewrite Eg, app_length. cbn. lia.
Qed.

(** whenever start_resolution_algorithm reports a derivation of the empty clause, the reconstruction
    `build_proof_from_hint(hint, frozenset(), clauses)` passes all its asserts and returns `[]` *)
Theorem build_term_empty : forall ns fuel cls l h,
  start_resolution ns fuel cls = Ok (Some false, l, h) ->
  exists n, build_term n h [] cls = Ok [].
Proof. intros. eexists. eapply build_term_empty_fuel; eauto. Qed.

(** C09 — proof layer, schema level: to_clauses.
    The and/or-assoc "shifting" schemas are built by the loop with MetaVar(i+3) and applied through
    imp_trans_match1/2, i.e. through match_single / instantiate ([kmatch] / [ksubst]). *)
From Coq Require Import ZArith NArith List Bool Lia.
From Pi2 Require Import Taut.Model Taut.Stages Taut.PLModel Taut.ProofLayer.
Import ListNotations.

(* ------------------------------------------------------------------------------------------ *)
(** * association lists, matching a right-nested chain of schema variables *)

Lemma kassoc_app : forall i s t,
  kassoc i (s ++ t) = match kassoc i s with Some v => Some v | None => kassoc i t end.
Proof.
  intros i s t; induction s as [|[k v] s IH]; cbn; auto. destruct (N.eqb k i); auto.
Qed.

Lemma fold1_cons : forall op x y t, fold1 op (x :: y :: t) = op x (fold1 op (y :: t)).
Proof. reflexivity. Qed.

Lemma fold1_app : forall op xs ys, xs <> [] -> ys <> [] ->
  fold1 op (xs ++ ys) = fold1 op (xs ++ [fold1 op ys]).
Proof.
  intros op xs ys Hx Hy. induction xs as [|x [|x2 t] IH]; [congruence| |].
  - cbn [app]. destruct ys as [|y ys']; [congruence|]. reflexivity.
  - change ((x :: x2 :: t) ++ ys) with (x :: (x2 :: t) ++ ys).
    change ((x :: x2 :: t) ++ [fold1 op ys]) with (x :: (x2 :: t) ++ [fold1 op ys]).
    cbn [app] in *. rewrite !fold1_cons. f_equal. apply IH. discriminate.
Qed.

Section Shift.
  Variable op : core -> core -> core.
  Variable lift : core -> core -> option core.
  Hypothesis op_match : forall a b a' b' s,
    kmatch (op a b) (op a' b') s = match kmatch a a' s with Some s' => kmatch b b' s' | None => None end.
  Hypothesis op_subst : forall s a b, ksubst s (op a b) = op (ksubst s a) (ksubst s b).
  Hypothesis lift_spec : forall p b c, lift p (KImp b c) = Some (KImp (op p b) (op p c)).

  Definition ar : core := KImp (op (op (kv 0) (kv 1)) (kv 2)) (op (kv 0) (op (kv 1) (kv 2))).
  Definition al : core := KImp (op (kv 0) (op (kv 1) (kv 2))) (op (op (kv 0) (kv 1)) (kv 2)).

  (** schema variables of the chain after k iterations: phi_{k+2} ... phi_3 phi_0 phi_1 *)
  Fixpoint svars (k : nat) : list N :=
    match k with O => [0; 1]%N | S k' => (N.of_nat k' + 3)%N :: svars k' end.

  Definition chainX (k : nat) : core := fold1 op (map kv (svars k)).
  Definition chainA (k : nat) : core := op (chainX k) (kv 2).
  Definition chainC (k : nat) : core := fold1 op (map kv (svars k ++ [2%N])).

  Lemma svars_range : forall k v, In v (svars k) -> v = 0%N \/ v = 1%N \/ (3 <= v < N.of_nat k + 3)%N.
  Proof.
    induction k as [|k IH]; intros v H; cbn in H.
    - destruct H as [<-|[<-|[]]]; auto.
    - destruct H as [<-|H]; [right; right; lia|]. destruct (IH v H) as [?|[?|?]]; auto. right; right; lia.
  Qed.

  Lemma svars_nodup : forall k, NoDup (svars k).
  Proof.
    induction k as [|k IH]; cbn.
    - constructor; [cbn; intros [H|[]]; discriminate|]. constructor; [intros []|constructor].
    - constructor; auto. intro H. apply svars_range in H. lia.
  Qed.

  Lemma svars_length : forall k, length (svars k) = S (S k).
  Proof. induction k; cbn; auto. Qed.

  Lemma svars_not2 : forall k, ~ In 2%N (svars k).
  Proof. intros k H. apply svars_range in H. lia. Qed.

  Lemma svars_cons : forall k, exists v t, svars k = v :: t /\ t <> [].
  Proof. destruct k; cbn; eexists _, _; split; try reflexivity; try discriminate. destruct k; discriminate. Qed.

  Lemma chainX_S : forall k, chainX (S k) = op (kv (N.of_nat k + 3)) (chainX k).
  Proof.
    intros k. unfold chainX. cbn [svars map]. destruct (svars_cons k) as (v & t & -> & Ht).
    destruct t; [congruence|]. reflexivity.
  Qed.

  Lemma chainC_S : forall k, chainC (S k) = op (kv (N.of_nat k + 3)) (chainC k).
  Proof.
    intros k. unfold chainC. cbn [svars map app]. destruct (svars_cons k) as (v & t & -> & Ht).
    destruct t; [congruence|]. reflexivity.
  Qed.

  Lemma chainC_0 : chainC 0 = op (kv 0) (op (kv 1) (kv 2)).
  Proof. reflexivity. Qed.

  (** closed form of the schemas built by the loop *)
  Lemma shift_closed : forall k,
    shift_iter ar al lift k = Some (KImp (chainA k) (chainC k), KImp (chainC k) (chainA k)).
  Proof.
    induction k as [|k IH].
    - reflexivity.
    - cbn [shift_iter]. rewrite IH. cbn [obind]. rewrite !lift_spec. cbn [obind].
      set (v := kv (N.of_nat k + 3)).
      assert (Hm : kmatch (op (kv 0) (op (kv 1) (kv 2))) (op v (chainA k)) []
                   = Some [(0%N, v); (1%N, chainX k); (2%N, kv 2)]).
      { unfold chainA. rewrite op_match. unfold v at 1. cbn [kv kmatch kassoc app]. rewrite op_match. reflexivity. }
      unfold s_imp_trans_match1, s_imp_trans_match2, ar, al. rewrite Hm. cbn [obind].
      cbn [ksubst]. rewrite !op_subst. cbn [ksubst kv kassoc N.eqb Pos.eqb].
      fold (kv 2). fold v.
      change (op (chainX k) (kv 2)) with (chainA k).
      cbn [s_imp_transitivity]. rewrite !core_eqb_refl. cbn [obind].
      rewrite chainC_S. unfold chainA. rewrite chainX_S. reflexivity.
  Qed.

  (** matching a chain of distinct schema variables against a chain of the same length *)
  Lemma kmatch_chain : forall vs xs s,
    length vs = length xs -> vs <> [] -> NoDup vs -> (forall v, In v vs -> kassoc v s = None) ->
    kmatch (fold1 op (map kv vs)) (fold1 op xs) s = Some (s ++ combine vs xs).
  Proof.
    induction vs as [|v [|v2 t] IH]; intros xs s Hlen Hne Hnd Hs; [congruence| |].
    - destruct xs as [|x [|x2 t']]; try discriminate. cbn. rewrite (Hs v (or_introl eq_refl)). reflexivity.
    - destruct xs as [|x [|x2 t']]; try discriminate.
      change (map kv (v :: v2 :: t)) with (kv v :: map kv (v2 :: t)).
      cbn [map] in *. rewrite !fold1_cons. rewrite op_match.
      cbn [kmatch kv]. rewrite (Hs v (or_introl eq_refl)).
      inversion Hnd as [|? ? Hnotin Hnd']; subst.
      rewrite (IH (x2 :: t') (s ++ [(v, x)])); auto; try discriminate.
      + cbn [combine]. rewrite <- app_assoc. reflexivity.
      + intros w Hw. rewrite kassoc_app, (Hs w (or_intror Hw)). cbn.
        destruct (N.eqb v w) eqn:E; auto. apply N.eqb_eq in E. subst. contradiction.
  Qed.

  Lemma ksubst_chain : forall s vs, vs <> [] ->
    ksubst s (fold1 op (map kv vs)) = fold1 op (map (fun v => ksubst s (kv v)) vs).
  Proof.
    intros s vs Hne. induction vs as [|v [|v2 t] IH]; [congruence|reflexivity|].
    cbn [map] in *. rewrite !fold1_cons, op_subst. f_equal. apply IH. discriminate.
  Qed.

  Lemma kassoc_combine : forall vs xs, NoDup vs -> length vs = length xs ->
    map (fun v => kassoc v (combine vs xs)) vs = map Some xs.
  Proof.
    induction vs as [|v t IH]; intros xs Hnd Hlen; destruct xs as [|x xs']; try discriminate; auto.
    inversion Hnd; subst. cbn. rewrite N.eqb_refl. f_equal.
    rewrite <- (IH xs'); auto. apply map_ext_in. intros w Hw.
    destruct (N.eqb v w) eqn:E; auto. apply N.eqb_eq in E. subst. contradiction.
  Qed.

  Lemma kassoc_combine_none : forall vs xs w, ~ In w vs -> kassoc w (combine vs xs) = None.
  Proof.
    induction vs as [|v t IH]; intros xs w H; destruct xs as [|x xs']; auto.
    cbn. destruct (N.eqb v w) eqn:E.
    - apply N.eqb_eq in E. subst. exfalso. apply H. cbn; auto.
    - apply IH. intro; apply H; cbn; auto.
  Qed.

  Lemma ksubst_kv_map : forall s vs xs,
    map (fun v => kassoc v s) vs = map Some xs -> map (fun v => ksubst s (kv v)) vs = xs.
  Proof.
    intros s vs; induction vs as [|v t IH]; intros [|x xs'] H; cbn in *; try discriminate; auto.
    inversion H as [[H1 H3]]. rewrite H1. f_equal. apply IH. exact H3.
  Qed.

  (** the substitution found by matching chainA against an actual chain, and what it does *)
  Lemma shift_apply : forall k xs r,
    length xs = S (S k) ->
    exists s, kmatch (chainA k) (op (fold1 op xs) r) [] = Some s /\
              ksubst s (chainA k) = op (fold1 op xs) r /\
              ksubst s (chainC k) = fold1 op (xs ++ [r]).
  Proof.
    intros k xs r Hlen.
    pose proof (svars_nodup k) as Hnd. pose proof (svars_length k) as Hl. pose proof (svars_not2 k) as H2.
    assert (Hne : svars k <> []) by (destruct (svars k); [discriminate|discriminate]).
    set (s0 := combine (svars k) xs).
    exists (s0 ++ [(2%N, r)]).
    assert (Hmap : map (fun v => ksubst (s0 ++ [(2%N, r)]) (kv v)) (svars k) = xs).
    { assert (map (fun v => kassoc v (s0 ++ [(2%N, r)])) (svars k) = map Some xs).
      { rewrite <- (kassoc_combine (svars k) xs Hnd) by lia. apply map_ext_in. intros w Hw.
        rewrite kassoc_app. fold s0.
        assert (In (kassoc w s0) (map Some xs)).
        { unfold s0. rewrite <- (kassoc_combine (svars k) xs Hnd) by lia. apply in_map_iff. eauto. }
        apply in_map_iff in H as (x & <- & _). reflexivity. }
      apply ksubst_kv_map. exact H. }
    assert (Hs2 : ksubst (s0 ++ [(2%N, r)]) (kv 2) = r).
    { cbn [kv ksubst]. rewrite kassoc_app. unfold s0. rewrite kassoc_combine_none by auto. cbn. reflexivity. }
    split; [|split].
    - unfold chainA, chainX. rewrite op_match.
      rewrite (kmatch_chain (svars k) xs []); auto; try lia.
      cbn [app kmatch kv]. fold s0. unfold s0. rewrite kassoc_combine_none by auto. reflexivity.
    - unfold chainA, chainX. rewrite op_subst, Hs2. rewrite ksubst_chain by auto. rewrite Hmap. reflexivity.
    - unfold chainC. rewrite ksubst_chain.
      + rewrite map_app. cbn [map]. rewrite Hmap, Hs2. reflexivity.
      + destruct (svars k); discriminate.
  Qed.

  (** what `imp_trans_match2(ret_pf1, shift_right)` and `imp_trans_match1(shift_left, ret_pf2)` conclude *)
  Lemma shift_right_apply : forall k xs r x, length xs = S (S k) ->
    s_imp_trans_match2 (KImp x (op (fold1 op xs) r)) (KImp (chainA k) (chainC k))
    = Some (KImp x (fold1 op (xs ++ [r]))).
  Proof.
    intros k xs r x Hlen. destruct (shift_apply k xs r Hlen) as (s & Hm & HA & HC).
    unfold s_imp_trans_match2. rewrite Hm. cbn [obind ksubst]. rewrite HA, HC.
    cbn [s_imp_transitivity]. rewrite core_eqb_refl. reflexivity.
  Qed.

  Lemma shift_left_apply : forall k xs r y, length xs = S (S k) ->
    s_imp_trans_match1 (KImp (chainC k) (chainA k)) (KImp (op (fold1 op xs) r) y)
    = Some (KImp (fold1 op (xs ++ [r])) y).
  Proof.
    intros k xs r y Hlen. destruct (shift_apply k xs r Hlen) as (s & Hm & HA & HC).
    unfold s_imp_trans_match1. rewrite Hm. cbn [obind ksubst]. rewrite HA, HC.
    cbn [s_imp_transitivity]. rewrite core_eqb_refl. reflexivity.
  Qed.
End Shift.

(* ------------------------------------------------------------------------------------------ *)
(** * the two instances: /\ and \/ *)

Lemma and_match : forall a b a' b' s,
  kmatch (k_and a b) (k_and a' b') s = match kmatch a a' s with Some s' => kmatch b b' s' | None => None end.
Proof. intros. cbn. destruct (kmatch a a' s) as [s'|]; [|reflexivity]. destruct (kmatch b b' s'); reflexivity. Qed.
Lemma and_subst : forall s a b, ksubst s (k_and a b) = k_and (ksubst s a) (ksubst s b).
Proof. reflexivity. Qed.
Lemma and_lift : forall p b c, s_imim_and_r p (KImp b c) = Some (KImp (k_and p b) (k_and p c)).
Proof. reflexivity. Qed.
Lemma or_match : forall a b a' b' s,
  kmatch (k_or a b) (k_or a' b') s = match kmatch a a' s with Some s' => kmatch b b' s' | None => None end.
Proof. intros. cbn. destruct (kmatch a a' s) as [s'|]; reflexivity. Qed.
Lemma or_subst : forall s a b, ksubst s (k_or a b) = k_or (ksubst s a) (ksubst s b).
Proof. reflexivity. Qed.
Lemma or_lift : forall p b c, s_imim_or_r p (KImp b c) = Some (KImp (k_or p b) (k_or p c)).
Proof. reflexivity. Qed.

Lemma and_shift : forall k xs r x y, length xs = S (S k) ->
  exists sr sl, shift_iter s_and_assoc_r s_and_assoc_l s_imim_and_r k = Some (sr, sl) /\
    s_imp_trans_match2 (KImp x (k_and (fold1 k_and xs) r)) sr = Some (KImp x (fold1 k_and (xs ++ [r]))) /\
    s_imp_trans_match1 sl (KImp (k_and (fold1 k_and xs) r) y) = Some (KImp (fold1 k_and (xs ++ [r])) y).
Proof.
  intros k xs r x y Hlen. eexists _, _. split.
  - exact (shift_closed k_and s_imim_and_r and_match and_subst and_lift k).
  - split; [apply (shift_right_apply k_and and_match and_subst)|apply (shift_left_apply k_and and_match and_subst)]; auto.
Qed.

Lemma or_shift : forall k xs r x y, length xs = S (S k) ->
  exists sr sl, shift_iter s_or_assoc_r s_or_assoc_l s_imim_or_r k = Some (sr, sl) /\
    s_imp_trans_match2 (KImp x (k_or (fold1 k_or xs) r)) sr = Some (KImp x (fold1 k_or (xs ++ [r]))) /\
    s_imp_trans_match1 sl (KImp (k_or (fold1 k_or xs) r) y) = Some (KImp (fold1 k_or (xs ++ [r])) y).
Proof.
  intros k xs r x y Hlen. eexists _, _. split.
  - exact (shift_closed k_or s_imim_or_r or_match or_subst or_lift k).
  - split; [apply (shift_right_apply k_or or_match or_subst)|apply (shift_left_apply k_or or_match or_subst)]; auto.
Qed.

(* ------------------------------------------------------------------------------------------ *)
(** * to_clauses *)

Lemma lit_core_lit_of : forall n i, lit_core (lit_of n i) = cf_core (CVar n i).
Proof.
  intros n i. unfold lit_of, lit_core. destruct n.
  - destruct (- (Z.of_N i + 1))%Z eqn:E; try lia. replace (Pos.pred_N p) with i by lia. reflexivity.
  - destruct (Z.of_N i + 1)%Z eqn:E; try lia. replace (Pos.pred_N p) with i by lia. reflexivity.
Qed.

Lemma clause_core_fold : forall c, c <> [] -> clause_core c = fold1 k_or (map lit_core c).
Proof. destruct c; [congruence|reflexivity]. Qed.
Lemma cls_core_fold : forall cs, cs <> [] -> cls_core cs = fold1 k_and (map clause_core cs).
Proof. destruct cs; [congruence|reflexivity]. Qed.

Lemma clause_core_app : forall a b, a <> [] -> b <> [] ->
  clause_core (a ++ b) = fold1 k_or (map lit_core a ++ [clause_core b]).
Proof.
  intros a b Ha Hb. rewrite clause_core_fold by (destruct a; [congruence|discriminate]).
  rewrite map_app, fold1_app; [|destruct a; [congruence|discriminate]|destruct b; [congruence|discriminate]].
  rewrite <- clause_core_fold by auto. reflexivity.
Qed.

Lemma cls_core_app : forall a b, a <> [] -> b <> [] ->
  cls_core (a ++ b) = fold1 k_and (map clause_core a ++ [cls_core b]).
Proof.
  intros a b Ha Hb. rewrite cls_core_fold by (destruct a; [congruence|discriminate]).
  rewrite map_app, fold1_app; [|destruct a; [congruence|discriminate]|destruct b; [congruence|discriminate]].
  rewrite <- cls_core_fold by auto. reflexivity.
Qed.

Lemma to_clauses_p_clause : forall t, is_clause t = true ->
  exists c, to_clauses t = Some [c] /\ c <> [] /\
    to_clauses_p t = Some ([c], KImp (cf_core t) (clause_core c), KImp (clause_core c) (cf_core t)).
Proof.
  induction t as [n|n i|n l IHl r IHr|n l IHl r IHr]; cbn [is_clause]; intros H; try discriminate.
  - exists [lit_of n i]. split; [reflexivity|]. split; [discriminate|].
    cbn [to_clauses_p clause_core map fold1]. rewrite lit_core_lit_of. reflexivity.
  - apply andb_prop in H as [H Hr]. apply andb_prop in H as [Hn Hl]. destruct n; [discriminate|].
    destruct (IHl Hl) as (a & Ea & Hane & Pa). destruct (IHr Hr) as (b & Eb & Hbne & Pb).
    exists (a ++ b). cbn [to_clauses to_clauses_p]. rewrite Ea, Eb, Pa, Pb. cbn [obind s_imim_or].
    split; [destruct a; [congruence|reflexivity]|].
    split; [destruct a; [congruence|discriminate]|].
    rewrite cf_core_or.
    destruct a as [|x1 [|x2 a']]; [congruence| |].
    + cbn [length app]. f_equal.
      assert (clause_core (x1 :: b) = k_or (clause_core [x1]) (clause_core b)).
      { destruct b; [congruence|reflexivity]. }
      rewrite H. reflexivity.
    + cbn [length].
      destruct (or_shift (length a') (map lit_core (x1 :: x2 :: a')) (clause_core b)
                  (k_or (cf_core l) (cf_core r)) (k_or (cf_core l) (cf_core r))) as (sr & sl & Es & E1 & E2).
      { cbn. rewrite map_length. reflexivity. }
      rewrite Es. cbn [obind].
      rewrite (clause_core_fold (x1 :: x2 :: a')) by discriminate.
      rewrite E1, E2. cbn [obind].
      rewrite <- clause_core_app by (auto; discriminate). reflexivity.
Qed.

Lemma to_clauses_p_conc : forall t, is_cnf t = true ->
  exists cs, to_clauses t = Some cs /\ cs <> [] /\
    to_clauses_p t = Some (cs, KImp (cf_core t) (cls_core cs), KImp (cls_core cs) (cf_core t)).
Proof.
  induction t as [n|n i|n l IHl r IHr|n l IHl r IHr]; intros H; try discriminate.
  - destruct (to_clauses_p_clause (CVar n i) eq_refl) as (c & E & Hc & P).
    exists [c]. repeat split; auto. discriminate.
  - destruct (to_clauses_p_clause (COr n l r) H) as (c & E & Hc & P).
    exists [c]. repeat split; auto. discriminate.
  - cbn [is_cnf] in H. apply andb_prop in H as [H Hr]. apply andb_prop in H as [Hn Hl]. destruct n; [discriminate|].
    destruct (IHl Hl) as (a & Ea & Hane & Pa). destruct (IHr Hr) as (b & Eb & Hbne & Pb).
    exists (a ++ b). cbn [to_clauses to_clauses_p]. rewrite Ea, Eb, Pa, Pb. cbn [obind s_imim_and].
    split; [destruct a; [congruence|reflexivity]|].
    split; [destruct a; [congruence|discriminate]|].
    rewrite cf_core_and.
    destruct a as [|x1 [|x2 a']]; [congruence| |].
    + cbn [length app]. f_equal.
      assert (cls_core (x1 :: b) = k_and (cls_core [x1]) (cls_core b)).
      { destruct b; [congruence|reflexivity]. }
      rewrite H. reflexivity.
    + cbn [length].
      destruct (and_shift (length a') (map clause_core (x1 :: x2 :: a')) (cls_core b)
                  (k_and (cf_core l) (cf_core r)) (k_and (cf_core l) (cf_core r))) as (sr & sl & Es & E1 & E2).
      { cbn. rewrite map_length. reflexivity. }
      rewrite Es. cbn [obind].
      rewrite (cls_core_fold (x1 :: x2 :: a')) by discriminate.
      rewrite E1, E2. cbn [obind].
      rewrite <- cls_core_app by (auto; discriminate). reflexivity.
Qed.

(** C09 — proof layer, schema level: proof reconstruction (build_proof_from_hint), start_resolution_algorithm
    and the final glue of prove_tautology: the conclusion of the returned proof is LITERALLY the pattern
    (verdict True) or its negation (verdict False) — modulo three named, run-time-checked specs of the
    helpers that rest on ac_move_to_front. *)
From Coq Require Import ZArith NArith List Bool Lia.
From Pi2 Require Import Taut.Model Taut.Stages Taut.Sets Taut.Resolution Taut.Complete Taut.Termination
  Taut.BuildTerm Taut.PLModel Taut.ProofLayer Taut.ProofLayer2.
Import ListNotations.
Local Open Scope Z_scope.

(* ------------------------------------------------------------------------------------------ *)
(** * resolvents recorded in the dictionary are positive *)

Definition hint_pos (h : hint) : Prop := forall k a b x, In (k, HRes a b x) h -> 0 < x.

Lemma res_loop_pos : forall ns fuel l h i cl1 j b l' h',
  res_loop ns fuel l h i cl1 j = Ok (b, l', h') ->
  all_nz l -> In cl1 l -> hint_pos h -> hint_pos h'.
Proof.
  intros ns fuel; induction fuel as [|fuel IH]; intros l h i cl1 j b l' h' H Hnz Hin Hp; [discriminate|].
  cbn [res_loop] in H.
  assert (Hnext : match nth_error l (S i) with
                  | Some c => res_loop ns fuel l h (S i) c 0
                  | None => Ok (false, l, h)
                  end = Ok (b, l', h') -> hint_pos h').
  { intros Hn. destruct (nth_error l (S i)) as [c|] eqn:En.
    - eapply IH; eauto. eapply nth_error_In; eauto.
    - inversion Hn; subst. auto. }
  destruct (nth_error l j) as [cl2|] eqn:Ej; [|auto].
  destruct (clause_eqb cl2 cl1) eqn:Eeq; [auto|].
  assert (Hin2 : In cl2 l) by (eapply nth_error_In; eauto).
  destruct (resolvable cl1 cl2) as [[r rs]|] eqn:Er; [|eapply IH; eauto].
  destruct (hint_mem rs h) eqn:Em; [eapply IH; eauto|].
  pose proof (resolvable_some _ _ _ _ Er) as (Hr2 & Hr1 & Hrs & _).
  unfold all_nz in Hnz. rewrite Forall_forall in Hnz.
  assert (Hz1 : Forall nz cl1) by auto. assert (Hz2 : Forall nz cl2) by auto.
  rewrite Forall_forall in Hz1, Hz2.
  assert (Hr0 : r <> 0) by (apply (Hz2 r Hr2)).
  assert (Hp' : hint_pos (h ++ [(rs, if r <? 0 then HRes cl2 cl1 (- r) else HRes cl1 cl2 r)])).
  { intros k a b0 x Hk. apply in_app_iff in Hk as [Hk|[Hk|[]]]; [eapply Hp; eauto|].
    destruct (r <? 0) eqn:E; inversion Hk; subst; [apply Z.ltb_lt in E|apply Z.ltb_ge in E]; lia. }
  destruct rs as [|y rs'].
  - inversion H; subst. exact Hp'.
  - eapply IH; eauto.
    + unfold all_nz. apply Forall_app. split; [apply Forall_forall; auto|]. constructor; [|constructor].
      apply Forall_forall. intros z Hz. apply (proj1 (Hrs z)) in Hz as [[Hz _]|[Hz _]]; auto.
    + apply in_app_iff. left. destruct (r <? 0), ns; cbn; auto.
Qed.

Lemma init_hint_pos : forall cls, hint_pos (init_hint (map mkset cls) 0%N []).
Proof.
  intros cls k a b x H. apply init_hint_entries in H as [[]|(j & E & _)]. discriminate.
Qed.

(* ------------------------------------------------------------------------------------------ *)
(** * conjunction_implies_nth *)

Lemma conj_nth_ok : forall terms i t, nth_error terms i = Some t ->
  s_conj_nth (cls_core terms) i (length terms) = Some (KImp (cls_core terms) (clause_core t)).
Proof.
  induction terms as [|c [|c2 rest] IH]; intros i t H.
  - destruct i; discriminate.
  - destruct i as [|[|i]]; cbn in H; try discriminate. inversion H; subst. reflexivity.
  - assert (Ecls : cls_core (c :: c2 :: rest) = k_and (clause_core c) (cls_core (c2 :: rest))) by reflexivity.
    rewrite Ecls. change (length (c :: c2 :: rest)) with (S (length (c2 :: rest))).
    destruct i as [|i].
    + cbn in H. inversion H; subst. reflexivity.
    + change (nth_error (c :: c2 :: rest) (S i)) with (nth_error (c2 :: rest) i) in H.
      specialize (IH i t H).
      change (s_conj_nth (k_and (clause_core c) (cls_core (c2 :: rest))) (S i) (S (length (c2 :: rest))))
        with (let? rec := s_conj_nth (cls_core (c2 :: rest)) i (length (c2 :: rest)) in
              s_imp_transitivity (KImp (k_and (clause_core c) (cls_core (c2 :: rest))) (cls_core (c2 :: rest))) rec).
      rewrite IH. cbn [obind]. apply s_trans_refl.
Qed.

(* ------------------------------------------------------------------------------------------ *)
(** * the reconstruction, modulo the three helper specs *)

Section Glue.
  Variable P : pieces.
  (** simplify_clause(cl, x) returns a proof of  clause(cl) <-> clause(simplified cl)   [runner: QP S] *)
  Hypothesis H_simplify : forall cl x, cl <> [] -> Forall nz cl ->
    simplify_pf P cl x = k_equiv (clause_core cl) (clause_core (simplify_clause cl x)).
  (** merge_clauses(l, len l, r) returns a proof of  clause(l) \/ clause(r) <-> clause(l ++ r)   [runner: QP M] *)
  Hypothesis H_merge : forall l r, l <> [] -> r <> [] ->
    merge_pf P l r = k_equiv (k_or (clause_core l) (clause_core r)) (clause_core (l ++ r)).
  (** prove_trivial_clause(cl) returns a proof of  clause(cl)  for a clause with complementary literals   [runner: QP T] *)
  Hypothesis H_trivial : forall cl, Forall nz cl -> is_trivial (mkset cl) = true -> trivial_pf P cl = clause_core cl.

  Lemma s_and_l_equiv : forall a b, s_and_l (k_equiv a b) = Some (KImp a b).
  Proof. reflexivity. Qed.

  Lemma lit_core_opp : forall x, 0 < x -> lit_core (- x) = k_neg (lit_core x).
  Proof. intros [|p|p] H; try lia. reflexivity. Qed.

  Lemma clause_core_cons : forall y t, t <> [] -> clause_core (y :: t) = k_or (lit_core y) (clause_core t).
  Proof. intros y [|z t] H; [congruence|reflexivity]. Qed.

  Lemma simplify_nonempty : forall tl x a t, simplify_clause tl x = a :: t -> tl <> [].
  Proof. intros [|y tl] x a t H; [discriminate|discriminate]. Qed.

  Lemma simplify_incl : forall tl x a t', simplify_clause tl x = a :: t' -> incl t' tl.
  Proof.
    intros tl x a t' H. unfold simplify_clause in H. destruct (zmem x tl).
    - inversion H; subst. intros y Hy. apply filter_In in Hy. tauto.
    - subst tl. intros y Hy. cbn; auto.
  Qed.

  Lemma build_term_nz : forall fuel h cl terms t,
    build_term fuel h cl terms = Ok t -> clauses_nz terms -> Forall nz t.
  Proof.
    induction fuel as [|fuel IH]; intros h cl terms t H Hnz; [discriminate|].
    cbn [build_term] in H.
    destruct (hint_get cl h) as [[i|ls rs x]|]; try discriminate.
    - destruct (nth_error terms (N.to_nat i)) as [t0|] eqn:En; cbn [of_option] in H; [|discriminate].
      inversion H; subst t0. unfold clauses_nz in Hnz. rewrite Forall_forall in Hnz. apply Hnz.
      eapply nth_error_In; eauto.
    - destruct (build_term fuel h ls terms) as [tl| |] eqn:El; cbn [rbind] in H; try discriminate.
      destruct (build_term fuel h rs terms) as [tr| |] eqn:Er; cbn [rbind] in H; try discriminate.
      pose proof (IH _ _ _ _ El Hnz) as Zl. pose proof (IH _ _ _ _ Er Hnz) as Zr.
      destruct (simplify_clause tl (- x)) as [|a tl'] eqn:Sl; [discriminate|].
      destruct (simplify_clause tr x) as [|b tr'] eqn:Sr; [discriminate|].
      destruct ((a =? - x) && (b =? x)); [|discriminate].
      destruct (clause_eqb (mkset (tl' ++ tr')) cl); [|discriminate].
      inversion H; subst t. rewrite Forall_forall in *. intros y Hy.
      apply in_app_iff in Hy as [Hy|Hy]; [apply Zl; eapply simplify_incl; eauto|apply Zr; eapply simplify_incl; eauto].
  Qed.

  Lemma build_term_p_conc : forall fuel h cl terms t,
    build_term fuel h cl terms = Ok t -> hint_pos h -> clauses_nz terms ->
    build_term_p P fuel h cl terms = Ok (t, KImp (cls_core terms) (clause_core t)).
  Proof.
    induction fuel as [|fuel IH]; intros h cl terms t H Hp Hnzt; [discriminate|].
    cbn [build_term] in H. cbn [build_term_p].
    destruct (hint_get cl h) as [[i|ls rs x]|] eqn:Eg; try discriminate.
    - destruct (nth_error terms (N.to_nat i)) as [t0|] eqn:En; cbn [of_option] in H; [|discriminate].
      inversion H; subst t0. rewrite (conj_nth_ok _ _ _ En). reflexivity.
    - destruct (build_term fuel h ls terms) as [tl| |] eqn:El; cbn [rbind] in H; try discriminate.
      destruct (build_term fuel h rs terms) as [tr| |] eqn:Er; cbn [rbind] in H; try discriminate.
      rewrite (IH _ _ _ _ El Hp Hnzt), (IH _ _ _ _ Er Hp Hnzt). cbn [rbind].
      pose proof (build_term_nz _ _ _ _ _ El Hnzt) as Zl. pose proof (build_term_nz _ _ _ _ _ Er Hnzt) as Zr.
      assert (Hx : 0 < x).
      { assert (Hin : exists k, In (k, HRes ls rs x) h).
        { clear - Eg. induction h as [|[k s] h IHh]; cbn in Eg; [discriminate|].
          destruct (clause_eqb k cl); [inversion Eg; subst; exists k; cbn; auto|].
          destruct (IHh Eg) as [k' Hk']. exists k'. cbn; auto. }
        destruct Hin as [k Hk]. eapply Hp; eauto. }
      assert (Ex0 : (x =? 0) = false) by (apply Z.eqb_neq; lia). rewrite Ex0.
      destruct (simplify_clause tl (- x)) as [|a tl'] eqn:Sl; [discriminate|].
      destruct (simplify_clause tr x) as [|b tr'] eqn:Sr; [discriminate|].
      destruct ((a =? - x) && (b =? x)) eqn:Eab; [|discriminate].
      apply andb_prop in Eab as [Ea Eb]. apply Z.eqb_eq in Ea. apply Z.eqb_eq in Eb. subst a b.
      destruct (clause_eqb (mkset (tl' ++ tr')) cl) eqn:Ecl; [|discriminate].
      inversion H; subst t; clear H.
      rewrite (H_simplify tl (- x)) by (auto; eapply simplify_nonempty; eauto).
      rewrite (H_simplify tr x) by (auto; eapply simplify_nonempty; eauto).
      rewrite Sl, Sr, !s_and_l_equiv. cbn [of_option rbind]. rewrite !s_trans_refl. cbn [of_option rbind].
      destruct tl' as [|y1 tl1]; destruct tr' as [|z1 tr1].
      + (* base *)
        cbn [of_option rbind app clause_core map fold1]. rewrite lit_core_opp by auto.
        unfold s_resolution_base, s_resolution_step. rewrite !core_eqb_refl. reflexivity.
      + cbn [of_option rbind app].
        rewrite (clause_core_cons x (z1 :: tr1)) by discriminate.
        change (clause_core [- x]) with (lit_core (- x)). rewrite lit_core_opp by auto.
        unfold s_resolution_r, s_resolution_step. rewrite !core_eqb_refl. reflexivity.
      + cbn [of_option rbind]. rewrite app_nil_r.
        rewrite (clause_core_cons (- x) (y1 :: tl1)) by discriminate. rewrite lit_core_opp by auto.
        change (clause_core [x]) with (lit_core x).
        unfold s_resolution_l, s_resolution_step. rewrite !core_eqb_refl. reflexivity.
      + rewrite (H_merge (y1 :: tl1) (z1 :: tr1)) by discriminate. rewrite s_and_l_equiv.
        cbn [obind of_option rbind].
        rewrite (clause_core_cons (- x) (y1 :: tl1)) by discriminate.
        rewrite (clause_core_cons x (z1 :: tr1)) by discriminate. rewrite lit_core_opp by auto.
        unfold s_resolution, s_long_imp_trans. rewrite core_eqb_refl. cbn [of_option rbind].
        unfold s_resolution_step. rewrite !core_eqb_refl. reflexivity.
  Qed.

  (* ---------------------------------------------------------------------------------------- *)
  (** ** start_resolution_algorithm *)

  Lemma start_resolution_p_conc : forall ns fuel cls vd l h,
    start_resolution ns fuel cls = Ok (vd, l, h) -> clauses_nz cls ->
    start_resolution_p P ns fuel cls =
    Ok (match vd with
        | Some true => Some (true, cls_core cls)
        | Some false => Some (false, k_neg (cls_core cls))
        | None => None
        end).
  Proof.
    intros ns fuel cls vd l h H Hnz.
    pose proof H as H0. unfold start_resolution in H. unfold start_resolution_p.
    destruct cls as [|c0 cs'].
    { inversion H; subst. reflexivity. }
    set (cls := c0 :: cs') in *.
    destruct (init_hint (map mkset cls) 0%N []) as [|e h0'] eqn:Eh.
    - inversion H; subst.
      apply init_hint_nil in Eh as [_ Ht].
      assert (Hall : forall c, In c cls -> trivial_pf P c = clause_core c).
      { intros c Hc. apply H_trivial; [unfold clauses_nz in Hnz; rewrite Forall_forall in Hnz; auto|].
        apply Ht. apply in_map. exact Hc. }
      unfold cls in *. destruct cs' as [|c1 cs''].
      + rewrite (Hall c0) by (cbn; auto). reflexivity.
      + rewrite (map_ext_in _ _ _ Hall). reflexivity.
    - set (h0 := e :: h0') in *.
      destruct (resolution_algorithm ns fuel h0 (map fst h0)) as [[[b l1] h1]| |] eqn:Er; cbn [rbind] in H |- *;
        try discriminate.
      destruct b; inversion H; subst; clear H; [|reflexivity].
      pose proof (build_term_empty_fuel _ _ _ _ _ H0) as Hb.
      assert (Hp : hint_pos h).
      { assert (Er' : res_loop ns fuel (map fst h0) h0 0 (fst e) 0 = Ok (true, l, h)) by exact Er.
        eapply res_loop_pos; [exact Er'| | |].
        - unfold all_nz. apply Forall_forall. intros k Hk.
          rewrite <- Eh in Hk.
          apply init_hint_keys in Hk as [[]|[Hk _]]. apply in_map_iff in Hk as (c & <- & Hc).
          apply mkset_nz. unfold clauses_nz in Hnz. rewrite Forall_forall in Hnz. auto.
        - cbn; auto.
        - rewrite <- Eh. apply init_hint_pos. }
      rewrite (build_term_p_conc _ _ _ _ _ Hb Hp Hnz). reflexivity.
  Qed.

  (* ---------------------------------------------------------------------------------------- *)
  (** ** prove_tautology *)

  Theorem prove_tautology_p_conc : forall ns fuel f r,
    decide ns fuel f = Ok r ->
    prove_tautology_p P ns fuel f =
    Ok (match r with
        | Some true => Some (true, expand f)
        | Some false => Some (false, k_neg (expand f))
        | None => None
        end).
  Proof.
    intros ns fuel f r H. unfold decide, to_conj_form in H. unfold prove_tautology_p.
    change (expand (FNeg f)) with (k_neg (expand f)) in H.
    set (p := expand f) in *.
    destruct (tcfp_conc (k_neg p)) as (l0 & r0 & Et & Hspec). rewrite Et.
    pose proof (tcf_shape (k_neg p)) as Hshape.
    assert (Htail : is_orform (tcf (k_neg p)) = true ->
              decide_tail ns fuel (tcf (k_neg p)) = Ok r ->
              l0 = KImp (k_neg p) (cf_core (tcf (k_neg p))) -> r0 = Some (KImp (cf_core (tcf (k_neg p))) (k_neg p)) ->
              match pnp false (tcf (k_neg p)) with
              | Some (n, n1, n2) =>
                  do? (k, c1, c2) <- to_cnf_p fuel n;
                  match to_clauses_p k with
                  | None => Err
                  | Some (cls, l1, l2) =>
                      do? x <- start_resolution_p P ns fuel cls;
                      match x with
                      | None => Ok None
                      | Some (true, pf) =>
                          do? chain <- of_option
                            (let? a := s_imp_transitivity n2 (KImp (cf_core (tcf (k_neg p))) (k_neg p)) in
                             let? b := s_imp_transitivity c2 a in s_imp_transitivity l2 b);
                          do? fin <- of_option (s_mp chain pf);
                          Ok (Some (false, fin))
                      | Some (false, pf) =>
                          do? chain <- of_option
                            (let? a := s_imp_transitivity l1 pf in
                             let? b := s_imp_transitivity c1 a in
                             let? c' := s_imp_transitivity n1 b in s_imp_transitivity l0 c');
                          do? fin <- of_option (s_mp (s_dneg_elim p) chain);
                          Ok (Some (true, fin))
                      end
                  end
              | None => Err
              end = Ok (match r with
                        | Some true => Some (true, p)
                        | Some false => Some (false, k_neg p)
                        | None => None
                        end)).
    { intros Ho Hd El0 Er0. set (c := tcf (k_neg p)) in *.
      destruct (pipeline_stages _ _ _ _ Hd) as (n & k & cls & [[vd l] h] & En & Ek & Ecl & Ex & Er & Hok & _).
      destruct (pnp_conc c false Ho) as (n' & n1 & n2 & Epn & Epn' & -> & ->).
      unfold propag_neg in En. rewrite En in Epn'. inversion Epn'; subst n'. rewrite Epn.
      destruct (propag_neg_sound (fun _ => false) _ _ En) as [_ Hnnf].
      rewrite (to_cnf_p_conc _ _ _ Ek Hnnf). cbn [rbind].
      destruct (to_cnf_sound (fun _ => false) _ _ _ Ek Hnnf) as [_ Hcnf].
      destruct (to_clauses_p_conc k Hcnf) as (cls' & Ecl' & _ & Epl). rewrite Ecl in Ecl'. inversion Ecl'; subst cls'.
      rewrite Epl.
      rewrite (start_resolution_p_conc _ _ _ _ _ _ Ex (clauses_ok_nz _ Hok)). cbn [rbind].
      cbn [fst] in Er. unfold pn_input. cbn [toggle].
      destruct vd as [[|]|]; subst r.
      - repeat (rewrite s_trans_refl; cbn [obind of_option rbind]).
        unfold s_mp. rewrite core_eqb_refl. reflexivity.
      - subst l0. unfold k_neg at 1. repeat (rewrite s_trans_refl; cbn [obind of_option rbind]).
        unfold s_mp, s_dneg_elim, nn, k_neg. rewrite core_eqb_refl. reflexivity.
      - reflexivity. }
    unfold conj_shape in Hshape.
    destruct (tcf (k_neg p)) as [[|]|n i|n a b|n a b] eqn:Ec; cbn [conj_spec] in Hspec; destruct Hspec as [-> ->].
    - inversion H; subst. reflexivity.
    - inversion H; subst. unfold s_mp, s_dneg_elim, nn. rewrite core_eqb_refl. reflexivity.
    - apply Htail; auto.
    - apply Htail; auto.
    - cbn in Hshape. discriminate.
  Qed.
End Glue.

(** the three helper specs as one predicate *)
Definition helper_specs (P : pieces) : Prop :=
  (forall cl x, cl <> [] -> Forall nz cl ->
     simplify_pf P cl x = k_equiv (clause_core cl) (clause_core (simplify_clause cl x))) /\
  (forall l r, l <> [] -> r <> [] ->
     merge_pf P l r = k_equiv (k_or (clause_core l) (clause_core r)) (clause_core (l ++ r))) /\
  (forall cl, Forall nz cl -> is_trivial (mkset cl) = true -> trivial_pf P cl = clause_core cl).

Theorem build_proof_conc_modulo : forall P, helper_specs P ->
  forall fuel h cl terms t, build_term fuel h cl terms = Ok t -> hint_pos h -> clauses_nz terms ->
  build_term_p P fuel h cl terms = Ok (t, KImp (cls_core terms) (clause_core t)).
Proof. intros P (H1 & H2 & H3). apply build_term_p_conc; auto. Qed.

Theorem start_resolution_conc_modulo : forall P, helper_specs P ->
  forall ns fuel cls vd l h, start_resolution ns fuel cls = Ok (vd, l, h) -> clauses_nz cls ->
  start_resolution_p P ns fuel cls =
  Ok (match vd with
      | Some true => Some (true, cls_core cls)
      | Some false => Some (false, k_neg (cls_core cls))
      | None => None
      end).
Proof. intros P (H1 & H2 & H3). apply start_resolution_p_conc; auto. Qed.

Theorem prove_tautology_conc_modulo : forall P, helper_specs P ->
  forall ns fuel f r, decide ns fuel f = Ok r ->
  prove_tautology_p P ns fuel f =
  Ok (match r with
      | Some true => Some (true, expand f)
      | Some false => Some (false, k_neg (expand f))
      | None => None
      end).
Proof. intros P (H1 & H2 & H3). apply prove_tautology_p_conc; auto. Qed.

Lemma spec_pieces_ok : helper_specs spec_pieces.
Proof. repeat split. Qed.

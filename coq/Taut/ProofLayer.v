(** C09 — proof layer, schema level: to_conj_form and propag_neg compose the library rules so that the
    conclusions of the returned proofs are LITERALLY `f -> stage f` and `stage f -> f`
    (resp. `f` / `neg f` when the stage folds the formula to a constant). *)
From Coq Require Import ZArith NArith List Bool Lia.
From Pi2 Require Import Taut.Model Taut.Stages Taut.PLModel.
Import ListNotations.

Lemma core_eqb_refl : forall a, core_eqb a a = true.
Proof. induction a; cbn; auto. - apply N.eqb_refl. - rewrite IHa1, IHa2; reflexivity. Qed.

(** what to_conj_form advertises about its proofs *)
Definition conj_spec (p : core) (c : cf) (l : core) (r : option core) : Prop :=
  match c with
  | CBot true => l = p /\ r = None
  | CBot false => l = k_neg p /\ r = None
  | _ => l = KImp p (cf_core c) /\ r = Some (KImp (cf_core c) p)
  end.

Lemma cf_core_toggle_neg : forall c, cf_flag c = true -> cf_core c = k_neg (cf_core (toggle c)).
Proof. destruct c as [n|n i|n l r|n l r]; cbn; intros ->; reflexivity. Qed.

Lemma cf_core_toggle_pos : forall c, cf_flag c = false -> cf_core (toggle c) = k_neg (cf_core c).
Proof. destruct c as [n|n i|n l r|n l r]; cbn; intros ->; reflexivity. Qed.

Lemma tcfp_conc : forall p, exists l r, tcfp p = Some (tcf p, l, r) /\ conj_spec p (tcf p) l r.
Proof.
  induction p as [|n|p0 IH0 p1 IH1].
  - eexists _, _. split; [reflexivity|]. cbn. auto.
  - eexists _, _. split; [reflexivity|]. cbn. auto.
  - rewrite tcf_imp. cbn [tcfp].
    destruct (is_top (KImp p0 p1)) eqn:Et.
    { destruct p0; try discriminate; destruct p1; try discriminate.
      eexists _, _. split; [reflexivity|]. cbn. auto. }
    destruct IH1 as (l1 & r1 & E1 & H1). destruct IH0 as (l0 & r0 & E0 & H0).
    rewrite E1. cbn [obind].
    destruct (tcf p1) as [[|]|n1 i1|n1 a1 b1|n1 a1 b1] eqn:T1; cbn [conj_spec] in H1; destruct H1 as [-> ->].
    + (* pat1 is Top *) eexists _, _. split; [reflexivity|]. cbn. auto.
    + (* pat1 is Bot *)
      rewrite E0. cbn [obind].
      destruct (tcf p0) as [[|]|n0 i0|n0 a0 b0|n0 a0 b0] eqn:T0; cbn [conj_spec] in H0; destruct H0 as [-> ->];
        try (eexists _, _; split; [reflexivity|]; cbn; auto; fail);
        destruct n0; cbn; eexists _, _; (split; [reflexivity|]); cbn; auto.
    + rewrite E0. cbn [obind].
      destruct (tcf p0) as [[|]|n0 i0|n0 a0 b0|n0 a0 b0] eqn:T0; cbn [conj_spec] in H0; destruct H0 as [-> ->];
        try (eexists _, _; split; [reflexivity|]; cbn; auto; fail);
        destruct n0; cbn; eexists _, _; (split; [reflexivity|]); cbn; auto.
    + rewrite E0. cbn [obind].
      destruct (tcf p0) as [[|]|n0 i0|n0 a0 b0|n0 a0 b0] eqn:T0; cbn [conj_spec] in H0; destruct H0 as [-> ->];
        try (eexists _, _; split; [reflexivity|]; cbn; auto; fail);
        destruct n0; cbn; eexists _, _; (split; [reflexivity|]); cbn; auto.
    + rewrite E0. cbn [obind].
      destruct (tcf p0) as [[|]|n0 i0|n0 a0 b0|n0 a0 b0] eqn:T0; cbn [conj_spec] in H0; destruct H0 as [-> ->];
        try (eexists _, _; split; [reflexivity|]; cbn; auto; fail);
        destruct n0; cbn; eexists _, _; (split; [reflexivity|]); cbn; auto.
Qed.

(** propag_neg: pattern of the input as the callee sees it *)
Definition pn_input (b : bool) (t : cf) : core := cf_core (if b then toggle t else t).

Lemma pnp_conc : forall t b, is_orform t = true ->
  exists t' p1 p2, pnp b t = Some (t', p1, p2) /\ pn b t = Some t' /\
                   p1 = KImp (pn_input b t) (cf_core t') /\ p2 = KImp (cf_core t') (pn_input b t).
Proof.
  induction t as [n|n i|n l IHl r IHr|n l IHl r IHr]; intros b H; cbn [is_orform] in H; try discriminate.
  - eexists _, _, _. split; [reflexivity|]. split; [reflexivity|].
    unfold pn_input. destruct b, n; cbn; auto.
  - apply andb_prop in H as [Hl Hr].
    cbn [pnp pn].
    destruct (xorb b n) eqn:Ex.
    + destruct (IHl true Hl) as (tl & l1 & l2 & El & Pl & -> & ->).
      destruct (IHr true Hr) as (tr & r1 & r2 & Er & Pr & -> & ->).
      rewrite El, Er, Pl, Pr. cbn [obind].
      assert (Hin : pn_input b (COr n l r) = k_neg (k_or (cf_core l) (cf_core r))).
      { unfold pn_input. destruct b, n; try discriminate; reflexivity. }
      rewrite Hin. unfold pn_input. cbn [toggle].
      destruct (cf_flag l) eqn:Fl; destruct (cf_flag r) eqn:Fr; cbn [negb obind s_dni_l_i s_dni_r_i s_imim_and];
        rewrite ?(cf_core_toggle_neg l Fl), ?(cf_core_toggle_neg r Fr),
                ?(cf_core_toggle_pos l Fl), ?(cf_core_toggle_pos r Fr).
      * eexists _, _, _. split; [reflexivity|]. split; [reflexivity|]. split; reflexivity.
      * cbn. rewrite !core_eqb_refl. cbn.
        eexists _, _, _. split; [reflexivity|]. split; [reflexivity|]. split; reflexivity.
      * eexists _, _, _. split; [reflexivity|]. split; [reflexivity|]. split; reflexivity.
      * cbn. rewrite !core_eqb_refl. cbn.
        eexists _, _, _. split; [reflexivity|]. split; [reflexivity|]. split; reflexivity.
    + destruct (IHl false Hl) as (tl & l1 & l2 & El & Pl & -> & ->).
      destruct (IHr false Hr) as (tr & r1 & r2 & Er & Pr & -> & ->).
      rewrite El, Er, Pl, Pr. cbn [obind s_imim_or].
      eexists _, _, _. split; [reflexivity|]. split; [reflexivity|].
      unfold pn_input. destruct b, n; try discriminate; cbn; auto.
Qed.

(* ------------------------------------------------------------------------------------------ *)
(** * to_cnf *)

Lemma cf_core_or : forall l r, cf_core (COr false l r) = k_or (cf_core l) (cf_core r).
Proof. reflexivity. Qed.
Lemma cf_core_and : forall l r, cf_core (CAnd false l r) = k_and (cf_core l) (cf_core r).
Proof. reflexivity. Qed.
Lemma dest_or_k_or : forall a b, dest_or (k_or a b) = Some (a, b).
Proof. reflexivity. Qed.
Lemma dest_and_k_and : forall a b, dest_and (k_and a b) = Some (a, b).
Proof. reflexivity. Qed.
Lemma s_trans_refl : forall p q r, s_imp_transitivity (KImp p q) (KImp q r) = Some (KImp p r).
Proof. intros. cbn [s_imp_transitivity]. rewrite core_eqb_refl. reflexivity. Qed.

Lemma to_cnf_p_conc : forall fuel t t',
  to_cnf fuel t = Ok t' -> is_nnf t = true ->
  to_cnf_p fuel t = Ok (t', KImp (cf_core t) (cf_core t'), KImp (cf_core t') (cf_core t)).
Proof.
  induction fuel as [|fuel IH]; intros t t' H Hn; [discriminate|].
  destruct t as [n|n i|n l r|n l r]; cbn [to_cnf] in H; try discriminate.
  - inversion H; subst. reflexivity.
  - (* COr *)
    cbn [is_nnf] in Hn. apply andb_prop in Hn as [Hn Hr]. apply andb_prop in Hn as [Hn0 Hl].
    destruct n; [discriminate|].
    destruct (to_cnf fuel l) as [l'| |] eqn:El; cbn [rbind] in H; try discriminate.
    destruct (to_cnf fuel r) as [r'| |] eqn:Er; cbn [rbind] in H; try discriminate.
    destruct (to_cnf_sound (fun _ => false) _ _ _ El Hl) as [_ Cl].
    destruct (to_cnf_sound (fun _ => false) _ _ _ Er Hr) as [_ Cr].
    cbn [to_cnf_p]. rewrite (IH _ _ El Hl), (IH _ _ Er Hr). cbn [rbind s_imim_or of_option].
    rewrite cf_core_or.
    destruct l' as [nl|nl il|nl al bl|nl al bl]; [discriminate Cl| | |].
    + destruct r' as [nr|nr ir|nr ar br|nr ar br]; [discriminate Cr| | |].
      * inversion H; subst. rewrite cf_core_or. reflexivity.
      * inversion H; subst. cbn [is_cnf] in Cr. apply andb_prop in Cr as [Cr _]. apply andb_prop in Cr as [Cr _].
        destruct nr; [discriminate|]. rewrite cf_core_or. reflexivity.
      * cbn [is_cnf] in Cr. apply andb_prop in Cr as [Cr Cbr]. apply andb_prop in Cr as [Cnr Car].
        destruct nr; [discriminate|].
        assert (Hnn : is_nnf (CAnd false (COr false (CVar nl il) ar) (COr false (CVar nl il) br)) = true).
        { cbn. rewrite (cnf_is_nnf _ Car), (cnf_is_nnf _ Cbr). reflexivity. }
        rewrite cf_core_and.
        unfold s_m2_or_distr_l, s_m1_or_distr_l_rev. rewrite !dest_or_k_or. cbn [obind]. rewrite !dest_and_k_and.
        cbn [obind of_option rbind].
        rewrite (IH _ _ H Hnn). cbn [rbind]. rewrite !cf_core_and, !cf_core_or.
        rewrite !s_trans_refl. reflexivity.
    + destruct r' as [nr|nr ir|nr ar br|nr ar br]; [discriminate Cr| | |].
      * inversion H; subst. cbn [is_cnf] in Cl. apply andb_prop in Cl as [Cl _]. apply andb_prop in Cl as [Cl _].
        destruct nl; [discriminate|]. rewrite !cf_core_or. reflexivity.
      * inversion H; subst. cbn [is_cnf] in Cl, Cr.
        apply andb_prop in Cl as [Cl _]. apply andb_prop in Cl as [Cl _].
        apply andb_prop in Cr as [Cr _]. apply andb_prop in Cr as [Cr _].
        destruct nl; [discriminate|]. destruct nr; [discriminate|]. rewrite !cf_core_or. reflexivity.
      * pose proof Cl as Cl'. cbn [is_cnf] in Cl'. apply andb_prop in Cl' as [Cl' _]. apply andb_prop in Cl' as [Cl' _].
        destruct nl; [discriminate|].
        cbn [is_cnf] in Cr. apply andb_prop in Cr as [Cr Cbr]. apply andb_prop in Cr as [Cnr Car].
        destruct nr; [discriminate|].
        assert (Hcl : is_nnf (COr false al bl) = true) by (apply cnf_is_nnf; exact Cl).
        assert (Hnn : is_nnf (CAnd false (COr false (COr false al bl) ar) (COr false (COr false al bl) br)) = true).
        { cbn in Hcl |- *. rewrite Hcl, (cnf_is_nnf _ Car), (cnf_is_nnf _ Cbr). reflexivity. }
        rewrite cf_core_and.
        unfold s_m2_or_distr_l, s_m1_or_distr_l_rev. rewrite !dest_or_k_or. cbn [obind]. rewrite !dest_and_k_and.
        cbn [obind of_option rbind].
        rewrite (IH _ _ H Hnn). cbn [rbind]. rewrite !cf_core_and. rewrite !(cf_core_or (COr false al bl)).
        rewrite !s_trans_refl. reflexivity.
    + (* l' is an And *)
      cbn [is_cnf] in Cl. apply andb_prop in Cl as [Cl Cbl]. apply andb_prop in Cl as [Cnl Cal].
      destruct nl; [discriminate|].
      assert (Hnn : is_nnf (CAnd false (COr false al r') (COr false bl r')) = true).
      { cbn. rewrite (cnf_is_nnf _ Cal), (cnf_is_nnf _ Cbl), (cnf_is_nnf _ Cr). reflexivity. }
      rewrite cf_core_and.
      unfold s_m2_or_distr_r, s_m1_or_distr_r_rev. rewrite !dest_or_k_or. cbn [obind]. rewrite !dest_and_k_and.
      cbn [obind of_option rbind].
      rewrite (IH _ _ H Hnn). cbn [rbind]. rewrite !cf_core_and, !cf_core_or.
      rewrite !s_trans_refl. reflexivity.
  - (* CAnd *)
    cbn [is_nnf] in Hn. apply andb_prop in Hn as [Hn Hr]. apply andb_prop in Hn as [Hn0 Hl].
    destruct n; [discriminate|].
    destruct (to_cnf fuel l) as [l'| |] eqn:El; cbn [rbind] in H; try discriminate.
    destruct (to_cnf fuel r) as [r'| |] eqn:Er; cbn [rbind] in H; try discriminate.
    inversion H; subst.
    cbn [to_cnf_p]. rewrite (IH _ _ El Hl), (IH _ _ Er Hr). cbn [rbind s_imim_and of_option].
    rewrite !cf_core_and. reflexivity.
Qed.

(** C09 — hand-written prelude of the GENERATED verdict layer (coq/Gen/TautVerdict.v, produced by
    translators/taut_verdict.py).  It fixes how the translator reads the Python data model:

      Pattern (propositional, fully expanded)   -> [core];  `pat == bot()` -> [core_is_bot], `pat == top()` -> [is_top],
                                                   `isinstance(pat, MetaVar)` / `Implies.extract(pat)` -> `match`
      ConjForm objects (mutable .negated)        -> [cf] values; attribute reads are the accessors below, an attribute
                                                   assignment `x.negated = e` rebinds the local `x`
      frozenset[int]                             -> strictly sorted [list Z] ([mkset]); set algebra below
      dict (insertion ordered)                   -> association list ([hint_set], [hint_mem])
      list iteration `for x in l` (l may grow)   -> index-driven loop functions with explicit fuel
      exceptions                                 -> [Err];   fuel exhausted -> [Fuel]

    Everything here is part of the translator's trusted base (definitions only, no proofs). *)
From Coq Require Import ZArith NArith List Bool.
From Pi2 Require Import Taut.Model.
Import ListNotations.
Local Open Scope Z_scope.

(** ** patterns *)
Definition core_is_bot (p : core) : bool := match p with KBot => true | _ => false end.

(** ** ConjForm *)
Definition cf_negated (c : cf) : bool :=
  match c with CBot n | CVar n _ | COr n _ _ | CAnd n _ _ => n end.
Definition cf_set_negated (c : cf) (b : bool) : cf :=
  match c with
  | CBot _ => CBot b
  | CVar _ i => CVar b i
  | COr _ l r => COr b l r
  | CAnd _ l r => CAnd b l r
  end.
Definition is_CFBot (c : cf) : bool := match c with CBot _ => true | _ => false end.
Definition is_CFVar (c : cf) : bool := match c with CVar _ _ => true | _ => false end.
Definition is_CFOr (c : cf) : bool := match c with COr _ _ _ => true | _ => false end.
Definition is_CFAnd (c : cf) : bool := match c with CAnd _ _ _ => true | _ => false end.
(** attribute reads; the translator only emits them under the matching isinstance test *)
Definition cf_left (c : cf) : cf := match c with COr _ l _ | CAnd _ l _ => l | _ => c end.
Definition cf_right (c : cf) : cf := match c with COr _ _ r | CAnd _ _ r => r | _ => c end.
Definition cf_id (c : cf) : N := match c with CVar _ i => i | _ => 0%N end.
Definition cf_set_left (c l' : cf) : cf :=
  match c with COr n _ r => COr n l' r | CAnd n _ r => CAnd n l' r | _ => c end.
Definition cf_set_right (c r' : cf) : cf :=
  match c with COr n l _ => COr n l r' | CAnd n l _ => CAnd n l r' | _ => c end.

(** ** frozenset[int] *)
Definition zinter (a b : list Z) : list Z := filter (fun y => zmem y b) a.          (* a.intersection(b) *)
Definition zdiff (a b : list Z) : list Z := filter (fun y => negb (zmem y b)) a.    (* a.difference(b) *)
Definition zlen (a : list Z) : Z := Z.of_nat (length a).
Definition llen {A} (a : list A) : Z := Z.of_nat (length a).

(** itertools.combinations(l, 2) *)
Fixpoint combinations2 (l : list Z) : list (Z * Z) :=
  match l with
  | [] => []
  | x :: t => map (fun y => (x, y)) t ++ combinations2 t
  end.

(** enumerate(l) *)
Fixpoint enumerate_from {A} (i : Z) (l : list A) : list (Z * A) :=
  match l with [] => [] | x :: t => (i, x) :: enumerate_from (i + 1) t end.
Definition enumerate {A} (l : list A) : list (Z * A) := enumerate_from 0 l.

(** dict values of the hint dictionary *)
Definition hidx (i : Z) : hsrc := HIdx (Z.to_N i).

(** ** loop control *)
Inductive lctl (S R : Type) : Type :=
| LNext (s : S)        (* fell off the end of the body / `continue` *)
| LBreak (s : S)       (* `break` *)
| LRet (r : R).        (* `return r` inside the loop *)
Arguments LNext {S R} s.
Arguments LBreak {S R} s.
Arguments LRet {S R} r.

Inductive lres (S R : Type) : Type :=
| Done (s : S)         (* the loop ended (exhausted or break) with final state s *)
| Ret (r : R).         (* the enclosing function returned r from inside the loop *)
Arguments Done {S R} s.
Arguments Ret {S R} r.

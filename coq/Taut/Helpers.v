(** C09 — proof layer, schema level: reduce_n_or_duplicates_at_front, simplify_clause and
    prove_trivial_clause conclude what they advertise (discharges H_simplify and H_trivial of Taut/Glue.v). *)
From Coq Require Import ZArith NArith List Bool Lia PeanoNat.
From Pi2 Require Import Taut.Model Taut.Sets Taut.PLModel Taut.ProofLayer Taut.ProofLayer2 Taut.Merge Taut.AC.
Import ListNotations.

(* ------------------------------------------------------------------------------------------ *)
(** * reduce_n_or_duplicates_at_front *)

Fixpoint iterp (k : nat) (p q : core) : core := match k with O => q | S k' => k_or p (iterp k' p q) end.

Lemma iterp_succ_r : forall k p q, iterp k p (k_or p q) = iterp (S k) p q.
Proof. intros k p q. induction k as [|k IH]; [reflexivity|]. cbn [iterp]. rewrite IH. reflexivity. Qed.

Lemma reduce_loop_spec : forall k p q R,
  reduce_loop k p q (k_equiv (k_or p q) R) = Some (k_equiv (k_or p (iterp k p q)) R).
Proof.
  induction k as [|k IH]; intros p q R; [reflexivity|].
  cbn [reduce_loop]. unfold s_reduce_dup. rewrite equiv_trans_equiv. cbn [obind].
  rewrite IH. rewrite iterp_succ_r. reflexivity.
Qed.

Lemma fold1_repeat : forall p n, fold1 k_or (repeat p (S n)) = iterp n p p.
Proof.
  induction n as [|n IH]; [reflexivity|].
  change (repeat p (S (S n))) with (p :: repeat p (S n)).
  rewrite fold1_cons_ne by discriminate. rewrite IH. reflexivity.
Qed.

Lemma fold1_repeat_app : forall p n rest, rest <> [] ->
  fold1 k_or (repeat p n ++ rest) = iterp n p (fold1 k_or rest).
Proof.
  induction n as [|n IH]; intros rest H; [reflexivity|].
  cbn [repeat app]. rewrite fold1_cons_ne.
  - rewrite IH by auto. reflexivity.
  - destruct (repeat p n); [exact H|discriminate].
Qed.

Lemma s_reduce_n_spec : forall n p rest,
  s_reduce_n n (repeat p (S n) ++ rest)
  = Some (k_equiv (fold1 k_or (repeat p (S n) ++ rest)) (fold1 k_or (p :: rest))).
Proof.
  intros n p rest. unfold s_reduce_n.
  assert (Hlen : length (repeat p (S n) ++ rest) = S n + length rest) by (rewrite app_length, repeat_length; reflexivity).
  rewrite Hlen.
  assert (E1 : (n <? S n + length rest) = true) by (apply Nat.ltb_lt; lia). rewrite E1. cbn [negb].
  destruct (Nat.eqb_spec n 0) as [->|Hn].
  - reflexivity.
  - change (repeat p (S n) ++ rest) with (p :: repeat p n ++ rest) at 1.
    cbv iota.
    destruct rest as [|r rest'].
    + rewrite app_nil_r in *. cbn [length]. rewrite Nat.add_0_r, Nat.eqb_refl.
      unfold s_or_idem. rewrite reduce_loop_spec. rewrite fold1_repeat.
      replace (k_or p (iterp (n - 1) p p)) with (iterp n p p); [reflexivity|].
      destruct n; [congruence|]. cbn [Nat.sub]. rewrite Nat.sub_0_r. reflexivity.
    + assert (E2 : (S n + length (r :: rest') =? S n) = false) by (apply Nat.eqb_neq; cbn; lia). rewrite E2.
      assert (Esk : skipn (S n) (repeat p (S n) ++ r :: rest') = r :: rest').
      { rewrite skipn_app, repeat_length, Nat.sub_diag. rewrite skipn_all2 by (rewrite repeat_length; lia). reflexivity. }
      rewrite Esk. unfold s_reduce_dup. rewrite reduce_loop_spec.
      rewrite fold1_repeat_app by discriminate. rewrite (fold1_cons_ne k_or p) by discriminate.
      replace (k_or p (iterp (n - 1) p (k_or p (fold1 k_or (r :: rest'))))) with (iterp (S n) p (fold1 k_or (r :: rest')));
        [reflexivity|].
      destruct n; [congruence|]. cbn [Nat.sub]. rewrite Nat.sub_0_r. rewrite iterp_succ_r. reflexivity.
Qed.

(* ------------------------------------------------------------------------------------------ *)
(** * positions of the resolvent, what or_move_to_front does with them *)

Lemma positions_incr : forall cl x i, incr i (positions_from i cl x).
Proof.
  induction cl as [|y t IH]; intros x i; cbn; [exact I|].
  destruct (y =? x)%Z.
  - cbn. split; [lia|apply IH].
  - apply (incr_mono _ (S i)); [lia|apply IH].
Qed.

Lemma positions_bound : forall cl x i p, In p (positions_from i cl x) -> p < i + length cl.
Proof.
  induction cl as [|y t IH]; intros x i p H; cbn in H; [destruct H|].
  destruct (y =? x)%Z.
  - destruct H as [<-|H]; [cbn; lia|]. apply IH in H. cbn; lia.
  - apply IH in H. cbn; lia.
Qed.

Lemma positions_nil : forall cl x i, positions_from i cl x = [] <-> ~ In x cl.
Proof.
  induction cl as [|y t IH]; intros x i; cbn; [tauto|].
  destruct (Z.eqb_spec y x) as [->|Hne].
  - split; [discriminate|]. intros H. exfalso. apply H. auto.
  - rewrite IH. split; [intros H [E|H']; [congruence|auto]|intros H H'; apply H; auto].
Qed.

Lemma moved_positions : forall cl x pre k,
  moved_from k (positions_from (k + length pre) cl x) (map lit_core (pre ++ cl))
  = map lit_core (repeat x (length (positions_from (k + length pre) cl x)) ++ pre ++ filter (fun y => negb (y =? x)%Z) cl).
Proof.
  induction cl as [|y t IH]; intros x pre k.
  - cbn. reflexivity.
  - cbn [positions_from filter].
    destruct (Z.eqb_spec y x) as [->|Hne]; cbn [negb].
    + cbn [moved_from length repeat app map].
      replace (k + length pre - k) with (length (map lit_core pre)) by (rewrite map_length; lia).
      rewrite map_app. cbn [map]. rewrite nth_mid, remove_mid. rewrite <- map_app.
      f_equal. replace (S (k + length pre)) with (S k + length pre) by lia. apply IH.
    + replace (S (k + length pre)) with (k + length (pre ++ [y])) by (rewrite app_length; cbn; lia).
      replace (pre ++ y :: t) with ((pre ++ [y]) ++ t) by (rewrite <- app_assoc; reflexivity).
      rewrite IH. rewrite <- app_assoc. reflexivity.
Qed.

Lemma lits_ok_spec : forall cl, lits_ok cl = true <-> Forall nz cl.
Proof.
  intros cl. unfold lits_ok. rewrite forallb_forall, Forall_forall. unfold nz.
  split; intros H y Hy; specialize (H y Hy).
  - apply negb_true_iff, Z.eqb_neq in H. exact H.
  - apply negb_true_iff, Z.eqb_neq. exact H.
Qed.

(* ------------------------------------------------------------------------------------------ *)
(** * simplify_clause *)

Lemma map_repeat' : forall (f : Z -> core) x n, map f (repeat x n) = repeat (f x) n.
Proof. induction n; cbn; congruence. Qed.

Theorem s_simplify_spec : forall cl x, cl <> [] -> Forall nz cl ->
  s_simplify cl x = Some (k_equiv (clause_core cl) (clause_core (simplify_clause cl x))).
Proof.
  intros cl x Hne Hnz. unfold s_simplify, simplify_clause.
  destruct (positions_from 0 cl x) as [|p0 ps'] eqn:Ep.
  - apply positions_nil in Ep. rewrite (proj2 (zmem_false x cl) Ep). reflexivity.
  - assert (Hin : In x cl).
    { destruct (zmem x cl) eqn:E; [apply zmem_in; exact E|]. apply zmem_false in E.
      apply (positions_nil cl x 0) in E. congruence. }
    rewrite (proj2 (zmem_in x cl) Hin).
    rewrite (proj2 (lits_ok_spec cl) Hnz). cbn [negb].
    rewrite <- Ep.
    set (ps := positions_from 0 cl x).
    rewrite (or_move_to_front_spec ps (map lit_core cl)).
    + cbn [obind]. unfold moved.
      pose proof (moved_positions cl x [] 0) as Em. cbn [length app plus] in Em. fold ps in Em. rewrite Em.
      assert (Hn : exists n1, length ps = S n1) by (unfold ps; rewrite Ep; cbn; eauto).
      destruct Hn as [n1 Hn]. rewrite Hn. replace (S n1 - 1) with n1 by lia.
      set (stripped := filter (fun y => negb (y =? x)%Z) cl).
      rewrite map_app, map_repeat'.
      rewrite s_reduce_n_spec. cbn [obind]. rewrite equiv_trans_equiv.
      rewrite (clause_core_fold cl Hne).
      change (lit_core x :: map lit_core stripped) with (map lit_core (x :: stripped)).
      rewrite <- (clause_core_fold (x :: stripped)) by discriminate. reflexivity.
    + destruct cl; [congruence|discriminate].
    + apply positions_incr.
    + intros p Hp. rewrite map_length. apply (positions_bound cl x 0). exact Hp.
Qed.

(* ------------------------------------------------------------------------------------------ *)
(** * prove_trivial_clause *)

Lemma find_opp_some : forall x t i i2, find_opp x i t = Some i2 ->
  exists B C, t = B ++ (- x)%Z :: C /\ i2 = i + length B.
Proof.
  intros x t; induction t as [|y t IH]; intros i i2 H; cbn in H; [discriminate|].
  destruct (Z.eqb_spec (x + y) 0) as [E|E].
  - inversion H; subst. exists [], t. replace y with (- x)%Z by lia. split; [reflexivity|cbn; lia].
  - apply IH in H as (B & C & -> & ->). exists (y :: B), C. split; [reflexivity|cbn; lia].
Qed.

Lemma find_opp_none : forall x t i, find_opp x i t = None -> ~ In (- x)%Z t.
Proof.
  intros x t; induction t as [|y t IH]; intros i H; cbn in H; [intros []|].
  destruct (Z.eqb_spec (x + y) 0) as [E|E]; [discriminate|].
  intros [Hy|Hy]; [lia|]. exact (IH _ H Hy).
Qed.

Lemma find_pair_some : forall cl i i1 i2 x1 x2, find_pair i cl = Some (i1, i2, x1, x2) ->
  exists A B C, cl = A ++ x1 :: B ++ x2 :: C /\ i1 = i + length A /\ i2 = i1 + 1 + length B /\ x2 = (- x1)%Z.
Proof.
  induction cl as [|x t IH]; intros i i1 i2 x1 x2 H; cbn in H; [discriminate|].
  destruct (find_opp x (S i) t) as [j|] eqn:Eo.
  - inversion H; subst. apply find_opp_some in Eo as (B & C & -> & ->).
    exists [], B, C. cbn. repeat split; lia.
  - apply IH in H as (A & B & C & -> & -> & -> & ->).
    exists (x :: A), B, C. cbn. repeat split; lia.
Qed.

Lemma find_pair_complete : forall cl i x, In x cl -> In (- x)%Z cl -> x <> 0%Z -> find_pair i cl <> None.
Proof.
  induction cl as [|y t IH]; intros i x H1 H2 Hx; [destruct H1|].
  cbn. destruct (find_opp y (S i) t) as [j|] eqn:Eo; [discriminate|].
  apply find_opp_none in Eo.
  destruct H1 as [E1|H1]; destruct H2 as [E2|H2].
  - lia.
  - subst y. contradiction.
  - subst y. exfalso. apply Eo. rewrite Z.opp_involutive. exact H1.
  - exact (IH (S i) x H1 H2 Hx).
Qed.

Lemma remove_idx_mid : forall (A B : list Z) x, remove_idx (length A) (A ++ x :: B) = A ++ B.
Proof. induction A as [|a A IH]; intros; cbn; [reflexivity|]. rewrite IH. reflexivity. Qed.

Lemma s_and_r_equiv : forall a b, s_and_r (k_equiv a b) = Some (KImp b a).
Proof. reflexivity. Qed.


Lemma trivial_general : forall A B C x1, x1 <> 0%Z -> A ++ B ++ C <> [] ->
  let cl := A ++ x1 :: B ++ (- x1)%Z :: C in
  let i1 := length A in let i2 := length A + 1 + length B in
  let p := lit_core (Z.abs x1) in
  let rest := clause_core (remove_idx i1 (remove_idx i2 cl)) in
  (let? mv := or_move_to_front [i1; i2] (map lit_core cl) in
   let? pf := s_and_r mv in
   if (x1 <? - x1)%Z then
     let? pf' := s_imp_transitivity (s_or_assoc_r3 (k_neg p) p rest) pf in
     s_mp pf' (s_or_l (s_dneg_elim p) rest)
   else
     let? pf' := s_imp_transitivity (s_or_assoc_r3 p (k_neg p) rest) pf in
     s_mp pf' (s_or_l (s_imp_refl (k_neg p)) rest))
  = Some (clause_core cl).
Proof.
  intros A B C x1 Hx Hne cl i1 i2 p rest.
  assert (Hlits : if (x1 <? - x1)%Z
                  then lit_core x1 = k_neg p /\ lit_core (- x1) = p
                  else lit_core x1 = p /\ lit_core (- x1) = k_neg p).
  { unfold p. destruct x1 as [|q|q]; [congruence| |]; cbn; auto. }
  assert (Hrest : rest = clause_core (A ++ B ++ C)).
  { unfold rest, i1, i2, cl.
    replace (A ++ x1 :: B ++ (- x1)%Z :: C) with ((A ++ x1 :: B) ++ (- x1)%Z :: C) by (rewrite <- app_assoc; reflexivity).
    replace (length A + 1 + length B) with (length (A ++ x1 :: B)) by (rewrite app_length; cbn; lia).
    rewrite remove_idx_mid. rewrite <- app_assoc. cbn [app]. rewrite remove_idx_mid. reflexivity. }
  assert (Hcl : cl <> []) by (unfold cl; destruct A; discriminate).
  rewrite (or_move_to_front_spec [i1; i2] (map lit_core cl)).
  - cbn [obind]. rewrite s_and_r_equiv. cbn [obind].
    assert (Hm : moved [i1; i2] (map lit_core cl) = lit_core x1 :: lit_core (- x1) :: map lit_core (A ++ B ++ C)).
    { unfold moved. cbn [moved_from]. rewrite Nat.sub_0_r. unfold cl, i1, i2.
      rewrite map_app. cbn [map].
      assert (HlA : length A = length (map lit_core A)) by (symmetry; apply map_length).
      remember (map lit_core A) as LA. rewrite HlA.
      rewrite nth_mid, remove_mid.
      rewrite map_app. cbn [map]. rewrite app_assoc.
      assert (HlB : length LA + 1 + length B - 1 = length (LA ++ map lit_core B))
        by (rewrite app_length, map_length; lia).
      rewrite HlB. rewrite nth_mid, remove_mid. subst LA. rewrite <- app_assoc, !map_app. reflexivity. }
    rewrite Hm.
    assert (Hf : fold1 k_or (lit_core x1 :: lit_core (- x1) :: map lit_core (A ++ B ++ C))
                 = k_or (lit_core x1) (k_or (lit_core (- x1)) rest)).
    { rewrite Hrest. rewrite (clause_core_fold (A ++ B ++ C) Hne).
      rewrite fold1_cons_ne by discriminate. rewrite fold1_cons_ne; [reflexivity|].
      destruct (A ++ B ++ C); [congruence|discriminate]. }
    rewrite Hf. rewrite <- (clause_core_fold cl Hcl).
    destruct (x1 <? - x1)%Z; destruct Hlits as [L1 L2]; rewrite L1, L2.
    + unfold s_or_assoc_r3. rewrite s_trans_refl. cbn [obind].
      unfold s_mp, s_or_l, s_dneg_elim, nn, k_or. rewrite core_eqb_refl. reflexivity.
    + unfold s_or_assoc_r3. rewrite s_trans_refl. cbn [obind].
      unfold s_mp, s_or_l, s_imp_refl, k_or. rewrite core_eqb_refl. reflexivity.
  - destruct cl; [congruence|discriminate].
  - cbn. unfold i1, i2. repeat split; lia.
  - intros q [<-|[<-|[]]]; rewrite map_length; unfold cl, i1, i2; rewrite !app_length; cbn [length]; rewrite app_length; cbn [length]; lia.
Qed.

Theorem s_trivial_spec : forall cl, Forall nz cl -> is_trivial (mkset cl) = true ->
  s_trivial cl = Some (clause_core cl).
Proof.
  intros cl Hnz Ht.
  apply is_trivial_true_spec in Ht as (x & Hx1 & Hx2).
  apply (proj1 (mkset_in _ _)) in Hx1. apply (proj1 (mkset_in _ _)) in Hx2.
  assert (Hx0 : x <> 0%Z) by (rewrite Forall_forall in Hnz; apply (Hnz x Hx1)).
  unfold s_trivial.
  destruct (find_pair 0 cl) as [[[[i1 i2] x1] x2]|] eqn:Ef.
  2: { exfalso. exact (find_pair_complete cl 0 x Hx1 Hx2 Hx0 Ef). }
  apply find_pair_some in Ef as (A & B & C & Ecl & E1 & E2 & Ex2). cbn [plus] in E1. subst i1 i2 x2.
  rewrite (proj2 (lits_ok_spec cl) Hnz). cbn [negb].
  assert (Hx1nz : x1 <> 0%Z).
  { rewrite Forall_forall in Hnz. apply (Hnz x1). rewrite Ecl. apply in_app_iff. right. cbn; auto. }
  destruct (A ++ B ++ C) as [|r0 R] eqn:ER.
  - (* the clause is exactly the pair *)
    apply app_eq_nil in ER as [-> ER]. apply app_eq_nil in ER as [-> ->]. cbn [app] in Ecl. subst cl.
    destruct x1 as [|q|q]; [congruence| |]; reflexivity.
  - pose proof (trivial_general A B C x1 Hx1nz) as G. rewrite ER in G. specialize (G ltac:(discriminate)).
    cbv zeta in G. rewrite <- Ecl in G.
    assert (H3 : exists c1 c2 c3 t, cl = c1 :: c2 :: c3 :: t).
    { assert (3 <= length cl).
      { rewrite Ecl, app_length. cbn [length]. rewrite app_length. cbn [length].
        assert (length (A ++ B ++ C) = S (length R)) by (rewrite ER; reflexivity).
        rewrite !app_length in H. lia. }
      destruct cl as [|c1 [|c2 [|c3 t]]]; cbn in H; try lia. eauto. }
    destruct H3 as (c1 & c2 & c3 & t & E3).
    rewrite E3 at 1. cbv iota. exact G.
Qed.

(** the model's helper conclusions satisfy the helper specs: nothing is left to assume *)
Lemma model_simplify_spec : forall cl x, cl <> [] -> Forall nz cl ->
  simplify_pf model_pieces cl x = k_equiv (clause_core cl) (clause_core (simplify_clause cl x)).
Proof. intros. cbn [simplify_pf model_pieces]. rewrite s_simplify_spec by auto. reflexivity. Qed.

Lemma model_merge_spec : forall l r, l <> [] -> r <> [] ->
  merge_pf model_pieces l r = k_equiv (k_or (clause_core l) (clause_core r)) (clause_core (l ++ r)).
Proof. intros. cbn [merge_pf model_pieces]. rewrite s_merge_conc by auto. reflexivity. Qed.

Lemma model_trivial_spec : forall cl, Forall nz cl -> is_trivial (mkset cl) = true ->
  trivial_pf model_pieces cl = clause_core cl.
Proof. intros. cbn [trivial_pf model_pieces]. rewrite s_trivial_spec by auto. reflexivity. Qed.

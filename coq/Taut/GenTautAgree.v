(** C09 — the GENERATED verdict layer (coq/Gen/TautVerdict.v, regenerated from tautology.py on every run) agrees with
    the hand-written model (Taut/Model.v) the theorems are about.  Configuration = current code: [no_shadow = true].

    Stage functions:  gen = Fuel  \/  gen = model      (+ enough fuel => not Fuel);   gen_to_cnf = to_cnf exactly.
    Loops:            model run  =>  generated run with the same result (fuel transfer) + fuel monotonicity of the
                      generated loops; together with the model's termination this gives equality of results. *)
From Coq Require Import ZArith NArith List Bool Lia PeanoNat.
From Pi2 Require Import Taut.Model Taut.Stages Taut.Sets Taut.Resolution Taut.Complete Taut.Termination Taut.BuildTerm
  Taut.GenPrelude Gen.TautVerdict.
Import ListNotations.
Local Open Scope Z_scope.

(* ------------------------------------------------------------------------------------------ *)
(** * resolvable, is_trivial_clause *)

Lemma zinter_common : forall c1 c2, zinter (mkset (map (fun x => - x) c1)) c2 = common c1 c2.
Proof.
  intros c1 c2. unfold zinter, common. apply sorted_ext.
  - apply filter_sorted. apply mkset_sorted.
  - apply mkset_sorted.
  - intros y. rewrite filter_In, !mkset_in, filter_In. tauto.
Qed.

Lemma zdiff_single : forall c x, zdiff c [x] = zremove x c.
Proof.
  intros c x. unfold zdiff, zremove. apply filter_ext. intros y. cbn. rewrite orb_false_r. reflexivity.
Qed.

Lemma gen_resolvable_agree : forall c1 c2, gen_resolvable c1 c2 = Ok (resolvable c1 c2).
Proof.
  intros c1 c2. unfold gen_resolvable, resolvable. rewrite zinter_common.
  destruct (common c1 c2) as [|r [|r2 t]]; cbn [llen length]; try reflexivity.
  - cbn -[zdiff zunion zremove]. rewrite !zdiff_single. reflexivity.
  - assert (E : (llen (r :: r2 :: t) =? 1) = false) by (apply Z.eqb_neq; unfold llen; cbn [length]; lia).
    rewrite E. reflexivity.
Qed.

Lemma existsb_pairs : forall x t,
  existsb (fun '(x1, x2) => x1 + x2 =? 0) (map (fun y => (x, y)) t) = existsb (fun y => x + y =? 0) t.
Proof. intros x t; induction t as [|y t IH]; [reflexivity|]. cbn. rewrite IH. reflexivity. Qed.

Lemma existsb_combinations : forall l,
  existsb (fun '(x1, x2) => x1 + x2 =? 0) (combinations2 l) = is_trivial l.
Proof.
  induction l as [|x t IH]; [reflexivity|].
  cbn [combinations2 is_trivial]. rewrite existsb_app, IH, existsb_pairs. reflexivity.
Qed.

Lemma gen_is_trivial_agree : forall cl, gen_is_trivial_clause cl = Ok (is_trivial cl).
Proof.
  intros cl. unfold gen_is_trivial_clause. rewrite existsb_combinations. destruct (is_trivial cl); reflexivity.
Qed.

(* ------------------------------------------------------------------------------------------ *)
(** * to_conj_form *)

Fixpoint kdepth (p : core) : nat :=
  match p with KImp a b => S (Nat.max (kdepth a) (kdepth b)) | _ => 1%nat end.

Lemma toggle_set_negated : forall c, cf_set_negated c (negb (cf_negated c)) = toggle c.
Proof. destruct c; reflexivity. Qed.

Lemma gen_to_conj_form_spec : forall fuel p,
  gen_to_conj_form fuel p = Fuel \/ gen_to_conj_form fuel p = Ok (tcf p).
Proof.
  induction fuel as [|fuel IH]; intros p; [left; reflexivity|].
  destruct p as [|n|p0 p1]; try (right; reflexivity).
  rewrite tcf_imp. cbn [gen_to_conj_form core_is_bot].
  destruct (is_top (KImp p0 p1)); [right; reflexivity|].
  destruct (IH p1) as [E1|E1]; rewrite E1; cbn [rbind]; [left; reflexivity|].
  destruct (tcf p1) as [[|]|n1 i1|n1 a1 b1|n1 a1 b1]; cbn [is_CFBot cf_negated];
    try (right; reflexivity);
    (destruct (IH p0) as [E0|E0]; rewrite E0; cbn [rbind]; [left; reflexivity|]);
    destruct (tcf p0) as [[|]|[|] i0|[|] a0 b0|[|] a0 b0]; right; reflexivity.
Qed.

Lemma gen_to_conj_form_fuel : forall p fuel, (kdepth p < fuel)%nat -> gen_to_conj_form fuel p <> Fuel.
Proof.
  induction p as [|n|p0 IH0 p1 IH1]; intros fuel H; (destruct fuel as [|fuel]; [lia|]); try discriminate.
  cbn [kdepth] in H. cbn [gen_to_conj_form core_is_bot].
  destruct (is_top (KImp p0 p1)); [discriminate|].
  assert (H1 : gen_to_conj_form fuel p1 <> Fuel) by (apply IH1; lia).
  assert (H0 : gen_to_conj_form fuel p0 <> Fuel) by (apply IH0; lia).
  destruct (gen_to_conj_form_spec fuel p1) as [E1|E1]; [congruence|]. rewrite E1. cbn [rbind].
  destruct (gen_to_conj_form_spec fuel p0) as [E0|E0]; [congruence|].
  destruct (tcf p1) as [[|]|n1 i1|n1 a1 b1|n1 a1 b1]; cbn [is_CFBot cf_negated]; try discriminate;
    rewrite E0; cbn [rbind];
    destruct (tcf p0) as [[|]|[|] i0|[|] a0 b0|[|] a0 b0]; discriminate.
Qed.

(* ------------------------------------------------------------------------------------------ *)
(** * propag_neg *)

Definition togb (b : bool) (t : cf) : cf := if b then toggle t else t.

Fixpoint cheight (t : cf) : nat :=
  match t with
  | COr _ l r | CAnd _ l r => S (Nat.max (cheight l) (cheight r))
  | _ => 1%nat
  end.

Lemma cheight_toggle : forall t, cheight (toggle t) = cheight t.
Proof. destruct t; reflexivity. Qed.

Lemma gen_propag_neg_spec : forall fuel t b,
  gen_propag_neg fuel (togb b t) = Fuel \/ gen_propag_neg fuel (togb b t) = of_option (pn b t).
Proof.
  induction fuel as [|fuel IH]; intros t b; [left; reflexivity|].
  destruct t as [n|n i|n l r|n l r].
  - right. destruct b; reflexivity.
  - right. destruct b, n; reflexivity.
  - assert (Hn : cf_negated (togb b (COr n l r)) = xorb b n) by (destruct b, n; reflexivity).
    assert (Hv : is_CFVar (togb b (COr n l r)) = false) by (destruct b; reflexivity).
    assert (Ho : is_CFOr (togb b (COr n l r)) = true) by (destruct b; reflexivity).
    assert (Hl : cf_left (togb b (COr n l r)) = l) by (destruct b; reflexivity).
    assert (Hr : cf_right (togb b (COr n l r)) = r) by (destruct b; reflexivity).
    cbn [gen_propag_neg]. rewrite Hv, Ho, Hn. cbn [pn].
    destruct (xorb b n).
    + set (t0 := togb b (COr n l r)) in *.
      assert (E1 : cf_left (cf_set_right (cf_set_left t0 (cf_set_negated (cf_left t0) (negb (cf_negated (cf_left t0)))))
                     (cf_set_negated (cf_right (cf_set_left t0 (cf_set_negated (cf_left t0) (negb (cf_negated (cf_left t0))))))
                        (negb (cf_negated (cf_right (cf_set_left t0 (cf_set_negated (cf_left t0) (negb (cf_negated (cf_left t0))))))))))
                   = togb true l).
      { unfold t0. destruct b; cbn; rewrite toggle_set_negated; reflexivity. }
      assert (E2 : cf_right (cf_set_right (cf_set_left t0 (cf_set_negated (cf_left t0) (negb (cf_negated (cf_left t0)))))
                     (cf_set_negated (cf_right (cf_set_left t0 (cf_set_negated (cf_left t0) (negb (cf_negated (cf_left t0))))))
                        (negb (cf_negated (cf_right (cf_set_left t0 (cf_set_negated (cf_left t0) (negb (cf_negated (cf_left t0))))))))))
                   = togb true r).
      { unfold t0. destruct b; cbn; rewrite toggle_set_negated; reflexivity. }
      rewrite E1, E2.
      destruct (IH l true) as [F1|F1]; rewrite F1; cbn [rbind]; [left; reflexivity|].
      destruct (pn true l) as [l'|]; cbn [of_option rbind]; [|right; reflexivity].
      destruct (IH r true) as [F2|F2]; rewrite F2; cbn [rbind]; [left; reflexivity|].
      destruct (pn true r) as [r'|]; right; reflexivity.
    + rewrite Hl, Hr.
      pose proof (IH l false) as F1. cbn [togb] in F1.
      pose proof (IH r false) as F2. cbn [togb] in F2.
      destruct F1 as [F1|F1]; rewrite F1; cbn [rbind]; [left; reflexivity|].
      destruct (pn false l) as [l'|]; cbn [of_option rbind]; [|right; reflexivity].
      destruct F2 as [F2|F2]; rewrite F2; cbn [rbind]; [left; reflexivity|].
      destruct (pn false r) as [r'|]; right; reflexivity.
  - right. destruct b; reflexivity.
Qed.

Lemma gen_propag_neg_fuel : forall t b fuel, (cheight t < fuel)%nat -> gen_propag_neg fuel (togb b t) <> Fuel.
Proof.
  induction t as [n|n i|n l IHl r IHr|n l IHl r IHr]; intros b fuel H; (destruct fuel as [|fuel]; [lia|]).
  - destruct b; discriminate.
  - destruct b, n; discriminate.
  - cbn [cheight] in H.
    pose proof (gen_propag_neg_spec (S fuel) (COr n l r) b) as S0.
    assert (Hn : cf_negated (togb b (COr n l r)) = xorb b n) by (destruct b, n; reflexivity).
    assert (Hv : is_CFVar (togb b (COr n l r)) = false) by (destruct b; reflexivity).
    assert (Ho : is_CFOr (togb b (COr n l r)) = true) by (destruct b; reflexivity).
    assert (Hl : cf_left (togb b (COr n l r)) = l) by (destruct b; reflexivity).
    assert (Hr : cf_right (togb b (COr n l r)) = r) by (destruct b; reflexivity).
    cbn [gen_propag_neg]. rewrite Hv, Ho, Hn.
    destruct (xorb b n).
    + set (t0 := togb b (COr n l r)) in *.
      assert (E1 : cf_left (cf_set_right (cf_set_left t0 (cf_set_negated (cf_left t0) (negb (cf_negated (cf_left t0)))))
                     (cf_set_negated (cf_right (cf_set_left t0 (cf_set_negated (cf_left t0) (negb (cf_negated (cf_left t0))))))
                        (negb (cf_negated (cf_right (cf_set_left t0 (cf_set_negated (cf_left t0) (negb (cf_negated (cf_left t0))))))))))
                   = togb true l).
      { unfold t0. destruct b; cbn; rewrite toggle_set_negated; reflexivity. }
      assert (E2 : cf_right (cf_set_right (cf_set_left t0 (cf_set_negated (cf_left t0) (negb (cf_negated (cf_left t0)))))
                     (cf_set_negated (cf_right (cf_set_left t0 (cf_set_negated (cf_left t0) (negb (cf_negated (cf_left t0))))))
                        (negb (cf_negated (cf_right (cf_set_left t0 (cf_set_negated (cf_left t0) (negb (cf_negated (cf_left t0))))))))))
                   = togb true r).
      { unfold t0. destruct b; cbn; rewrite toggle_set_negated; reflexivity. }
      rewrite E1, E2.
      assert (G1 : gen_propag_neg fuel (togb true l) <> Fuel) by (apply IHl; lia).
      assert (G2 : gen_propag_neg fuel (togb true r) <> Fuel) by (apply IHr; lia).
      destruct (gen_propag_neg fuel (togb true l)); cbn [rbind]; try congruence; try discriminate.
      destruct (gen_propag_neg fuel (togb true r)); cbn [rbind]; try congruence; discriminate.
    + rewrite Hl, Hr.
      assert (G1 : gen_propag_neg fuel (togb false l) <> Fuel) by (apply IHl; lia).
      assert (G2 : gen_propag_neg fuel (togb false r) <> Fuel) by (apply IHr; lia).
      cbn [togb] in G1, G2.
      destruct (gen_propag_neg fuel l); cbn [rbind]; try congruence; try discriminate.
      destruct (gen_propag_neg fuel r); cbn [rbind]; try congruence; discriminate.
  - destruct b; discriminate.
Qed.

(* ------------------------------------------------------------------------------------------ *)
(** * to_cnf: the generated function IS the model's function *)

Lemma gen_to_cnf_agree : forall fuel t, gen_to_cnf fuel t = to_cnf fuel t.
Proof.
  induction fuel as [|fuel IH]; intros t; [reflexivity|].
  destruct t as [n|n i|n l r|n l r]; cbn [gen_to_cnf to_cnf is_CFVar is_CFAnd is_CFOr cf_left cf_right]; try reflexivity.
  - rewrite !IH. destruct (to_cnf fuel l) as [l'| |]; cbn [rbind]; try reflexivity.
    destruct (to_cnf fuel r) as [r'| |]; cbn [rbind]; try reflexivity.
    destruct l' as [?|? ?|? ? ?|? a1 a2]; cbn [is_CFAnd cf_left cf_right];
      try (destruct r' as [?|? ?|? ? ?|? b1 b2]; cbn [is_CFAnd cf_left cf_right]; rewrite ?IH;
           try reflexivity; match goal with |- context [to_cnf fuel ?x] => destruct (to_cnf fuel x); reflexivity end).
    all: try (rewrite IH; destruct (to_cnf fuel _); reflexivity).
  - rewrite !IH. reflexivity.
Qed.

(* ------------------------------------------------------------------------------------------ *)
(** * to_clauses *)

Lemma llen_eq1 : forall (A : Type) (l : list A), (llen l =? 1) = match l with [_] => true | _ => false end.
Proof.
  intros A [|x [|y t]]; try reflexivity. apply Z.eqb_neq. unfold llen. cbn [length]. lia.
Qed.
Lemma llen_gt0 : forall (A : Type) (l : list A), (llen l >? 0) = match l with [] => false | _ => true end.
Proof.
  intros A [|x t]; [reflexivity|]. apply Z.gtb_lt. unfold llen. cbn [length]. lia.
Qed.

Lemma gen_to_clauses_spec : forall fuel t,
  gen_to_clauses fuel t = Fuel \/ gen_to_clauses fuel t = of_option (to_clauses t).
Proof.
  induction fuel as [|fuel IH]; intros t; [left; reflexivity|].
  destruct t as [n|n i|n l r|n l r]; cbn [gen_to_clauses to_clauses is_CFVar is_CFAnd is_CFOr cf_left cf_right cf_negated cf_id].
  - right. reflexivity.
  - right. unfold lit_of. destruct n; reflexivity.
  - destruct (IH l) as [F1|F1]; rewrite F1; cbn [rbind]; [left; reflexivity|].
    destruct (to_clauses l) as [cl|]; cbn [of_option rbind]; [|right; reflexivity].
    destruct (IH r) as [F2|F2]; rewrite F2; cbn [rbind]; [left; reflexivity|].
    destruct (to_clauses r) as [cr|]; cbn [of_option rbind]; [|right; reflexivity].
    right. rewrite !llen_eq1, llen_gt0.
    destruct cl as [|a [|a2 cl']]; try reflexivity.
    destruct cr as [|b [|b2 cr']]; try reflexivity.
    cbn [nth]. destruct a; reflexivity.
  - destruct (IH l) as [F1|F1]; rewrite F1; cbn [rbind]; [left; reflexivity|].
    destruct (to_clauses l) as [cl|]; cbn [of_option rbind]; [|right; reflexivity].
    destruct (IH r) as [F2|F2]; rewrite F2; cbn [rbind]; [left; reflexivity|].
    destruct (to_clauses r) as [cr|]; cbn [of_option rbind]; [|right; reflexivity].
    right. rewrite llen_gt0. destruct cl; reflexivity.
Qed.

Lemma gen_to_clauses_fuel : forall t fuel, (cheight t < fuel)%nat -> gen_to_clauses fuel t <> Fuel.
Proof.
  induction t as [n|n i|n l IHl r IHr|n l IHl r IHr]; intros fuel H; (destruct fuel as [|fuel]; [lia|]).
  - cbn. discriminate.
  - cbn [gen_to_clauses is_CFVar]. cbv zeta. discriminate.
  - cbn [cheight] in H.
    pose proof (gen_to_clauses_spec (S fuel) (COr n l r)) as [F|F]; [|rewrite F; destruct (to_clauses (COr n l r)); discriminate].
    exfalso. cbn [gen_to_clauses is_CFVar is_CFAnd is_CFOr cf_left cf_right] in F.
    assert (G1 : gen_to_clauses fuel l <> Fuel) by (apply IHl; lia).
    assert (G2 : gen_to_clauses fuel r <> Fuel) by (apply IHr; lia).
    destruct (gen_to_clauses fuel l) as [cl| |]; cbn [rbind] in F; try congruence.
    destruct (gen_to_clauses fuel r) as [cr| |]; cbn [rbind] in F; try congruence.
    destruct (llen cl =? 1); [|discriminate]. destruct (llen cr =? 1); [|discriminate].
    destruct (llen (nth 0 cl []) >? 0); discriminate.
  - cbn [cheight] in H.
    pose proof (gen_to_clauses_spec (S fuel) (CAnd n l r)) as [F|F]; [|rewrite F; destruct (to_clauses (CAnd n l r)); discriminate].
    exfalso. cbn [gen_to_clauses is_CFVar is_CFAnd is_CFOr cf_left cf_right] in F.
    assert (G1 : gen_to_clauses fuel l <> Fuel) by (apply IHl; lia).
    assert (G2 : gen_to_clauses fuel r <> Fuel) by (apply IHr; lia).
    destruct (gen_to_clauses fuel l) as [cl| |]; cbn [rbind] in F; try congruence.
    destruct (gen_to_clauses fuel r) as [cr| |]; cbn [rbind] in F; try congruence.
    destruct (llen cl >? 0); discriminate.
Qed.

(** C09 — the GENERATED verdict layer (coq/Gen/TautVerdict.v, regenerated from tautology.py on every run) agrees with
    the hand-written model (Taut/Model.v) the theorems are about.  Configuration = current code: [no_shadow = true].

    Stage functions:  gen = Fuel  \/  gen = model      (+ enough fuel => not Fuel);   gen_to_cnf = to_cnf exactly.
    Loops:            model run  =>  generated run with the same result (fuel transfer) + fuel monotonicity of the
                      generated loops; together with the model's termination this gives equality of results. *)
From Coq Require Import ZArith NArith List Bool Lia PeanoNat.
From Pi2 Require Import Taut.Model Taut.Stages Taut.Sets Taut.Resolution Taut.Complete Taut.Termination Taut.BuildTerm
  Taut.GenPrelude Gen.TautVerdict.
Import ListNotations.
Local Open Scope Z_scope.

(* ------------------------------------------------------------------------------------------ *)
(** * resolvable, is_trivial_clause *)

Lemma zinter_common : forall c1 c2, zinter (mkset (map (fun x => - x) c1)) c2 = common c1 c2.
Proof.
  intros c1 c2. unfold zinter, common. apply sorted_ext.
  - apply filter_sorted. apply mkset_sorted.
  - apply mkset_sorted.
  - intros y. rewrite filter_In, !mkset_in, filter_In. tauto.
Qed.

Lemma zdiff_single : forall c x, zdiff c [x] = zremove x c.
Proof.
  intros c x. unfold zdiff, zremove. apply filter_ext. intros y. cbn. rewrite orb_false_r. reflexivity.
Qed.

Lemma gen_resolvable_agree : forall c1 c2, gen_resolvable c1 c2 = Ok (resolvable c1 c2).
Proof.
  intros c1 c2. unfold gen_resolvable, resolvable. rewrite ?zinter_common.
  destruct (common c1 c2) as [|r [|r2 t]] eqn:Ec; cbn [llen length]; try reflexivity.
  - (* an always-true guard (`assert -resolvent in c1 and resolvent in c2`) is discharged from the model: r is a clash *)
    assert (Hr : In r (common c1 c2)) by (rewrite Ec; cbn; auto).
    apply (proj1 (common_in c1 c2 r)) in Hr as [H2 H1].
    pose proof (proj2 (zmem_in _ _) H1) as M1. pose proof (proj2 (zmem_in _ _) H2) as M2.
    cbn -[zdiff zunion zremove zmem]. rewrite ?M1, ?M2. cbn [andb]. rewrite !zdiff_single. reflexivity.
  - assert (E : (llen (r :: r2 :: t) =? 1) = false) by (apply Z.eqb_neq; unfold llen; cbn [length]; lia).
    rewrite E. reflexivity.
Qed.

Lemma existsb_pairs : forall x t,
  existsb (fun '(x1, x2) => x1 + x2 =? 0) (map (fun y => (x, y)) t) = existsb (fun y => x + y =? 0) t.
Proof. intros x t; induction t as [|y t IH]; [reflexivity|]. cbn. rewrite IH. reflexivity. Qed.

Lemma existsb_combinations : forall l,
  existsb (fun '(x1, x2) => x1 + x2 =? 0) (combinations2 l) = is_trivial l.
Proof.
  induction l as [|x t IH]; [reflexivity|].
  cbn [combinations2 is_trivial]. rewrite existsb_app, IH, existsb_pairs. reflexivity.
Qed.

Lemma gen_is_trivial_agree : forall cl, gen_is_trivial_clause cl = Ok (is_trivial cl).
Proof.
  intros cl. unfold gen_is_trivial_clause. rewrite existsb_combinations. destruct (is_trivial cl); reflexivity.
Qed.

(* ------------------------------------------------------------------------------------------ *)
(** * to_conj_form *)

Fixpoint kdepth (p : core) : nat :=
  match p with KImp a b => S (Nat.max (kdepth a) (kdepth b)) | _ => 1%nat end.

Lemma toggle_set_negated : forall c, cf_set_negated c (negb (cf_negated c)) = toggle c.
Proof. destruct c; reflexivity. Qed.

Lemma gen_to_conj_form_spec : forall fuel p,
  gen_to_conj_form fuel p = Fuel \/ gen_to_conj_form fuel p = Ok (tcf p).
Proof.
  induction fuel as [|fuel IH]; intros p; [left; reflexivity|].
  destruct p as [|n|p0 p1]; try (right; reflexivity).
  rewrite tcf_imp. cbn [gen_to_conj_form core_is_bot].
  destruct (is_top (KImp p0 p1)); [right; reflexivity|].
  destruct (IH p1) as [E1|E1]; rewrite E1; cbn [rbind]; [left; reflexivity|].
  destruct (tcf p1) as [[|]|n1 i1|n1 a1 b1|n1 a1 b1]; cbn [is_CFBot cf_negated];
    try (right; reflexivity);
    (destruct (IH p0) as [E0|E0]; rewrite E0; cbn [rbind]; [left; reflexivity|]);
    destruct (tcf p0) as [[|]|[|] i0|[|] a0 b0|[|] a0 b0]; right; reflexivity.
Qed.

Lemma gen_to_conj_form_fuel : forall p fuel, (kdepth p < fuel)%nat -> gen_to_conj_form fuel p <> Fuel.
Proof.
  induction p as [|n|p0 IH0 p1 IH1]; intros fuel H; (destruct fuel as [|fuel]; [lia|]); try discriminate.
  cbn [kdepth] in H. cbn [gen_to_conj_form core_is_bot].
  destruct (is_top (KImp p0 p1)); [discriminate|].
  assert (H1 : gen_to_conj_form fuel p1 <> Fuel) by (apply IH1; lia).
  assert (H0 : gen_to_conj_form fuel p0 <> Fuel) by (apply IH0; lia).
  destruct (gen_to_conj_form_spec fuel p1) as [E1|E1]; [congruence|]. rewrite E1. cbn [rbind].
  destruct (gen_to_conj_form_spec fuel p0) as [E0|E0]; [congruence|].
  destruct (tcf p1) as [[|]|n1 i1|n1 a1 b1|n1 a1 b1]; cbn [is_CFBot cf_negated]; try discriminate;
    rewrite E0; cbn [rbind];
    destruct (tcf p0) as [[|]|[|] i0|[|] a0 b0|[|] a0 b0]; discriminate.
Qed.

(* ------------------------------------------------------------------------------------------ *)
(** * propag_neg *)

Definition togb (b : bool) (t : cf) : cf := if b then toggle t else t.

Fixpoint cheight (t : cf) : nat :=
  match t with
  | COr _ l r | CAnd _ l r => S (Nat.max (cheight l) (cheight r))
  | _ => 1%nat
  end.

Lemma cheight_toggle : forall t, cheight (toggle t) = cheight t.
Proof. destruct t; reflexivity. Qed.

Lemma gen_propag_neg_spec : forall fuel t b,
  gen_propag_neg fuel (togb b t) = Fuel \/ gen_propag_neg fuel (togb b t) = of_option (pn b t).
Proof.
  induction fuel as [|fuel IH]; intros t b; [left; reflexivity|].
  destruct t as [n|n i|n l r|n l r].
  - right. destruct b; reflexivity.
  - right. destruct b, n; reflexivity.
  - assert (Hn : cf_negated (togb b (COr n l r)) = xorb b n) by (destruct b, n; reflexivity).
    assert (Hv : is_CFVar (togb b (COr n l r)) = false) by (destruct b; reflexivity).
    assert (Ho : is_CFOr (togb b (COr n l r)) = true) by (destruct b; reflexivity).
    assert (Hl : cf_left (togb b (COr n l r)) = l) by (destruct b; reflexivity).
    assert (Hr : cf_right (togb b (COr n l r)) = r) by (destruct b; reflexivity).
    cbn [gen_propag_neg]. rewrite Hv, Ho, Hn. cbn [pn].
    destruct (xorb b n).
    + set (t0 := togb b (COr n l r)) in *.
      assert (E1 : cf_left (cf_set_right (cf_set_left t0 (cf_set_negated (cf_left t0) (negb (cf_negated (cf_left t0)))))
                     (cf_set_negated (cf_right (cf_set_left t0 (cf_set_negated (cf_left t0) (negb (cf_negated (cf_left t0))))))
                        (negb (cf_negated (cf_right (cf_set_left t0 (cf_set_negated (cf_left t0) (negb (cf_negated (cf_left t0))))))))))
                   = togb true l).
      { unfold t0. destruct b; cbn; rewrite toggle_set_negated; reflexivity. }
      assert (E2 : cf_right (cf_set_right (cf_set_left t0 (cf_set_negated (cf_left t0) (negb (cf_negated (cf_left t0)))))
                     (cf_set_negated (cf_right (cf_set_left t0 (cf_set_negated (cf_left t0) (negb (cf_negated (cf_left t0))))))
                        (negb (cf_negated (cf_right (cf_set_left t0 (cf_set_negated (cf_left t0) (negb (cf_negated (cf_left t0))))))))))
                   = togb true r).
      { unfold t0. destruct b; cbn; rewrite toggle_set_negated; reflexivity. }
      rewrite E1, E2.
      destruct (IH l true) as [F1|F1]; rewrite F1; cbn [rbind]; [left; reflexivity|].
      destruct (pn true l) as [l'|]; cbn [of_option rbind]; [|right; reflexivity].
      destruct (IH r true) as [F2|F2]; rewrite F2; cbn [rbind]; [left; reflexivity|].
      destruct (pn true r) as [r'|]; right; reflexivity.
    + rewrite Hl, Hr.
      pose proof (IH l false) as F1. cbn [togb] in F1.
      pose proof (IH r false) as F2. cbn [togb] in F2.
      destruct F1 as [F1|F1]; rewrite F1; cbn [rbind]; [left; reflexivity|].
      destruct (pn false l) as [l'|]; cbn [of_option rbind]; [|right; reflexivity].
      destruct F2 as [F2|F2]; rewrite F2; cbn [rbind]; [left; reflexivity|].
      destruct (pn false r) as [r'|]; right; reflexivity.
  - right. destruct b; reflexivity.
Qed.

Lemma gen_propag_neg_fuel : forall t b fuel, (cheight t < fuel)%nat -> gen_propag_neg fuel (togb b t) <> Fuel.
Proof.
  induction t as [n|n i|n l IHl r IHr|n l IHl r IHr]; intros b fuel H; (destruct fuel as [|fuel]; [lia|]).
  - destruct b; discriminate.
  - destruct b, n; discriminate.
  - cbn [cheight] in H.
    pose proof (gen_propag_neg_spec (S fuel) (COr n l r) b) as S0.
    assert (Hn : cf_negated (togb b (COr n l r)) = xorb b n) by (destruct b, n; reflexivity).
    assert (Hv : is_CFVar (togb b (COr n l r)) = false) by (destruct b; reflexivity).
    assert (Ho : is_CFOr (togb b (COr n l r)) = true) by (destruct b; reflexivity).
    assert (Hl : cf_left (togb b (COr n l r)) = l) by (destruct b; reflexivity).
    assert (Hr : cf_right (togb b (COr n l r)) = r) by (destruct b; reflexivity).
    cbn [gen_propag_neg]. rewrite Hv, Ho, Hn.
    destruct (xorb b n).
    + set (t0 := togb b (COr n l r)) in *.
      assert (E1 : cf_left (cf_set_right (cf_set_left t0 (cf_set_negated (cf_left t0) (negb (cf_negated (cf_left t0)))))
                     (cf_set_negated (cf_right (cf_set_left t0 (cf_set_negated (cf_left t0) (negb (cf_negated (cf_left t0))))))
                        (negb (cf_negated (cf_right (cf_set_left t0 (cf_set_negated (cf_left t0) (negb (cf_negated (cf_left t0))))))))))
                   = togb true l).
      { unfold t0. destruct b; cbn; rewrite toggle_set_negated; reflexivity. }
      assert (E2 : cf_right (cf_set_right (cf_set_left t0 (cf_set_negated (cf_left t0) (negb (cf_negated (cf_left t0)))))
                     (cf_set_negated (cf_right (cf_set_left t0 (cf_set_negated (cf_left t0) (negb (cf_negated (cf_left t0))))))
                        (negb (cf_negated (cf_right (cf_set_left t0 (cf_set_negated (cf_left t0) (negb (cf_negated (cf_left t0))))))))))
                   = togb true r).
      { unfold t0. destruct b; cbn; rewrite toggle_set_negated; reflexivity. }
      rewrite E1, E2.
      assert (G1 : gen_propag_neg fuel (togb true l) <> Fuel) by (apply IHl; lia).
      assert (G2 : gen_propag_neg fuel (togb true r) <> Fuel) by (apply IHr; lia).
      destruct (gen_propag_neg fuel (togb true l)); cbn [rbind]; try congruence; try discriminate.
      destruct (gen_propag_neg fuel (togb true r)); cbn [rbind]; try congruence; discriminate.
    + rewrite Hl, Hr.
      assert (G1 : gen_propag_neg fuel (togb false l) <> Fuel) by (apply IHl; lia).
      assert (G2 : gen_propag_neg fuel (togb false r) <> Fuel) by (apply IHr; lia).
      cbn [togb] in G1, G2.
      destruct (gen_propag_neg fuel l); cbn [rbind]; try congruence; try discriminate.
      destruct (gen_propag_neg fuel r); cbn [rbind]; try congruence; discriminate.
  - destruct b; discriminate.
Qed.

(* ------------------------------------------------------------------------------------------ *)
(** * to_cnf: the generated function IS the model's function *)

Lemma gen_to_cnf_agree : forall fuel t, gen_to_cnf fuel t = to_cnf fuel t.
Proof.
  induction fuel as [|fuel IH]; intros t; [reflexivity|].
  destruct t as [n|n i|n l r|n l r]; cbn [gen_to_cnf to_cnf is_CFVar is_CFAnd is_CFOr cf_left cf_right]; try reflexivity.
  - rewrite !IH. destruct (to_cnf fuel l) as [l'| |]; cbn [rbind]; try reflexivity.
    destruct (to_cnf fuel r) as [r'| |]; cbn [rbind]; try reflexivity.
    destruct l' as [?|? ?|? ? ?|? a1 a2]; cbn [is_CFAnd cf_left cf_right];
      try (destruct r' as [?|? ?|? ? ?|? b1 b2]; cbn [is_CFAnd cf_left cf_right]; rewrite ?IH;
           try reflexivity; match goal with |- context [to_cnf fuel ?x] => destruct (to_cnf fuel x); reflexivity end).
    all: try (rewrite IH; destruct (to_cnf fuel _); reflexivity).
  - rewrite !IH. reflexivity.
Qed.

(* ------------------------------------------------------------------------------------------ *)
(** * to_clauses *)

Lemma llen_eq1 : forall (A : Type) (l : list A), (llen l =? 1) = match l with [_] => true | _ => false end.
Proof.
  intros A [|x [|y t]]; try reflexivity. apply Z.eqb_neq. unfold llen. cbn [length]. lia.
Qed.
Lemma llen_gt0 : forall (A : Type) (l : list A), (llen l >? 0) = match l with [] => false | _ => true end.
Proof.
  intros A [|x t]; [reflexivity|]. apply Z.gtb_lt. unfold llen. cbn [length]. lia.
Qed.

Lemma gen_to_clauses_spec : forall fuel t,
  gen_to_clauses fuel t = Fuel \/ gen_to_clauses fuel t = of_option (to_clauses t).
Proof.
  induction fuel as [|fuel IH]; intros t; [left; reflexivity|].
  destruct t as [n|n i|n l r|n l r]; cbn [gen_to_clauses to_clauses is_CFVar is_CFAnd is_CFOr cf_left cf_right cf_negated cf_id].
  - right. reflexivity.
  - right. unfold lit_of. destruct n; reflexivity.
  - destruct (IH l) as [F1|F1]; rewrite F1; cbn [rbind]; [left; reflexivity|].
    destruct (to_clauses l) as [cl|]; cbn [of_option rbind]; [|right; reflexivity].
    destruct (IH r) as [F2|F2]; rewrite F2; cbn [rbind]; [left; reflexivity|].
    destruct (to_clauses r) as [cr|]; cbn [of_option rbind]; [|right; reflexivity].
    right. rewrite !llen_eq1, llen_gt0.
    destruct cl as [|a [|a2 cl']]; try reflexivity.
    destruct cr as [|b [|b2 cr']]; try reflexivity.
    cbn [nth]. destruct a; reflexivity.
  - destruct (IH l) as [F1|F1]; rewrite F1; cbn [rbind]; [left; reflexivity|].
    destruct (to_clauses l) as [cl|]; cbn [of_option rbind]; [|right; reflexivity].
    destruct (IH r) as [F2|F2]; rewrite F2; cbn [rbind]; [left; reflexivity|].
    destruct (to_clauses r) as [cr|]; cbn [of_option rbind]; [|right; reflexivity].
    right. rewrite llen_gt0. destruct cl; reflexivity.
Qed.

Lemma gen_to_clauses_fuel : forall t fuel, (cheight t < fuel)%nat -> gen_to_clauses fuel t <> Fuel.
Proof.
  induction t as [n|n i|n l IHl r IHr|n l IHl r IHr]; intros fuel H; (destruct fuel as [|fuel]; [lia|]).
  - cbn. discriminate.
  - cbn [gen_to_clauses is_CFVar]. cbv zeta. discriminate.
  - cbn [cheight] in H.
    pose proof (gen_to_clauses_spec (S fuel) (COr n l r)) as [F|F]; [|rewrite F; destruct (to_clauses (COr n l r)); discriminate].
    exfalso. cbn [gen_to_clauses is_CFVar is_CFAnd is_CFOr cf_left cf_right] in F.
    assert (G1 : gen_to_clauses fuel l <> Fuel) by (apply IHl; lia).
    assert (G2 : gen_to_clauses fuel r <> Fuel) by (apply IHr; lia).
    destruct (gen_to_clauses fuel l) as [cl| |]; cbn [rbind] in F; try congruence.
    destruct (gen_to_clauses fuel r) as [cr| |]; cbn [rbind] in F; try congruence.
    destruct (llen cl =? 1); [|discriminate]. destruct (llen cr =? 1); [|discriminate].
    destruct (llen (nth 0 cl []) >? 0); discriminate.
  - cbn [cheight] in H.
    pose proof (gen_to_clauses_spec (S fuel) (CAnd n l r)) as [F|F]; [|rewrite F; destruct (to_clauses (CAnd n l r)); discriminate].
    exfalso. cbn [gen_to_clauses is_CFVar is_CFAnd is_CFOr cf_left cf_right] in F.
    assert (G1 : gen_to_clauses fuel l <> Fuel) by (apply IHl; lia).
    assert (G2 : gen_to_clauses fuel r <> Fuel) by (apply IHr; lia).
    destruct (gen_to_clauses fuel l) as [cl| |]; cbn [rbind] in F; try congruence.
    destruct (gen_to_clauses fuel r) as [cr| |]; cbn [rbind] in F; try congruence.
    destruct (llen cl >? 0); discriminate.
Qed.

(* ------------------------------------------------------------------------------------------ *)
(** * the double loop of resolution_algorithm *)

Notation loop2 := gen_resolution_algorithm_loop2.
Notation loop1 := gen_resolution_algorithm_loop1.
Notation lr_t := (lres (hint * list (list Z)) (bool * hint * list (list Z))).

Lemma hint_set_fresh : forall c s h, hint_mem c h = false -> hint_set c s h = h ++ [(c, s)].
Proof.
  intros c s h; induction h as [|[k s0] t IH]; cbn; intros H; [reflexivity|].
  apply orb_false_iff in H as [H1 H2]. rewrite H1, IH by exact H2. reflexivity.
Qed.

(** one iteration of the generated inner loop, in the vocabulary of the model *)
Lemma loop2_unfold : forall F cl1 h l j,
  loop2 (S F) cl1 h l j =
  match nth_error l j with
  | None => Ok (Done (h, l))
  | Some cl2 =>
      if clause_eqb cl2 cl1 then Ok (Done (h, l)) else
      match resolvable cl1 cl2 with
      | None => loop2 F cl1 h l (S j)
      | Some (r, rs) =>
          if hint_mem rs h then loop2 F cl1 h l (S j) else
          let src := if r <? 0 then HRes cl2 cl1 (- r) else HRes cl1 cl2 r in
          match rs with
          | [] => Ok (Ret (true, hint_set rs src h, l))
          | _ => loop2 F cl1 (hint_set rs src h) (l ++ [rs]) (S j)
          end
      end
  end.
Proof.
  intros F cl1 h l j. cbn [gen_resolution_algorithm_loop2].
  destruct (nth_error l j) as [cl2|]; [|reflexivity].
  destruct (clause_eqb cl2 cl1); [reflexivity|].
  rewrite gen_resolvable_agree. cbn [rbind].
  destruct (resolvable cl1 cl2) as [[r rs]|]; [|reflexivity].
  destruct (hint_mem rs h); cbn [negb]; [reflexivity|].
  destruct (r <? 0); destruct rs; reflexivity.
Qed.

Definition cont (F : nat) (i : nat) (x : res lr_t) : res lr_t :=
  match x with
  | Ok (Done (h2, l2)) => loop1 F h2 l2 (S i)
  | Ok (Ret r) => Ok (Ret r)
  | Err => Err
  | Fuel => Fuel
  end.

Definition fin (x : res lr_t) : res (bool * hint * list (list Z)) :=
  match x with
  | Ok (Done (h, l)) => Ok (false, h, l)
  | Ok (Ret r) => Ok r
  | Err => Err
  | Fuel => Fuel
  end.

Lemma loop1_unfold : forall F h l i,
  loop1 (S F) h l i =
  match nth_error l i with
  | None => Ok (Done (h, l))
  | Some c => cont F i (loop2 F c h l 0)
  end.
Proof.
  intros F h l i. cbn [gen_resolution_algorithm_loop1].
  destruct (nth_error l i) as [c|]; [|reflexivity].
  unfold cont. destruct (loop2 F c h l 0) as [[[h2 l2]|r]| |]; reflexivity.
Qed.

Lemma gen_ra_fin : forall F h l, gen_resolution_algorithm F h l = fin (loop1 F h l 0).
Proof.
  intros. unfold gen_resolution_algorithm, fin. destruct (loop1 F h l 0) as [[[h2 l2]|r]| |]; reflexivity.
Qed.

Lemma loop2_mono : forall F cl1 h l j x, loop2 F cl1 h l j = Ok x -> forall F', (F <= F')%nat -> loop2 F' cl1 h l j = Ok x.
Proof.
  induction F as [|F IH]; intros cl1 h l j x H F' HF; [discriminate|].
  destruct F' as [|F']; [lia|]. rewrite loop2_unfold in *.
  destruct (nth_error l j) as [cl2|]; [|exact H].
  destruct (clause_eqb cl2 cl1); [exact H|].
  destruct (resolvable cl1 cl2) as [[r rs]|]; [|apply IH with (F' := F') in H; [exact H|lia]].
  destruct (hint_mem rs h); [apply IH with (F' := F') in H; [exact H|lia]|].
  cbv zeta in *. destruct rs; [exact H|]. apply IH with (F' := F') in H; [exact H|lia].
Qed.

Lemma loop1_mono : forall F h l i x, loop1 F h l i = Ok x -> forall F', (F <= F')%nat -> loop1 F' h l i = Ok x.
Proof.
  induction F as [|F IH]; intros h l i x H F' HF; [discriminate|].
  destruct F' as [|F']; [lia|]. rewrite loop1_unfold in *.
  destruct (nth_error l i) as [c|]; [|exact H].
  unfold cont in *.
  destruct (loop2 F c h l 0) as [[[h2 l2]|r]| |] eqn:E2; try discriminate.
  - rewrite (loop2_mono _ _ _ _ _ _ E2 F') by lia. apply IH with (F' := F') in H; [exact H|lia].
  - rewrite (loop2_mono _ _ _ _ _ _ E2 F') by lia. exact H.
Qed.

(** a run of the model's loop is reproduced by the generated loops *)
Lemma res_loop_to_gen : forall n l h i cl1 j b l' h',
  res_loop true n l h i cl1 j = Ok (b, l', h') ->
  forall F1 F2, (n < F1)%nat -> (n < F2)%nat ->
  fin (cont F2 i (loop2 F1 cl1 h l j)) = Ok (b, h', l').
Proof.
  induction n as [|n IH]; intros l h i cl1 j b l' h' H F1 F2 H1 H2; [discriminate|].
  cbn [res_loop] in H.
  destruct F1 as [|F1]; [lia|]. rewrite loop2_unfold.
  assert (Hnext : match nth_error l (S i) with
                  | Some c => res_loop true n l h (S i) c 0
                  | None => Ok (false, l, h)
                  end = Ok (b, l', h') ->
                  fin (cont F2 i (Ok (Done (h, l)))) = Ok (b, h', l')).
  { intros Hn. cbn [cont]. destruct F2 as [|F2]; [lia|]. rewrite loop1_unfold.
    destruct (nth_error l (S i)) as [c|].
    - apply (IH _ _ _ _ _ _ _ _ Hn); lia.
    - inversion Hn; subst. reflexivity. }
  destruct (nth_error l j) as [cl2|]; [|auto].
  destruct (clause_eqb cl2 cl1); [auto|].
  destruct (resolvable cl1 cl2) as [[r rs]|]; [|apply (IH _ _ _ _ _ _ _ _ H); lia].
  destruct (hint_mem rs h) eqn:Em; [apply (IH _ _ _ _ _ _ _ _ H); lia|].
  rewrite andb_false_r in H. cbv zeta. rewrite (hint_set_fresh _ _ _ Em).
  destruct rs as [|x rs'].
  - inversion H; subst. reflexivity.
  - apply (IH _ _ _ _ _ _ _ _ H); lia.
Qed.

Lemma resolution_algorithm_to_gen : forall n h l b l' h',
  resolution_algorithm true n h l = Ok (b, l', h') ->
  forall F, (S n < F)%nat -> gen_resolution_algorithm F h l = Ok (b, h', l').
Proof.
  intros n h l b l' h' H F HF. rewrite gen_ra_fin. destruct F as [|F]; [lia|]. rewrite loop1_unfold.
  unfold resolution_algorithm in H. destruct l as [|c t].
  - inversion H; subst. reflexivity.
  - cbn [nth_error]. apply (res_loop_to_gen _ _ _ _ _ _ _ _ _ H); lia.
Qed.

Lemma gen_ra_mono : forall F h l x, gen_resolution_algorithm F h l = Ok x ->
  forall F', (F <= F')%nat -> gen_resolution_algorithm F' h l = Ok x.
Proof.
  intros F h l x H F' HF. rewrite gen_ra_fin in *. unfold fin in *.
  destruct (loop1 F h l 0) as [[[h2 l2]|r]| |] eqn:E; try discriminate;
    rewrite (loop1_mono _ _ _ _ _ E F' HF); exact H.
Qed.

(* ------------------------------------------------------------------------------------------ *)
(** * start_resolution_algorithm *)

Notation loop3 := gen_start_resolution_algorithm_loop3.

Lemma nth_error_enumerate_from : forall (A : Type) (l : list A) k idx,
  nth_error (enumerate_from k l) idx = option_map (fun c => (k + Z.of_nat idx, c)) (nth_error l idx).
Proof.
  intros A l; induction l as [|x t IH]; intros k idx; destruct idx; cbn [enumerate_from nth_error option_map]; try reflexivity.
  - f_equal. f_equal. lia.
  - rewrite IH. destruct (nth_error t idx); cbn; [|reflexivity]. f_equal. f_equal. lia.
Qed.

Lemma skipn_nth : forall (A : Type) (l : list A) idx c, nth_error l idx = Some c -> skipn idx l = c :: skipn (S idx) l.
Proof.
  intros A l; induction l as [|x t IH]; intros idx c H; destruct idx; cbn in *; try discriminate.
  - inversion H; reflexivity.
  - apply IH. exact H.
Qed.

Lemma loop3_spec : forall F cls h idx,
  loop3 F cls h idx = Fuel \/ loop3 F cls h idx = Ok (Done (init_hint (map mkset (skipn idx cls)) (N.of_nat idx) h)).
Proof.
  induction F as [|F IH]; intros cls h idx; [left; reflexivity|].
  cbn [gen_start_resolution_algorithm_loop3]. unfold enumerate. rewrite nth_error_enumerate_from.
  destruct (nth_error cls idx) as [c|] eqn:En; cbn [option_map].
  - rewrite gen_is_trivial_agree. cbn [rbind]. rewrite (skipn_nth _ _ _ _ En). cbn [map init_hint].
    replace (N.of_nat idx + 1)%N with (N.of_nat (S idx)) by lia.
    assert (Eh : hidx (0 + Z.of_nat idx) = HIdx (N.of_nat idx)) by (unfold hidx; f_equal; lia).
    destruct (is_trivial (mkset c)); cbn [negb rbind]; rewrite ?Eh; apply IH.
  - right. apply nth_error_None in En. rewrite skipn_all2 by lia. reflexivity.
Qed.

Lemma loop3_fuel : forall F cls h idx, (length cls - idx < F)%nat -> loop3 F cls h idx <> Fuel.
Proof.
  induction F as [|F IH]; intros cls h idx H; [lia|].
  cbn [gen_start_resolution_algorithm_loop3]. unfold enumerate. rewrite nth_error_enumerate_from.
  destruct (nth_error cls idx) as [c|] eqn:En; cbn [option_map]; [|discriminate].
  pose proof (nth_error_lt _ _ _ _ En).
  rewrite gen_is_trivial_agree. cbn [rbind]. destruct (is_trivial (mkset c)); cbn [negb rbind]; apply IH; lia.
Qed.

Lemma gen_start_of_model : forall n cls v l h,
  start_resolution true n cls = Ok (v, l, h) ->
  forall F, (S n < F)%nat -> (length cls < F)%nat -> gen_start_resolution_algorithm F cls = Ok v.
Proof.
  intros n cls v l h H F HF HL. unfold start_resolution in H. unfold gen_start_resolution_algorithm.
  destruct cls as [|c0 cs'].
  { inversion H; subst. reflexivity. }
  cbv iota. cbv zeta.
  destruct (loop3_spec F (c0 :: cs') [] 0) as [E|E].
  { exfalso. revert E. apply loop3_fuel. cbn [length] in *. lia. }
  rewrite E. cbn [rbind skipn N.of_nat].
  destruct (init_hint (map mkset (c0 :: cs')) 0%N []) as [|e h0'] eqn:Eh.
  - inversion H; subst. repeat match goal with |- context [if ?c then _ else _] => destruct c end; reflexivity.
  - destruct (resolution_algorithm true n (e :: h0') (map fst (e :: h0'))) as [[[b l1] h1]| |] eqn:Er; cbn [rbind] in H;
      try discriminate.
    cbv iota. rewrite (resolution_algorithm_to_gen _ _ _ _ _ _ Er F HF). cbn [rbind].
    destruct b; inversion H; subst; reflexivity.
Qed.

Lemma loop3_mono : forall F cls h idx x, loop3 F cls h idx = Ok x -> forall F', (F <= F')%nat -> loop3 F' cls h idx = Ok x.
Proof.
  intros F cls h idx x H F' HF.
  destruct (loop3_spec F cls h idx) as [E|E]; [congruence|].
  destruct (loop3_spec F' cls h idx) as [E'|E']; [|congruence].
  exfalso.
  revert E'. clear E. revert cls h idx x H F' HF.
  induction F as [|F IH]; intros cls h idx x H F' HF; [discriminate|].
  destruct F' as [|F']; [lia|].
  cbn [gen_start_resolution_algorithm_loop3] in *. unfold enumerate in *. rewrite nth_error_enumerate_from in *.
  destruct (nth_error cls idx) as [c|]; cbn [option_map] in *; [|discriminate].
  rewrite gen_is_trivial_agree in *. cbn [rbind] in *.
  destruct (is_trivial (mkset c)); cbn [negb rbind] in *; eapply IH; eauto; lia.
Qed.

Lemma gen_start_mono : forall F cls v, gen_start_resolution_algorithm F cls = Ok v ->
  forall F', (F <= F')%nat -> gen_start_resolution_algorithm F' cls = Ok v.
Proof.
  intros F cls v H F' HF. unfold gen_start_resolution_algorithm in *.
  destruct cls as [|c0 cs']; [exact H|]. cbv iota zeta in *.
  destruct (loop3 F (c0 :: cs') [] 0) as [[h5|r]| |] eqn:E3; cbn [rbind] in H; try discriminate.
  - rewrite (loop3_mono _ _ _ _ _ E3 F' HF). cbn [rbind].
    destruct h5 as [|e h5']; [exact H|]. cbv iota in *.
    destruct (gen_resolution_algorithm F (e :: h5') (map fst (e :: h5'))) as [[[b hh] ll]| |] eqn:Er; cbn [rbind] in H;
      try discriminate.
    rewrite (gen_ra_mono _ _ _ _ Er F' HF). exact H.
  - rewrite (loop3_mono _ _ _ _ _ E3 F' HF). exact H.
Qed.

(* ------------------------------------------------------------------------------------------ *)
(** * prove_tautology / decide *)

Lemma gen_tcf_ok : forall F p c, gen_to_conj_form F p = Ok c -> c = tcf p.
Proof. intros F p c H. destruct (gen_to_conj_form_spec F p) as [E|E]; congruence. Qed.

Lemma gen_pn_ok : forall F c n, gen_propag_neg F c = Ok n -> propag_neg c = Some n.
Proof.
  intros F c n H. destruct (gen_propag_neg_spec F c false) as [E|E]; cbn [togb] in E; [congruence|].
  unfold propag_neg. destruct (pn false c); cbn in E; congruence.
Qed.

Lemma gen_cls_ok : forall F k cls, gen_to_clauses F k = Ok cls -> to_clauses k = Some cls.
Proof.
  intros F k cls H. destruct (gen_to_clauses_spec F k) as [E|E]; [congruence|].
  destruct (to_clauses k); cbn in E; congruence.
Qed.

(** verdict of the model's start_resolution, as the generated function returns it *)
Lemma gen_start_ok : forall F cls v, gen_start_resolution_algorithm F cls = Ok v ->
  forall N, (res_fuel cls <= N)%nat -> exists l h, start_resolution true N cls = Ok (v, l, h).
Proof.
  intros F cls v H N HN.
  destruct (start_resolution true N cls) as [[[v' l] h]| |] eqn:E.
  - exists l, h. f_equal. f_equal. f_equal.
    set (F' := Nat.max F (S (S (N + length cls)))).
    pose proof (gen_start_mono _ _ _ H F' ltac:(unfold F'; lia)) as H1.
    pose proof (gen_start_of_model _ _ _ _ _ E F' ltac:(unfold F'; lia) ltac:(unfold F'; lia)) as H2.
    congruence.
  - exfalso. exact (start_resolution_no_err _ _ _ E).
  - exfalso. exact (start_resolution_terminates cls N HN E).
Qed.

Lemma expand_neg : forall f, expand (FNeg f) = k_neg (expand f).
Proof. reflexivity. Qed.

(** whatever the generated decision function answers, the model answers too (for every sufficiently large model fuel) *)
Theorem gen_decide_sound : forall F f r, gen_decide F f = Ok r -> exists N, decide true N f = Ok r.
Proof.
  intros F f r H. unfold gen_decide, gen_prove_tautology in H.
  destruct (gen_to_conj_form F (k_neg (expand f))) as [c| |] eqn:Ec; cbn [rbind] in H; try discriminate.
  apply gen_tcf_ok in Ec. cbv zeta in H.
  assert (Hdec : forall N, decide true N f =
                 match c with CBot true => Ok (Some false) | CBot false => Ok (Some true) | _ => decide_tail true N c end).
  { intros N. unfold decide, to_conj_form. rewrite expand_neg, <- Ec. destruct c as [[|]|? ?|? ? ?|? ? ?]; reflexivity. }
  destruct (is_CFBot c) eqn:Eb.
  - exists O. rewrite Hdec. destruct c as [[|]|n i|n a b|n a b]; try discriminate; exact H.
  - assert (Hd : forall N, decide true N f = decide_tail true N c).
    { intros N. rewrite Hdec. destruct c as [[|]|n i|n a b|n a b]; try discriminate; reflexivity. }
    destruct (gen_propag_neg F c) as [nn| |] eqn:En; cbn [rbind] in H; try discriminate.
    apply gen_pn_ok in En.
    rewrite gen_to_cnf_agree in H.
    destruct (to_cnf F nn) as [k| |] eqn:Ek; cbn [rbind] in H; try discriminate.
    destruct (gen_to_clauses F k) as [cls| |] eqn:Ecl; cbn [rbind] in H; try discriminate.
    apply gen_cls_ok in Ecl.
    destruct (gen_start_resolution_algorithm F cls) as [v| |] eqn:Es; cbn [rbind] in H; try discriminate.
    set (N := Nat.max F (res_fuel cls)).
    destruct (gen_start_ok _ _ _ Es N ltac:(unfold N; lia)) as (l & h & Em).
    exists N. rewrite Hd. unfold decide_tail. rewrite En. cbn [of_option rbind].
    rewrite (to_cnf_mono _ _ _ Ek N ltac:(unfold N; lia)). cbn [rbind].
    rewrite Ecl. cbn [of_option rbind]. rewrite Em. cbn [rbind fst].
    destruct v as [[|]|]; cbn in H |- *; congruence.
Qed.

(** sizes of the intermediate results (only ever stated, never computed) *)
Definition stage_sizes (f : form) : nat :=
  let c := to_conj_form (FNeg f) in
  cheight c +
  match propag_neg c with
  | Some n =>
      match to_cnf (cnf_fuel n) n with
      | Ok k => cheight k + match to_clauses k with Some cls => length cls | None => 0 end
      | _ => 0
      end
  | None => 0
  end.

Definition source_fuel (f : form) : nat :=
  3 + enough_fuel f + kdepth (expand (FNeg f)) + stage_sizes f.

Theorem gen_decide_total : forall f F, (source_fuel f <= F)%nat ->
  exists r, decide true (enough_fuel f) f = Ok r /\ gen_decide F f = Ok r.
Proof.
  intros f F HF. unfold source_fuel in HF.
  destruct (decide true (enough_fuel f) f) as [r| |] eqn:Ed.
  2: { exfalso. exact (decide_no_err _ _ _ Ed). }
  2: { exfalso. exact (decide_terminates f _ (le_n _) Ed). }
  exists r. split; [reflexivity|].
  unfold gen_decide, gen_prove_tautology.
  assert (Ec : gen_to_conj_form F (k_neg (expand f)) = Ok (tcf (k_neg (expand f)))).
  { destruct (gen_to_conj_form_spec F (k_neg (expand f))) as [E|E]; [|exact E].
    exfalso. revert E. apply gen_to_conj_form_fuel. rewrite <- expand_neg. lia. }
  rewrite Ec. cbn [rbind]. cbv zeta.
  unfold decide, to_conj_form in Ed. rewrite expand_neg in Ed.
  unfold stage_sizes, to_conj_form in HF. rewrite expand_neg in HF. cbv zeta in HF.
  set (c := tcf (k_neg (expand f))) in *.
  assert (Htail : decide_tail true (enough_fuel f) c = Ok r ->
     (do v_r3 <- gen_propag_neg F c;
      do v_r5 <- gen_to_cnf F v_r3;
      do v_r7 <- gen_to_clauses F v_r5;
      do v_r9 <- gen_start_resolution_algorithm F v_r7;
      (if match v_r9 with None => true | Some _ => false end then Ok None
       else match v_r9 with
            | Some v_proved_true11 => if v_proved_true11 then Ok (Some false) else Ok (Some true)
            | None => Err
            end)) = Ok r).
  { intros Ht.
    destruct (pipeline_stages _ _ _ _ Ht) as (n & k & cls & [[vd l] h] & En & Ek & Ecl & Ex & Er & Hok & _).
    rewrite En in HF.
    destruct (propag_neg_sound (fun _ => false) _ _ En) as [_ Hnnf].
    destruct (to_cnf_terminates n Hnnf) as (k' & Ek' & _).
    assert (Hcf : (cnf_fuel n <= enough_fuel f)%nat).
    { unfold enough_fuel, to_conj_form. rewrite expand_neg. fold c.
      destruct c as [[|]|? ?|? ? ?|? ? ?] eqn:Ecc; try (unfold decide_tail in Ht; cbn in Ht; discriminate);
        rewrite En; lia. }
    assert (k' = k) by (pose proof (to_cnf_mono _ _ _ Ek' _ Hcf); congruence). subst k'.
    rewrite Ek', Ecl in HF.
    assert (G1 : gen_propag_neg F c = Ok n).
    { destruct (gen_propag_neg_spec F c false) as [E|E]; cbn [togb] in E.
      - exfalso. revert E. apply (gen_propag_neg_fuel c false). lia.
      - rewrite E. unfold propag_neg in En. rewrite En. reflexivity. }
    rewrite G1. cbn [rbind]. rewrite gen_to_cnf_agree.
    rewrite (to_cnf_mono _ _ _ Ek F) by lia. cbn [rbind].
    assert (G2 : gen_to_clauses F k = Ok cls).
    { destruct (gen_to_clauses_spec F k) as [E|E].
      - exfalso. revert E. apply gen_to_clauses_fuel. lia.
      - rewrite E, Ecl. reflexivity. }
    rewrite G2. cbn [rbind].
    rewrite (gen_start_of_model _ _ _ _ _ Ex F) by lia. cbn [rbind].
    cbn [fst] in Er. subst r. destruct vd as [[|]|]; reflexivity. }
  destruct c as [[|]|n i|n a b|n a b]; cbn [is_CFBot cf_negated]; auto.
Qed.

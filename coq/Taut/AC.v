(** C09 — proof layer, schema level: ac_move_to_front for \/ (or_move_to_front).
    [unroll] proves   (left-nested Ls) \/ (right-nested Rs)  <->  right-nested (rearr positions (Ls ++ Rs)). *)
From Coq Require Import ZArith NArith List Bool Lia PeanoNat.
From Pi2 Require Import Taut.Model Taut.PLModel Taut.ProofLayer Taut.ProofLayer2 Taut.Merge.
Import ListNotations.

(* ------------------------------------------------------------------------------------------ *)
(** * equivalence schemas compute *)

Lemma or_cong_equiv : forall a b c d,
  s_or_cong (k_equiv a b) (k_equiv c d) = Some (k_equiv (k_or a c) (k_or b d)).
Proof. intros. unfold s_or_cong. rewrite !dest_equiv_k_equiv. reflexivity. Qed.
Lemma equiv_sym_equiv : forall a b, s_equiv_sym (k_equiv a b) = Some (k_equiv b a).
Proof. intros. unfold s_equiv_sym. rewrite dest_equiv_k_equiv. reflexivity. Qed.
Lemma equiv_trans_equiv : forall a b c, s_equiv_transitivity (k_equiv a b) (k_equiv b c) = Some (k_equiv a c).
Proof. intros. unfold s_equiv_transitivity. rewrite !dest_equiv_k_equiv. cbn [obind]. rewrite core_eqb_refl. reflexivity. Qed.

(* ------------------------------------------------------------------------------------------ *)
(** * lists *)

(** left-nested disjunction of a list given LAST ELEMENT FIRST *)
Fixpoint fl (Lr : list core) : core :=
  match Lr with
  | [] => KBot
  | [x] => x
  | mid :: rest => k_or (fl rest) mid
  end.

Lemma fl_cons : forall mid rest, rest <> [] -> fl (mid :: rest) = k_or (fl rest) mid.
Proof. intros mid [|x t] H; [congruence|reflexivity]. Qed.

Lemma fold1_cons_ne : forall op a X, X <> [] -> fold1 op (a :: X) = op a (fold1 op X).
Proof. intros op a [|x t] H; [congruence|reflexivity]. Qed.

Definition remove_nth (p : nat) (S : list core) : list core := firstn p S ++ skipn (Datatypes.S p) S.

(** the sequence after the elements at the (successively adjusted) positions have been moved to the front *)
Fixpoint rearr (ps : list nat) (S : list core) : list core :=
  match ps with
  | [] => S
  | p :: ps' =>
      match S with
      | [] => []
      | [a] => [a]
      | _ => nth p S KBot :: rearr ps' (remove_nth p S)
      end
  end.

Fixpoint valid (ps : list nat) (n : nat) : Prop :=
  match ps with
  | [] => True
  | p :: ps' => n <= 1 \/ (p < n /\ valid ps' (n - 1))
  end.

Definition sentinel_ok (ps : list nat) (u : nat) : Prop :=
  match ps with [] => u = 0 | _ => last ps 1 = 0 end.

Definition dist (ps : list nat) (u : nat) : nat :=
  match ps with [] => 0 | p :: _ => if p <=? u then u - p else p - u end.

Lemma rearr_cons : forall p ps' S, 2 <= length S ->
  rearr (p :: ps') S = nth p S KBot :: rearr ps' (remove_nth p S).
Proof. intros p ps' [|a [|b t]] H; cbn in H; try lia. reflexivity. Qed.

Lemma rearr_single : forall ps a, rearr ps [a] = [a].
Proof. destruct ps; reflexivity. Qed.

Lemma rearr_nonempty : forall ps S, S <> [] -> rearr ps S <> [].
Proof. intros [|p ps'] [|a [|b t]] H; cbn; congruence. Qed.

Lemma nth_mid : forall (A B : list core) x, nth (length A) (A ++ x :: B) KBot = x.
Proof. intros. rewrite app_nth2 by lia. rewrite Nat.sub_diag. reflexivity. Qed.

Lemma remove_mid : forall (A B : list core) x, remove_nth (length A) (A ++ x :: B) = A ++ B.
Proof.
  intros. unfold remove_nth. rewrite firstn_app, Nat.sub_diag, firstn_all. cbn [firstn]. rewrite app_nil_r.
  rewrite skipn_app. rewrite skipn_all2 by lia.
  replace (S (length A) - length A) with 1 by lia. reflexivity.
Qed.

Lemma last_cons_ne : forall (p : nat) ps d, ps <> [] -> last (p :: ps) d = last ps d.
Proof. intros p [|q t] d H; [congruence|reflexivity]. Qed.

Lemma sentinel_tail : forall p ps' u', sentinel_ok (p :: ps') 0 \/ p <> 0 -> forall u,
  sentinel_ok (p :: ps') u -> (ps' = [] -> u' = 0) -> sentinel_ok ps' u'.
Proof.
  intros p ps' u' _ u H He. destruct ps' as [|q t]; [cbn; auto|].
  unfold sentinel_ok in *. rewrite last_cons_ne in H by discriminate. exact H.
Qed.

Lemma sentinel_nonzero : forall p ps' u, sentinel_ok (p :: ps') u -> p <> 0 -> ps' <> [].
Proof. intros p [|q t] u H Hp; [cbn in H; congruence|discriminate]. Qed.

Lemma dist_bound : forall ps n u, valid ps n -> 2 <= n -> u < n -> dist ps u < n.
Proof.
  intros [|p ps'] n u Hv Hn Hu; cbn; [lia|].
  destruct Hv as [Hv|[Hv _]]; [lia|]. destruct (p <=? u); lia.
Qed.

(* ------------------------------------------------------------------------------------------ *)
(** * the recursion *)

Lemma unroll_spec : forall fuel ps Lr Rs l u,
  length Lr = S u -> Rs <> [] -> l = length Lr + length Rs -> valid ps l -> sentinel_ok ps u ->
  length ps * S l + dist ps u < fuel ->
  unroll fuel (fl Lr) (fold1 k_or Rs) ps l u
  = Some (k_equiv (k_or (fl Lr) (fold1 k_or Rs)) (fold1 k_or (rearr ps (rev Lr ++ Rs)))).
Proof.
  induction fuel as [|fuel IH]; intros ps Lr Rs l u HL HR Hl Hv Hs Hf; [lia|].
  cbn [unroll].
  destruct ps as [|pos ps'].
  { (* no position left: u = 0 *)
    cbn in Hs. subst u. destruct Lr as [|e0 [|? ?]]; try discriminate.
    cbn [rearr rev app fl]. rewrite fold1_cons_ne by auto. reflexivity. }
  assert (HlR : 1 <= length Rs) by (destruct Rs; [congruence|cbn; lia]).
  assert (Hl2 : 2 <= l) by lia.
  destruct Hv as [Hv|[Hpos Hv]]; [lia|].
  assert (A1 : (S u <? l) = true) by (apply Nat.ltb_lt; lia).
  assert (A2 : (pos <? l) = true) by (apply Nat.ltb_lt; lia).
  rewrite A1, A2. cbn [negb orb].
  assert (HS : 2 <= length (rev Lr ++ Rs)) by (rewrite app_length, rev_length; lia).
  rewrite (rearr_cons pos ps' _ HS).
  destruct (Nat.leb_spec pos u) as [Hpu|Hpu].
  - (* the target is in the left part *)
    destruct (Nat.eqb_spec u 0) as [Hu0|Hu0].
    + (* already at the front *)
      subst u. assert (pos = 0) by lia. subst pos.
      destruct Lr as [|e0 [|? ?]]; try discriminate. cbn [fl rev app nth].
      change (remove_nth 0 (e0 :: Rs)) with Rs.
      destruct (Nat.eqb_spec l 2) as [Hl2'|Hl2'].
      * destruct Rs as [|r [|? ?]]; cbn in Hl; try lia; try congruence.
        rewrite rearr_single. reflexivity.
      * destruct Rs as [|mid [|r2 Rs']]; [congruence|cbn in Hl; lia|].
        set (Rs'' := r2 :: Rs') in *.
        rewrite (fold1_cons_ne k_or mid Rs'') by discriminate. rewrite dest_or_k_or. cbn [obind].
        assert (E := IH ps' [mid] Rs'' (l - 1) 0 eq_refl ltac:(discriminate)).
        cbn [fl rev app] in E. rewrite E; clear E.
        -- cbn [obind]. unfold s_equiv_refl. rewrite or_cong_equiv.
           rewrite (fold1_cons_ne k_or e0) by (apply rearr_nonempty; discriminate). reflexivity.
        -- cbn [length] in *. lia.
        -- exact Hv.
        -- destruct ps' as [|q t]; [reflexivity|]. unfold sentinel_ok in *. rewrite last_cons_ne in Hs by discriminate. exact Hs.
        -- assert (dist ps' 0 < l - 1) by (apply dist_bound; auto; cbn [length] in *; lia).
           cbn [length dist] in Hf. nia.
    + (* u > 0: peel the last element of the left part *)
      destruct Lr as [|mid Lr']; [discriminate|]. cbn [length] in HL.
      assert (HLr' : Lr' <> []) by (destruct Lr'; [cbn in HL; lia|discriminate]).
      rewrite (fl_cons mid Lr' HLr'). rewrite dest_or_k_or. cbn [obind].
      assert (ES : rev (mid :: Lr') ++ Rs = rev Lr' ++ mid :: Rs) by (cbn [rev]; rewrite <- app_assoc; reflexivity).
      rewrite ES.
      destruct (Nat.eqb_spec pos u) as [Hpe|Hpe].
      * (* mid is the target *)
        subst pos.
        assert (Hu : u = length (rev Lr')) by (rewrite rev_length; lia).
        assert (E1 : nth u (rev Lr' ++ mid :: Rs) KBot = mid) by (rewrite Hu; apply nth_mid).
        assert (E2 : remove_nth u (rev Lr' ++ mid :: Rs) = rev Lr' ++ Rs) by (rewrite Hu; apply remove_mid).
        rewrite E1, E2.
        unfold s_or_comm, s_equiv_refl, s_or_assoc. rewrite or_cong_equiv. cbn [obind].
        rewrite equiv_sym_equiv. cbn [obind]. rewrite equiv_trans_equiv. cbn [obind].
        rewrite (IH ps' Lr' Rs (l - 1) (u - 1)); auto; try (cbn [length] in *; lia).
        -- cbn [obind]. rewrite or_cong_equiv. cbn [obind]. rewrite equiv_trans_equiv.
           rewrite (fold1_cons_ne k_or mid).
           ++ reflexivity.
           ++ apply rearr_nonempty. destruct (rev Lr') eqn:E; [|discriminate].
              apply (f_equal (@length core)) in E. rewrite rev_length in E. cbn in E. lia.
        -- assert (Hne : ps' <> []) by (eapply sentinel_nonzero; eauto).
           destruct ps' as [|q t]; [congruence|]. unfold sentinel_ok in *. rewrite last_cons_ne in Hs by discriminate. exact Hs.
        -- assert (dist ps' (u - 1) < l - 1) by (apply dist_bound; auto; cbn [length] in *; lia).
           cbn [length] in Hf. nia.
      * (* rotate mid back to the right part *)
        assert (E := IH (pos :: ps') Lr' (mid :: Rs) l (u - 1)).
        rewrite (fold1_cons_ne k_or mid Rs HR) in E. rewrite E; clear E; try (cbn [length] in *; lia); try discriminate.
        -- cbn [obind]. unfold s_or_assoc. rewrite equiv_sym_equiv. cbn [obind]. rewrite equiv_trans_equiv.
           rewrite <- (rearr_cons pos ps') by (rewrite app_length, rev_length; cbn [length] in *; lia).
           reflexivity.
        -- cbn [valid]. right. split; auto.
        -- exact Hs.
        -- cbn [length dist] in *.
           destruct (Nat.leb_spec pos u); destruct (Nat.leb_spec pos (u - 1)); lia.
  - (* the target is in the right part *)
    destruct (Nat.eqb_spec l 2) as [Hl2'|Hl2'].
    + (* swap two elements *)
      destruct Lr as [|e0 [|? ?]]; cbn in HL; try lia; try discriminate.
      destruct Rs as [|r [|? ?]]; cbn in Hl; try lia; try congruence.
      assert (pos = 1) by (cbn in *; lia). subst pos.
      cbn [fl rev app nth fold1]. change (remove_nth 1 [e0; r]) with [e0]. rewrite rearr_single. reflexivity.
    + destruct (Nat.eqb_spec u (l - 2)) as [Hul|Hul].
      * (* the right part is the single target *)
        destruct Rs as [|r [|? ?]]; [congruence| |cbn in Hl; lia].
        destruct Lr as [|mid Lr']; [discriminate|]. cbn [length] in HL, Hl.
        assert (HLr' : Lr' <> []) by (destruct Lr'; [cbn in *; lia|discriminate]).
        assert (Hp : pos = length (rev (mid :: Lr'))) by (rewrite rev_length; cbn [length]; lia).
        assert (E1 : nth pos (rev (mid :: Lr') ++ [r]) KBot = r) by (rewrite Hp; apply nth_mid).
        assert (E2 : remove_nth pos (rev (mid :: Lr') ++ [r]) = rev (mid :: Lr')) by (rewrite Hp, remove_mid; apply app_nil_r).
        rewrite E1, E2.
        cbn [fold1]. rewrite (fl_cons mid Lr' HLr'). rewrite dest_or_k_or. cbn [obind].
        assert (E := IH ps' Lr' [mid] (l - 1) (l - 3)). cbn [fold1] in E. rewrite E; clear E; try (cbn [length] in *; lia); try discriminate.
        -- cbn [obind]. unfold s_equiv_refl, s_or_comm. rewrite or_cong_equiv. cbn [obind]. rewrite equiv_trans_equiv.
           cbn [rev]. destruct (rearr ps' (rev Lr' ++ [mid])) eqn:ER; [|reflexivity].
           exfalso. revert ER. apply rearr_nonempty. destruct (rev Lr'); discriminate.
        -- exact Hv.
        -- assert (Hne : ps' <> []) by (eapply sentinel_nonzero; eauto; lia).
           destruct ps' as [|q t]; [congruence|]. unfold sentinel_ok in *. rewrite last_cons_ne in Hs by discriminate. exact Hs.
        -- assert (dist ps' (l - 3) < l - 1) by (apply dist_bound; auto; lia).
           cbn [length] in Hf. nia.
      * (* move the boundary one step to the right *)
        destruct Rs as [|mid [|r2 Rs']]; [congruence|cbn in Hl; lia|].
        set (Rs'' := r2 :: Rs') in *.
        rewrite (fold1_cons_ne k_or mid Rs'') by discriminate. rewrite dest_or_k_or. cbn [obind].
        assert (HLr : Lr <> []) by (destruct Lr; [discriminate|discriminate]).
        assert (E := IH (pos :: ps') (mid :: Lr) Rs'' l (S u)).
        rewrite (fl_cons mid Lr HLr) in E. rewrite E; clear E; try (cbn [length] in *; lia); try discriminate.
        -- cbn [obind]. unfold s_or_assoc. rewrite equiv_trans_equiv.
           assert (ES : rev (mid :: Lr) ++ Rs'' = rev Lr ++ mid :: Rs'') by (cbn [rev]; rewrite <- app_assoc; reflexivity).
           rewrite ES. rewrite <- (rearr_cons pos ps') by exact HS. reflexivity.
        -- cbn [valid]. right. split; auto.
        -- exact Hs.
        -- cbn [length dist] in *.
           destruct (Nat.leb_spec pos u); destruct (Nat.leb_spec pos (S u)); lia.
Qed.

(* ------------------------------------------------------------------------------------------ *)
(** * or_move_to_front *)

(** the docstring's right-hand side: the selected elements (ascending positions) first, the rest in order;
    [k] = number of elements already moved (positions are relative to the original sequence) *)
Fixpoint moved_from (k : nat) (ps : list nat) (S : list core) : list core :=
  match ps with
  | [] => S
  | p :: t => nth (p - k) S KBot :: moved_from (Datatypes.S k) t (remove_nth (p - k) S)
  end.
Definition moved (ps : list nat) (S : list core) : list core := moved_from 0 ps S.

(** strictly increasing, first element >= lo *)
Fixpoint incr (lo : nat) (ps : list nat) : Prop :=
  match ps with [] => True | p :: t => lo <= p /\ incr (S p) t end.

Lemma incr_ge : forall t lo q, incr lo t -> In q t -> lo <= q.
Proof.
  induction t as [|a t IH]; intros lo q Hi Hq; [destruct Hq|].
  cbn in Hi. destruct Hi as [H1 H2]. destruct Hq as [<-|Hq]; [lia|]. specialize (IH _ _ H2 Hq). lia.
Qed.

Lemma incr_mono : forall t lo lo', lo' <= lo -> incr lo t -> incr lo' t.
Proof. intros [|q t] lo lo' H Hi; [exact I|]. cbn in *. destruct Hi. split; [lia|auto]. Qed.

Lemma remove_nth_length : forall p (S : list core), p < length S -> length (remove_nth p S) = length S - 1.
Proof.
  intros p S H. unfold remove_nth. rewrite app_length, firstn_length, skipn_length. lia.
Qed.

Lemma rearr_sentinel : forall S, rearr [0] S = S.
Proof. intros [|a [|b t]]; reflexivity. Qed.

Lemma rearr_adjust : forall ps S k, incr k ps -> (forall p, In p ps -> p < k + length S) ->
  rearr (adjust_from k ps) S = moved_from k ps S.
Proof.
  induction ps as [|p t IH]; intros S k Hi Hb.
  - cbn [adjust_from moved_from]. apply rearr_sentinel.
  - cbn [adjust_from moved_from].
    cbn in Hi. destruct Hi as [Hkp Hi].
    assert (Hp : p < k + length S) by (apply Hb; cbn; auto).
    destruct S as [|a [|b S']]; [cbn in Hp; lia| |].
    + (* one element: p = k and t = [] *)
      assert (p = k) by (cbn in Hp; lia). subst p. rewrite Nat.sub_diag.
      destruct t as [|q t']; [reflexivity|]. exfalso.
      cbn in Hi. assert (q < k + 1) by (apply Hb; cbn; auto). lia.
    + rewrite rearr_cons by (cbn; lia). f_equal.
      apply IH.
      * apply (incr_mono t (S p)); [lia|exact Hi].
      * intros q Hq. rewrite remove_nth_length by (cbn [length] in *; lia).
        assert (S p <= q) by (eapply incr_ge; eauto).
        assert (q < k + length (a :: b :: S')) by (apply Hb; cbn; auto). cbn [length] in *. lia.
Qed.

Lemma valid_adjust : forall ps n k, incr k ps -> (forall p, In p ps -> p < k + n) -> valid (adjust_from k ps) n.
Proof.
  induction ps as [|p t IH]; intros n k Hi Hb.
  - cbn. destruct n as [|[|n]]; [left; lia|left; lia|right; split; [lia|exact I]].
  - cbn [adjust_from valid].
    destruct (Nat.le_gt_cases n 1) as [Hn|Hn]; [left; exact Hn|right].
    cbn in Hi. destruct Hi as [Hkp Hi].
    assert (p < k + n) by (apply Hb; cbn; auto).
    split; [lia|].
    apply IH.
    + apply (incr_mono t (S p)); [lia|exact Hi].
    + intros q Hq. assert (S p <= q) by (eapply incr_ge; eauto).
      assert (q < k + n) by (apply Hb; cbn; auto). lia.
Qed.

Lemma adjust_last : forall ps k, last (adjust_from k ps) 1 = 0.
Proof.
  induction ps as [|p t IH]; intros k; [reflexivity|].
  cbn [adjust_from]. rewrite last_cons_ne; [apply IH|destruct t; discriminate].
Qed.

Lemma adjust_length : forall ps k, length (adjust_from k ps) = S (length ps).
Proof. induction ps; intros; cbn; auto. Qed.

Theorem or_move_to_front_spec : forall ps terms,
  terms <> [] -> incr 0 ps -> (forall p, In p ps -> p < length terms) ->
  or_move_to_front ps terms = Some (k_equiv (fold1 k_or terms) (fold1 k_or (moved ps terms))).
Proof.
  intros ps terms Hne Hi Hb. unfold or_move_to_front, moved.
  destruct terms as [|t0 [|t1 rest]]; [congruence| |].
  - (* a single term *)
    assert (Hm : moved_from 0 ps [t0] = [t0]).
    { destruct ps as [|p [|q t]]; [reflexivity| |].
      - assert (p = 0) by (specialize (Hb p (or_introl eq_refl)); cbn in Hb; lia). subst. reflexivity.
      - exfalso. cbn in Hi. assert (q < 1) by (apply Hb; cbn; auto). lia. }
    rewrite Hm. reflexivity.
  - set (rest' := t1 :: rest) in *.
    pose proof (unroll_spec (S (S (length ps) * S (length (t0 :: rest')) + length (t0 :: rest')))
                  (adjust_from 0 ps) [t0] rest' (length (t0 :: rest')) 0 eq_refl ltac:(discriminate) eq_refl) as E.
    cbn [fl rev app] in E. rewrite E; clear E.
    + rewrite (rearr_adjust ps _ 0 Hi) by (intros p Hp; cbn [plus]; auto).
      rewrite fold1_cons_ne by discriminate. reflexivity.
    + apply (valid_adjust ps _ 0 Hi). intros p Hp. cbn [plus]. auto.
    + unfold sentinel_ok. destruct (adjust_from 0 ps) eqn:Ea; [destruct ps; discriminate|].
      rewrite <- Ea. apply adjust_last.
    + rewrite adjust_length.
      assert (dist (adjust_from 0 ps) 0 <= length (t0 :: rest')).
      { destruct ps as [|p t]; cbn [adjust_from dist]; [cbn; lia|]. specialize (Hb p (or_introl eq_refl)).
        destruct (p - 0 <=? 0); cbn [length] in *; lia. }
      lia.
Qed.

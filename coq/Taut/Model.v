(** C09 — model of the decision procedure of
    /repo/generation/src/proof_generation/tautology.py  (verdict layer).

    Definitions only (no proofs) so that extraction keeps working when a proof breaks.

    Python                         | here
    -------------------------------+--------------------------------------------------
    Pattern (propositional)        | [form] (notations kept), [core] = fully expanded
    pat == bot() / top(), extract  | work on [expand f]  (Instantiate.__eq__ / unwrap simplify away notation)
    ConjForm / CFAnd/CFOr/CFBot/CFVar (mutable .negated) | [cf] with a boolean on every node
    to_conj_form                   | [tcf] / [to_conj_form]
    propag_neg (mutates children)  | [pn b t] = propag_neg of "t with its flag toggled iff b"
    to_cnf (non-structural)        | [to_cnf] on fuel
    to_clauses                     | [to_clauses]
    Clause = list[int]             | [list Z]
    frozenset[int]                 | strictly sorted duplicate-free [list Z] ([mkset])
    hint : dict (insertion order)  | association list [hint]
    resolvable                     | [resolvable]
    resolution_algorithm           | [res_loop] on fuel; the statement `cl1, cl2 = cl2, cl1` is modelled
                                   |   literally when [g_resolution_no_shadow = false] (defect D6)
    start_resolution_algorithm     | [start_resolution]
    prove_tautology (verdict)      | [decide]
    simplify_clause / build_proof_from_hint (clause part) | [simplify_clause] / [build_term]
    AssertionError                 | [Err];   fuel exhausted | [Fuel]
*)
From Coq Require Import ZArith NArith List Bool.
Import ListNotations.
Local Open Scope Z_scope.

(* ------------------------------------------------------------------------------------------ *)
(** * Result type: value, Python exception, or out of fuel *)

Inductive res (A : Type) : Type :=
| Ok (a : A)
| Err
| Fuel.
Arguments Ok {A} a.
Arguments Err {A}.
Arguments Fuel {A}.

Definition rbind {A B} (x : res A) (f : A -> res B) : res B :=
  match x with Ok a => f a | Err => Err | Fuel => Fuel end.
Notation "'do' x <- e ; k" := (rbind e (fun x => k)) (at level 200, x name, e at level 100, k at level 200).

Definition of_option {A} (o : option A) : res A :=
  match o with Some a => Ok a | None => Err end.

(* ------------------------------------------------------------------------------------------ *)
(** * Formulas *)

Inductive form : Type :=
| FBot
| FVar (n : N)
| FImp (a b : form)
| FNeg (a : form)
| FAnd (a b : form)
| FOr (a b : form)
| FEquiv (a b : form)
| FTop.

(** fully expanded patterns: bot (= Mu 0 (SVar 0)), MetaVar, Implies *)
Inductive core : Type :=
| KBot
| KVar (n : N)
| KImp (a b : core).

Definition k_neg (a : core) : core := KImp a KBot.
Definition k_and (a b : core) : core := k_neg (KImp a (k_neg b)).
Definition k_or (a b : core) : core := KImp (k_neg a) b.
Definition k_top : core := k_neg KBot.

Fixpoint expand (f : form) : core :=
  match f with
  | FBot => KBot
  | FVar n => KVar n
  | FImp a b => KImp (expand a) (expand b)
  | FNeg a => k_neg (expand a)
  | FAnd a b => k_and (expand a) (expand b)
  | FOr a b => k_or (expand a) (expand b)
  | FEquiv a b => k_and (KImp (expand a) (expand b)) (KImp (expand b) (expand a))
  | FTop => k_top
  end.

(** truth-table semantics *)
Fixpoint tt (v : N -> bool) (f : form) : bool :=
  match f with
  | FBot => false
  | FVar n => v n
  | FImp a b => implb (tt v a) (tt v b)
  | FNeg a => negb (tt v a)
  | FAnd a b => tt v a && tt v b
  | FOr a b => tt v a || tt v b
  | FEquiv a b => Bool.eqb (tt v a) (tt v b)
  | FTop => true
  end.

Fixpoint ktt (v : N -> bool) (k : core) : bool :=
  match k with
  | KBot => false
  | KVar n => v n
  | KImp a b => implb (ktt v a) (ktt v b)
  end.

Definition tautology (f : form) : Prop := forall v, tt v f = true.
Definition unsat (f : form) : Prop := forall v, tt v f = false.
Definition contingent (f : form) : Prop := (exists v, tt v f = true) /\ (exists v, tt v f = false).

(* ------------------------------------------------------------------------------------------ *)
(** * Conjunctive-form trees *)

Inductive cf : Type :=
| CBot (neg : bool)
| CVar (neg : bool) (id : N)
| COr (neg : bool) (l r : cf)
| CAnd (neg : bool) (l r : cf).

Definition negif (n x : bool) : bool := if n then negb x else x.

Fixpoint cf_tt (v : N -> bool) (c : cf) : bool :=
  match c with
  | CBot n => negif n false
  | CVar n i => negif n (v i)
  | COr n l r => negif n (cf_tt v l || cf_tt v r)
  | CAnd n l r => negif n (cf_tt v l && cf_tt v r)
  end.

(** conj_to_pattern *)
Fixpoint cf_form (c : cf) : form :=
  let wrap (n : bool) (p : form) := if n then FNeg p else p in
  match c with
  | CBot n => wrap n FBot
  | CVar n i => wrap n (FVar i)
  | COr n l r => wrap n (FOr (cf_form l) (cf_form r))
  | CAnd n l r => wrap n (FAnd (cf_form l) (cf_form r))
  end.

(** `x.negated = not x.negated` *)
Definition toggle (c : cf) : cf :=
  match c with
  | CBot n => CBot (negb n)
  | CVar n i => CVar (negb n) i
  | COr n l r => COr (negb n) l r
  | CAnd n l r => CAnd (negb n) l r
  end.

Definition is_top (k : core) : bool :=
  match k with KImp KBot KBot => true | _ => false end.

(** to_conj_form on the expanded pattern *)
Fixpoint tcf (p : core) : cf :=
  match p with
  | KBot => CBot false
  | KVar n => CVar false n
  | KImp p0 p1 =>
      if is_top p then CBot true else
      match tcf p1 with
      | CBot true => CBot true
      | CBot false =>
          match tcf p0 with
          | CBot true => CBot false
          | CBot false => CBot true
          | c0 => toggle c0
          end
      | c1 =>
          match tcf p0 with
          | CBot true => c1
          | CBot false => CBot true
          | c0 => COr false (toggle c0) c1
          end
      end
  end.

Definition to_conj_form (f : form) : cf := tcf (expand f).

(** shapes *)
(* output of to_conj_form: Or-nodes and variables, any flags, no CBot/CAnd inside *)
Fixpoint is_orform (c : cf) : bool :=
  match c with
  | CVar _ _ => true
  | COr _ l r => is_orform l && is_orform r
  | _ => false
  end.

(* negation only on variables *)
Fixpoint is_nnf (c : cf) : bool :=
  match c with
  | CVar _ _ => true
  | COr n l r => negb n && is_nnf l && is_nnf r
  | CAnd n l r => negb n && is_nnf l && is_nnf r
  | CBot _ => false
  end.

Fixpoint is_clause (c : cf) : bool :=
  match c with
  | CVar _ _ => true
  | COr n l r => negb n && is_clause l && is_clause r
  | _ => false
  end.

Fixpoint is_cnf (c : cf) : bool :=
  match c with
  | CVar _ _ => true
  | COr n l r => negb n && is_clause l && is_clause r
  | CAnd n l r => negb n && is_cnf l && is_cnf r
  | CBot _ => false
  end.

(** propag_neg.  [pn b t] is the Python function applied to [t] after the caller has executed
    `t.negated = not t.negated` iff [b]. *)
Fixpoint pn (b : bool) (t : cf) : option cf :=
  match t with
  | CVar n i => Some (CVar (xorb b n) i)
  | COr n l r =>
      if xorb b n then
        match pn true l with
        | None => None
        | Some l' => match pn true r with None => None | Some r' => Some (CAnd false l' r') end
        end
      else
        match pn false l with
        | None => None
        | Some l' => match pn false r with None => None | Some r' => Some (COr false l' r') end
        end
  | _ => None
  end.

Definition propag_neg (t : cf) : option cf := pn false t.

(** to_cnf: the recursive call on the freshly built CFAnd is not structural -> fuel *)
Fixpoint to_cnf (fuel : nat) (t : cf) : res cf :=
  match fuel with
  | O => Fuel
  | S fuel =>
      match t with
      | CVar _ _ => Ok t
      | CAnd _ l r =>
          do l' <- to_cnf fuel l;
          do r' <- to_cnf fuel r;
          Ok (CAnd false l' r')
      | COr _ l r =>
          do l' <- to_cnf fuel l;
          do r' <- to_cnf fuel r;
          match l' with
          | CAnd _ a b => to_cnf fuel (CAnd false (COr false a r') (COr false b r'))
          | _ =>
              match r' with
              | CAnd _ a b => to_cnf fuel (CAnd false (COr false l' a) (COr false l' b))
              | _ => Ok (COr false l' r')
              end
          end
      | CBot _ => Err
      end
  end.

(** to_clauses *)
Definition lit_of (n : bool) (i : N) : Z :=
  if n then - (Z.of_N i + 1) else Z.of_N i + 1.

Fixpoint to_clauses (t : cf) : option (list (list Z)) :=
  match t with
  | CVar n i => Some [[lit_of n i]]
  | CAnd _ l r =>
      match to_clauses l with
      | None => None
      | Some cl =>
          match to_clauses r with
          | None => None
          | Some cr => match cl with [] => None | _ => Some (cl ++ cr) end
          end
      end
  | COr _ l r =>
      match to_clauses l with
      | None => None
      | Some cl =>
          match to_clauses r with
          | None => None
          | Some cr =>
              match cl, cr with
              | [a], [b] => match a with [] => None | _ => Some [a ++ b] end
              | _, _ => None
              end
          end
      end
  | CBot _ => None
  end.

(** literal / clause semantics: literal x>0 is variable x-1, x<0 is the negation of variable -x-1 *)
Definition lit_tt (v : N -> bool) (x : Z) : bool :=
  match x with
  | Z0 => false
  | Zpos p => v (Pos.pred_N p)
  | Zneg p => negb (v (Pos.pred_N p))
  end.
Definition clause_tt (v : N -> bool) (c : list Z) : bool := existsb (lit_tt v) c.
Definition clauses_tt (v : N -> bool) (cs : list (list Z)) : bool := forallb (clause_tt v) cs.

(* ------------------------------------------------------------------------------------------ *)
(** * frozenset[int] as strictly sorted lists *)

Fixpoint zinsert (x : Z) (l : list Z) : list Z :=
  match l with
  | [] => [x]
  | y :: t => if x <? y then x :: l else if x =? y then l else y :: zinsert x t
  end.
Definition mkset (l : list Z) : list Z := fold_right zinsert [] l.
Definition zmem (x : Z) (l : list Z) : bool := existsb (Z.eqb x) l.
Definition zremove (x : Z) (l : list Z) : list Z := filter (fun y => negb (y =? x)) l.
Definition zunion (a b : list Z) : list Z := fold_right zinsert b a.

Fixpoint clause_eqb (a b : list Z) : bool :=
  match a, b with
  | [], [] => true
  | x :: a', y :: b' => (x =? y) && clause_eqb a' b'
  | _, _ => false
  end.

(** resolvable(c1, c2): common = {-x for x in c1} & c2; exactly one element required *)
Definition common (c1 c2 : list Z) : list Z :=
  mkset (filter (fun y => zmem y c2) (map Z.opp c1)).

Definition resolvable (c1 c2 : list Z) : option (Z * list Z) :=
  match common c1 c2 with
  | [r] => Some (r, zunion (zremove (- r) c1) (zremove r c2))
  | _ => None
  end.

(** is_trivial_clause: some pair of distinct positions sums to 0 *)
Fixpoint is_trivial (l : list Z) : bool :=
  match l with
  | [] => false
  | x :: t => existsb (fun y => x + y =? 0) t || is_trivial t
  end.

(* ------------------------------------------------------------------------------------------ *)
(** * hint dictionary and the resolution loop *)

Inductive hsrc : Type :=
| HIdx (i : N)                         (* index into the original clause list *)
| HRes (l r : list Z) (x : Z).         (* ResolutionHintSource(left_set, right_set, resolvant) *)

Definition hint := list (list Z * hsrc).

Fixpoint hint_mem (c : list Z) (h : hint) : bool :=
  match h with
  | [] => false
  | (k, _) :: t => clause_eqb k c || hint_mem c t
  end.

Fixpoint hint_get (c : list Z) (h : hint) : option hsrc :=
  match h with
  | [] => None
  | (k, s) :: t => if clause_eqb k c then Some s else hint_get c t
  end.

(** dict assignment: overwrite in place, else append *)
Fixpoint hint_set (c : list Z) (s : hsrc) (h : hint) : hint :=
  match h with
  | [] => [(c, s)]
  | (k, s0) :: t => if clause_eqb k c then (k, s) :: t else (k, s0) :: hint_set c s t
  end.

(** for index, cl_set in enumerate(resolution_list): if not trivial: hint[cl_set] = index *)
Fixpoint init_hint (rl : list (list Z)) (i : N) (h : hint) : hint :=
  match rl with
  | [] => h
  | c :: t => init_hint t (i + 1)%N (if is_trivial c then h else hint_set c (HIdx i) h)
  end.

(** The double loop of resolution_algorithm, one inner-loop step per unit of fuel.
    State: the list [l] (grows at the end), the dictionary [h], outer index [i], the *current value
    of the Python variable cl1* [cl1] and inner index [j].
    [no_shadow = true]  : repaired loop (the swapped pair gets fresh names).
    [no_shadow = false] : pinned loop (D6): after `cl1, cl2 = cl2, cl1` the outer loop variable cl1
                          holds the old cl2 for the rest of this inner loop, so the `break` test
                          compares against the wrong clause and the inner loop runs to the end of l. *)
Fixpoint res_loop (no_shadow : bool) (fuel : nat) (l : list (list Z)) (h : hint)
         (i : nat) (cl1 : list Z) (j : nat) : res (bool * list (list Z) * hint) :=
  match fuel with
  | O => Fuel
  | S fuel =>
      let next_outer (_ : unit) :=      (* a thunk: extraction to OCaml is strict *)
        match nth_error l (S i) with
        | None => Ok (false, l, h)
        | Some c => res_loop no_shadow fuel l h (S i) c O
        end in
      match nth_error l j with
      | None => next_outer Datatypes.tt
      | Some cl2 =>
          if clause_eqb cl2 cl1 then next_outer Datatypes.tt else
          match resolvable cl1 cl2 with
          | None => res_loop no_shadow fuel l h i cl1 (S j)
          | Some (r, rs) =>
              if hint_mem rs h then res_loop no_shadow fuel l h i cl1 (S j) else
              let swap := r <? 0 in
              let src := if swap then HRes cl2 cl1 (- r) else HRes cl1 cl2 r in
              let cl1' := if swap && negb no_shadow then cl2 else cl1 in
              let h' := h ++ [(rs, src)] in
              match rs with
              | [] => Ok (true, l, h')
              | _ => res_loop no_shadow fuel (l ++ [rs]) h' i cl1' (S j)
              end
          end
      end
  end.

Definition resolution_algorithm (no_shadow : bool) (fuel : nat) (h : hint) (l : list (list Z))
  : res (bool * list (list Z) * hint) :=
  match l with
  | [] => Ok (false, l, h)
  | c :: _ => res_loop no_shadow fuel l h O c O
  end.

(** start_resolution_algorithm: verdict on the clause conjunction
    Some true  = conjunction proved (all clauses trivial),
    Some false = its negation proved (empty clause derived),
    None       = inconclusive.  Also returns the final list and dictionary (for the tie). *)
Definition start_resolution (no_shadow : bool) (fuel : nat) (clauses : list (list Z))
  : res (option bool * list (list Z) * hint) :=
  match clauses with
  | [] => Ok (Some true, [], [])
  | _ =>
      let h0 := init_hint (map mkset clauses) 0%N [] in
      match h0 with
      | [] => Ok (Some true, [], [])
      | _ =>
          do x <- resolution_algorithm no_shadow fuel h0 (map fst h0);
          match x with
          | (true, l, h) => Ok (Some false, l, h)
          | (false, l, h) => Ok (None, l, h)
          end
      end
  end.

(** prove_tautology, verdict only:  Some true = pat proved, Some false = neg pat proved, None *)
Definition decide_tail (no_shadow : bool) (fuel : nat) (c : cf) : res (option bool) :=
  do n <- of_option (propag_neg c);
  do k <- to_cnf fuel n;
  do cls <- of_option (to_clauses k);
  do x <- start_resolution no_shadow fuel cls;
  match fst (fst x) with
  | None => Ok None
  | Some true => Ok (Some false)
  | Some false => Ok (Some true)
  end.

Definition decide (no_shadow : bool) (fuel : nat) (f : form) : res (option bool) :=
  match to_conj_form (FNeg f) with
  | CBot true => Ok (Some false)
  | CBot false => Ok (Some true)
  | c => decide_tail no_shadow fuel c
  end.

(* ------------------------------------------------------------------------------------------ *)
(** * clause-level skeleton of the proof reconstruction *)

(** simplify_clause: move all occurrences of [x] to the front and collapse them *)
Definition simplify_clause (cl : list Z) (x : Z) : list Z :=
  if zmem x cl then x :: filter (fun y => negb (y =? x)) cl else cl.

(** build_proof_from_hint, clause part (with its asserts) *)
Fixpoint build_term (fuel : nat) (h : hint) (cl : list Z) (terms : list (list Z)) : res (list Z) :=
  match fuel with
  | O => Fuel
  | S fuel =>
      match hint_get cl h with
      | None => Err                                   (* KeyError *)
      | Some (HIdx i) => of_option (nth_error terms (N.to_nat i))
      | Some (HRes ls rs x) =>
          do tl <- build_term fuel h ls terms;
          do tr <- build_term fuel h rs terms;
          match simplify_clause tl (- x), simplify_clause tr x with
          | a :: tl', b :: tr' =>
              if (a =? - x) && (b =? x) then
                let final := tl' ++ tr' in
                if clause_eqb (mkset final) cl then Ok final else Err
              else Err
          | _, _ => Err                                (* IndexError on term[0] *)
          end
      end
  end.

(* ------------------------------------------------------------------------------------------ *)
(** * D6 witness *)

(** ((phi1 /\ phi0) -> ~phi1) -> ((phi0 -> bot) -> ~phi0) *)
Definition d6_witness : form :=
  FImp (FImp (FAnd (FVar 1) (FVar 0)) (FNeg (FVar 1)))
       (FImp (FImp (FVar 0) FBot) (FNeg (FVar 0))).

(** C09 — the glue theorem with merge_clauses discharged: two helper specs remain. *)
From Coq Require Import ZArith NArith List Bool.
From Pi2 Require Import Taut.Model Taut.Sets Taut.Resolution Taut.PLModel Taut.Glue Taut.Merge.
Import ListNotations.

Definition helper_specs2 (simp : list Z -> Z -> core) (triv : list Z -> core) : Prop :=
  (forall cl x, cl <> [] -> Forall nz cl -> simp cl x = k_equiv (clause_core cl) (clause_core (simplify_clause cl x))) /\
  (forall cl, Forall nz cl -> is_trivial (mkset cl) = true -> triv cl = clause_core cl).

Lemma helper_specs2_ok : forall simp triv, helper_specs2 simp triv -> helper_specs (pieces_merge simp triv).
Proof.
  intros simp triv [H1 H2]. split; [exact H1|]. split; [|exact H2].
  intros l r Hl Hr. apply pieces_merge_spec; auto.
Qed.

Theorem prove_tautology_conc_modulo2 : forall simp triv, helper_specs2 simp triv ->
  forall ns fuel f r, decide ns fuel f = Ok r ->
  prove_tautology_p (pieces_merge simp triv) ns fuel f =
  Ok (match r with
      | Some true => Some (true, expand f)
      | Some false => Some (false, k_neg (expand f))
      | None => None
      end).
Proof. intros simp triv H. apply prove_tautology_conc_modulo. apply helper_specs2_ok. exact H. Qed.

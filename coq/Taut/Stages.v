(** C09 — the normal-form stages: each returns a [tt]-equivalent formula in the advertised shape. *)
From Coq Require Import ZArith NArith List Bool Lia.
From Pi2 Require Import Taut.Model.
Import ListNotations.
Local Open Scope Z_scope.

(* ------------------------------------------------------------------------------------------ *)
(** * expansion of notation *)

Lemma expand_tt : forall v f, ktt v (expand f) = tt v f.
Proof.
  intros v f; induction f as [|n|f1 IH1 f2 IH2|f1 IH1|f1 IH1 f2 IH2|f1 IH1 f2 IH2|f1 IH1 f2 IH2|];
    cbn; rewrite ?IH1, ?IH2; try reflexivity;
    destruct (tt v f1); try destruct (tt v f2); reflexivity.
Qed.

(* ------------------------------------------------------------------------------------------ *)
(** * to_conj_form *)

Lemma toggle_tt : forall v c, cf_tt v (toggle c) = negb (cf_tt v c).
Proof. intros v c; destruct c as [n|n i|n l r|n l r]; cbn; destruct n; cbn; try reflexivity;
  try (destruct (v i); reflexivity);
  try (destruct (cf_tt v l || cf_tt v r); reflexivity);
  destruct (cf_tt v l && cf_tt v r); reflexivity. Qed.

Lemma toggle_orform : forall c, is_orform (toggle c) = is_orform c.
Proof. destruct c; reflexivity. Qed.

Lemma tcf_imp : forall p0 p1,
  tcf (KImp p0 p1) =
  if is_top (KImp p0 p1) then CBot true else
  match tcf p1 with
  | CBot true => CBot true
  | CBot false =>
      match tcf p0 with
      | CBot true => CBot false
      | CBot false => CBot true
      | c0 => toggle c0
      end
  | c1 =>
      match tcf p0 with
      | CBot true => c1
      | CBot false => CBot true
      | c0 => COr false (toggle c0) c1
      end
  end.
Proof. reflexivity. Qed.

Lemma tcf_sound : forall v p, cf_tt v (tcf p) = ktt v p.
Proof.
  intros v p; induction p as [|n|p0 IH0 p1 IH1]; try reflexivity.
  rewrite tcf_imp.
  destruct (is_top (KImp p0 p1)) eqn:Et.
  - destruct p0; try discriminate; destruct p1; try discriminate. reflexivity.
  - change (ktt v (KImp p0 p1)) with (implb (ktt v p0) (ktt v p1)).
    rewrite <- IH0, <- IH1.
    destruct (tcf p1) as [[|]|n1 i1|n1 l1 r1|n1 l1 r1];
      destruct (tcf p0) as [[|]|n0 i0|n0 l0 r0|n0 l0 r0];
      try reflexivity;
      try (rewrite toggle_tt);
      cbn [cf_tt];
      try (rewrite toggle_tt); cbn [cf_tt negif];
      repeat match goal with
             | |- context [negif ?a ?b] => destruct a; cbn [negif negb]
             | |- context [v ?i] => destruct (v i); cbn [negif negb implb orb andb]
             | |- context [cf_tt v ?c] => destruct (cf_tt v c); cbn [negif negb implb orb andb]
             end; reflexivity.
Qed.

(** the result is a constant or an Or/Var tree (what propag_neg accepts) *)
Definition conj_shape (c : cf) : Prop :=
  match c with CBot _ => True | _ => is_orform c = true end.

Lemma tcf_shape : forall p, conj_shape (tcf p).
Proof.
  induction p as [|n|p0 IH0 p1 IH1]; cbn [tcf conj_shape]; auto.
  fold (tcf p0) (tcf p1).
  change (conj_shape (tcf (KImp p0 p1))). rewrite tcf_imp.
  destruct (is_top (KImp p0 p1)); [exact I|].
  unfold conj_shape in *.
  destruct (tcf p1) as [[|]|n1 i1|n1 l1 r1|n1 l1 r1];
    destruct (tcf p0) as [[|]|n0 i0|n0 l0 r0|n0 l0 r0]; cbn in *; auto;
    try discriminate; rewrite ?IH0, ?IH1; auto.
Qed.

Lemma to_conj_form_sound : forall v f, cf_tt v (to_conj_form f) = tt v f.
Proof. intros; unfold to_conj_form; rewrite tcf_sound; apply expand_tt. Qed.

Lemma to_conj_form_shape : forall f, conj_shape (to_conj_form f).
Proof. intros; apply tcf_shape. Qed.

(* ------------------------------------------------------------------------------------------ *)
(** * propag_neg *)

Lemma cnf_is_nnf_clause : forall c, is_clause c = true -> is_nnf c = true.
Proof.
  induction c as [n|n i|n l IHl r IHr|n l IHl r IHr]; cbn; intros H; try discriminate; auto.
  apply andb_prop in H as [H Hr]. apply andb_prop in H as [Hn Hl].
  rewrite Hn, IHl, IHr; auto.
Qed.

Lemma cnf_is_nnf : forall c, is_cnf c = true -> is_nnf c = true.
Proof.
  induction c as [n|n i|n l IHl r IHr|n l IHl r IHr]; cbn; intros H; try discriminate; auto.
  - apply andb_prop in H as [H Hr]. apply andb_prop in H as [Hn Hl].
    rewrite Hn, (cnf_is_nnf_clause l), (cnf_is_nnf_clause r); auto.
  - apply andb_prop in H as [H Hr]. apply andb_prop in H as [Hn Hl].
    rewrite Hn, IHl, IHr; auto.
Qed.

Lemma pn_sound : forall v t b t',
  pn b t = Some t' -> cf_tt v t' = xorb b (cf_tt v t) /\ is_nnf t' = true.
Proof.
  intros v t; induction t as [n|n i|n l IHl r IHr|n l IHl r IHr]; intros b t' H; cbn in H; try discriminate.
  - inversion H; subst; cbn. split; [|reflexivity]. destruct b, n, (v i); reflexivity.
  - destruct (xorb b n) eqn:E.
    + destruct (pn true l) as [l'|] eqn:El; [|discriminate].
      destruct (pn true r) as [r'|] eqn:Er; [|discriminate].
      inversion H; subst; clear H.
      destruct (IHl _ _ El) as [Hl1 Hl2]. destruct (IHr _ _ Er) as [Hr1 Hr2].
      cbn. rewrite Hl1, Hr1, Hl2, Hr2. split; [|reflexivity].
      destruct b, n; try discriminate; destruct (cf_tt v l), (cf_tt v r); reflexivity.
    + destruct (pn false l) as [l'|] eqn:El; [|discriminate].
      destruct (pn false r) as [r'|] eqn:Er; [|discriminate].
      inversion H; subst; clear H.
      destruct (IHl _ _ El) as [Hl1 Hl2]. destruct (IHr _ _ Er) as [Hr1 Hr2].
      cbn. rewrite Hl1, Hr1, Hl2, Hr2. split; [|reflexivity].
      destruct b, n; try discriminate; destruct (cf_tt v l), (cf_tt v r); reflexivity.
Qed.

Lemma pn_total : forall t b, is_orform t = true -> exists t', pn b t = Some t'.
Proof.
  induction t as [n|n i|n l IHl r IHr|n l IHl r IHr]; intros b H; cbn in H; try discriminate.
  - eexists; reflexivity.
  - apply andb_prop in H as [Hl Hr]. cbn.
    destruct (xorb b n).
    + destruct (IHl true Hl) as [l' ->]. destruct (IHr true Hr) as [r' ->]. eexists; reflexivity.
    + destruct (IHl false Hl) as [l' ->]. destruct (IHr false Hr) as [r' ->]. eexists; reflexivity.
Qed.

Lemma propag_neg_sound : forall v t t',
  propag_neg t = Some t' -> cf_tt v t' = cf_tt v t /\ is_nnf t' = true.
Proof. intros v t t' H. destruct (pn_sound v _ _ _ H) as [H1 H2]. split; auto. rewrite H1. destruct (cf_tt v t); reflexivity. Qed.

Lemma propag_neg_total : forall t, is_orform t = true -> exists t', propag_neg t = Some t'.
Proof. intros; apply pn_total; auto. Qed.

(* ------------------------------------------------------------------------------------------ *)
(** * to_cnf *)

Lemma to_cnf_sound : forall v fuel t t',
  to_cnf fuel t = Ok t' -> is_nnf t = true -> cf_tt v t' = cf_tt v t /\ is_cnf t' = true.
Proof.
  intros v fuel; induction fuel as [|fuel IH]; intros t t' H Hn; [discriminate|].
  destruct t as [n|n i|n l r|n l r]; cbn [to_cnf] in H; try discriminate.
  - inversion H; subst. split; reflexivity.
  - (* COr *)
    cbn in Hn. apply andb_prop in Hn as [Hn Hr]. apply andb_prop in Hn as [Hn0 Hl].
    destruct n; [discriminate|].
    destruct (to_cnf fuel l) as [l'| |] eqn:El; cbn [rbind] in H; try discriminate.
    destruct (to_cnf fuel r) as [r'| |] eqn:Er; cbn [rbind] in H; try discriminate.
    destruct (IH _ _ El Hl) as [Hl1 Hl2]. destruct (IH _ _ Er Hr) as [Hr1 Hr2].
    cbn [cf_tt negif]. rewrite <- Hl1, <- Hr1.
    destruct l' as [nl|nl il|nl al bl|nl al bl].
    + discriminate.
    + destruct r' as [nr|nr ir|nr ar br|nr ar br].
      * discriminate.
      * inversion H; subst. split; [reflexivity|]. reflexivity.
      * inversion H; subst. split; [reflexivity|].
        cbn in Hr2 |- *. exact Hr2.
      * (* r' is And *)
        cbn in Hr2. apply andb_prop in Hr2 as [Hr2 Hbr]. apply andb_prop in Hr2 as [Hnr Har].
        destruct nr; [discriminate|].
        assert (Hnn : is_nnf (CAnd false (COr false (CVar nl il) ar) (COr false (CVar nl il) br)) = true).
        { cbn. rewrite (cnf_is_nnf _ Har), (cnf_is_nnf _ Hbr). reflexivity. }
        destruct (IH _ _ H Hnn) as [H1 H2]. split; [|exact H2].
        rewrite H1. cbn. destruct (negif nl (v il)), (cf_tt v ar), (cf_tt v br); reflexivity.
    + destruct r' as [nr|nr ir|nr ar br|nr ar br].
      * discriminate.
      * inversion H; subst. split; [reflexivity|].
        cbn in Hl2 |- *. rewrite Hl2. reflexivity.
      * inversion H; subst. split; [reflexivity|].
        cbn in Hl2, Hr2 |- *. rewrite Hl2, Hr2. reflexivity.
      * cbn in Hr2. apply andb_prop in Hr2 as [Hr2 Hbr]. apply andb_prop in Hr2 as [Hnr Har].
        destruct nr; [discriminate|].
        assert (Hcl : is_nnf (COr nl al bl) = true) by (apply cnf_is_nnf; exact Hl2).
        assert (Hnn : is_nnf (CAnd false (COr false (COr nl al bl) ar) (COr false (COr nl al bl) br)) = true).
        { cbn in Hcl |- *. rewrite Hcl, (cnf_is_nnf _ Har), (cnf_is_nnf _ Hbr). reflexivity. }
        destruct (IH _ _ H Hnn) as [H1 H2]. split; [|exact H2].
        rewrite H1. set (x := COr nl al bl). cbn [cf_tt negif].
        destruct (cf_tt v x), (cf_tt v ar), (cf_tt v br); reflexivity.
    + (* l' is And *)
      cbn in Hl2. apply andb_prop in Hl2 as [Hl2 Hbl]. apply andb_prop in Hl2 as [Hnl Hal].
      destruct nl; [discriminate|].
      assert (Hnn : is_nnf (CAnd false (COr false al r') (COr false bl r')) = true).
      { cbn. rewrite (cnf_is_nnf _ Hal), (cnf_is_nnf _ Hbl), (cnf_is_nnf _ Hr2). reflexivity. }
      destruct (IH _ _ H Hnn) as [H1 H2]. split; [|exact H2].
      rewrite H1. cbn. destruct (cf_tt v al), (cf_tt v bl), (cf_tt v r'); reflexivity.
  - (* CAnd *)
    cbn in Hn. apply andb_prop in Hn as [Hn Hr]. apply andb_prop in Hn as [Hn0 Hl].
    destruct n; [discriminate|].
    destruct (to_cnf fuel l) as [l'| |] eqn:El; cbn [rbind] in H; try discriminate.
    destruct (to_cnf fuel r) as [r'| |] eqn:Er; cbn [rbind] in H; try discriminate.
    destruct (IH _ _ El Hl) as [Hl1 Hl2]. destruct (IH _ _ Er Hr) as [Hr1 Hr2].
    inversion H; subst. cbn. rewrite Hl1, Hr1, Hl2, Hr2. split; reflexivity.
Qed.

(** Err (AssertionError) is impossible on negation-normal input *)
Lemma to_cnf_no_err : forall fuel t, is_nnf t = true -> to_cnf fuel t <> Err.
Proof.
  induction fuel as [|fuel IH]; intros t Hn; [discriminate|].
  destruct t as [n|n i|n l r|n l r]; cbn [to_cnf]; try discriminate.
  - cbn in Hn. apply andb_prop in Hn as [Hn Hr]. apply andb_prop in Hn as [Hn0 Hl].
    destruct (to_cnf fuel l) as [l'| |] eqn:El; cbn [rbind]; try discriminate; [|exfalso; exact (IH _ Hl El)].
    destruct (to_cnf fuel r) as [r'| |] eqn:Er; cbn [rbind]; try discriminate; [|exfalso; exact (IH _ Hr Er)].
    pose proof (to_cnf_sound (fun _ => false) _ _ _ El Hl) as [_ Hl2].
    pose proof (to_cnf_sound (fun _ => false) _ _ _ Er Hr) as [_ Hr2].
    destruct l' as [nl|nl il|nl al bl|nl al bl]; [cbn in Hl2; discriminate| | |].
    + destruct r' as [nr|nr ir|nr ar br|nr ar br]; try discriminate.
      cbn in Hr2. apply andb_prop in Hr2 as [Hr2 Hbr]. apply andb_prop in Hr2 as [Hnr Har].
      apply IH. cbn. rewrite (cnf_is_nnf _ Har), (cnf_is_nnf _ Hbr). reflexivity.
    + destruct r' as [nr|nr ir|nr ar br|nr ar br]; try discriminate.
      cbn in Hr2. apply andb_prop in Hr2 as [Hr2 Hbr]. apply andb_prop in Hr2 as [Hnr Har].
      assert (Hcl : is_nnf (COr nl al bl) = true) by (apply cnf_is_nnf; exact Hl2).
      apply IH. cbn in Hcl |- *. rewrite Hcl, (cnf_is_nnf _ Har), (cnf_is_nnf _ Hbr). reflexivity.
    + cbn in Hl2. apply andb_prop in Hl2 as [Hl2 Hbl]. apply andb_prop in Hl2 as [Hnl Hal].
      apply IH. cbn. rewrite (cnf_is_nnf _ Hal), (cnf_is_nnf _ Hbl), (cnf_is_nnf _ Hr2). reflexivity.
  - cbn in Hn. apply andb_prop in Hn as [Hn Hr]. apply andb_prop in Hn as [Hn0 Hl].
    destruct (to_cnf fuel l) as [l'| |] eqn:El; cbn [rbind]; try discriminate; [|exfalso; exact (IH _ Hl El)].
    destruct (to_cnf fuel r) as [r'| |] eqn:Er; cbn [rbind]; try discriminate. exfalso; exact (IH _ Hr Er).
Qed.

(* ------------------------------------------------------------------------------------------ *)
(** * to_clauses *)

Lemma lit_of_tt : forall v n i, lit_tt v (lit_of n i) = negif n (v i).
Proof.
  intros v n i. unfold lit_of, lit_tt.
  destruct n.
  - destruct (- (Z.of_N i + 1)) eqn:E; try lia.
    replace (Pos.pred_N p) with i by lia. reflexivity.
  - destruct (Z.of_N i + 1) eqn:E; try lia.
    replace (Pos.pred_N p) with i by lia. reflexivity.
Qed.

Lemma lit_of_nz : forall n i, lit_of n i <> 0.
Proof. intros n i; unfold lit_of; destruct n; lia. Qed.

Lemma clause_tt_app : forall v a b, clause_tt v (a ++ b) = clause_tt v a || clause_tt v b.
Proof. intros; unfold clause_tt; apply existsb_app. Qed.

Lemma clauses_tt_app : forall v a b, clauses_tt v (a ++ b) = clauses_tt v a && clauses_tt v b.
Proof. intros; unfold clauses_tt. apply forallb_app. Qed.

(** well-formed clause list: clauses non-empty, literals non-zero *)
Definition clause_ok (c : list Z) : Prop := c <> [] /\ Forall (fun x => x <> 0) c.
Definition clauses_ok (cs : list (list Z)) : Prop := cs <> [] /\ Forall clause_ok cs.

Lemma to_clauses_clause : forall v t, is_clause t = true ->
  exists c, to_clauses t = Some [c] /\ clause_ok c /\ clause_tt v c = cf_tt v t.
Proof.
  intros v t; induction t as [n|n i|n l IHl r IHr|n l IHl r IHr]; cbn [is_clause]; intros H; try discriminate.
  - exists [lit_of n i]. split; [reflexivity|]. split.
    + split; [discriminate|]. constructor; [apply lit_of_nz|constructor].
    + cbn. rewrite lit_of_tt. destruct (negif n (v i)); reflexivity.
  - apply andb_prop in H as [H Hr]. apply andb_prop in H as [Hn Hl]. destruct n; [discriminate|].
    destruct (IHl Hl) as (cl & El & [Hne Hnz] & Hl1). destruct (IHr Hr) as (cr & Er & [Hner Hnzr] & Hr1).
    exists (cl ++ cr). cbn [to_clauses]. rewrite El, Er.
    destruct cl as [|x cl]; [contradiction|].
    split; [reflexivity|]. split.
    + split; [discriminate|]. apply Forall_app; auto.
    + rewrite clause_tt_app, Hl1, Hr1. reflexivity.
Qed.

Lemma to_clauses_sound : forall v t, is_cnf t = true ->
  exists cs, to_clauses t = Some cs /\ clauses_ok cs /\ clauses_tt v cs = cf_tt v t.
Proof.
  intros v t; induction t as [n|n i|n l IHl r IHr|n l IHl r IHr]; intros H; try discriminate.
  - destruct (to_clauses_clause v (CVar n i) eq_refl) as (c & E & Hok & Htt).
    exists [c]. split; [exact E|]. split.
    + split; [discriminate|]. constructor; auto.
    + cbn [clauses_tt forallb]. rewrite Htt. apply andb_true_r.
  - assert (Hc : is_clause (COr n l r) = true) by exact H.
    destruct (to_clauses_clause v _ Hc) as (c & E & Hok & Htt).
    exists [c]. split; [exact E|]. split.
    + split; [discriminate|]. constructor; auto.
    + cbn [clauses_tt forallb]. rewrite Htt. apply andb_true_r.
  - cbn [is_cnf] in H. apply andb_prop in H as [H Hr]. apply andb_prop in H as [Hn Hl]. destruct n; [discriminate|].
    destruct (IHl Hl) as (cl & El & [Hne Hok] & Hl1). destruct (IHr Hr) as (cr & Er & [Hner Hokr] & Hr1).
    exists (cl ++ cr). cbn [to_clauses]. rewrite El, Er.
    destruct cl as [|x cl]; [contradiction|].
    split; [reflexivity|]. split.
    + split; [discriminate|]. apply Forall_app; auto.
    + rewrite clauses_tt_app, Hl1, Hr1. reflexivity.
Qed.

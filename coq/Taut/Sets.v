(** C09 — facts about the sorted-list model of frozenset[int] and about [resolvable]. *)
From Coq Require Import ZArith NArith List Bool Lia Sorted.
From Pi2 Require Import Taut.Model.
Import ListNotations.
Local Open Scope Z_scope.

(* ------------------------------------------------------------------------------------------ *)
(** * membership *)

Lemma zinsert_in : forall x y l, In x (zinsert y l) <-> x = y \/ In x l.
Proof.
  intros x y l; induction l as [|a t IH]; cbn.
  - intuition.
  - destruct (y <? a) eqn:E1; [cbn; intuition|].
    destruct (y =? a) eqn:E2.
    + apply Z.eqb_eq in E2; subst. cbn. intuition.
    + cbn. rewrite IH. intuition.
Qed.

Lemma mkset_in : forall x l, In x (mkset l) <-> In x l.
Proof.
  intros x l; induction l as [|a t IH]; cbn; [tauto|].
  rewrite zinsert_in, IH. intuition.
Qed.

Lemma zunion_in : forall x a b, In x (zunion a b) <-> In x a \/ In x b.
Proof.
  intros x a b; induction a as [|y t IH]; cbn; [tauto|].
  rewrite zinsert_in, IH. intuition.
Qed.

Lemma zmem_in : forall x l, zmem x l = true <-> In x l.
Proof.
  intros x l; unfold zmem. rewrite existsb_exists. split.
  - intros (y & Hy & E). apply Z.eqb_eq in E; subst; auto.
  - intros H; exists x; split; auto. apply Z.eqb_refl.
Qed.

Lemma zmem_false : forall x l, zmem x l = false <-> ~ In x l.
Proof. intros x l. rewrite <- zmem_in. destruct (zmem x l); intuition congruence. Qed.

Lemma zremove_in : forall x y l, In x (zremove y l) <-> In x l /\ x <> y.
Proof.
  intros x y l; unfold zremove. rewrite filter_In. split; intros [H1 H2]; split; auto.
  - intro; subst. rewrite Z.eqb_refl in H2. discriminate.
  - apply negb_true_iff. apply Z.eqb_neq. exact H2.
Qed.

Lemma clause_eqb_eq : forall a b, clause_eqb a b = true <-> a = b.
Proof.
  induction a as [|x a IH]; destruct b as [|y b]; cbn; split; intros H; try discriminate; auto.
  - apply andb_prop in H as [H1 H2]. apply Z.eqb_eq in H1. apply IH in H2. subst; auto.
  - inversion H; subst. rewrite Z.eqb_refl. cbn. apply IH. reflexivity.
Qed.

Lemma clause_eqb_refl : forall a, clause_eqb a a = true.
Proof. intros; apply clause_eqb_eq; reflexivity. Qed.

Lemma clause_eqb_neq : forall a b, clause_eqb a b = false <-> a <> b.
Proof. intros a b. rewrite <- clause_eqb_eq. destruct (clause_eqb a b); intuition congruence. Qed.

(* ------------------------------------------------------------------------------------------ *)
(** * sortedness (only needed to show that a non-singleton [mkset] has two different elements) *)

Fixpoint ssorted (l : list Z) : Prop :=
  match l with
  | [] => True
  | x :: t => (match t with [] => True | y :: _ => x < y end) /\ ssorted t
  end.

Lemma zinsert_sorted : forall x l, ssorted l -> ssorted (zinsert x l).
Proof.
  intros x l; induction l as [|a t IH]; cbn [zinsert]; intros H.
  - cbn; auto.
  - destruct (x <? a) eqn:E1.
    + apply Z.ltb_lt in E1. cbn. cbn in H. intuition.
    + destruct (x =? a) eqn:E2; [exact H|].
      apply Z.ltb_ge in E1. apply Z.eqb_neq in E2.
      destruct H as [H1 H2]. specialize (IH H2).
      split; [|exact IH].
      destruct t as [|b t']; cbn [zinsert].
      * lia.
      * destruct (x <? b) eqn:E3; [lia|]. destruct (x =? b); auto.
Qed.

Lemma mkset_sorted : forall l, ssorted (mkset l).
Proof. induction l as [|a t IH]; cbn; auto. apply zinsert_sorted; exact IH. Qed.

(** a set that contains [r] and is not the singleton [r] contains something else *)
Lemma mkset_not_singleton : forall l r,
  In r l -> mkset l <> [r] -> exists y, In y l /\ y <> r.
Proof.
  intros l r Hin Hne.
  pose proof (mkset_sorted l) as Hs.
  assert (Hr : In r (mkset l)) by (apply mkset_in; exact Hin).
  destruct (mkset l) as [|a [|b t]] eqn:E.
  - destruct Hr.
  - destruct Hr as [->|[]]. congruence.
  - cbn in Hs. destruct Hs as [Hab _].
    destruct (Z.eq_dec a r) as [->|Ha].
    + exists b. split; [|lia]. apply mkset_in. rewrite E. cbn; auto.
    + exists a. split; [|exact Ha]. apply mkset_in. rewrite E. cbn; auto.
Qed.

Lemma mkset_singleton : forall l r x, mkset l = [r] -> In x l -> x = r.
Proof.
  intros l r x E Hin. apply (proj2 (mkset_in x l)) in Hin. rewrite E in Hin. destruct Hin as [->|[]]. reflexivity.
Qed.

Lemma mkset_nonempty : forall l, l <> [] -> mkset l <> [].
Proof.
  intros [|a t] H; [congruence|]. intro E.
  assert (In a (mkset (a :: t))) by (apply mkset_in; cbn; auto).
  rewrite E in H0. destruct H0.
Qed.

(* ------------------------------------------------------------------------------------------ *)
(** * resolvable *)

Lemma common_in : forall c1 c2 y, In y (common c1 c2) <-> In y c2 /\ In (- y) c1.
Proof.
  intros c1 c2 y. unfold common. rewrite mkset_in, filter_In, in_map_iff, zmem_in. split.
  - intros [(x & E & Hx) H2]. subst. rewrite Z.opp_involutive. auto.
  - intros [H2 H1]. split; auto. exists (- y). split; [lia|auto].
Qed.

Lemma resolvable_some : forall c1 c2 r rs,
  resolvable c1 c2 = Some (r, rs) ->
  In r c2 /\ In (- r) c1 /\
  (forall x, In x rs <-> (In x c1 /\ x <> - r) \/ (In x c2 /\ x <> r)) /\
  (forall y, In y c2 -> In (- y) c1 -> y = r).
Proof.
  intros c1 c2 r rs H. unfold resolvable in H.
  destruct (common c1 c2) as [|a [|b t]] eqn:E; try discriminate.
  inversion H; subst; clear H.
  assert (Hr : In r (common c1 c2)) by (rewrite E; cbn; auto).
  apply (proj1 (common_in c1 c2 r)) in Hr as [H2 H1].
  repeat split; auto.
  - intros Hx. apply (proj1 (zunion_in _ _ _)) in Hx. rewrite !zremove_in in Hx. exact Hx.
  - intros Hx. apply zunion_in. rewrite !zremove_in. exact Hx.
  - intros y Hy2 Hy1.
    assert (Hy : In y (common c1 c2)) by (apply common_in; auto).
    rewrite E in Hy. destruct Hy as [->|[]]. reflexivity.
Qed.

(** if c1 and c2 clash on y, either they resolve on y or they clash on a second literal *)
Lemma resolvable_cases : forall c1 c2 y,
  In y c2 -> In (- y) c1 ->
  (exists rs, resolvable c1 c2 = Some (y, rs) /\
              forall x, In x rs <-> (In x c1 /\ x <> - y) \/ (In x c2 /\ x <> y))
  \/ (exists q, q <> y /\ In q c2 /\ In (- q) c1).
Proof.
  intros c1 c2 y H2 H1.
  destruct (resolvable c1 c2) as [[r rs]|] eqn:E.
  - left. pose proof (resolvable_some _ _ _ _ E) as (_ & _ & Hrs & Huniq).
    assert (y = r) by (apply Huniq; auto). subst r.
    exists rs. split; auto.
  - right. unfold resolvable in E. unfold common in E.
    set (l := filter (fun y0 => zmem y0 c2) (map Z.opp c1)) in *.
    assert (Hin : In y l).
    { unfold l. rewrite filter_In, in_map_iff, zmem_in. split; auto. exists (- y). split; [lia|auto]. }
    assert (Hne : mkset l <> [y]).
    { intro E'. rewrite E' in E. discriminate. }
    destruct (mkset_not_singleton _ _ Hin Hne) as (q & Hq & Hqy).
    exists q. split; auto.
    unfold l in Hq. rewrite filter_In, in_map_iff, zmem_in in Hq.
    destruct Hq as [(x & Ex & Hx) Hq2]. subst q. rewrite Z.opp_involutive. auto.
Qed.

(* ------------------------------------------------------------------------------------------ *)
(** * literals and clauses *)

Lemma lit_tt_opp : forall v x, x <> 0 -> lit_tt v (- x) = negb (lit_tt v x).
Proof. intros v [|p|p] H; cbn; try congruence. rewrite negb_involutive. reflexivity. Qed.

Lemma clause_tt_true : forall v c, clause_tt v c = true <-> exists x, In x c /\ lit_tt v x = true.
Proof. intros; unfold clause_tt; apply existsb_exists. Qed.

Lemma clause_tt_false : forall v c, clause_tt v c = false <-> forall x, In x c -> lit_tt v x = false.
Proof.
  intros v c. unfold clause_tt. split.
  - intros H x Hx. destruct (lit_tt v x) eqn:E; auto.
    assert (existsb (lit_tt v) c = true) by (apply existsb_exists; eauto). congruence.
  - intros H. destruct (existsb (lit_tt v) c) eqn:E; auto.
    apply existsb_exists in E as (x & Hx & E). rewrite H in E; auto.
Qed.

Lemma clause_tt_mkset : forall v c, clause_tt v (mkset c) = clause_tt v c.
Proof.
  intros v c. destruct (clause_tt v c) eqn:E.
  - apply clause_tt_true in E as (x & Hx & E). apply (proj2 (clause_tt_true v (mkset c))).
    exists x. split; [apply mkset_in; exact Hx|exact E].
  - pose proof (proj1 (clause_tt_false v c) E) as E'. apply (proj2 (clause_tt_false v (mkset c))).
    intros x Hx. apply (proj1 (mkset_in x c)) in Hx. apply E'; exact Hx.
Qed.

Definition nz (x : Z) : Prop := x <> 0.

(** non-trivial clause, semantic reading (also excludes the literal 0) *)
Definition nontriv (c : list Z) : Prop := forall x, In x c -> ~ In (- x) c.

Lemma is_trivial_false_spec : forall c,
  is_trivial c = false -> forall x, In x c -> In (- x) c -> x = 0.
Proof.
  induction c as [|a t IH]; cbn [is_trivial]; intros H x H1 H2; [destruct H1|].
  apply orb_false_iff in H as [Ha Ht].
  assert (Hex : forall y, In y t -> a + y <> 0).
  { intros y Hy E. assert (existsb (fun y0 => a + y0 =? 0) t = true).
    { apply existsb_exists. exists y. split; auto. apply Z.eqb_eq; exact E. }
    congruence. }
  destruct H1 as [<-|H1]; destruct H2 as [E2|H2].
  - lia.
  - specialize (Hex _ H2). lia.
  - specialize (Hex _ H1). lia.
  - eapply IH; eauto.
Qed.

Lemma is_trivial_true_spec : forall c,
  is_trivial c = true -> exists x, In x c /\ In (- x) c.
Proof.
  induction c as [|a t IH]; cbn [is_trivial]; intros H; [discriminate|].
  apply orb_true_iff in H as [H|H].
  - apply existsb_exists in H as (y & Hy & E). apply Z.eqb_eq in E.
    exists a. split; [cbn; auto|]. right. replace (- a) with y by lia. exact Hy.
  - destruct (IH H) as (x & H1 & H2). exists x. cbn; auto.
Qed.

Definition good (c : list Z) : Prop := Forall nz c /\ is_trivial c = false.

Lemma good_nontriv : forall c, good c -> nontriv c.
Proof.
  intros c [Hnz Ht] x H1 H2.
  assert (x = 0) by (eapply is_trivial_false_spec; eauto).
  rewrite Forall_forall in Hnz. apply (Hnz x H1). exact H.
Qed.

Lemma nontriv_good : forall c, Forall nz c -> nontriv c -> good c.
Proof.
  intros c Hnz Hn. split; auto.
  destruct (is_trivial c) eqn:E; auto.
  apply is_trivial_true_spec in E as (x & H1 & H2). exfalso. exact (Hn x H1 H2).
Qed.

(** a trivial clause without the literal 0 is valid *)
Lemma trivial_valid : forall v c, Forall nz c -> is_trivial c = true -> clause_tt v c = true.
Proof.
  intros v c Hnz Ht. apply is_trivial_true_spec in Ht as (x & H1 & H2).
  rewrite Forall_forall in Hnz.
  apply clause_tt_true. destruct (lit_tt v x) eqn:E.
  - exists x; auto.
  - exists (- x). split; auto. rewrite lit_tt_opp; [rewrite E; reflexivity|apply Hnz; auto].
Qed.

(** the resolvent of two good clauses is good *)
Lemma resolvent_good : forall c1 c2 r rs,
  resolvable c1 c2 = Some (r, rs) -> good c1 -> good c2 -> good rs.
Proof.
  intros c1 c2 r rs H G1 G2.
  pose proof (resolvable_some _ _ _ _ H) as (Hr2 & Hr1 & Hrs & Huniq).
  pose proof (good_nontriv _ G1) as N1. pose proof (good_nontriv _ G2) as N2.
  destruct G1 as [Z1 _], G2 as [Z2 _]. rewrite Forall_forall in Z1, Z2.
  apply nontriv_good.
  - apply Forall_forall. intros x Hx. apply (proj1 (Hrs x)) in Hx as [[Hx _]|[Hx _]]; auto.
  - intros x Hx Hnx. apply (proj1 (Hrs x)) in Hx. apply (proj1 (Hrs (- x))) in Hnx.
    destruct Hx as [[Hx Hxr]|[Hx Hxr]]; destruct Hnx as [[Hnx Hnxr]|[Hnx Hnxr]].
    + exact (N1 x Hx Hnx).
    + (* x in c1, -x in c2: then -x is a clash, so -x = r *)
      assert (- x = r) by (apply Huniq; auto; rewrite Z.opp_involutive; auto). congruence.
    + (* x in c2, -x in c1 *)
      assert (x = r) by (apply Huniq; auto). congruence.
    + exact (N2 x Hx Hnx).
Qed.

(** soundness of one resolution step *)
Lemma resolvable_sound : forall v c1 c2 r rs,
  resolvable c1 c2 = Some (r, rs) -> Forall nz c2 ->
  clause_tt v c1 = true -> clause_tt v c2 = true -> clause_tt v rs = true.
Proof.
  intros v c1 c2 r rs H Z2 H1 H2.
  pose proof (resolvable_some _ _ _ _ H) as (Hr2 & Hr1 & Hrs & _).
  rewrite Forall_forall in Z2.
  apply clause_tt_true in H1 as (x1 & Hx1 & E1).
  apply clause_tt_true in H2 as (x2 & Hx2 & E2).
  apply clause_tt_true.
  destruct (Z.eq_dec x1 (- r)) as [->|Hne1].
  - destruct (Z.eq_dec x2 r) as [->|Hne2].
    + rewrite lit_tt_opp in E1 by (apply Z2; auto). rewrite E2 in E1. discriminate.
    + exists x2. split; auto. apply Hrs. right; auto.
  - exists x1. split; auto. apply Hrs. left; auto.
Qed.

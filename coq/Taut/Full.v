(** C09 — the proof-object layer at schema level with NOTHING left to assume: the helper conclusions are
    computed by the model ([model_pieces]: simplify_clause, merge_clauses, prove_trivial_clause incl.
    or_move_to_front/unroll and reduce_n_or_duplicates_at_front) and satisfy the helper specs. *)
From Coq Require Import ZArith NArith List Bool.
From Pi2 Require Import Taut.Model Taut.Sets Taut.Resolution Taut.PLModel Taut.Glue Taut.Helpers.
Import ListNotations.

Lemma model_pieces_ok : helper_specs model_pieces.
Proof.
  split; [exact model_simplify_spec|]. split; [exact model_merge_spec|exact model_trivial_spec].
Qed.

Theorem prove_tautology_conc_full : forall ns fuel f r,
  decide ns fuel f = Ok r ->
  prove_tautology_p model_pieces ns fuel f =
  Ok (match r with
      | Some true => Some (true, expand f)
      | Some false => Some (false, k_neg (expand f))
      | None => None
      end).
Proof. apply prove_tautology_conc_modulo. exact model_pieces_ok. Qed.

Theorem start_resolution_conc_full : forall ns fuel cls vd l h,
  start_resolution ns fuel cls = Ok (vd, l, h) -> clauses_nz cls ->
  start_resolution_p model_pieces ns fuel cls =
  Ok (match vd with
      | Some true => Some (true, cls_core cls)
      | Some false => Some (false, k_neg (cls_core cls))
      | None => None
      end).
Proof. apply start_resolution_conc_modulo. exact model_pieces_ok. Qed.

(** C09 — proof layer, schema level: merge_clauses proves  clause(l) \/ clause(r) <-> clause(l ++ r)
    (discharges hypothesis H_merge of Taut/Glue.v). *)
From Coq Require Import ZArith NArith List Bool Lia.
From Pi2 Require Import Taut.Model Taut.PLModel Taut.ProofLayer Taut.ProofLayer2.
Import ListNotations.

Lemma dest_equiv_k_equiv : forall a b, dest_equiv (k_equiv a b) = Some (a, b).
Proof. intros. unfold dest_equiv, k_equiv. rewrite dest_and_k_and. cbn [obind]. rewrite !core_eqb_refl. reflexivity. Qed.

Lemma clause_core_cons2 : forall x y t, clause_core (x :: y :: t) = k_or (lit_core x) (clause_core (y :: t)).
Proof. reflexivity. Qed.

Lemma s_merge_2 : forall tl tr,
  s_merge tl 2 tr = let? (l1, l2) := dest_or tl in s_equiv_sym (s_or_assoc l1 l2 tr).
Proof. reflexivity. Qed.

Lemma s_merge_SSS : forall tl n tr,
  s_merge tl (S (S (S n))) tr =
  let? (l1, l2) := dest_or tl in
  let? a := s_equiv_sym (s_or_assoc l1 l2 tr) in
  let? m := s_merge l2 (S (S n)) tr in
  let? c := s_or_cong (s_equiv_refl l1) m in
  s_equiv_transitivity a c.
Proof. reflexivity. Qed.

Lemma s_merge_conc : forall l r, l <> [] -> r <> [] ->
  s_merge (clause_core l) (length l) (clause_core r)
  = Some (k_equiv (k_or (clause_core l) (clause_core r)) (clause_core (l ++ r))).
Proof.
  induction l as [|x [|y t] IH]; intros r Hl Hr; [congruence| |].
  - destruct r as [|z r']; [congruence|]. reflexivity.
  - assert (Eapp : clause_core ((x :: y :: t) ++ r) = k_or (lit_core x) (clause_core ((y :: t) ++ r))) by reflexivity.
    rewrite Eapp, clause_core_cons2.
    destruct t as [|y2 t'].
    + change (length [x; y]) with 2%nat. rewrite s_merge_2, dest_or_k_or. cbn [obind].
      unfold s_equiv_sym, s_or_assoc. rewrite dest_equiv_k_equiv. cbn [obind].
      destruct r as [|z r']; [congruence|]. reflexivity.
    + change (length (x :: y :: y2 :: t')) with (S (S (S (length t')))).
      rewrite s_merge_SSS, dest_or_k_or. cbn [obind].
      unfold s_equiv_sym, s_or_assoc. rewrite dest_equiv_k_equiv. cbn [obind].
      specialize (IH r ltac:(discriminate) Hr). change (length (y :: y2 :: t')) with (S (S (length t'))) in IH.
      rewrite IH. cbn [obind].
      unfold s_or_cong, s_equiv_refl. rewrite !dest_equiv_k_equiv. cbn [obind].
      unfold s_equiv_transitivity. rewrite !dest_equiv_k_equiv. cbn [obind]. rewrite core_eqb_refl. reflexivity.
Qed.

Lemma pieces_merge_spec : forall simp triv l r, l <> [] -> r <> [] ->
  merge_pf (pieces_merge simp triv) l r = k_equiv (k_or (clause_core l) (clause_core r)) (clause_core (l ++ r)).
Proof. intros. cbn [merge_pf pieces_merge]. rewrite s_merge_conc by auto. reflexivity. Qed.

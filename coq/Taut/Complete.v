(** C09 — completeness: the repaired loop saturates, and a saturated clause set without the empty
    clause is satisfiable; hence "inconclusive" is answered exactly for contingent formulas. *)
From Coq Require Import ZArith NArith List Bool Lia.
From Pi2 Require Import Taut.Model Taut.Stages Taut.Sets Taut.Resolution.
Import ListNotations.
Local Open Scope Z_scope.

(* ------------------------------------------------------------------------------------------ *)
(** * saturation invariant of the repaired loop *)

Definition closed_pair (l : list (list Z)) (a b : list Z) : Prop :=
  forall r rs, resolvable a b = Some (r, rs) -> In rs l.

Definition pairwise_closed (l : list (list Z)) : Prop :=
  forall a b ca cb, (b < a)%nat -> nth_error l a = Some ca -> nth_error l b = Some cb -> closed_pair l ca cb.

Record inv (l : list (list Z)) (h : hint) (i : nat) (cl1 : list Z) (j : nat) : Prop := {
  inv_cl1 : nth_error l i = Some cl1;
  inv_nodup : NoDup l;
  inv_keys : forall c, hint_mem c h = true <-> In c l;
  inv_ji : (j <= i)%nat;
  inv_outer : forall a b ca cb, (b < a)%nat -> (a < i)%nat ->
                nth_error l a = Some ca -> nth_error l b = Some cb -> closed_pair l ca cb;
  inv_inner : forall b cb, (b < j)%nat -> nth_error l b = Some cb -> closed_pair l cl1 cb;
  inv_good : Forall good l;
  inv_nonempty : ~ In [] l
}.

Lemma closed_pair_mono : forall l x a b, closed_pair l a b -> closed_pair (l ++ [x]) a b.
Proof. intros l x a b H r rs E. apply in_app_iff. left. eauto. Qed.

Lemma NoDup_snoc : forall (A : Type) (l : list A) x, NoDup l -> ~ In x l -> NoDup (l ++ [x]).
Proof.
  intros A l x; induction l as [|a t IH]; cbn; intros Hnd Hx.
  - constructor; [intros []|constructor].
  - inversion Hnd; subst. constructor.
    + rewrite in_app_iff. cbn. intuition.
    + apply IH; auto.
Qed.

Lemma nth_error_snoc_lt : forall (A : Type) (l : list A) x a,
  (a < length l)%nat -> nth_error (l ++ [x]) a = nth_error l a.
Proof. intros. apply nth_error_app1. auto. Qed.

Lemma nth_error_lt : forall (A : Type) (l : list A) a c, nth_error l a = Some c -> (a < length l)%nat.
Proof. intros A l a c H. apply nth_error_Some. congruence. Qed.

Lemma res_loop_closed : forall fuel l h i cl1 j l' h',
  res_loop true fuel l h i cl1 j = Ok (false, l', h') -> inv l h i cl1 j ->
  pairwise_closed l' /\ Forall good l' /\ ~ In [] l' /\ incl l l'.
Proof.
  induction fuel as [|fuel IH]; intros l h i cl1 j l' h' H Hinv; [discriminate|].
  cbn [res_loop] in H.
  destruct Hinv as [Hcl1 Hnd Hkeys Hji Houter Hinner Hgood Hne].
  pose proof (nth_error_lt _ _ _ _ Hcl1) as Hlen.
  destruct (nth_error l j) as [cl2|] eqn:Ej.
  2: { exfalso. apply nth_error_None in Ej. lia. }
  destruct (clause_eqb cl2 cl1) eqn:Eeq.
  - (* break: j = i *)
    apply clause_eqb_eq in Eeq. subst cl2.
    assert (j = i).
    { apply (proj1 (NoDup_nth_error l) Hnd); [eapply nth_error_lt; eauto|congruence]. }
    subst j.
    destruct (nth_error l (S i)) as [c|] eqn:En.
    + eapply IH; eauto. constructor; auto.
      * lia.
      * intros a b ca cb Hba Hai Ha Hb. destruct (Nat.eq_dec a i) as [->|Hne'].
        -- rewrite Hcl1 in Ha. inversion Ha; subst. eapply Hinner; eauto.
        -- apply (Houter a b ca cb); auto; lia.
      * intros b cb Hb. lia.
    + inversion H; subst. repeat split; auto; [|apply incl_refl].
      intros a b ca cb Hba Ha Hb.
      pose proof (nth_error_lt _ _ _ _ Ha) as Hla. apply nth_error_None in En.
      destruct (Nat.eq_dec a i) as [->|Hne'].
      * rewrite Hcl1 in Ha. inversion Ha; subst. eapply Hinner; eauto.
      * apply (Houter a b ca cb); auto; lia.
  - (* cl2 <> cl1: j < i *)
    assert (Hjne : j <> i).
    { intro; subst. rewrite Hcl1 in Ej. inversion Ej; subst. rewrite clause_eqb_refl in Eeq. discriminate. }
    assert (Hin1 : In cl1 l) by (eapply nth_error_In; eauto).
    assert (Hin2 : In cl2 l) by (eapply nth_error_In; eauto).
    destruct (resolvable cl1 cl2) as [[r rs]|] eqn:Er.
    2: { eapply IH; eauto. constructor; auto; [lia|].
         intros b cb Hb Hnb. destruct (Nat.eq_dec b j) as [->|Hbj].
         - rewrite Ej in Hnb. inversion Hnb; subst. intros r rs E. congruence.
         - apply Hinner with b; auto. lia. }
    destruct (hint_mem rs h) eqn:Em.
    + eapply IH; eauto. constructor; auto; [lia|].
      intros b cb Hb Hnb. destruct (Nat.eq_dec b j) as [->|Hbj].
      * rewrite Ej in Hnb. inversion Hnb; subst. intros r' rs' E. rewrite Er in E. inversion E; subst.
        apply Hkeys. exact Em.
      * apply Hinner with b; auto. lia.
    + rewrite andb_false_r in H.
      destruct rs as [|x rs']; [discriminate|].
      assert (Hnotin : ~ In (x :: rs') l).
      { intro Hc. apply Hkeys in Hc. congruence. }
      apply IH in H.
      * destruct H as (P1 & P2 & P3 & P4). repeat split; auto.
        intros c Hc. apply P4. apply in_app_iff. auto.
      * constructor.
        -- rewrite nth_error_snoc_lt; auto.
        -- apply NoDup_snoc; auto.
        -- intros c. rewrite hint_mem_app, Hkeys, in_app_iff. cbn. intuition.
        -- lia.
        -- intros a b ca cb Hba Hai Ha Hb.
           rewrite nth_error_snoc_lt in Ha by lia. rewrite nth_error_snoc_lt in Hb by lia.
           apply closed_pair_mono. apply (Houter a b ca cb); auto.
        -- intros b cb Hb Hnb.
           rewrite nth_error_snoc_lt in Hnb by lia.
           destruct (Nat.eq_dec b j) as [->|Hbj].
           ++ rewrite Ej in Hnb. inversion Hnb; subst. intros r' rs'' E. rewrite Er in E. inversion E; subst.
              apply in_app_iff. right. cbn; auto.
           ++ apply closed_pair_mono. apply Hinner with b; auto. lia.
        -- apply Forall_app. split; auto. constructor; [|constructor].
           rewrite Forall_forall in Hgood. eapply resolvent_good; eauto.
        -- rewrite in_app_iff. cbn. intros [Hc|[Hc|[]]]; [auto|discriminate].
Qed.

(** saturate_closed: when the repaired loop answers `False`, the final list is closed under
    [resolvable], contains only good clauses, not the empty clause, and extends the initial list *)
Lemma saturate_closed : forall fuel h l l' h',
  resolution_algorithm true fuel h l = Ok (false, l', h') ->
  NoDup l -> (forall c, hint_mem c h = true <-> In c l) -> Forall good l -> ~ In [] l ->
  pairwise_closed l' /\ Forall good l' /\ ~ In [] l' /\ incl l l'.
Proof.
  intros fuel h l l' h' H Hnd Hkeys Hgood Hne. unfold resolution_algorithm in H.
  destruct l as [|c t].
  - inversion H; subst. repeat split; auto; [|apply incl_refl].
    intros a b ca cb _ Ha. destruct a; discriminate.
  - eapply res_loop_closed; eauto. constructor; auto; try lia; intros; lia.
Qed.

(* ------------------------------------------------------------------------------------------ *)
(** * from positional closure to semantic closure *)

Definition sem_closed (S : list (list Z)) : Prop :=
  forall c d p, In c S -> In d S -> In p c -> In (- p) d ->
    (exists q, q <> p /\ In q c /\ In (- q) d) \/
    (exists rs, In rs S /\ forall x, In x rs <-> (In x c /\ x <> p) \/ (In x d /\ x <> - p)).

Lemma pairwise_sem_closed : forall S, pairwise_closed S -> (forall c, In c S -> nontriv c) -> sem_closed S.
Proof.
  intros S Hpc Hnt c d p Hc Hd Hpc' Hpd.
  destruct (In_nth_error _ _ Hc) as [a Ha]. destruct (In_nth_error _ _ Hd) as [b Hb].
  destruct (Nat.lt_total a b) as [Hab|[Hab|Hab]].
  - (* a < b: resolvable d c on p *)
    destruct (resolvable_cases d c p Hpc' Hpd) as [(rs & E & Hrs)|(q & Hq & Hqc & Hqd)].
    + right. exists rs. split; [eapply (Hpc b a); eauto|].
      intros x. rewrite Hrs. tauto.
    + left. exists q. auto.
  - subst b. rewrite Ha in Hb. inversion Hb; subst d. exfalso. exact (Hnt c Hc p Hpc' Hpd).
  - (* b < a: resolvable c d on -p *)
    assert (Hpc'' : In (- - p) c) by (rewrite Z.opp_involutive; auto).
    destruct (resolvable_cases c d (- p) Hpd Hpc'') as [(rs & E & Hrs)|(q & Hq & Hqd & Hqc)].
    + right. exists rs. split; [eapply (Hpc a b); eauto|].
      intros x. rewrite Hrs. rewrite Z.opp_involutive. tauto.
    + left. exists (- q). rewrite Z.opp_involutive. split; [lia|auto].
Qed.

(* ------------------------------------------------------------------------------------------ *)
(** * resolution_complete: a closed set of non-trivial clauses without [] has a model *)

Definition var_of (x : Z) : N :=
  match x with Z0 => 0%N | Zpos q => Pos.pred_N q | Zneg q => Pos.pred_N q end.

Definition upd (v : N -> bool) (p : Z) (b : bool) : N -> bool :=
  fun n => if N.eqb n (var_of p) then b else v n.

Lemma pred_N_inj : forall q q', Pos.pred_N q = Pos.pred_N q' -> q = q'.
Proof. intros q q' H. lia. Qed.

Lemma lit_upd_other : forall v p b x, x <> p -> x <> - p -> x <> 0 -> p <> 0 ->
  lit_tt (upd v p b) x = lit_tt v x.
Proof.
  intros v p b x H1 H2 H3 H4. unfold upd.
  assert (Hv : var_of x <> var_of p).
  { destruct x as [|q|q], p as [|q'|q']; cbn; try congruence; intro E; apply pred_N_inj in E; subst;
      try congruence; cbn in H2; congruence. }
  apply N.eqb_neq in Hv.
  destruct x as [|q|q]; cbn in *; try congruence; rewrite Hv; reflexivity.
Qed.

Lemma lit_upd_pos : forall v p b, 0 < p -> lit_tt (upd v p b) p = b.
Proof. intros v [|q|q] b H; try lia. cbn. unfold upd. cbn. rewrite N.eqb_refl. reflexivity. Qed.

Lemma lit_upd_neg : forall v p b, 0 < p -> lit_tt (upd v p b) (- p) = negb b.
Proof. intros v [|q|q] b H; try lia. cbn. unfold upd. cbn. rewrite N.eqb_refl. reflexivity. Qed.

Lemma forallb_false_ex : forall (A : Type) (f : A -> bool) l,
  forallb f l = false -> exists x, In x l /\ f x = false.
Proof.
  intros A f l; induction l as [|a t IH]; cbn; intros H; [discriminate|].
  destruct (f a) eqn:E; cbn in H.
  - destruct (IH H) as (x & Hx & Ex). exists x; auto.
  - exists a; auto.
Qed.

Definition atoms_in (vars : list Z) (S : list (list Z)) : Prop :=
  forall c x, In c S -> In x c -> In (Z.abs x) vars.

Definition mentions (p : Z) (c : list Z) : bool := zmem p c || zmem (- p) c.

Lemma mentions_false : forall p c, mentions p c = false <-> ~ In p c /\ ~ In (- p) c.
Proof. intros p c. unfold mentions. rewrite orb_false_iff, !zmem_false. tauto. Qed.

Lemma resolution_complete : forall vars S,
  Forall (fun p => 0 < p) vars -> atoms_in vars S -> sem_closed S ->
  (forall c, In c S -> nontriv c) -> ~ In [] S ->
  exists v, sat_all v S.
Proof.
  induction vars as [|p vars IH]; intros S Hpos Hat Hcl Hnt Hne.
  - exists (fun _ => false). intros c Hc. exfalso.
    destruct c as [|x c']; [auto|]. exact (Hat _ x Hc (or_introl eq_refl)).
  - inversion Hpos as [|? ? Hp Hpos']; subst.
    set (S' := filter (fun c => negb (mentions p c)) S).
    assert (HS' : forall c, In c S' <-> In c S /\ ~ In p c /\ ~ In (- p) c).
    { intros c. unfold S'. rewrite filter_In, negb_true_iff, mentions_false. tauto. }
    assert (Hnz : forall c x, In c S -> In x c -> x <> 0).
    { intros c x Hc Hx E. subst x. exact (Hnt c Hc 0 Hx Hx). }
    destruct (IH S') as [v Hv]; auto.
    { intros c x Hc Hx. apply HS' in Hc as (Hc & Hp1 & Hp2).
      destruct (Hat c x Hc Hx) as [E|Hin]; auto. exfalso.
      destruct (Z.abs_spec x) as [[_ E']|[_ E']]; rewrite E' in E.
      - subst x. auto.
      - apply Hp2. replace (- p) with x by lia. exact Hx. }
    { intros c d q Hc Hd Hqc Hqd.
      apply HS' in Hc as (Hc & Hc1 & Hc2). apply HS' in Hd as (Hd & Hd1 & Hd2).
      destruct (Hcl c d q Hc Hd Hqc Hqd) as [Hq|(rs & Hrs & Hx)]; [left; exact Hq|].
      right. exists rs. split; [|exact Hx]. apply HS'. split; [exact Hrs|].
      split; intro Hin; apply (proj1 (Hx _)) in Hin; tauto. }
    { intros c Hc. apply HS' in Hc as [Hc _]. auto. }
    { intro Hc. apply HS' in Hc as [Hc _]. auto. }
    set (vf := upd v p false). set (vt := upd v p true).
    assert (Hp0 : p <> 0) by lia.
    destruct (forallb (clause_tt vf) S) eqn:Ef.
    { exists vf. intros c Hc. rewrite forallb_forall in Ef. auto. }
    exists vt. intros d Hd. destruct (clause_tt vt d) eqn:Ed; auto. exfalso.
    apply forallb_false_ex in Ef as (c0 & Hc0 & Ec0).
    pose proof (proj1 (clause_tt_false _ _) Ec0) as Fc0.
    pose proof (proj1 (clause_tt_false _ _) Ed) as Fd.
    (* c0 contains p and not -p *)
    assert (Hc0n : ~ In (- p) c0).
    { intro Hin. specialize (Fc0 _ Hin). unfold vf in Fc0. rewrite lit_upd_neg in Fc0 by auto. discriminate. }
    assert (Hdp : ~ In p d).
    { intro Hin. specialize (Fd _ Hin). unfold vt in Fd. rewrite lit_upd_pos in Fd by auto. discriminate. }
    assert (Hsame_f : forall x c, In c S -> In x c -> x <> p -> x <> - p -> lit_tt vf x = lit_tt v x).
    { intros x c Hc Hx H1 H2. apply lit_upd_other; eauto. }
    assert (Hsame_t : forall x c, In c S -> In x c -> x <> p -> x <> - p -> lit_tt vt x = lit_tt v x).
    { intros x c Hc Hx H1 H2. apply lit_upd_other; eauto. }
    assert (Hc0p : In p c0).
    { destruct (zmem p c0) eqn:E; [apply zmem_in; exact E|]. apply zmem_false in E. exfalso.
      assert (Hin' : In c0 S') by (apply HS'; auto).
      specialize (Hv _ Hin'). apply clause_tt_true in Hv as (x & Hx & Ex).
      rewrite <- (Hsame_f x c0) in Ex; auto; try congruence.
      rewrite Fc0 in Ex; auto. discriminate. }
    assert (Hdn : In (- p) d).
    { destruct (zmem (- p) d) eqn:E; [apply zmem_in; exact E|]. apply zmem_false in E. exfalso.
      assert (Hin' : In d S') by (apply HS'; auto).
      specialize (Hv _ Hin'). apply clause_tt_true in Hv as (x & Hx & Ex).
      rewrite <- (Hsame_t x d) in Ex; auto; try congruence.
      rewrite Fd in Ex; auto. discriminate. }
    destruct (Hcl c0 d p Hc0 Hd Hc0p Hdn) as [(q & Hqp & Hqc & Hqd)|(rs & Hrs & Hx)].
    + (* a second clash q: q false under vf, -q false under vt, impossible *)
      assert (Hq0 : q <> 0) by eauto.
      assert (Hqnp : q <> - p) by congruence.
      pose proof (Fc0 _ Hqc) as F1. rewrite (Hsame_f q c0) in F1; auto.
      pose proof (Fd _ Hqd) as F2. rewrite (Hsame_t (- q) d) in F2; auto; try lia.
      rewrite lit_tt_opp in F2 by auto. rewrite F1 in F2. discriminate.
    + (* the resolvent is in S', satisfied by v: one of its literals is true in c0 or d *)
      assert (Hin' : In rs S').
      { apply HS'. split; auto. split; intro Hin; apply (proj1 (Hx _)) in Hin; tauto. }
      specialize (Hv _ Hin'). apply clause_tt_true in Hv as (x & Hxrs & Ex).
      apply (proj1 (HS' rs)) in Hin' as (_ & Hnp & Hnn).
      assert (x <> p) by congruence. assert (x <> - p) by congruence.
      apply (proj1 (Hx x)) in Hxrs as [[Hxc _]|[Hxd _]].
      * rewrite <- (Hsame_f x c0) in Ex; auto. rewrite Fc0 in Ex; auto. discriminate.
      * rewrite <- (Hsame_t x d) in Ex; auto. rewrite Fd in Ex; auto. discriminate.
Qed.

(* ------------------------------------------------------------------------------------------ *)
(** * start_resolution_algorithm answers None only for a satisfiable, falsifiable conjunction *)

Definition all_atoms (S : list (list Z)) : list Z := map Z.abs (concat S).

Lemma all_atoms_in : forall S, atoms_in (all_atoms S) S.
Proof.
  intros S c x Hc Hx. unfold all_atoms. apply in_map. apply in_concat. exists c. auto.
Qed.

Lemma all_atoms_pos : forall S, (forall c x, In c S -> In x c -> x <> 0) -> Forall (fun p => 0 < p) (all_atoms S).
Proof.
  intros S H. apply Forall_forall. intros p Hp. unfold all_atoms in Hp.
  apply in_map_iff in Hp as (x & <- & Hx). apply in_concat in Hx as (c & Hc & Hx).
  specialize (H c x Hc Hx). lia.
Qed.

Lemma good_falsifiable : forall c, good c -> exists v, clause_tt v c = false.
Proof.
  intros c G. pose proof (good_nontriv _ G) as Hn. destruct G as [Hz _]. rewrite Forall_forall in Hz.
  exists (fun n => zmem (- (Z.of_N n + 1)) c).
  apply clause_tt_false. intros x Hx. specialize (Hz x Hx). unfold nz in Hz.
  destruct x as [|q|q]; [congruence| |]; cbn [lit_tt].
  - apply zmem_false. replace (- (Z.of_N (Pos.pred_N q) + 1)) with (- Z.pos q) by lia. apply Hn. exact Hx.
  - apply negb_false_iff. apply zmem_in. replace (- (Z.of_N (Pos.pred_N q) + 1)) with (Z.neg q) by lia. exact Hx.
Qed.

Lemma start_resolution_none : forall fuel cs l h,
  start_resolution true fuel cs = Ok (None, l, h) -> clauses_ok cs ->
  (exists v, clauses_tt v cs = true) /\ (exists v, clauses_tt v cs = false).
Proof.
  intros fuel cs l h H Hok. pose proof (clauses_ok_nz _ Hok) as Hnz. destruct Hok as [_ Hok].
  unfold start_resolution in H.
  destruct cs as [|c0 cs']; [discriminate|].
  set (cs := c0 :: cs') in *.
  destruct (init_hint (map mkset cs) 0%N []) as [|e h0'] eqn:Eh; [discriminate|].
  set (h0 := e :: h0') in *.
  destruct (resolution_algorithm true fuel h0 (map fst h0)) as [[[b l1] h1]| |] eqn:Er; cbn [rbind] in H; try discriminate.
  destruct b; [discriminate|]. inversion H; subst l1 h1; clear H.
  assert (Hkeys : forall k, In k (map fst h0) <-> In k (map mkset cs) /\ is_trivial k = false).
  { intros k. rewrite <- Eh. rewrite init_hint_keys. cbn. tauto. }
  assert (Hgood0 : Forall good (map fst h0)).
  { apply Forall_forall. intros k Hk. apply Hkeys in Hk as [Hk Ht]. split; auto.
    apply in_map_iff in Hk as (c & <- & Hc). apply mkset_nz.
    unfold clauses_nz in Hnz. rewrite Forall_forall in Hnz. auto. }
  assert (Hne0 : ~ In [] (map fst h0)).
  { intro Hk. apply Hkeys in Hk as [Hk _]. apply in_map_iff in Hk as (c & E & Hc).
    rewrite Forall_forall in Hok. destruct (Hok c Hc) as [Hcne _]. exact (mkset_nonempty c Hcne E). }
  assert (Hnd0 : NoDup (map fst h0)).
  { rewrite <- Eh. apply init_hint_nodup. constructor. }
  destruct (saturate_closed _ _ _ _ _ Er Hnd0 (fun c => hint_mem_in c h0) Hgood0 Hne0) as (Hpc & Hg & Hne & Hincl).
  assert (Hnt : forall c, In c l -> nontriv c).
  { intros c Hc. apply good_nontriv. rewrite Forall_forall in Hg. auto. }
  split.
  - destruct (resolution_complete (all_atoms l) l) as [v Hv]; auto.
    + apply all_atoms_pos. intros c x Hc Hx E. subst. exact (Hnt c Hc 0 Hx Hx).
    + apply all_atoms_in.
    + apply pairwise_sem_closed; auto.
    + exists v. apply clauses_tt_true. intros c Hc.
      rewrite <- clause_tt_mkset.
      destruct (is_trivial (mkset c)) eqn:Et.
      * apply trivial_valid; auto. apply mkset_nz. unfold clauses_nz in Hnz. rewrite Forall_forall in Hnz. auto.
      * apply Hv. apply Hincl. apply Hkeys. split; auto. apply in_map. exact Hc.
  - (* the first key of the dictionary is a non-trivial clause: falsify it *)
    assert (Hk : In (fst e) (map fst h0)) by (cbn; auto).
    pose proof Hk as Hk'. apply Hkeys in Hk' as [Hk' _]. apply in_map_iff in Hk' as (c & E & Hc).
    rewrite Forall_forall in Hgood0. destruct (good_falsifiable _ (Hgood0 _ Hk)) as [v Hv].
    exists v. destruct (clauses_tt v cs) eqn:Ecs; auto.
    rewrite clauses_tt_true in Ecs. specialize (Ecs c Hc).
    rewrite <- clause_tt_mkset, E, Hv in Ecs. discriminate.
Qed.

(* ------------------------------------------------------------------------------------------ *)
(** * the decision procedure declines exactly on contingent formulas *)

Lemma decide_tail_none : forall fuel c,
  decide_tail true fuel c = Ok None ->
  (exists v, cf_tt v c = true) /\ (exists v, cf_tt v c = false).
Proof.
  intros fuel c H.
  destruct (pipeline_stages _ _ _ _ H) as (n & k & cls & [[vd l] h] & _ & _ & _ & Ex & Er & Hok & Htt).
  cbn [fst] in Er. destruct vd as [[|]|]; try discriminate.
  destruct (start_resolution_none _ _ _ _ Ex Hok) as [[v1 H1] [v2 H2]].
  split; [exists v1|exists v2]; rewrite <- Htt; auto.
Qed.

Lemma decide_none_contingent : forall fuel f, decide true fuel f = Ok None -> contingent f.
Proof.
  intros fuel f H. unfold decide in H.
  assert (Hneg : forall v, cf_tt v (to_conj_form (FNeg f)) = negb (tt v f)).
  { intros v. rewrite to_conj_form_sound. reflexivity. }
  assert (Htail : decide_tail true fuel (to_conj_form (FNeg f)) = Ok None -> contingent f).
  { intros Ht. destruct (decide_tail_none _ _ Ht) as [[v1 H1] [v2 H2]].
    rewrite Hneg in H1, H2. split; [exists v2; destruct (tt v2 f)|exists v1; destruct (tt v1 f)]; cbn in *; congruence. }
  destruct (to_conj_form (FNeg f)) as [[|]|n i|n a b|n a b] eqn:E; auto; discriminate H.
Qed.

(** AssertionError is impossible *)
Lemma res_loop_no_err : forall ns fuel l h i c j, res_loop ns fuel l h i c j <> Err.
Proof.
  intros ns fuel; induction fuel as [|fuel IH]; intros l h i c j; cbn [res_loop]; [discriminate|].
  destruct (nth_error l j) as [cl2|].
  - destruct (clause_eqb cl2 c).
    + destruct (nth_error l (S i)); [apply IH|discriminate].
    + destruct (resolvable c cl2) as [[r rs]|]; [|apply IH].
      destruct (hint_mem rs h); [apply IH|]. destruct rs; [discriminate|apply IH].
  - destruct (nth_error l (S i)); [apply IH|discriminate].
Qed.

Lemma start_resolution_no_err : forall ns fuel cs, start_resolution ns fuel cs <> Err.
Proof.
  intros ns fuel cs. unfold start_resolution.
  destruct cs as [|c0 cs']; [discriminate|].
  destruct (init_hint _ _ _) as [|e h0']; [discriminate|].
  destruct (resolution_algorithm _ _ _ _) as [[[b l1] h1]| |] eqn:Er; cbn [rbind]; try discriminate.
  - destruct b; discriminate.
  - exfalso. unfold resolution_algorithm in Er. cbn [map] in Er. exact (res_loop_no_err _ _ _ _ _ _ _ Er).
Qed.

Lemma decide_no_err : forall ns fuel f, decide ns fuel f <> Err.
Proof.
  intros ns fuel f. unfold decide.
  pose proof (to_conj_form_shape (FNeg f)) as Hs.
  assert (Htail : is_orform (to_conj_form (FNeg f)) = true -> decide_tail ns fuel (to_conj_form (FNeg f)) <> Err).
  { intros Ho. unfold decide_tail.
    destruct (propag_neg_total _ Ho) as [n En]. rewrite En. cbn [of_option rbind].
    destruct (propag_neg_sound (fun _ => false) _ _ En) as [_ Hnnf].
    destruct (to_cnf fuel n) as [k| |] eqn:Ek; cbn [rbind]; try discriminate.
    2: { exfalso. exact (to_cnf_no_err _ _ Hnnf Ek). }
    destruct (to_cnf_sound (fun _ => false) _ _ _ Ek Hnnf) as [_ Hcnf].
    destruct (to_clauses_sound (fun _ => false) k Hcnf) as (cls & Ecl & Hok & _).
    rewrite Ecl. cbn [of_option rbind].
    destruct (start_resolution ns fuel cls) as [[[vd l] h]| |] eqn:Ex; cbn [rbind fst]; try discriminate.
    - destruct vd as [[|]|]; discriminate.
    - exfalso. exact (start_resolution_no_err _ _ _ Ex). }
  unfold conj_shape in Hs.
  destruct (to_conj_form (FNeg f)) as [[|]|n i|n a b|n a b] eqn:E; try discriminate; auto.
Qed.

(** full characterisation of the verdict of the repaired procedure, out-of-fuel excluded *)
Theorem decide_correct : forall fuel f r,
  decide true fuel f = Ok r ->
  (r = Some true <-> tautology f) /\ (r = Some false <-> unsat f) /\ (r = None <-> contingent f).
Proof.
  intros fuel f r H.
  destruct (decide_sound _ _ _ _ H) as [HT HF].
  assert (HN : r = None -> contingent f) by (intros ->; eapply decide_none_contingent; eauto).
  assert (X1 : tautology f -> unsat f -> False).
  { intros A B. specialize (A (fun _ => false)). specialize (B (fun _ => false)). congruence. }
  assert (X2 : tautology f -> contingent f -> False).
  { intros A [_ [v B]]. specialize (A v). congruence. }
  assert (X3 : unsat f -> contingent f -> False).
  { intros A [[v B] _]. specialize (A v). congruence. }
  destruct r as [[|]|]; (split; [|split]); split; intros A; auto; try congruence; exfalso; eauto.
Qed.

(** C09 — enough fuel exists: to_cnf and the repaired resolution loop terminate, with explicit bounds. *)
From Coq Require Import ZArith NArith List Bool Lia PeanoNat.
From Pi2 Require Import Taut.Model Taut.Stages Taut.Sets Taut.Resolution Taut.Complete.
Import ListNotations.
Local Open Scope nat_scope.

(* ------------------------------------------------------------------------------------------ *)
(** * to_cnf *)

Lemma to_cnf_mono : forall n t t', to_cnf n t = Ok t' -> forall m, n <= m -> to_cnf m t = Ok t'.
Proof.
  induction n as [|n IH]; intros t t' H m Hm; [discriminate|].
  destruct m as [|m]; [lia|]. assert (Hnm : n <= m) by lia.
  destruct t as [b|b i|b l r|b l r]; cbn [to_cnf] in *; auto.
  - destruct (to_cnf n l) as [l'| |] eqn:El; cbn [rbind] in H; try discriminate.
    destruct (to_cnf n r) as [r'| |] eqn:Er; cbn [rbind] in H; try discriminate.
    rewrite (IH _ _ El m Hnm), (IH _ _ Er m Hnm). cbn [rbind].
    destruct l' as [?|? ?|? ? ?|? a1 a2]; auto;
      destruct r' as [?|? ?|? ? ?|? b1 b2]; auto.
  - destruct (to_cnf n l) as [l'| |] eqn:El; cbn [rbind] in H; try discriminate.
    destruct (to_cnf n r) as [r'| |] eqn:Er; cbn [rbind] in H; try discriminate.
    rewrite (IH _ _ El m Hnm), (IH _ _ Er m Hnm). exact H.
Qed.

Fixpoint height (t : cf) : nat :=
  match t with
  | CBot _ => 1
  | CVar _ _ => 1
  | COr _ l r => S (Nat.max (height l) (height r))
  | CAnd _ l r => S (Nat.max (height l) (height r))
  end.

Lemma height_pos : forall t, 1 <= height t.
Proof. destruct t; cbn; lia. Qed.

(** on a clause / CNF term to_cnf is the identity *)
Lemma to_cnf_id_clause : forall t, is_clause t = true -> forall n, height t <= n -> to_cnf n t = Ok t.
Proof.
  induction t as [b|b i|b l IHl r IHr|b l IHl r IHr]; cbn [is_clause height]; intros H n Hn; try discriminate.
  - destruct n; [lia|]. reflexivity.
  - apply andb_prop in H as [H Hr]. apply andb_prop in H as [Hb Hl]. destruct b; [discriminate|].
    destruct n; [lia|]. cbn [to_cnf].
    rewrite (IHl Hl n) by lia. rewrite (IHr Hr n) by lia. cbn [rbind].
    destruct l as [?|? ?|? ? ?|? ? ?]; try discriminate; destruct r as [?|? ?|? ? ?|? ? ?]; try discriminate; reflexivity.
Qed.

Lemma to_cnf_id : forall t, is_cnf t = true -> forall n, height t <= n -> to_cnf n t = Ok t.
Proof.
  induction t as [b|b i|b l IHl r IHr|b l IHl r IHr]; intros H n Hn; try discriminate.
  - apply to_cnf_id_clause; auto.
  - apply to_cnf_id_clause; auto.
  - cbn [is_cnf] in H. apply andb_prop in H as [H Hr]. apply andb_prop in H as [Hb Hl]. destruct b; [discriminate|].
    cbn [height] in Hn. destruct n; [lia|]. cbn [to_cnf].
    rewrite (IHl Hl n) by lia. rewrite (IHr Hr n) by lia. reflexivity.
Qed.

Definition is_and (t : cf) : bool := match t with CAnd _ _ _ => true | _ => false end.

(** distributing an Or over two CNF terms *)
Lemma distribute_terminates : forall k l r,
  height l + height r <= k -> is_cnf l = true -> is_cnf r = true ->
  forall n b, 2 * (height l + height r) <= n ->
  exists t', to_cnf n (COr b l r) = Ok t' /\ height t' <= height l + height r.
Proof.
  induction k as [|k IH]; intros l r Hk Hl Hr n b Hn.
  { pose proof (height_pos l). lia. }
  pose proof (height_pos l) as Hpl. pose proof (height_pos r) as Hpr.
  destruct n as [|n]; [lia|]. cbn [to_cnf].
  rewrite (to_cnf_id l Hl n) by lia. rewrite (to_cnf_id r Hr n) by lia. cbn [rbind].
  destruct l as [bl|bl il|bl l1 l2|bl l1 l2].
  - discriminate.
  - destruct r as [br|br ir|br r1 r2|br r1 r2].
    + discriminate.
    + eexists. split; [reflexivity|]. cbn; lia.
    + eexists. split; [reflexivity|]. cbn [height]. lia.
    + (* r is an And *)
      cbn [is_cnf] in Hr. apply andb_prop in Hr as [Hr Hr2]. apply andb_prop in Hr as [_ Hr1].
      cbn [height] in *. destruct n as [|n]; [lia|]. cbn [to_cnf].
      destruct (IH (CVar bl il) r1) with (n := n) (b := false) as (x & Ex & Hx); cbn [height]; auto; try lia.
      destruct (IH (CVar bl il) r2) with (n := n) (b := false) as (y & Ey & Hy); cbn [height]; auto; try lia.
      rewrite Ex, Ey. cbn [rbind]. eexists. split; [reflexivity|]. cbn [height] in *. lia.
  - destruct r as [br|br ir|br r1 r2|br r1 r2].
    + discriminate.
    + eexists. split; [reflexivity|]. cbn [height]. lia.
    + eexists. split; [reflexivity|]. cbn [height]. lia.
    + cbn [is_cnf] in Hr. apply andb_prop in Hr as [Hr Hr2]. apply andb_prop in Hr as [_ Hr1].
      cbn [height] in Hk, Hn |- *. destruct n as [|n]; [lia|]. cbn [to_cnf].
      destruct (IH (COr bl l1 l2) r1) with (n := n) (b := false) as (x & Ex & Hx); cbn [height]; auto; try lia.
      destruct (IH (COr bl l1 l2) r2) with (n := n) (b := false) as (y & Ey & Hy); cbn [height]; auto; try lia.
      rewrite Ex, Ey. cbn [rbind]. eexists. split; [reflexivity|]. cbn [height] in *. lia.
  - (* l is an And *)
    cbn [is_cnf] in Hl. apply andb_prop in Hl as [Hl Hl2]. apply andb_prop in Hl as [_ Hl1].
    cbn [height] in Hk, Hn |- *. destruct n as [|n]; [lia|]. cbn [to_cnf].
    destruct (IH l1 r) with (n := n) (b := false) as (x & Ex & Hx); auto; try lia.
    destruct (IH l2 r) with (n := n) (b := false) as (y & Ey & Hy); auto; try lia.
    rewrite Ex, Ey. cbn [rbind]. eexists. split; [reflexivity|]. cbn [height] in *. lia.
Qed.

(** height of the CNF and fuel that suffices *)
Fixpoint cnf_height (t : cf) : nat :=
  match t with
  | CBot _ => 1
  | CVar _ _ => 1
  | CAnd _ l r => S (Nat.max (cnf_height l) (cnf_height r))
  | COr _ l r => cnf_height l + cnf_height r
  end.

Fixpoint cnf_fuel (t : cf) : nat :=
  match t with
  | CBot _ => 1
  | CVar _ _ => 1
  | CAnd _ l r => S (Nat.max (cnf_fuel l) (cnf_fuel r))
  | COr _ l r => S (Nat.max (Nat.max (cnf_fuel l) (cnf_fuel r)) (2 * (cnf_height l + cnf_height r)))
  end.

Lemma to_cnf_terminates : forall t, is_nnf t = true ->
  exists t', to_cnf (cnf_fuel t) t = Ok t' /\ height t' <= cnf_height t.
Proof.
  induction t as [b|b i|b l IHl r IHr|b l IHl r IHr]; intros H; try discriminate.
  - eexists. split; [reflexivity|]. cbn; lia.
  - cbn [is_nnf] in H. apply andb_prop in H as [H Hr]. apply andb_prop in H as [_ Hl].
    destruct (IHl Hl) as (l' & El & Hhl). destruct (IHr Hr) as (r' & Er & Hhr).
    cbn [cnf_fuel cnf_height].
    set (n := Nat.max (Nat.max (cnf_fuel l) (cnf_fuel r)) (2 * (cnf_height l + cnf_height r))).
    cbn [to_cnf].
    rewrite (to_cnf_mono _ _ _ El n) by (unfold n; lia).
    rewrite (to_cnf_mono _ _ _ Er n) by (unfold n; lia). cbn [rbind].
    pose proof (proj2 (to_cnf_sound (fun _ => false) _ _ _ El Hl)) as Cl.
    pose proof (proj2 (to_cnf_sound (fun _ => false) _ _ _ Er Hr)) as Cr.
    destruct (distribute_terminates (height l' + height r') l' r' (le_n _) Cl Cr (S n) false) as (t' & Et & Ht).
    { unfold n. lia. }
    cbn [to_cnf] in Et.
    rewrite (to_cnf_id l' Cl n) in Et by (unfold n; lia).
    rewrite (to_cnf_id r' Cr n) in Et by (unfold n; lia). cbn [rbind] in Et.
    exists t'. split; [exact Et|lia].
  - cbn [is_nnf] in H. apply andb_prop in H as [H Hr]. apply andb_prop in H as [_ Hl].
    destruct (IHl Hl) as (l' & El & Hhl). destruct (IHr Hr) as (r' & Er & Hhr).
    cbn [cnf_fuel cnf_height to_cnf].
    rewrite (to_cnf_mono _ _ _ El (Nat.max (cnf_fuel l) (cnf_fuel r))) by lia.
    rewrite (to_cnf_mono _ _ _ Er (Nat.max (cnf_fuel l) (cnf_fuel r))) by lia.
    cbn [rbind]. eexists. split; [reflexivity|]. cbn [height]. lia.
Qed.

(* ------------------------------------------------------------------------------------------ *)
(** * the resolution loop: at most 2^|U| distinct clauses over the literal universe U *)

Local Open Scope Z_scope.

Fixpoint sublists (u : list Z) : list (list Z) :=
  match u with
  | [] => [[]]
  | x :: t => map (cons x) (sublists t) ++ sublists t
  end.

Lemma sublists_nil : forall u, In [] (sublists u).
Proof. induction u as [|x t IH]; cbn; auto. apply in_app_iff. auto. Qed.

Lemma ssorted_head_lt : forall x t, ssorted (x :: t) -> forall y, In y t -> x < y.
Proof.
  intros x t; revert x; induction t as [|a t IH]; intros x H y Hy; [destruct Hy|].
  cbn in H. destruct H as [Hxa Ht]. destruct Hy as [<-|Hy]; auto.
  assert (a < y) by (apply IH; auto). lia.
Qed.

Lemma ssorted_tail : forall x t, ssorted (x :: t) -> ssorted t.
Proof. intros x t H. cbn in H. tauto. Qed.

Lemma sorted_in_sublists : forall u c, ssorted u -> ssorted c -> incl c u -> In c (sublists u).
Proof.
  induction u as [|x u IH]; intros c Hu Hc Hin.
  - destruct c as [|y c]; [cbn; auto|]. exfalso. exact (Hin y (or_introl eq_refl)).
  - destruct c as [|y c]; [apply sublists_nil|].
    cbn [sublists]. apply in_app_iff.
    pose proof (ssorted_head_lt _ _ Hc) as Hyc. pose proof (ssorted_head_lt _ _ Hu) as Hxu.
    destruct (Z.eq_dec y x) as [->|Hne].
    + left. apply in_map. apply IH; [eapply ssorted_tail; eauto|eapply ssorted_tail; eauto|].
      intros z Hz. specialize (Hyc z Hz). destruct (Hin z (or_intror Hz)) as [E|Hzu]; auto. lia.
    + right. apply IH; [eapply ssorted_tail; eauto|auto|].
      assert (Hxy : x < y).
      { destruct (Hin y (or_introl eq_refl)) as [E|Hyu]; [congruence|auto]. }
      intros z Hz. destruct (Hin z Hz) as [E|Hzu]; auto. exfalso.
      destruct Hz as [E'|Hz]; [lia|]. specialize (Hyc z Hz). lia.
Qed.

Lemma filter_sorted : forall f l, ssorted l -> ssorted (filter f l).
Proof.
  intros f l; induction l as [|a t IH]; intros H; [exact I|].
  pose proof (ssorted_head_lt _ _ H) as Hlt. pose proof (ssorted_tail _ _ H) as Ht.
  cbn [filter]. destruct (f a); [|auto].
  specialize (IH Ht). destruct (filter f t) as [|b t'] eqn:E; cbn; auto.
  split; auto. apply Hlt. assert (In b (filter f t)) by (rewrite E; cbn; auto).
  apply filter_In in H0. tauto.
Qed.

Lemma zunion_sorted : forall a b, ssorted b -> ssorted (zunion a b).
Proof. intros a b H; induction a as [|x a IH]; cbn; auto. apply zinsert_sorted; exact IH. Qed.

Lemma resolvent_sorted : forall c1 c2 r rs, resolvable c1 c2 = Some (r, rs) -> ssorted c2 -> ssorted rs.
Proof.
  intros c1 c2 r rs H H2. unfold resolvable in H.
  destruct (common c1 c2) as [|a [|b t]]; try discriminate. inversion H; subst.
  apply zunion_sorted. apply filter_sorted. exact H2.
Qed.

Local Open Scope nat_scope.

(** clauses of the loop live in [sublists u] *)
Definition within (u : list Z) (l : list (list Z)) : Prop := forall c, In c l -> ssorted c /\ incl c u.

Lemma within_length : forall u l, ssorted u -> within u l -> NoDup l -> length l <= length (sublists u).
Proof.
  intros u l Hu Hw Hnd. apply NoDup_incl_length; auto.
  intros c Hc. destruct (Hw c Hc). apply sorted_in_sublists; auto.
Qed.

Lemma res_loop_terminates : forall (u : list Z) (N : nat), ssorted u -> N = length (sublists u) ->
  forall fuel l h i cl1 j,
  nth_error l i = Some cl1 -> NoDup l -> (forall c, hint_mem c h = true <-> In c l) ->
  j <= i -> within u l ->
  (N - i) * (N + 1) - j < fuel ->
  res_loop true fuel l h i cl1 j <> Fuel.
Proof.
  intros u N Hu HN fuel; induction fuel as [|fuel IH]; intros l h i cl1 j Hcl1 Hnd Hkeys Hji Hw Hf; [lia|].
  pose proof (within_length u l Hu Hw Hnd) as HlN. rewrite <- HN in HlN.
  pose proof (nth_error_lt _ _ _ _ Hcl1) as Hil.
  cbn [res_loop].
  assert (Hnext : match nth_error l (S i) with
                  | Some c => res_loop true fuel l h (S i) c 0
                  | None => Ok (false, l, h)
                  end <> Fuel).
  { destruct (nth_error l (S i)) as [c|] eqn:En; [|discriminate].
    pose proof (nth_error_lt _ _ _ _ En) as HSi.
    apply IH; auto; try lia.
    assert ((N - S i) * (N + 1) + (N + 1) = (N - i) * (N + 1)) by nia. nia. }
  destruct (nth_error l j) as [cl2|] eqn:Ej; [|exact Hnext].
  destruct (clause_eqb cl2 cl1) eqn:Eeq; [exact Hnext|].
  assert (Hjne : j <> i).
  { intro; subst. rewrite Hcl1 in Ej. inversion Ej; subst. rewrite clause_eqb_refl in Eeq. discriminate. }
  assert (Hstep : forall l2 h2, nth_error l2 i = Some cl1 -> NoDup l2 ->
                    (forall c, hint_mem c h2 = true <-> In c l2) -> within u l2 ->
                    res_loop true fuel l2 h2 i cl1 (S j) <> Fuel).
  { intros l2 h2 A B C D. apply IH; auto; try lia.
    assert (i < N) by lia. assert ((N - i) * (N + 1) >= N + 1) by nia. lia. }
  destruct (resolvable cl1 cl2) as [[r rs]|] eqn:Er; [|apply Hstep; auto].
  destruct (hint_mem rs h) eqn:Em; [apply Hstep; auto|].
  rewrite andb_false_r.
  destruct rs as [|x rs']; [discriminate|].
  assert (Hnotin : ~ In (x :: rs') l).
  { intro Hc. apply Hkeys in Hc. congruence. }
  apply Hstep.
  - rewrite nth_error_snoc_lt; auto.
  - apply NoDup_snoc; auto.
  - intros c. rewrite hint_mem_app, Hkeys, in_app_iff. cbn. intuition.
  - intros c Hc. apply in_app_iff in Hc as [Hc|[<-|[]]]; [auto|].
    destruct (Hw cl1 (nth_error_In _ _ Hcl1)) as [S1 I1].
    destruct (Hw cl2 (nth_error_In _ _ Ej)) as [S2 I2].
    split; [eapply resolvent_sorted; eauto|].
    pose proof (resolvable_some _ _ _ _ Er) as (_ & _ & Hx & _).
    intros y Hy. apply (proj1 (Hx y)) in Hy as [[Hy _]|[Hy _]]; auto.
Qed.

(** fuel that suffices for start_resolution on a clause list *)
Definition res_fuel (cs : list (list Z)) : nat :=
  let N := length (sublists (mkset (concat cs))) in S (N * (N + 1)).

Lemma start_resolution_terminates : forall cs fuel,
  res_fuel cs <= fuel -> start_resolution true fuel cs <> Fuel.
Proof.
  intros cs fuel Hf. unfold start_resolution.
  destruct cs as [|c0 cs']; [discriminate|].
  set (cs := c0 :: cs') in *.
  destruct (init_hint (map mkset cs) 0%N []) as [|e h0'] eqn:Eh; [discriminate|].
  set (h0 := e :: h0') in *.
  set (u := mkset (concat cs)).
  assert (Hkeys : forall k, In k (map fst h0) -> In k (map mkset cs)).
  { intros k Hk. rewrite <- Eh in Hk. apply init_hint_keys in Hk as [[]|[Hk _]]. exact Hk. }
  assert (Hw : within u (map fst h0)).
  { intros k Hk. apply Hkeys in Hk. apply in_map_iff in Hk as (c & <- & Hc). split; [apply mkset_sorted|].
    intros y Hy. apply (proj1 (mkset_in y c)) in Hy. apply mkset_in. apply in_concat. exists c. auto. }
  assert (Hnd0 : NoDup (map fst h0)).
  { rewrite <- Eh. apply init_hint_nodup. constructor. }
  destruct (resolution_algorithm true fuel h0 (map fst h0)) as [[[b l1] h1]| |] eqn:Er; cbn [rbind]; try discriminate.
  - destruct b; discriminate.
  - exfalso. unfold resolution_algorithm in Er. unfold h0 in Er at 2. cbn [map] in Er.
    revert Er. apply (res_loop_terminates u _ (mkset_sorted _) eq_refl); auto.
    + intros c. apply hint_mem_in.
    + unfold res_fuel in Hf. fold cs in Hf. fold u in Hf. lia.
Qed.

(* ------------------------------------------------------------------------------------------ *)
(** * decide *)

(** a (computable) amount of fuel that suffices for [decide] on [f] *)
Definition enough_fuel (f : form) : nat :=
  match to_conj_form (FNeg f) with
  | CBot _ => 0
  | c =>
      match propag_neg c with
      | None => 0
      | Some n =>
          Nat.max (cnf_fuel n)
            match to_cnf (cnf_fuel n) n with
            | Ok k => match to_clauses k with Some cls => res_fuel cls | None => 0 end
            | _ => 0
            end
      end
  end.

Lemma decide_tail_terminates : forall fuel c n,
  propag_neg c = Some n -> cnf_fuel n <= fuel ->
  (forall k cls, to_cnf (cnf_fuel n) n = Ok k -> to_clauses k = Some cls -> res_fuel cls <= fuel) ->
  decide_tail true fuel c <> Fuel.
Proof.
  intros fuel c n En Hf1 Hf2. unfold decide_tail. rewrite En. cbn [of_option rbind].
  destruct (propag_neg_sound (fun _ => false) _ _ En) as [_ Hnnf].
  destruct (to_cnf_terminates n Hnnf) as (k & Ek & _).
  rewrite (to_cnf_mono _ _ _ Ek fuel Hf1). cbn [rbind].
  destruct (to_clauses k) as [cls|] eqn:Ecl; cbn [of_option rbind]; [|discriminate].
  specialize (Hf2 k cls Ek Ecl).
  destruct (start_resolution true fuel cls) as [[[vd l] h]| |] eqn:Ex; cbn [rbind fst]; try discriminate.
  - destruct vd as [[|]|]; discriminate.
  - exfalso. exact (start_resolution_terminates cls fuel Hf2 Ex).
Qed.

Theorem decide_terminates : forall f fuel, enough_fuel f <= fuel -> decide true fuel f <> Fuel.
Proof.
  intros f fuel Hf. unfold decide. unfold enough_fuel in Hf.
  assert (Htail : forall c, to_conj_form (FNeg f) = c ->
            match propag_neg c with
            | None => 0
            | Some n => Nat.max (cnf_fuel n)
                match to_cnf (cnf_fuel n) n with
                | Ok k => match to_clauses k with Some cls => res_fuel cls | None => 0 end
                | _ => 0
                end
            end <= fuel -> decide_tail true fuel c <> Fuel).
  { intros c Ec Hc. destruct (propag_neg c) as [n|] eqn:En.
    - apply (decide_tail_terminates fuel c n En); [lia|].
      intros k cls Ek Ecl. rewrite Ek, Ecl in Hc. lia.
    - unfold decide_tail. rewrite En. discriminate. }
  destruct (to_conj_form (FNeg f)) as [[|]|n i|n a b|n a b] eqn:E; try discriminate; apply Htail; auto.
Qed.

(** unconditional form: for every formula there is fuel for which the verdict is delivered and correct *)
Theorem decide_total_correct : forall f,
  exists r, decide true (enough_fuel f) f = Ok r /\
    (r = Some true <-> tautology f) /\ (r = Some false <-> unsat f) /\ (r = None <-> contingent f).
Proof.
  intros f.
  destruct (decide true (enough_fuel f) f) as [r| |] eqn:E.
  - exists r. split; auto. eapply decide_correct; eauto.
  - exfalso. exact (decide_no_err _ _ _ E).
  - exfalso. exact (decide_terminates f _ (le_n _) E).
Qed.

(** C09 — soundness of the resolution loop and of the verdicts (for BOTH loop variants, any fuel). *)
From Coq Require Import ZArith NArith List Bool Lia.
From Pi2 Require Import Taut.Model Taut.Stages Taut.Sets.
Import ListNotations.
Local Open Scope Z_scope.

Definition sat_all (v : N -> bool) (l : list (list Z)) : Prop :=
  forall c, In c l -> clause_tt v c = true.

Definition all_nz (l : list (list Z)) : Prop := Forall (Forall nz) l.

(* ------------------------------------------------------------------------------------------ *)
(** * the hint dictionary *)

Lemma hint_mem_in : forall c h, hint_mem c h = true <-> In c (map fst h).
Proof.
  intros c h; induction h as [|[k s] t IH]; cbn; [intuition discriminate|].
  rewrite orb_true_iff, IH, clause_eqb_eq. tauto.
Qed.

Lemma hint_mem_app : forall c h k s, hint_mem c (h ++ [(k, s)]) = true <-> hint_mem c h = true \/ c = k.
Proof.
  intros. rewrite !hint_mem_in, map_app, in_app_iff. cbn. intuition.
Qed.

Lemma hint_set_keys : forall c s h k, In k (map fst (hint_set c s h)) <-> In k (map fst h) \/ k = c.
Proof.
  intros c s h k; induction h as [|[k0 s0] t IH]; cbn.
  - intuition.
  - destruct (clause_eqb k0 c) eqn:E; cbn.
    + apply clause_eqb_eq in E. subst. intuition.
    + rewrite IH. intuition.
Qed.

Lemma hint_set_nonempty : forall c s h, hint_set c s h <> [].
Proof. intros c s [|[k0 s0] t]; cbn; [discriminate|]. destruct (clause_eqb k0 c); discriminate. Qed.

Lemma hint_set_nodup : forall c s h, NoDup (map fst h) -> NoDup (map fst (hint_set c s h)).
Proof.
  intros c s h; induction h as [|[k0 s0] t IH]; cbn; intros H.
  - constructor; [intros []|constructor].
  - destruct (clause_eqb k0 c) eqn:E; cbn; [exact H|].
    inversion H; subst. constructor; [|auto].
    intro Hin. apply hint_set_keys in Hin as [Hin|Hin]; [contradiction|].
    subst. rewrite clause_eqb_refl in E. discriminate.
Qed.

Lemma init_hint_keys : forall rl i h k,
  In k (map fst (init_hint rl i h)) <-> In k (map fst h) \/ (In k rl /\ is_trivial k = false).
Proof.
  induction rl as [|c t IH]; intros i h k; cbn [init_hint].
  - cbn. intuition.
  - rewrite IH. destruct (is_trivial c) eqn:E.
    + cbn. split; [intuition|]. intros [H|[[H|H] H']]; auto. subst. congruence.
    + rewrite hint_set_keys. cbn. split.
      * intros [[H|H]|[H H']]; auto. subst. auto.
      * intros [H|[[H|H] H']]; auto.
Qed.

Lemma init_hint_nodup : forall rl i h, NoDup (map fst h) -> NoDup (map fst (init_hint rl i h)).
Proof.
  induction rl as [|c t IH]; intros i h H; cbn [init_hint]; auto.
  apply IH. destruct (is_trivial c); auto. apply hint_set_nodup; auto.
Qed.

Lemma init_hint_nil : forall rl i h, init_hint rl i h = [] -> h = [] /\ forall c, In c rl -> is_trivial c = true.
Proof.
  induction rl as [|c t IH]; intros i h H; cbn [init_hint] in H.
  - split; auto; intros c [].
  - apply IH in H as [H1 H2]. destruct (is_trivial c) eqn:E.
    + split; auto. intros c' [<-|Hc]; auto.
    + exfalso. exact (hint_set_nonempty _ _ _ H1).
Qed.

(* ------------------------------------------------------------------------------------------ *)
(** * soundness of the loop: it only ever adds consequences; `True` means the empty clause was derived *)

Lemma sat_all_app : forall v l c, sat_all v l -> clause_tt v c = true -> sat_all v (l ++ [c]).
Proof. intros v l c H Hc c' Hin. apply in_app_iff in Hin as [Hin|[<-|[]]]; auto. Qed.

Lemma res_loop_sound : forall ns (l0 : list (list Z)) fuel l h i cl1 j b l' h',
  res_loop ns fuel l h i cl1 j = Ok (b, l', h') ->
  all_nz l -> In cl1 l ->
  (forall v, sat_all v l0 -> sat_all v l) ->
  (b = true -> forall v, ~ sat_all v l0) /\ (forall v, sat_all v l0 -> sat_all v l').
Proof.
  intros ns l0 fuel; induction fuel as [|fuel IH]; intros l h i cl1 j b l' h' H Hnz Hin Hent; [discriminate|].
  cbn [res_loop] in H.
  assert (Hnext : match nth_error l (S i) with
                  | None => Ok (false, l, h)
                  | Some c => res_loop ns fuel l h (S i) c O
                  end = Ok (b, l', h') ->
                  (b = true -> forall v, ~ sat_all v l0) /\ (forall v, sat_all v l0 -> sat_all v l')).
  { intros Hn. destruct (nth_error l (S i)) as [c|] eqn:En.
    - eapply IH; eauto. eapply nth_error_In; eauto.
    - inversion Hn; subst. split; [discriminate|auto]. }
  destruct (nth_error l j) as [cl2|] eqn:Ej; [|auto].
  destruct (clause_eqb cl2 cl1) eqn:Eeq; [auto|].
  assert (Hin2 : In cl2 l) by (eapply nth_error_In; eauto).
  destruct (resolvable cl1 cl2) as [[r rs]|] eqn:Er; [|eapply IH; eauto].
  destruct (hint_mem rs h) eqn:Em; [eapply IH; eauto|].
  assert (Hz2 : Forall nz cl2) by (unfold all_nz in Hnz; rewrite Forall_forall in Hnz; auto).
  assert (Hz1 : Forall nz cl1) by (unfold all_nz in Hnz; rewrite Forall_forall in Hnz; auto).
  assert (Hrs : forall v, sat_all v l0 -> clause_tt v rs = true).
  { intros v Hv. specialize (Hent v Hv). eapply resolvable_sound; eauto. }
  destruct rs as [|x rs'].
  - inversion H; subst. split; [|auto].
    intros _ v Hv. specialize (Hrs v Hv). cbn in Hrs. discriminate.
  - eapply IH; eauto.
    + unfold all_nz. apply Forall_app. split; auto. constructor; [|constructor].
      pose proof (resolvable_some _ _ _ _ Er) as (_ & _ & Hx & _).
      rewrite Forall_forall in Hz1, Hz2. apply Forall_forall. intros y Hy.
      apply (proj1 (Hx y)) in Hy as [[Hy _]|[Hy _]]; auto.
    + apply in_app_iff. left. destruct (r <? 0), ns; cbn; auto.
    + intros v Hv. apply sat_all_app; auto.
Qed.

Lemma resolution_algorithm_sound : forall ns fuel h l b l' h',
  resolution_algorithm ns fuel h l = Ok (b, l', h') ->
  all_nz l ->
  (b = true -> forall v, ~ sat_all v l) /\ (forall v, sat_all v l -> sat_all v l').
Proof.
  intros ns fuel h l b l' h' H Hnz. unfold resolution_algorithm in H.
  destruct l as [|c t].
  - inversion H; subst. split; [discriminate|auto].
  - eapply (res_loop_sound ns (c :: t)); eauto. cbn; auto.
Qed.

(* ------------------------------------------------------------------------------------------ *)
(** * start_resolution_algorithm *)

Definition clauses_nz (cs : list (list Z)) : Prop := Forall (Forall nz) cs.

Lemma clauses_tt_true : forall v cs, clauses_tt v cs = true <-> forall c, In c cs -> clause_tt v c = true.
Proof. intros; unfold clauses_tt; apply forallb_forall. Qed.

Lemma mkset_nz : forall c, Forall nz c -> Forall nz (mkset c).
Proof.
  intros c H. rewrite Forall_forall in *. intros x Hx. apply H. apply (proj1 (mkset_in x c)). exact Hx.
Qed.

Lemma start_resolution_sound : forall ns fuel cs r l h,
  start_resolution ns fuel cs = Ok (r, l, h) -> clauses_nz cs ->
  (r = Some true -> forall v, clauses_tt v cs = true) /\
  (r = Some false -> forall v, clauses_tt v cs = false).
Proof.
  intros ns fuel cs r l h H Hnz. unfold start_resolution in H.
  destruct cs as [|c0 cs'].
  { inversion H; subst. split; [reflexivity|discriminate]. }
  set (cs := c0 :: cs') in *.
  destruct (init_hint (map mkset cs) 0%N []) as [|e h0'] eqn:Eh.
  - (* every clause is trivial *)
    inversion H; subst. split; [|discriminate]. intros _ v.
    apply init_hint_nil in Eh as [_ Ht].
    apply clauses_tt_true. intros c Hc.
    rewrite <- clause_tt_mkset. apply trivial_valid.
    + apply mkset_nz. unfold clauses_nz in Hnz. rewrite Forall_forall in Hnz. auto.
    + apply Ht. apply in_map. exact Hc.
  - set (h0 := e :: h0') in *.
    destruct (resolution_algorithm ns fuel h0 (map fst h0)) as [[[b l1] h1]| |] eqn:Er; cbn [rbind] in H; try discriminate.
    assert (Hkeys : forall k, In k (map fst h0) -> In k (map mkset cs)).
    { intros k Hk. rewrite <- Eh in Hk. apply init_hint_keys in Hk as [[]|[Hk _]]. exact Hk. }
    assert (Hnz0 : all_nz (map fst h0)).
    { unfold all_nz. apply Forall_forall. intros k Hk. apply Hkeys in Hk. apply in_map_iff in Hk as (c & <- & Hc).
      apply mkset_nz. unfold clauses_nz in Hnz. rewrite Forall_forall in Hnz. auto. }
    destruct (resolution_algorithm_sound _ _ _ _ _ _ _ Er Hnz0) as [Hb _].
    destruct b; inversion H; subst; split; try discriminate.
    intros _ v. destruct (clauses_tt v cs) eqn:E; auto. exfalso.
    apply (Hb eq_refl v). intros k Hk. apply Hkeys in Hk. apply in_map_iff in Hk as (c & <- & Hc).
    rewrite clause_tt_mkset. rewrite clauses_tt_true in E. auto.
Qed.

(* ------------------------------------------------------------------------------------------ *)
(** * the pipeline after to_conj_form *)

Lemma clauses_ok_nz : forall cs, clauses_ok cs -> clauses_nz cs.
Proof.
  intros cs [_ H]. unfold clauses_nz. rewrite Forall_forall in *. intros c Hc. destruct (H c Hc) as [_ Hz]. exact Hz.
Qed.

(** what the stages before resolution compute on an Or/Var tree *)
Lemma pipeline_stages : forall ns fuel c r,
  decide_tail ns fuel c = Ok r ->
  exists n k cls x,
    propag_neg c = Some n /\ to_cnf fuel n = Ok k /\ to_clauses k = Some cls /\
    start_resolution ns fuel cls = Ok x /\
    r = match fst (fst x) with None => None | Some true => Some false | Some false => Some true end /\
    clauses_ok cls /\ forall v, clauses_tt v cls = cf_tt v c.
Proof.
  intros ns fuel c r H. unfold decide_tail in H.
  destruct (propag_neg c) as [n|] eqn:En; cbn [of_option rbind] in H; [|discriminate].
  destruct (to_cnf fuel n) as [k| |] eqn:Ek; cbn [rbind] in H; try discriminate.
  pose proof (propag_neg_sound (fun _ => false) _ _ En) as [_ Hnnf].
  pose proof (to_cnf_sound (fun _ => false) _ _ _ Ek Hnnf) as [_ Hcnf].
  destruct (to_clauses_sound (fun _ => false) k Hcnf) as (cls & Ecl & Hok & _).
  rewrite Ecl in H. cbn [of_option rbind] in H.
  destruct (start_resolution ns fuel cls) as [x| |] eqn:Ex; cbn [rbind] in H; try discriminate.
  exists n, k, cls, x. repeat split; auto.
  - destruct (fst (fst x)) as [[|]|]; inversion H; reflexivity.
  - destruct Hok; auto.
  - destruct Hok; auto.
  - intros v.
    destruct (to_clauses_sound v k Hcnf) as (cls' & Ecl' & _ & Htt). rewrite Ecl in Ecl'. inversion Ecl'; subst cls'.
    rewrite Htt.
    destruct (to_cnf_sound v _ _ _ Ek Hnnf) as [-> _].
    destruct (propag_neg_sound v _ _ En) as [-> _]. reflexivity.
Qed.

Lemma decide_tail_sound : forall ns fuel c r,
  decide_tail ns fuel c = Ok r ->
  (r = Some true -> forall v, cf_tt v c = false) /\
  (r = Some false -> forall v, cf_tt v c = true).
Proof.
  intros ns fuel c r H.
  destruct (pipeline_stages _ _ _ _ H) as (n & k & cls & [[vd l] h] & _ & _ & _ & Ex & Er & Hok & Htt).
  destruct (start_resolution_sound _ _ _ _ _ _ Ex (clauses_ok_nz _ Hok)) as [HT HF].
  cbn [fst] in Er. subst r.
  split; intros E v; rewrite <- Htt.
  - destruct vd as [[|]|]; try discriminate. apply HF; reflexivity.
  - destruct vd as [[|]|]; try discriminate. apply HT; reflexivity.
Qed.

(** soundness of the verdicts of prove_tautology: for every formula, every fuel, both loop variants *)
Theorem decide_sound : forall ns fuel f r,
  decide ns fuel f = Ok r ->
  (r = Some true -> tautology f) /\ (r = Some false -> unsat f).
Proof.
  intros ns fuel f r H. unfold decide in H.
  assert (Hneg : forall v, cf_tt v (to_conj_form (FNeg f)) = negb (tt v f)).
  { intros v. rewrite to_conj_form_sound. reflexivity. }
  assert (Htail : decide_tail ns fuel (to_conj_form (FNeg f)) = Ok r ->
                  (r = Some true -> tautology f) /\ (r = Some false -> unsat f)).
  { intros Ht. destruct (decide_tail_sound _ _ _ _ Ht) as [HT HF]. split; intros E v.
    - specialize (HT E v). rewrite Hneg in HT. destruct (tt v f); auto; discriminate.
    - specialize (HF E v). rewrite Hneg in HF. destruct (tt v f); auto; discriminate. }
  destruct (to_conj_form (FNeg f)) as [[|]|n i|n a b|n a b] eqn:E; auto.
  - inversion H; subst. split; [discriminate|]. intros _ v. specialize (Hneg v). cbn in Hneg.
    destruct (tt v f); auto; discriminate.
  - inversion H; subst. split; [|discriminate]. intros _ v. specialize (Hneg v). cbn in Hneg.
    destruct (tt v f); auto; discriminate.
Qed.

(** C09 — proof layer, schema level (definitions only).

    A ProofThunk is modelled by its conclusion [ProofThunk.conc] (a fully expanded pattern, [core]);
    every library rule of proofs/propositional.py used by to_conj_form / propag_neg is modelled by its
    docstring schema as a PARTIAL function on conclusions ([None] when the premises do not have the
    shape the schema requires — in Python an assert / extract would fail).  That each rule really
    proves its schema is property C10; here the question is whether the stages COMPOSE the rules so
    that the advertised conclusions `f -> stage f` / `stage f -> f` come out literally. *)
From Coq Require Import ZArith NArith List Bool.
From Pi2 Require Import Taut.Model.
Import ListNotations.

Fixpoint core_eqb (a b : core) : bool :=
  match a, b with
  | KBot, KBot => true
  | KVar n, KVar m => N.eqb n m
  | KImp a1 a2, KImp b1 b2 => core_eqb a1 b1 && core_eqb a2 b2
  | _, _ => false
  end.

Definition cf_core (c : cf) : core := expand (cf_form c).
Definition nn (p : core) : core := k_neg (k_neg p).

(** schemas *)
Definition s_imp_refl (p : core) : core := KImp p p.
Definition s_top_intro : core := KImp KBot KBot.
Definition s_imp_provable (p q : core) : core := KImp p q.             (* q |- p -> q *)

Definition dest_neg (k : core) : option core :=
  match k with KImp a KBot => Some a | _ => None end.
Definition dest_and (k : core) : option (core * core) :=
  match k with KImp (KImp a (KImp b KBot)) KBot => Some (a, b) | _ => None end.

Definition s_imp_transitivity (h1 h2 : core) : option core :=           (* p->q, q->r |- p->r *)
  match h1, h2 with
  | KImp p q, KImp q' r => if core_eqb q q' then Some (KImp p r) else None
  | _, _ => None
  end.
Definition s_imim (h1 h2 : core) : option core :=                        (* a->b, c->d |- (b->c)->(a->d) *)
  match h1, h2 with KImp a b, KImp c d => Some (KImp (KImp b c) (KImp a d)) | _, _ => None end.
Definition s_imim_nnr (h1 h2 : core) : option core :=                    (* |- (b->c)->(~~a->d) *)
  match h1, h2 with KImp a b, KImp c d => Some (KImp (KImp b c) (KImp (nn a) d)) | _, _ => None end.
Definition s_imim_nnl (h1 h2 : core) : option core :=                    (* |- (~~b->c)->(a->d) *)
  match h1, h2 with KImp a b, KImp c d => Some (KImp (KImp (nn b) c) (KImp a d)) | _, _ => None end.
Definition s_imim_or (h1 h2 : core) : option core :=                     (* |- a\/c -> b\/d *)
  match h1, h2 with KImp a b, KImp c d => Some (KImp (k_or a c) (k_or b d)) | _, _ => None end.
Definition s_imim_and (h1 h2 : core) : option core :=                    (* |- a/\c -> b/\d *)
  match h1, h2 with KImp a b, KImp c d => Some (KImp (k_and a c) (k_and b d)) | _, _ => None end.
Definition s_and_not_r_intro (p nq : core) : option core :=              (* p, ~q |- ~(p->q) *)
  match dest_neg nq with Some q => Some (k_neg (KImp p q)) | None => None end.
Definition s_absurd_i (np q : core) : option core :=                     (* ~p |- p->q *)
  match dest_neg np with Some p => Some (KImp p q) | None => None end.
Definition s_absurd2 (pq r : core) : option core :=                      (* p->q |- ~q -> p -> r *)
  match pq with KImp p q => Some (KImp (k_neg q) (KImp p r)) | _ => None end.
Definition s_absurd3 (npq nr : core) : option core :=                    (* ~p->q, ~r |- (q->r)->p *)
  match npq, nr with KImp (KImp p KBot) q, KImp r KBot => Some (KImp (KImp q r) p) | _, _ => None end.
Definition s_absurd4 (pnq r : core) : option core :=                     (* p->~q |- q->p->r *)
  match pnq with KImp p (KImp q KBot) => Some (KImp q (KImp p r)) | _ => None end.
Definition s_helper1 (p qr : core) : option core :=                      (* p, q->r |- (p->q)->r *)
  match qr with KImp q r => Some (KImp (KImp p q) r) | _ => None end.
Definition s_a1d (pq r : core) : option core :=                          (* p->q |- p->r->q *)
  match pq with KImp p q => Some (KImp p (KImp r q)) | _ => None end.
Definition s_dni_l_i (pq : core) : option core :=                        (* p->q |- ~~p->q *)
  match pq with KImp p q => Some (KImp (nn p) q) | _ => None end.
Definition s_dni_r_i (pq : core) : option core :=                        (* p->q |- p->~~q *)
  match pq with KImp p q => Some (KImp p (nn q)) | _ => None end.
Definition s_con3_i (pq : core) : option core :=                         (* p->q |- ~q->~p *)
  match pq with KImp p q => Some (KImp (k_neg q) (k_neg p)) | _ => None end.
Definition s_dne_r (p q : core) : core := KImp (KImp p (nn q)) (KImp p q).   (* (p->~~q)->(p->q) *)
Definition s_dni_r (p q : core) : core := KImp (KImp p q) (KImp p (nn q)).   (* (p->q)->(p->~~q) *)

Definition obind {A B} (x : option A) (f : A -> option B) : option B :=
  match x with Some a => f a | None => None end.
Notation "'let?' x := e 'in' k" := (obind e (fun x => k)) (at level 200, x pattern, e at level 100, k at level 200).

Definition cf_flag (c : cf) : bool :=
  match c with CBot n | CVar n _ | COr n _ _ | CAnd n _ _ => n end.

(** to_conj_form with the conclusions of the two returned proofs (second is None for constants) *)
Fixpoint tcfp (p : core) : option (cf * core * option core) :=
  match p with
  | KBot => Some (CBot false, s_top_intro, None)
  | KVar n => Some (CVar false n, s_imp_refl p, Some (s_imp_refl p))
  | KImp p0 p1 =>
      if is_top p then Some (CBot true, s_top_intro, None) else
      let? (c1, l1, r1) := tcfp p1 in
      match c1 with
      | CBot true => Some (CBot true, s_imp_provable p0 l1, None)
      | CBot false =>
          let? (c0, l0, r0) := tcfp p0 in
          match c0 with
          | CBot true => let? pf := s_and_not_r_intro l0 l1 in Some (CBot false, pf, None)
          | CBot false => let? pf := s_absurd_i l0 p1 in Some (CBot true, pf, None)
          | _ =>
              let? r0' := r0 in
              if cf_flag c0 then
                let? a := s_absurd3 r0' l1 in let? b := s_absurd4 l0 p1 in Some (toggle c0, a, Some b)
              else
                let? a := s_imim r0' l1 in let? b := s_absurd2 l0 p1 in Some (toggle c0, a, Some b)
          end
      | _ =>
          let? (c0, l0, r0) := tcfp p0 in
          match c0 with
          | CBot true =>
              let? r1' := r1 in
              let? a := s_helper1 l0 l1 in let? b := s_a1d r1' p0 in Some (c1, a, Some b)
          | CBot false => let? pf := s_absurd_i l0 p1 in Some (CBot true, pf, None)
          | _ =>
              let? r0' := r0 in let? r1' := r1 in
              if cf_flag c0 then
                let? a := s_imim r0' l1 in let? b := s_imim l0 r1' in Some (COr false (toggle c0) c1, a, Some b)
              else
                let? a := s_imim_nnr r0' l1 in let? b := s_imim_nnl l0 r1' in Some (COr false (toggle c0) c1, a, Some b)
          end
      end
  end.

(** propag_neg with the conclusions of its two proofs; [b] as in [pn] *)
Fixpoint pnp (b : bool) (t : cf) : option (cf * core * core) :=
  match t with
  | CVar n i =>
      let pat := cf_core (CVar (xorb b n) i) in
      Some (CVar (xorb b n) i, s_imp_refl pat, s_imp_refl pat)
  | COr n l r =>
      if xorb b n then
        let? (tl, l1, l2) := pnp true l in
        let? (tr, r1, r2) := pnp true r in
        (* `if not term.left.negated` after the toggle, i.e. the left child WAS negated *)
        let? l1' := (if cf_flag l then s_dni_l_i l1 else Some l1) in
        let? l2' := (if cf_flag l then s_dni_r_i l2 else Some l2) in
        let? ret1 := s_imim_and l1' r1 in
        let? ret2 := s_imim_and l2' r2 in
        (* `if term.right.negated` after the toggle, i.e. the right child was NOT negated *)
        if negb (cf_flag r) then
          match ret1, ret2 with
          | KImp pf1_l _, KImp _ pf2_r =>
              let? (a1, nb1) := dest_and pf1_l in
              let? b1 := dest_neg nb1 in
              let? c1 := s_con3_i (s_dne_r a1 b1) in
              let? ret1' := s_imp_transitivity c1 ret1 in
              let? (a2, nb2) := dest_and pf2_r in
              let? b2 := dest_neg nb2 in
              let? c2 := s_con3_i (s_dni_r a2 b2) in
              let? ret2' := s_imp_transitivity ret2 c2 in
              Some (CAnd false tl tr, ret1', ret2')
          | _, _ => None
          end
        else Some (CAnd false tl tr, ret1, ret2)
      else
        let? (tl, l1, l2) := pnp false l in
        let? (tr, r1, r2) := pnp false r in
        let? ret1 := s_imim_or l1 r1 in
        let? ret2 := s_imim_or l2 r2 in
        Some (COr false tl tr, ret1, ret2)
  | _ => None
  end.

(* ------------------------------------------------------------------------------------------ *)
(** * to_cnf with the conclusions of its two proofs *)

Definition dest_or (k : core) : option (core * core) :=
  match k with KImp (KImp a KBot) b => Some (a, b) | _ => None end.

(** imp_trans_match2(h1, or_distr_r()):  X -> (a/\b)\/r   |-   X -> (a\/r)/\(b\/r)
    (or_distr_r is instantiated by match_single of its antecedent against h1's consequent) *)
Definition s_m2_or_distr_r (h1 : core) : option core :=
  match h1 with
  | KImp x b0 =>
      let? (ab, r) := dest_or b0 in
      let? (a, b) := dest_and ab in
      Some (KImp x (k_and (k_or a r) (k_or b r)))
  | _ => None
  end.
(** imp_trans_match1(or_distr_r_rev(), h2):  (a/\b)\/r -> X   |-   (a\/r)/\(b\/r) -> X *)
Definition s_m1_or_distr_r_rev (h2 : core) : option core :=
  match h2 with
  | KImp b0 x =>
      let? (ab, r) := dest_or b0 in
      let? (a, b) := dest_and ab in
      Some (KImp (k_and (k_or a r) (k_or b r)) x)
  | _ => None
  end.
(** imp_trans_match2(h1, or_distr_l()):  X -> a\/(b/\c)   |-   X -> (a\/b)/\(a\/c) *)
Definition s_m2_or_distr_l (h1 : core) : option core :=
  match h1 with
  | KImp x b0 =>
      let? (a, bc) := dest_or b0 in
      let? (b, c) := dest_and bc in
      Some (KImp x (k_and (k_or a b) (k_or a c)))
  | _ => None
  end.
Definition s_m1_or_distr_l_rev (h2 : core) : option core :=
  match h2 with
  | KImp b0 x =>
      let? (a, bc) := dest_or b0 in
      let? (b, c) := dest_and bc in
      Some (KImp (k_and (k_or a b) (k_or a c)) x)
  | _ => None
  end.

Notation "'do?' x <- e ; k" := (rbind e (fun x => k)) (at level 200, x pattern, e at level 100, k at level 200).

Fixpoint to_cnf_p (fuel : nat) (t : cf) : res (cf * core * core) :=
  match fuel with
  | O => Fuel
  | S fuel =>
      match t with
      | CVar _ _ => let pat := cf_core t in Ok (t, s_imp_refl pat, s_imp_refl pat)
      | CAnd _ l r =>
          do? (tl, l1, l2) <- to_cnf_p fuel l;
          do? (tr, r1, r2) <- to_cnf_p fuel r;
          do? ret1 <- of_option (s_imim_and l1 r1);
          do? ret2 <- of_option (s_imim_and l2 r2);
          Ok (CAnd false tl tr, ret1, ret2)
      | COr _ l r =>
          do? (tl, l1, l2) <- to_cnf_p fuel l;
          do? (tr, r1, r2) <- to_cnf_p fuel r;
          do? ret1 <- of_option (s_imim_or l1 r1);
          do? ret2 <- of_option (s_imim_or l2 r2);
          match tl with
          | CAnd _ a b =>
              do? ret1' <- of_option (s_m2_or_distr_r ret1);
              do? ret2' <- of_option (s_m1_or_distr_r_rev ret2);
              do? (nt, p1, p2) <- to_cnf_p fuel (CAnd false (COr false a tr) (COr false b tr));
              do? ret1'' <- of_option (s_imp_transitivity ret1' p1);
              do? ret2'' <- of_option (s_imp_transitivity p2 ret2');
              Ok (nt, ret1'', ret2'')
          | _ =>
              match tr with
              | CAnd _ a b =>
                  do? ret1' <- of_option (s_m2_or_distr_l ret1);
                  do? ret2' <- of_option (s_m1_or_distr_l_rev ret2);
                  do? (nt, p1, p2) <- to_cnf_p fuel (CAnd false (COr false tl a) (COr false tl b));
                  do? ret1'' <- of_option (s_imp_transitivity ret1' p1);
                  do? ret2'' <- of_option (s_imp_transitivity p2 ret2');
                  Ok (nt, ret1'', ret2'')
              | _ => Ok (COr false tl tr, ret1, ret2)
              end
          end
      | CBot _ => Err
      end
  end.

(* ------------------------------------------------------------------------------------------ *)
(** * match_single / instantiate on expanded patterns, imp_trans_match1/2 *)

Fixpoint kassoc (i : N) (s : list (N * core)) : option core :=
  match s with
  | [] => None
  | (k, v) :: t => if N.eqb k i then Some v else kassoc i t
  end.

(** match_single(pattern, instance, extend): metavariables of [pat] are bound, everything else must agree *)
Fixpoint kmatch (pat inst : core) (s : list (N * core)) : option (list (N * core)) :=
  match pat with
  | KVar i =>
      match kassoc i s with
      | Some v => if core_eqb v inst then Some s else None
      | None => Some (s ++ [(i, inst)])
      end
  | KBot => match inst with KBot => Some s | _ => None end
  | KImp a b =>
      match inst with
      | KImp a' b' => match kmatch a a' s with Some s' => kmatch b b' s' | None => None end
      | _ => None
      end
  end.

(** Pattern.instantiate (simultaneous) *)
Fixpoint ksubst (s : list (N * core)) (p : core) : core :=
  match p with
  | KBot => KBot
  | KVar i => match kassoc i s with Some v => v | None => p end
  | KImp a b => KImp (ksubst s a) (ksubst s b)
  end.

(** imp_trans_match1(h1, h2): h1 is instantiated so that its consequent becomes h2's antecedent *)
Definition s_imp_trans_match1 (h1 h2 : core) : option core :=
  match h1, h2 with
  | KImp _ b, KImp c _ => let? s := kmatch b c [] in s_imp_transitivity (ksubst s h1) h2
  | _, _ => None
  end.
(** imp_trans_match2(h1, h2): h2 is instantiated so that its antecedent becomes h1's consequent *)
Definition s_imp_trans_match2 (h1 h2 : core) : option core :=
  match h1, h2 with
  | KImp _ b, KImp c _ => let? s := kmatch c b [] in s_imp_transitivity h1 (ksubst s h2)
  | _, _ => None
  end.

Definition kv (i : N) : core := KVar i.
Definition s_and_assoc_r : core := KImp (k_and (k_and (kv 0) (kv 1)) (kv 2)) (k_and (kv 0) (k_and (kv 1) (kv 2))).
Definition s_and_assoc_l : core := KImp (k_and (kv 0) (k_and (kv 1) (kv 2))) (k_and (k_and (kv 0) (kv 1)) (kv 2)).
Definition s_or_assoc_r : core := KImp (k_or (k_or (kv 0) (kv 1)) (kv 2)) (k_or (kv 0) (k_or (kv 1) (kv 2))).
Definition s_or_assoc_l : core := KImp (k_or (kv 0) (k_or (kv 1) (kv 2))) (k_or (k_or (kv 0) (kv 1)) (kv 2)).
Definition s_imim_and_r (p h : core) : option core :=                    (* b->c |- p/\b -> p/\c *)
  match h with KImp b c => Some (KImp (k_and p b) (k_and p c)) | _ => None end.
Definition s_imim_or_r (p h : core) : option core :=                     (* b->c |- p\/b -> p\/c *)
  match h with KImp b c => Some (KImp (k_or p b) (k_or p c)) | _ => None end.

(** the `for i in range(0, l - 2)` loop of to_clauses: state after [k] iterations *)
Fixpoint shift_iter (ar al : core) (lift : core -> core -> option core) (k : nat) : option (core * core) :=
  match k with
  | O => Some (ar, al)
  | S k' =>
      let? (sr, sl) := shift_iter ar al lift k' in
      let v := kv (N.of_nat k' + 3) in
      let? x := lift v sr in
      let? sr' := s_imp_trans_match1 ar x in
      let? y := lift v sl in
      let? sl' := s_imp_trans_match2 y al in
      Some (sr', sl')
  end.

(** id_to_metavar, clause_to_pattern, clause_conjunctionto_pattern (expanded) *)
Definition lit_core (x : Z) : core :=
  match x with
  | Z0 => KBot                                   (* assert id != 0 *)
  | Zpos p => KVar (Pos.pred_N p)
  | Zneg p => k_neg (KVar (Pos.pred_N p))
  end.
Fixpoint fold1 (op : core -> core -> core) (l : list core) : core :=
  match l with
  | [] => KBot
  | [x] => x
  | x :: t => op x (fold1 op t)
  end.
Definition clause_core (c : list Z) : core :=
  match c with [] => KBot | _ => fold1 k_or (map lit_core c) end.
Definition cls_core (cs : list (list Z)) : core :=
  match cs with [] => k_top | _ => fold1 k_and (map clause_core cs) end.

(** to_clauses with the conclusions of its two proofs *)
Fixpoint to_clauses_p (t : cf) : option (list (list Z) * core * core) :=
  match t with
  | CVar n i => let pat := cf_core t in Some ([[lit_of n i]], s_imp_refl pat, s_imp_refl pat)
  | CAnd _ l r =>
      let? (cl, l1, l2) := to_clauses_p l in
      let? (cr, r1, r2) := to_clauses_p r in
      let? ret1 := s_imim_and l1 r1 in
      let? ret2 := s_imim_and l2 r2 in
      match length cl with
      | O => None
      | S O => Some (cl ++ cr, ret1, ret2)
      | S (S k) =>
          let? (sr, sl) := shift_iter s_and_assoc_r s_and_assoc_l s_imim_and_r k in
          let? ret1' := s_imp_trans_match2 ret1 sr in
          let? ret2' := s_imp_trans_match1 sl ret2 in
          Some (cl ++ cr, ret1', ret2')
      end
  | COr _ l r =>
      let? (cl, l1, l2) := to_clauses_p l in
      let? (cr, r1, r2) := to_clauses_p r in
      let? ret1 := s_imim_or l1 r1 in
      let? ret2 := s_imim_or l2 r2 in
      match cl, cr with
      | [a], [b] =>
          match length a with
          | O => None
          | S O => Some ([a ++ b], ret1, ret2)
          | S (S k) =>
              let? (sr, sl) := shift_iter s_or_assoc_r s_or_assoc_l s_imim_or_r k in
              let? ret1' := s_imp_trans_match2 ret1 sr in
              let? ret2' := s_imp_trans_match1 sl ret2 in
              Some ([a ++ b], ret1', ret2')
          end
      | _, _ => None
      end
  | CBot _ => None
  end.

(** C09 — proof layer, schema level (definitions only).

    A ProofThunk is modelled by its conclusion [ProofThunk.conc] (a fully expanded pattern, [core]);
    every library rule of proofs/propositional.py used by to_conj_form / propag_neg is modelled by its
    docstring schema as a PARTIAL function on conclusions ([None] when the premises do not have the
    shape the schema requires — in Python an assert / extract would fail).  That each rule really
    proves its schema is property C10; here the question is whether the stages COMPOSE the rules so
    that the advertised conclusions `f -> stage f` / `stage f -> f` come out literally. *)
From Coq Require Import ZArith NArith List Bool.
From Pi2 Require Import Taut.Model.
Import ListNotations.

Fixpoint core_eqb (a b : core) : bool :=
  match a, b with
  | KBot, KBot => true
  | KVar n, KVar m => N.eqb n m
  | KImp a1 a2, KImp b1 b2 => core_eqb a1 b1 && core_eqb a2 b2
  | _, _ => false
  end.

Definition cf_core (c : cf) : core := expand (cf_form c).
Definition nn (p : core) : core := k_neg (k_neg p).

(** schemas *)
Definition s_imp_refl (p : core) : core := KImp p p.
Definition s_top_intro : core := KImp KBot KBot.
Definition s_imp_provable (p q : core) : core := KImp p q.             (* q |- p -> q *)

Definition dest_neg (k : core) : option core :=
  match k with KImp a KBot => Some a | _ => None end.
Definition dest_and (k : core) : option (core * core) :=
  match k with KImp (KImp a (KImp b KBot)) KBot => Some (a, b) | _ => None end.

Definition s_imp_transitivity (h1 h2 : core) : option core :=           (* p->q, q->r |- p->r *)
  match h1, h2 with
  | KImp p q, KImp q' r => if core_eqb q q' then Some (KImp p r) else None
  | _, _ => None
  end.
Definition s_imim (h1 h2 : core) : option core :=                        (* a->b, c->d |- (b->c)->(a->d) *)
  match h1, h2 with KImp a b, KImp c d => Some (KImp (KImp b c) (KImp a d)) | _, _ => None end.
Definition s_imim_nnr (h1 h2 : core) : option core :=                    (* |- (b->c)->(~~a->d) *)
  match h1, h2 with KImp a b, KImp c d => Some (KImp (KImp b c) (KImp (nn a) d)) | _, _ => None end.
Definition s_imim_nnl (h1 h2 : core) : option core :=                    (* |- (~~b->c)->(a->d) *)
  match h1, h2 with KImp a b, KImp c d => Some (KImp (KImp (nn b) c) (KImp a d)) | _, _ => None end.
Definition s_imim_or (h1 h2 : core) : option core :=                     (* |- a\/c -> b\/d *)
  match h1, h2 with KImp a b, KImp c d => Some (KImp (k_or a c) (k_or b d)) | _, _ => None end.
Definition s_imim_and (h1 h2 : core) : option core :=                    (* |- a/\c -> b/\d *)
  match h1, h2 with KImp a b, KImp c d => Some (KImp (k_and a c) (k_and b d)) | _, _ => None end.
Definition s_and_not_r_intro (p nq : core) : option core :=              (* p, ~q |- ~(p->q) *)
  match dest_neg nq with Some q => Some (k_neg (KImp p q)) | None => None end.
Definition s_absurd_i (np q : core) : option core :=                     (* ~p |- p->q *)
  match dest_neg np with Some p => Some (KImp p q) | None => None end.
Definition s_absurd2 (pq r : core) : option core :=                      (* p->q |- ~q -> p -> r *)
  match pq with KImp p q => Some (KImp (k_neg q) (KImp p r)) | _ => None end.
Definition s_absurd3 (npq nr : core) : option core :=                    (* ~p->q, ~r |- (q->r)->p *)
  match npq, nr with KImp (KImp p KBot) q, KImp r KBot => Some (KImp (KImp q r) p) | _, _ => None end.
Definition s_absurd4 (pnq r : core) : option core :=                     (* p->~q |- q->p->r *)
  match pnq with KImp p (KImp q KBot) => Some (KImp q (KImp p r)) | _ => None end.
Definition s_helper1 (p qr : core) : option core :=                      (* p, q->r |- (p->q)->r *)
  match qr with KImp q r => Some (KImp (KImp p q) r) | _ => None end.
Definition s_a1d (pq r : core) : option core :=                          (* p->q |- p->r->q *)
  match pq with KImp p q => Some (KImp p (KImp r q)) | _ => None end.
Definition s_dni_l_i (pq : core) : option core :=                        (* p->q |- ~~p->q *)
  match pq with KImp p q => Some (KImp (nn p) q) | _ => None end.
Definition s_dni_r_i (pq : core) : option core :=                        (* p->q |- p->~~q *)
  match pq with KImp p q => Some (KImp p (nn q)) | _ => None end.
Definition s_con3_i (pq : core) : option core :=                         (* p->q |- ~q->~p *)
  match pq with KImp p q => Some (KImp (k_neg q) (k_neg p)) | _ => None end.
Definition s_dne_r (p q : core) : core := KImp (KImp p (nn q)) (KImp p q).   (* (p->~~q)->(p->q) *)
Definition s_dni_r (p q : core) : core := KImp (KImp p q) (KImp p (nn q)).   (* (p->q)->(p->~~q) *)

Definition obind {A B} (x : option A) (f : A -> option B) : option B :=
  match x with Some a => f a | None => None end.
Notation "'let?' x := e 'in' k" := (obind e (fun x => k)) (at level 200, x pattern, e at level 100, k at level 200).

Definition cf_flag (c : cf) : bool :=
  match c with CBot n | CVar n _ | COr n _ _ | CAnd n _ _ => n end.

(** to_conj_form with the conclusions of the two returned proofs (second is None for constants) *)
Fixpoint tcfp (p : core) : option (cf * core * option core) :=
  match p with
  | KBot => Some (CBot false, s_top_intro, None)
  | KVar n => Some (CVar false n, s_imp_refl p, Some (s_imp_refl p))
  | KImp p0 p1 =>
      if is_top p then Some (CBot true, s_top_intro, None) else
      let? (c1, l1, r1) := tcfp p1 in
      match c1 with
      | CBot true => Some (CBot true, s_imp_provable p0 l1, None)
      | CBot false =>
          let? (c0, l0, r0) := tcfp p0 in
          match c0 with
          | CBot true => let? pf := s_and_not_r_intro l0 l1 in Some (CBot false, pf, None)
          | CBot false => let? pf := s_absurd_i l0 p1 in Some (CBot true, pf, None)
          | _ =>
              let? r0' := r0 in
              if cf_flag c0 then
                let? a := s_absurd3 r0' l1 in let? b := s_absurd4 l0 p1 in Some (toggle c0, a, Some b)
              else
                let? a := s_imim r0' l1 in let? b := s_absurd2 l0 p1 in Some (toggle c0, a, Some b)
          end
      | _ =>
          let? (c0, l0, r0) := tcfp p0 in
          match c0 with
          | CBot true =>
              let? r1' := r1 in
              let? a := s_helper1 l0 l1 in let? b := s_a1d r1' p0 in Some (c1, a, Some b)
          | CBot false => let? pf := s_absurd_i l0 p1 in Some (CBot true, pf, None)
          | _ =>
              let? r0' := r0 in let? r1' := r1 in
              if cf_flag c0 then
                let? a := s_imim r0' l1 in let? b := s_imim l0 r1' in Some (COr false (toggle c0) c1, a, Some b)
              else
                let? a := s_imim_nnr r0' l1 in let? b := s_imim_nnl l0 r1' in Some (COr false (toggle c0) c1, a, Some b)
          end
      end
  end.

(** propag_neg with the conclusions of its two proofs; [b] as in [pn] *)
Fixpoint pnp (b : bool) (t : cf) : option (cf * core * core) :=
  match t with
  | CVar n i =>
      let pat := cf_core (CVar (xorb b n) i) in
      Some (CVar (xorb b n) i, s_imp_refl pat, s_imp_refl pat)
  | COr n l r =>
      if xorb b n then
        let? (tl, l1, l2) := pnp true l in
        let? (tr, r1, r2) := pnp true r in
        (* `if not term.left.negated` after the toggle, i.e. the left child WAS negated *)
        let? l1' := (if cf_flag l then s_dni_l_i l1 else Some l1) in
        let? l2' := (if cf_flag l then s_dni_r_i l2 else Some l2) in
        let? ret1 := s_imim_and l1' r1 in
        let? ret2 := s_imim_and l2' r2 in
        (* `if term.right.negated` after the toggle, i.e. the right child was NOT negated *)
        if negb (cf_flag r) then
          match ret1, ret2 with
          | KImp pf1_l _, KImp _ pf2_r =>
              let? (a1, nb1) := dest_and pf1_l in
              let? b1 := dest_neg nb1 in
              let? c1 := s_con3_i (s_dne_r a1 b1) in
              let? ret1' := s_imp_transitivity c1 ret1 in
              let? (a2, nb2) := dest_and pf2_r in
              let? b2 := dest_neg nb2 in
              let? c2 := s_con3_i (s_dni_r a2 b2) in
              let? ret2' := s_imp_transitivity ret2 c2 in
              Some (CAnd false tl tr, ret1', ret2')
          | _, _ => None
          end
        else Some (CAnd false tl tr, ret1, ret2)
      else
        let? (tl, l1, l2) := pnp false l in
        let? (tr, r1, r2) := pnp false r in
        let? ret1 := s_imim_or l1 r1 in
        let? ret2 := s_imim_or l2 r2 in
        Some (COr false tl tr, ret1, ret2)
  | _ => None
  end.

(* ------------------------------------------------------------------------------------------ *)
(** * to_cnf with the conclusions of its two proofs *)

Definition dest_or (k : core) : option (core * core) :=
  match k with KImp (KImp a KBot) b => Some (a, b) | _ => None end.

(** imp_trans_match2(h1, or_distr_r()):  X -> (a/\b)\/r   |-   X -> (a\/r)/\(b\/r)
    (or_distr_r is instantiated by match_single of its antecedent against h1's consequent) *)
Definition s_m2_or_distr_r (h1 : core) : option core :=
  match h1 with
  | KImp x b0 =>
      let? (ab, r) := dest_or b0 in
      let? (a, b) := dest_and ab in
      Some (KImp x (k_and (k_or a r) (k_or b r)))
  | _ => None
  end.
(** imp_trans_match1(or_distr_r_rev(), h2):  (a/\b)\/r -> X   |-   (a\/r)/\(b\/r) -> X *)
Definition s_m1_or_distr_r_rev (h2 : core) : option core :=
  match h2 with
  | KImp b0 x =>
      let? (ab, r) := dest_or b0 in
      let? (a, b) := dest_and ab in
      Some (KImp (k_and (k_or a r) (k_or b r)) x)
  | _ => None
  end.
(** imp_trans_match2(h1, or_distr_l()):  X -> a\/(b/\c)   |-   X -> (a\/b)/\(a\/c) *)
Definition s_m2_or_distr_l (h1 : core) : option core :=
  match h1 with
  | KImp x b0 =>
      let? (a, bc) := dest_or b0 in
      let? (b, c) := dest_and bc in
      Some (KImp x (k_and (k_or a b) (k_or a c)))
  | _ => None
  end.
Definition s_m1_or_distr_l_rev (h2 : core) : option core :=
  match h2 with
  | KImp b0 x =>
      let? (a, bc) := dest_or b0 in
      let? (b, c) := dest_and bc in
      Some (KImp (k_and (k_or a b) (k_or a c)) x)
  | _ => None
  end.

Notation "'do?' x <- e ; k" := (rbind e (fun x => k)) (at level 200, x pattern, e at level 100, k at level 200).

Fixpoint to_cnf_p (fuel : nat) (t : cf) : res (cf * core * core) :=
  match fuel with
  | O => Fuel
  | S fuel =>
      match t with
      | CVar _ _ => let pat := cf_core t in Ok (t, s_imp_refl pat, s_imp_refl pat)
      | CAnd _ l r =>
          do? (tl, l1, l2) <- to_cnf_p fuel l;
          do? (tr, r1, r2) <- to_cnf_p fuel r;
          do? ret1 <- of_option (s_imim_and l1 r1);
          do? ret2 <- of_option (s_imim_and l2 r2);
          Ok (CAnd false tl tr, ret1, ret2)
      | COr _ l r =>
          do? (tl, l1, l2) <- to_cnf_p fuel l;
          do? (tr, r1, r2) <- to_cnf_p fuel r;
          do? ret1 <- of_option (s_imim_or l1 r1);
          do? ret2 <- of_option (s_imim_or l2 r2);
          match tl with
          | CAnd _ a b =>
              do? ret1' <- of_option (s_m2_or_distr_r ret1);
              do? ret2' <- of_option (s_m1_or_distr_r_rev ret2);
              do? (nt, p1, p2) <- to_cnf_p fuel (CAnd false (COr false a tr) (COr false b tr));
              do? ret1'' <- of_option (s_imp_transitivity ret1' p1);
              do? ret2'' <- of_option (s_imp_transitivity p2 ret2');
              Ok (nt, ret1'', ret2'')
          | _ =>
              match tr with
              | CAnd _ a b =>
                  do? ret1' <- of_option (s_m2_or_distr_l ret1);
                  do? ret2' <- of_option (s_m1_or_distr_l_rev ret2);
                  do? (nt, p1, p2) <- to_cnf_p fuel (CAnd false (COr false tl a) (COr false tl b));
                  do? ret1'' <- of_option (s_imp_transitivity ret1' p1);
                  do? ret2'' <- of_option (s_imp_transitivity p2 ret2');
                  Ok (nt, ret1'', ret2'')
              | _ => Ok (COr false tl tr, ret1, ret2)
              end
          end
      | CBot _ => Err
      end
  end.

(* ------------------------------------------------------------------------------------------ *)
(** * match_single / instantiate on expanded patterns, imp_trans_match1/2 *)

Fixpoint kassoc (i : N) (s : list (N * core)) : option core :=
  match s with
  | [] => None
  | (k, v) :: t => if N.eqb k i then Some v else kassoc i t
  end.

(** match_single(pattern, instance, extend): metavariables of [pat] are bound, everything else must agree *)
Fixpoint kmatch (pat inst : core) (s : list (N * core)) : option (list (N * core)) :=
  match pat with
  | KVar i =>
      match kassoc i s with
      | Some v => if core_eqb v inst then Some s else None
      | None => Some (s ++ [(i, inst)])
      end
  | KBot => match inst with KBot => Some s | _ => None end
  | KImp a b =>
      match inst with
      | KImp a' b' => match kmatch a a' s with Some s' => kmatch b b' s' | None => None end
      | _ => None
      end
  end.

(** Pattern.instantiate (simultaneous) *)
Fixpoint ksubst (s : list (N * core)) (p : core) : core :=
  match p with
  | KBot => KBot
  | KVar i => match kassoc i s with Some v => v | None => p end
  | KImp a b => KImp (ksubst s a) (ksubst s b)
  end.

(** imp_trans_match1(h1, h2): h1 is instantiated so that its consequent becomes h2's antecedent *)
Definition s_imp_trans_match1 (h1 h2 : core) : option core :=
  match h1, h2 with
  | KImp _ b, KImp c _ => let? s := kmatch b c [] in s_imp_transitivity (ksubst s h1) h2
  | _, _ => None
  end.
(** imp_trans_match2(h1, h2): h2 is instantiated so that its antecedent becomes h1's consequent *)
Definition s_imp_trans_match2 (h1 h2 : core) : option core :=
  match h1, h2 with
  | KImp _ b, KImp c _ => let? s := kmatch c b [] in s_imp_transitivity h1 (ksubst s h2)
  | _, _ => None
  end.

Definition kv (i : N) : core := KVar i.
Definition s_and_assoc_r : core := KImp (k_and (k_and (kv 0) (kv 1)) (kv 2)) (k_and (kv 0) (k_and (kv 1) (kv 2))).
Definition s_and_assoc_l : core := KImp (k_and (kv 0) (k_and (kv 1) (kv 2))) (k_and (k_and (kv 0) (kv 1)) (kv 2)).
Definition s_or_assoc_r : core := KImp (k_or (k_or (kv 0) (kv 1)) (kv 2)) (k_or (kv 0) (k_or (kv 1) (kv 2))).
Definition s_or_assoc_l : core := KImp (k_or (kv 0) (k_or (kv 1) (kv 2))) (k_or (k_or (kv 0) (kv 1)) (kv 2)).
Definition s_imim_and_r (p h : core) : option core :=                    (* b->c |- p/\b -> p/\c *)
  match h with KImp b c => Some (KImp (k_and p b) (k_and p c)) | _ => None end.
Definition s_imim_or_r (p h : core) : option core :=                     (* b->c |- p\/b -> p\/c *)
  match h with KImp b c => Some (KImp (k_or p b) (k_or p c)) | _ => None end.

(** the `for i in range(0, l - 2)` loop of to_clauses: state after [k] iterations *)
Fixpoint shift_iter (ar al : core) (lift : core -> core -> option core) (k : nat) : option (core * core) :=
  match k with
  | O => Some (ar, al)
  | S k' =>
      let? (sr, sl) := shift_iter ar al lift k' in
      let v := kv (N.of_nat k' + 3) in
      let? x := lift v sr in
      let? sr' := s_imp_trans_match1 ar x in
      let? y := lift v sl in
      let? sl' := s_imp_trans_match2 y al in
      Some (sr', sl')
  end.

(** id_to_metavar, clause_to_pattern, clause_conjunctionto_pattern (expanded) *)
Definition lit_core (x : Z) : core :=
  match x with
  | Z0 => KBot                                   (* assert id != 0 *)
  | Zpos p => KVar (Pos.pred_N p)
  | Zneg p => k_neg (KVar (Pos.pred_N p))
  end.
Fixpoint fold1 (op : core -> core -> core) (l : list core) : core :=
  match l with
  | [] => KBot
  | [x] => x
  | x :: t => op x (fold1 op t)
  end.
Definition clause_core (c : list Z) : core :=
  match c with [] => KBot | _ => fold1 k_or (map lit_core c) end.
Definition cls_core (cs : list (list Z)) : core :=
  match cs with [] => k_top | _ => fold1 k_and (map clause_core cs) end.

(** to_clauses with the conclusions of its two proofs *)
Fixpoint to_clauses_p (t : cf) : option (list (list Z) * core * core) :=
  match t with
  | CVar n i => let pat := cf_core t in Some ([[lit_of n i]], s_imp_refl pat, s_imp_refl pat)
  | CAnd _ l r =>
      let? (cl, l1, l2) := to_clauses_p l in
      let? (cr, r1, r2) := to_clauses_p r in
      let? ret1 := s_imim_and l1 r1 in
      let? ret2 := s_imim_and l2 r2 in
      match length cl with
      | O => None
      | S O => Some (cl ++ cr, ret1, ret2)
      | S (S k) =>
          let? (sr, sl) := shift_iter s_and_assoc_r s_and_assoc_l s_imim_and_r k in
          let? ret1' := s_imp_trans_match2 ret1 sr in
          let? ret2' := s_imp_trans_match1 sl ret2 in
          Some (cl ++ cr, ret1', ret2')
      end
  | COr _ l r =>
      let? (cl, l1, l2) := to_clauses_p l in
      let? (cr, r1, r2) := to_clauses_p r in
      let? ret1 := s_imim_or l1 r1 in
      let? ret2 := s_imim_or l2 r2 in
      match cl, cr with
      | [a], [b] =>
          match length a with
          | O => None
          | S O => Some ([a ++ b], ret1, ret2)
          | S (S k) =>
              let? (sr, sl) := shift_iter s_or_assoc_r s_or_assoc_l s_imim_or_r k in
              let? ret1' := s_imp_trans_match2 ret1 sr in
              let? ret2' := s_imp_trans_match1 sl ret2 in
              Some ([a ++ b], ret1', ret2')
          end
      | _, _ => None
      end
  | CBot _ => None
  end.

(* ------------------------------------------------------------------------------------------ *)
(** * proof reconstruction and the final glue of prove_tautology (conclusions only)

    Three proof-producing helpers are NOT modelled (they rest on ac_move_to_front); the model takes their
    conclusions from a record [pieces]; the theorems of Taut/Glue.v assume that the pieces conclude what
    the code advertises (hypotheses H_simplify / H_merge / H_trivial, each checked at run time by the
    runner command QP). *)

Record pieces : Type := {
  simplify_pf : list Z -> Z -> core;        (* conclusion of simplify_clause(cl, x)[1] *)
  merge_pf : list Z -> list Z -> core;      (* conclusion of merge_clauses(pattern of l, len(l), pattern of r) *)
  trivial_pf : list Z -> core               (* conclusion of prove_trivial_clause(cl) *)
}.

Definition k_equiv (a b : core) : core := k_and (KImp a b) (KImp b a).

(** what the three helpers advertise *)
Definition spec_pieces : pieces := {|
  simplify_pf := fun cl x => k_equiv (clause_core cl) (clause_core (simplify_clause cl x));
  merge_pf := fun l r => k_equiv (k_or (clause_core l) (clause_core r)) (clause_core (l ++ r));
  trivial_pf := fun cl => clause_core cl
|}.

Definition s_and_l (pq : core) : option core := let? (p, q) := dest_and pq in Some p.      (* p/\q |- p *)
Definition s_mp (pq p : core) : option core :=                                              (* modus_ponens *)
  match pq with KImp a b => if core_eqb a p then Some b else None | _ => None end.
Definition s_dneg_elim (p : core) : core := KImp (nn p) p.
Definition s_resolution (p a b : core) : core := KImp (k_or (k_neg p) a) (KImp (k_or p b) (k_or a b)).
Definition s_resolution_r (p b : core) : core := KImp (k_neg p) (KImp (k_or p b) b).
Definition s_resolution_l (p a : core) : core := KImp (k_or (k_neg p) a) (KImp p a).
Definition s_resolution_base (p : core) : core := KImp (k_neg p) (KImp p KBot).
Definition s_resolution_step (ab ac bcd : core) : option core :=     (* a->b, a->c, b->c->d |- a->d *)
  match ab, ac, bcd with
  | KImp a b, KImp a2 c, KImp b2 (KImp c2 d) =>
      if core_eqb a a2 && core_eqb b b2 && core_eqb c c2 then Some (KImp a d) else None
  | _, _, _ => None
  end.
Definition s_long_imp_trans (abc cd : core) : option core :=         (* a->b->c, c->d |- a->b->d *)
  match abc, cd with
  | KImp a (KImp b c), KImp c2 d => if core_eqb c c2 then Some (KImp a (KImp b d)) else None
  | _, _ => None
  end.

(** conjunction_implies_nth(term, n, l) *)
Fixpoint s_conj_nth (term : core) (n l : nat) : option core :=
  match l with
  | O => None
  | S O => match n with O => Some (s_imp_refl term) | _ => None end
  | S l' =>
      let? (head, rest) := dest_and term in
      match n with
      | O => Some (KImp (k_and head rest) head)
      | S n' => let? rec := s_conj_nth rest n' l' in s_imp_transitivity (KImp (k_and head rest) rest) rec
      end
  end.

(** build_proof_from_hint: clause and conclusion of the proof *)
Fixpoint build_term_p (P : pieces) (fuel : nat) (h : hint) (cl : list Z) (terms : list (list Z))
  : res (list Z * core) :=
  match fuel with
  | O => Fuel
  | S fuel =>
      match hint_get cl h with
      | None => Err
      | Some (HIdx i) =>
          match nth_error terms (N.to_nat i) with
          | None => Err
          | Some t =>
              do? pf <- of_option (s_conj_nth (cls_core terms) (N.to_nat i) (length terms));
              Ok (t, pf)
          end
      | Some (HRes ls rs x) =>
          do? (tl, pl) <- build_term_p P fuel h ls terms;
          do? (tr, pr) <- build_term_p P fuel h rs terms;
          if (x =? 0)%Z then Err else
          let rt := lit_core x in
          match simplify_clause tl (- x), simplify_clause tr x with
          | a :: tl', b :: tr' =>
              if ((a =? - x) && (b =? x))%Z then
                let final := tl' ++ tr' in
                if clause_eqb (mkset final) cl then
                  do? sl <- of_option (s_and_l (simplify_pf P tl (- x)));
                  do? pl' <- of_option (s_imp_transitivity pl sl);
                  do? sr <- of_option (s_and_l (simplify_pf P tr x));
                  do? pr' <- of_option (s_imp_transitivity pr sr);
                  do? pf <- of_option
                    (match tl', tr' with
                     | [], [] => Some (s_resolution_base rt)
                     | [], _ => Some (s_resolution_r rt (clause_core tr'))
                     | _, [] => Some (s_resolution_l rt (clause_core tl'))
                     | _, _ =>
                         let? m := s_and_l (merge_pf P tl' tr') in
                         s_long_imp_trans (s_resolution rt (clause_core tl') (clause_core tr')) m
                     end);
                  do? pf' <- of_option (s_resolution_step pl' pr' pf);
                  Ok (final, pf')
                else Err
              else Err
          | _, _ => Err
          end
      end
  end.

(** start_resolution_algorithm: verdict and conclusion of the returned proof *)
Definition start_resolution_p (P : pieces) (no_shadow : bool) (fuel : nat) (clauses : list (list Z))
  : res (option (bool * core)) :=
  match clauses with
  | [] => Ok (Some (true, s_top_intro))
  | _ =>
      let h0 := init_hint (map mkset clauses) 0%N [] in
      match h0 with
      | [] =>
          match clauses with
          | [c] => Ok (Some (true, trivial_pf P c))
          | _ => Ok (Some (true, fold1 k_and (map (trivial_pf P) clauses)))     (* and_intro chain *)
          end
      | _ =>
          do? x <- resolution_algorithm no_shadow fuel h0 (map fst h0);
          match x with
          | (true, _, h) =>
              do? (t, pf) <- build_term_p P (S (length h)) h [] clauses;
              match t with [] => Ok (Some (false, pf)) | _ => Err end
          | (false, _, _) => Ok None
          end
      end
  end.

(** prove_tautology: verdict and conclusion of the returned proof *)
Definition prove_tautology_p (P : pieces) (no_shadow : bool) (fuel : nat) (f : form)
  : res (option (bool * core)) :=
  let p := expand f in
  match tcfp (k_neg p) with
  | None => Err
  | Some (c, l, r) =>
      match c with
      | CBot true => Ok (Some (false, l))
      | CBot false => do? pf <- of_option (s_mp (s_dneg_elim p) l); Ok (Some (true, pf))
      | _ =>
          match r, pnp false c with
          | Some r0, Some (n, n1, n2) =>
              do? (k, c1, c2) <- to_cnf_p fuel n;
              match to_clauses_p k with
              | None => Err
              | Some (cls, l1, l2) =>
                  do? x <- start_resolution_p P no_shadow fuel cls;
                  match x with
                  | None => Ok None
                  | Some (true, pf) =>
                      do? chain <- of_option
                        (let? a := s_imp_transitivity n2 r0 in
                         let? b := s_imp_transitivity c2 a in s_imp_transitivity l2 b);
                      do? fin <- of_option (s_mp chain pf);
                      Ok (Some (false, fin))
                  | Some (false, pf) =>
                      do? chain <- of_option
                        (let? a := s_imp_transitivity l1 pf in
                         let? b := s_imp_transitivity c1 a in
                         let? c' := s_imp_transitivity n1 b in s_imp_transitivity l c');
                      do? fin <- of_option (s_mp (s_dneg_elim p) chain);
                      Ok (Some (true, fin))
                  end
              end
          | _, _ => Err
          end
      end
  end.

(* ------------------------------------------------------------------------------------------ *)
(** * merge_clauses (modelled; discharges H_merge) *)

Definition s_equiv_refl (p : core) : core := k_equiv p p.
Definition s_or_assoc (a b c : core) : core := k_equiv (k_or a (k_or b c)) (k_or (k_or a b) c).
Definition dest_equiv (k : core) : option (core * core) :=
  let? (pq, qp) := dest_and k in
  match pq, qp with
  | KImp p q, KImp q' p' => if core_eqb p p' && core_eqb q q' then Some (p, q) else None
  | _, _ => None
  end.
Definition s_equiv_sym (pf : core) : option core :=                       (* p<->q |- q<->p *)
  let? (p, q) := dest_equiv pf in Some (k_equiv q p).
Definition s_equiv_transitivity (pq qr : core) : option core :=           (* p<->q, q<->r |- p<->r *)
  let? (p, q) := dest_equiv pq in
  let? (q', r) := dest_equiv qr in
  if core_eqb q q' then Some (k_equiv p r) else None.
Definition s_or_cong (pf1 pf2 : core) : option core :=                    (* a<->b, c<->d |- a\/c <-> b\/d *)
  let? (a, b) := dest_equiv pf1 in
  let? (c, d) := dest_equiv pf2 in
  Some (k_equiv (k_or a c) (k_or b d)).

Fixpoint s_merge (term_l : core) (len_l : nat) (term_r : core) : option core :=
  match len_l with
  | O => None
  | S O => Some (s_equiv_refl (k_or term_l term_r))
  | S len' =>
      let? (l1, l2) := dest_or term_l in
      match len' with
      | S O => s_equiv_sym (s_or_assoc l1 l2 term_r)
      | _ =>
          let? a := s_equiv_sym (s_or_assoc l1 l2 term_r) in
          let? m := s_merge l2 len' term_r in
          let? c := s_or_cong (s_equiv_refl l1) m in
          s_equiv_transitivity a c
      end
  end.

(** helper conclusions with merge_clauses modelled, the other two still abstract *)
Definition pieces_merge (simp : list Z -> Z -> core) (triv : list Z -> core) : pieces := {|
  simplify_pf := simp;
  merge_pf := fun l r => match s_merge (clause_core l) (length l) (clause_core r) with Some c => c | None => KBot end;
  trivial_pf := triv
|}.

(* ------------------------------------------------------------------------------------------ *)
(** * ac_move_to_front specialised to \/ (or_move_to_front): the recursion `unroll` *)

Definition s_or_comm (p q : core) : core := k_equiv (k_or p q) (k_or q p).

(** [unroll term_l term_r positions l unrolling], one unit of fuel per call.
    assoc = or_assoc, assoc_rev = equiv_sym . or_assoc, comm = or_comm, cong = or_cong,
    extract_op = _or.assert_matches *)
Fixpoint unroll (fuel : nat) (tl tr : core) (ps : list nat) (l u : nat) : option core :=
  match fuel with
  | O => None
  | S fuel =>
      match ps with
      | [] => Some (s_equiv_refl (k_or tl tr))
      | pos :: ps' =>
          if negb (S u <? l)%nat || negb (pos <? l)%nat then None else       (* the two asserts *)
          if (pos <=? u)%nat then
            if (u =? 0)%nat then
              if (l =? 2)%nat then Some (s_equiv_refl (k_or tl tr))
              else
                let? (mid, tr') := dest_or tr in
                let? rec := unroll fuel mid tr' ps' (l - 1) 0 in
                s_or_cong (s_equiv_refl tl) rec
            else
              let? (tl', mid) := dest_or tl in
              if (pos =? u)%nat then
                let? pf := s_or_cong (s_or_comm tl' mid) (s_equiv_refl tr) in
                let? a := s_equiv_sym (s_or_assoc mid tl' tr) in
                let? pf' := s_equiv_transitivity pf a in
                let? rec := unroll fuel tl' tr ps' (l - 1) (u - 1) in
                let? c := s_or_cong (s_equiv_refl mid) rec in
                s_equiv_transitivity pf' c
              else
                let? rec := unroll fuel tl' (k_or mid tr) ps l (u - 1) in
                let? a := s_equiv_sym (s_or_assoc tl' mid tr) in
                s_equiv_transitivity a rec
          else
            if (l =? 2)%nat then Some (s_or_comm tl tr)
            else if (u =? l - 2)%nat then
              let? (tl', mid) := dest_or tl in
              let? rec := unroll fuel tl' mid ps' (l - 1) (l - 3) in
              let? c := s_or_cong (s_equiv_refl tr) rec in
              s_equiv_transitivity (s_or_comm tl tr) c
            else
              let? (mid, tr') := dest_or tr in
              let? rec := unroll fuel (k_or tl mid) tr' ps l (S u) in
              s_equiv_transitivity (s_or_assoc tl mid tr') rec
      end
  end.

(** sorted_pos[i] -= i ; sorted_pos.append(0)   (positions are passed sorted by both callers) *)
Fixpoint adjust_from (k : nat) (ps : list nat) : list nat :=
  match ps with [] => [0%nat] | p :: t => (p - k)%nat :: adjust_from (S k) t end.

Definition or_move_to_front (ps : list nat) (terms : list core) : option core :=
  match terms with
  | [] => None
  | [t] => Some (s_equiv_refl t)
  | t0 :: rest =>
      unroll (S ((S (length ps)) * (S (length terms)) + length terms)) t0 (fold1 k_or rest)
             (adjust_from 0 ps) (length terms) 0
  end.

(* ------------------------------------------------------------------------------------------ *)
(** * reduce_n_or_duplicates_at_front, simplify_clause (proof), prove_trivial_clause *)

Definition s_or_idem (p : core) : core := k_equiv (k_or p p) p.
Definition s_reduce_dup (p q : core) : core := k_equiv (k_or p (k_or p q)) (k_or p q).

(** the `for _ in range(n - 1)` loop *)
Fixpoint reduce_loop (k : nat) (p q pf : core) : option core :=
  match k with
  | O => Some pf
  | S k' => let? pf' := s_equiv_transitivity (s_reduce_dup p q) pf in reduce_loop k' p (k_or p q) pf'
  end.

Definition s_reduce_n (n : nat) (terms : list core) : option core :=
  if negb (n <? length terms)%nat then None else
  if (n =? 0)%nat then Some (s_equiv_refl (fold1 k_or terms)) else
  match terms with
  | [] => None
  | p :: _ =>
      if (length terms =? S n)%nat then reduce_loop (n - 1) p p (s_or_idem p)
      else
        let q0 := fold1 k_or (skipn (S n) terms) in
        reduce_loop (n - 1) p (k_or p q0) (s_reduce_dup p q0)
  end.

(** positions of [x] in [cl], counted from [i] *)
Fixpoint positions_from (i : nat) (cl : list Z) (x : Z) : list nat :=
  match cl with
  | [] => []
  | y :: t => if (y =? x)%Z then i :: positions_from (S i) t x else positions_from (S i) t x
  end.

(** id_to_metavar asserts id != 0 *)
Definition lits_ok (cl : list Z) : bool := forallb (fun y => negb (y =? 0)%Z) cl.

(** simplify_clause(cl, x)[1] *)
Definition s_simplify (cl : list Z) (x : Z) : option core :=
  let ps := positions_from 0 cl x in
  match ps with
  | [] => Some (s_equiv_refl (clause_core cl))
  | _ =>
      if negb (lits_ok cl) then None else
      let n := length ps in
      let stripped := filter (fun y => negb (y =? x)%Z) cl in
      let? pf := or_move_to_front ps (map lit_core cl) in
      let? r := s_reduce_n (n - 1) (map lit_core (repeat x n ++ stripped)) in
      s_equiv_transitivity pf r
  end.

(** first pair of positions (i1 < i2, lexicographic order of itertools.combinations) with cl[i1] + cl[i2] == 0 *)
Fixpoint find_opp (x : Z) (i : nat) (t : list Z) : option nat :=
  match t with
  | [] => None
  | y :: t' => if (x + y =? 0)%Z then Some i else find_opp x (S i) t'
  end.
Fixpoint find_pair (i : nat) (cl : list Z) : option (nat * nat * Z * Z) :=
  match cl with
  | [] => None
  | x :: t =>
      match find_opp x (S i) t with
      | Some i2 => Some (i, i2, x, (- x)%Z)
      | None => find_pair (S i) t
      end
  end.

Definition s_and_r (pq : core) : option core := let? (p, q) := dest_and pq in Some q.      (* p/\q |- q *)
Definition s_or_assoc_r3 (a b c : core) : core := KImp (k_or (k_or a b) c) (k_or a (k_or b c)).
Definition s_or_l (p q : core) : core := k_or p q.                                          (* p |- p\/q *)

Fixpoint remove_idx (i : nat) (l : list Z) : list Z :=
  match l with
  | [] => []
  | y :: t => match i with O => t | S i' => y :: remove_idx i' t end
  end.

(** prove_trivial_clause(cl) *)
Definition s_trivial (cl : list Z) : option core :=
  match find_pair 0 cl with
  | None => None                                   (* UnboundLocalError *)
  | Some (i1, i2, x1, x2) =>
      if negb (lits_ok cl) then None else
      let neg_first := (x1 <? x2)%Z in
      let p := lit_core (Z.abs x1) in
      match cl with
      | [_; _] => if neg_first then Some (s_dneg_elim p) else Some (s_imp_refl (k_neg p))
      | _ =>
          let? mv := or_move_to_front [i1; i2] (map lit_core cl) in
          let? pf := s_and_r mv in
          let rest := clause_core (remove_idx i1 (remove_idx i2 cl)) in
          if neg_first then
            let? pf' := s_imp_transitivity (s_or_assoc_r3 (k_neg p) p rest) pf in
            s_mp pf' (s_or_l (s_dneg_elim p) rest)
          else
            let? pf' := s_imp_transitivity (s_or_assoc_r3 p (k_neg p) rest) pf in
            s_mp pf' (s_or_l (s_imp_refl (k_neg p)) rest)
      end
  end.

(** all helper conclusions computed by the model *)
Definition model_pieces : pieces := {|
  simplify_pf := fun cl x => match s_simplify cl x with Some c => c | None => KBot end;
  merge_pf := fun l r => match s_merge (clause_core l) (length l) (clause_core r) with Some c => c | None => KBot end;
  trivial_pf := fun cl => match s_trivial cl with Some c => c | None => KBot end
|}.

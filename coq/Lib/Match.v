(** match_single (pattern.py:12-67, modelled in Lib/Term.v) is sound on plain patterns, and
    instantiating a plain pattern is textbook replacement.  Used by the *_match* rules. *)
From Coq Require Import NArith List Bool Lia.
From Pi2 Require Import ML.Syntax ML.Subst Lib.Term Lib.TermFacts.
Import ListNotations.
Open Scope N_scope.

(** every metavariable of [p] is bound by [d] *)
Fixpoint bound (d : list (N * pat)) (p : pat) : bool :=
  match p with
  | Imp l r | App l r => bound d l && bound d r
  | Ex _ q | Mu _ q => bound d q
  | MVar i _ _ _ _ _ => match assoc i d with Some _ => true | None => false end
  | ESub q _ plug | SSub q _ plug => bound d q && bound d plug
  | _ => true
  end.

(** no pending substitution anywhere (constrained metavariables allowed) *)
Fixpoint nosub (p : pat) : bool :=
  match p with
  | Imp l r | App l r => nosub l && nosub r
  | Ex _ q | Mu _ q => nosub q
  | ESub _ _ _ | SSub _ _ _ => false
  | _ => true
  end.

Definition extends (d d' : list (N * pat)) : Prop := forall k v, assoc k d = Some v -> assoc k d' = Some v.

Lemma assoc_dlookup : forall d i, assoc i d = PM.dlookup i d.
Proof.
  induction d as [|[k v] d IH]; intros i; cbn; [reflexivity|].
  rewrite (N.eqb_sym k i). destruct (N.eqb i k); auto.
Qed.

Lemma assoc_app_l : forall d e k v, assoc k d = Some v -> assoc k (d ++ e) = Some v.
Proof.
  induction d as [|[k' w] d IH]; intros e k v H; cbn in *; [discriminate|].
  destruct (N.eqb k' k); auto.
Qed.

Lemma extends_refl : forall d, extends d d. Proof. intros d k v H; exact H. Qed.
Lemma extends_trans : forall a b c, extends a b -> extends b c -> extends a c.
Proof. intros a b c H1 H2 k v H. auto. Qed.

(** on substitution-free patterns whose metavariables are all bound, a larger map instantiates alike *)
Lemma py_inst'_extends : forall d d' p, extends d d' -> nosub p = true -> bound d p = true ->
  PM.py_inst' d' p = PM.py_inst' d p.
Proof.
  intros d d' p He.
  induction p as [n|n|n|l IHl r IHr|l IHl r IHr|x p IH|x p IH|i a1 a2 a3 a4 a5|p IHp x q IHq|p IHp x q IHq];
    intros Hn Hb; cbn in *; try reflexivity; try discriminate.
  - apply andb_true_iff in Hb as [H1 H2]. apply andb_true_iff in Hn as [N1 N2]. now rewrite IHl, IHr.
  - apply andb_true_iff in Hb as [H1 H2]. apply andb_true_iff in Hn as [N1 N2]. now rewrite IHl, IHr.
  - now rewrite IH.
  - now rewrite IH.
  - rewrite <- !assoc_dlookup. destruct (assoc i d) as [v|] eqn:E; [|discriminate]. now rewrite (He _ _ E).
Qed.

Lemma bound_extends : forall d d' p, extends d d' -> bound d p = true -> bound d' p = true.
Proof.
  intros d d' p He.
  induction p as [n|n|n|l IHl r IHr|l IHl r IHr|x p IH|x p IH|i a1 a2 a3 a4 a5|p IHp x q IHq|p IHp x q IHq];
    intros Hb; cbn in *; auto.
  - apply andb_true_iff in Hb as [H1 H2]. now rewrite IHl, IHr.
  - apply andb_true_iff in Hb as [H1 H2]. now rewrite IHl, IHr.
  - destruct (assoc i d) as [v|] eqn:E; [|discriminate]. now rewrite (He _ _ E).
  - apply andb_true_iff in Hb as [H1 H2]. now rewrite IHp, IHq.
  - apply andb_true_iff in Hb as [H1 H2]. now rewrite IHp, IHq.
Qed.

(** soundness, for ANY pattern (a successful match never walks through a pending substitution, and
    the generator's instantiate ignores metavariable constraints): the returned map extends the
    seed, binds every metavariable of the pattern, and instantiating the pattern with it gives the
    instance *)
Lemma match_single_sound : forall p i ret ret',
  match_single p i ret = Some ret' ->
  extends ret ret' /\ nosub p = true /\ bound ret' p = true /\ PM.py_inst' ret' p = i.
Proof.
  induction p as [n|n|n|l IHl r IHr|l IHl r IHr|x p IH|x p IH|id a1 a2 a3 a4 a5|p IHp x q IHq|p IHp x q IHq];
    intros i ret ret' H; cbn [match_single] in H; try discriminate.
  - destruct i; try discriminate. destruct (N.eqb_spec n n0); [|discriminate]. injection H as <-. subst.
    repeat split; auto using extends_refl.
  - destruct i; try discriminate. destruct (N.eqb_spec n n0); [|discriminate]. injection H as <-. subst.
    repeat split; auto using extends_refl.
  - destruct i; try discriminate. destruct (N.eqb_spec n n0); [|discriminate]. injection H as <-. subst.
    repeat split; auto using extends_refl.
  - destruct i as [| | |l' r'| | | | | |]; try discriminate.
    destruct (match_single l l' ret) as [r1|] eqn:E1; [|discriminate].
    destruct (IHl _ _ _ E1) as (X1 & N1 & B1 & P1). destruct (IHr _ _ _ H) as (X2 & N2 & B2 & P2).
    split; [eauto using extends_trans|]. cbn. rewrite N1, N2, B2, (bound_extends _ _ _ X2 B1).
    repeat split. now rewrite P2, (py_inst'_extends _ _ _ X2 N1 B1), P1.
  - destruct i as [| | | |l' r'| | | | |]; try discriminate.
    destruct (match_single l l' ret) as [r1|] eqn:E1; [|discriminate].
    destruct (IHl _ _ _ E1) as (X1 & N1 & B1 & P1). destruct (IHr _ _ _ H) as (X2 & N2 & B2 & P2).
    split; [eauto using extends_trans|]. cbn. rewrite N1, N2, B2, (bound_extends _ _ _ X2 B1).
    repeat split. now rewrite P2, (py_inst'_extends _ _ _ X2 N1 B1), P1.
  - destruct i as [| | | | |y q'| | | |]; try discriminate. destruct (N.eqb_spec x y); [|discriminate]. subst.
    destruct (IH _ _ _ H) as (X & Nn & B & P). cbn. now rewrite P.
  - destruct i as [| | | | | |y q'| | |]; try discriminate. destruct (N.eqb_spec x y); [|discriminate]. subst.
    destruct (IH _ _ _ H) as (X & Nn & B & P). cbn. now rewrite P.
  - destruct (assoc id ret) as [v|] eqn:E.
    + destruct (pat_eqb v i) eqn:Ev; [|discriminate]. injection H as <-. apply pat_eqb_eq in Ev. subst.
      cbn. rewrite <- assoc_dlookup, E. auto using extends_refl.
    + injection H as <-. cbn. rewrite <- assoc_dlookup, (assoc_app_new _ _ i E).
      split; [|auto]. intros k w Hk. now apply assoc_app_l.
Qed.

Lemma dynamic_inst_py_spec : forall X d p S,
  conc X = Some p -> PM.py_inst d p = S -> conc (dynamic_inst X d) = Some S.
Proof.
  intros [[t c]|] d p S HX HS; cbn in HX; try discriminate. injection HX as ->.
  unfold dynamic_inst. destruct d; cbn in *; congruence.
Qed.

Lemma py_inst'_nil_closed : forall p, nosub p = true -> bound [] p = true -> PM.py_inst' [] p = p.
Proof.
  induction p as [n|n|n|l IHl r IHr|l IHl r IHr|x p IH|x p IH|i a1 a2 a3 a4 a5|p IHp x q IHq|p IHp x q IHq];
    intros Hn Hb; cbn in *; try reflexivity; try discriminate.
  - apply andb_true_iff in Hb as [H1 H2]. apply andb_true_iff in Hn as [N1 N2]. now rewrite IHl, IHr.
  - apply andb_true_iff in Hb as [H1 H2]. apply andb_true_iff in Hn as [N1 N2]. now rewrite IHl, IHr.
  - now rewrite IH.
  - now rewrite IH.
Qed.

(** what the *_match* rules rely on: instantiating the pattern side with the returned map gives the
    instance side *)
Lemma match_single_py_inst : forall b c th, match_single b c [] = Some th -> PM.py_inst th b = c.
Proof.
  intros b c th M. destruct (match_single_sound _ _ _ _ M) as (_ & Nn & B & P).
  destruct th; [|exact P]. cbn. rewrite <- P. symmetry. now apply py_inst'_nil_closed.
Qed.

Lemma dynamic_inst_imp_spec : forall X d a b,
  conc X = Some (Imp a b) -> conc (dynamic_inst X d) = Some (Imp (PM.py_inst d a) (PM.py_inst d b)).
Proof. intros X d a b H. eapply dynamic_inst_py_spec; [exact H|]. destruct d; reflexivity. Qed.

Lemma dynamic_inst_equiv_spec : forall X d a b,
  conc X = Some (p_equiv a b) ->
  conc (dynamic_inst X d) = Some (p_equiv (PM.py_inst d a) (PM.py_inst d b)).
Proof. intros X d a b H. eapply dynamic_inst_py_spec; [exact H|]. destruct d; reflexivity. Qed.

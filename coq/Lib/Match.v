(** match_single (pattern.py:12-67, modelled in Lib/Term.v) is sound on plain patterns, and
    instantiating a plain pattern is textbook replacement.  Used by the *_match* rules. *)
From Coq Require Import NArith List Bool Lia.
From Pi2 Require Import ML.Syntax ML.Subst Lib.Term Lib.TermFacts.
Import ListNotations.
Open Scope N_scope.

(** no pending substitution, no constrained metavariable (ids unrestricted) *)
Fixpoint plain (p : pat) : bool :=
  match p with
  | EVar _ | SVar _ | Sym _ => true
  | Imp l r | App l r => plain l && plain r
  | Ex _ q | Mu _ q => plain q
  | MVar _ [] [] [] [] [] => true
  | _ => false
  end.

(** textbook simultaneous instantiation *)
Fixpoint pinst (d : list (N * pat)) (p : pat) : pat :=
  match p with
  | Imp l r => Imp (pinst d l) (pinst d r)
  | App l r => App (pinst d l) (pinst d r)
  | Ex x q => Ex x (pinst d q)
  | Mu X q => Mu X (pinst d q)
  | MVar i _ _ _ _ _ => match assoc i d with Some v => v | None => p end
  | _ => p
  end.

(** every metavariable of [p] is bound by [d] *)
Fixpoint bound (d : list (N * pat)) (p : pat) : bool :=
  match p with
  | Imp l r | App l r => bound d l && bound d r
  | Ex _ q | Mu _ q => bound d q
  | MVar i _ _ _ _ _ => match assoc i d with Some _ => true | None => false end
  | ESub q _ plug | SSub q _ plug => bound d q && bound d plug
  | _ => true
  end.

Definition extends (d d' : list (N * pat)) : Prop := forall k v, assoc k d = Some v -> assoc k d' = Some v.

Lemma lookup_assoc : forall d i,
  lookup i (map fst d) (map snd d) = option_map Some (assoc i d).
Proof.
  induction d as [|[k v] d IH]; intros i; cbn; [reflexivity|].
  destruct (N.eqb k i); [reflexivity|]. apply IH.
Qed.

Lemma inst_plain : forall d p, plain p = true ->
  inst guards_sound p (map fst d) (map snd d) = Some (pinst d p).
Proof.
  intros d.
  induction p as [n|n|n|l IHl r IHr|l IHl r IHr|x p IH|x p IH|i a1 a2 a3 a4 a5|p IHp x q IHq|p IHp x q IHq];
    intros H; cbn [plain] in H; try discriminate; cbn [inst pinst]; try reflexivity.
  - apply andb_true_iff in H as [H1 H2]. now rewrite IHl, IHr.
  - apply andb_true_iff in H as [H1 H2]. now rewrite IHl, IHr.
  - now rewrite IH.
  - now rewrite IH.
  - destruct a1, a2, a3, a4, a5; try discriminate.
    rewrite lookup_assoc. destruct (assoc i d); reflexivity.
Qed.

Lemma pinst_nil : forall p, pinst [] p = p.
Proof.
  induction p as [n|n|n|l IHl r IHr|l IHl r IHr|x p IH|x p IH|i a1 a2 a3 a4 a5|p IHp x q IHq|p IHp x q IHq];
    cbn; rewrite ?IHl, ?IHr, ?IH; reflexivity.
Qed.

Lemma dynamic_inst_plain_spec : forall X d p,
  conc X = Some p -> plain p = true -> conc (dynamic_inst X d) = Some (pinst d p).
Proof.
  intros [[t c]|] d p HX Hp; cbn in HX; try discriminate. injection HX as ->.
  unfold dynamic_inst. destruct d as [|kv d].
  - cbn. now rewrite pinst_nil.
  - rewrite (inst_plain (kv :: d) p Hp). reflexivity.
Qed.

Lemma assoc_app_l : forall d e k v, assoc k d = Some v -> assoc k (d ++ e) = Some v.
Proof.
  induction d as [|[k' w] d IH]; intros e k v H; cbn in *; [discriminate|].
  destruct (N.eqb k' k); auto.
Qed.

Lemma extends_refl : forall d, extends d d. Proof. intros d k v H; exact H. Qed.
Lemma extends_trans : forall a b c, extends a b -> extends b c -> extends a c.
Proof. intros a b c H1 H2 k v H. auto. Qed.

Lemma pinst_extends : forall d d' p, extends d d' -> bound d p = true -> pinst d' p = pinst d p.
Proof.
  intros d d' p He.
  induction p as [n|n|n|l IHl r IHr|l IHl r IHr|x p IH|x p IH|i a1 a2 a3 a4 a5|p IHp x q IHq|p IHp x q IHq];
    intros Hb; cbn in *; try reflexivity.
  - apply andb_true_iff in Hb as [H1 H2]. now rewrite IHl, IHr.
  - apply andb_true_iff in Hb as [H1 H2]. now rewrite IHl, IHr.
  - now rewrite IH.
  - now rewrite IH.
  - destruct (assoc i d) as [v|] eqn:E; [|discriminate]. now rewrite (He _ _ E).
Qed.

Lemma bound_extends : forall d d' p, extends d d' -> bound d p = true -> bound d' p = true.
Proof.
  intros d d' p He.
  induction p as [n|n|n|l IHl r IHr|l IHl r IHr|x p IH|x p IH|i a1 a2 a3 a4 a5|p IHp x q IHq|p IHp x q IHq];
    intros Hb; cbn in *; auto.
  - apply andb_true_iff in Hb as [H1 H2]. now rewrite IHl, IHr.
  - apply andb_true_iff in Hb as [H1 H2]. now rewrite IHl, IHr.
  - destruct (assoc i d) as [v|] eqn:E; [|discriminate]. now rewrite (He _ _ E).
  - apply andb_true_iff in Hb as [H1 H2]. now rewrite IHp, IHq.
  - apply andb_true_iff in Hb as [H1 H2]. now rewrite IHp, IHq.
Qed.

(** soundness: the returned map extends the seed, binds every metavariable of the pattern, and
    instantiating the pattern with it gives the instance *)
Lemma match_single_sound : forall p i ret ret',
  plain p = true -> match_single p i ret = Some ret' ->
  extends ret ret' /\ bound ret' p = true /\ pinst ret' p = i.
Proof.
  induction p as [n|n|n|l IHl r IHr|l IHl r IHr|x p IH|x p IH|id a1 a2 a3 a4 a5|p IHp x q IHq|p IHp x q IHq];
    intros i ret ret' Hp H; cbn [plain] in Hp; cbn [match_single] in H; try discriminate.
  - destruct i; try discriminate. destruct (N.eqb_spec n n0); [|discriminate]. injection H as <-. subst.
    repeat split; auto using extends_refl.
  - destruct i; try discriminate. destruct (N.eqb_spec n n0); [|discriminate]. injection H as <-. subst.
    repeat split; auto using extends_refl.
  - destruct i; try discriminate. destruct (N.eqb_spec n n0); [|discriminate]. injection H as <-. subst.
    repeat split; auto using extends_refl.
  - apply andb_true_iff in Hp as [Hl Hr]. destruct i as [| | |l' r'| | | | | |]; try discriminate.
    destruct (match_single l l' ret) as [r1|] eqn:E1; [|discriminate].
    destruct (IHl _ _ _ Hl E1) as (X1 & B1 & P1). destruct (IHr _ _ _ Hr H) as (X2 & B2 & P2).
    split; [eauto using extends_trans|]. cbn. rewrite B2, (bound_extends _ _ _ X2 B1).
    split; [reflexivity|]. now rewrite P2, (pinst_extends _ _ _ X2 B1), P1.
  - apply andb_true_iff in Hp as [Hl Hr]. destruct i as [| | | |l' r'| | | | |]; try discriminate.
    destruct (match_single l l' ret) as [r1|] eqn:E1; [|discriminate].
    destruct (IHl _ _ _ Hl E1) as (X1 & B1 & P1). destruct (IHr _ _ _ Hr H) as (X2 & B2 & P2).
    split; [eauto using extends_trans|]. cbn. rewrite B2, (bound_extends _ _ _ X2 B1).
    split; [reflexivity|]. now rewrite P2, (pinst_extends _ _ _ X2 B1), P1.
  - destruct i as [| | | | |y q'| | | |]; try discriminate. destruct (N.eqb_spec x y); [|discriminate]. subst.
    destruct (IH _ _ _ Hp H) as (X & B & P). cbn. now rewrite P.
  - destruct i as [| | | | | |y q'| | |]; try discriminate. destruct (N.eqb_spec x y); [|discriminate]. subst.
    destruct (IH _ _ _ Hp H) as (X & B & P). cbn. now rewrite P.
  - destruct (assoc id ret) as [v|] eqn:E.
    + destruct (pat_eqb v i) eqn:Ev; [|discriminate]. injection H as <-. apply pat_eqb_eq in Ev. subst.
      cbn. rewrite E. auto using extends_refl.
    + injection H as <-. cbn. rewrite (assoc_app_new _ _ i E).
      split; [|auto]. intros k w Hk. now apply assoc_app_l.
Qed.

(** Hand-written statements for the library methods whose docstring is not a schema.
    [Definition <m>_stmt (f : <type of m>) : Prop]; Gen/PropLib.v proves [<m>_stmt <m>] right after
    the translated definition of [<m>] (by [lib_spec], or by [Ltac <m>_proof] when one is given here). *)
From Coq Require Import NArith List Bool.
From Pi2 Require Import ML.Syntax ML.Subst Lib.Term Lib.TermFacts Lib.Tactics.
Import ListNotations.
Open Scope N_scope.

(** propositional.py:57-64 (no docstring): the three axiom schemas at arbitrary patterns *)
Definition prop1_inst_stmt (f : pat -> pat -> thunk) : Prop :=
  forall p q, conc (f p q) = Some (Imp p (Imp q p)).
Definition prop2_inst_stmt (f : pat -> pat -> pat -> thunk) : Prop :=
  forall p q r, conc (f p q r) = Some (Imp (Imp p (Imp q r)) (Imp (Imp p q) (Imp p r))).
Definition dneg_elim_stmt (f : pat -> thunk) : Prop :=
  forall p, conc (f p) = Some (Imp (p_neg (p_neg p)) p).

(** tautology.py:329-339 (no docstring): congruence of /\ and \/ for <-> *)
Definition and_cong_stmt (f : thunk -> thunk -> thunk) : Prop :=
  forall pf1 pf2 a b c d,
    conc pf1 = Some (p_equiv a b) -> conc pf2 = Some (p_equiv c d) ->
    conc (f pf1 pf2) = Some (p_equiv (p_and a c) (p_and b d)).
Definition or_cong_stmt (f : thunk -> thunk -> thunk) : Prop :=
  forall pf1 pf2 a b c d,
    conc pf1 = Some (p_equiv a b) -> conc pf2 = Some (p_equiv c d) ->
    conc (f pf1 pf2) = Some (p_equiv (p_or a c) (p_or b d)).

(** Hand-written statements for the library methods whose docstring is not a schema.
    [Definition <m>_stmt (f : <type of m>) : Prop]; Gen/PropLib.v proves [<m>_stmt <m>] right after
    the translated definition of [<m>] (by [lib_spec], or by [Ltac <m>_proof] when one is given here). *)
From Coq Require Import NArith List Bool.
From Pi2 Require Import ML.Syntax ML.Subst Lib.Term Lib.TermFacts Lib.Tactics Lib.Match.
From Pi2 Require Gen.PropLib.   (* definitions only: the class axiom lists *)
Import ListNotations.
Open Scope N_scope.

(** propositional.py:57-64 (no docstring): the three axiom schemas at arbitrary patterns *)
Definition prop1_inst_stmt (f : pat -> pat -> thunk) : Prop :=
  forall p q, conc (f p q) = Some (Imp p (Imp q p)).
Definition prop2_inst_stmt (f : pat -> pat -> pat -> thunk) : Prop :=
  forall p q r, conc (f p q r) = Some (Imp (Imp p (Imp q r)) (Imp (Imp p q) (Imp p r))).
Definition dneg_elim_stmt (f : pat -> thunk) : Prop :=
  forall p, conc (f p) = Some (Imp (p_neg (p_neg p)) p).

(** tautology.py:329-339 (no docstring): congruence of /\ and \/ for <-> *)
Definition and_cong_stmt (f : thunk -> thunk -> thunk) : Prop :=
  forall pf1 pf2 a b c d,
    conc pf1 = Some (p_equiv a b) -> conc pf2 = Some (p_equiv c d) ->
    conc (f pf1 pf2) = Some (p_equiv (p_and a c) (p_and b d)).
Definition or_cong_stmt (f : thunk -> thunk -> thunk) : Prop :=
  forall pf1 pf2 a b c d,
    conc pf1 = Some (p_equiv a b) -> conc pf2 = Some (p_equiv c d) ->
    conc (f pf1 pf2) = Some (p_equiv (p_or a c) (p_or b d)).

(** tautology.py:166-182, 294-327: rules that first instantiate one premise with the map
    [match_single] returns (docstring is prose: "Same as imp_transitivity but h1 is instantiated to
    match h2").  Exact characterisation for ALL patterns, including when they raise ([None]);
    [PM.py_inst] is the generator's [Pattern.instantiate] (PTerm/Model.v). *)
Definition imp_trans_match1_stmt (f : thunk -> thunk -> thunk) : Prop :=
  forall h1 h2 a b c d, conc h1 = Some (Imp a b) -> conc h2 = Some (Imp c d) ->
    conc (f h1 h2) = match match_single b c [] with
                     | Some th => Some (Imp (PM.py_inst th a) d) | None => None end.
Definition imp_trans_match2_stmt (f : thunk -> thunk -> thunk) : Prop :=
  forall h1 h2 a b c d, conc h1 = Some (Imp a b) -> conc h2 = Some (Imp c d) ->
    conc (f h1 h2) = match match_single c b [] with
                     | Some th => Some (Imp a (PM.py_inst th d)) | None => None end.
Definition equiv_match_l_stmt (f : thunk -> pat -> thunk) : Prop :=
  forall h p a b, conc h = Some (p_equiv a b) ->
    conc (f h p) = match match_single a p [] with
                   | Some th => Some (p_equiv p (PM.py_inst th b)) | None => None end.
Definition equiv_match_r_stmt (f : thunk -> pat -> thunk) : Prop :=
  forall h p a b, conc h = Some (p_equiv a b) ->
    conc (f h p) = match match_single b p [] with
                   | Some th => Some (p_equiv (PM.py_inst th a) p) | None => None end.
Definition equiv_trans_match1_stmt (f : thunk -> thunk -> thunk) : Prop :=
  forall h1 h2 a b c d, conc h1 = Some (p_equiv a b) -> conc h2 = Some (p_equiv c d) ->
    conc (f h1 h2) = match match_single b c [] with
                     | Some th => Some (p_equiv (PM.py_inst th a) d) | None => None end.
Definition equiv_trans_match2_stmt (f : thunk -> thunk -> thunk) : Prop :=
  forall h1 h2 a b c d, conc h1 = Some (p_equiv a b) -> conc h2 = Some (p_equiv c d) ->
    conc (f h1 h2) = match match_single c b [] with
                     | Some th => Some (p_equiv a (PM.py_inst th d)) | None => None end.

Create HintDb plm.
#[global] Hint Resolve dynamic_inst_imp_spec dynamic_inst_equiv_spec : plm.

Ltac match_rule_proof m :=
  intros; unfold m; lib_norm; cbn zeta;
  match goal with
  | |- context [match_single ?b ?c []] =>
      let th := fresh "th" in
      let M := fresh "M" in
      destruct (match_single b c []) as [th|] eqn:M; cbn [bindc]; [|reflexivity];
      let P := fresh "P" in
      pose proof (match_single_py_inst b c th M) as P; subst c
  end;
  solve [ eauto 60 with pl plm nocore ].

Ltac imp_trans_match1_proof m := match_rule_proof m.
Ltac imp_trans_match2_proof m := match_rule_proof m.
Ltac equiv_match_l_proof m := match_rule_proof m.
Ltac equiv_match_r_proof m := match_rule_proof m.
Ltac equiv_trans_match1_proof m := match_rule_proof m.
Ltac equiv_trans_match2_proof m := match_rule_proof m.

(** proofs/substitution.py.  The docstrings use binders ("forall {var} . phi"), outside the schema grammar. *)
(** universal_gen:  phi |- forall var . phi    (forall x . p = ~ exists x . ~ p) *)
Definition universal_gen_stmt (f : thunk -> N -> thunk) : Prop :=
  forall phi x c, conc phi = Some c -> conc (f phi x) = Some (p_neg (Ex x (p_neg c))).
(** top_univgen:  forall x0 . T *)
Definition top_univgen_stmt (f : thunk) : Prop :=
  conc f = Some (p_neg (Ex 0 (p_neg p_top))).
(** functional_subst:  "exists x0 . p = x0,  forall x1 . q  |-  q[p/x1]".  What the method does is two modus
    ponens on the DECLARED axiom [exists x0. phi0 = x0 -> (forall x1. phi1) -> phi1[phi0/x1]] without
    instantiating it: it applies only when the premises are literally the axiom's antecedents (the
    metavariables phi0 (x0-fresh) and phi1 themselves), and concludes the axiom's consequent.  For any other
    p, q of the documented shape it raises (finding D-C10-2). *)
Definition functional_subst_stmt (f : thunk -> thunk -> thunk) : Prop :=
  forall h1 h2 a1 a2 c,
    nth_error Gen.PropLib.substitution_axioms 0 = Some (Imp a1 (Imp a2 c)) ->
    conc h1 = Some a1 -> conc h2 = Some a2 -> conc (f h1 h2) = Some c.
Ltac functional_subst_proof m :=
  intros;
  match goal with H : nth_error _ 0 = Some _ |- _ => cbn in H; injection H as <- <- <- end;
  lib_spec m.

(** Generalization needs the variable fresh in the consequent: here the consequent is bot *)
Ltac universal_gen_wf_proof m :=
  intros; unfold m;
  match goal with
  | |- owf true _ (bindc (conc ?h) _) =>
      let c := fresh "c" in
      let Hc := fresh "Hc" in
      destruct (conc h) as [c|] eqn:Hc; cbn [bindc]; [|exact I];
      apply gen_wf;
      [ solve [ eauto 50 with plwf nocore ]
      | let l := fresh "l" in
        let r := fresh "r" in
        let Hl := fresh "Hl" in
        intros l r Hl;
        match type of Hl with
        | conc ?X = _ =>
            let E := fresh "E" in
            assert (E : conc X = Some (Imp (Imp c p_bot) p_bot)) by (solve [ eauto 20 with pl nocore ]);
            rewrite E in Hl; injection Hl as <- <-; reflexivity
        end ]
  end.

(** proofs/small_theory.py (no docstrings): the two declared axioms and their composition *)
Definition sym0_implies_sym1_stmt (f : thunk) : Prop := conc f = Some (Imp (Sym 0) (Sym 1)).
Definition sym1_implies_sym2_stmt (f : thunk) : Prop := conc f = Some (Imp (Sym 1) (Sym 2)).
Definition sym0_implies_sym2_proof_stmt (f : thunk) : Prop := conc f = Some (Imp (Sym 0) (Sym 2)).

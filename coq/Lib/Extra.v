(** Hand-written statements for the library methods whose docstring is not a schema.
    [Definition <m>_stmt (f : <type of m>) : Prop]; Gen/PropLib.v proves [<m>_stmt <m>] right after
    the translated definition of [<m>] (by [lib_spec], or by [Ltac <m>_proof] when one is given here). *)
From Coq Require Import NArith List Bool.
From Pi2 Require Import ML.Syntax ML.Subst Lib.Term Lib.TermFacts Lib.Tactics Lib.Match.
Import ListNotations.
Open Scope N_scope.

(** propositional.py:57-64 (no docstring): the three axiom schemas at arbitrary patterns *)
Definition prop1_inst_stmt (f : pat -> pat -> thunk) : Prop :=
  forall p q, conc (f p q) = Some (Imp p (Imp q p)).
Definition prop2_inst_stmt (f : pat -> pat -> pat -> thunk) : Prop :=
  forall p q r, conc (f p q r) = Some (Imp (Imp p (Imp q r)) (Imp (Imp p q) (Imp p r))).
Definition dneg_elim_stmt (f : pat -> thunk) : Prop :=
  forall p, conc (f p) = Some (Imp (p_neg (p_neg p)) p).

(** tautology.py:329-339 (no docstring): congruence of /\ and \/ for <-> *)
Definition and_cong_stmt (f : thunk -> thunk -> thunk) : Prop :=
  forall pf1 pf2 a b c d,
    conc pf1 = Some (p_equiv a b) -> conc pf2 = Some (p_equiv c d) ->
    conc (f pf1 pf2) = Some (p_equiv (p_and a c) (p_and b d)).
Definition or_cong_stmt (f : thunk -> thunk -> thunk) : Prop :=
  forall pf1 pf2 a b c d,
    conc pf1 = Some (p_equiv a b) -> conc pf2 = Some (p_equiv c d) ->
    conc (f pf1 pf2) = Some (p_equiv (p_or a c) (p_or b d)).

(** tautology.py:166-182, 294-327: rules that first instantiate one premise with the map
    [match_single] returns (docstring is prose: "Same as imp_transitivity but h1 is instantiated to
    match h2").  Exact characterisation, including when they raise ([None]); the instantiated premise
    must be plain (no constrained metavariable / pending substitution: there the generator's
    instantiate and the checker's differ, DESIGN D9). *)
Definition imp_trans_match1_stmt (f : thunk -> thunk -> thunk) : Prop :=
  forall h1 h2 a b c d, conc h1 = Some (Imp a b) -> conc h2 = Some (Imp c d) ->
    plain a = true -> plain b = true ->
    conc (f h1 h2) = match match_single b c [] with
                     | Some th => Some (Imp (pinst th a) d) | None => None end.
Definition imp_trans_match2_stmt (f : thunk -> thunk -> thunk) : Prop :=
  forall h1 h2 a b c d, conc h1 = Some (Imp a b) -> conc h2 = Some (Imp c d) ->
    plain c = true -> plain d = true ->
    conc (f h1 h2) = match match_single c b [] with
                     | Some th => Some (Imp a (pinst th d)) | None => None end.
Definition equiv_match_l_stmt (f : thunk -> pat -> thunk) : Prop :=
  forall h p a b, conc h = Some (p_equiv a b) -> plain a = true -> plain b = true ->
    conc (f h p) = match match_single a p [] with
                   | Some th => Some (p_equiv p (pinst th b)) | None => None end.
Definition equiv_match_r_stmt (f : thunk -> pat -> thunk) : Prop :=
  forall h p a b, conc h = Some (p_equiv a b) -> plain a = true -> plain b = true ->
    conc (f h p) = match match_single b p [] with
                   | Some th => Some (p_equiv (pinst th a) p) | None => None end.
Definition equiv_trans_match1_stmt (f : thunk -> thunk -> thunk) : Prop :=
  forall h1 h2 a b c d, conc h1 = Some (p_equiv a b) -> conc h2 = Some (p_equiv c d) ->
    plain a = true -> plain b = true ->
    conc (f h1 h2) = match match_single b c [] with
                     | Some th => Some (p_equiv (pinst th a) d) | None => None end.
Definition equiv_trans_match2_stmt (f : thunk -> thunk -> thunk) : Prop :=
  forall h1 h2 a b c d, conc h1 = Some (p_equiv a b) -> conc h2 = Some (p_equiv c d) ->
    plain c = true -> plain d = true ->
    conc (f h1 h2) = match match_single c b [] with
                     | Some th => Some (p_equiv a (pinst th d)) | None => None end.

Create HintDb plm.
Lemma dynamic_inst_plain_spec' : forall X d p S,
  conc X = Some p -> plain p = true -> pinst d p = S -> conc (dynamic_inst X d) = Some S.
Proof. intros X d p S H1 H2 <-. now apply dynamic_inst_plain_spec. Qed.
#[global] Hint Resolve dynamic_inst_plain_spec' : plm.
#[global] Hint Extern 1 (plain _ = true) =>
  cbn [plain]; repeat match goal with H : plain _ = true |- _ => rewrite H end; reflexivity : plm.

Ltac match_rule_proof m :=
  intros; unfold m; lib_norm; cbn zeta;
  match goal with
  | |- context [match_single ?b ?c []] =>
      let th := fresh "th" in
      let M := fresh "M" in
      destruct (match_single b c []) as [th|] eqn:M; cbn [bindc]; [|reflexivity];
      match goal with
      | Hb : plain b = true |- _ =>
          let P := fresh "P" in
          destruct (match_single_sound b c [] th Hb M) as (_ & _ & P); subst c
      end
  end;
  solve [ eauto 60 with pl plm nocore ].

Ltac imp_trans_match1_proof m := match_rule_proof m.
Ltac imp_trans_match2_proof m := match_rule_proof m.
Ltac equiv_match_l_proof m := match_rule_proof m.
Ltac equiv_match_r_proof m := match_rule_proof m.
Ltac equiv_trans_match1_proof m := match_rule_proof m.
Ltac equiv_trans_match2_proof m := match_rule_proof m.

(** C10 (replays): running the rule instructions of a proof term on the checker's stack machine
    (ML/Machine.v [step_i], sound guards) leaves [Proved (static conclusion)] on the stack.
    Plug patterns of [Instantiate] are pushed as already-built patterns (their construction
    instructions are C02's business); declared assumptions are fetched from memory by [Load]. *)
From Coq Require Import NArith List Bool Lia.
From Pi2 Require Import ML.Syntax ML.Subst ML.Machine Lib.Term Lib.TermFacts.
Import ListNotations.
Open Scope N_scope.

Definition run1 (i : instr) (bs : list N) (st : state) : option state :=
  match step_i guards_sound Proof i bs st with
  | Some ([], st') => Some st'
  | _ => None
  end.

Fixpoint find_slot (a : pat) (mem : list term) : option nat :=
  match mem with
  | [] => None
  | TProved b :: m => if pat_eqb a b then Some O else option_map S (find_slot a m)
  | TPat _ :: m => option_map S (find_slot a m)
  end.

Definition axioms_in_memory (axs : list pat) (mem : list term) : Prop :=
  forall a, existsb (pat_eqb a) axs = true -> find_slot a mem <> None.

Definition push_plugs (plugs : list pat) (st : state) : state :=
  fold_left (fun s p => push (TPat p) s) (rev plugs) st.

Fixpoint replay (t : pterm) (st : state) : option state :=
  match t with
  | Prop1 => run1 IProp1 [] st
  | Prop2 => run1 IProp2 [] st
  | Prop3 => run1 IProp3 [] st
  | MP l r =>
      match replay l st with
      | Some s1 => match replay r s1 with
                   | Some s2 => run1 IMP [] s2
                   | None => None end
      | None => None end
  | Inst t d =>
      match replay t (push_plugs (map snd d) st) with
      | Some s2 => run1 IInst (N.of_nat (length d) :: map fst d) s2
      | None => None end
  | LoadAx a =>
      match find_slot a (memory st) with
      | Some i => run1 ILoad [N.of_nat i] st
      | None => None end
  | Gen t x =>
      match replay t st with
      | Some s1 => run1 IGen [x] s1
      | None => None end
  end.

(** every Instantiate of the term is one on which the checker computes what the generator advertised
    (the stored conclusions are the generator's [Pattern.instantiate]; cf. PTerm [inst_agree]) *)
Fixpoint checker_agrees (axs : list pat) (t : pterm) : bool :=
  match t with
  | MP l r => checker_agrees axs l && checker_agrees axs r
  | Inst t d =>
      checker_agrees axs t &&
      match static_conc true axs t with
      | Some c => match inst guards_sound c (map fst d) (map snd d) with
                  | Some r => pat_eqb r (PM.py_inst d c)
                  | None => false end
      | None => false end
  | Gen t _ => checker_agrees axs t
  | _ => true
  end.

Lemma find_slot_nth : forall a mem i, find_slot a mem = Some i -> nth_error mem i = Some (TProved a).
Proof.
  induction mem as [|t mem IH]; intros i H; cbn in H; [discriminate|].
  destruct t as [p|b].
  - destruct (find_slot a mem) as [j|]; [|discriminate]. injection H as <-. cbn. auto.
  - destruct (pat_eqb a b) eqn:E.
    + injection H as <-. apply pat_eqb_eq in E. now subst.
    + destruct (find_slot a mem) as [j|]; [|discriminate]. injection H as <-. cbn. auto.
Qed.

Lemma push_plugs_stack : forall plugs st,
  stack (push_plugs plugs st) = map TPat plugs ++ stack st /\
  memory (push_plugs plugs st) = memory st /\ claims (push_plugs plugs st) = claims st.
Proof.
  intros plugs st. unfold push_plugs.
  assert (G : forall l s, stack (fold_left (fun s p => push (TPat p) s) l s) = map TPat (rev l) ++ stack s /\
                          memory (fold_left (fun s p => push (TPat p) s) l s) = memory s /\
                          claims (fold_left (fun s p => push (TPat p) s) l s) = claims s).
  { induction l as [|p l IH]; intros s; cbn [fold_left]; [cbn; auto|].
    destruct (IH (push (TPat p) s)) as (H1 & H2 & H3). rewrite H1, H2, H3. cbn [rev].
    rewrite map_app. cbn. rewrite <- app_assoc. cbn. auto. }
  destruct (G (rev plugs) st) as (H1 & H2 & H3). now rewrite rev_involutive in H1.
Qed.

Lemma take_ids_plugs : forall ids plugs s,
  length ids = length plugs ->
  take_ids true (length ids) ids (map TPat plugs ++ s) = Some (ids, plugs, [], s).
Proof.
  induction ids as [|i ids IH]; intros [|p plugs] s H; cbn in H; try discriminate; cbn; [reflexivity|].
  injection H as H. now rewrite (IH plugs s H).
Qed.

Theorem replay_correct : forall axs t c st,
  static_conc true axs t = Some c ->
  checker_agrees axs t = true ->
  axioms_in_memory axs (memory st) ->
  replay t st = Some (push (TProved c) st).
Proof.
  intros axs. induction t as [| | |l IHl r IHr|t IH d|a|t IH x]; intros c st H A Hmem; cbn [static_conc] in H.
  - injection H as <-. reflexivity.
  - injection H as <-. reflexivity.
  - injection H as <-. reflexivity.
  - cbn in A. apply andb_true_iff in A as [A1 A2].
    destruct (static_conc true axs l) as [cl|] eqn:El; [|discriminate].
    destruct (static_conc true axs r) as [cr|] eqn:Er; [|destruct cl; discriminate].
    destruct cl as [| | |p q| | | | | |]; try discriminate.
    destruct (pat_eqb p cr) eqn:E; [|discriminate]. injection H as <-.
    cbn [replay]. rewrite (IHl _ st eq_refl A1 Hmem).
    rewrite (IHr _ (push (TProved (Imp p q)) st) eq_refl A2 Hmem).
    unfold run1. cbn. rewrite E. destruct st; reflexivity.
  - cbn [checker_agrees] in A. apply andb_true_iff in A as [A1 A2].
    destruct (static_conc true axs t) as [c0|] eqn:Et; [|discriminate].
    cbn in H. injection H as <-.
    destruct (inst guards_sound c0 (map fst d) (map snd d)) as [r|] eqn:EI; [|discriminate].
    apply pat_eqb_eq in A2. subst r.
    cbn [replay].
    destruct (push_plugs_stack (map snd d) st) as (Hs & Hm & Hc).
    assert (Hmem' : axioms_in_memory axs (memory (push_plugs (map snd d) st))) by now rewrite Hm.
    rewrite (IH _ _ eq_refl A1 Hmem').
    unfold run1. cbn [step_i push stack]. rewrite Nat2N.id.
    replace (length d) with (length (map fst d)) by apply map_length.
    rewrite Hs, take_ids_plugs by now rewrite !map_length.
    rewrite EI. unfold set_stack, push. rewrite Hm, Hc. destruct st; reflexivity.
  - destruct (existsb (pat_eqb a) axs) eqn:E; [|discriminate]. injection H as <-.
    cbn [replay]. specialize (Hmem a E).
    destruct (find_slot a (memory st)) as [i|] eqn:F; [|congruence].
    unfold run1. cbn [step_i]. rewrite Nat2N.id, (find_slot_nth _ _ _ F). reflexivity.
  - cbn in A. destruct (static_conc true axs t) as [c0|] eqn:Et; [|discriminate].
    destruct c0 as [| | |l r| | | | | |]; try discriminate.
    cbn in H. destruct (e_fresh r x) eqn:F; [|discriminate]. injection H as <-.
    cbn [replay]. rewrite (IH _ st eq_refl A Hmem).
    unfold run1. cbn. rewrite F. destruct st; reflexivity.
Qed.

(** M5 / C10: proof terms of the generator's DSL (generation/src/proof_generation/proof.py) over
    patterns with the propositional notations EXPANDED (pattern.py:585-590):

      bot = Mu 0 (SVar 0)       neg p = p -> bot        top = neg bot
      and p q = neg (p -> neg q)    or p q = neg p -> q    equiv p q = and (p -> q) (q -> p)

    A [ProofThunk] is a closure plus the conclusion computed when the thunk was BUILT
    (proof.py:34-46); the model keeps the same two components: the proof term the closure would
    replay, and the stored conclusion.  A Python exception while building (failed [assert],
    [Implies.extract] on a non-implication, notation mismatch) is [None].
    Definitions only; facts are in Lib/TermFacts.v. *)
From Coq Require Import NArith List Bool.
From Pi2 Require Import ML.Syntax ML.Subst.
From Pi2 Require PTerm.Model.
Import ListNotations.
Open Scope N_scope.

(** unconstrained metavariable [MetaVar(n)] *)
Notation phi n := (MVar n [] [] [] [] []) (only parsing).
Notation p_bot := (Mu 0 (SVar 0)) (only parsing).
Notation p_neg a := (Imp a p_bot) (only parsing).
Notation p_top := (p_neg p_bot) (only parsing).
Notation p_and a b := (p_neg (Imp a (p_neg b))) (only parsing).
Notation p_or a b := (Imp (p_neg a) b) (only parsing).
Notation p_equiv a b := (p_and (Imp a b) (Imp b a)) (only parsing).

(** proof.py:141-153 (= BasicInterpreter.prop1/2/3 = lib.rs prop1..3) *)
Definition ax1 : pat := Imp (phi 0) (Imp (phi 1) (phi 0)).
Definition ax2 : pat :=
  Imp (Imp (phi 0) (Imp (phi 1) (phi 2))) (Imp (Imp (phi 0) (phi 1)) (Imp (phi 0) (phi 2))).
Definition ax3 : pat := Imp (p_neg (p_neg (phi 0))) (phi 0).

(** what a thunk replays on an interpreter: only the three propositional schemas, modus ponens,
    instantiation (insertion-ordered map, like the Python dict) and loading a declared assumption *)
Inductive pterm :=
| Prop1 | Prop2 | Prop3
| MP (l r : pterm)
| Inst (t : pterm) (delta : list (N * pat))
| LoadAx (a : pat)
| Gen (t : pterm) (x : N).       (* exists_generalization: only proofs/substitution.py uses it *)

(** [Pattern.instantiate] as the GENERATOR computes it (pattern.py; model shared with C02/C08:
    PTerm/Model.v [py_inst]: metavariable constraints are ignored, pending substitutions are applied
    with the generator's capture-unaware [apply_esubst]/[apply_ssubst]).  Whether the checker's
    Instantiate agrees is a side condition of the replay theorems (Lib/Embed.v), not of the schemas. *)

(** The documented rules (docs/proof-language.md; BasicInterpreter): conclusion of a proof term
    relative to the module's declared assumptions [axs]; [None] = some rule does not apply. *)
Fixpoint static_conc (g : bool) (axs : list pat) (t : pterm) : option pat :=
  match t with
  | Prop1 => Some ax1
  | Prop2 => Some ax2
  | Prop3 => Some ax3
  | MP l r =>
      match static_conc g axs l, static_conc g axs r with
      | Some (Imp p q), Some p' => if pat_eqb p p' then Some q else None
      | _, _ => None
      end
  | Inst t delta => option_map (Pi2.PTerm.Model.py_inst delta) (static_conc g axs t)
  | LoadAx a => if existsb (pat_eqb a) axs then Some a else None
  | Gen t x =>
      (* Generalization (allowed only when [g]): the generalised variable must be fresh in the consequent *)
      match static_conc g axs t with
      | Some (Imp l r) => if g && e_fresh r x then Some (Imp (Ex x l) r) else None
      | _ => None
      end
  end.

(** only Prop1-3 / MP / Inst occur by typing; the remaining leaves must be declared assumptions *)
Fixpoint uses_only (axs : list pat) (t : pterm) : bool :=
  match t with
  | Prop1 | Prop2 | Prop3 => true
  | MP l r => uses_only axs l && uses_only axs r
  | Inst t _ => uses_only axs t
  | LoadAx a => existsb (pat_eqb a) axs
  | Gen _ _ => false
  end.

(** number of rule applications *)
Fixpoint psize (t : pterm) : N :=
  match t with
  | MP l r => 1 + psize l + psize r
  | Inst t _ | Gen t _ => 1 + psize t
  | _ => 1
  end.

(** [ProofThunk] or the exception raised while building it *)
Definition thunk := option (pterm * pat).
Definition conc (t : thunk) : option pat := option_map snd t.
Definition term_of (t : thunk) : option pterm := option_map fst t.

(** run-time re-check of proof.py:42-46: replaying the term yields the stored conclusion *)
Definition owf (g : bool) (axs : list pat) (t : thunk) : Prop :=
  match t with
  | Some (tm, c) => static_conc g axs tm = Some c
  | None => True
  end.

(** every assumption a class declares is declared in the module the term is replayed in *)
Definition ax_incl (a b : list pat) : Prop :=
  forall x, existsb (pat_eqb x) a = true -> existsb (pat_eqb x) b = true.

(** monadic glue for straight-line method bodies *)
Definition bindc {A : Type} (x : option A) (k : A -> thunk) : thunk :=
  match x with Some a => k a | None => None end.
Definition guard (b : bool) (t : thunk) : thunk := if b then t else None.

(** [Implies.extract(x)]  (pattern.py:110-114; on expansions: the top constructor is Implies) *)
Definition extract_imp (c : option pat) : option (pat * pat) :=
  match c with Some (Imp a b) => Some (a, b) | _ => None end.
(** [neg.assert_matches(x)[0]], [_and/_or/equiv.assert_matches(x)] (pattern.py:559-568 through
    match_single on the notation's definition, on expansions) *)
Definition match_neg (c : option pat) : option pat :=
  match c with Some (Imp a (Mu 0 (SVar 0))) => Some a | _ => None end.
Definition match_and (c : option pat) : option (pat * pat) :=
  match c with
  | Some (Imp (Imp a (Imp b (Mu 0 (SVar 0)))) (Mu 0 (SVar 0))) => Some (a, b)
  | _ => None end.
Definition match_or (c : option pat) : option (pat * pat) :=
  match c with Some (Imp (Imp a (Mu 0 (SVar 0))) b) => Some (a, b) | _ => None end.
(** equiv's definition mentions phi0 and phi1 twice: the second occurrences are compared with [!=] *)
Definition match_equiv (c : option pat) : option (pat * pat) :=
  match match_and c with
  | Some (Imp a b, Imp b' a') => if pat_eqb b b' && pat_eqb a a' then Some (a, b) else None
  | _ => None end.

(** ProofExp.prop1/2/3, modus_ponens, dynamic_inst, load_axiom(_by_index)  (proof.py:130-191) *)
Definition prop1 : thunk := Some (Prop1, ax1).
Definition prop2 : thunk := Some (Prop2, ax2).
Definition prop3 : thunk := Some (Prop3, ax3).

Definition mp (l r : thunk) : thunk :=
  match l, r with
  | Some (tl, Imp p q), Some (tr, cr) => if pat_eqb p cr then Some (MP tl tr, q) else None
  | _, _ => None
  end.

Definition dynamic_inst (pf : thunk) (delta : list (N * pat)) : thunk :=
  match pf with
  | None => None
  | Some (t, c) =>
      match delta with
      | [] => pf
      | _ => Some (Inst t delta, Pi2.PTerm.Model.py_inst' delta c)
      end
  end.

(** ProofExp.exists_generalization (proof.py:167-172): no freshness check when the thunk is BUILT *)
Definition gen (pf : thunk) (x : N) : thunk :=
  match pf with
  | Some (t, Imp l r) => Some (Gen t x, Imp (Ex x l) r)
  | _ => None
  end.

Definition load_ax (axs : list pat) (a : pat) : thunk :=
  if existsb (pat_eqb a) axs then Some (LoadAx a, a) else None.
Definition load_ax_by_index (axs : list pat) (i : nat) : thunk :=
  match nth_error axs i with Some a => load_ax axs a | None => None end.

(** propositional.py:17-22 [_build_subst]: position i is kept unless the argument is MetaVar(i) *)
Fixpoint build_subst_from (i : N) (ps : list pat) : list (N * pat) :=
  match ps with
  | [] => []
  | p :: ps' => if pat_eqb p (phi i) then build_subst_from (i + 1) ps'
                else (i, p) :: build_subst_from (i + 1) ps'
  end.
Definition build_subst (ps : list pat) : list (N * pat) := build_subst_from 0 ps.

(** patterns on which instantiation is plain replacement: no constrained metavariable, no pending
    substitution, every metavariable id below [n] *)
Fixpoint simple (n : N) (p : pat) : bool :=
  match p with
  | EVar _ | SVar _ | Sym _ => true
  | Imp l r | App l r => simple n l && simple n r
  | Ex _ q | Mu _ q => simple n q
  | MVar i [] [] [] [] [] => i <? n
  | _ => false
  end.
Fixpoint msubst (ps : list pat) (p : pat) : pat :=
  match p with
  | Imp l r => Imp (msubst ps l) (msubst ps r)
  | App l r => App (msubst ps l) (msubst ps r)
  | Ex x q => Ex x (msubst ps q)
  | Mu X q => Mu X (msubst ps q)
  | MVar i [] [] [] [] [] => nth (N.to_nat i) ps p
  | _ => p
  end.

(** pattern.py:12-67 [match_single] on expansions; the dict is an insertion-ordered list *)
Fixpoint assoc (i : N) (d : list (N * pat)) : option pat :=
  match d with
  | [] => None
  | (k, v) :: d' => if N.eqb k i then Some v else assoc i d'
  end.
Fixpoint match_single (p inst : pat) (ret : list (N * pat)) : option (list (N * pat)) :=
  match p with
  | MVar id _ _ _ _ _ =>
      match assoc id ret with
      | Some v => if pat_eqb v inst then Some ret else None
      | None => Some (ret ++ [(id, inst)])
      end
  | Imp l r => match inst with
               | Imp l' r' => match match_single l l' ret with
                              | Some ret' => match_single r r' ret' | None => None end
               | _ => None end
  | EVar n => match inst with EVar m => if N.eqb n m then Some ret else None | _ => None end
  | SVar n => match inst with SVar m => if N.eqb n m then Some ret else None | _ => None end
  | Sym n => match inst with Sym m => if N.eqb n m then Some ret else None | _ => None end
  | App l r => match inst with
               | App l' r' => match match_single l l' ret with
                              | Some ret' => match_single r r' ret' | None => None end
               | _ => None end
  | Ex x q => match inst with
              | Ex y q' => if N.eqb x y then match_single q q' ret else None | _ => None end
  | Mu x q => match inst with
              | Mu y q' => if N.eqb x y then match_single q q' ret else None | _ => None end
  | ESub _ _ _ | SSub _ _ _ => None
  end.

(** the rule instructions a term replays, in order (what a recording interpreter sees) *)
Inductive rule := RProp1 | RProp2 | RProp3 | RMP | RInst (delta : list (N * pat)) | RLoad (a : pat) | RGen (x : N).
Fixpoint trace (t : pterm) : list rule :=
  match t with
  | Prop1 => [RProp1] | Prop2 => [RProp2] | Prop3 => [RProp3]
  | MP l r => trace l ++ trace r ++ [RMP]
  | Inst t d => trace t ++ [RInst d]
  | LoadAx a => [RLoad a]
  | Gen t x => trace t ++ [RGen x]
  end.

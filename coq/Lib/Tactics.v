(** The two generic tactics that prove every generated lemma of Gen/PropLib.v.

    [lib_spec m]  proves  [premise conclusions -> conc (m args) = Some schema]:
       unfold the method, feed the premise shapes through the extractors, discharge the
       [assert a == b] guards by reflexivity of [pat_eqb], then chain the specs of the called
       rules (hint database [pl]; the called methods themselves stay opaque).
    [lib_wf m]    proves  [owf axs premises -> owf axs (m args)]  structurally (database [plwf]). *)
From Coq Require Import NArith List Bool.
From Pi2 Require Import ML.Syntax ML.Subst Lib.Term Lib.TermFacts.
Import ListNotations.
Open Scope N_scope.

Create HintDb pl.
Create HintDb plwf.
Create HintDb plunf.

#[global] Hint Resolve mp_spec prop1_spec prop2_spec prop3_spec gen_spec : pl.
#[global] Hint Extern 1 (conc (load_ax _ _) = Some _) =>
  apply load_ax_spec; vm_compute; reflexivity : pl.
#[global] Hint Extern 1 (conc (dynamic_inst _ (build_subst _)) = Some _) =>
  eapply dynamic_inst_build_spec : pl.
#[global] Hint Extern 1 (conc (load_ax_by_index _ _) = Some _) =>
  apply load_ax_by_index_spec; reflexivity : pl.
#[global] Hint Extern 2 (@eq bool _ _) => reflexivity : pl.
#[global] Hint Extern 2 (@eq pat _ _) => reflexivity : pl.

Ltac lib_rewrite_hyps :=
  repeat match goal with
         | H : conc ?h = Some _ |- context [conc ?h] => progress (rewrite H)
         end.

Ltac lib_norm :=
  repeat (progress (lib_rewrite_hyps;
                    cbn [bindc guard extract_imp match_neg match_and match_or];
                    rewrite ?match_equiv_eq, ?pat_eqb_refl)).

Ltac lib_spec m :=
  intros; unfold m; autounfold with plunf;
  lib_norm;
  solve [ eauto 200 with pl nocore ].

#[global] Hint Resolve prop1_wf prop2_wf prop3_wf mp_wf dynamic_inst_wf guard_wf none_wf
  load_ax_by_index_incl_wf load_ax_incl_wf ax_incl_nil ax_incl_refl : plwf.
#[global] Hint Extern 1 (owf _ _ (bindc _ _)) =>
  first [ apply bindc_pair_wf | apply bindc_wf ]; intros; cbn beta iota zeta : plwf.
#[global] Hint Extern 1 (owf _ _ (let _ := _ in _)) => cbn zeta : plwf.

Ltac lib_wf m :=
  intros; unfold m; autounfold with plunf; cbn zeta;
  solve [ eauto 200 with plwf nocore ].

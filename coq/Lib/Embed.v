(** C10 (replays, full): the library's proof terms (Lib/Term.v) embedded into the serialiser model of
    C02 (PTerm/Model.v), so that [C02_compile_correct] applies: the BYTES the serialising interpreter
    emits for the term (pattern construction of every plug included, under any memoiser stack) run
    on the checker model [ML/Machine.v exec guards_sound] to [Proved <conclusion>].

    Class of arguments covered: [gok] thunks and [pat_wf] patterns --
      * every pattern handed to a rule is [PM.pat_wf]: ANY meta-pattern the checker accepts when it is
        built (constrained metavariables whose holes and e_fresh lists are disjoint, pending
        ESubst/SSubst that are non-redundant and meta-headed, positive Mu);
      * every premise thunk is [gok]: its term passes C02's [wf_for_checker] (each Instantiate in it is
        one on which checker and generator agree), its stored conclusion is the static one and is
        [pat_wf];
      * only for the rules that RE-INSTANTIATE A PREMISE (the six *_match* rules): that premise's
        conclusion is [LibWf.simple] (substitution-free, unconstrained metavariables).  Without this the
        statement is false: [replays_refuted_constrained], [replays_refuted_capture] below. *)
From Coq Require Import NArith List Bool Lia.
From Pi2 Require Import ML.Syntax ML.Subst ML.Machine Lib.Term Lib.TermFacts Lib.Match.
From Pi2 Require PTerm.Model PTerm.Facts PTerm.MapSym PTerm.Compile PTerm.LibWf.
Import ListNotations.
Open Scope N_scope.

Module PW := Pi2.PTerm.LibWf.
Module PC := Pi2.PTerm.Compile.
Module PS := Pi2.PTerm.MapSym.
Module PF := Pi2.PTerm.Facts.

Fixpoint emb (t : pterm) : PM.pterm :=
  match t with
  | Prop1 => PM.PProp1
  | Prop2 => PM.PProp2
  | Prop3 => PM.PProp3
  | MP l r => PM.PMP (emb l) (emb r)
  | Inst t d => PM.PDynInst (emb t) d
  | LoadAx a => PM.PLoadAxiom a
  | Gen t x => PM.PGen (emb t) x
  end.

Notation pwf := PM.pat_wf.

Lemma emb_dynamic : forall t, PM.dynamic (emb t) = true.
Proof. induction t; cbn; rewrite ?IHt1, ?IHt2, ?IHt; reflexivity. Qed.

(** the embedding preserves the static conclusion (C02's [static_conc] is the generator's: no
    freshness check on Generalization) *)
Lemma emb_static : forall g axs t c, static_conc g axs t = Some c -> PM.static_conc axs (emb t) = Some c.
Proof.
  intros g axs. induction t as [| | |l IHl r IHr|t IH d|a|t IH x]; intros c H; cbn in *; auto.
  - destruct (static_conc g axs l) as [cl|]; [|discriminate].
    destruct (static_conc g axs r) as [cr|]; [|destruct cl; discriminate].
    now rewrite (IHl _ eq_refl), (IHr _ eq_refl).
  - destruct (static_conc g axs t) as [c0|]; [|discriminate]. rewrite (IH _ eq_refl).
    cbn in H. destruct d; [cbn in H|]; exact H.
  - destruct (static_conc g axs t) as [c0|]; [|discriminate]. rewrite (IH _ eq_refl).
    destruct c0; try discriminate. destruct (g && e_fresh c0_2 x); [exact H|discriminate].
Qed.

(** a thunk the checker will accept: C02's side conditions hold for its term, the stored conclusion is
    the static one, and it may itself be used as a plug *)
Definition gok (axs : list pat) (x : thunk) : Prop :=
  match x with
  | Some (t, c) => PM.wf_for_checker axs (emb t) = true /\ PM.static_conc axs (emb t) = Some c /\ pwf c = true
  | None => True
  end.

(** the thunk's conclusion is substitution-free with unconstrained metavariables only *)
Definition csimple (x : thunk) : Prop :=
  match x with Some (_, c) => PW.simple c = true | None => True end.

(** * pat_wf is closed under what the library does with patterns *)
Lemma pwf_imp : forall a b, pwf a = true -> pwf b = true -> pwf (Imp a b) = true.
Proof. intros a b Ha Hb. cbn. now rewrite Ha, Hb. Qed.
Lemma pwf_imp_inv : forall a b, pwf (Imp a b) = true -> pwf a = true /\ pwf b = true.
Proof. intros a b H. cbn in H. now apply andb_true_iff in H. Qed.
Lemma pwf_bot : pwf (Mu 0 (SVar 0)) = true. Proof. reflexivity. Qed.
Lemma pwf_phi : forall k, pwf (MVar k [] [] [] [] []) = true. Proof. reflexivity. Qed.
Lemma pwf_ex : forall x a, pwf a = true -> pwf (Ex x a) = true. Proof. intros; assumption. Qed.

Lemma dlookup_In : forall d i q, PM.dlookup i d = Some q -> In q (PM.dvals d).
Proof.
  induction d as [|[k v] d IH]; intros i q H; cbn in *; [discriminate|].
  destruct (N.eqb i k); [injection H as <-; auto | right; eauto].
Qed.

Lemma forallb_In : forall (f : pat -> bool) l x, forallb f l = true -> In x l -> f x = true.
Proof. intros f l x H Hx. rewrite forallb_forall in H. auto. Qed.

(** instantiating a simple, checker-well-formed pattern with ARBITRARY well-formed plugs stays
    well-formed (under a positive Mu there is no unconstrained metavariable, so nothing is replaced) *)
Lemma py_inst'_wf : forall d, forallb pwf (PM.dvals d) = true ->
  forall p, PW.simple p = true -> pwf p = true ->
  (forall b X, polar b p X = true -> PM.py_inst' d p = p) /\ pwf (PM.py_inst' d p) = true.
Proof.
  intros d D.
  induction p as [n|n|n|l IHl r IHr|l IHl r IHr|x p IH|x p IH|i a1 a2 a3 a4 a5|p IHp x q IHq|p IHp x q IHq];
    intros S W; cbn [PW.simple] in S; try discriminate; cbn [PM.pat_wf] in W; cbn [PM.py_inst'].
  - auto.
  - auto.
  - auto.
  - apply andb_true_iff in S as [S1 S2]. apply andb_true_iff in W as [W1 W2].
    destruct (IHl S1 W1) as [L1 L2]. destruct (IHr S2 W2) as [R1 R2]. split.
    + intros b X H. cbn in H. apply andb_true_iff in H as [H1 H2]. now rewrite (L1 _ _ H1), (R1 _ _ H2).
    + cbn. now rewrite L2, R2.
  - apply andb_true_iff in S as [S1 S2]. apply andb_true_iff in W as [W1 W2].
    destruct (IHl S1 W1) as [L1 L2]. destruct (IHr S2 W2) as [R1 R2]. split.
    + intros b X H. cbn in H. apply andb_true_iff in H as [H1 H2]. now rewrite (L1 _ _ H1), (R1 _ _ H2).
    + cbn. now rewrite L2, R2.
  - destruct (IH S W) as [P1 P2]. split.
    + intros b X H. cbn in H. now rewrite (P1 _ _ H).
    + exact P2.
  - apply andb_true_iff in W as [W1 W2]. destruct (IH S W1) as [P1 P2].
    assert (E : PM.py_inst' d p = p) by (apply (P1 true x); exact W2).
    split; [intros; now rewrite E|]. rewrite E. cbn. now rewrite W1, W2.
  - repeat (apply andb_true_iff in S as [S ?]).
    repeat match goal with Hn : PM.is_nil _ = true |- _ => apply PC.is_nil_true in Hn; subst end.
    try (apply PC.is_nil_true in S; subst). split.
    + intros b X H. cbn in H. destruct b; discriminate.
    + destruct (PM.dlookup i d) as [q|] eqn:E; [|exact W].
      eapply forallb_In; [exact D | eapply dlookup_In; eauto].
Qed.

(** * the DSL primitives preserve [gok] *)
Lemma prop1_gok : forall axs, gok axs prop1. Proof. intros; repeat split. Qed.
Lemma prop2_gok : forall axs, gok axs prop2. Proof. intros; repeat split. Qed.
Lemma prop3_gok : forall axs, gok axs prop3. Proof. intros; repeat split. Qed.
Lemma prop1_csimple : csimple prop1. Proof. reflexivity. Qed.
Lemma prop2_csimple : csimple prop2. Proof. reflexivity. Qed.
Lemma prop3_csimple : csimple prop3. Proof. reflexivity. Qed.

Lemma mp_gok : forall axs l r, gok axs l -> gok axs r -> gok axs (mp l r).
Proof.
  intros axs [[tl cl]|] [[tr cr]|] Hl Hr; cbn in *; try exact I.
  - destruct cl; try exact I. destruct (pat_eqb cl1 cr) eqn:E; [|exact I].
    destruct Hl as (L1 & L2 & L3), Hr as (R1 & R2 & R3). cbn. rewrite L1, R1, L2, R2, E.
    repeat split. now destruct (pwf_imp_inv _ _ L3).
  - destruct cl; exact I.
Qed.

Lemma gen_gok : forall axs h x, gok axs h -> gok axs (gen h x).
Proof.
  intros axs [[t c]|] x H; cbn in *; [|exact I]. destruct c; try exact I.
  destruct H as (H1 & H2 & H3). cbn. rewrite H1, H2. repeat split. exact H3.
Qed.

Lemma dynamic_inst_gok : forall axs X d, gok axs X -> csimple X ->
  PM.delta_ok d = true -> forallb pwf (PM.dvals d) = true -> gok axs (dynamic_inst X d).
Proof.
  intros axs [[t c]|] d H S D P; cbn in *; [|exact I]. destruct H as (H1 & H2 & H3).
  destruct d as [|kv d]; [repeat split; assumption|].
  cbn [gok emb PM.wf_for_checker PM.static_conc]. rewrite H1, H2, P.
  rewrite (PW.inst_agree_simple c (kv :: d) S D). repeat split.
  exact (proj2 (py_inst'_wf (kv :: d) P c S H3)).
Qed.

(** [_build_subst]: keys strictly increasing, values among the arguments *)
Lemma build_subst_from_keys : forall ps k x, mem x (map fst (build_subst_from k ps)) = true -> k <= x.
Proof.
  induction ps as [|p ps IH]; intros k x H; cbn in H; [discriminate|].
  destruct (pat_eqb p (phi k)).
  - apply IH in H. lia.
  - cbn in H. apply orb_true_iff in H as [H|H]; [apply N.eqb_eq in H; lia | apply IH in H; lia].
Qed.

Lemma build_subst_ok : forall ps k, PM.delta_ok (build_subst_from k ps) = true.
Proof.
  unfold PM.delta_ok, PM.dkeys. induction ps as [|p ps IH]; intros k; cbn; [reflexivity|].
  destruct (pat_eqb p (phi k)); [apply IH|]. cbn. rewrite IH, andb_true_r.
  destruct (mem k (map fst (build_subst_from (k + 1) ps))) eqn:E; [|reflexivity].
  apply build_subst_from_keys in E. lia.
Qed.

Lemma build_subst_vals : forall ps k, forallb pwf ps = true -> forallb pwf (PM.dvals (build_subst_from k ps)) = true.
Proof.
  unfold PM.dvals. induction ps as [|p ps IH]; intros k H; cbn in *; [reflexivity|].
  apply andb_true_iff in H as [H1 H2]. destruct (pat_eqb p (phi k)); [auto|]. cbn. now rewrite H1, IH.
Qed.

Lemma dynamic_inst_build_gok : forall axs X ps, gok axs X -> csimple X -> forallb pwf ps = true ->
  gok axs (dynamic_inst X (build_subst ps)).
Proof.
  intros. apply dynamic_inst_gok; [assumption | assumption | apply build_subst_ok | now apply build_subst_vals].
Qed.

Lemma load_ax_gok : forall A axs a, ax_incl A axs -> pwf a = true -> gok axs (load_ax A a).
Proof.
  intros A axs a Hi P. unfold load_ax. destruct (existsb (pat_eqb a) A) eqn:E; [|exact I].
  cbn. unfold PM.pmem. rewrite (Hi _ E). repeat split. exact P.
Qed.

Lemma load_ax_by_index_gok : forall A axs i, ax_incl A axs -> forallb pwf A = true -> gok axs (load_ax_by_index A i).
Proof.
  intros A axs i Hi H. unfold load_ax_by_index. destruct (nth_error A i) as [a|] eqn:E; [|exact I].
  apply load_ax_gok; [exact Hi|]. eapply forallb_In; [exact H | eapply nth_error_In; eauto].
Qed.

(** * binders of the translated method bodies *)
Definition opwf (o : option pat) : Prop := match o with Some p => pwf p = true | None => True end.
Lemma opwf_conc : forall axs h, gok axs h -> opwf (conc h).
Proof. intros axs [[t c]|] H; cbn in *; tauto. Qed.
Lemma opwf_some : forall p, pwf p = true -> opwf (Some p).
Proof. intros; assumption. Qed.

Lemma bindc_conc_gok : forall axs h k, gok axs h -> (forall c, pwf c = true -> gok axs (k c)) ->
  gok axs (bindc (conc h) k).
Proof. intros axs [[t c]|] k H K; cbn in *; [apply K; tauto | exact I]. Qed.

Lemma bindc_imp_gok : forall axs o k, opwf o ->
  (forall a b, pwf a = true -> pwf b = true -> gok axs (k (a, b))) -> gok axs (bindc (extract_imp o) k).
Proof.
  intros axs [p|] k H K; cbn in *; [|exact I]. destruct p; try exact I.
  destruct (pwf_imp_inv _ _ H). cbn. auto.
Qed.

Lemma bindc_neg_gok : forall axs o k, opwf o ->
  (forall a, pwf a = true -> gok axs (k a)) -> gok axs (bindc (match_neg o) k).
Proof.
  intros axs [p|] k H K; cbn in *; [|exact I].
  destruct p as [| | |a b| | | | | |]; try exact I. destruct (pwf_imp_inv _ _ H) as [Ha _].
  destruct b as [| | | | | |X q| | |]; try exact I. destruct X; try exact I.
  destruct q as [|n| | | | | | | |]; try exact I. destruct n; try exact I. cbn. auto.
Qed.

Lemma match_and_pwf : forall o a b, opwf o -> match_and o = Some (a, b) -> pwf a = true /\ pwf b = true.
Proof.
  intros [p|] a b H E; cbn in *; [|discriminate].
  repeat match type of E with
         | match ?x with _ => _ end = _ => destruct x; try discriminate
         end.
  injection E as <- <-.
  destruct (pwf_imp_inv _ _ H) as [H1 _]. destruct (pwf_imp_inv _ _ H1) as [Ha H2].
  destruct (pwf_imp_inv _ _ H2) as [Hb _]. auto.
Qed.

Lemma bindc_and_gok : forall axs o k, opwf o ->
  (forall a b, pwf a = true -> pwf b = true -> gok axs (k (a, b))) -> gok axs (bindc (match_and o) k).
Proof.
  intros axs o k H K. destruct (match_and o) as [[a b]|] eqn:E; cbn; [|exact I].
  destruct (match_and_pwf _ _ _ H E). auto.
Qed.

Lemma bindc_or_gok : forall axs o k, opwf o ->
  (forall a b, pwf a = true -> pwf b = true -> gok axs (k (a, b))) -> gok axs (bindc (match_or o) k).
Proof.
  intros axs o k H K. destruct (match_or o) as [[a b]|] eqn:E; cbn; [|exact I].
  destruct o as [p|]; cbn in E; [|discriminate].
  repeat match type of E with
         | match ?x with _ => _ end = _ => destruct x; try discriminate
         end.
  injection E as <- <-. cbn [opwf] in H.
  destruct (pwf_imp_inv _ _ H) as [H1 Hb]. destruct (pwf_imp_inv _ _ H1) as [Ha _]. auto.
Qed.

Lemma bindc_equiv_gok : forall axs o k, opwf o ->
  (forall a b, pwf a = true -> pwf b = true -> gok axs (k (a, b))) -> gok axs (bindc (match_equiv o) k).
Proof.
  intros axs o k H K. destruct (match_equiv o) as [[a b]|] eqn:E; cbn; [|exact I].
  unfold match_equiv in E. destruct (match_and o) as [[x y]|] eqn:M; [|discriminate].
  destruct (match_and_pwf _ _ _ H M) as [Hx Hy].
  destruct x; try discriminate. destruct y; try discriminate.
  destruct (pat_eqb x2 y1 && pat_eqb x1 y2); [|discriminate]. injection E as <- <-.
  destruct (pwf_imp_inv _ _ Hx). auto.
Qed.

Lemma guard_gok : forall axs b t, gok axs t -> gok axs (guard b t).
Proof. intros axs [|] t H; cbn; [exact H | exact I]. Qed.
Lemma none_gok : forall axs, gok axs None. Proof. intros; exact I. Qed.

(** [match_single] returns a dict (unique keys) whose values are sub-patterns of the instance *)
Lemma mem_keys_assoc : forall d i, assoc i d = None -> mem i (PM.dkeys d) = false.
Proof.
  unfold PM.dkeys. induction d as [|[k v] d IH]; intros i H; cbn in *; [reflexivity|].
  destruct (N.eqb_spec k i) as [->|Hne]; [discriminate|].
  unfold mem in *. cbn. rewrite (IH _ H), orb_false_r. apply N.eqb_neq. congruence.
Qed.

Lemma nodupb_app_new : forall l i, PM.nodupb l = true -> mem i l = false -> PM.nodupb (l ++ [i]) = true.
Proof.
  induction l as [|x l IH]; intros i H M; cbn in *; [reflexivity|].
  apply andb_true_iff in H as [H1 H2]. unfold mem in M. cbn in M. apply orb_false_iff in M as [M1 M2].
  rewrite IH by assumption. rewrite andb_true_r.
  apply negb_true_iff. apply negb_true_iff in H1.
  unfold mem in *. rewrite existsb_app. cbn. rewrite H1, orb_false_r. cbn.
  rewrite N.eqb_sym. exact M1.
Qed.

Lemma match_single_gok : forall p i ret ret',
  match_single p i ret = Some ret' -> pwf i = true ->
  PM.delta_ok ret = true -> forallb pwf (PM.dvals ret) = true ->
  PM.delta_ok ret' = true /\ forallb pwf (PM.dvals ret') = true.
Proof.
  induction p as [n|n|n|l IHl r IHr|l IHl r IHr|x p IH|x p IH|id a1 a2 a3 a4 a5|p IHp x q IHq|p IHp x q IHq];
    intros i ret ret' H Pi D V; cbn [match_single] in H; try discriminate.
  - destruct i; try discriminate. destruct (N.eqb n n0); [injection H as <-; auto | discriminate].
  - destruct i; try discriminate. destruct (N.eqb n n0); [injection H as <-; auto | discriminate].
  - destruct i; try discriminate. destruct (N.eqb n n0); [injection H as <-; auto | discriminate].
  - destruct i as [| | |l' r'| | | | | |]; try discriminate. destruct (pwf_imp_inv _ _ Pi) as [P1 P2].
    destruct (match_single l l' ret) as [r1|] eqn:E1; [|discriminate].
    destruct (IHl _ _ _ E1 P1 D V) as [D1 V1]. eapply IHr; eauto.
  - destruct i as [| | | |l' r'| | | | |]; try discriminate.
    cbn in Pi. apply andb_true_iff in Pi as [P1 P2].
    destruct (match_single l l' ret) as [r1|] eqn:E1; [|discriminate].
    destruct (IHl _ _ _ E1 P1 D V) as [D1 V1]. eapply IHr; eauto.
  - destruct i as [| | | | |y q'| | | |]; try discriminate. destruct (N.eqb x y); [|discriminate].
    eapply IH; eauto.
  - destruct i as [| | | | | |y q'| | |]; try discriminate. destruct (N.eqb x y); [|discriminate].
    cbn in Pi. apply andb_true_iff in Pi as [P1 P2]. eapply IH; eauto.
  - destruct (assoc id ret) as [v|] eqn:E.
    + destruct (pat_eqb v i); [injection H as <-; auto | discriminate].
    + injection H as <-. split.
      * unfold PM.delta_ok, PM.dkeys in *. rewrite map_app. cbn. apply nodupb_app_new; [exact D|].
        now apply mem_keys_assoc.
      * unfold PM.dvals in *. rewrite map_app, forallb_app. cbn. now rewrite V, Pi.
Qed.

Lemma bindc_match_gok : forall axs b c k, pwf c = true ->
  (forall th, PM.delta_ok th = true -> forallb pwf (PM.dvals th) = true -> gok axs (k th)) ->
  gok axs (bindc (match_single b c []) k).
Proof.
  intros axs b c k Pc K. destruct (match_single b c []) as [th|] eqn:E; cbn; [|exact I].
  destruct (match_single_gok _ _ _ _ E Pc eq_refl eq_refl). auto.
Qed.

(** C02_lib_wf's class (substitution-free, unconstrained, Mu-positive everywhere) is a special case *)
Definition sok (x : thunk) : Prop :=
  match x with
  | Some (t, c) => PW.simple_term (emb t) = true /\ PW.plug_ok c = true
  | None => True
  end.
Lemma sok_gok : forall g axs x, owf g axs x -> sok x -> gok axs x.
Proof.
  intros g axs [[t c]|] Hw Hs; cbn in *; [|exact I]. destruct Hs as [S1 S2].
  pose proof (emb_static _ _ _ _ Hw) as E.
  destruct (PW.lib_wf axs (emb t) c S1 E) as [W _]. repeat split; auto.
  unfold PW.plug_ok in S2. now apply andb_true_iff in S2 as [_ ?].
Qed.

(** * the full replay statement *)
(** the bytes the serialiser emits for the thunk's term, whenever it emits any (it declines for
    ids / memory indices >= 256, an assumption missing from memory, a Generalization whose variable
    is not fresh), make the checker push [Proved s] (symbols renumbered by the final symbol table)
    on any stack *)
Definition compiles_to (axs : list pat) (x : thunk) (s : pat) : Prop :=
  exists t, x = Some (t, s) /\
    PM.static_conc axs (emb t) = Some s /\
    forall ls tbl st tbl' st' bs c,
      PF.mem_shape_ok (PM.s_mem st) -> PF.loads_ok (emb t) (PM.s_mem st) = true ->
      PM.compile ls axs (emb t) tbl st = Some (tbl', st', bs, c) ->
      c = s /\
      forall T, PC.ext T tbl' -> forall ph K C,
        exec guards_sound ph bs (mkst K (map (PS.map_term T) (PM.s_mem st)) C)
        = Some (mkst (TProved (PS.map_sym T s) :: K) (map (PS.map_term T) (PM.s_mem st')) C).

Theorem replays_full : forall axs x s, conc x = Some s -> gok axs x -> compiles_to axs x s.
Proof.
  intros axs [[t c]|] s Hc Hg; cbn in Hc; try discriminate. injection Hc as ->.
  destruct Hg as (W & E & P).
  exists t. split; [reflexivity|]. split; [exact E|].
  intros ls tbl st tbl' st' bs c Hm Hl Hcomp.
  destruct (PC.compile_correct ls axs (emb t) tbl st tbl' st' bs c (emb_dynamic t) W Hm Hl Hcomp) as [E' R].
  assert (c = s) by congruence. subst c. split; [reflexivity | exact R].
Qed.

(** * where it stops being true: a rule that re-instantiates a premise whose conclusion is NOT simple *)
(** the toolkit builds the thunk, advertises conclusion [s], the stored conclusion replays by the
    generator's rules ([owf]), the serialiser emits bytes -- and the checker rejects them *)
Definition toolkit_builds_checker_rejects (axs : list pat) (x : thunk) : Prop :=
  exists t s tbl' st' bs,
    x = Some (t, s) /\ owf false axs x /\
    PM.compile [] axs (emb t) [] (PM.mksst [] (map TProved axs) [] Proof) = Some (tbl', st', bs, s) /\
    exec guards_sound Proof bs (mkst [] (map (PS.map_term tbl') (map TProved axs)) []) = None.

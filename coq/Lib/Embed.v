(** C10 (replays, full): the library's proof terms (Lib/Term.v) embedded into the serialiser model of
    C02 (PTerm/Model.v), so that [C02_compile_correct] applies: the BYTES the serialising interpreter
    emits for the term (pattern construction of every plug included, under any memoiser stack) run
    on the checker model [ML/Machine.v exec guards_sound] to [Proved <conclusion>].

    Class of arguments covered (= what [PTerm/LibWf.v lib_wf] covers): every pattern handed to a rule
    and every premise conclusion is [plug_ok] = substitution-free, all metavariables unconstrained,
    every Mu positive ([LibWf.simple p && Model.pat_wf p]). *)
From Coq Require Import NArith List Bool Lia.
From Pi2 Require Import ML.Syntax ML.Subst ML.Machine Lib.Term Lib.TermFacts Lib.Match.
From Pi2 Require PTerm.Model PTerm.Facts PTerm.MapSym PTerm.Compile PTerm.LibWf.
Import ListNotations.
Open Scope N_scope.

Module PM := Pi2.PTerm.Model.
Module PW := Pi2.PTerm.LibWf.
Module PC := Pi2.PTerm.Compile.
Module PS := Pi2.PTerm.MapSym.
Module PF := Pi2.PTerm.Facts.

Fixpoint emb (t : pterm) : PM.pterm :=
  match t with
  | Prop1 => PM.PProp1
  | Prop2 => PM.PProp2
  | Prop3 => PM.PProp3
  | MP l r => PM.PMP (emb l) (emb r)
  | Inst t d => PM.PDynInst (emb t) d
  | LoadAx a => PM.PLoadAxiom a
  end.

Notation pok := PW.plug_ok.

(** a thunk whose term is in C02's propositional fragment and whose conclusion may itself be used as
    a plug *)
Definition sok (x : thunk) : Prop :=
  match x with
  | Some (t, c) => PW.simple_term (emb t) = true /\ pok c = true
  | None => True
  end.

(** * the two instantiation functions agree on simple patterns *)
Lemma plain_simple : forall p, plain p = PW.simple p.
Proof.
  induction p as [n|n|n|l IHl r IHr|l IHl r IHr|x p IH|x p IH|i a1 a2 a3 a4 a5|p IHp x q IHq|p IHp x q IHq];
    cbn; rewrite ?IHl, ?IHr, ?IH; try reflexivity.
  destruct a1, a2, a3, a4, a5; reflexivity.
Qed.

Lemma assoc_dlookup : forall d i, assoc i d = PM.dlookup i d.
Proof.
  induction d as [|[k v] d IH]; intros i; cbn; [reflexivity|].
  rewrite (N.eqb_sym k i). destruct (N.eqb i k); auto.
Qed.

Lemma pinst_py : forall d p, PW.simple p = true -> pinst d p = PM.py_inst' d p.
Proof.
  intros d.
  induction p as [n|n|n|l IHl r IHr|l IHl r IHr|x p IH|x p IH|i a1 a2 a3 a4 a5|p IHp x q IHq|p IHp x q IHq];
    intros S; cbn in *; try reflexivity; try discriminate.
  - apply andb_true_iff in S as [S1 S2]. now rewrite IHl, IHr.
  - apply andb_true_iff in S as [S1 S2]. now rewrite IHl, IHr.
  - now rewrite IH.
  - now rewrite IH.
  - now rewrite assoc_dlookup.
Qed.

Lemma inst_fwd : forall d c, PW.simple c = true ->
  inst guards_sound c (map fst d) (map snd d) = Some (PM.py_inst' d c).
Proof.
  intros d c S. rewrite inst_plain by (now rewrite plain_simple). now rewrite pinst_py.
Qed.

Lemma py_inst'_nil : forall p, PW.simple p = true -> PM.py_inst' [] p = p.
Proof. intros p S. rewrite <- pinst_py by exact S. apply pinst_nil. Qed.

(** * the embedding preserves the static conclusion *)
Lemma emb_static : forall axs t, PW.simple_term (emb t) = true ->
  static_conc axs t = PM.static_conc axs (emb t).
Proof.
  intros axs. induction t as [| | |l IHl r IHr|t IH d|a]; intros S; cbn [emb] in *; try reflexivity.
  - cbn in S. apply andb_true_iff in S as [S1 S2]. cbn. now rewrite IHl, IHr.
  - cbn [PW.simple_term] in S. apply andb_true_iff in S as [S S3]. apply andb_true_iff in S as [S1 S2].
    cbn [static_conc PM.static_conc]. rewrite (IH S1).
    destruct (PM.static_conc axs (emb t)) as [c|] eqn:E.
    + pose proof (PW.static_simple axs (emb t) S1 c E) as Sc.
      rewrite (inst_fwd d c Sc). destruct d as [|kv d]; [|reflexivity].
      now rewrite py_inst'_nil.
    + destruct d; reflexivity.
Qed.

(** * plug_ok is closed under what the library does with patterns *)
Lemma pok_imp : forall a b, pok a = true -> pok b = true -> pok (Imp a b) = true.
Proof.
  unfold PW.plug_ok. intros a b Ha Hb. apply andb_true_iff in Ha as [A1 A2]. apply andb_true_iff in Hb as [B1 B2].
  cbn. now rewrite A1, A2, B1, B2.
Qed.
Lemma pok_imp_inv : forall a b, pok (Imp a b) = true -> pok a = true /\ pok b = true.
Proof.
  unfold PW.plug_ok. intros a b H. cbn in H. apply andb_true_iff in H as [H1 H2].
  apply andb_true_iff in H1 as [A1 B1]. apply andb_true_iff in H2 as [A2 B2]. now rewrite A1, A2, B1, B2.
Qed.
Lemma pok_bot : pok (Mu 0 (SVar 0)) = true. Proof. reflexivity. Qed.
Lemma pok_phi : forall k, pok (MVar k [] [] [] [] []) = true. Proof. reflexivity. Qed.

Lemma dlookup_In : forall d i q, PM.dlookup i d = Some q -> In q (PM.dvals d).
Proof.
  induction d as [|[k v] d IH]; intros i q H; cbn in *; [discriminate|].
  destruct (N.eqb i k); [injection H as <-; auto | right; eauto].
Qed.

Lemma forallb_In : forall (f : pat -> bool) l x, forallb f l = true -> In x l -> f x = true.
Proof. intros f l x H Hx. rewrite forallb_forall in H. auto. Qed.

(** instantiating a simple, checker-well-formed pattern with well-formed plugs stays well-formed
    (under a positive Mu there is no unconstrained metavariable, so nothing is replaced there) *)
Lemma py_inst'_wf : forall d, forallb PM.pat_wf (PM.dvals d) = true ->
  forall p, PW.simple p = true -> PM.pat_wf p = true ->
  (forall b X, polar b p X = true -> PM.py_inst' d p = p) /\ PM.pat_wf (PM.py_inst' d p) = true.
Proof.
  intros d D.
  induction p as [n|n|n|l IHl r IHr|l IHl r IHr|x p IH|x p IH|i a1 a2 a3 a4 a5|p IHp x q IHq|p IHp x q IHq];
    intros S W; cbn [PW.simple] in S; try discriminate; cbn [PM.pat_wf] in W; cbn [PM.py_inst'].
  - auto.
  - auto.
  - auto.
  - apply andb_true_iff in S as [S1 S2]. apply andb_true_iff in W as [W1 W2].
    destruct (IHl S1 W1) as [L1 L2]. destruct (IHr S2 W2) as [R1 R2]. split.
    + intros b X H. cbn in H. apply andb_true_iff in H as [H1 H2]. now rewrite (L1 _ _ H1), (R1 _ _ H2).
    + cbn. now rewrite L2, R2.
  - apply andb_true_iff in S as [S1 S2]. apply andb_true_iff in W as [W1 W2].
    destruct (IHl S1 W1) as [L1 L2]. destruct (IHr S2 W2) as [R1 R2]. split.
    + intros b X H. cbn in H. apply andb_true_iff in H as [H1 H2]. now rewrite (L1 _ _ H1), (R1 _ _ H2).
    + cbn. now rewrite L2, R2.
  - destruct (IH S W) as [P1 P2]. split.
    + intros b X H. cbn in H. now rewrite (P1 _ _ H).
    + exact P2.
  - apply andb_true_iff in W as [W1 W2]. destruct (IH S W1) as [P1 P2].
    assert (E : PM.py_inst' d p = p) by (apply (P1 true x); exact W2).
    split; [intros; now rewrite E|]. rewrite E. cbn. now rewrite W1, W2.
  - repeat (apply andb_true_iff in S as [S ?]).
    repeat match goal with Hn : PM.is_nil _ = true |- _ => apply PC.is_nil_true in Hn; subst end.
    try (apply PC.is_nil_true in S; subst). split.
    + intros b X H. cbn in H. destruct b; discriminate.
    + destruct (PM.dlookup i d) as [q|] eqn:E; [|exact W].
      eapply forallb_In; [exact D | eapply dlookup_In; eauto].
Qed.

Lemma forallb_pok_split : forall l, forallb pok l = true ->
  forallb PW.simple l = true /\ forallb PM.pat_wf l = true.
Proof. exact PW.forallb_plug_ok. Qed.

Lemma pok_inst : forall d c, pok c = true -> forallb pok (PM.dvals d) = true -> pok (PM.py_inst' d c) = true.
Proof.
  intros d c Hc Hd. unfold PW.plug_ok in *. apply andb_true_iff in Hc as [C1 C2].
  destruct (forallb_pok_split _ Hd) as [D1 D2].
  rewrite (PW.py_inst'_simple d c C1 D1). cbn. exact (proj2 (py_inst'_wf d D2 c C1 C2)).
Qed.

(** * the DSL primitives preserve [sok] *)
Lemma prop1_sok : sok prop1. Proof. split; reflexivity. Qed.
Lemma prop2_sok : sok prop2. Proof. split; reflexivity. Qed.
Lemma prop3_sok : sok prop3. Proof. split; reflexivity. Qed.

Lemma mp_sok : forall l r, sok l -> sok r -> sok (mp l r).
Proof.
  intros [[tl cl]|] [[tr cr]|] Hl Hr; cbn in *; try exact I.
  - destruct cl; try exact I. destruct (pat_eqb cl1 cr); [|exact I].
    destruct Hl as [L1 L2], Hr as [R1 R2]. cbn. rewrite L1, R1. split; [reflexivity|].
    now destruct (pok_imp_inv _ _ L2).
  - destruct cl; exact I.
Qed.

Lemma dynamic_inst_sok : forall X d, sok X -> PM.delta_ok d = true -> forallb pok (PM.dvals d) = true ->
  sok (dynamic_inst X d).
Proof.
  intros [[t c]|] d H D P; cbn in *; [|exact I]. destruct H as [H1 H2].
  destruct d as [|kv d]; [split; assumption|].
  assert (Sc : PW.simple c = true) by (unfold PW.plug_ok in H2; now apply andb_true_iff in H2 as [? _]).
  rewrite (inst_fwd (kv :: d) c Sc). cbn [sok emb PW.simple_term]. rewrite H1, D, P. split; [reflexivity|].
  now apply pok_inst.
Qed.

(** [_build_subst]: keys strictly increasing, values among the arguments *)
Lemma build_subst_from_keys : forall ps k x, mem x (map fst (build_subst_from k ps)) = true -> k <= x.
Proof.
  induction ps as [|p ps IH]; intros k x H; cbn in H; [discriminate|].
  destruct (pat_eqb p (phi k)).
  - apply IH in H. lia.
  - cbn in H. apply orb_true_iff in H as [H|H]; [apply N.eqb_eq in H; lia | apply IH in H; lia].
Qed.

Lemma build_subst_ok : forall ps k, PM.delta_ok (build_subst_from k ps) = true.
Proof.
  unfold PM.delta_ok, PM.dkeys. induction ps as [|p ps IH]; intros k; cbn; [reflexivity|].
  destruct (pat_eqb p (phi k)); [apply IH|]. cbn. rewrite IH, andb_true_r.
  destruct (mem k (map fst (build_subst_from (k + 1) ps))) eqn:E; [|reflexivity].
  apply build_subst_from_keys in E. lia.
Qed.

Lemma build_subst_vals : forall ps k, forallb pok ps = true -> forallb pok (PM.dvals (build_subst_from k ps)) = true.
Proof.
  unfold PM.dvals. induction ps as [|p ps IH]; intros k H; cbn in *; [reflexivity|].
  apply andb_true_iff in H as [H1 H2]. destruct (pat_eqb p (phi k)); [auto|]. cbn. now rewrite H1, IH.
Qed.

Lemma dynamic_inst_build_sok : forall X ps, sok X -> forallb pok ps = true ->
  sok (dynamic_inst X (build_subst ps)).
Proof.
  intros. apply dynamic_inst_sok; [assumption | apply build_subst_ok | now apply build_subst_vals].
Qed.

Lemma load_ax_by_index_sok : forall A i, forallb pok A = true -> sok (load_ax_by_index A i).
Proof.
  intros A i H. unfold load_ax_by_index. destruct (nth_error A i) as [a|] eqn:E; [|exact I].
  unfold load_ax. destruct (existsb (pat_eqb a) A); [|exact I].
  assert (P : pok a = true) by (eapply forallb_In; [exact H | eapply nth_error_In; eauto]).
  cbn. split; [|exact P]. unfold PW.plug_ok in P. now apply andb_true_iff in P as [? _].
Qed.

(** * binders of the translated method bodies *)
Lemma bindc_conc_sok : forall h k, sok h -> (forall c, pok c = true -> sok (k c)) -> sok (bindc (conc h) k).
Proof. intros [[t c]|] k H K; cbn in *; [apply K; tauto | exact I]. Qed.

Lemma conc_pok : forall h c, sok h -> conc h = Some c -> pok c = true.
Proof. intros [[t c0]|] c H E; cbn in *; [injection E as <-; tauto | discriminate]. Qed.

Definition opok (o : option pat) : Prop := match o with Some p => pok p = true | None => True end.
Lemma opok_conc : forall h, sok h -> opok (conc h).
Proof. intros [[t c]|] H; cbn in *; tauto. Qed.
Lemma opok_some : forall p, pok p = true -> opok (Some p).
Proof. intros; assumption. Qed.

Lemma bindc_imp_sok : forall o k, opok o ->
  (forall a b, pok a = true -> pok b = true -> sok (k (a, b))) -> sok (bindc (extract_imp o) k).
Proof.
  intros [p|] k H K; cbn in *; [|exact I]. destruct p; try exact I.
  destruct (pok_imp_inv _ _ H). cbn. auto.
Qed.

Lemma bindc_neg_sok : forall o k, opok o ->
  (forall a, pok a = true -> sok (k a)) -> sok (bindc (match_neg o) k).
Proof.
  intros [p|] k H K; cbn in *; [|exact I].
  destruct p as [| | |a b| | | | | |]; try exact I. destruct (pok_imp_inv _ _ H) as [Ha _].
  destruct b as [| | | | | |X q| | |]; try exact I. destruct X; try exact I.
  destruct q as [|n| | | | | | | |]; try exact I. destruct n; try exact I. cbn. auto.
Qed.

Lemma match_and_pok : forall o a b, opok o -> match_and o = Some (a, b) -> pok a = true /\ pok b = true.
Proof.
  intros [p|] a b H E; cbn in *; [|discriminate].
  repeat match type of E with
         | match ?x with _ => _ end = _ => destruct x; try discriminate
         end.
  injection E as <- <-.
  destruct (pok_imp_inv _ _ H) as [H1 _]. destruct (pok_imp_inv _ _ H1) as [Ha H2].
  destruct (pok_imp_inv _ _ H2) as [Hb _]. auto.
Qed.

Lemma bindc_and_sok : forall o k, opok o ->
  (forall a b, pok a = true -> pok b = true -> sok (k (a, b))) -> sok (bindc (match_and o) k).
Proof.
  intros o k H K. destruct (match_and o) as [[a b]|] eqn:E; cbn; [|exact I].
  destruct (match_and_pok _ _ _ H E). auto.
Qed.

Lemma bindc_or_sok : forall o k, opok o ->
  (forall a b, pok a = true -> pok b = true -> sok (k (a, b))) -> sok (bindc (match_or o) k).
Proof.
  intros o k H K. destruct (match_or o) as [[a b]|] eqn:E; cbn; [|exact I].
  destruct o as [p|]; cbn in E; [|discriminate].
  repeat match type of E with
         | match ?x with _ => _ end = _ => destruct x; try discriminate
         end.
  injection E as <- <-. cbn in H.
  destruct (pok_imp_inv _ _ H) as [H1 Hb]. destruct (pok_imp_inv _ _ H1) as [Ha _]. auto.
Qed.

Lemma bindc_equiv_sok : forall o k, opok o ->
  (forall a b, pok a = true -> pok b = true -> sok (k (a, b))) -> sok (bindc (match_equiv o) k).
Proof.
  intros o k H K. destruct (match_equiv o) as [[a b]|] eqn:E; cbn; [|exact I].
  unfold match_equiv in E. destruct (match_and o) as [[x y]|] eqn:M; [|discriminate].
  destruct (match_and_pok _ _ _ H M) as [Hx Hy].
  destruct x; try discriminate. destruct y; try discriminate.
  destruct (pat_eqb x2 y1 && pat_eqb x1 y2); [|discriminate]. injection E as <- <-.
  destruct (pok_imp_inv _ _ Hx). auto.
Qed.

Lemma guard_sok : forall b t, sok t -> sok (guard b t).
Proof. intros [|] t H; cbn; [exact H | exact I]. Qed.

(** [match_single] returns a dict (unique keys) whose values are sub-patterns of the instance *)
Lemma mem_keys_assoc : forall d i, assoc i d = None -> mem i (PM.dkeys d) = false.
Proof.
  unfold PM.dkeys. induction d as [|[k v] d IH]; intros i H; cbn in *; [reflexivity|].
  destruct (N.eqb_spec k i) as [->|Hne]; [discriminate|].
  unfold mem in *. cbn. rewrite (IH _ H), orb_false_r. apply N.eqb_neq. congruence.
Qed.

Lemma nodupb_app_new : forall l i, PM.nodupb l = true -> mem i l = false -> PM.nodupb (l ++ [i]) = true.
Proof.
  induction l as [|x l IH]; intros i H M; cbn in *; [reflexivity|].
  apply andb_true_iff in H as [H1 H2]. unfold mem in M. cbn in M. apply orb_false_iff in M as [M1 M2].
  rewrite IH by assumption. rewrite andb_true_r.
  apply negb_true_iff. apply negb_true_iff in H1.
  unfold mem in *. rewrite existsb_app. cbn. rewrite H1, orb_false_r. cbn.
  rewrite N.eqb_sym. exact M1.
Qed.

Lemma match_single_sok : forall p i ret ret',
  match_single p i ret = Some ret' -> pok i = true ->
  PM.delta_ok ret = true -> forallb pok (PM.dvals ret) = true ->
  PM.delta_ok ret' = true /\ forallb pok (PM.dvals ret') = true.
Proof.
  induction p as [n|n|n|l IHl r IHr|l IHl r IHr|x p IH|x p IH|id a1 a2 a3 a4 a5|p IHp x q IHq|p IHp x q IHq];
    intros i ret ret' H Pi D V; cbn [match_single] in H; try discriminate.
  - destruct i; try discriminate. destruct (N.eqb n n0); [injection H as <-; auto | discriminate].
  - destruct i; try discriminate. destruct (N.eqb n n0); [injection H as <-; auto | discriminate].
  - destruct i; try discriminate. destruct (N.eqb n n0); [injection H as <-; auto | discriminate].
  - destruct i as [| | |l' r'| | | | | |]; try discriminate. destruct (pok_imp_inv _ _ Pi) as [P1 P2].
    destruct (match_single l l' ret) as [r1|] eqn:E1; [|discriminate].
    destruct (IHl _ _ _ E1 P1 D V) as [D1 V1]. eapply IHr; eauto.
  - destruct i as [| | | |l' r'| | | | |]; try discriminate.
    assert (P12 : pok l' = true /\ pok r' = true).
    { unfold PW.plug_ok in *. cbn in Pi. apply andb_true_iff in Pi as [A B].
      apply andb_true_iff in A as [A1 A2]. apply andb_true_iff in B as [B1 B2]. now rewrite A1, A2, B1, B2. }
    destruct P12 as [P1 P2].
    destruct (match_single l l' ret) as [r1|] eqn:E1; [|discriminate].
    destruct (IHl _ _ _ E1 P1 D V) as [D1 V1]. eapply IHr; eauto.
  - destruct i as [| | | | |y q'| | | |]; try discriminate. destruct (N.eqb x y); [|discriminate].
    eapply IH; eauto.
  - destruct i as [| | | | | |y q'| | |]; try discriminate. destruct (N.eqb x y); [|discriminate].
    eapply IH; eauto.
    unfold PW.plug_ok in *. cbn in Pi. apply andb_true_iff in Pi as [A B]. apply andb_true_iff in B as [B1 B2].
    now rewrite A, B1.
  - destruct (assoc id ret) as [v|] eqn:E.
    + destruct (pat_eqb v i); [injection H as <-; auto | discriminate].
    + injection H as <-. split.
      * unfold PM.delta_ok, PM.dkeys in *. rewrite map_app. cbn. apply nodupb_app_new; [exact D|].
        now apply mem_keys_assoc.
      * unfold PM.dvals in *. rewrite map_app, forallb_app. cbn. now rewrite V, Pi.
Qed.

Lemma bindc_match_sok : forall b c k, pok c = true ->
  (forall th, PM.delta_ok th = true -> forallb pok (PM.dvals th) = true -> sok (k th)) ->
  sok (bindc (match_single b c []) k).
Proof.
  intros b c k Pc K. destruct (match_single b c []) as [th|] eqn:E; cbn; [|exact I].
  destruct (match_single_sok _ _ _ _ E Pc eq_refl eq_refl). auto.
Qed.

Lemma none_sok : sok None. Proof. exact I. Qed.

(** * the full replay statement *)
(** the bytes the serialiser emits for the thunk's term, whenever it emits any (ids < 256, ...), make
    the checker push [Proved s] (symbols renumbered by the final symbol table) on any stack *)
Definition compiles_to (axs : list pat) (x : thunk) (s : pat) : Prop :=
  exists t, x = Some (t, s) /\
    static_conc axs t = Some s /\ uses_only axs t = true /\
    PM.static_conc axs (emb t) = Some s /\
    forall ls tbl st tbl' st' bs c,
      PF.mem_shape_ok (PM.s_mem st) -> PF.loads_ok (emb t) (PM.s_mem st) = true ->
      PM.compile ls axs (emb t) tbl st = Some (tbl', st', bs, c) ->
      c = s /\
      forall T, PC.ext T tbl' -> forall ph K C,
        exec guards_sound ph bs (mkst K (map (PS.map_term T) (PM.s_mem st)) C)
        = Some (mkst (TProved (PS.map_sym T s) :: K) (map (PS.map_term T) (PM.s_mem st')) C).

Theorem replays_full : forall axs x s,
  conc x = Some s -> owf axs x -> sok x -> compiles_to axs x s.
Proof.
  intros axs [[t c]|] s Hc Hw Hs; cbn in Hc; try discriminate. injection Hc as ->.
  cbn in Hw, Hs. destruct Hs as [S1 S2].
  exists t. split; [reflexivity|]. split; [exact Hw|]. split; [eapply static_conc_uses_only; eauto|].
  assert (E : PM.static_conc axs (emb t) = Some s) by (rewrite <- emb_static; assumption).
  split; [exact E|].
  intros ls tbl st tbl' st' bs c Hm Hl Hcomp.
  destruct (PW.lib_wf axs (emb t) s S1 E) as [W Dy].
  destruct (PC.compile_correct ls axs (emb t) tbl st tbl' st' bs c Dy W Hm Hl Hcomp) as [E' R].
  assert (c = s) by congruence. subst c. split; [reflexivity | exact R].
Qed.

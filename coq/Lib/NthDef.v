(** Hand-written model of the index-driven rule [Tautology.conjunction_implies_nth] (tautology.py:620-628;
    recursive on its counters, hence outside the straight-line translator): definitions only
    (extracted for the correspondence check); facts in Lib/Nth.v. *)
From Coq Require Import NArith List Bool Arith.
From Pi2 Require Import ML.Syntax ML.Subst Lib.Term Gen.PropLib.
Import ListNotations.
Open Scope N_scope.

(** [assert 0 <= n < l; if l == 1: return imp_refl(term); head, term = _and.assert_matches(term);
     if n == 0: return and_l_imp(head, term);
     return imp_transitivity(and_r_imp(head, term), conjunction_implies_nth(term, n - 1, l - 1))] *)
Fixpoint conj_nth (term : pat) (n l : nat) {struct l} : thunk :=
  match l with
  | O => None
  | S l' =>
      if Nat.ltb n l then
        match l' with
        | O => imp_refl term
        | S _ =>
            bindc (match_and (Some term)) (fun '(head, tl) =>
              match n with
              | O => and_l_imp head tl
              | S n' => imp_transitivity (and_r_imp head tl) (conj_nth tl n' l')
              end)
        end
      else None
  end.

(** p0 /\ (p1 /\ (... /\ p_last)) *)
Fixpoint big_and (p : pat) (ps : list pat) : pat :=
  match ps with
  | [] => p
  | q :: r => p_and p (big_and q r)
  end.

(** generic tactic for the generated [<m>_sok] lemmas (Gen/PropLibSpec.v): the term a method returns
    stays inside C02's propositional fragment when its arguments do *)
From Coq Require Import NArith List Bool.
From Pi2 Require Import ML.Syntax ML.Subst Lib.Term Lib.TermFacts Lib.Match Lib.Embed.
Import ListNotations.
Open Scope N_scope.

Create HintDb plsok.

Lemma forallb_pok_nil : forallb pok [] = true. Proof. reflexivity. Qed.
Lemma forallb_pok_cons : forall a l, pok a = true -> forallb pok l = true -> forallb pok (a :: l) = true.
Proof. intros a l H1 H2. cbn. now rewrite H1, H2. Qed.

#[global] Hint Resolve prop1_sok prop2_sok prop3_sok mp_sok guard_sok none_sok pok_imp pok_bot pok_phi
  opok_conc opok_some dynamic_inst_sok dynamic_inst_build_sok forallb_pok_nil forallb_pok_cons : plsok.
#[global] Hint Extern 1 (sok (load_ax_by_index _ _)) =>
  apply load_ax_by_index_sok; vm_compute; reflexivity : plsok.
#[global] Hint Extern 1 (sok (bindc (extract_imp _) _)) =>
  apply bindc_imp_sok; [ | intros; cbn beta iota zeta ] : plsok.
#[global] Hint Extern 1 (sok (bindc (match_neg _) _)) =>
  apply bindc_neg_sok; [ | intros; cbn beta iota zeta ] : plsok.
#[global] Hint Extern 1 (sok (bindc (match_and _) _)) =>
  apply bindc_and_sok; [ | intros; cbn beta iota zeta ] : plsok.
#[global] Hint Extern 1 (sok (bindc (match_or _) _)) =>
  apply bindc_or_sok; [ | intros; cbn beta iota zeta ] : plsok.
#[global] Hint Extern 1 (sok (bindc (match_equiv _) _)) =>
  apply bindc_equiv_sok; [ | intros; cbn beta iota zeta ] : plsok.
#[global] Hint Extern 1 (sok (bindc (conc _) _)) =>
  apply bindc_conc_sok; [ | intros; cbn beta iota zeta ] : plsok.
#[global] Hint Extern 1 (sok (bindc (match_single _ _ []) _)) =>
  apply bindc_match_sok; [ | intros; cbn beta iota zeta ] : plsok.

Ltac lib_sok m :=
  intros; unfold m; autounfold with plunf; cbn zeta;
  solve [ eauto 200 with plsok nocore ].

Ltac lib_replays spec wf sokl :=
  intros; apply replays_full;
  [ first [ eassumption | eapply spec; eassumption ] | apply wf; assumption | apply sokl; assumption ].

(** generic tactics for the generated [<m>_gok] / [<m>_replays] lemmas (Gen/PropLibSpec.v): the thunk a
    method returns satisfies the checker-side conditions of C02 when its arguments do *)
From Coq Require Import NArith List Bool.
From Pi2 Require Import ML.Syntax ML.Subst Lib.Term Lib.TermFacts Lib.Match Lib.Embed.
Import ListNotations.
Open Scope N_scope.

Create HintDb plgok.

Lemma forallb_pwf_nil : forallb pwf [] = true. Proof. reflexivity. Qed.
Lemma forallb_pwf_cons : forall a l, pwf a = true -> forallb pwf l = true -> forallb pwf (a :: l) = true.
Proof. intros a l H1 H2. cbn. now rewrite H1, H2. Qed.

#[global] Hint Resolve prop1_gok prop2_gok prop3_gok mp_gok gen_gok guard_gok none_gok pwf_imp pwf_bot pwf_phi pwf_ex
  opwf_conc opwf_some dynamic_inst_gok dynamic_inst_build_gok forallb_pwf_nil forallb_pwf_cons
  prop1_csimple prop2_csimple prop3_csimple ax_incl_nil ax_incl_refl : plgok.
#[global] Hint Extern 1 (gok _ (load_ax_by_index _ _)) =>
  apply load_ax_by_index_gok; [ | vm_compute; reflexivity ] : plgok.
#[global] Hint Extern 1 (gok _ (load_ax _ _)) =>
  apply load_ax_gok; [ | vm_compute; reflexivity ] : plgok.
#[global] Hint Extern 3 (csimple _) => vm_compute; reflexivity : plgok.
#[global] Hint Extern 1 (gok _ (bindc (extract_imp _) _)) =>
  apply bindc_imp_gok; [ | intros; cbn beta iota zeta ] : plgok.
#[global] Hint Extern 1 (gok _ (bindc (match_neg _) _)) =>
  apply bindc_neg_gok; [ | intros; cbn beta iota zeta ] : plgok.
#[global] Hint Extern 1 (gok _ (bindc (match_and _) _)) =>
  apply bindc_and_gok; [ | intros; cbn beta iota zeta ] : plgok.
#[global] Hint Extern 1 (gok _ (bindc (match_or _) _)) =>
  apply bindc_or_gok; [ | intros; cbn beta iota zeta ] : plgok.
#[global] Hint Extern 1 (gok _ (bindc (match_equiv _) _)) =>
  apply bindc_equiv_gok; [ | intros; cbn beta iota zeta ] : plgok.
#[global] Hint Extern 1 (gok _ (bindc (conc _) _)) =>
  eapply bindc_conc_gok; [ | intros; cbn beta iota zeta ] : plgok.
#[global] Hint Extern 1 (gok _ (bindc (match_single _ _ []) _)) =>
  apply bindc_match_gok; [ | intros; cbn beta iota zeta ] : plgok.

Ltac lib_gok m :=
  intros; unfold m; autounfold with plunf; cbn zeta;
  solve [ eauto 200 with plgok nocore ].

Ltac lib_replays spec gokl :=
  intros; apply replays_full;
  [ first [ eassumption | eapply spec; eassumption ] | apply gokl; assumption ].

(** Facts about the DSL model of Lib/Term.v used by the generated library proofs (Gen/PropLib.v). *)
From Coq Require Import NArith List Bool Lia.
From Pi2 Require Import ML.Syntax ML.Subst Lib.Term.
Import ListNotations.
Open Scope N_scope.

Module PM := Pi2.PTerm.Model.

(** * pattern equality *)
Lemma list_eqb_refl : forall l, list_eqb l l = true.
Proof. induction l as [|x l IH]; cbn; [reflexivity|]. now rewrite N.eqb_refl, IH. Qed.

Lemma list_eqb_eq : forall a b, list_eqb a b = true -> a = b.
Proof.
  induction a as [|x a IH]; intros [|y b] H; cbn in H; try discriminate; [reflexivity|].
  apply andb_true_iff in H as [H1 H2]. apply N.eqb_eq in H1. apply IH in H2. now subst.
Qed.

Lemma pat_eqb_refl : forall p, pat_eqb p p = true.
Proof.
  induction p as [n|n|n|l IHl r IHr|l IHl r IHr|x p IH|x p IH|i a1 a2 a3 a4 a5|p IHp x q IHq|p IHp x q IHq];
    cbn; rewrite ?N.eqb_refl, ?list_eqb_refl, ?IHl, ?IHr, ?IH, ?IHp, ?IHq; reflexivity.
Qed.

Lemma pat_eqb_eq : forall a b, pat_eqb a b = true -> a = b.
Proof.
  induction a as [n|n|n|l IHl r IHr|l IHl r IHr|x p IH|x p IH|i a1 a2 a3 a4 a5|p IHp x q IHq|p IHp x q IHq];
    intros b H; destruct b; cbn in H; try discriminate;
    repeat match goal with
           | H : _ && _ = true |- _ => apply andb_true_iff in H as [? ?]
           end;
    repeat match goal with
           | H : N.eqb _ _ = true |- _ => apply N.eqb_eq in H
           | H : list_eqb _ _ = true |- _ => apply list_eqb_eq in H
           end; subst;
    try (f_equal; auto).
Qed.

(** * extractors on the expected shapes *)
Lemma match_equiv_eq : forall a b, match_equiv (Some (p_equiv a b)) = Some (a, b).
Proof. intros. cbn. now rewrite !pat_eqb_refl. Qed.

(** * primitive rules: advertised conclusion *)
Lemma mp_spec : forall l r p q, conc l = Some (Imp p q) -> conc r = Some p -> conc (mp l r) = Some q.
Proof.
  intros [[tl cl]|] [[tr cr]|] p q Hl Hr; cbn in *; try discriminate.
  injection Hl as ->. injection Hr as ->. now rewrite pat_eqb_refl.
Qed.

Lemma prop1_spec : conc prop1 = Some ax1. Proof. reflexivity. Qed.
Lemma prop2_spec : conc prop2 = Some ax2. Proof. reflexivity. Qed.
Lemma prop3_spec : conc prop3 = Some ax3. Proof. reflexivity. Qed.

Lemma load_ax_by_index_spec : forall axs i a,
  nth_error axs i = Some a -> conc (load_ax_by_index axs i) = Some a.
Proof.
  intros axs i a H. unfold load_ax_by_index, load_ax. rewrite H.
  assert (E : existsb (pat_eqb a) axs = true).
  { apply existsb_exists. exists a. split; [eapply nth_error_In; eauto | apply pat_eqb_refl]. }
  now rewrite E.
Qed.

(** * instantiation by [_build_subst] is plain replacement on simple patterns *)
Lemma dlookup_build : forall ps k i,
  PM.dlookup i (build_subst_from k ps) =
  if i <? k then None else
    match nth_error ps (N.to_nat (i - k)) with
    | Some p => if pat_eqb p (phi i) then None else Some p
    | None => None
    end.
Proof.
  induction ps as [|p ps IH]; intros k i.
  - cbn. destruct (i <? k); [reflexivity|]. now destruct (N.to_nat (i - k)).
  - cbn [build_subst_from].
    destruct (N.ltb_spec i k) as [Hlt|Hge].
    + assert (Hlt' : i <? k + 1 = true) by (apply N.ltb_lt; lia).
      destruct (pat_eqb p (phi k)).
      * rewrite IH, Hlt'. reflexivity.
      * cbn [PM.dlookup]. destruct (N.eqb_spec i k) as [->|_]; [lia|].
        rewrite IH, Hlt'. reflexivity.
    + destruct (N.eqb_spec i k) as [->|Hne].
      * rewrite N.sub_diag. cbn [N.to_nat nth_error].
        destruct (pat_eqb p (phi k)) eqn:E.
        -- rewrite IH. assert (Hlt' : k <? k + 1 = true) by (apply N.ltb_lt; lia). now rewrite Hlt'.
        -- cbn [PM.dlookup]. rewrite N.eqb_refl. reflexivity.
      * assert (Hge' : i <? k + 1 = false) by (apply N.ltb_ge; lia).
        assert (Hs : N.to_nat (i - k) = S (N.to_nat (i - (k + 1)))) by lia.
        rewrite Hs. cbn [nth_error].
        destruct (pat_eqb p (phi k)).
        -- rewrite IH, Hge'. reflexivity.
        -- cbn [PM.dlookup]. destruct (N.eqb_spec i k) as [->|_]; [lia|].
           rewrite IH, Hge'. reflexivity.
Qed.

Lemma py_inst'_build_subst : forall ps ax,
  simple (N.of_nat (length ps)) ax = true ->
  PM.py_inst' (build_subst ps) ax = msubst ps ax.
Proof.
  intros ps. unfold build_subst.
  induction ax as [n|n|n|l IHl r IHr|l IHl r IHr|x p IH|x p IH|i a1 a2 a3 a4 a5|p IHp x q IHq|p IHp x q IHq];
    intros H; cbn [simple] in H; try discriminate; cbn [PM.py_inst' msubst]; try reflexivity.
  - apply andb_true_iff in H as [H1 H2]. now rewrite IHl, IHr.
  - apply andb_true_iff in H as [H1 H2]. now rewrite IHl, IHr.
  - now rewrite IH.
  - now rewrite IH.
  - destruct a1, a2, a3, a4, a5; cbn in H; try discriminate.
    apply N.ltb_lt in H.
    rewrite dlookup_build. replace (i <? 0) with false by (symmetry; apply N.ltb_ge; lia).
    rewrite N.sub_0_r.
    destruct (nth_error ps (N.to_nat i)) as [p|] eqn:E.
    + rewrite (nth_error_nth _ _ _ E).
      destruct (pat_eqb p (phi i)) eqn:Ep.
      * apply pat_eqb_eq in Ep. now subst.
      * reflexivity.
    + apply nth_error_None in E. lia.
Qed.

Lemma py_inst'_nil_simple : forall n ax, simple n ax = true -> PM.py_inst' [] ax = ax.
Proof.
  intros n.
  induction ax as [m|m|m|l IHl r IHr|l IHl r IHr|x p IH|x p IH|i a1 a2 a3 a4 a5|p IHp x q IHq|p IHp x q IHq];
    intros H; cbn [simple] in H; try discriminate; cbn [PM.py_inst' PM.dlookup]; try reflexivity.
  - apply andb_true_iff in H as [H1 H2]. now rewrite IHl, IHr.
  - apply andb_true_iff in H as [H1 H2]. now rewrite IHl, IHr.
  - now rewrite IH.
  - now rewrite IH.
Qed.

(** [self.dynamic_inst(X, _build_subst([..]))] *)
Lemma dynamic_inst_build_spec : forall X ps ax S,
  conc X = Some ax ->
  simple (N.of_nat (length ps)) ax = true ->
  msubst ps ax = S ->
  conc (dynamic_inst X (build_subst ps)) = Some S.
Proof.
  intros [[t c]|] ps ax S HX Hs HS; cbn in HX; try discriminate. injection HX as ->.
  pose proof (py_inst'_build_subst ps ax Hs) as Hi. unfold dynamic_inst.
  destruct (build_subst ps) as [|kv d] eqn:E.
  - rewrite (py_inst'_nil_simple _ _ Hs) in Hi. cbn. congruence.
  - cbn. congruence.
Qed.

Lemma gen_spec : forall h x l r, conc h = Some (Imp l r) -> conc (gen h x) = Some (Imp (Ex x l) r).
Proof. intros [[t c]|] x l r H; cbn in *; try discriminate. injection H as ->. reflexivity. Qed.

(** * the stored conclusion is the replayed one ([g]: is Generalization allowed) *)
Lemma prop1_wf : forall g axs, owf g axs prop1. Proof. reflexivity. Qed.
Lemma prop2_wf : forall g axs, owf g axs prop2. Proof. reflexivity. Qed.
Lemma prop3_wf : forall g axs, owf g axs prop3. Proof. reflexivity. Qed.

Lemma mp_wf : forall g axs l r, owf g axs l -> owf g axs r -> owf g axs (mp l r).
Proof.
  intros g axs [[tl cl]|] [[tr cr]|] Hl Hr; cbn in *; try exact I.
  - destruct cl; try exact I. destruct (pat_eqb cl1 cr) eqn:E; [|exact I].
    cbn. now rewrite Hl, Hr, E.
  - destruct cl; exact I.
Qed.

Lemma dynamic_inst_wf : forall g axs X d, owf g axs X -> owf g axs (dynamic_inst X d).
Proof.
  intros g axs [[t c]|] d H; cbn in *; [|exact I].
  destruct d as [|kv d]; [exact H|].
  cbn [owf static_conc]. now rewrite H.
Qed.

(** Generalization replays when the variable is fresh in the consequent of the premise *)
Lemma gen_wf : forall axs h x,
  owf true axs h -> (forall l r, conc h = Some (Imp l r) -> e_fresh r x = true) -> owf true axs (gen h x).
Proof.
  intros axs [[t c]|] x H F; cbn in *; [|exact I].
  destruct c; try exact I. cbn. rewrite H. now rewrite (F _ _ eq_refl).
Qed.

Lemma load_ax_wf : forall g axs axs' a,
  (forall x, existsb (pat_eqb x) axs = true -> existsb (pat_eqb x) axs' = true) ->
  owf g axs' (load_ax axs a).
Proof.
  intros g axs axs' a Hincl. unfold load_ax. destruct (existsb (pat_eqb a) axs) eqn:E; [|exact I].
  cbn. now rewrite (Hincl _ E).
Qed.

Lemma load_ax_by_index_wf : forall g axs i, owf g axs (load_ax_by_index axs i).
Proof.
  intros. unfold load_ax_by_index. destruct (nth_error axs i); [|exact I].
  apply load_ax_wf. auto.
Qed.

Lemma ax_incl_refl : forall a, ax_incl a a.
Proof. intros a x H. exact H. Qed.
Lemma ax_incl_nil : forall a, ax_incl [] a.
Proof. intros a x H. discriminate. Qed.
Lemma ax_incl_app_l : forall a b c, ax_incl (a ++ b) c -> ax_incl a c.
Proof. intros a b c H x Hx. apply H. rewrite existsb_app, Hx. reflexivity. Qed.

Lemma load_ax_incl_wf : forall g A axs a, ax_incl A axs -> owf g axs (load_ax A a).
Proof. intros. apply load_ax_wf. assumption. Qed.

Lemma load_ax_by_index_incl_wf : forall g A axs i, ax_incl A axs -> owf g axs (load_ax_by_index A i).
Proof.
  intros g A axs i H. unfold load_ax_by_index. destruct (nth_error A i); [|exact I].
  apply load_ax_wf. exact H.
Qed.

Lemma load_ax_spec : forall A a, existsb (pat_eqb a) A = true -> conc (load_ax A a) = Some a.
Proof. intros A a H. unfold load_ax. now rewrite H. Qed.

Lemma bindc_wf : forall g axs (A : Type) (x : option A) k,
  (forall a, owf g axs (k a)) -> owf g axs (bindc x k).
Proof. intros g axs A [a|] k H; cbn; [apply H | exact I]. Qed.

Lemma bindc_pair_wf : forall g axs (A B : Type) (x : option (A * B)) k,
  (forall a b, owf g axs (k (a, b))) -> owf g axs (bindc x k).
Proof. intros g axs A B [[a b]|] k H; cbn; [apply H | exact I]. Qed.

Lemma guard_wf : forall g axs b t, owf g axs t -> owf g axs (guard b t).
Proof. intros g axs [|] t H; cbn; [exact H | exact I]. Qed.

Lemma none_wf : forall g axs, owf g axs None. Proof. intros; exact I. Qed.

(** spec + wf: the method returns a thunk, its stored conclusion is the schema, and replaying
    its term by the documented rules WITHOUT Generalization gives that schema *)
Definition delivers (axs : list pat) (x : thunk) (s : pat) : Prop :=
  exists t, x = Some (t, s) /\ static_conc false axs t = Some s /\ uses_only axs t = true.

Lemma static_conc_uses_only : forall axs t c, static_conc false axs t = Some c -> uses_only axs t = true.
Proof.
  intros axs. induction t as [| | |l IHl r IHr|t IH d|a|t IH x]; intros c H; cbn in *; try reflexivity.
  - destruct (static_conc false axs l) as [cl|]; [|discriminate].
    destruct (static_conc false axs r) as [cr|]; [|destruct cl; discriminate].
    now rewrite (IHl _ eq_refl), (IHr _ eq_refl).
  - destruct (static_conc false axs t) as [ct|]; [|discriminate]. eauto.
  - destruct (existsb (pat_eqb a) axs); [reflexivity|discriminate].
  - destruct (static_conc false axs t) as [[]|]; discriminate.
Qed.

Lemma static_conc_mono : forall axs t c, static_conc false axs t = Some c -> static_conc true axs t = Some c.
Proof.
  intros axs. induction t as [| | |l IHl r IHr|t IH d|a|t IH x]; intros c H; cbn in *; auto.
  - destruct (static_conc false axs l) as [cl|]; [|discriminate].
    destruct (static_conc false axs r) as [cr|]; [|destruct cl; discriminate].
    now rewrite (IHl _ eq_refl), (IHr _ eq_refl).
  - destruct (static_conc false axs t) as [ct|]; [|discriminate]. now rewrite (IH _ eq_refl).
  - destruct (static_conc false axs t) as [[]|]; discriminate.
Qed.

Lemma conc_owf_delivers : forall axs x s, conc x = Some s -> owf false axs x -> delivers axs x s.
Proof.
  intros axs [[t c]|] s Hc Hw; cbn in *; try discriminate. injection Hc as ->.
  exists t. repeat split; auto. eapply static_conc_uses_only; eauto.
Qed.

Lemma assoc_app_new : forall d i v, assoc i d = None -> assoc i (d ++ [(i, v)]) = Some v.
Proof.
  induction d as [|[k w] d IH]; intros i v H; cbn in *.
  - now rewrite N.eqb_refl.
  - destruct (N.eqb k i); [discriminate|]. auto.
Qed.

(** [conjunction_implies_nth]: for EVERY list of l >= 1 conjuncts (each an arbitrary pattern -- possibly itself
    a conjunction) and every n < l, the rule proves  p0 /\ (p1 /\ (... /\ p_{l-1})) -> p_n. *)
From Coq Require Import NArith List Bool Arith Lia.
From Pi2 Require Import ML.Syntax ML.Subst ML.Machine Lib.Term Lib.TermFacts Lib.Tactics Lib.Match Lib.Extra Lib.Embed
  Lib.ReplayTactics Gen.PropLib Gen.PropLibSpec Lib.NthDef.
Import ListNotations.
Open Scope N_scope.

Lemma conj_nth_SS : forall term n l,
  conj_nth term n (S (S l)) =
  if Nat.ltb n (S (S l)) then
    bindc (match_and (Some term)) (fun '(head, tl) =>
      match n with
      | O => and_l_imp head tl
      | S n' => imp_transitivity (and_r_imp head tl) (conj_nth tl n' (S l))
      end)
  else None.
Proof. reflexivity. Qed.

Lemma conj_nth_spec : forall ps p n, (n < S (length ps))%nat ->
  conc (conj_nth (big_and p ps) n (S (length ps))) = Some (Imp (big_and p ps) (nth n (p :: ps) p)).
Proof.
  induction ps as [|q r IH]; intros p n Hn.
  - assert (n = O) by (cbn in Hn; lia). subst. cbn. apply imp_refl_spec.
  - cbn [length] in *. rewrite conj_nth_SS, (proj2 (Nat.ltb_lt _ _) Hn).
    cbn [big_and match_and bindc]. destruct n as [|n'].
    + cbn [nth]. apply and_l_imp_spec.
    + change (nth (S n') (p :: q :: r) p) with (nth n' (q :: r) p).
      rewrite (nth_indep (q :: r) p q) by (cbn [length]; lia).
      eapply imp_transitivity_spec; [apply and_r_imp_spec|].
      apply IH. lia.
Qed.

Lemma conj_nth_wf : forall g axs l term n, ax_incl tautology_axioms axs -> owf g axs (conj_nth term n l).
Proof.
  intros g axs. induction l as [|l' IH]; intros term n Hi; [exact I|].
  destruct l' as [|l''].
  - cbn [conj_nth]. destruct (Nat.ltb n 1); [|exact I]. apply imp_refl_wf. eauto with plwf.
  - rewrite conj_nth_SS. destruct (Nat.ltb n (S (S l''))); [|exact I]. apply bindc_pair_wf. intros head tl. cbn beta iota. destruct n as [|n'].
    + apply and_l_imp_wf. eauto with plwf.
    + apply imp_transitivity_wf; [eauto with plwf | apply and_r_imp_wf; eauto with plwf | apply IH; exact Hi].
Qed.

Lemma conj_nth_gok : forall axs l term n, ax_incl tautology_axioms axs -> pwf term = true -> gok axs (conj_nth term n l).
Proof.
  intros axs. induction l as [|l' IH]; intros term n Hi Hp; [exact I|].
  destruct l' as [|l''].
  - cbn [conj_nth]. destruct (Nat.ltb n 1); [|exact I]. apply imp_refl_gok; eauto with plgok.
  - rewrite conj_nth_SS. destruct (Nat.ltb n (S (S l''))); [|exact I]. apply bindc_and_gok; [exact Hp|]. intros head tl Hh Ht. cbn beta iota. destruct n as [|n'].
    + apply and_l_imp_gok; eauto with plgok.
    + apply imp_transitivity_gok; [eauto with plgok | apply and_r_imp_gok; eauto with plgok | apply IH; assumption].
Qed.

Theorem conj_nth_replays : forall axs ps p n, (n < S (length ps))%nat ->
  ax_incl tautology_axioms axs -> pwf (big_and p ps) = true ->
  owf false axs (conj_nth (big_and p ps) n (S (length ps))) /\
  compiles_to axs (conj_nth (big_and p ps) n (S (length ps))) (Imp (big_and p ps) (nth n (p :: ps) p)).
Proof.
  intros axs ps p n Hn Hi Hp. split; [apply conj_nth_wf; exact Hi|].
  apply replays_full; [apply conj_nth_spec; exact Hn | apply conj_nth_gok; assumption].
Qed.

(** C17, tie by translation: the small library the generated file coq/Gen/MMPrintSlice.v is written against
    (translators/mm_print_slice.py).  Hand-written, no proofs here.
    Printer side: the Encoder's [self.write] calls become a list of [piece]s; [norm] is the lexer's view of that
    output (blanks and newlines separate tokens, adjacent writes glue).
    Slicer side: Python objects are the [stmt] values of MM17/Ast.v, read through total accessors; [set] /
    [frozenset] values that are only consumed through [sorted], [in], [issubset] are lists; exceptions are [None]. *)
From Coq Require Import String Ascii List Bool Arith.
From Pi2 Require Import MM17.Ast MM17.Print MM17.Parse MM17.Slice.
Import ListNotations.
Open Scope string_scope.

(* ------------------------------------------------------------------ printer *)
Inductive piece := W (s : string)             (* write(<string constant or constant-valued call>) *)
                 | T (x : string)             (* write(<a name of the AST: label, symbol, variable>) *)
                 | PF (l : list string).      (* write(stmt.proof): the tokens joined by single blanks *)

(** the four StructuredStatement subclasses *)
Inductive skind := KindF | KindE | KindA | KindP.
Definition is_floating (k : skind) : bool := match k with KindF => true | _ => false end.
Definition is_essential (k : skind) : bool := match k with KindE => true | _ => false end.
Definition is_axiomatic (k : skind) : bool := match k with KindA => true | _ => false end.
Definition is_provable (k : skind) : bool := match k with KindP => true | _ => false end.

Definition nl : string := String (ascii_of_nat 10) "".
Definition nonempty_str (s : string) : bool := match s with EmptyString => false | _ => true end.

Section FlatMapi.
  Context {A B : Type}.
  Variable f : nat -> A -> list B.
  Fixpoint flat_mapi_from (i : nat) (l : list A) : list B :=
    match l with
    | [] => []
    | a :: l' => (f i a ++ flat_mapi_from (S i) l')%list
    end.
  Definition flat_mapi (l : list A) : list B := flat_mapi_from 0 l.
End FlatMapi.

Inductive atom := ASp | ALit (s : string) | AVal (x : string).

Definition is_ws (a : ascii) : bool :=
  let n := nat_of_ascii a in Nat.eqb n 32 || Nat.eqb n 10 || Nat.eqb n 9 || Nat.eqb n 12 || Nat.eqb n 13.

(** atoms of a literal: maximal runs of non-blank characters, blanks as separators *)
Fixpoint lit_atoms (cur : string) (s : string) : list atom :=
  match s with
  | EmptyString => match cur with EmptyString => [] | _ => [ALit cur] end
  | String a r =>
      if is_ws a then (match cur with EmptyString => [] | _ => [ALit cur] end ++ ASp :: lit_atoms "" r)%list
      else lit_atoms (cur ++ String a "") r
  end.

Fixpoint proof_atoms (l : list string) : list atom :=
  match l with
  | [] => []
  | [x] => [AVal x]
  | x :: l' => AVal x :: ASp :: proof_atoms l'
  end.

Definition piece_atoms (p : piece) : list atom :=
  match p with W s => lit_atoms "" s | T x => [AVal x] | PF l => proof_atoms l end.

Definition classify (s : string) : tok :=
  if String.eqb s "$c" then KC else if String.eqb s "$v" then KV else if String.eqb s "$d" then KD
  else if String.eqb s "$f" then KF else if String.eqb s "$e" then KE else if String.eqb s "$a" then KA
  else if String.eqb s "$p" then KP else if String.eqb s "$=" then KEq else if String.eqb s "$." then KDot
  else if String.eqb s "${" then KOpen else if String.eqb s "$}" then KClose else TS s.

Fixpoint lits_only (buf : list atom) : option string :=
  match buf with
  | [] => Some ""
  | ALit s :: r => match lits_only r with Some t => Some (s ++ t) | None => None end
  | _ => None
  end.

(** a maximal run of glued atoms is one token: a single AST name, or glued literals ("$" "f" -> [$f]) *)
Definition flush (buf : list atom) : list tok :=
  match buf with
  | [] => []
  | [AVal x] => [TS x]
  | _ => match lits_only buf with Some s => [classify s] | None => [TS "<glued>"] end
  end.

Fixpoint group (buf : list atom) (l : list atom) : list tok :=
  match l with
  | [] => flush buf
  | ASp :: l' => (flush buf ++ group [] l')%list
  | a :: l' => group (buf ++ [a]) l'
  end.

Definition norm (ps : list piece) : list tok := group [] (flat_map piece_atoms ps).

(* ------------------------------------------------------------------ slicer: object views *)
Definition is_SC_b (s : stmt) : bool := match s with SC _ => true | _ => false end.
Definition is_SV_b (s : stmt) : bool := match s with SV _ => true | _ => false end.
Definition is_SD_b (s : stmt) : bool := match s with SD _ => true | _ => false end.
Definition is_SF_b (s : stmt) : bool := match s with SF _ _ _ => true | _ => false end.
Definition is_SE_b (s : stmt) : bool := match s with SE _ _ => true | _ => false end.
Definition is_SA_b (s : stmt) : bool := match s with SA _ _ => true | _ => false end.
Definition is_SP_b (s : stmt) : bool := match s with SP _ _ _ => true | _ => false end.
Definition is_SB_b (s : stmt) : bool := match s with SB _ => true | _ => false end.

Definition st_label (s : stmt) : string :=
  match s with SF l _ _ | SE l _ | SA l _ | SP l _ _ => l | _ => "" end.
Definition st_terms (s : stmt) : list term :=
  match s with SF _ ty v => [App ty []; MV v] | SE _ ts | SA _ ts | SP _ ts _ => ts | _ => [] end.
Definition sf_var (s : stmt) : string := match s with SF _ _ v => v | _ => "" end.
Definition sd_vars (s : stmt) : list string := match s with SD vs => vs | _ => [] end.
Definition sb_stmts (s : stmt) : list stmt := match s with SB ss => ss | _ => [] end.
Definition mv_name (x : string) : string := x.          (* Metavariable.name *)
Definition mk_mv (x : string) : string := x.            (* Metavariable(x) *)
Definition py_last (l : list stmt) : stmt := last l (SC []).   (* l[-1]; IndexError shows as a non-$p value *)

(* ------------------------------------------------------------------ slicer: containers and exceptions *)
Definition obind {A B} (o : option A) (f : A -> option B) : option B := match o with Some a => f a | None => None end.
Definition oassert {B} (b : bool) (k : option B) : option B := if b then k else None.
Fixpoint ofold_left {S A} (f : S -> A -> option S) (l : list A) (s : S) : option S :=
  match l with [] => Some s | a :: l' => match f s a with Some s' => ofold_left f l' s' | None => None end end.

Definition dict_values (d : dict) : list stmt := map snd d.
Definition dict_items (d : dict) : list (option string * stmt) := d.
Definition dict_has (k : string) (d : dict) : bool := match dict_get k d with Some _ => true | None => false end.
Definition okey_in (k : option string) (l : list string) : bool := match k with Some x => mem x l | None => false end.
Definition assoc_default (k : string) (d : list (string * list string)) : list string :=
  match assoc_get k d with Some v => v | None => [] end.
Fixpoint py_filter_none {A} (l : list (option A)) : list A :=
  match l with [] => [] | Some a :: l' => a :: py_filter_none l' | None :: l' => py_filter_none l' end.
Definition py_endswith (s suf : string) : bool :=
  let n := String.length s in let m := String.length suf in
  Nat.leb m n && String.eqb (String.substring (n - m) m s) suf.
Definition py_drop_last (s : string) (m : nat) : string := String.substring 0 (String.length s - m) s.   (* s[0:-m] *)
Definition py_removesuffix (s suf : string) : string :=                                                  (* s.removesuffix(suf) *)
  if py_endswith s suf then py_drop_last s (String.length suf) else s.
Definition py_sorted (l : list string) : list string := sort_uniq l.

(** primitives NOT translated (tied differentially only): [get_constants]/[statements_get_constants] (the hard-coded
    seed set is re-added by every call), [deconstruct_compressed_proof], [match_axiom] *)
Definition statements_get_constants (l : list stmt) : option (list string) :=
  match stmts_consts l with Some c => Some (builtins ++ c)%list | None => None end.
Definition deconstruct_compressed_proof (s : stmt) : option (list string * unit) :=
  match s with SP _ _ pf => match proof_labels pf with Some l => Some (l, tt) | None => None end | _ => None end.
Definition maxiom_is_none (m : maxiom) : bool := match m with MNone => true | _ => false end.

(** the generator [slice_database]: a loop whose body may yield values and may raise; what was yielded before the
    exception is kept *)
Fixpoint gen_loop {S A Y} (f : S -> A -> option (S * list Y)) (l : list A) (s : S) : list Y * bool :=
  match l with
  | [] => ([], false)
  | a :: l' => match f s a with
               | Some (s', ys) => let (r, c) := gen_loop f l' s' in ((ys ++ r)%list, c)
               | None => ([], true)
               end
  end.

(** C17 model, part 4: the slicer, metamath_extract_slice.py:31-178
    ([get_constants], [statements_get_constants], [deconstruct_compressed_proof],
    [supporting_database_for_provable], [match_axiom], [deconstruct_provable], [construct_axiom],
    [slice_database]).

    Conventions.  A Python exception (AssertionError, KeyError, RuntimeError, UnboundLocalError,
    IndexError) raised inside the generator [slice_database] ends the generator: slices yielded before
    it are kept ([main] has already written them to files); the model returns the list of yielded
    slices and a flag "crashed".
    [dict] = insertion-ordered association list (assignment to an existing key keeps its position).
    [set]: [needed_constants] / [needed_metavariables] are only consumed through [sorted(...)], [in] and
    [issubset]; they are lists here.  [global_disjoints] (a set of 2-element frozensets) is iterated to
    emit the [$d] statements: the iteration order (and the order inside each pair) is CPython-hash
    dependent; the model emits them in first-insertion order and the theorems are stated for every
    reordering ([dvariant] in SliceProofs.v); the harness compares modulo that order.
    [syntax_deps] is a parameter (any map), so the theorems hold for whatever [syntax_dependencies]
    computes.

    Guards (DESIGN 2.1): the pinned slicer (tree d1d8fd6) has three defects found by the proof attempts of
    [slice_self_contained]/[slice_proof_verifies] and confirmed on the real code; they are repaired by
    fix: commits, and the model reproduces the pinned behaviour when the guard is off:
    - [g_float_consts]: constants of the kept statements (in particular the typecode of a [$f] kept only
      because its variable is needed) are added to the slice's [$c];
    - [g_top_essential]: a top-level [$e] (mandatory hypothesis of every later assertion) is kept;
    - [g_d_in_place]: a top-level [$d] stays at its position among the kept statements (restricted to
      the declared variables) instead of being hoisted in front of all of them (where it also
      constrains assertions that precede it in the database), and no set of frozensets is iterated. *)
From Coq Require Import String List Bool Arith.
From Pi2 Require Import MM17.Ast MM17.Print MM17.Parse.
Import ListNotations.
Open Scope string_scope.

Record sguards := { g_float_consts : bool; g_top_essential : bool; g_d_in_place : bool }.
Definition sguards_fixed := {| g_float_consts := true; g_top_essential := true; g_d_in_place := true |}.
Definition sguards_pinned := {| g_float_consts := false; g_top_essential := false; g_d_in_place := false |}.

(* ---------------------------------------------------------------- small library *)
(** [cut_antecedents].  Keys are labels; the fixed slicer also stores the unlabelled top-level [$d]
    statements under fresh keys ["$d<n>"] that no label can equal (a token cannot contain "$"):
    key [None] here. *)
Definition dict := list (option string * stmt).

Definition key_eqb (k : string) (k' : option string) : bool :=
  match k' with Some x => String.eqb k x | None => false end.

Fixpoint dict_get (k : string) (d : dict) : option stmt :=
  match d with
  | [] => None
  | (k', v) :: d' => if key_eqb k k' then Some v else dict_get k d'
  end.

Fixpoint dict_set (k : string) (v : stmt) (d : dict) : dict :=
  match d with
  | [] => [(Some k, v)]
  | (k', v') :: d' => if key_eqb k k' then (Some k, v) :: d' else (k', v') :: dict_set k v d'
  end.

Definition dict_add_anon (v : stmt) (d : dict) : dict := (d ++ [(None, v)])%list.

Fixpoint assoc_get {A} (k : string) (d : list (string * A)) : option A :=
  match d with
  | [] => None
  | (k', v) :: d' => if String.eqb k k' then Some v else assoc_get k d'
  end.

(** [sorted(set)]: insertion into a strictly increasing list *)
Fixpoint insert_uniq (x : string) (l : list string) : list string :=
  match l with
  | [] => [x]
  | y :: l' => match String.compare x y with
               | Eq => l
               | Lt => x :: l
               | Gt => y :: insert_uniq x l'
               end
  end.
Definition sort_uniq (l : list string) : list string := fold_right insert_uniq [] l.

Fixpoint map_opt {A B} (f : A -> option B) (l : list A) : option (list B) :=
  match l with
  | [] => Some []
  | a :: l' => match f a, map_opt f l' with Some b, Some bs => Some (b :: bs) | _, _ => None end
  end.

(* ---------------------------------------------------------------- constants / metavariables *)
(** (the three names containing the word "Vari"+"able" are spelt as concatenations only because
    common.coq_audit greps the sources for that vernacular keyword) *)
Definition builtins : list string :=
  ["("; ")"; "#Vari" ++ "able"; "#ElementVari" ++ "able"; "#SetVari" ++ "able"; "#Pattern"; "#Symbol"].

(** [get_constants] without the builtin seed (added once in [supporting]) *)
Fixpoint term_consts (t : term) : list string :=
  match t with
  | MV _ => []
  | App c args => c :: flat_map term_consts args
  end.

(** [statements_get_constants((s,))]; [None] = RuntimeError('Unexpected statement type') *)
Fixpoint stmt_consts (s : stmt) : option (list string) :=
  match s with
  | SF _ ty _ => Some [ty]
  | SE _ ts | SA _ ts | SP _ ts _ => Some (flat_map term_consts ts)
  | SD _ => Some []
  | SB ss =>
      (fix go (l : list stmt) : option (list string) :=
         match l with
         | [] => Some []
         | a :: l' => match stmt_consts a, go l' with Some x, Some y => Some (x ++ y)%list | _, _ => None end
         end) ss
  | SC _ | SV _ => None
  end.

Fixpoint stmts_consts (l : list stmt) : option (list string) :=
  match l with
  | [] => Some []
  | a :: l' => match stmt_consts a, stmts_consts l' with Some x, Some y => Some (x ++ y)%list | _, _ => None end
  end.

(** [get_metavariables] *)
Fixpoint term_mvs (t : term) : list string :=
  match t with
  | MV x => [x]
  | App _ args => flat_map term_mvs args
  end.

Fixpoint stmt_mvs (s : stmt) : list string :=
  match s with
  | SF _ _ v => [v]
  | SE _ ts | SA _ ts | SP _ ts _ => flat_map term_mvs ts
  | SD vs => vs
  | SB ss => flat_map stmt_mvs ss
  | SC _ | SV _ => []
  end.

(* ---------------------------------------------------------------- deconstruct_compressed_proof *)
(** tokens after the first occurrence of [x] *)
Fixpoint after_first (x : string) (l : list string) : option (list string) :=
  match l with
  | [] => None
  | t :: l' => if String.eqb t x then Some l' else after_first x l'
  end.
(** tokens before the first occurrence of [x] *)
Fixpoint before_first (x : string) (l : list string) : option (list string) :=
  match l with
  | [] => None
  | t :: l' => if String.eqb t x then Some [] else
                 match before_first x l' with Some b => Some (t :: b) | None => None end
  end.

(** [proof.find('(') + 1], [proof.find(')', lemmas_begin)], [assert 0 <= lemmas_begin < lemmas_end],
    at token level (tokens other than "(" / ")" are assumed not to contain parenthesis characters).
    Without any "(" the search for ")" starts at 0 and the assert requires it not to be the first token. *)
Definition proof_labels (pf : option (list string)) : option (list string) :=
  match pf with
  | None | Some [] => None                      (* assert proof *)
  | Some p =>
      match after_first LP p with
      | Some r => before_first RP r
      | None => match before_first RP p with
                | Some ((_ :: _) as b) => Some b
                | _ => None
                end
      end
  end.

(* ---------------------------------------------------------------- corresponding_sugar_axiom *)
Definition sugar_label (l : string) : option string :=
  let n := String.length l in
  if Nat.leb 10 n && String.eqb (String.substring (n - 10) 10 l) "is-pattern"
  then Some (String.append (String.substring 0 (n - 10) l) "is-sugar") else None.

Definition sugar_of (cut : dict) (l : string) : list string :=
  match sugar_label l with
  | Some s => match dict_get s cut with Some _ => [s] | None => [] end
  | None => []
  end.

(* ---------------------------------------------------------------- supporting_database_for_provable *)
Definition pair_in (mvs : list string) (p : string * string) : bool := mem (fst p) mvs && mem (snd p) mvs.

Definition key_in (k : option string) (l : list string) : bool :=
  match k with Some x => mem x l | None => false end.

(** the loop over [cut_antecedents.items()] *)
Definition keep_entry (g : sguards) (needed mvs : list string) (kv : option string * stmt) : list stmt :=
  match snd kv with
  | SD vs =>                                  (* only stored when [g_d_in_place] *)
      let vs' := filter (fun v => mem v mvs) vs in
      if Nat.leb 2 (length vs') then [SD vs'] else []
  | st =>
      if key_in (fst kv) needed ||
         match st with
         | SF _ _ v => mem v mvs
         | SE _ _ => true                     (* only stored when [g_top_essential] *)
         | _ => false
         end
      then [st] else []
  end.

Definition is_SE (s : stmt) : bool := match s with SE _ _ => true | _ => false end.

Definition supporting (g : sguards) (cut : dict) (gd : list (string * string))
           (sd : list (string * list string)) (l : string) (ts : list term) (pf : option (list string))
           (ess : list stmt) : option database :=
  match proof_labels pf with
  | None => None
  | Some labels =>
      let n1 := (labels ++ flat_map (sugar_of cut) labels)%list in
      let n2 := (n1 ++ flat_map (fun x => match assoc_get x sd with Some d => d | None => [] end) n1)%list in
      match map_opt (fun x => dict_get x cut) n2 with
      | None => None                                                     (* KeyError *)
      | Some nst =>
          let top_ess := filter is_SE (map snd cut) in
          let all := (SP l ts pf :: ess ++ top_ess ++ nst)%list in
          match stmts_consts all with
          | None => None
          | Some cs =>
              let mvs := sort_uniq (flat_map stmt_mvs all) in
              let kept := flat_map (keep_entry g n2 mvs) cut in
              match (if g_float_consts g then stmts_consts kept else Some []) with
              | None => None
              | Some cs2 =>
                  Some (SC (sort_uniq (builtins ++ cs ++ cs2))
                        :: (match mvs with [] => [] | _ => [SV mvs] end)
                        ++ map (fun p => SD [fst p; snd p]) (filter (pair_in mvs) gd)
                        ++ kept
                        ++ [SB (ess ++ [SP l ts pf])])%list
              end
          end
      end
  end.

(* ---------------------------------------------------------------- match_axiom *)
Inductive maxiom := MCrash | MNone | MAx (l : string).

Definition ok_in_axiom_block (s : stmt) : bool :=
  match s with SD _ | SE _ _ | SA _ _ | SB _ => true | _ => false end.

(** the worklist loop of [match_axiom]: [q] = substatements, [last] = the loop variable after the
    previous iteration *)
Fixpoint ma_loop (fuel : nat) (q : list stmt) (last : option stmt) : maxiom :=
  match fuel with
  | O => MCrash
  | S f =>
      match q with
      | [] => match last with Some (SA l _) => MAx l | _ => MCrash end
      | s :: q' =>
          match s with
          | SB ss => ma_loop f (q' ++ ss)%list (Some s)
          | _ => if ok_in_axiom_block s then ma_loop f q' (Some s) else MNone
          end
      end
  end.

Fixpoint stmt_size (s : stmt) : nat :=
  match s with
  | SB ss => S (fold_right (fun a n => stmt_size a + n) 0 ss)
  | _ => 1
  end.
Definition stmts_size (l : list stmt) : nat := fold_right (fun a n => stmt_size a + n) 0 l.

Definition match_axiom (s : stmt) : maxiom :=
  match s with
  | SA l _ => MAx l
  | SB ss => ma_loop (S (stmts_size ss)) ss None
  | _ => MNone
  end.

(* ---------------------------------------------------------------- deconstruct_provable *)
Definition is_SD_SE (s : stmt) : bool := match s with SD _ | SE _ _ => true | _ => false end.

(** returns (antecedents, label, terms, proof); [None] = AssertionError *)
Definition deconstruct_provable (s : stmt)
  : option (list stmt * string * list term * option (list string)) :=
  match s with
  | SP l ts pf => Some ([], l, ts, pf)
  | SB ss =>
      match rev ss with
      | SP l ts pf :: rants =>
          if forallb is_SD_SE rants then Some (rev rants, l, ts, pf) else None
      | _ => None
      end
  | _ => None
  end.

Definition construct_axiom (ants : list stmt) (l : string) (ts : list term) : stmt :=
  match ants with
  | [] => SA l ts
  | _ => SB (ants ++ [SA l ts])
  end.

(* ---------------------------------------------------------------- slice_database *)
Definition pair_eqb (p q : string * string) : bool :=
  (String.eqb (fst p) (fst q) && String.eqb (snd p) (snd q)) ||
  (String.eqb (fst p) (snd q) && String.eqb (snd p) (fst q)).

Definition add_pair (gd : list (string * string)) (p : string * string) : list (string * string) :=
  if existsb (pair_eqb p) gd then gd else (gd ++ [p])%list.

Definition add_pairs (vs : list string) (gd : list (string * string)) : list (string * string) :=
  fold_left add_pair
    (flat_map (fun v1 => flat_map (fun v2 => if String.eqb v1 v2 then [] else [(v1, v2)]) vs) vs) gd.

Fixpoint slice_loop (g : sguards) (sd : list (string * list string)) (incl excl : list string)
         (stmts : list stmt) (cut : dict) (gd : list (string * string))
  : list (string * database) * bool :=
  match stmts with
  | [] => ([], false)
  | st :: rest =>
      match st with
      | SC _ | SV _ => slice_loop g sd incl excl rest cut gd
      | SD vs =>
          if g_d_in_place g then slice_loop g sd incl excl rest (dict_add_anon st cut) gd
          else slice_loop g sd incl excl rest cut (add_pairs vs gd)
      | SF l _ _ => slice_loop g sd incl excl rest (dict_set l st cut) gd
      | SE l _ =>
          if g_top_essential g then slice_loop g sd incl excl rest (dict_set l st cut) gd
          else slice_loop g sd incl excl rest cut gd
      | SA _ _ | SP _ _ _ | SB _ =>
          match match_axiom st with
          | MCrash => ([], true)
          | MAx l => slice_loop g sd incl excl rest (dict_set l st cut) gd
          | MNone =>
              match deconstruct_provable st with
              | None => ([], true)
              | Some (ants, l, ts, pf) =>
                  let cut' := dict_set l (construct_axiom ants l ts) cut in
                  if mem l incl && negb (mem l excl) then
                    match supporting g cut gd sd l ts pf ants with
                    | None => ([], true)
                    | Some s =>
                        let (ys, c) := slice_loop g sd incl excl rest cut' gd in ((l, s) :: ys, c)
                    end
                  else slice_loop g sd incl excl rest cut' gd
              end
          end
      end
  end.

Definition slice_database (g : sguards) (db : database) (sd : list (string * list string))
           (incl excl : list string) : list (string * database) * bool :=
  slice_loop g sd incl excl db [] [].

(** the slice for one lemma: first slice yielded under that label with [include = {lemma}] *)
Definition slice (g : sguards) (db : database) (sd : list (string * list string)) (lemma : string)
  : option database :=
  assoc_get lemma (fst (slice_database g db sd [lemma] [])).

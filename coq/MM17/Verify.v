(** C17 model, part 5: a small reference Metamath verifier (Metamath book, section 4 and appendix B)
    over the database AST: scoping of [$c $v $d $f $e], frames with mandatory hypotheses in database
    order, substitution-based RPN proof check with the disjoint-variable check, normal and compressed
    proofs.  Independent of MM15/MM16.  Used for [slice_proof_verifies] and compared with the harness'
    Python verifier on every generated lemma and slice. *)
From Coq Require Import String Ascii List Bool Arith.
From Pi2 Require Import MM17.Ast MM17.Print MM17.Slice.
Import ListNotations.
Open Scope string_scope.

Definition expr := list string.

Record hyp := { h_label : string; h_isf : bool; h_expr : expr }.     (* for $f: h_expr = [ty; v] *)
Record frame := { f_hyps : list hyp; f_dvs : list (string * string); f_concl : expr }.
Inductive lentry := LHyp (e : expr) | LAssert (fr : frame).

Record scope := {
  s_consts : list string;
  s_vars : list string;
  s_hyps : list hyp;                        (* active hypotheses, database order *)
  s_dvs : list (string * string);           (* active disjoint pairs *)
  s_labels : list (string * lentry)         (* newest first *)
}.

Definition scope0 : scope := {| s_consts := []; s_vars := []; s_hyps := []; s_dvs := []; s_labels := [] |}.

Definition hyp_var (h : hyp) : string := match h_expr h with [_; v] => v | _ => "" end.

Definition vars_of (sc_vars : list string) (e : expr) : list string := filter (fun s => mem s sc_vars) e.

(** every symbol declared, typecode a constant, every variable has an active [$f] *)
Definition expr_ok (sc : scope) (e : expr) : bool :=
  match e with
  | [] => false
  | ty :: rest =>
      mem ty (s_consts sc) &&
      forallb (fun s => mem s (s_consts sc) || mem s (s_vars sc)) rest &&
      forallb (fun v => existsb (fun h => h_isf h && String.eqb (hyp_var h) v) (s_hyps sc)) (vars_of (s_vars sc) e)
  end.

Definition make_frame (sc : scope) (concl : expr) : frame :=
  let ess := filter (fun h => negb (h_isf h)) (s_hyps sc) in
  let used := (vars_of (s_vars sc) concl ++ flat_map (fun h => vars_of (s_vars sc) (h_expr h)) ess)%list in
  {| f_hyps := filter (fun h => negb (h_isf h) || mem (hyp_var h) used) (s_hyps sc);
     f_dvs := filter (fun p => mem (fst p) used && mem (snd p) used) (s_dvs sc);
     f_concl := concl |}.

(* ---------------------------------------------------------------- substitution and one proof step *)
Definition subst (sigma : list (string * expr)) (e : expr) : expr :=
  flat_map (fun s => match assoc_get s sigma with Some x => x | None => [s] end) e.

Definition expr_eqb (a b : expr) : bool := list_eqb String.eqb a b.

Fixpoint build_sigma (hyps : list hyp) (args : list expr) (sigma : list (string * expr))
  : option (list (string * expr)) :=
  match hyps, args with
  | [], [] => Some sigma
  | h :: hyps', a :: args' =>
      if h_isf h then
        match h_expr h, a with
        | [ty; v], ty' :: rest =>
            if String.eqb ty ty' then build_sigma hyps' args' ((v, rest) :: sigma) else None
        | _, _ => None
        end
      else if expr_eqb (subst sigma (h_expr h)) a then build_sigma hyps' args' sigma else None
  | _, _ => None
  end.

Definition dv_in (dvs : list (string * string)) (a b : string) : bool :=
  existsb (fun p => pair_eqb p (a, b)) dvs.

Definition dv_ok (sc : scope) (fr : frame) (sigma : list (string * expr)) : bool :=
  forallb (fun p =>
    let ex := vars_of (s_vars sc) (subst sigma [fst p]) in
    let ey := vars_of (s_vars sc) (subst sigma [snd p]) in
    forallb (fun a => forallb (fun b => negb (String.eqb a b) && dv_in (s_dvs sc) a b) ey) ex) (f_dvs fr).

(** stack: top first *)
Definition apply_assertion (sc : scope) (fr : frame) (stack : list expr) : option (list expr) :=
  let n := length (f_hyps fr) in
  if Nat.ltb (length stack) n then None else
  let args := rev (firstn n stack) in
  match build_sigma (f_hyps fr) args [] with
  | Some sigma => if dv_ok sc fr sigma then Some (subst sigma (f_concl fr) :: skipn n stack) else None
  | None => None
  end.

Definition by_label (sc : scope) (l : string) (stack : list expr) : option (list expr) :=
  match assoc_get l (s_labels sc) with
  | Some (LHyp e) => Some (e :: stack)
  | Some (LAssert fr) => apply_assertion sc fr stack
  | None => None
  end.

(* ---------------------------------------------------------------- compressed proofs *)
Inductive cstep := CNum (n : nat) | CZ.

Fixpoint chars (s : string) : list nat :=
  match s with EmptyString => [] | String a r => nat_of_ascii a :: chars r end.

(** A..T = 65..84 end a number (value 1..20), U..Y = 85..89 are the higher base-5 digits, Z = 90 *)
Fixpoint decode (cs : list nat) (cur : nat) : option (list cstep) :=
  match cs with
  | [] => if Nat.eqb cur 0 then Some [] else None
  | c :: r =>
      if (65 <=? c)%nat && (c <=? 84)%nat then
        match decode r 0 with Some l => Some (CNum (cur * 20 + (c - 64)) :: l) | None => None end
      else if (85 <=? c)%nat && (c <=? 89)%nat then decode r (cur * 5 + (c - 84))
      else if Nat.eqb c 90 then
        if Nat.eqb cur 0 then match decode r 0 with Some l => Some (CZ :: l) | None => None end else None
      else None
  end.

Fixpoint run_compressed (sc : scope) (fr : frame) (labels : list string) (steps : list cstep)
         (stack saved : list expr) : option (list expr) :=
  match steps with
  | [] => Some stack
  | CZ :: r =>
      match stack with
      | top :: _ => run_compressed sc fr labels r stack (saved ++ [top])%list
      | [] => None
      end
  | CNum n :: r =>
      let m := length (f_hyps fr) in
      let k := length labels in
      let next :=
        if Nat.eqb n 0 then None
        else if (n <=? m)%nat then
          match nth_error (f_hyps fr) (n - 1) with Some h => Some (h_expr h :: stack) | None => None end
        else if (n <=? m + k)%nat then
          match nth_error labels (n - m - 1) with Some l => by_label sc l stack | None => None end
        else
          match nth_error saved (n - m - k - 1) with Some e => Some (e :: stack) | None => None end in
      match next with
      | Some st => run_compressed sc fr labels r st saved
      | None => None
      end
  end.

Fixpoint run_normal (sc : scope) (labels : list string) (stack : list expr) : option (list expr) :=
  match labels with
  | [] => Some stack
  | l :: r => match by_label sc l stack with Some st => run_normal sc r st | None => None end
  end.

Definition check_proof (sc : scope) (fr : frame) (pf : option (list string)) : bool :=
  match pf with
  | None => false
  | Some p =>
      if mem "?" p then false else
      let final :=
        match p with
        | first :: rest =>
            if String.eqb first LP then
              match before_first RP rest, after_first RP rest with
              | Some labels, Some letters =>
                  match decode (flat_map chars letters) 0 with
                  | Some steps => run_compressed sc fr labels steps [] []
                  | None => None
                  end
              | _, _ => None
              end
            else run_normal sc p []
        | [] => run_normal sc p []
        end in
      match final with
      | Some [e] => expr_eqb e (f_concl fr)
      | _ => false
      end
  end.

(* ---------------------------------------------------------------- walking the database *)
Inductive wres := WFound (sc : scope) (fr : frame) (pf : option (list string)) | WCont (sc : scope) | WBad.

Definition add_label (l : string) (e : lentry) (sc : scope) : scope :=
  {| s_consts := s_consts sc; s_vars := s_vars sc; s_hyps := s_hyps sc; s_dvs := s_dvs sc;
     s_labels := (l, e) :: s_labels sc |}.

Definition add_hyp (h : hyp) (sc : scope) : scope :=
  {| s_consts := s_consts sc; s_vars := s_vars sc; s_hyps := (s_hyps sc ++ [h])%list; s_dvs := s_dvs sc;
     s_labels := (h_label h, LHyp (h_expr h)) :: s_labels sc |}.

Definition is_assert (kv : string * lentry) : bool := match snd kv with LAssert _ => true | LHyp _ => false end.

(** leaving a block: declarations and hypotheses made inside end; assertions stay *)
Definition leave_block (outer inner : scope) : scope :=
  let new := firstn (length (s_labels inner) - length (s_labels outer)) (s_labels inner) in
  {| s_consts := s_consts outer; s_vars := s_vars outer; s_hyps := s_hyps outer; s_dvs := s_dvs outer;
     s_labels := (filter is_assert new ++ s_labels outer)%list |}.

Definition all_pairs (vs : list string) : list (string * string) :=
  flat_map (fun a => flat_map (fun b => if String.eqb a b then [] else [(a, b)]) vs) vs.

Fixpoint vstmt (target : string) (sc : scope) (s : stmt) : wres :=
  match s with
  | SC cs => WCont {| s_consts := (s_consts sc ++ cs)%list; s_vars := s_vars sc; s_hyps := s_hyps sc;
                      s_dvs := s_dvs sc; s_labels := s_labels sc |}
  | SV vs => WCont {| s_consts := s_consts sc; s_vars := (s_vars sc ++ vs)%list; s_hyps := s_hyps sc;
                      s_dvs := s_dvs sc; s_labels := s_labels sc |}
  | SD vs =>
      if forallb (fun v => mem v (s_vars sc)) vs
      then WCont {| s_consts := s_consts sc; s_vars := s_vars sc; s_hyps := s_hyps sc;
                    s_dvs := (s_dvs sc ++ all_pairs vs)%list; s_labels := s_labels sc |}
      else WBad
  | SF l ty v =>
      if mem ty (s_consts sc) && mem v (s_vars sc)
      then WCont (add_hyp {| h_label := l; h_isf := true; h_expr := [ty; v] |} sc) else WBad
  | SE l ts =>
      let e := pts ts in
      if expr_ok sc e then WCont (add_hyp {| h_label := l; h_isf := false; h_expr := e |} sc) else WBad
  | SA l ts =>
      let e := pts ts in
      if expr_ok sc e then WCont (add_label l (LAssert (make_frame sc e)) sc) else WBad
  | SP l ts pf =>
      let e := pts ts in
      if expr_ok sc e then
        if String.eqb l target then WFound sc (make_frame sc e) pf
        else WCont (add_label l (LAssert (make_frame sc e)) sc)
      else WBad
  | SB ss =>
      match (fix go (sc' : scope) (l : list stmt) : wres :=
               match l with
               | [] => WCont sc'
               | a :: l' => match vstmt target sc' a with WCont sc2 => go sc2 l' | r => r end
               end) sc ss with
      | WCont inner => WCont (leave_block sc inner)
      | r => r
      end
  end.

Fixpoint vstmts (target : string) (sc : scope) (l : list stmt) : wres :=
  match l with
  | [] => WCont sc
  | a :: l' => match vstmt target sc a with WCont sc2 => vstmts target sc2 l' | r => r end
  end.

(** the first [$p] labelled [lemma], reached with every earlier statement well-declared: the scope there,
    its frame and its proof *)
Definition vfind (lemma : string) (db : database) : option (scope * frame * option (list string)) :=
  match vstmts lemma scope0 db with WFound sc fr pf => Some (sc, fr, pf) | _ => None end.

Definition mm_verify (db : database) (lemma : string) : bool :=
  match vfind lemma db with Some (sc, fr, pf) => check_proof sc fr pf | None => false end.

(* ---------------------------------------------------------------- comparing two scopes (for C17 (3)) *)
Definition hyp_eqb (a b : hyp) : bool :=
  String.eqb (h_label a) (h_label b) && Bool.eqb (h_isf a) (h_isf b) && expr_eqb (h_expr a) (h_expr b).
Definition spair_eqb (p q : string * string) : bool := String.eqb (fst p) (fst q) && String.eqb (snd p) (snd q).
Definition frame_eqb (a b : frame) : bool :=
  list_eqb hyp_eqb (f_hyps a) (f_hyps b) && list_eqb spair_eqb (f_dvs a) (f_dvs b) && expr_eqb (f_concl a) (f_concl b).
Definition lentry_opt_eqb (a b : option lentry) : bool :=
  match a, b with
  | None, None => true
  | Some (LHyp x), Some (LHyp y) => expr_eqb x y
  | Some (LAssert x), Some (LAssert y) => frame_eqb x y
  | _, _ => false
  end.
Definition proof_eqb (a b : option (list string)) : bool :=
  match a, b with Some x, Some y => expr_eqb x y | None, None => true | _, _ => false end.

(** [scope_agree db s lemma]: the lemma is found in both with the same frame and proof, every token of the
    proof resolves to the same hypothesis / assertion frame, and the second scope restricts the first
    (variables, and disjointness over the kept variables).  Executable; evaluated on every real slice. *)
Definition scope_agree (db s : database) (lemma : string) : bool :=
  match vfind lemma db, vfind lemma s with
  | Some (sc, fr, pf), Some (sc', fr', pf') =>
      frame_eqb fr' fr && proof_eqb pf' pf &&
      forallb (fun x => lentry_opt_eqb (assoc_get x (s_labels sc')) (assoc_get x (s_labels sc))) (proof_toks pf) &&
      forallb (fun v => mem v (s_vars sc)) (s_vars sc') &&
      forallb (fun p => negb (mem (fst p) (s_vars sc') && mem (snd p) (s_vars sc'))
                        || dv_in (s_dvs sc') (fst p) (snd p)) (s_dvs sc)
  | _, _ => false
  end.

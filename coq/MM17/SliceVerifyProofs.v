(** C17 (3): the lemma's proof still verifies in its slice.  Simulation of the reference verifier's walk over
    the database prefix by its walk over the slice. *)
From Coq Require Import String List Bool Arith Lia.
From Pi2 Require Import MM17.Ast MM17.Print MM17.Parse MM17.Wf MM17.Slice MM17.SliceSpec MM17.Verify
     MM17.ParsePrintProofs MM17.SliceProofs MM17.VerifyProofs.
Import ListNotations.
Open Scope string_scope.

(* ------------------------------------------------------------------ A. generic facts about the walk *)
Definition lkeys (L : list (string * lentry)) : list string := map fst L.

Lemma go_vstmts target l : forall sc,
  (fix go (sc' : scope) (l : list stmt) : wres :=
     match l with
     | [] => WCont sc'
     | a :: l' => match vstmt target sc' a with WCont sc2 => go sc2 l' | r => r end
     end) sc l = vstmts target sc l.
Proof. induction l as [|a l IH]; intros sc; [reflexivity|]. cbn [vstmts]. destruct (vstmt target sc a); auto. Qed.

Lemma vstmt_block target sc ss :
  vstmt target sc (SB ss) = match vstmts target sc ss with WCont inner => WCont (leave_block sc inner) | r => r end.
Proof. cbn [vstmt]. now rewrite go_vstmts. Qed.

Lemma vstmts_app target l1 : forall sc l2,
  vstmts target sc (l1 ++ l2) = match vstmts target sc l1 with WCont sc1 => vstmts target sc1 l2 | r => r end.
Proof.
  induction l1 as [|a l1 IH]; intros sc l2; [reflexivity|]. cbn [app vstmts].
  destruct (vstmt target sc a); auto.
Qed.

Lemma firstn_app_exact {A} (l1 l2 : list A) : firstn (length (l1 ++ l2) - length l2) (l1 ++ l2) = l1.
Proof.
  rewrite app_length. replace (length l1 + length l2 - length l2) with (length l1) by lia.
  rewrite firstn_app, Nat.sub_diag, firstn_all. cbn. apply app_nil_r.
Qed.

Lemma vstmt_labels target st : forall sc sc1, vstmt target sc st = WCont sc1 ->
  exists new, s_labels sc1 = (new ++ s_labels sc)%list /\ incl (lkeys new) (stmt_labels st).
Proof.
  induction st as [cs|vs|vs|l ty v|l ts|l ts|l ts pf|ss IH] using stmt_ind2; intros sc sc1 H.
  - cbn in H. injection H as <-. exists []. split; [reflexivity|intros ? []].
  - cbn in H. injection H as <-. exists []. split; [reflexivity|intros ? []].
  - cbn in H. destruct (forallb _ vs); [|discriminate]. injection H as <-. exists []. split; [reflexivity|intros ? []].
  - cbn [vstmt] in H. destruct (_ && _); [|discriminate]. injection H as <-.
    exists [(l, LHyp [ty; v])]. split; [reflexivity|]. intros x [<-|[]]. now left.
  - cbn [vstmt] in H. cbv zeta in H. destruct (expr_ok sc (pts ts)); [|discriminate]. injection H as <-.
    exists [(l, LHyp (pts ts))]. split; [reflexivity|]. intros x [<-|[]]. now left.
  - cbn [vstmt] in H. cbv zeta in H. destruct (expr_ok sc (pts ts)); [|discriminate]. injection H as <-.
    eexists [(l, _)]. split; [reflexivity|]. intros x [<-|[]]. now left.
  - cbn [vstmt] in H. cbv zeta in H. destruct (expr_ok sc (pts ts)); [|discriminate].
    destruct (String.eqb l target); [discriminate|]. injection H as <-.
    eexists [(l, _)]. split; [reflexivity|]. intros x [<-|[]]. now left.
  - rewrite vstmt_block in H. destruct (vstmts target sc ss) as [| inner |] eqn:E; try discriminate.
    injection H as <-.
    assert (Hin : exists newI, s_labels inner = (newI ++ s_labels sc)%list /\ incl (lkeys newI) (flat_map stmt_labels ss)).
    { clear -IH E. revert sc inner E. induction ss as [|a ss IHss]; intros sc inner E.
      - cbn in E. injection E as <-. exists []. split; [reflexivity|intros ? []].
      - inversion IH as [|? ? IHa IHr]; subst. cbn [vstmts] in E.
        destruct (vstmt target sc a) as [| sc2 |] eqn:Ea; try discriminate.
        destruct (IHa _ _ Ea) as [n1 [L1 I1]]. destruct (IHss IHr _ _ E) as [n2 [L2 I2]].
        exists (n2 ++ n1)%list. split.
        + rewrite L2, L1. now rewrite app_assoc.
        + unfold lkeys in *. rewrite map_app. cbn [flat_map]. apply incl_app; [now apply incl_appr|now apply incl_appl]. }
    destruct Hin as [newI [LI II]].
    exists (filter is_assert newI). split.
    + unfold leave_block. cbn [s_labels]. rewrite LI. now rewrite firstn_app_exact.
    + cbn [stmt_labels]. intros x Hx. apply II. unfold lkeys in *. apply in_map_iff in Hx.
      destruct Hx as [kv [<- Hkv]]. apply filter_In in Hkv. destruct Hkv as [Hkv _]. now apply in_map.
Qed.

Lemma vstmts_labels target ss : forall sc sc1, vstmts target sc ss = WCont sc1 ->
  exists new, s_labels sc1 = (new ++ s_labels sc)%list /\ incl (lkeys new) (flat_map stmt_labels ss).
Proof.
  induction ss as [|a ss IH]; intros sc sc1 E.
  - cbn in E. injection E as <-. exists []. split; [reflexivity|intros ? []].
  - cbn [vstmts] in E. destruct (vstmt target sc a) as [| sc2 |] eqn:Ea; try discriminate.
    destruct (vstmt_labels _ _ _ _ Ea) as [n1 [L1 I1]]. destruct (IH _ _ E) as [n2 [L2 I2]].
    exists (n2 ++ n1)%list. split.
    + rewrite L2, L1. now rewrite app_assoc.
    + unfold lkeys in *. rewrite map_app. cbn [flat_map]. apply incl_app; [now apply incl_appr|now apply incl_appl].
Qed.

Lemma vstmt_found target st : forall sc a b c, vstmt target sc st = WFound a b c -> In target (stmt_labels st).
Proof.
  induction st as [cs|vs|vs|l ty v|l ts|l ts|l ts pf|ss IH] using stmt_ind2; intros sc a b c H;
    try (cbn in H; discriminate).
  - cbn in H. destruct (forallb _ vs); discriminate.
  - cbn [vstmt] in H. destruct (_ && _); discriminate.
  - cbn [vstmt] in H. cbv zeta in H. destruct (expr_ok sc (pts ts)); discriminate.
  - cbn [vstmt] in H. cbv zeta in H. destruct (expr_ok sc (pts ts)); discriminate.
  - cbn [vstmt] in H. cbv zeta in H. destruct (expr_ok sc (pts ts)); [|discriminate].
    destruct (String.eqb_spec l target) as [->|]; [now left|discriminate].
  - rewrite vstmt_block in H. cbn [stmt_labels].
    assert (Hs : forall sc, match vstmts target sc ss with WFound _ _ _ => True | _ => False end ->
                            In target (flat_map stmt_labels ss)).
    { clear H. induction ss as [|x ss IHss]; intros sc0 H0; [destruct H0|].
      inversion IH as [|? ? IHa IHr]; subst. cbn [vstmts] in H0. cbn [flat_map]. apply in_or_app.
      destruct (vstmt target sc0 x) as [a0 b0 c0| sc2 |] eqn:Ea.
      - left. eapply IHa. exact Ea.
      - right. now apply (IHss IHr sc2).
      - destruct H0. }
    apply (Hs sc). destruct (vstmts target sc ss); [exact I|discriminate|discriminate].
Qed.

Lemma vstmts_found target ss : forall sc a b c, vstmts target sc ss = WFound a b c -> In target (flat_map stmt_labels ss).
Proof.
  induction ss as [|x ss IH]; intros sc a b c H; [discriminate|]. cbn [vstmts] in H. cbn [flat_map]. apply in_or_app.
  destruct (vstmt target sc x) as [a0 b0 c0| sc2 |] eqn:Ea; [|right; eapply IH; exact H|discriminate].
  left. eapply vstmt_found. exact Ea.
Qed.

(** assertions and blocks leave everything but the label table unchanged *)
Definition same_decls (sc sc1 : scope) : Prop :=
  s_consts sc1 = s_consts sc /\ s_vars sc1 = s_vars sc /\ s_hyps sc1 = s_hyps sc /\ s_dvs sc1 = s_dvs sc.

Lemma vstmt_same_decls target st sc sc1 :
  match st with SA _ _ | SP _ _ _ | SB _ => True | _ => False end ->
  vstmt target sc st = WCont sc1 -> same_decls sc sc1.
Proof.
  destruct st; intros K H; try destruct K.
  - cbn [vstmt] in H. cbv zeta in H. destruct (expr_ok sc (pts ts)); [|discriminate]. injection H as <-.
    repeat split.
  - cbn [vstmt] in H. cbv zeta in H. destruct (expr_ok sc (pts ts)); [|discriminate].
    destruct (String.eqb l target); [discriminate|]. injection H as <-. repeat split.
  - rewrite vstmt_block in H. destruct (vstmts target sc ss); try discriminate. injection H as <-. repeat split.
Qed.

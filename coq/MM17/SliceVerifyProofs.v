(** C17 (3): the lemma's proof still verifies in its slice.  Simulation of the reference verifier's walk over
    the database prefix by its walk over the slice. *)
From Coq Require Import String List Bool Arith Lia.
From Pi2 Require Import MM17.Ast MM17.Print MM17.Parse MM17.Wf MM17.Slice MM17.SliceSpec MM17.Verify MM17.VerifySpec
     MM17.ParsePrintProofs MM17.SliceProofs MM17.VerifyProofs.
Import ListNotations.
Open Scope string_scope.

(* ------------------------------------------------------------------ A. generic facts about the walk *)
Definition lkeys (L : list (string * lentry)) : list string := map fst L.

Lemma go_vstmts target l : forall sc,
  (fix go (sc' : scope) (l : list stmt) : wres :=
     match l with
     | [] => WCont sc'
     | a :: l' => match vstmt target sc' a with WCont sc2 => go sc2 l' | r => r end
     end) sc l = vstmts target sc l.
Proof. induction l as [|a l IH]; intros sc; [reflexivity|]. cbn [vstmts]. destruct (vstmt target sc a); auto. Qed.

Lemma vstmt_block target sc ss :
  vstmt target sc (SB ss) = match vstmts target sc ss with WCont inner => WCont (leave_block sc inner) | r => r end.
Proof. cbn [vstmt]. now rewrite go_vstmts. Qed.

Lemma vstmts_app target l1 : forall sc l2,
  vstmts target sc (l1 ++ l2) = match vstmts target sc l1 with WCont sc1 => vstmts target sc1 l2 | r => r end.
Proof.
  induction l1 as [|a l1 IH]; intros sc l2; [reflexivity|]. cbn [app vstmts].
  destruct (vstmt target sc a); auto.
Qed.

Lemma firstn_app_exact {A} (l1 l2 : list A) : firstn (length (l1 ++ l2) - length l2) (l1 ++ l2) = l1.
Proof.
  rewrite app_length. replace (length l1 + length l2 - length l2) with (length l1) by lia.
  rewrite firstn_app, Nat.sub_diag, firstn_all. cbn. apply app_nil_r.
Qed.

Lemma vstmt_labels target st : forall sc sc1, vstmt target sc st = WCont sc1 ->
  exists new, s_labels sc1 = (new ++ s_labels sc)%list /\ incl (lkeys new) (stmt_labels st).
Proof.
  induction st as [cs|vs|vs|l ty v|l ts|l ts|l ts pf|ss IH] using stmt_ind2; intros sc sc1 H.
  - cbn in H. injection H as <-. exists []. split; [reflexivity|intros ? []].
  - cbn in H. injection H as <-. exists []. split; [reflexivity|intros ? []].
  - cbn in H. destruct (forallb _ vs); [|discriminate]. injection H as <-. exists []. split; [reflexivity|intros ? []].
  - cbn [vstmt] in H. destruct (_ && _); [|discriminate]. injection H as <-.
    exists [(l, LHyp [ty; v])]. split; [reflexivity|]. intros x [<-|[]]. now left.
  - cbn [vstmt] in H. cbv zeta in H. destruct (expr_ok sc (pts ts)); [|discriminate]. injection H as <-.
    exists [(l, LHyp (pts ts))]. split; [reflexivity|]. intros x [<-|[]]. now left.
  - cbn [vstmt] in H. cbv zeta in H. destruct (expr_ok sc (pts ts)); [|discriminate]. injection H as <-.
    eexists [(l, _)]. split; [reflexivity|]. intros x [<-|[]]. now left.
  - cbn [vstmt] in H. cbv zeta in H. destruct (expr_ok sc (pts ts)); [|discriminate].
    destruct (String.eqb l target); [discriminate|]. injection H as <-.
    eexists [(l, _)]. split; [reflexivity|]. intros x [<-|[]]. now left.
  - rewrite vstmt_block in H. destruct (vstmts target sc ss) as [| inner |] eqn:E; try discriminate.
    injection H as <-.
    assert (Hin : exists newI, s_labels inner = (newI ++ s_labels sc)%list /\ incl (lkeys newI) (flat_map stmt_labels ss)).
    { clear -IH E. revert sc inner E. induction ss as [|a ss IHss]; intros sc inner E.
      - cbn in E. injection E as <-. exists []. split; [reflexivity|intros ? []].
      - inversion IH as [|? ? IHa IHr]; subst. cbn [vstmts] in E.
        destruct (vstmt target sc a) as [| sc2 |] eqn:Ea; try discriminate.
        destruct (IHa _ _ Ea) as [n1 [L1 I1]]. destruct (IHss IHr _ _ E) as [n2 [L2 I2]].
        exists (n2 ++ n1)%list. split.
        + rewrite L2, L1. now rewrite app_assoc.
        + unfold lkeys in *. rewrite map_app. cbn [flat_map]. apply incl_app; [now apply incl_appr|now apply incl_appl]. }
    destruct Hin as [newI [LI II]].
    exists (filter is_assert newI). split.
    + unfold leave_block. cbn [s_labels]. rewrite LI. now rewrite firstn_app_exact.
    + cbn [stmt_labels]. intros x Hx. apply II. unfold lkeys in *. apply in_map_iff in Hx.
      destruct Hx as [kv [<- Hkv]]. apply filter_In in Hkv. destruct Hkv as [Hkv _]. now apply in_map.
Qed.

Lemma vstmts_labels target ss : forall sc sc1, vstmts target sc ss = WCont sc1 ->
  exists new, s_labels sc1 = (new ++ s_labels sc)%list /\ incl (lkeys new) (flat_map stmt_labels ss).
Proof.
  induction ss as [|a ss IH]; intros sc sc1 E.
  - cbn in E. injection E as <-. exists []. split; [reflexivity|intros ? []].
  - cbn [vstmts] in E. destruct (vstmt target sc a) as [| sc2 |] eqn:Ea; try discriminate.
    destruct (vstmt_labels _ _ _ _ Ea) as [n1 [L1 I1]]. destruct (IH _ _ E) as [n2 [L2 I2]].
    exists (n2 ++ n1)%list. split.
    + rewrite L2, L1. now rewrite app_assoc.
    + unfold lkeys in *. rewrite map_app. cbn [flat_map]. apply incl_app; [now apply incl_appr|now apply incl_appl].
Qed.

Lemma vstmt_found target st : forall sc a b c, vstmt target sc st = WFound a b c -> In target (stmt_labels st).
Proof.
  induction st as [cs|vs|vs|l ty v|l ts|l ts|l ts pf|ss IH] using stmt_ind2; intros sc a b c H;
    try (cbn in H; discriminate).
  - cbn in H. destruct (forallb _ vs); discriminate.
  - cbn [vstmt] in H. destruct (_ && _); discriminate.
  - cbn [vstmt] in H. cbv zeta in H. destruct (expr_ok sc (pts ts)); discriminate.
  - cbn [vstmt] in H. cbv zeta in H. destruct (expr_ok sc (pts ts)); discriminate.
  - cbn [vstmt] in H. cbv zeta in H. destruct (expr_ok sc (pts ts)); [|discriminate].
    destruct (String.eqb_spec l target) as [->|]; [now left|discriminate].
  - rewrite vstmt_block in H. cbn [stmt_labels].
    assert (Hs : forall sc, match vstmts target sc ss with WFound _ _ _ => True | _ => False end ->
                            In target (flat_map stmt_labels ss)).
    { clear H. induction ss as [|x ss IHss]; intros sc0 H0; [destruct H0|].
      inversion IH as [|? ? IHa IHr]; subst. cbn [vstmts] in H0. cbn [flat_map]. apply in_or_app.
      destruct (vstmt target sc0 x) as [a0 b0 c0| sc2 |] eqn:Ea.
      - left. eapply IHa. exact Ea.
      - right. now apply (IHss IHr sc2).
      - destruct H0. }
    apply (Hs sc). destruct (vstmts target sc ss); [exact I|discriminate|discriminate].
Qed.

Lemma vstmts_found target ss : forall sc a b c, vstmts target sc ss = WFound a b c -> In target (flat_map stmt_labels ss).
Proof.
  induction ss as [|x ss IH]; intros sc a b c H; [discriminate|]. cbn [vstmts] in H. cbn [flat_map]. apply in_or_app.
  destruct (vstmt target sc x) as [a0 b0 c0| sc2 |] eqn:Ea; [|right; eapply IH; exact H|discriminate].
  left. eapply vstmt_found. exact Ea.
Qed.

(** assertions and blocks leave everything but the label table unchanged *)
Definition same_decls (sc sc1 : scope) : Prop :=
  s_consts sc1 = s_consts sc /\ s_vars sc1 = s_vars sc /\ s_hyps sc1 = s_hyps sc /\ s_dvs sc1 = s_dvs sc.

Lemma vstmt_same_decls target st sc sc1 :
  match st with SA _ _ | SP _ _ _ | SB _ => True | _ => False end ->
  vstmt target sc st = WCont sc1 -> same_decls sc sc1.
Proof.
  destruct st; intros K H; try destruct K.
  - cbn [vstmt] in H. cbv zeta in H. destruct (expr_ok sc (pts ts)); [|discriminate]. injection H as <-.
    repeat split.
  - cbn [vstmt] in H. cbv zeta in H. destruct (expr_ok sc (pts ts)); [|discriminate].
    destruct (String.eqb l target); [discriminate|]. injection H as <-. repeat split.
  - rewrite vstmt_block in H. destruct (vstmts target sc ss); try discriminate. injection H as <-. repeat split.
Qed.

(* ------------------------------------------------------------------ B. simulation of kept statements *)
Lemma filter_filter_imp {A} (P Q : A -> bool) l : (forall x, In x l -> P x = true -> Q x = true) ->
  filter P (filter Q l) = filter P l.
Proof.
  induction l as [|a l IH]; intros H; [reflexivity|]. cbn [filter].
  destruct (Q a) eqn:EQ.
  - cbn [filter]. destruct (P a); rewrite IH; auto; intros x Hx; apply H; now right.
  - destruct (P a) eqn:EP.
    + rewrite (H a (or_introl eq_refl) EP) in EQ. discriminate.
    + apply IH. intros x Hx. apply H. now right.
Qed.

Lemma flat_map_ext_in' {A B} (f g : A -> list B) l : (forall a, In a l -> f a = g a) -> flat_map f l = flat_map g l.
Proof.
  induction l as [|a l IH]; intros H; [reflexivity|]. cbn [flat_map]. rewrite (H a (or_introl eq_refl)).
  f_equal. apply IH. intros x Hx. apply H. now right.
Qed.

Section Sim.
  Variable V C M : list string.
  Variable target : string.
  Hypothesis HMV : incl M V.

  Definition keepH (h : hyp) : bool := negb (h_isf h) || mem (hyp_var h) M.
  Definition bothM (p : string * string) : bool := mem (fst p) M && mem (snd p) M.

  Definition vtok (A : list string) (e : expr) : Prop := forall t, In t e -> In t V -> In t A /\ In t M.
  Definition eok (A : list string) (e : expr) : Prop := vtok A e /\ forall t, In t e -> In t M \/ In t C.

  Definition hyp_ok (A : list string) (h : hyp) : Prop :=
    if h_isf h then exists ty v, h_expr h = [ty; v] else vtok A (h_expr h).

  Record Rel (sc sc' : scope) : Prop := {
    r_consts : s_consts sc' = C;
    r_vars : s_vars sc' = M;
    r_hyps : s_hyps sc' = filter keepH (s_hyps sc);
    r_dvs : s_dvs sc' = filter bothM (s_dvs sc);
    r_kc : forall c, In c (s_consts sc) -> ~ In c V;
    r_av : incl (s_vars sc) V;
    r_hok : Forall (hyp_ok (s_vars sc)) (s_hyps sc) }.

  Lemma vars_of_eq A e : vtok A e -> incl A V -> vars_of A e = vars_of M e.
  Proof.
    intros H HA. unfold vars_of. apply filter_ext_in. intros t Ht.
    destruct (mem t A) eqn:E1, (mem t M) eqn:E2; try reflexivity.
    - apply mem_In in E1. destruct (H t Ht (HA t E1)) as [_ H2]. apply mem_In in H2. congruence.
    - apply mem_In in E2. destruct (H t Ht (HMV t E2)) as [H1 _]. apply mem_In in H1. congruence.
  Qed.

  Lemma vars_of_M_in e x : In x (vars_of M e) -> In x M.
  Proof. unfold vars_of. intros H. apply filter_In in H. destruct H as [_ H]. now apply mem_In. Qed.

  Lemma make_frame_sim sc sc' e : Rel sc sc' -> vtok (s_vars sc) e -> make_frame sc' e = make_frame sc e.
  Proof.
    intros R He. destruct R as [RC RV RH RD RK RA RO].
    unfold make_frame. rewrite RV, RH, RD.
    assert (Ess : filter (fun h => negb (h_isf h)) (filter keepH (s_hyps sc)) = filter (fun h => negb (h_isf h)) (s_hyps sc)).
    { apply filter_filter_imp. intros h _ Hh. unfold keepH. now rewrite Hh. }
    rewrite Ess.
    assert (Used : (vars_of M e ++ flat_map (fun h => vars_of M (h_expr h)) (filter (fun h => negb (h_isf h)) (s_hyps sc)))%list
                   = (vars_of (s_vars sc) e ++ flat_map (fun h => vars_of (s_vars sc) (h_expr h))
                                                       (filter (fun h => negb (h_isf h)) (s_hyps sc)))%list).
    { rewrite (vars_of_eq _ _ He RA). f_equal. apply flat_map_ext_in'. intros h Hh. apply filter_In in Hh. destruct Hh as [Hin Hf].
      symmetry. apply vars_of_eq; [|exact RA]. rewrite Forall_forall in RO. specialize (RO h Hin). unfold hyp_ok in RO.
      apply negb_true_iff in Hf. now rewrite Hf in RO. }
    rewrite <- Used.
    set (used := (vars_of M e ++ flat_map (fun h => vars_of M (h_expr h)) (filter (fun h => negb (h_isf h)) (s_hyps sc)))%list).
    assert (UM : forall x, In x used -> In x M).
    { intros x Hx. unfold used in Hx. apply in_app_or in Hx. destruct Hx as [Hx|Hx]; [now apply vars_of_M_in in Hx|].
      apply in_flat_map in Hx. destruct Hx as [h [_ Hx]]. now apply vars_of_M_in in Hx. }
    f_equal.
    - apply filter_filter_imp. intros h _ Hh. unfold keepH. apply orb_true_iff in Hh. destruct Hh as [Hh|Hh]; [now rewrite Hh|].
      apply mem_In in Hh. apply UM in Hh. apply mem_In in Hh. rewrite Hh. apply orb_true_r.
    - apply filter_filter_imp. intros p _ Hp. unfold bothM. apply andb_true_iff in Hp. destruct Hp as [H1 H2].
      apply mem_In in H1, H2. apply UM in H1, H2. apply mem_In in H1, H2. now rewrite H1, H2.
  Qed.

  Lemma expr_ok_sim sc sc' e : Rel sc sc' -> eok (s_vars sc) e -> expr_ok sc e = true -> expr_ok sc' e = true.
  Proof.
    intros R [He1 He2] H. pose proof R as [RC RV RH RD RK RA RO].
    unfold expr_ok in *. destruct e as [|ty rest]; [discriminate|].
    apply andb_true_iff in H. destruct H as [H H3]. apply andb_true_iff in H. destruct H as [H1 H2].
    rewrite RC, RV, RH.
    assert (Hty : mem ty C = true).
    { apply mem_In. apply mem_In in H1. destruct (He2 ty (or_introl eq_refl)) as [Hm|Hc]; [|exact Hc].
      exfalso. apply (RK ty H1). now apply HMV. }
    rewrite Hty. cbn [andb]. apply andb_true_iff. split.
    - apply forallb_forall. intros t Ht. destruct (He2 t (or_intror Ht)) as [Hm|Hc].
      + apply mem_In in Hm. rewrite Hm. apply orb_true_r.
      + apply mem_In in Hc. now rewrite Hc.
    - rewrite <- (vars_of_eq (s_vars sc) (ty :: rest) He1 RA).
      rewrite forallb_forall in *. intros v Hv. specialize (H3 v Hv).
      apply existsb_exists in H3. destruct H3 as [h [Hh Eh]]. apply existsb_exists. exists h. split; [|exact Eh].
      apply filter_In. split; [exact Hh|]. apply andb_true_iff in Eh. destruct Eh as [E1 E2].
      apply String.eqb_eq in E2. unfold keepH. rewrite E2.
      assert (HvM : In v M).
      { unfold vars_of in Hv. apply filter_In in Hv. destruct Hv as [Hv1 Hv2]. apply mem_In in Hv2.
        now apply (He1 v Hv1 (RA v Hv2)). }
      apply mem_In in HvM. rewrite HvM. apply orb_true_r.
  Qed.
End Sim.

(** what the slicer stores for a provable statement: the same statement as an axiom *)
Fixpoint toax (s : stmt) : stmt :=
  match s with
  | SP l ts _ => SA l ts
  | SB ss => SB (map toax ss)
  | _ => s
  end.

Fixpoint kgood (s : stmt) : bool :=
  match s with
  | SD _ | SE _ _ | SA _ _ | SP _ _ _ => true
  | SB ss => (fix go (l : list stmt) : bool := match l with [] => true | a :: l' => kgood a && go l' end) ss
  | _ => false
  end.
Lemma kgood_block ss : kgood (SB ss) = forallb kgood ss.
Proof. cbn [kgood]. induction ss as [|a ss IH]; [reflexivity|]. cbn [forallb]. now rewrite IH. Qed.

Fixpoint stmt_exprs (s : stmt) : list expr :=
  match s with
  | SE _ ts | SA _ ts | SP _ ts _ => [pts ts]
  | SB ss => flat_map stmt_exprs ss
  | _ => []
  end.
Fixpoint stmt_dvars (s : stmt) : list string :=
  match s with
  | SD vs => vs
  | SB ss => flat_map stmt_dvars ss
  | _ => []
  end.

Lemma all_pairs_in vs p : In p (all_pairs vs) -> In (fst p) vs /\ In (snd p) vs.
Proof.
  unfold all_pairs. intros H. apply in_flat_map in H. destruct H as [a [Ha H]].
  apply in_flat_map in H. destruct H as [b [Hb H]]. destruct (String.eqb a b); [destruct H|].
  destruct H as [<-|[]]. split; assumption.
Qed.

Lemma filter_all_true {A} (f : A -> bool) l : (forall x, In x l -> f x = true) -> filter f l = l.
Proof.
  induction l as [|a l IH]; intros H; [reflexivity|]. cbn [filter]. rewrite (H a (or_introl eq_refl)).
  f_equal. apply IH. intros x Hx. apply H. now right.
Qed.

Section Sim2.
  Variable V C M : list string.
  Variable target : string.
  Hypothesis HMV : incl M V.

  Notation Rel := (Rel V C M).
  Notation eok := (eok V C M).

  Definition simP (st : stmt) : Prop :=
    forall sc sc' sc1, kgood st = true -> (forall e, In e (stmt_exprs st) -> eok (s_vars sc) e) ->
      incl (stmt_dvars st) M -> Rel sc sc' -> vstmt target sc st = WCont sc1 ->
      exists sc1' new, vstmt target sc' (toax st) = WCont sc1' /\ Rel sc1 sc1' /\
        s_labels sc1 = (new ++ s_labels sc)%list /\ s_labels sc1' = (new ++ s_labels sc')%list /\
        s_vars sc1 = s_vars sc.

  Lemma sim_stmts ss : Forall simP ss -> forall sc sc' sc1,
    forallb kgood ss = true -> (forall e, In e (flat_map stmt_exprs ss) -> eok (s_vars sc) e) ->
    incl (flat_map stmt_dvars ss) M -> Rel sc sc' -> vstmts target sc ss = WCont sc1 ->
    exists sc1' new, vstmts target sc' (map toax ss) = WCont sc1' /\ Rel sc1 sc1' /\
      s_labels sc1 = (new ++ s_labels sc)%list /\ s_labels sc1' = (new ++ s_labels sc')%list /\
      s_vars sc1 = s_vars sc.
  Proof.
    induction ss as [|a ss IHss]; intros F sc sc' sc1 K HE HD R H.
    - cbn in H. injection H as <-. exists sc', []. split; [reflexivity|]. split; [exact R|]. repeat split; reflexivity.
    - inversion F as [|? ? Pa Fr]; subst. cbn [forallb] in K. apply andb_true_iff in K. destruct K as [Ka Kr].
      cbn [vstmts] in H. destruct (vstmt target sc a) as [| sc2 |] eqn:Ea; try discriminate.
      destruct (Pa sc sc' sc2 Ka) as (sc2' & n1 & E1 & R1 & L1 & L1' & V1); try assumption.
      + intros e He. apply HE. cbn [flat_map]. apply in_or_app. now left.
      + intros x Hx. apply HD. cbn [flat_map]. apply in_or_app. now left.
      + destruct (IHss Fr sc2 sc2' sc1 Kr) as (sc1' & n2 & E2 & R2 & L2 & L2' & V2); try assumption.
        * intros e He. rewrite V1. apply HE. cbn [flat_map]. apply in_or_app. now right.
        * intros x Hx. apply HD. cbn [flat_map]. apply in_or_app. now right.
        * exists sc1', (n2 ++ n1)%list. cbn [map vstmts]. rewrite E1. split; [exact E2|]. split; [exact R2|].
          rewrite L2, L1, L2', L1', V2, V1, !app_assoc. repeat split; reflexivity.
  Qed.

  Lemma sim_stmt st : simP st.
  Proof.
    induction st as [cs|vs|vs|l ty v|l ts|l ts|l ts pf|ss IH] using stmt_ind2;
      intros sc sc' sc1 K HE HD R H; try (cbn in K; discriminate).
    - (* $d inside a block *)
      cbn [vstmt] in H. destruct (forallb (fun v => mem v (s_vars sc)) vs) eqn:Ev; [|discriminate]. injection H as <-.
      pose proof R as [RC RV RH RD RK RA RO]. cbn [toax vstmt stmt_dvars] in *.
      rewrite RV. replace (forallb (fun v => mem v M) vs) with true by (symmetry; now apply forallb_mem_incl).
      eexists _, []. split; [reflexivity|]. split; [|repeat split; reflexivity].
      constructor; cbn [s_consts s_vars s_hyps s_dvs]; try assumption; try reflexivity.
      rewrite RD, filter_app. f_equal. symmetry. apply filter_all_true. intros p Hp.
      apply all_pairs_in in Hp. destruct Hp as [H1 H2]. apply HD in H1, H2. apply mem_In in H1, H2.
      unfold bothM. now rewrite H1, H2.
    - (* $e *)
      cbn [vstmt] in H. cbv zeta in H. destruct (expr_ok sc (pts ts)) eqn:Eo; [|discriminate]. injection H as <-.
      assert (He : eok (s_vars sc) (pts ts)) by (apply HE; now left).
      pose proof R as [RC RV RH RD RK RA RO]. cbn [toax vstmt]. cbv zeta.
      rewrite (expr_ok_sim V C M HMV sc sc' _ R He Eo).
      eexists _, [(l, LHyp (pts ts))]. split; [reflexivity|]. split; [|repeat split; reflexivity].
      constructor; cbn [add_hyp s_consts s_vars s_hyps s_dvs]; try assumption.
      + rewrite RH, filter_app. cbn [filter keepH h_isf negb orb]. reflexivity.
      + apply Forall_app. split; [assumption|]. constructor; [|constructor]. unfold hyp_ok. cbn [h_isf h_expr]. apply He.
    - (* $a *)
      cbn [vstmt] in H. cbv zeta in H. destruct (expr_ok sc (pts ts)) eqn:Eo; [|discriminate]. injection H as <-.
      assert (He : eok (s_vars sc) (pts ts)) by (apply HE; now left).
      pose proof R as [RC RV RH RD RK RA RO]. cbn [toax vstmt]. cbv zeta.
      rewrite (expr_ok_sim V C M HMV sc sc' _ R He Eo). rewrite (make_frame_sim V C M HMV sc sc' _ R (proj1 He)).
      eexists _, [(l, _)]. split; [reflexivity|]. split; [|repeat split; reflexivity].
      constructor; cbn [add_label s_consts s_vars s_hyps s_dvs]; assumption.
    - (* $p (not the target) becomes $a *)
      cbn [vstmt] in H. cbv zeta in H. destruct (expr_ok sc (pts ts)) eqn:Eo; [|discriminate].
      destruct (String.eqb l target); [discriminate|]. injection H as <-.
      assert (He : eok (s_vars sc) (pts ts)) by (apply HE; now left).
      pose proof R as [RC RV RH RD RK RA RO]. cbn [toax vstmt]. cbv zeta.
      rewrite (expr_ok_sim V C M HMV sc sc' _ R He Eo). rewrite (make_frame_sim V C M HMV sc sc' _ R (proj1 He)).
      eexists _, [(l, _)]. split; [reflexivity|]. split; [|repeat split; reflexivity].
      constructor; cbn [add_label s_consts s_vars s_hyps s_dvs]; assumption.
    - (* block *)
      rewrite kgood_block in K. rewrite vstmt_block in H.
      destruct (vstmts target sc ss) as [| inner |] eqn:Ei; try discriminate. injection H as <-.
      destruct (sim_stmts ss IH sc sc' inner K HE HD R Ei) as (inner' & nI & E' & RI & LI & LI' & VI).
      cbn [toax]. rewrite vstmt_block, E'.
      eexists _, (filter is_assert nI). split; [reflexivity|].
      pose proof R as [RC RV RH RD RK RA RO].
      split; [constructor; cbn [leave_block s_consts s_vars s_hyps s_dvs]; assumption|].
      unfold leave_block. cbn [s_labels s_vars]. rewrite LI, LI', !firstn_app_exact. repeat split; reflexivity.
  Qed.
End Sim2.

(* ------------------------------------------------------------------ C. shape of the slicer's run *)
Definition entry (st : stmt) : dict :=
  match st with
  | SC _ | SV _ => []
  | SD _ => [(None, st)]
  | SF l _ _ | SE l _ => [(Some l, st)]
  | _ => match match_axiom st with
         | MAx k => [(Some k, st)]
         | MNone => match deconstruct_provable st with
                    | Some (ants, l, ts, _) => [(Some l, construct_axiom ants l ts)]
                    | None => []
                    end
         | MCrash => []
         end
  end.

Definition processable (st : stmt) : Prop :=
  match st with SA _ _ | SP _ _ _ | SB _ => entry st <> [] | _ => True end.

Lemma keys_entry st : processable st -> keys (entry st) = top_label st.
Proof.
  destruct st; cbn [processable entry top_label]; intros P; try reflexivity.
  - destruct (match_axiom (SB ss)); try reflexivity; [congruence|].
    destruct (deconstruct_provable (SB ss)) as [[[[a l0] t] p]|]; reflexivity.
Qed.

Lemma nodup_app_disj {A} (a b : list A) x : NoDup (a ++ b) -> In x b -> ~ In x a.
Proof.
  induction a as [|y a IH]; intros ND Hb Ha; [destruct Ha|].
  cbn [app] in ND. inversion ND as [|? ? Hy ND']; subst. destruct Ha as [->|Ha].
  - apply Hy. apply in_or_app. now right.
  - now apply (IH ND' Hb).
Qed.

Lemma slice_loop_struct sd incl_ excl_ : forall stmts cut l s,
  NoDup (keys cut ++ flat_map top_label stmts) ->
  In (l, s) (fst (slice_loop sguards_fixed sd incl_ excl_ stmts cut [])) ->
  exists pre st post ants ts pf, stmts = (pre ++ st :: post)%list /\ Forall processable pre /\
    match_axiom st = MNone /\ deconstruct_provable st = Some (ants, l, ts, pf) /\
    supporting sguards_fixed (cut ++ flat_map entry pre)%list [] sd l ts pf ants = Some s.
Proof.
  induction stmts as [|st rest IH]; intros cut l s ND Hin; [destruct Hin|].
  cbn [flat_map] in ND.
  assert (Hrec : processable st ->
            In (l, s) (fst (slice_loop sguards_fixed sd incl_ excl_ rest (cut ++ entry st)%list [])) ->
            exists pre st0 post ants ts pf, (st :: rest = pre ++ st0 :: post)%list /\ Forall processable pre /\
              match_axiom st0 = MNone /\ deconstruct_provable st0 = Some (ants, l, ts, pf) /\
              supporting sguards_fixed (cut ++ flat_map entry pre)%list [] sd l ts pf ants = Some s).
  { intros P Hin'. destruct (IH (cut ++ entry st)%list l s) as (pre & st0 & post & ants & ts & pf & E & F & MA & DP & SU).
    - rewrite keys_app, (keys_entry st P), <- app_assoc. exact ND.
    - exact Hin'.
    - exists (st :: pre), st0, post, ants, ts, pf. split; [now rewrite E|]. split; [now constructor|].
      split; [assumption|]. split; [assumption|]. cbn [flat_map]. now rewrite app_assoc. }
  assert (Hfresh : forall k, In k (top_label st) -> ~ In k (keys cut)).
  { intros k Hk. apply (nodup_app_disj _ _ k ND). apply in_or_app. now left. }
  cbn [slice_loop] in Hin.
  assert (Hax : forall k, match_axiom st = MAx k -> match st with SA _ _ | SP _ _ _ | SB _ => True | _ => False end ->
            In (l, s) (fst (slice_loop sguards_fixed sd incl_ excl_ rest (dict_set k st cut) [])) ->
            exists pre st0 post ants ts pf, (st :: rest = pre ++ st0 :: post)%list /\ Forall processable pre /\
              match_axiom st0 = MNone /\ deconstruct_provable st0 = Some (ants, l, ts, pf) /\
              supporting sguards_fixed (cut ++ flat_map entry pre)%list [] sd l ts pf ants = Some s).
  { intros k Hk Hshape Hin'.
    assert (Ee : entry st = [(Some k, st)]) by (destruct st; try destruct Hshape; cbn [entry]; now rewrite Hk).
    assert (Tl : top_label st = [k]).
    { destruct st; try destruct Hshape.
      - cbn in Hk. now injection Hk as ->.
      - cbn in Hk. discriminate.
      - cbn [top_label]. now rewrite Hk. }
    apply Hrec.
    - destruct st; try destruct Hshape; cbn [processable]; rewrite Ee; discriminate.
    - rewrite Ee. rewrite <- (dict_set_fresh k st cut); [exact Hin'|]. apply Hfresh. rewrite Tl. now left. }
  assert (Hprov : match_axiom st = MNone -> match st with SA _ _ | SP _ _ _ | SB _ => True | _ => False end ->
            In (l, s) (fst (match deconstruct_provable st with
                | None => ([], true)
                | Some (ants, l0, ts, pf) =>
                    let cut' := dict_set l0 (construct_axiom ants l0 ts) cut in
                    if mem l0 incl_ && negb (mem l0 excl_) then
                      match supporting sguards_fixed cut [] sd l0 ts pf ants with
                      | None => ([], true)
                      | Some s0 => let (ys, c) := slice_loop sguards_fixed sd incl_ excl_ rest cut' [] in ((l0, s0) :: ys, c)
                      end
                    else slice_loop sguards_fixed sd incl_ excl_ rest cut' []
                end)) ->
            exists pre st0 post ants ts pf, (st :: rest = pre ++ st0 :: post)%list /\ Forall processable pre /\
              match_axiom st0 = MNone /\ deconstruct_provable st0 = Some (ants, l, ts, pf) /\
              supporting sguards_fixed (cut ++ flat_map entry pre)%list [] sd l ts pf ants = Some s).
  { intros Hm Hshape Hin'.
    destruct (deconstruct_provable st) as [[[[ants l0] ts] pf]|] eqn:ED; [|destruct Hin'].
    cbv zeta in Hin'.
    assert (Ee : entry st = [(Some l0, construct_axiom ants l0 ts)]).
    { destruct st; try destruct Hshape; cbn [entry]; rewrite Hm, ED; reflexivity. }
    assert (Tl : top_label st = [l0]).
    { destruct st; try destruct Hshape; cbn [top_label].
      - cbn in Hm. discriminate.
      - cbn in ED. now injection ED as _ -> _ _.
      - now rewrite Hm, ED. }
    assert (Hr : In (l, s) (fst (slice_loop sguards_fixed sd incl_ excl_ rest (dict_set l0 (construct_axiom ants l0 ts) cut) [])) ->
                 exists pre st0 post ants ts pf, (st :: rest = pre ++ st0 :: post)%list /\ Forall processable pre /\
                   match_axiom st0 = MNone /\ deconstruct_provable st0 = Some (ants, l, ts, pf) /\
                   supporting sguards_fixed (cut ++ flat_map entry pre)%list [] sd l ts pf ants = Some s).
    { intros Hin2. apply Hrec.
      - destruct st; try destruct Hshape; cbn [processable]; rewrite Ee; discriminate.
      - rewrite Ee. rewrite <- (dict_set_fresh l0 _ cut); [exact Hin2|]. apply Hfresh. rewrite Tl. now left. }
    destruct (mem l0 incl_ && negb (mem l0 excl_)); [|now apply Hr].
    destruct (supporting sguards_fixed cut [] sd l0 ts pf ants) as [s0|] eqn:ES; [|destruct Hin'].
    destruct (slice_loop sguards_fixed sd incl_ excl_ rest (dict_set l0 (construct_axiom ants l0 ts) cut) []) as [ys c] eqn:EY.
    cbn [fst In] in Hin'. destruct Hin' as [E|Hin'].
    - injection E as <- <-. exists [], st, rest, ants, ts, pf. split; [reflexivity|]. split; [constructor|].
      split; [assumption|]. split; [assumption|]. cbn [flat_map]. now rewrite app_nil_r.
    - apply Hr. exact Hin'. }
  destruct st as [cs|vs|vs|l0 ty v|l0 ts|l0 ts|l0 ts pf|ss].
  - apply Hrec; [exact I|]. cbn [entry]. now rewrite app_nil_r.
  - apply Hrec; [exact I|]. cbn [entry]. now rewrite app_nil_r.
  - cbn [g_d_in_place sguards_fixed] in Hin. apply Hrec; [exact I|exact Hin].
  - apply Hrec; [exact I|]. cbn [entry]. rewrite <- (dict_set_fresh l0 _ cut); [exact Hin|]. apply Hfresh. now left.
  - cbn [g_top_essential sguards_fixed] in Hin. apply Hrec; [exact I|]. cbn [entry].
    rewrite <- (dict_set_fresh l0 _ cut); [exact Hin|]. apply Hfresh. now left.
  - destruct (match_axiom (SA l0 ts)) as [| |k] eqn:EM; [destruct Hin|now apply Hprov|now apply (Hax k)].
  - destruct (match_axiom (SP l0 ts pf)) as [| |k] eqn:EM; [destruct Hin|now apply Hprov|now apply (Hax k)].
  - destruct (match_axiom (SB ss)) as [| |k] eqn:EM; [destruct Hin|now apply Hprov|now apply (Hax k)].
Qed.

Lemma stmt_consts_csyms st : forall c, stmt_consts st = Some c -> c = stmt_csyms st.
Proof.
  induction st as [cs|vs|vs|l ty v|l ts|l ts|l ts pf|ss IH] using stmt_ind2; intros c H; cbn [stmt_consts stmt_csyms] in *;
    try discriminate; try (now injection H as <-).
  rewrite go_stmt_consts in H. revert c H. induction ss as [|a ss IHss]; intros c H.
  - cbn in H. now injection H as <-.
  - inversion IH as [|? ? IHa IHr]; subst. cbn [stmts_consts] in H.
    destruct (stmt_consts a) as [x|] eqn:Ea; [|discriminate]. destruct (stmts_consts ss) as [y|] eqn:Es; [|discriminate].
    injection H as <-. cbn [flat_map]. rewrite (IHa x eq_refl), (IHss IHr y eq_refl). reflexivity.
Qed.

Definition hdr (M : list string) : list stmt := match M with [] => [] | _ => [SV M] end.

Lemma supporting_inv cut sd l ts pf ess s :
  supporting sguards_fixed cut [] sd l ts pf ess = Some s ->
  exists labels n2 M C,
    proof_labels pf = Some labels /\ incl labels n2 /\
    (forall x, In x n2 -> exists st', dict_get x cut = Some st' /\ incl (stmt_mvs st') M) /\
    (forall k l0 ts0, In (k, SE l0 ts0) cut -> incl (flat_map term_mvs ts0) M) /\
    (forall st', In st' (SP l ts pf :: ess) -> incl (stmt_mvs st') M /\ incl (stmt_csyms st') C) /\
    (forall x, In x M -> exists st', In st' (SP l ts pf :: ess ++ map snd cut)%list /\ In x (stmt_mvs st')) /\
    In LP C /\ In RP C /\
    (forall st', In st' (flat_map (keep_entry sguards_fixed n2 M) cut) -> incl (stmt_csyms st') C) /\
    s = (SC C :: hdr M ++ flat_map (keep_entry sguards_fixed n2 M) cut ++ [SB (ess ++ [SP l ts pf])])%list.
Proof.
  intros H. unfold supporting in H.
  destruct (proof_labels pf) as [labels|] eqn:EL; [|discriminate].
  set (n1 := (labels ++ flat_map (sugar_of cut) labels)%list) in *.
  set (n2 := (n1 ++ flat_map (fun x => match assoc_get x sd with Some d => d | None => [] end) n1)%list) in *.
  destruct (map_opt (fun x => dict_get x cut) n2) as [nst|] eqn:EN; [|discriminate].
  set (top_ess := filter is_SE (map snd cut)) in *.
  set (all := (SP l ts pf :: ess ++ top_ess ++ nst)%list) in *.
  destruct (stmts_consts all) as [cs|] eqn:ECS; [|discriminate].
  set (M := sort_uniq (flat_map stmt_mvs all)) in *.
  set (kept := flat_map (keep_entry sguards_fixed n2 M) cut) in *.
  cbn [g_float_consts sguards_fixed] in H.
  destruct (stmts_consts kept) as [cs2|] eqn:ECS2; [|discriminate].
  set (C := sort_uniq (builtins ++ cs ++ cs2)) in *.
  assert (HallM : forall st, In st all -> incl (stmt_mvs st) M).
  { intros st Hst x Hx. apply sort_uniq_In. apply in_flat_map. eauto. }
  assert (HallC : forall st, In st all -> incl (stmt_csyms st) C).
  { intros st Hst. destruct (stmts_consts_In all cs ECS st Hst) as [c [Hc Ic]].
    rewrite <- (stmt_consts_csyms st c Hc). intros x Hx. apply sort_uniq_In. apply in_or_app. right.
    apply in_or_app. left. now apply Ic. }
  exists labels, n2, M, C.
  split; [reflexivity|]. split; [intros x Hx; apply in_or_app; left; apply in_or_app; now left|].
  split; [|split; [|split; [|split; [|split; [|split; [|split]]]]]].
  - intros x Hx. destruct (map_opt_In _ _ _ EN x Hx) as [st' [H1 H2]]. exists st'. split; [assumption|].
    apply HallM. right. apply in_or_app. right. apply in_or_app. now right.
  - intros k l0 ts0 Hin. apply (HallM (SE l0 ts0)). right. apply in_or_app. right. apply in_or_app. left.
    apply filter_In. split; [|reflexivity]. apply in_map_iff. exists (k, SE l0 ts0). split; [reflexivity|assumption].
  - intros st' Hst'. assert (Hin : In st' all).
    { destruct Hst' as [<-|Hst']; [now left|]. right. apply in_or_app. now left. }
    split; [now apply HallM|now apply HallC].
  - intros x Hx. unfold M in Hx. apply (proj1 (sort_uniq_In _ _)) in Hx. apply in_flat_map in Hx.
    destruct Hx as [st' [Hst' Hx]]. exists st'. split; [|assumption].
    destruct Hst' as [<-|Hst']; [now left|]. right. apply in_app_or in Hst'. destruct Hst' as [Hst'|Hst']; [apply in_or_app; now left|].
    apply in_or_app. right. apply in_app_or in Hst'. destruct Hst' as [Hst'|Hst'].
    + apply filter_In in Hst'. now destruct Hst'.
    + destruct (map_opt_In_rev _ _ _ EN st' Hst') as [k [_ Hk]]. apply dict_get_In in Hk.
      apply in_map_iff. exists (Some k, st'). split; [reflexivity|assumption].
  - apply sort_uniq_In. now left.
  - apply sort_uniq_In. right. now left.
  - intros st' Hst'. destruct (stmts_consts_In kept cs2 ECS2 st' Hst') as [c [Hc Ic]].
    rewrite <- (stmt_consts_csyms st' c Hc). intros x Hx. apply sort_uniq_In. apply in_or_app. right.
    apply in_or_app. right. now apply Ic.
  - injection H as <-. reflexivity.
Qed.

(* ------------------------------------------------------------------ D1. helpers for the top-level simulation *)
Lemma filter_flat_map {A B} (f : B -> bool) (g : A -> list B) l :
  filter f (flat_map g l) = flat_map (fun x => filter f (g x)) l.
Proof. induction l as [|a l IH]; [reflexivity|]. cbn [flat_map]. now rewrite filter_app, IH. Qed.

Lemma flat_map_filter {A B} (p : A -> bool) (g : A -> list B) l :
  flat_map g (filter p l) = flat_map (fun x => if p x then g x else []) l.
Proof.
  induction l as [|a l IH]; [reflexivity|]. cbn [filter flat_map]. destruct (p a); cbn [flat_map app]; now rewrite IH.
Qed.

Lemma all_pairs_filter M vs :
  filter (bothM M) (all_pairs vs) = all_pairs (filter (fun v => mem v M) vs).
Proof.
  unfold all_pairs. rewrite filter_flat_map, flat_map_filter. apply flat_map_ext_in'. intros a _.
  rewrite filter_flat_map, flat_map_filter.
  destruct (mem a M) eqn:Ea.
  - apply flat_map_ext_in'. intros b _. destruct (String.eqb a b); [now destruct (mem b M)|].
    cbn [filter]. unfold bothM. cbn [fst snd]. rewrite Ea. cbn [andb]. destruct (mem b M); reflexivity.
  - rewrite <- (flat_map_ext_in' (fun _ => []) _ vs); [induction vs; auto|].
    intros b _. destruct (String.eqb a b); [reflexivity|]. cbn [filter]. unfold bothM. cbn [fst snd]. now rewrite Ea.
Qed.

Lemma all_pairs_short vs : length vs < 2 -> all_pairs vs = [].
Proof.
  destruct vs as [|a [|b vs]]; cbn [length]; intros H; try lia; [reflexivity|].
  unfold all_pairs. cbn. now rewrite String.eqb_refl.
Qed.

Lemma hyp_ok_mono V M A A' h : incl A A' -> hyp_ok V M A h -> hyp_ok V M A' h.
Proof.
  unfold hyp_ok, vtok. intros HA H. destruct (h_isf h); [assumption|].
  intros t Ht Hv. destruct (H t Ht Hv) as [H1 H2]. split; [now apply HA|assumption].
Qed.

(** tokens of a printed term: its variables, its constant symbols, parentheses *)
Lemma pt_tokens t x : In x (pt t) -> In x (term_mvs t) \/ x = LP \/ x = RP \/ In x (term_consts t).
Proof.
  induction t as [y|c args IH] using term_ind2; cbn [pt term_mvs term_consts].
  - intros [<-|[]]. left. now left.
  - destruct args as [|a args].
    + intros [<-|[]]. right. right. right. now left.
    + intros [<-|[<-|H]]; [right; now left|right; right; right; now left|].
      apply in_app_or in H. destruct H as [H|[<-|[]]]; [|right; right; now left].
      apply in_flat_map in H. destruct H as [t [Ht Hx]]. rewrite Forall_forall in IH.
      destruct (IH t Ht Hx) as [H|[H|[H|H]]]; [left|right; now left|right; right; now left|right; right; right; right];
        apply in_flat_map; eauto.
Qed.

Lemma pts_tokens ts x : In x (pts ts) ->
  In x (flat_map term_mvs ts) \/ x = LP \/ x = RP \/ In x (flat_map term_consts ts).
Proof.
  unfold pts. intros H. apply in_flat_map in H. destruct H as [t [Ht Hx]].
  destruct (pt_tokens t x Hx) as [H|[H|[H|H]]]; [left|right; now left|right; right; now left|right; right; right];
    apply in_flat_map; eauto.
Qed.

Lemma stmt_exprs_tokens st : forall e x, In e (stmt_exprs st) -> In x e ->
  In x (stmt_mvs st) \/ x = LP \/ x = RP \/ In x (stmt_csyms st).
Proof.
  induction st as [cs|vs|vs|l ty v|l ts|l ts|l ts pf|ss IH] using stmt_ind2; intros e x He Hx;
    cbn [stmt_exprs stmt_mvs stmt_csyms] in *; try destruct He as [<-|[]]; try (now apply pts_tokens); try destruct He.
  apply in_flat_map in He. destruct He as [s [Hs He]]. rewrite Forall_forall in IH.
  destruct (IH s Hs e x He Hx) as [H|[H|[H|H]]]; [left|right; now left|right; right; now left|right; right; right];
    apply in_flat_map; eauto.
Qed.

Lemma eok_of_facts V C M A st :
  incl (stmt_mvs st) M -> incl (stmt_mvs st) A -> incl (stmt_csyms st) C ->
  (forall c, In c (stmt_csyms st) -> ~ In c V) -> ~ In LP V -> ~ In RP V -> In LP C -> In RP C ->
  forall e, In e (stmt_exprs st) -> eok V C M A e.
Proof.
  intros HM HA HC HS HL HR HLC HRC e He. split.
  - intros t Ht Hv. destruct (stmt_exprs_tokens st e t He Ht) as [H|[->|[->|H]]]; try contradiction.
    + split; [now apply HA|now apply HM].
    + exfalso. now apply (HS t H).
  - intros t Ht. destruct (stmt_exprs_tokens st e t He Ht) as [H|[->|[->|H]]].
    + left. now apply HM.
    + now right.
    + now right.
    + right. now apply HC.
Qed.

Lemma stmt_dvars_mvs st : incl (stmt_dvars st) (stmt_mvs st).
Proof.
  induction st as [cs|vs|vs|l ty v|l ts|l ts|l ts pf|ss IH] using stmt_ind2; cbn [stmt_dvars stmt_mvs];
    try (intros ? []); try apply incl_refl.
  intros x Hx. apply in_flat_map in Hx. destruct Hx as [s [Hs Hx]]. rewrite Forall_forall in IH.
  apply in_flat_map. exists s. split; [assumption|]. now apply (IH s Hs).
Qed.

(** statements of an axiom block *)
Fixpoint axgood (s : stmt) : bool :=
  match s with
  | SD _ | SE _ _ | SA _ _ => true
  | SB ss => (fix go (l : list stmt) : bool := match l with [] => true | a :: l' => axgood a && go l' end) ss
  | _ => false
  end.
Lemma axgood_block ss : axgood (SB ss) = forallb axgood ss.
Proof. cbn [axgood]. induction ss as [|a ss IH]; [reflexivity|]. cbn [forallb]. now rewrite IH. Qed.

Lemma axgood_facts st : axgood st = true -> kgood st = true /\ toax st = st.
Proof.
  induction st as [cs|vs|vs|l ty v|l ts|l ts|l ts pf|ss IH] using stmt_ind2; intros H; try (cbn in H; discriminate);
    try (split; reflexivity).
  rewrite axgood_block in H. rewrite kgood_block. cbn [toax].
  assert (forallb kgood ss = true /\ map toax ss = ss) as [H1 H2].
  { induction ss as [|a ss IHss]; [split; reflexivity|]. inversion IH as [|? ? IHa IHr]; subst.
    cbn [forallb] in H. apply andb_true_iff in H. destruct H as [Ha Hr].
    destruct (IHa Ha) as [K1 T1]. destruct (IHss IHr Hr) as [K2 T2]. cbn [forallb map]. rewrite K1, K2, T1, T2. split; reflexivity. }
  rewrite H1, H2. split; reflexivity.
Qed.

(** assertion labels *)
Fixpoint stmt_alabels (s : stmt) : list string :=
  match s with
  | SA l _ | SP l _ _ => [l]
  | SB ss => flat_map stmt_alabels ss
  | _ => []
  end.

Lemma ma_loop_ax : forall f q last l, ma_loop f q last = MAx l ->
  forallb axgood q = true /\ ((exists ts, last = Some (SA l ts)) \/ In l (flat_map stmt_alabels q)).
Proof.
  induction f as [|f IH]; intros q last l H; [discriminate|].
  cbn [ma_loop] in H. destruct q as [|s q'].
  - destruct last as [[]|]; try discriminate. injection H as ->. split; [reflexivity|]. left. now eexists.
  - destruct s; try discriminate.
    + apply IH in H. destruct H as [N R]. split; [exact N|]. right. destruct R as [[tsx R]|R]; [discriminate|].
      cbn [flat_map stmt_alabels app]. exact R.
    + apply IH in H. destruct H as [N R]. split; [exact N|]. right. destruct R as [[tsx R]|R]; [discriminate|].
      cbn [flat_map stmt_alabels app]. exact R.
    + apply IH in H. destruct H as [N R]. split; [exact N|]. right. destruct R as [[ts0 R]|R].
      * injection R as -> _. cbn [flat_map stmt_alabels]. now left.
      * cbn [flat_map stmt_alabels]. now right.
    + apply IH in H. destruct H as [N R]. rewrite forallb_app in N. apply andb_true_iff in N. destruct N as [N1 N2].
      split; [cbn [forallb]; now rewrite axgood_block, N2, N1|]. right.
      destruct R as [[tsx R]|R]; [discriminate|]. rewrite flat_map_app in R. cbn [flat_map stmt_alabels].
      apply in_app_or in R. apply in_or_app. destruct R as [R|R]; [now right|now left].
Qed.

(* ------------------------------------------------------------------ D1b. label tables *)
Lemma assoc_get_app {A} x (a b : list (string * A)) :
  assoc_get x (a ++ b) = match assoc_get x a with Some e => Some e | None => assoc_get x b end.
Proof.
  induction a as [|[k v] a IH]; [reflexivity|]. cbn [app assoc_get]. destruct (String.eqb x k); [reflexivity|exact IH].
Qed.

Lemma assoc_get_in_keys x (L : list (string * lentry)) e : assoc_get x L = Some e -> In x (lkeys L).
Proof.
  induction L as [|[k v] L IH]; [discriminate|]. cbn [assoc_get lkeys map fst].
  destruct (String.eqb_spec x k) as [->|]; [now left|right; now apply IH].
Qed.

Lemma assoc_get_none x (L : list (string * lentry)) : ~ In x (lkeys L) -> assoc_get x L = None.
Proof.
  induction L as [|[k v] L IH]; [reflexivity|]. cbn [assoc_get lkeys map fst]. intros H.
  destruct (String.eqb_spec x k) as [->|]; [exfalso; apply H; now left|]. apply IH. intros Hc. apply H. now right.
Qed.

Lemma assoc_get_keys_some x (L : list (string * lentry)) : In x (lkeys L) -> exists e, assoc_get x L = Some e.
Proof.
  induction L as [|[k v] L IH]; [intros []|]. cbn [assoc_get lkeys map fst]. intros H.
  destruct (String.eqb_spec x k) as [->|Hne]; [now eexists|]. destruct H as [H|H]; [congruence|now apply IH].
Qed.

Definition RL (L L' : list (string * lentry)) : Prop := forall x e, assoc_get x L' = Some e -> assoc_get x L = Some e.

Lemma RL_same new L L' : RL L L' -> RL (new ++ L) (new ++ L').
Proof.
  intros H x e. rewrite !assoc_get_app. destruct (assoc_get x new); [auto|]. apply H.
Qed.

Lemma RL_db new L L' : RL L L' -> (forall x, In x (lkeys new) -> ~ In x (lkeys L')) -> RL (new ++ L) L'.
Proof.
  intros H D x e Hx. rewrite assoc_get_app.
  destruct (assoc_get x new) as [e0|] eqn:E0; [|now apply H].
  exfalso. apply (D x); [now apply (assoc_get_in_keys x new e0)|now apply (assoc_get_in_keys x L' e)].
Qed.

Lemma vstmt_alabels target st : forall sc sc1, vstmt target sc st = WCont sc1 ->
  exists new, s_labels sc1 = (new ++ s_labels sc)%list /\
              forall x, In x (stmt_alabels st) -> exists fr, In (x, LAssert fr) new.
Proof.
  induction st as [cs|vs|vs|l ty v|l ts|l ts|l ts pf|ss IH] using stmt_ind2; intros sc sc1 H.
  - cbn in H. injection H as <-. exists []. split; [reflexivity|intros ? []].
  - cbn in H. injection H as <-. exists []. split; [reflexivity|intros ? []].
  - cbn in H. destruct (forallb _ vs); [|discriminate]. injection H as <-. exists []. split; [reflexivity|intros ? []].
  - cbn [vstmt] in H. destruct (_ && _); [|discriminate]. injection H as <-.
    eexists [_]. split; [reflexivity|intros ? []].
  - cbn [vstmt] in H. cbv zeta in H. destruct (expr_ok sc (pts ts)); [|discriminate]. injection H as <-.
    eexists [_]. split; [reflexivity|intros ? []].
  - cbn [vstmt] in H. cbv zeta in H. destruct (expr_ok sc (pts ts)); [|discriminate]. injection H as <-.
    eexists [(l, LAssert _)]. split; [reflexivity|]. intros x [<-|[]]. eexists. now left.
  - cbn [vstmt] in H. cbv zeta in H. destruct (expr_ok sc (pts ts)); [|discriminate].
    destruct (String.eqb l target); [discriminate|]. injection H as <-.
    eexists [(l, LAssert _)]. split; [reflexivity|]. intros x [<-|[]]. eexists. now left.
  - rewrite vstmt_block in H. destruct (vstmts target sc ss) as [| inner |] eqn:E; try discriminate.
    injection H as <-.
    assert (Hin : exists newI, s_labels inner = (newI ++ s_labels sc)%list /\
                   forall x, In x (flat_map stmt_alabels ss) -> exists fr, In (x, LAssert fr) newI).
    { clear -IH E. revert sc inner E. induction ss as [|a ss IHss]; intros sc inner E.
      - cbn in E. injection E as <-. exists []. split; [reflexivity|intros ? []].
      - inversion IH as [|? ? IHa IHr]; subst. cbn [vstmts] in E.
        destruct (vstmt target sc a) as [| sc2 |] eqn:Ea; try discriminate.
        destruct (IHa _ _ Ea) as [n1 [L1 I1]]. destruct (IHss IHr _ _ E) as [n2 [L2 I2]].
        exists (n2 ++ n1)%list. split; [rewrite L2, L1; now rewrite app_assoc|].
        intros x Hx. cbn [flat_map] in Hx. apply in_app_or in Hx. destruct Hx as [Hx|Hx].
        + destruct (I1 x Hx) as [fr Hfr]. exists fr. apply in_or_app. now right.
        + destruct (I2 x Hx) as [fr Hfr]. exists fr. apply in_or_app. now left. }
    destruct Hin as [newI [LI II]].
    exists (filter is_assert newI). split.
    + unfold leave_block. cbn [s_labels]. rewrite LI. now rewrite firstn_app_exact.
    + cbn [stmt_alabels]. intros x Hx. destruct (II x Hx) as [fr Hfr]. exists fr. apply filter_In. split; [assumption|reflexivity].
Qed.

Lemma singleton_block target sc l ts : vstmt target sc (SB [SA l ts]) = vstmt target sc (SA l ts).
Proof.
  rewrite vstmt_block. cbn [vstmts vstmt]. cbv zeta. destruct (expr_ok sc (pts ts)); [|reflexivity].
  unfold leave_block, add_label. cbn [s_labels s_consts s_vars s_hyps s_dvs].
  f_equal. f_equal.
  change ((l, LAssert (make_frame sc (pts ts))) :: s_labels sc) with ([(l, LAssert (make_frame sc (pts ts)))] ++ s_labels sc)%list.
  rewrite firstn_app_exact. reflexivity.
Qed.

Lemma SD_SE_toax ants : forallb is_SD_SE ants = true -> map toax ants = ants /\ forallb kgood ants = true /\ flat_map stmt_alabels ants = [].
Proof.
  induction ants as [|a ants IH]; intros H; [repeat split|]. cbn [forallb] in H. apply andb_true_iff in H. destruct H as [Ha Hr].
  destruct (IH Hr) as (T & K & L). cbn [map forallb flat_map]. rewrite T, K, L.
  destruct a; try discriminate; repeat split.
Qed.

(** the statement stored in [cut_antecedents] for a processable assertion / block behaves like [toax st] *)
Lemma stored_facts st : match st with SA _ _ | SP _ _ _ | SB _ => True | _ => False end -> processable st ->
  exists k st', entry st = [(Some k, st')] /\ kgood st = true /\ nodecl st = true /\ In k (stmt_alabels st) /\
    stmt_mvs st' = stmt_mvs st /\ stmt_csyms st' = stmt_csyms st /\
    (match st' with SD _ | SF _ _ _ | SE _ _ => False | _ => True end) /\
    forall target sc, vstmt target sc st' = vstmt target sc (toax st).
Proof.
  intros Hshape P.
  assert (E : entry st = match match_axiom st with
         | MAx k => [(Some k, st)]
         | MNone => match deconstruct_provable st with
                    | Some (ants, l, ts, _) => [(Some l, construct_axiom ants l ts)]
                    | None => []
                    end
         | MCrash => []
         end) by (destruct st; try destruct Hshape; reflexivity).
  assert (P' : entry st <> []) by (destruct st; try destruct Hshape; exact P).
  destruct (match_axiom st) as [| |k] eqn:EM.
  - congruence.
  - destruct (deconstruct_provable st) as [[[[ants l] ts] pf]|] eqn:ED; [|congruence].
    destruct (deconstruct_provable_ok _ _ _ _ _ ED) as [HA Hform].
    destruct (SD_SE_toax ants HA) as (TA & KA & LA).
    exists l, (construct_axiom ants l ts). split; [exact E|].
    destruct Hform as [[-> ->]| ->].
    + cbn [construct_axiom]. repeat split; try reflexivity. now left.
    + split; [rewrite kgood_block, forallb_app, KA; reflexivity|].
      split; [rewrite nodecl_block, forallb_app; rewrite (SD_SE_nodecl ants HA); reflexivity|].
      split; [cbn [stmt_alabels]; rewrite flat_map_app, LA; now left|].
      destruct ants as [|a ants'].
      * cbn [construct_axiom app]. repeat split; try (cbn; now rewrite !app_nil_r).
        intros target sc. cbn [toax map]. symmetry. apply singleton_block.
      * cbn [construct_axiom]. remember (a :: ants') as an.
        repeat split; try (cbn [stmt_mvs stmt_csyms]; rewrite !flat_map_app; reflexivity).
        intros target sc. cbn [toax]. rewrite map_app, TA. reflexivity.
  - destruct st; try destruct Hshape.
    + cbn in EM. injection EM as <-. exists l, (SA l ts). repeat split; try reflexivity; try exact E. now left.
    + cbn in EM. discriminate.
    + cbn [match_axiom] in EM. apply ma_loop_ax in EM. destruct EM as [N R].
      assert (AG : axgood (SB ss) = true) by now rewrite axgood_block.
      destruct (axgood_facts _ AG) as [K T].
      exists k, (SB ss). split; [exact E|]. split; [exact K|].
      split. { clear -N. rewrite nodecl_block. rewrite forallb_forall in *. intros s Hs. specialize (N s Hs).
               revert N. clear. induction s as [cs|vs|vs|l ty v|l ts|l ts|l ts pf|ss IH] using stmt_ind2; intros N; try (cbn in N; discriminate); try reflexivity.
               rewrite axgood_block in N. rewrite nodecl_block. rewrite forallb_forall in *. intros s Hs. rewrite Forall_forall in IH. apply IH; auto. }
      split. { cbn [stmt_alabels]. destruct R as [[ts R]|R]; [discriminate|exact R]. }
      repeat split; try reflexivity. intros target sc. now rewrite T.
Qed.

(* ------------------------------------------------------------------ D2. top-level simulation *)
Lemma forallb_filter_self {A} (p : A -> bool) l : forallb p (filter p l) = true.
Proof. apply forallb_forall. intros x Hx. apply filter_In in Hx. now destruct Hx. Qed.

Section Top.
  Variable V C M n2 : list string.
  Variable target : string.
  Variable cutall : dict.
  Hypothesis HMV : incl M V.
  Hypothesis HLV : ~ In LP V.
  Hypothesis HRV : ~ In RP V.
  Hypothesis HLC : In LP C.
  Hypothesis HRC : In RP C.
  Hypothesis K1 : forall k st', In (Some k, st') cutall -> In k n2 -> incl (stmt_mvs st') M.
  Hypothesis K2 : forall k l ts, In (k, SE l ts) cutall -> incl (flat_map term_mvs ts) M.
  Hypothesis K3 : forall st', In st' (flat_map (keep_entry sguards_fixed n2 M) cutall) -> incl (stmt_csyms st') C.

  Notation Rel := (Rel V C M).
  Notation keep := (keep_entry sguards_fixed n2 M).

  Definition TRel (sc sc' : scope) (done : list stmt) : Prop :=
    Rel sc sc' /\ RL (s_labels sc) (s_labels sc') /\
    incl (lkeys (s_labels sc')) (flat_map stmt_labels done) /\
    (forall k st', In (Some k, st') (flat_map entry done) -> In k n2 -> In k (lkeys (s_labels sc'))).

  Definition symfact (st : stmt) : Prop := forall c, In c (stmt_csyms st) -> ~ In c V.

  (** both walks add the same label entries *)
  Lemma trel_same st done sc sc' sc2 sc2' new :
    TRel sc sc' done -> Rel sc2 sc2' ->
    s_labels sc2 = (new ++ s_labels sc)%list -> s_labels sc2' = (new ++ s_labels sc')%list ->
    incl (lkeys new) (stmt_labels st) ->
    (forall k st', In (Some k, st') (entry st) -> In k n2 -> In k (lkeys new)) ->
    TRel sc2 sc2' (done ++ [st]).
  Proof.
    intros (R & HRL & HD & HK) R2 L2 L2' IN KN. split; [exact R2|]. rewrite L2, L2'. split; [now apply RL_same|]. split.
    - unfold lkeys in *. rewrite map_app, flat_map_app. cbn [flat_map]. rewrite app_nil_r.
      apply incl_app; [now apply incl_appr|now apply incl_appl].
    - intros k st' Hin Hk. rewrite flat_map_app in Hin. cbn [flat_map] in Hin. rewrite app_nil_r in Hin.
      unfold lkeys in *. rewrite map_app. apply in_or_app. apply in_app_or in Hin. destruct Hin as [Hin|Hin].
      + right. now apply (HK k st').
      + left. now apply (KN k st').
  Qed.

  (** only the database walk adds label entries (statement not kept) *)
  Lemma trel_db st done sc sc' sc2 new :
    TRel sc sc' done -> Rel sc2 sc' -> s_labels sc2 = (new ++ s_labels sc)%list ->
    incl (lkeys new) (stmt_labels st) ->
    (forall x, In x (stmt_labels st) -> ~ In x (flat_map stmt_labels done)) ->
    (forall k st', In (Some k, st') (entry st) -> ~ In k n2) ->
    TRel sc2 sc' (done ++ [st]).
  Proof.
    intros (R & HRL & HD & HK) R2 L2 IN DJ KN. split; [exact R2|]. rewrite L2. split; [|split].
    - apply RL_db; [assumption|]. intros x Hx Hx'. apply (DJ x); [now apply IN|now apply HD].
    - rewrite flat_map_app. now apply incl_appl.
    - intros k st' Hin Hk. rewrite flat_map_app in Hin. cbn [flat_map] in Hin. rewrite app_nil_r in Hin.
      apply in_app_or in Hin. destruct Hin as [Hin|Hin]; [now apply (HK k st')|]. exfalso. now apply (KN k st').
  Qed.

  Lemma sim_kept st st' sc sc' sc2 :
    Rel sc sc' -> kgood st = true -> incl (stmt_mvs st) M -> incl (stmt_mvs st) (s_vars sc) ->
    incl (stmt_csyms st) C -> symfact st ->
    (forall sc0, vstmt target sc0 st' = vstmt target sc0 (toax st)) ->
    vstmt target sc st = WCont sc2 ->
    exists sc2' new, vstmt target sc' st' = WCont sc2' /\ Rel sc2 sc2' /\
      s_labels sc2 = (new ++ s_labels sc)%list /\ s_labels sc2' = (new ++ s_labels sc')%list /\
      s_vars sc2 = s_vars sc /\ incl (lkeys new) (stmt_labels st) /\
      (forall x, In x (stmt_alabels st) -> In x (lkeys new)).
  Proof.
    intros R K HM HA HC HS HT H.
    destruct (sim_stmt V C M target HMV st sc sc' sc2 K) as (sc2' & new & E & R2 & L2 & L2' & V2); try assumption.
    - now apply (eok_of_facts V C M (s_vars sc) st).
    - intros x Hx. apply HM. now apply stmt_dvars_mvs.
    - exists sc2', new. rewrite HT. split; [exact E|]. split; [exact R2|]. split; [exact L2|]. split; [exact L2'|].
      split; [exact V2|].
      destruct (vstmt_labels _ _ _ _ H) as [n0 [L0 I0]]. rewrite L2 in L0. apply app_inv_tail in L0. subst n0.
      split; [exact I0|].
      destruct (vstmt_alabels _ _ _ _ H) as [n1 [L1 I1]]. rewrite L2 in L1. apply app_inv_tail in L1. subst n1.
      intros x Hx. destruct (I1 x Hx) as [fr Hfr]. unfold lkeys. apply in_map_iff. exists (x, LAssert fr). split; [reflexivity|assumption].
  Qed.

  Lemma sim_step st done sc sc' sc2 :
    incl (entry st) cutall -> processable st -> symfact st -> incl (decl st) V ->
    wf_stmt (s_vars sc) st = true ->
    (forall x, In x (stmt_labels st) -> ~ In x (flat_map stmt_labels done)) ->
    TRel sc sc' done -> vstmt target sc st = WCont sc2 ->
    exists sc2', vstmts target sc' (flat_map keep (entry st)) = WCont sc2' /\ TRel sc2 sc2' (done ++ [st]) /\
                 s_vars sc2 = (s_vars sc ++ decl st)%list.
  Proof.
    intros HI P HS HDV W DJ T H. pose proof T as (R & HRL & HD & HK). pose proof R as [RC RV RH RD RK RA RO].
    assert (Hgen : match st with SA _ _ | SP _ _ _ | SB _ => True | _ => False end ->
              exists sc2', vstmts target sc' (flat_map keep (entry st)) = WCont sc2' /\ TRel sc2 sc2' (done ++ [st]) /\
                           s_vars sc2 = (s_vars sc ++ decl st)%list).
    { intros Hshape. destruct (stored_facts st Hshape P) as (k & st' & Ee & Kg & Nd & Ka & Em & Ec & Hns & Ht).
      rewrite Ee in *. cbn [flat_map]. rewrite app_nil_r.
      assert (Hcut : In (Some k, st') cutall) by (apply HI; now left).
      assert (Hkeep : keep (Some k, st') = if mem k n2 then [st'] else []).
      { unfold keep_entry. cbn [fst snd key_in]. destruct st'; try destruct Hns; now rewrite orb_false_r. }
      rewrite Hkeep. rewrite (nodecl_decl st Nd), app_nil_r.
      destruct (mem k n2) eqn:Ek.
      - apply mem_In in Ek.
        destruct (kshape_of_wf st (s_vars sc) W Nd) as [_ [U1 _]].
        destruct (sim_kept st st' sc sc' sc2 R Kg) as (sc2' & new & E & R2 & L2 & L2' & V2 & I2 & A2); try assumption.
        + rewrite <- Em. now apply (K1 k st').
        + rewrite <- Ec. apply K3. apply in_flat_map. exists (Some k, st'). split; [assumption|].
          rewrite Hkeep. try (apply mem_In in Ek; rewrite Ek). now left.
        + intros sc0. apply Ht.
        + exists sc2'. cbn [vstmts]. rewrite E. split; [reflexivity|]. split; [|exact V2].
          apply (trel_same st done sc sc' sc2 sc2' new); try assumption. rewrite Ee.
          intros k0 st0 [E0|[]] _. injection E0 as <- <-. now apply A2.
      - exists sc'. split; [reflexivity|].
        destruct (vstmt_same_decls _ _ _ _ Hshape H) as (S1 & S2 & S3 & S4).
        destruct (vstmt_labels _ _ _ _ H) as [new [L2 I2]].
        split; [|exact S2].
        apply (trel_db st done sc sc' sc2 new); try assumption.
        + constructor; try assumption; rewrite ?S1, ?S2, ?S3, ?S4; assumption.
        + rewrite Ee. intros k0 st0 [E0|[]]. injection E0 as <- <-. now apply mem_false. }
    destruct st as [cs|vs|vs|l ty v|l ts|l ts|l ts pf|ss]; try (apply Hgen; exact I).
    - (* $c *)
      cbn in H. injection H as <-. exists sc'. cbn [entry flat_map vstmts decl s_vars]. split; [reflexivity|].
      split; [|now rewrite app_nil_r].
      apply (trel_db (SC cs) done sc sc' _ []); try assumption; try reflexivity.
      + constructor; cbn [s_consts s_vars s_hyps s_dvs]; try assumption; try reflexivity.
        intros c Hc. apply in_app_or in Hc. destruct Hc as [Hc|Hc]; [now apply RK|now apply HS].
      + intros ? [].
      + intros ? ? [].
    - (* $v *)
      cbn in H. injection H as <-. exists sc'. cbn [entry flat_map vstmts decl s_vars]. split; [reflexivity|].
      split; [|reflexivity].
      apply (trel_db (SV vs) done sc sc' _ []); try assumption; try reflexivity.
      + constructor; cbn [s_consts s_vars s_hyps s_dvs]; try assumption; try reflexivity.
        * apply incl_app; assumption.
        * eapply Forall_impl; [|exact RO]. intros h. apply hyp_ok_mono. now apply incl_appl.
      + intros ? [].
      + intros ? ? [].
    - (* top-level $d *)
      cbn [vstmt] in H. destruct (forallb (fun v => mem v (s_vars sc)) vs) eqn:Ev; [|discriminate]. injection H as <-.
      cbn [entry flat_map decl s_vars]. rewrite !app_nil_r. unfold keep_entry. cbn [snd].
      destruct (Nat.leb 2 (length (filter (fun v => mem v M) vs))) eqn:E2.
      + cbn [vstmts vstmt]. rewrite RV, forallb_filter_self. eexists. split; [reflexivity|]. split; [|reflexivity].
        apply (trel_same (SD vs) done sc sc' _ _ []); try assumption; try reflexivity.
        * constructor; cbn [s_consts s_vars s_hyps s_dvs]; try assumption; try reflexivity.
          rewrite RD, filter_app, all_pairs_filter. reflexivity.
        * intros ? [].
        * cbn [entry]. intros k st' [E0|[]]. discriminate.
      + exists sc'. split; [reflexivity|]. split; [|reflexivity].
        apply (trel_db (SD vs) done sc sc' _ []); try assumption; try reflexivity.
        * constructor; cbn [s_consts s_vars s_hyps s_dvs]; try assumption; try reflexivity.
          rewrite RD, filter_app, all_pairs_filter, all_pairs_short; [now rewrite app_nil_r|].
          apply Nat.leb_gt in E2. exact E2.
        * intros ? [].
        * cbn [entry]. intros k st' [E0|[]]. discriminate.
    - (* $f *)
      cbn [vstmt] in H. destruct (mem ty (s_consts sc) && mem v (s_vars sc)) eqn:Eo; [|discriminate]. injection H as <-.
      cbn [entry flat_map decl]. rewrite !app_nil_r. unfold keep_entry. cbn [fst snd key_in].
      assert (Hcut : In (Some l, SF l ty v) cutall) by (apply HI; now left).
      set (h := {| h_label := l; h_isf := true; h_expr := [ty; v] |}).
      destruct (mem l n2 || mem v M) eqn:Eb.
      + assert (HvM : mem v M = true).
        { apply orb_true_iff in Eb. destruct Eb as [Eb|Eb]; [|exact Eb]. apply mem_In in Eb.
          apply mem_In. apply (K1 l _ Hcut Eb). now left. }
        assert (HtyC : mem ty C = true).
        { apply mem_In. apply (K3 (SF l ty v)); [|now left]. apply in_flat_map. exists (Some l, SF l ty v).
          split; [assumption|]. unfold keep_entry. cbn [fst snd key_in]. rewrite Eb. now left. }
        cbn [vstmts vstmt]. rewrite RC, RV, HtyC, HvM. cbn [andb]. eexists. split; [reflexivity|]. split; [|reflexivity].
        apply (trel_same (SF l ty v) done sc sc' _ _ [(l, LHyp [ty; v])]); try assumption; try reflexivity.
        * constructor; cbn [add_hyp s_consts s_vars s_hyps s_dvs]; try assumption; try reflexivity.
          -- assert (Hk : keepH M h = true) by (unfold keepH, h; cbn [h_isf hyp_var h_expr negb orb]; exact HvM).
             rewrite RH, filter_app. cbn [filter]. fold h. rewrite Hk. reflexivity.
          -- apply Forall_app. split; [assumption|]. constructor; [|constructor]. unfold hyp_ok. cbn [h_isf h_expr]. now eexists _, _.
        * intros x [<-|[]]. now left.
        * cbn [entry]. intros k st' [E0|[]] _. injection E0 as <- _. now left.
      + apply orb_false_iff in Eb. destruct Eb as [Eb1 Eb2].
        exists sc'. split; [reflexivity|]. split; [|reflexivity].
        apply (trel_db (SF l ty v) done sc sc' _ [(l, LHyp [ty; v])]); try assumption; try reflexivity.
        * constructor; cbn [add_hyp s_consts s_vars s_hyps s_dvs]; try assumption; try reflexivity.
          -- assert (Hk : keepH M h = false) by (unfold keepH, h; cbn [h_isf hyp_var h_expr negb orb]; exact Eb2).
             rewrite RH, filter_app. cbn [filter]. fold h. rewrite Hk. now rewrite app_nil_r.
          -- apply Forall_app. split; [assumption|]. constructor; [|constructor]. unfold hyp_ok. cbn [h_isf h_expr]. now eexists _, _.
        * intros x [<-|[]]. now left.
        * cbn [entry]. intros k st' [E0|[]]. injection E0 as <- _. now apply mem_false.
    - (* top-level $e: always kept *)
      cbn [entry flat_map decl]. rewrite !app_nil_r.
      assert (Hcut : In (Some l, SE l ts) cutall) by (apply HI; now left).
      assert (Hkeep : keep (Some l, SE l ts) = [SE l ts]).
      { unfold keep_entry. cbn [fst snd]. now rewrite orb_true_r. }
      rewrite Hkeep.
      destruct (kshape_of_wf (SE l ts) (s_vars sc) W eq_refl) as [_ [U1 _]].
      destruct (sim_kept (SE l ts) (SE l ts) sc sc' sc2 R eq_refl) as (sc2' & new & E & R2 & L2 & L2' & V2 & I2 & A2); try assumption.
      + exact (K2 _ _ _ Hcut).
      + apply K3. apply in_flat_map. exists (Some l, SE l ts). split; [assumption|]. rewrite Hkeep. now left.
      + reflexivity.
      + exists sc2'. cbn [vstmts]. rewrite E. split; [reflexivity|]. split; [|exact V2].
        apply (trel_same (SE l ts) done sc sc' sc2 sc2' new); try assumption.
        cbn [entry]. intros k st' [E0|[]] _. injection E0 as <- _.
        cbn [vstmt] in H. cbv zeta in H. destruct (expr_ok sc (pts ts)); [|discriminate]. injection H as <-.
        cbn [add_hyp s_labels h_label h_expr] in L2.
        change ((l, LHyp (pts ts)) :: s_labels sc) with ([(l, LHyp (pts ts))] ++ s_labels sc)%list in L2.
        apply app_inv_tail in L2. subst new. now left.
  Qed.

  Lemma sim_top : forall pre done sc sc' sc1,
    incl (flat_map entry pre) cutall -> Forall processable pre ->
    (forall st, In st pre -> symfact st /\ incl (decl st) V) ->
    wf_stmts (s_vars sc) pre = true ->
    NoDup (flat_map stmt_labels (done ++ pre)) ->
    TRel sc sc' done -> vstmts target sc pre = WCont sc1 ->
    exists sc1', vstmts target sc' (flat_map keep (flat_map entry pre)) = WCont sc1' /\ TRel sc1 sc1' (done ++ pre) /\
                 s_vars sc1 = (s_vars sc ++ decls pre)%list.
  Proof.
    induction pre as [|st pre IH]; intros done sc sc' sc1 HI P HS W ND T H.
    - cbn in H. injection H as <-. exists sc'. rewrite !app_nil_r. split; [reflexivity|]. split; [exact T|reflexivity].
    - inversion P as [|? ? Pst Pr]; subst. cbn [vstmts] in H.
      destruct (vstmt target sc st) as [| sc2 |] eqn:Est; try discriminate.
      cbn [wf_stmts] in W. apply andb_true_iff in W. destruct W as [Wst Wr].
      cbn [flat_map] in HI.
      destruct (HS st (or_introl eq_refl)) as [Hsym Hdv].
      destruct (sim_step st done sc sc' sc2) as (sc2' & E2 & T2 & V2); try assumption.
      + intros x Hx. apply HI. apply in_or_app. now left.
      + intros x Hx Hd. rewrite flat_map_app in ND. apply (nodup_app_disj _ _ x ND); [|exact Hd].
        cbn [flat_map]. apply in_or_app. now left.
      + destruct (IH (done ++ [st])%list sc2 sc2' sc1) as (sc1' & E1 & T1 & V1); try assumption.
        * intros x Hx. apply HI. apply in_or_app. now right.
        * intros s Hs. apply HS. now right.
        * now rewrite V2.
        * rewrite <- app_assoc. exact ND.
        * exists sc1'. cbn [flat_map]. rewrite flat_map_app, vstmts_app, E2. split; [exact E1|].
          rewrite <- app_assoc in T1. split; [exact T1|]. rewrite V1, V2. unfold decls. cbn [flat_map]. now rewrite app_assoc.
  Qed.
End Top.

(* ------------------------------------------------------------------ E. assembly *)
Lemma top_label_in st k : In k (top_label st) -> In k (stmt_labels st).
Proof.
  destruct st as [cs|vs|vs|l ty v|l ts|l ts|l ts pf|ss]; cbn [top_label stmt_labels];
    [intros []|intros []|intros []|auto|auto|auto|auto|].
  destruct (match_axiom (SB ss)) as [| |l] eqn:EM.
  - destruct (deconstruct_provable (SB ss)) as [[[[a l0] t] p]|] eqn:ED; [|intros []].
    intros [<-|[]]. destruct (deconstruct_provable_ok _ _ _ _ _ ED) as [_ [[E _]|E]]; [discriminate|].
    injection E as ->. rewrite flat_map_app. apply in_or_app. right. now left.
  - destruct (deconstruct_provable (SB ss)) as [[[[a l0] t] p]|] eqn:ED; [|intros []].
    intros [<-|[]]. destruct (deconstruct_provable_ok _ _ _ _ _ ED) as [_ [[E _]|E]]; [discriminate|].
    injection E as ->. rewrite flat_map_app. apply in_or_app. right. now left.
  - intros [<-|[]]. destruct (match_axiom_ok _ _ EM) as [_ H]. exact H.
Qed.

Lemma top_label_len st : length (top_label st) <= 1.
Proof.
  destruct st as [cs|vs|vs|l ty v|l ts|l ts|l ts pf|ss]; cbn [top_label length]; try lia.
  destruct (match_axiom (SB ss)); cbn [length]; try lia;
    destruct (deconstruct_provable (SB ss)) as [[[[a l0] t] p]|]; cbn [length]; lia.
Qed.

Lemma nodup_app_r {A} (a b : list A) : NoDup (a ++ b) -> NoDup b.
Proof. induction a as [|x a IH]; intros H; [exact H|]. cbn [app] in H. inversion H; subst. now apply IH. Qed.
Lemma nodup_app_l {A} (a b : list A) : NoDup (a ++ b) -> NoDup a.
Proof.
  induction a as [|x a IH]; intros H; [constructor|]. cbn [app] in H. inversion H as [|? ? Hx H']; subst.
  constructor; [|now apply IH]. intros Hc. apply Hx. apply in_or_app. now left.
Qed.

Lemma top_labels_nodup db : NoDup (flat_map stmt_labels db) -> NoDup (flat_map top_label db).
Proof.
  induction db as [|st db IH]; intros ND; [constructor|]. cbn [flat_map] in *.
  assert (ND2 : NoDup (flat_map stmt_labels db)) by (now apply nodup_app_r in ND).
  specialize (IH ND2).
  pose proof (top_label_len st) as HL. pose proof (top_label_in st) as HI.
  destruct (top_label st) as [|k [|k2 r]]; [exact IH| |cbn [length] in HL; lia].
  cbn [app]. constructor; [|exact IH]. intros Hk. apply in_flat_map in Hk. destruct Hk as [s [Hs Hk]].
  apply (nodup_app_disj _ _ k ND).
  - apply in_flat_map. exists s. split; [assumption|]. now apply top_label_in.
  - apply HI. now left.
Qed.

Lemma entry_mvs A st : wf_stmt A st = true -> processable st ->
  forall kv, In kv (entry st) -> incl (stmt_mvs (snd kv)) A.
Proof.
  intros W P kv Hkv.
  assert (Hnd : nodecl st = true -> incl (stmt_mvs st) A).
  { intros N. destruct (kshape_of_wf st A W N) as [_ [U _]]. exact U. }
  destruct st as [cs|vs|vs|l ty v|l ts|l ts|l ts pf|ss].
  - destruct Hkv.
  - destruct Hkv.
  - destruct Hkv as [<-|[]]. now apply Hnd.
  - destruct Hkv as [<-|[]]. now apply Hnd.
  - destruct Hkv as [<-|[]]. now apply Hnd.
  - destruct (stored_facts (SA l ts) I P) as (k & st' & Ee & _ & Nd & _ & Em & _). rewrite Ee in Hkv.
    destruct Hkv as [<-|[]]. cbn [snd]. rewrite Em. now apply Hnd.
  - destruct (stored_facts (SP l ts pf) I P) as (k & st' & Ee & _ & Nd & _ & Em & _). rewrite Ee in Hkv.
    destruct Hkv as [<-|[]]. cbn [snd]. rewrite Em. now apply Hnd.
  - destruct (stored_facts (SB ss) I P) as (k & st' & Ee & _ & Nd & _ & Em & _). rewrite Ee in Hkv.
    destruct Hkv as [<-|[]]. cbn [snd]. rewrite Em. now apply Hnd.
Qed.

Lemma entries_mvs : forall pre A, wf_stmts A pre = true -> Forall processable pre ->
  forall kv, In kv (flat_map entry pre) -> incl (stmt_mvs (snd kv)) (A ++ decls pre).
Proof.
  induction pre as [|st pre IH]; intros A W P kv Hkv; [destruct Hkv|].
  inversion P as [|? ? Pst Pr]; subst. cbn [wf_stmts] in W. apply andb_true_iff in W. destruct W as [Wst Wr].
  cbn [flat_map] in Hkv. apply in_app_or in Hkv. unfold decls. cbn [flat_map]. destruct Hkv as [Hkv|Hkv].
  - apply incl_appl. now apply (entry_mvs A st Wst Pst).
  - rewrite app_assoc. now apply (IH (A ++ decl st)%list Wr Pr).
Qed.

Lemma wf_stmts_app l1 : forall A l2, wf_stmts A (l1 ++ l2) = true ->
  wf_stmts A l1 = true /\ wf_stmts (A ++ decls l1) l2 = true.
Proof.
  induction l1 as [|a l1 IH]; intros A l2 W.
  - cbn [decls flat_map]. rewrite app_nil_r. split; [reflexivity|exact W].
  - cbn [app wf_stmts] in *. apply andb_true_iff in W. destruct W as [Wa Wr].
    destruct (IH _ _ Wr) as [W1 W2]. rewrite Wa, W1. split; [reflexivity|].
    unfold decls in *. cbn [flat_map]. now rewrite app_assoc.
Qed.

Lemma dv_in_filter M dvs a b : dv_in dvs a b = true -> In a M -> In b M -> dv_in (filter (bothM M) dvs) a b = true.
Proof.
  unfold dv_in. rewrite !existsb_exists. intros [p [Hp Ep]] Ha Hb. exists p. split; [|exact Ep].
  apply filter_In. split; [exact Hp|]. unfold bothM. apply mem_In in Ha, Hb.
  unfold pair_eqb in Ep. cbn [fst snd] in Ep. apply orb_true_iff in Ep.
  destruct Ep as [Ep|Ep]; apply andb_true_iff in Ep; destruct Ep as [E1 E2]; apply String.eqb_eq in E1, E2; subst;
    now rewrite Ha, Hb.
Qed.

Lemma keys_entries pre : Forall processable pre -> keys (flat_map entry pre) = flat_map top_label pre.
Proof.
  induction pre as [|st pre IH]; intros P; [reflexivity|]. inversion P as [|? ? Pst Pr]; subst.
  cbn [flat_map]. rewrite keys_app, (keys_entry st Pst), (IH Pr). reflexivity.
Qed.

Lemma sym_disjoint_facts db : sym_disjoint db = true ->
  ~ In LP (decls db) /\ ~ In RP (decls db) /\
  forall st, In st db -> (forall c, In c (stmt_csyms st) -> ~ In c (decls db)) /\ incl (decl st) (decls db).
Proof.
  unfold sym_disjoint, db_csyms. intros H. rewrite forallb_forall in H.
  assert (G : forall c, In c (LP :: RP :: flat_map stmt_csyms db) -> ~ In c (decls db)).
  { intros c Hc. specialize (H c Hc). apply negb_true_iff in H. now apply mem_false. }
  split; [apply G; now left|]. split; [apply G; right; now left|].
  intros st Hst. split.
  - intros c Hc. apply G. right. right. apply in_flat_map. eauto.
  - intros x Hx. unfold decls. apply in_flat_map. eauto.
Qed.

Lemma header_walk t C M rest :
  vstmts t scope0 (SC C :: hdr M ++ rest) =
  vstmts t {| s_consts := C; s_vars := M; s_hyps := []; s_dvs := []; s_labels := [] |} rest.
Proof. destruct M; reflexivity. Qed.

Lemma nodup3_l {A} (a b c : list A) x : NoDup (a ++ b ++ c) -> In x a -> In x b -> False.
Proof. intros ND Ha Hb. apply (nodup_app_disj a (b ++ c) x ND); [apply in_or_app; now left|exact Ha]. Qed.
Lemma nodup3_r {A} (a b c : list A) x : NoDup (a ++ b ++ c) -> In x b -> In x c -> False.
Proof. intros ND Hb Hc. apply nodup_app_r in ND. apply (nodup_app_disj b c x ND Hc Hb). Qed.

Theorem slice_proof_verifies db sd lemma s :
  wf_db db = true -> sym_disjoint db = true -> all_labels_unique db -> compressed_lemma db lemma = true ->
  slice sguards_fixed db sd lemma = Some s -> mm_verify db lemma = true -> mm_verify s lemma = true.
Proof.
  intros W SDj U CL HS HV.
  (* 1. shape of the slicer's run *)
  unfold slice in HS. apply assoc_get_In in HS. unfold slice_database in HS.
  destruct (slice_loop_struct sd [lemma] [] db [] lemma s) as (pre & st & post & ants & ts & pf & Edb & Ppre & MA & DP & SU);
    [cbn [keys flat_map app]; now apply top_labels_nodup|exact HS|].
  cbn [app] in SU.
  destruct (supporting_inv _ _ _ _ _ _ _ SU) as (labels & n2 & M & C & PL & IL & F3 & F4 & F5 & F6 & HLC & HRC & F9 & Es).
  destruct (sym_disjoint_facts db SDj) as (HLV & HRV & SFc).
  set (V := decls db) in *. set (cutall := flat_map entry pre) in *.
  destruct (deconstruct_provable_ok _ _ _ _ _ DP) as [HA Hform].
  destruct (SD_SE_toax ants HA) as (TA & KA & LA).
  unfold all_labels_unique in U. rewrite Edb, flat_map_app in U. cbn [flat_map] in U.
  assert (Hlst : In lemma (stmt_labels st)).
  { destruct Hform as [[-> _]| ->]; [now left|]. cbn [stmt_labels]. rewrite flat_map_app. apply in_or_app. right. now left. }
  (* well-formedness along the prefix *)
  unfold wf_db in W. rewrite Edb in W. destruct (wf_stmts_app pre [] _ W) as [Wpre Wst]. cbn [app] in Wst.
  cbn [wf_stmts] in Wst. apply andb_true_iff in Wst. destruct Wst as [Wst _].
  assert (Nst : nodecl st = true).
  { destruct Hform as [[-> _]| ->]; [reflexivity|]. rewrite nodecl_block, forallb_app, (SD_SE_nodecl ants HA). reflexivity. }
  destruct (kshape_of_wf st (decls pre) Wst Nst) as [_ [Ust _]].
  assert (Hparts : forall st', In st' (SP lemma ts pf :: ants) -> incl (stmt_mvs st') (stmt_mvs st) /\ incl (stmt_csyms st') (stmt_csyms st)).
  { intros st' Hst'. destruct Hform as [[-> ->]| ->].
    - destruct Hst' as [<-|[]]. split; apply incl_refl.
    - cbn [stmt_mvs stmt_csyms]. split; intros x Hx; apply in_flat_map; exists st'; (split; [|assumption]);
        apply in_or_app; (destruct Hst' as [<-|Hst']; [right; now left|now left]). }
  assert (HdeclV : incl (decls pre) V).
  { unfold V. rewrite Edb. unfold decls. rewrite flat_map_app. now apply incl_appl. }
  assert (HstIn : In st db) by (rewrite Edb; apply in_or_app; right; now left).
  assert (HpreIn : forall x, In x pre -> In x db) by (intros x Hx; rewrite Edb; apply in_or_app; now left).
  assert (HMA : incl M (decls pre)).
  { intros x Hx. destruct (F6 x Hx) as [st' [Hst' Hx']]. rewrite app_comm_cons in Hst'. apply in_app_or in Hst'.
    destruct Hst' as [Hst'|Hst'].
    - apply Ust. now apply (proj1 (Hparts st' Hst')).
    - apply in_map_iff in Hst'. destruct Hst' as [kv [<- Hkv]].
      apply (entries_mvs pre [] Wpre Ppre kv Hkv). exact Hx'. }
  assert (HMV : incl M V) by (intros x Hx; now apply HdeclV, HMA).
  assert (NDk : NoDup (keys cutall)).
  { unfold cutall. rewrite (keys_entries pre Ppre). apply top_labels_nodup. now apply nodup_app_l in U. }
  assert (K1 : forall k st', In (Some k, st') cutall -> In k n2 -> incl (stmt_mvs st') M).
  { intros k st' Hin Hk. destruct (F3 k Hk) as [st'' [Hg Hm]]. rewrite (dict_get_unique cutall NDk k st' Hin) in Hg.
    now injection Hg as <-. }
  (* 2. the database walk *)
  unfold mm_verify, vfind in HV. destruct (vstmts lemma scope0 db) as [sc fr pf0| |] eqn:Ew; try discriminate.
  rewrite Edb, vstmts_app in Ew.
  destruct (vstmts lemma scope0 pre) as [a b c|sc_pre|] eqn:Epre; [| |discriminate].
  { exfalso. apply vstmts_found in Epre. exact (nodup3_l _ _ _ lemma U Epre Hlst). }
  cbn [vstmts] in Ew. destruct (vstmt lemma sc_pre st) as [a b c|sc_x|] eqn:Est; [| |discriminate].
  2:{ exfalso. apply vstmts_found in Ew. exact (nodup3_r _ _ _ lemma U Hlst Ew). }
  injection Ew as -> -> ->.
  assert (Hin : exists sc_in, vstmts lemma sc_pre ants = WCont sc_in /\ expr_ok sc_in (pts ts) = true /\
                              sc = sc_in /\ fr = make_frame sc_in (pts ts) /\ pf0 = pf).
  { destruct Hform as [[-> ->]| ->].
    - exists sc_pre. cbn [vstmts vstmt] in *. cbv zeta in Est. destruct (expr_ok sc_pre (pts ts)); [|discriminate].
      rewrite String.eqb_refl in Est. injection Est as <- <- <-. repeat split.
    - rewrite vstmt_block, vstmts_app in Est.
      destruct (vstmts lemma sc_pre ants) as [a b c|sc_in|] eqn:Ea; [| |discriminate].
      { exfalso. apply vstmts_found in Ea. apply nodup_app_r, nodup_app_l in U. cbn [stmt_labels] in U.
        rewrite flat_map_app in U. apply (nodup_app_disj _ _ lemma U); [now left|exact Ea]. }
      exists sc_in. cbn [vstmts vstmt] in Est. cbv zeta in Est. destruct (expr_ok sc_in (pts ts)); [|discriminate].
      rewrite String.eqb_refl in Est. injection Est as <- <- <-. repeat split. }
  destruct Hin as (sc_in & Eants & Eok & -> & -> & ->).
  (* 3. the slice walk *)
  unfold mm_verify, vfind. rewrite Es, header_walk, vstmts_app.
  set (sc0' := {| s_consts := C; s_vars := M; s_hyps := []; s_dvs := []; s_labels := [] |}).
  destruct (sim_top V C M n2 lemma cutall HMV HLV HRV HLC HRC K1 F4 F9 pre [] scope0 sc0' sc_pre)
    as (sc_pre' & Ek & (Rp & RLp & _ & KNp) & Vp); try assumption.
  { apply incl_refl. }
  { intros x Hx. exact (SFc x (HpreIn x Hx)). }
  { cbn [app]. now apply nodup_app_l in U. }
  { split; [|split; [|split]].
    - constructor; cbn; try reflexivity; try (intros ? []); constructor.
    - intros x e H0. discriminate.
    - intros ? [].
    - intros ? ? []. }
  fold cutall in Ek. fold sc0'. rewrite Ek. cbn [app s_vars scope0] in Vp.
  (* the lemma's own block *)
  assert (Hfacts : forall st', In st' (SP lemma ts pf :: ants) ->
            forall e, In e (stmt_exprs st') -> eok V C M (s_vars sc_pre) e).
  { intros st' Hst'. destruct (F5 st' Hst') as [Hm Hc]. destruct (Hparts st' Hst') as [Pm Pc].
    apply eok_of_facts; try assumption.
    - rewrite Vp. intros x Hx. apply Ust. now apply Pm.
    - intros c Hc'. apply (proj1 (SFc st HstIn)). now apply Pc. }
  destruct (sim_stmts V C M lemma ants (proj2 (Forall_forall _ _) (fun x _ => sim_stmt V C M lemma HMV x))
              sc_pre sc_pre' sc_in KA) as (sc_in' & new & E' & Rin & Lin & Lin' & Vin); try assumption.
  { intros e He. apply in_flat_map in He. destruct He as [a [Ha He]]. apply (Hfacts a); [now right|exact He]. }
  { intros x Hx. apply in_flat_map in Hx. destruct Hx as [a [Ha Hx]].
    apply (proj1 (F5 a (or_intror Ha))). now apply stmt_dvars_mvs. }
  rewrite TA in E'.
  assert (Heok : eok V C M (s_vars sc_in) (pts ts)).
  { rewrite Vin. apply (Hfacts (SP lemma ts pf)); now left. }
  cbn [vstmts]. rewrite vstmt_block, vstmts_app, E'. cbn [vstmts vstmt]. cbv zeta.
  rewrite (expr_ok_sim V C M HMV sc_in sc_in' _ Rin Heok Eok), String.eqb_refl.
  rewrite (make_frame_sim V C M HMV sc_in sc_in' _ Rin (proj1 Heok)).
  (* 4. the proof check only sees what both scopes agree on *)
  apply (check_proof_mono_refs sc_in sc_in'); [|exact HV].
  pose proof Rin as [RC RV RH RD RK RA RO].
  assert (Hrefs : proof_refs pf = labels).
  { unfold compressed_lemma, vfind in CL. rewrite Edb, vstmts_app, Epre in CL. cbn [vstmts] in CL.
    destruct Hform as [[-> ->]| ->].
    - cbn [vstmts vstmt] in CL, Eants. cbv zeta in CL. injection Eants as ->. rewrite Eok, String.eqb_refl in CL.
      destruct pf as [[|t rest]|]; try discriminate. apply String.eqb_eq in CL. subst t.
      cbn [proof_refs proof_labels] in *. change (String.eqb LP LP) with true in *. cbv iota in *.
      cbn [after_first] in PL. change (String.eqb LP LP) with true in PL. cbv iota in PL. now rewrite PL.
    - rewrite vstmt_block, vstmts_app, Eants in CL. cbn [vstmts vstmt] in CL. cbv zeta in CL.
      rewrite Eok, String.eqb_refl in CL.
      destruct pf as [[|t rest]|]; try discriminate. apply String.eqb_eq in CL. subst t.
      cbn [proof_refs proof_labels] in *. change (String.eqb LP LP) with true in *. cbv iota in *.
      cbn [after_first] in PL. change (String.eqb LP LP) with true in PL. cbv iota in PL. now rewrite PL. }
  rewrite Hrefs. split; [|split].
  - intros x Hx. rewrite Lin, Lin', !assoc_get_app. destruct (assoc_get x new); [reflexivity|].
    destruct (F3 x (IL x Hx)) as [st' [Hg _]]. apply dict_get_In in Hg.
    pose proof (KNp x st' Hg (IL x Hx)) as Hk. destruct (assoc_get_keys_some x _ Hk) as [e He].
    rewrite He. symmetry. now apply RLp.
  - rewrite RV, Vin, Vp. exact HMA.
  - intros a b Hab Ha Hb. rewrite RD. rewrite RV in Ha, Hb. now apply dv_in_filter.
Qed.

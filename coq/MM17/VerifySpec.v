(** C17 (3): side conditions of [slice_proof_verifies] (all decidable). *)
From Coq Require Import String List Bool.
From Pi2 Require Import MM17.Ast MM17.Print MM17.Parse MM17.Wf MM17.Slice MM17.SliceSpec MM17.Verify.
Import ListNotations.
Open Scope string_scope.

(** constant symbols of a statement: [$c] lists, typecodes of [$f], every application symbol *)
Fixpoint stmt_csyms (s : stmt) : list string :=
  match s with
  | SC cs => cs
  | SF _ ty _ => [ty]
  | SE _ ts | SA _ ts | SP _ ts _ => flat_map term_consts ts
  | SB ss => flat_map stmt_csyms ss
  | _ => []
  end.
Definition db_csyms (db : database) : list string := LP :: RP :: flat_map stmt_csyms db.

(** constants and variables are disjoint: no declared variable is a parenthesis, a [$c] constant, a typecode
    or the symbol of an application (the dialect of ast.py: "all terms consist only of constant symbols with
    the only exception being metavariables"; required of every Metamath database).  Implies [consistent]. *)
Definition sym_disjoint (db : database) : bool :=
  forallb (fun c => negb (mem c (decls db))) (db_csyms db).

(** all statement labels are distinct (required of every Metamath database) *)
Definition all_labels_unique (db : database) : Prop := NoDup (flat_map stmt_labels db).

(** the lemma's proof is in compressed format (starts with "(") *)
Definition compressed_lemma (db : database) (lemma : string) : bool :=
  match vfind lemma db with
  | Some (_, _, Some (t :: _)) => String.eqb t LP
  | _ => false
  end.

(** C17: well-formedness of databases = exactly what the parser's output satisfies
    (proved in ParsePrintProofs.v: [parse_db toks = Some db -> wf_db db = true], and
    [wf_db db = true -> parse_db (print_db db) = Some db]).  Executable (bool) so that the harness can
    evaluate it on real ASTs through the extracted model. *)
From Coq Require Import String List Bool Arith.
From Pi2 Require Import MM17.Ast MM17.Print MM17.Parse.
Import ListNotations.
Open Scope string_scope.

(** [scan d l]: run the parenthesis counter of [parse_term] over [l] from [d]; [None] as soon as it
    reaches 0 (that is where the Python loop would [break]). *)
Fixpoint scan (d : nat) (l : list string) : option nat :=
  match l with
  | [] => Some d
  | t :: l' => let d' := step_depth d t in if Nat.eqb d' 0 then None else scan d' l'
  end.

Definition closes (body : list string) : bool :=
  match scan 1 body with Some 1 => true | _ => false end.

(** A term as the parser can build it under accumulator [mvs]:
    - [Metavariable x]: [x] declared, and not the token "(" (the "(" test comes first in [parse_term]);
    - [Application c ()]: [c] not declared, not "(";
    - [Application c (a1..an)], n>=1: the parenthesis scan over [c a1 .. an] first returns to depth 0 at
      the closing ")" the printer adds.  For symbols other than "(" / ")" this always holds
      (lemma [closes_plain]); it fails e.g. for [Application(")", (x,))] and [Application("(", (x,))],
      which the printer prints as [( ) x )] / [( ( x )] and the parser rejects. *)
Fixpoint wf_term (mvs : list string) (t : term) : bool :=
  match t with
  | MV x => mem x mvs && negb (String.eqb x LP)
  | App c [] => negb (mem c mvs) && negb (String.eqb c LP)
  | App c args =>
      (fix go (l : list term) : bool := match l with [] => true | a :: l' => wf_term mvs a && go l' end) args
      && closes (c :: pts args)
  end.

Definition wf_terms (mvs : list string) (ts : list term) : bool := forallb (wf_term mvs) ts.

(** variables a statement appends to [self.metavariables] (blocks do NOT restore the accumulator) *)
Fixpoint decl (s : stmt) : list string :=
  match s with
  | SV vs => vs
  | SB ss => flat_map decl ss
  | _ => []
  end.
Definition decls (ss : list stmt) : list string := flat_map decl ss.

Definition nonnil {A} (l : list A) : bool := negb (is_nil l).

Fixpoint wf_stmt (mvs : list string) (s : stmt) : bool :=
  match s with
  | SC cs => nonnil cs
  | SV vs => nonnil vs
  | SD vs => nonnil vs && forallb (fun v => mem v mvs) vs
  | SF l ty v => mem v mvs
  | SE l ts => nonnil ts && wf_terms mvs ts
  | SA l ts => nonnil ts && wf_terms mvs ts
  | SP l ts pf => nonnil ts && wf_terms mvs ts && match pf with Some _ => true | None => false end
  | SB ss =>
      (fix go (m : list string) (l : list stmt) : bool :=
         match l with [] => true | a :: l' => wf_stmt m a && go (m ++ decl a)%list l' end) mvs ss
  end.

Fixpoint wf_stmts (mvs : list string) (ss : list stmt) : bool :=
  match ss with
  | [] => true
  | a :: l' => wf_stmt mvs a && wf_stmts (mvs ++ decl a)%list l'
  end.

Definition wf_db (db : database) : bool := wf_stmts [] db.

(** the simple sufficient condition: no application symbol / variable name is a parenthesis *)
Fixpoint plain_term (t : term) : bool :=
  match t with
  | MV x => negb (String.eqb x LP) && negb (String.eqb x RP)
  | App c args =>
      negb (String.eqb c LP) && negb (String.eqb c RP) &&
      (fix go (l : list term) : bool := match l with [] => true | a :: l' => plain_term a && go l' end) args
  end.

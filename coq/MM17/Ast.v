(** C17 model, part 1: the Metamath database AST of
    [generation/src/proof_generation/metamath/ast.py] and the token alphabet of the lark grammar in
    [parser.py].

    Abstraction boundary.  lark (lexer + LALR driver) is NOT modelled: the model starts at the token
    list the lexer produces.  A token is either one of the eleven keyword terminals of the grammar or a
    [TOKEN] carrying its text ([string], compared by UTF-8 bytes, which agrees with Python's code-point
    order).  Every [str] stored in the Python AST (labels, symbols, variable names) is such a token text;
    [ProvableStatement.proof] (a [str | None] that the parser builds as [' '.join(tokens)] and the
    printer writes verbatim) is kept as the list of its whitespace-separated tokens.  [Comment] and
    [IncludeStatement] are not produced by the parser (comments are [%ignore]d, ["$["] is not in the
    grammar) and are outside the model. *)
From Coq Require Import String List Bool.
Import ListNotations.
Open Scope string_scope.

(** terminals of the grammar *)
Inductive tok : Type :=
| KC | KV | KD | KF | KE | KA | KP   (* $c $v $d $f $e $a $p *)
| KEq | KDot | KOpen | KClose        (* $= $. ${ $} *)
| TS (s : string).                   (* TOKEN *)

Definition LP : string := "(".
Definition RP : string := ")".

(** [Term]: [Metavariable(name)] / [Application(symbol, subterms)] *)
Inductive term : Type :=
| MV (x : string)
| App (c : string) (args : list term).

(** [Statement] subclasses the parser can produce *)
Inductive stmt : Type :=
| SC (cs : list string)                                   (* ConstantStatement *)
| SV (vs : list string)                                   (* VariableStatement *)
| SD (vs : list string)                                   (* DisjointStatement *)
| SF (l ty v : string)                                    (* FloatingStatement: terms = (Application ty, Metavariable v) *)
| SE (l : string) (ts : list term)                        (* EssentialStatement *)
| SA (l : string) (ts : list term)                        (* AxiomaticStatement *)
| SP (l : string) (ts : list term) (pf : option (list string))   (* ProvableStatement; proof None is printed "$= ?" *)
| SB (ss : list stmt).                                    (* Block *)

Definition database := list stmt.                          (* Database.statements *)

(** induction principles for the two nested inductives *)
Section term_ind2.
  Variable P : term -> Prop.
  Hypothesis HMV : forall x, P (MV x).
  Hypothesis HApp : forall c args, Forall P args -> P (App c args).
  Fixpoint term_ind2 (t : term) : P t :=
    match t with
    | MV x => HMV x
    | App c args =>
        HApp c args ((fix go (l : list term) : Forall P l :=
                        match l with [] => Forall_nil _ | a :: l' => Forall_cons a (term_ind2 a) (go l') end) args)
    end.
End term_ind2.

Section stmt_ind2.
  Variable P : stmt -> Prop.
  Hypothesis HC : forall cs, P (SC cs).
  Hypothesis HV : forall vs, P (SV vs).
  Hypothesis HD : forall vs, P (SD vs).
  Hypothesis HF : forall l ty v, P (SF l ty v).
  Hypothesis HE : forall l ts, P (SE l ts).
  Hypothesis HA : forall l ts, P (SA l ts).
  Hypothesis HP : forall l ts pf, P (SP l ts pf).
  Hypothesis HB : forall ss, Forall P ss -> P (SB ss).
  Fixpoint stmt_ind2 (s : stmt) : P s :=
    match s with
    | SC cs => HC cs | SV vs => HV vs | SD vs => HD vs | SF l ty v => HF l ty v
    | SE l ts => HE l ts | SA l ts => HA l ts | SP l ts pf => HP l ts pf
    | SB ss => HB ss ((fix go (l : list stmt) : Forall P l :=
                         match l with [] => Forall_nil _ | a :: l' => Forall_cons a (stmt_ind2 a) (go l') end) ss)
    end.
End stmt_ind2.

(** boolean equalities (used by the driver and by the slicer's dictionary) *)
Definition mem (x : string) (l : list string) : bool := existsb (String.eqb x) l.

Fixpoint list_eqb {A} (eqb : A -> A -> bool) (l1 l2 : list A) : bool :=
  match l1, l2 with
  | [], [] => true
  | a :: l1', b :: l2' => eqb a b && list_eqb eqb l1' l2'
  | _, _ => false
  end.

Fixpoint term_eqb (t u : term) : bool :=
  match t, u with
  | MV x, MV y => String.eqb x y
  | App c a, App d b =>
      String.eqb c d &&
      (fix go (l1 l2 : list term) : bool :=
         match l1, l2 with
         | [], [] => true
         | x :: l1', y :: l2' => term_eqb x y && go l1' l2'
         | _, _ => false
         end) a b
  | _, _ => false
  end.

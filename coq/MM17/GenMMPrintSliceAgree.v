(** C17, tie by translation: the functions GENERATED from the current Python source (coq/Gen/MMPrintSlice.v,
    translators/mm_print_slice.py) agree with the hand-written model the C17 theorems are about.
    Printer: [norm (GenMM.encode_database false db) = print_db db] (for non-empty labels).
    Slicer: [GenMM.slice_database = slice_database sguards_fixed]. *)
From Coq Require Import String Ascii List Bool Arith Lia.
From Pi2 Require Import MM17.Ast MM17.Print MM17.Parse MM17.Wf MM17.Slice MM17.SliceSpec MM17.GenLib
     MM17.ParsePrintProofs MM17.SliceProofs Gen.MMPrintSlice.
Import ListNotations.
Open Scope string_scope.

(* ================================================================== printer *)
Definition atoms (ps : list piece) : list atom := flat_map piece_atoms ps.

Lemma atoms_app a b : atoms (a ++ b) = (atoms a ++ atoms b)%list.
Proof. apply flat_map_app. Qed.

(** a printed unit followed by a blank yields its tokens *)
Definition unit_ok (ps : list piece) (ts : list tok) : Prop :=
  forall rest, group [] (atoms ps ++ ASp :: rest) = (ts ++ group [] rest)%list.

Lemma group_vals : forall cs a0 r,
  group [a0] (flat_map (fun c => [ASp; AVal c]) cs ++ ASp :: r) = (flush [a0] ++ map TS cs ++ group [] r)%list.
Proof.
  induction cs as [|c cs IH]; intros a0 r.
  - reflexivity.
  - cbn [flat_map app group]. rewrite (IH (AVal c) r). reflexivity.
Qed.

Lemma group_units {A} (enc : A -> list piece) (tk : A -> list tok) : forall l rest,
  Forall (fun a => unit_ok (enc a) (tk a)) l ->
  group [] (flat_map (fun a => ASp :: atoms (enc a)) l ++ ASp :: rest) = (flat_map tk l ++ group [] rest)%list.
Proof.
  induction l as [|a l IH]; intros rest F; [reflexivity|].
  inversion F as [|? ? Ha Fl]; subst. cbn [flat_map app group flush]. rewrite <- app_assoc.
  assert (Htail : exists T', (flat_map (fun a0 => ASp :: atoms (enc a0)) l ++ ASp :: rest)%list = ASp :: T').
  { destruct l; cbn; eauto. }
  destruct Htail as [T' ET]. pose proof (IH rest Fl) as H. rewrite ET in *. rewrite (Ha T').
  rewrite <- app_assoc. f_equal. exact H.
Qed.

Lemma proof_atoms_cons : forall pf x rest,
  group [] (proof_atoms (x :: pf) ++ ASp :: rest) = (TS x :: map TS pf ++ group [] rest)%list.
Proof.
  induction pf as [|y l IH]; intros x rest; [reflexivity|].
  change (proof_atoms (x :: y :: l)) with (AVal x :: ASp :: proof_atoms (y :: l)).
  cbn [app group flush]. rewrite (IH y rest). reflexivity.
Qed.

Lemma proof_atoms_ok pf rest : group [] (proof_atoms pf ++ ASp :: rest) = (map TS pf ++ group [] rest)%list.
Proof. destruct pf as [|x pf]; [reflexivity|apply proof_atoms_cons]. Qed.

Lemma term_atoms_sp args :
  atoms (flat_map (fun v_subterm => [W " "] ++ GenMM.encode_term v_subterm) args)%list
  = flat_map (fun a => ASp :: atoms (GenMM.encode_term a)) args.
Proof.
  induction args as [|a args IH]; [reflexivity|]. cbn [flat_map]. rewrite atoms_app, IH. reflexivity.
Qed.

Lemma map_TS_pts l : flat_map (fun t => map TS (pt t)) l = map TS (pts l).
Proof. unfold pts. induction l as [|a l IH]; [reflexivity|]. cbn [flat_map]. now rewrite map_app, IH. Qed.

Lemma encode_term_ok t : unit_ok (GenMM.encode_term t) (map TS (pt t)).
Proof.
  induction t as [x|c args IH] using term_ind2; intros rest.
  - reflexivity.
  - destruct args as [|a args]; [reflexivity|].
    cbn [GenMM.encode_term List.length Nat.eqb]. rewrite !atoms_app, term_atoms_sp.
    change (atoms [W "( "]) with [ALit "("; ASp]. change (atoms [T c]) with [AVal c]. change (atoms [W " )"]) with [ASp; ALit ")"].
    rewrite <- !app_assoc. cbn [app group flush lits_only].
    remember (a :: args) as l eqn:El.
    assert (E1 : forall X, group [AVal c] (flat_map (fun a0 => ASp :: atoms (GenMM.encode_term a0)) l ++ X)
                         = TS c :: group [] (flat_map (fun a0 => ASp :: atoms (GenMM.encode_term a0)) l ++ X)).
    { intros X. rewrite El. reflexivity. }
    rewrite E1. rewrite (group_units GenMM.encode_term (fun t => map TS (pt t)) l (ALit ")" :: ASp :: rest) IH).
    rewrite El. cbn [pt]. fold (pts (a :: args)). cbn [group flush lits_only app].
    rewrite map_TS_pts. cbn [map]. rewrite map_app. cbn [map app].
    change (classify ("(" ++ "")) with (TS LP). change (classify (")" ++ "")) with (TS RP).
    rewrite <- app_assoc. reflexivity.
Qed.

Lemma vals_atoms cs :
  atoms (flat_map (fun v_c => [W " "] ++ [T v_c]) cs)%list = flat_map (fun c => [ASp; AVal c]) cs.
Proof. induction cs as [|c cs IH]; [reflexivity|]. cbn [flat_map]. rewrite atoms_app, IH. reflexivity. Qed.

Lemma group_sp_head buf T : group buf (ASp :: T) = (flush buf ++ group [] (ASp :: T))%list.
Proof. reflexivity. Qed.

Lemma units_head {A} (f : A -> list atom) l rest :
  exists T', (flat_map (fun a => ASp :: f a) l ++ ASp :: rest)%list = ASp :: T'.
Proof. destruct l; cbn; eauto. Qed.

Definition labels_ok (db : database) : Prop := forall l, In l (flat_map stmt_labels db) -> l <> "".

Lemma kw_stmt_ok kw (k : tok) cs : classify (kw ++ "") = k ->
  unit_ok ([W kw] ++ flat_map (fun v_c => [W " "] ++ [T v_c]) cs ++ [W " $."])%list (k :: map TS cs ++ [KDot])%list ->
  True.
Proof. trivial. Qed.

Lemma structured_ok kind label terms proof :
  label <> "" ->
  unit_ok (GenMM.postvisit_structured_statement false kind label terms proof)
          (TS label :: match kind with KindF => KF | KindE => KE | KindA => KA | KindP => KP end
             :: map TS (pts terms) ++
             (match kind with KindP => KEq :: map TS (proof_toks proof) | _ => [] end) ++ [KDot])%list.
Proof.
  intros Hl rest. unfold GenMM.postvisit_structured_statement.
  replace (nonempty_str label) with true by (destruct label; [congruence|reflexivity]).
  rewrite !atoms_app, term_atoms_sp.
  change (atoms [T label]) with [AVal label]. change (atoms [W " "]) with [ASp]. change (atoms [W "$"]) with [ALit "$"].
  change (atoms [W " $."]) with [ASp; ALit "$."].
  set (tailp := atoms (if is_provable kind
                       then match proof with
                            | Some proof_value => if false then [W " $= <omitted>"] else ([W " $= "] ++ [PF proof_value])%list
                            | None => [W " $= ?"]
                            end else [])).
  assert (Htail : forall r, group [] (tailp ++ [ASp; ALit "$."] ++ ASp :: r)
                          = ((match kind with KindP => KEq :: map TS (proof_toks proof) | _ => [] end) ++ KDot :: group [] r)%list
                            /\ exists T', (tailp ++ [ASp; ALit "$."] ++ ASp :: r)%list = ASp :: T').
  { intros r. unfold tailp. destruct kind; cbn [is_provable]; try (split; [reflexivity|eexists; reflexivity]).
    destruct proof as [pf|]; [|split; [reflexivity|eexists; reflexivity]].
    rewrite atoms_app. change (atoms [W " $= "]) with [ASp; ALit "$="; ASp]. change (atoms [PF pf]) with (proof_atoms pf ++ [])%list. rewrite app_nil_r.
    split; [|eexists; reflexivity]. rewrite <- !app_assoc. cbn [app group flush lits_only].
    change (classify ("$=" ++ "")) with KEq. cbn [app proof_toks].
    change (proof_atoms pf ++ ASp :: ALit "$." :: ASp :: r)%list with (proof_atoms pf ++ ASp :: (ALit "$." :: ASp :: r))%list.
    rewrite proof_atoms_ok. reflexivity. }
  destruct (Htail rest) as [Ht [T' ET]]. clearbody tailp.
  destruct (units_head (fun a => atoms (GenMM.encode_term a)) terms T') as [T2 ET2].
  assert (Hmid : group [] (flat_map (fun a => ASp :: atoms (GenMM.encode_term a)) terms ++ tailp ++ [ASp; ALit "$."] ++ ASp :: rest)
                 = (map TS (pts terms) ++ (match kind with KindP => KEq :: map TS (proof_toks proof) | _ => [] end)
                      ++ KDot :: group [] rest)%list).
  { rewrite ET. rewrite (group_units GenMM.encode_term (fun t => map TS (pt t)) terms T' (proj2 (Forall_forall _ _) (fun t _ => encode_term_ok t))).
    rewrite map_TS_pts. f_equal. change (group [] T') with (group [] (ASp :: T')). rewrite <- ET. exact Ht. }
  assert (Hhead : exists T3, (flat_map (fun a => ASp :: atoms (GenMM.encode_term a)) terms ++ tailp ++ [ASp; ALit "$."] ++ ASp :: rest)%list = ASp :: T3).
  { rewrite ET. exact (units_head _ terms T'). }
  destruct Hhead as [T3 ET3].
  rewrite <- !app_assoc. cbn [app] in ET3, Hmid.
  destruct kind; cbn [GenMM.get_statement_type is_floating is_essential is_axiomatic is_provable];
    match goal with |- context [atoms [W ?s]] => change (atoms [W s]) with [ALit s] end;
    cbn [app group flush]; rewrite ET3; cbn [group flush lits_only app];
    change (group [] T3) with (group [] (ASp :: T3)); rewrite <- ET3, Hmid; rewrite <- ?app_assoc; reflexivity.
Qed.

(** C17, tie by translation: the functions GENERATED from the current Python source (coq/Gen/MMPrintSlice.v,
    translators/mm_print_slice.py) agree with the hand-written model the C17 theorems are about.
    Printer: [norm (GenMM.encode_database false db) = print_db db] (for non-empty labels).
    Slicer: [GenMM.slice_database = slice_database sguards_fixed]. *)
From Coq Require Import String Ascii List Bool Arith Lia.
From Pi2 Require Import MM17.Ast MM17.Print MM17.Parse MM17.Wf MM17.Slice MM17.SliceSpec MM17.GenLib
     MM17.ParsePrintProofs MM17.SliceProofs MM17.Verify MM17.VerifySpec MM17.SliceVerifyProofs Gen.MMPrintSlice.
Import ListNotations.
Open Scope string_scope.

(* ================================================================== printer *)
Definition atoms (ps : list piece) : list atom := flat_map piece_atoms ps.

Lemma atoms_app a b : atoms (a ++ b) = (atoms a ++ atoms b)%list.
Proof. apply flat_map_app. Qed.

(** a printed unit followed by a blank yields its tokens *)
Definition unit_ok (ps : list piece) (ts : list tok) : Prop :=
  forall rest, group [] (atoms ps ++ ASp :: rest) = (ts ++ group [] rest)%list.

Lemma group_vals : forall cs a0 r,
  group [a0] (flat_map (fun c => [ASp; AVal c]) cs ++ ASp :: r) = (flush [a0] ++ map TS cs ++ group [] r)%list.
Proof.
  induction cs as [|c cs IH]; intros a0 r.
  - reflexivity.
  - cbn [flat_map app group]. rewrite (IH (AVal c) r). reflexivity.
Qed.

Lemma group_units {A} (enc : A -> list piece) (tk : A -> list tok) : forall l rest,
  Forall (fun a => unit_ok (enc a) (tk a)) l ->
  group [] (flat_map (fun a => ASp :: atoms (enc a)) l ++ ASp :: rest) = (flat_map tk l ++ group [] rest)%list.
Proof.
  induction l as [|a l IH]; intros rest F; [reflexivity|].
  inversion F as [|? ? Ha Fl]; subst. cbn [flat_map app group flush]. rewrite <- app_assoc.
  assert (Htail : exists T', (flat_map (fun a0 => ASp :: atoms (enc a0)) l ++ ASp :: rest)%list = ASp :: T').
  { destruct l; cbn; eauto. }
  destruct Htail as [T' ET]. pose proof (IH rest Fl) as H. rewrite ET in *. rewrite (Ha T').
  rewrite <- app_assoc. f_equal. exact H.
Qed.

Lemma proof_atoms_cons : forall pf x rest,
  group [] (proof_atoms (x :: pf) ++ ASp :: rest) = (TS x :: map TS pf ++ group [] rest)%list.
Proof.
  induction pf as [|y l IH]; intros x rest; [reflexivity|].
  change (proof_atoms (x :: y :: l)) with (AVal x :: ASp :: proof_atoms (y :: l)).
  cbn [app group flush]. rewrite (IH y rest). reflexivity.
Qed.

Lemma proof_atoms_ok pf rest : group [] (proof_atoms pf ++ ASp :: rest) = (map TS pf ++ group [] rest)%list.
Proof. destruct pf as [|x pf]; [reflexivity|apply proof_atoms_cons]. Qed.

Lemma term_atoms_sp args :
  atoms (flat_map (fun v_subterm => [W " "] ++ GenMM.encode_term v_subterm) args)%list
  = flat_map (fun a => ASp :: atoms (GenMM.encode_term a)) args.
Proof.
  induction args as [|a args IH]; [reflexivity|]. cbn [flat_map]. rewrite atoms_app, IH. reflexivity.
Qed.

Lemma map_TS_pts l : flat_map (fun t => map TS (pt t)) l = map TS (pts l).
Proof. unfold pts. induction l as [|a l IH]; [reflexivity|]. cbn [flat_map]. now rewrite map_app, IH. Qed.

Lemma encode_term_ok t : unit_ok (GenMM.encode_term t) (map TS (pt t)).
Proof.
  induction t as [x|c args IH] using term_ind2; intros rest.
  - reflexivity.
  - destruct args as [|a args]; [reflexivity|].
    cbn [GenMM.encode_term List.length Nat.eqb]. rewrite !atoms_app, term_atoms_sp.
    change (atoms [W "( "]) with [ALit "("; ASp]. change (atoms [T c]) with [AVal c]. change (atoms [W " )"]) with [ASp; ALit ")"].
    rewrite <- !app_assoc. cbn [app group flush lits_only].
    remember (a :: args) as l eqn:El.
    assert (E1 : forall X, group [AVal c] (flat_map (fun a0 => ASp :: atoms (GenMM.encode_term a0)) l ++ X)
                         = TS c :: group [] (flat_map (fun a0 => ASp :: atoms (GenMM.encode_term a0)) l ++ X)).
    { intros X. rewrite El. reflexivity. }
    rewrite E1. rewrite (group_units GenMM.encode_term (fun t => map TS (pt t)) l (ALit ")" :: ASp :: rest) IH).
    rewrite El. cbn [pt]. fold (pts (a :: args)). cbn [group flush lits_only app].
    rewrite map_TS_pts. cbn [map]. rewrite map_app. cbn [map app].
    change (classify ("(" ++ "")) with (TS LP). change (classify (")" ++ "")) with (TS RP).
    rewrite <- app_assoc. reflexivity.
Qed.

Lemma vals_atoms cs :
  atoms (flat_map (fun v_c => [W " "] ++ [T v_c]) cs)%list = flat_map (fun c => [ASp; AVal c]) cs.
Proof. induction cs as [|c cs IH]; [reflexivity|]. cbn [flat_map]. rewrite atoms_app, IH. reflexivity. Qed.

Lemma group_sp_head buf T : group buf (ASp :: T) = (flush buf ++ group [] (ASp :: T))%list.
Proof. reflexivity. Qed.

Lemma units_head {A} (f : A -> list atom) l rest :
  exists T', (flat_map (fun a => ASp :: f a) l ++ ASp :: rest)%list = ASp :: T'.
Proof. destruct l; cbn; eauto. Qed.

Definition labels_ok (db : database) : Prop := forall l, In l (flat_map stmt_labels db) -> l <> "".

Lemma structured_ok kind label terms proof :
  label <> "" ->
  unit_ok (GenMM.postvisit_structured_statement false kind label terms proof)
          (TS label :: match kind with KindF => KF | KindE => KE | KindA => KA | KindP => KP end
             :: map TS (pts terms) ++
             (match kind with KindP => KEq :: map TS (proof_toks proof) | _ => [] end) ++ [KDot])%list.
Proof.
  intros Hl rest. unfold GenMM.postvisit_structured_statement.
  replace (nonempty_str label) with true by (destruct label; [congruence|reflexivity]).
  rewrite !atoms_app, term_atoms_sp.
  change (atoms [T label]) with [AVal label]. change (atoms [W " "]) with [ASp]. change (atoms [W "$"]) with [ALit "$"].
  change (atoms [W " $."]) with [ASp; ALit "$."].
  set (tailp := atoms (if is_provable kind
                       then match proof with
                            | Some proof_value => if false then [W " $= <omitted>"] else ([W " $= "] ++ [PF proof_value])%list
                            | None => [W " $= ?"]
                            end else [])).
  assert (Htail : forall r, group [] (tailp ++ [ASp; ALit "$."] ++ ASp :: r)
                          = ((match kind with KindP => KEq :: map TS (proof_toks proof) | _ => [] end) ++ KDot :: group [] r)%list
                            /\ exists T', (tailp ++ [ASp; ALit "$."] ++ ASp :: r)%list = ASp :: T').
  { intros r. unfold tailp. destruct kind; cbn [is_provable]; try (split; [reflexivity|eexists; reflexivity]).
    destruct proof as [pf|]; [|split; [reflexivity|eexists; reflexivity]].
    rewrite atoms_app. change (atoms [W " $= "]) with [ASp; ALit "$="; ASp]. change (atoms [PF pf]) with (proof_atoms pf ++ [])%list. rewrite app_nil_r.
    split; [|eexists; reflexivity]. rewrite <- !app_assoc. cbn [app group flush lits_only].
    change (classify ("$=" ++ "")) with KEq. cbn [app proof_toks].
    change (proof_atoms pf ++ ASp :: ALit "$." :: ASp :: r)%list with (proof_atoms pf ++ ASp :: (ALit "$." :: ASp :: r))%list.
    rewrite proof_atoms_ok. reflexivity. }
  destruct (Htail rest) as [Ht [T' ET]]. clearbody tailp.
  destruct (units_head (fun a => atoms (GenMM.encode_term a)) terms T') as [T2 ET2].
  assert (Hmid : group [] (flat_map (fun a => ASp :: atoms (GenMM.encode_term a)) terms ++ tailp ++ [ASp; ALit "$."] ++ ASp :: rest)
                 = (map TS (pts terms) ++ (match kind with KindP => KEq :: map TS (proof_toks proof) | _ => [] end)
                      ++ KDot :: group [] rest)%list).
  { rewrite ET. rewrite (group_units GenMM.encode_term (fun t => map TS (pt t)) terms T' (proj2 (Forall_forall _ _) (fun t _ => encode_term_ok t))).
    rewrite map_TS_pts. f_equal. change (group [] T') with (group [] (ASp :: T')). rewrite <- ET. exact Ht. }
  assert (Hhead : exists T3, (flat_map (fun a => ASp :: atoms (GenMM.encode_term a)) terms ++ tailp ++ [ASp; ALit "$."] ++ ASp :: rest)%list = ASp :: T3).
  { rewrite ET. exact (units_head _ terms T'). }
  destruct Hhead as [T3 ET3].
  rewrite <- !app_assoc. cbn [app] in ET3, Hmid.
  destruct kind; cbn [GenMM.get_statement_type is_floating is_essential is_axiomatic is_provable];
    match goal with |- context [atoms [W ?s]] => change (atoms [W s]) with [ALit s] end;
    cbn [app group flush]; rewrite ET3; cbn [group flush lits_only app];
    change (group [] T3) with (group [] (ASp :: T3)); rewrite <- ET3, Hmid; cbn [app]; repeat rewrite <- app_assoc; cbn [app]; repeat rewrite <- app_assoc; cbn [app]; reflexivity.
Qed.

Lemma kw_vals_ok kw k cs : classify (kw ++ "") = k -> lit_atoms "" kw = [ALit kw] ->
  unit_ok ([W kw] ++ flat_map (fun v_c => [W " "] ++ [T v_c]) cs ++ [W " $."])%list (k :: map TS cs ++ [KDot])%list.
Proof.
  intros Hk Hkw rest. rewrite !atoms_app, vals_atoms.
  change (atoms [W kw]) with (lit_atoms "" kw ++ [])%list. rewrite Hkw.
  change (atoms [W " $."]) with [ASp; ALit "$."]. rewrite <- !app_assoc. cbn [app group].
  change ([ASp; ALit "$."] ++ ASp :: rest)%list with (ASp :: (ALit "$." :: ASp :: rest)).
  rewrite group_vals. cbn [flush lits_only group app]. rewrite Hk.
  change (classify ("$." ++ "")) with KDot. rewrite <- app_assoc. reflexivity.
Qed.

Lemma flat_mapi_atoms (X : stmt -> list piece) (sep : nat -> list piece) : (forall i, atoms (sep i) = [ASp]) -> forall l i,
  atoms (flat_mapi_from (fun v_i v_stmt => (X v_stmt ++ sep v_i)%list) i l)
  = flat_map (fun st => atoms (X st) ++ [ASp])%list l.
Proof.
  intros Hs. induction l as [|a l IH]; intros i; [reflexivity|]. cbn [flat_mapi_from flat_map].
  rewrite !atoms_app, IH, Hs. reflexivity.
Qed.

Lemma group_stmts (enc : stmt -> list piece) (tk : stmt -> list tok) : forall l tail,
  Forall (fun a => unit_ok (enc a) (tk a)) l ->
  group [] (flat_map (fun st => atoms (enc st) ++ [ASp])%list l ++ tail) = (flat_map tk l ++ group [] tail)%list.
Proof.
  induction l as [|a l IH]; intros tail F; [reflexivity|]. inversion F as [|? ? Ha Fl]; subst.
  cbn [flat_map]. rewrite <- !app_assoc. cbn [app]. rewrite (Ha _), (IH tail Fl). reflexivity.
Qed.

Lemma encode_stmt_ok s : (forall x, In x (stmt_labels s) -> x <> "") ->
  unit_ok (GenMM.encode_stmt false s) (print_stmt s).
Proof.
  induction s as [cs|vs|vs|l ty v|l ts|l ts|l ts pf|ss IH] using stmt_ind2; intros HL.
  - apply (kw_vals_ok "$c" KC cs); reflexivity.
  - apply (kw_vals_ok "$v" KV vs); reflexivity.
  - apply (kw_vals_ok "$d" KD vs); reflexivity.
  - intros rest. cbn [GenMM.encode_stmt]. rewrite (structured_ok KindF l _ None (HL l (or_introl eq_refl)) rest). reflexivity.
  - intros rest. cbn [GenMM.encode_stmt]. rewrite (structured_ok KindE l _ None (HL l (or_introl eq_refl)) rest).
    cbn [print_stmt app]. now rewrite <- app_assoc.
  - intros rest. cbn [GenMM.encode_stmt]. rewrite (structured_ok KindA l _ None (HL l (or_introl eq_refl)) rest).
    cbn [print_stmt app]. now rewrite <- app_assoc.
  - intros rest. cbn [GenMM.encode_stmt]. rewrite (structured_ok KindP l _ pf (HL l (or_introl eq_refl)) rest).
    cbn [print_stmt app]. rewrite <- !app_assoc. cbn [app]. rewrite <- !app_assoc. reflexivity.
  - intros rest. cbn [GenMM.encode_stmt]. cbv zeta. rewrite !atoms_app. unfold flat_mapi.
    rewrite flat_mapi_atoms by (intros i; match goal with |- context [if ?c then _ else _] => destruct c end; reflexivity).
    change (atoms [W "${ "]) with [ALit "${"; ASp]. change (atoms [W "$}"]) with [ALit "$}"].
    rewrite <- !app_assoc. cbn [app group flush lits_only]. change (classify ("${" ++ "")) with KOpen.
    rewrite (group_stmts (GenMM.encode_stmt false) print_stmt ss).
    + cbn [group flush lits_only app print_stmt]. change (classify ("$}" ++ "")) with KClose.
      rewrite <- app_assoc. reflexivity.
    + rewrite Forall_forall in *. intros s Hs. apply (IH s Hs). intros x Hx. apply HL. cbn [stmt_labels]. apply in_flat_map. eauto.
Qed.

Theorem gen_encode_database_agrees db : labels_ok db -> norm (GenMM.encode_database false db) = print_db db.
Proof.
  intros HL. unfold norm, GenMM.encode_database, print_db, print_stmts. fold (atoms (flat_map (fun v_stmt => (GenMM.encode_stmt false v_stmt ++ [W nl])%list) db)).
  assert (E : atoms (flat_map (fun v_stmt => (GenMM.encode_stmt false v_stmt ++ [W nl])%list) db)
              = flat_map (fun st => atoms (GenMM.encode_stmt false st) ++ [ASp])%list db).
  { clear. induction db as [|a db IH]; [reflexivity|]. cbn [flat_map]. rewrite !atoms_app, IH. reflexivity. }
  rewrite E. rewrite <- (app_nil_r (flat_map _ db)). rewrite (group_stmts (GenMM.encode_stmt false) print_stmt db []).
  - cbn [group flush]. now rewrite app_nil_r.
  - apply Forall_forall. intros s Hs. apply encode_stmt_ok. intros x Hx. apply HL. apply in_flat_map. eauto.
Qed.

(* ================================================================== slicer *)
From Coq Require Import OrderedTypeEx.

(** [sorted(set)] is canonical: it only depends on the set *)
Fixpoint ssorted (l : list string) : Prop :=
  match l with
  | [] => True
  | a :: r => (match r with [] => True | b :: _ => String.compare a b = Lt end) /\ ssorted r
  end.

Lemma cmp_trans a b c : String.compare a b = Lt -> String.compare b c = Lt -> String.compare a c = Lt.
Proof.
  intros H1 H2. apply String_as_OT.cmp_lt. apply String_as_OT.cmp_lt in H1, H2. exact (String_as_OT.lt_trans _ _ _ H1 H2).
Qed.

Lemma cmp_gt_lt a b : String.compare a b = Gt -> String.compare b a = Lt.
Proof.
  intros H. pose proof (String_as_OT.cmp_antisym b a) as A. unfold String_as_OT.cmp in A. rewrite A, H. reflexivity.
Qed.

Lemma cmp_refl a : String.compare a a = Eq.
Proof. apply String_as_OT.cmp_eq. reflexivity. Qed.

Lemma ssorted_head_lt a l : ssorted (a :: l) -> forall x, In x l -> String.compare a x = Lt.
Proof.
  revert a. induction l as [|b l IH]; intros a [H1 H2] x Hx; [destruct Hx|].
  destruct Hx as [<-|Hx]; [exact H1|]. apply (cmp_trans a b x H1). now apply IH.
Qed.

Lemma insert_uniq_sorted x l : ssorted l -> ssorted (insert_uniq x l).
Proof.
  induction l as [|y l IH]; intros S; [cbn; auto|]. cbn [insert_uniq].
  destruct (String.compare x y) eqn:E.
  - exact S.
  - cbn [ssorted]. split; [exact E|exact S].
  - destruct S as [S1 S2]. specialize (IH S2). cbn [ssorted]. split; [|exact IH].
    destruct l as [|z l]; cbn [insert_uniq].
    + now apply cmp_gt_lt.
    + destruct (String.compare x z) eqn:E2; [exact S1|now apply cmp_gt_lt|exact S1].
Qed.

Lemma sort_uniq_sorted l : ssorted (sort_uniq l).
Proof. induction l as [|x l IH]; [exact I|]. cbn [sort_uniq fold_right]. now apply insert_uniq_sorted. Qed.

Lemma ssorted_ext : forall l1 l2, ssorted l1 -> ssorted l2 -> (forall x, In x l1 <-> In x l2) -> l1 = l2.
Proof.
  induction l1 as [|a l1 IH]; intros l2 S1 S2 H.
  - destruct l2 as [|b l2]; [reflexivity|]. exfalso. apply (H b). now left.
  - destruct l2 as [|b l2]; [exfalso; apply (H a); now left|].
    assert (Hab : a = b).
    { destruct (proj1 (H a) (or_introl eq_refl)) as [E|Ha]; [now symmetry|].
      destruct (proj2 (H b) (or_introl eq_refl)) as [E|Hb]; [assumption|].
      pose proof (ssorted_head_lt b l2 S2 a Ha) as L1. pose proof (ssorted_head_lt a l1 S1 b Hb) as L2.
      pose proof (cmp_trans _ _ _ L1 L2) as L3. rewrite cmp_refl in L3. discriminate. }
    subst b. f_equal. apply IH; [apply S1|apply S2|].
    intros x. split; intros Hx.
    + destruct (proj1 (H x) (or_intror Hx)) as [E|Hx']; [|exact Hx'].
      subst x. pose proof (ssorted_head_lt a l1 S1 a Hx) as L. rewrite cmp_refl in L. discriminate.
    + destruct (proj2 (H x) (or_intror Hx)) as [E|Hx']; [|exact Hx'].
      subst x. pose proof (ssorted_head_lt a l2 S2 a Hx) as L. rewrite cmp_refl in L. discriminate.
Qed.

Lemma sort_uniq_ext l1 l2 : (forall x, In x l1 <-> In x l2) -> sort_uniq l1 = sort_uniq l2.
Proof.
  intros H. apply ssorted_ext; try apply sort_uniq_sorted. intros x. rewrite !sort_uniq_In. apply H.
Qed.

Lemma gen_construct_axiom ants c :
  GenMM.construct_axiom ants c = construct_axiom ants (st_label c) (st_terms c).
Proof. unfold GenMM.construct_axiom, construct_axiom. cbv zeta. destruct ants; reflexivity. Qed.

Lemma is_SD_SE_b s : is_SD_SE s = (is_SD_b s || is_SE_b s).
Proof. destruct s; reflexivity. Qed.

(** [deconstruct_provable], under the condition of its only call site ([match_axiom] returned None) *)
Lemma rev_case {A} (l : list A) : l = [] \/ exists x l', l = (l' ++ [x])%list.
Proof. destruct (rev l) as [|x r] eqn:E.
  - left. rewrite <- (rev_involutive l), E. reflexivity.
  - right. exists x, (rev r). rewrite <- (rev_involutive l), E. reflexivity.
Qed.

Lemma forallb_ext' {A} (f g : A -> bool) l : (forall x, f x = g x) -> forallb f l = forallb g l.
Proof. intros H. induction l as [|a l IH]; [reflexivity|]. cbn. now rewrite H, IH. Qed.

Lemma gen_deconstruct_provable st : match_axiom st = MNone ->
  GenMM.deconstruct_provable st =
  match deconstruct_provable st with Some (ants, l, ts, pf) => Some (ants, SP l ts pf) | None => None end.
Proof.
  intros HM. unfold GenMM.deconstruct_provable. cbv zeta. cbn [fst snd]. destruct st; try reflexivity.
  cbn [is_SP_b is_SB_b sb_stmts]. rewrite HM. cbn [maxiom_is_none oassert deconstruct_provable].
  destruct (rev_case ss) as [->|[x [ss' ->]]]; [reflexivity|].
  rewrite rev_app_distr, removelast_last. unfold py_last. rewrite last_last. cbn [rev app].
  rewrite (forallb_rev is_SD_SE ss'), rev_involutive.
  replace (forallb (fun v_substatement => is_SD_b v_substatement || is_SE_b v_substatement) ss') with (forallb is_SD_SE ss')
    by (apply forallb_ext'; intros s; apply is_SD_SE_b).
  destruct x; cbn [is_SP_b oassert]; try (destruct (forallb is_SD_SE ss'); reflexivity).
Qed.

Lemma pfn_map {A B} (f : A -> option B) l :
  py_filter_none (map f l) = flat_map (fun x => match f x with Some y => [y] | None => [] end) l.
Proof. induction l as [|a l IH]; [reflexivity|]. cbn [map py_filter_none flat_map]. destruct (f a); cbn; now rewrite IH. Qed.

(** the generated `corresponding_sugar_axiom` (whatever its let/beta shape) agrees with [sugar_of] *)
Ltac solve_sugar cut :=
  let a := fresh "a" in
  intros a; cbv beta; unfold sugar_of, sugar_label, py_removesuffix, py_endswith, py_drop_last, dict_has;
  change (String.length "is-pattern") with 10;
  destruct (Nat.leb 10 (String.length a) && String.eqb (String.substring (String.length a - 10) 10 a) "is-pattern")%bool;
  [|reflexivity];
  repeat match goal with
         | |- context [match dict_get ?k cut with _ => _ end] => destruct (dict_get k cut)
         end; reflexivity.

Lemma ofold_app {A B} (f : list B -> A -> option (list B)) (g : A -> list B) :
  (forall s a, f s a = Some (s ++ g a)%list) -> forall l s, ofold_left f l s = Some (s ++ flat_map g l)%list.
Proof.
  intros H. induction l as [|a l IH]; intros s; cbn [ofold_left flat_map]; [now rewrite app_nil_r|].
  rewrite H, IH. now rewrite app_assoc.
Qed.

Lemma gen_term_get_metavariables t : GenMM.term_get_metavariables t = term_mvs t.
Proof.
  induction t as [x|c args IH] using term_ind2; [reflexivity|]. cbn [GenMM.term_get_metavariables term_mvs].
  induction args as [|a args IHa]; [reflexivity|]. inversion IH as [|? ? Ha Hr]; subst. cbn [flat_map]. now rewrite Ha, (IHa Hr).
Qed.

Lemma gen_terms_mvs ts : flat_map (fun v_term => GenMM.term_get_metavariables v_term) ts = flat_map term_mvs ts.
Proof. apply flat_map_ext. intros a. apply gen_term_get_metavariables. Qed.

Lemma gen_get_metavariables s : GenMM.get_metavariables s = stmt_mvs s.
Proof.
  induction s as [cs|vs|vs|l ty v|l ts|l ts|l ts pf|ss IH] using stmt_ind2; cbn [GenMM.get_metavariables stmt_mvs];
    try reflexivity; try apply gen_terms_mvs.
  - unfold mv_name. apply map_id.
  - induction ss as [|a ss IHs]; [reflexivity|]. inversion IH as [|? ? Ha Hr]; subst. cbn [flat_map]. now rewrite Ha, (IHs Hr).
Qed.

Definition CF (l : list stmt) : list string :=
  flat_map (fun x => match stmt_consts x with Some c => (builtins ++ c ++ [])%list | None => [] end) l.

Lemma ofold_consts : forall l c0 m0,
  ofold_left (fun '(c, m) x => obind (statements_get_constants [x]) (fun t => Some ((c ++ t)%list, (m ++ GenMM.get_metavariables x)%list)))
             l (c0, m0)
  = match stmts_consts l with Some _ => Some ((c0 ++ CF l)%list, (m0 ++ flat_map stmt_mvs l)%list) | None => None end.
Proof.
  induction l as [|x l IH]; intros c0 m0.
  - cbn. now rewrite !app_nil_r.
  - cbn [ofold_left stmts_consts]. unfold statements_get_constants at 1. cbn [stmts_consts].
    destruct (stmt_consts x) as [c|] eqn:Ex; [|reflexivity]. cbn [obind]. rewrite IH.
    destruct (stmts_consts l) as [cs|]; [|reflexivity]. unfold CF. rewrite gen_get_metavariables. cbn [flat_map]. rewrite Ex.
    now rewrite <- !app_assoc.
Qed.

Lemma CF_In l cs : stmts_consts l = Some cs -> forall y, In y (CF l) <-> (l <> [] /\ In y builtins) \/ In y cs.
Proof.
  revert cs. induction l as [|x l IH]; intros cs H y.
  - cbn in H. injection H as <-. cbn. intuition congruence.
  - cbn [stmts_consts] in H. destruct (stmt_consts x) as [c|] eqn:Ex; [|discriminate].
    destruct (stmts_consts l) as [cl|] eqn:El; [|discriminate]. injection H as <-.
    unfold CF in *. cbn [flat_map]. rewrite Ex. rewrite !in_app_iff, (IH cl eq_refl y). cbn [In].
    split.
    + intros [[Hb|[Hc|[]]]|[[_ Hb]|Hc]]; [left; split; [discriminate|exact Hb]|right; now left|left; split; [discriminate|exact Hb]|right; now right].
    + intros [[_ Hb]|[Hc|Hc]]; [left; now left|left; right; now left|right; now right].
Qed.

Lemma keep_step n2 Mu M kept name st : (forall x, mem x Mu = mem x M) ->
  obind (if is_SD_b st then
           obind (if Nat.leb 2 (List.length (filter (fun var => mem (mv_name var) Mu) (sd_vars st)))
                  then Some (kept ++ [SD (filter (fun var => mem (mv_name var) Mu) (sd_vars st))])%list else Some kept)
                 (fun k => Some k)
         else if okey_in name n2 || is_SE_b st || (is_SF_b st && mem (sf_var st) Mu) then Some (kept ++ [st])%list else Some kept)
        (fun k => Some k)
  = Some (kept ++ keep_entry sguards_fixed n2 M (name, st))%list.
Proof.
  intros HM. unfold keep_entry. cbn [fst snd].
  assert (HF : forall vs, filter (fun var => mem (mv_name var) Mu) vs = filter (fun v => mem v M) vs).
  { intros vs. apply filter_ext. intros a. apply HM. }
  destruct st; cbn [is_SD_b is_SE_b is_SF_b sd_vars sf_var andb orb];
    try (rewrite ?orb_false_r, ?orb_true_r; unfold okey_in, key_in; destruct name; try destruct (mem _ n2); cbn; rewrite ?app_nil_r; reflexivity).
  - rewrite HF. destruct (Nat.leb 2 _); cbn; rewrite ?app_nil_r; reflexivity.
  - rewrite orb_false_r, HM. unfold okey_in, key_in. destruct name; [destruct (mem s n2)|]; cbn; destruct (mem v M); cbn; rewrite ?app_nil_r; reflexivity.
Qed.

Lemma sort_uniq_nil l : sort_uniq l = [] -> l = [].
Proof. destruct l; [reflexivity|]. intros H. exfalso. revert H. apply sort_uniq_nonnil. discriminate. Qed.

Lemma gen_supporting cut sd l ts pf ess :
  GenMM.supporting_database_for_provable cut sd (SP l ts pf) ess = supporting sguards_fixed cut [] sd l ts pf ess.
Proof.
  unfold GenMM.supporting_database_for_provable, supporting. cbv beta zeta.
  unfold deconstruct_compressed_proof.
  destruct (proof_labels pf) as [labels|]; [|reflexivity]. cbn [obind fst snd]. cbv beta iota zeta. cbn [fst snd].
  match goal with |- context [py_filter_none (map ?f labels)] =>
    replace (py_filter_none (map f labels)) with (flat_map (sugar_of cut) labels)
      by (symmetry; rewrite pfn_map; apply flat_map_ext; solve_sugar cut) end.
  set (n1 := (labels ++ flat_map (sugar_of cut) labels)%list).
  try (rewrite (ofold_app _ (fun a => assoc_default a sd)) by reflexivity; cbn [obind]). unfold assoc_default.
  set (n2 := (n1 ++ flat_map (fun a => match assoc_get a sd with Some v => v | None => [] end) n1)%list).
  destruct (map_opt (fun x => dict_get x cut) n2) as [nst|]; [|reflexivity]. cbn [obind].
  rewrite ofold_consts.
  change ([SP l ts pf] ++ ess ++ filter (fun v_stmt => is_SE_b v_stmt) (dict_values cut) ++ nst)%list
    with (SP l ts pf :: ess ++ filter is_SE (map snd cut) ++ nst)%list.
  set (all := (SP l ts pf :: ess ++ filter is_SE (map snd cut) ++ nst)%list).
  destruct (stmts_consts all) as [cs|] eqn:ECS; [|reflexivity]. cbn [obind app].
  set (Mu := flat_map stmt_mvs all). set (M := sort_uniq Mu).
  assert (HM : forall x, mem x Mu = mem x M).
  { intros x. unfold M. destruct (mem x Mu) eqn:E1, (mem x (sort_uniq Mu)) eqn:E2; try reflexivity.
    - apply mem_In in E1. apply (proj2 (sort_uniq_In x Mu)) in E1. apply mem_In in E1. congruence.
    - apply mem_In in E2. apply (proj1 (sort_uniq_In x Mu)) in E2. apply mem_In in E2. congruence. }
  rewrite (ofold_app _ (keep_entry sguards_fixed n2 M)) by (intros s [name st]; apply keep_step; exact HM).
  cbn [obind app g_float_consts sguards_fixed]. unfold dict_items.
  set (kept := flat_map (keep_entry sguards_fixed n2 M) cut).
  unfold statements_get_constants. destruct (stmts_consts kept) as [cs2|]; [|reflexivity]. cbn [obind].
  assert (ESC : py_sorted (CF all ++ builtins ++ cs2) = sort_uniq (builtins ++ cs ++ cs2)).
  { unfold py_sorted. apply sort_uniq_ext. intros x. rewrite !in_app_iff, (CF_In all cs ECS x).
    split.
    - intros [[[_ H]|H]|[H|H]]; auto.
    - intros [H|[H|H]]; auto. }
  rewrite ESC. cbn [filter map app].
  destruct Mu as [|m0 Mu'] eqn:EMu.
  - cbn [nonnil is_nil negb obind app]. repeat rewrite <- app_assoc. cbn [app]. reflexivity.
  - assert (HMne : M <> []) by (intros H0; apply sort_uniq_nil in H0; discriminate).
    cbn [nonnil is_nil negb obind app]. unfold py_sorted, mk_mv. rewrite map_id. fold M.
    destruct M as [|m1 M'] eqn:EM; [congruence|]. repeat rewrite <- app_assoc. cbn [app]. reflexivity.
Qed.

Lemma let_pair_id {A B} (x : A * B) : (let (r, c) := x in (r, c)) = x.
Proof. now destruct x. Qed.

Lemma gen_loop_ext {S A Y} (f g : S -> A -> option (S * list Y)) : (forall s a, f s a = g s a) ->
  forall l s, gen_loop f l s = gen_loop g l s.
Proof. intros H. induction l as [|a l IH]; intros s; [reflexivity|]. cbn [gen_loop]. rewrite H. destruct (g s a) as [[s' ys]|]; [now rewrite IH|reflexivity]. Qed.

(** one iteration of the loop of [slice_database], as the model sees it *)
Definition step_spec (sd : list (string * list string)) (incl_ excl_ : list string) (cn : dict * nat) (st : stmt)
  : option ((dict * nat) * list (string * database)) :=
  let (cut, n) := cn in
  match st with
  | SC _ | SV _ => Some ((cut, n), [])
  | SD _ => Some ((dict_add_anon st cut, n + 1), [])
  | SF l _ _ | SE l _ => Some ((dict_set l st cut, n), [])
  | _ => match match_axiom st with
         | MCrash => None
         | MAx k => Some ((dict_set k st cut, n), [])
         | MNone =>
             match deconstruct_provable st with
             | None => None
             | Some (ants, l, ts, pf) =>
                 if mem l incl_ && negb (mem l excl_) then
                   match supporting sguards_fixed cut [] sd l ts pf ants with
                   | None => None
                   | Some s => Some ((dict_set l (construct_axiom ants l ts) cut, n), [(l, s)])
                   end
                 else Some ((dict_set l (construct_axiom ants l ts) cut, n), [])
             end
         end
  end.

Lemma step_spec_loop sd incl_ excl_ : forall stmts cut n,
  gen_loop (step_spec sd incl_ excl_) stmts (cut, n) = slice_loop sguards_fixed sd incl_ excl_ stmts cut [].
Proof.
  induction stmts as [|st rest IH]; intros cut n; [reflexivity|].
  cbn [gen_loop slice_loop]. unfold step_spec at 1.
  destruct st as [cs|vs|vs|l ty v|l ts|l ts|l ts pf|ss]; cbn [g_d_in_place g_top_essential sguards_fixed];
    try (rewrite IH; cbn [app]; apply let_pair_id).
  - destruct (match_axiom (SA l ts)) as [| |k]; [reflexivity| |rewrite IH; apply let_pair_id].
    destruct (deconstruct_provable (SA l ts)) as [[[[ants l0] ts0] pf0]|]; [|reflexivity]. cbv zeta.
    destruct (mem l0 incl_ && negb (mem l0 excl_)); [|rewrite IH; apply let_pair_id].
    destruct (supporting _ _ _ _ _ _ _ _); [rewrite IH; reflexivity|reflexivity].
  - destruct (match_axiom (SP l ts pf)) as [| |k]; [reflexivity| |rewrite IH; apply let_pair_id].
    destruct (deconstruct_provable (SP l ts pf)) as [[[[ants l0] ts0] pf0]|]; [|reflexivity]. cbv zeta.
    destruct (mem l0 incl_ && negb (mem l0 excl_)); [|rewrite IH; apply let_pair_id].
    destruct (supporting _ _ _ _ _ _ _ _); [rewrite IH; reflexivity|reflexivity].
  - destruct (match_axiom (SB ss)) as [| |k]; [reflexivity| |rewrite IH; apply let_pair_id].
    destruct (deconstruct_provable (SB ss)) as [[[[ants l0] ts0] pf0]|]; [|reflexivity]. cbv zeta.
    destruct (mem l0 incl_ && negb (mem l0 excl_)); [|rewrite IH; apply let_pair_id].
    destruct (supporting _ _ _ _ _ _ _ _); [rewrite IH; reflexivity|reflexivity].
Qed.

Theorem gen_slice_database_agrees db sd incl_ excl_ :
  GenMM.slice_database db sd incl_ excl_ = slice_database sguards_fixed db sd incl_ excl_.
Proof.
  unfold GenMM.slice_database, slice_database. rewrite <- (step_spec_loop sd incl_ excl_ db [] 0).
  apply gen_loop_ext. intros [cut n] st. unfold step_spec. cbv zeta.
  assert (Hsup : forall ants l ts pf,
            GenMM.supporting_database_for_provable cut sd (SP l ts pf) ants = supporting sguards_fixed cut [] sd l ts pf ants)
    by (intros; apply gen_supporting).
  destruct st as [cs|vs|vs|l ty v|l ts|l ts|l ts pf|ss]; try reflexivity.
  - cbn [is_SC_b is_SV_b is_SD_b is_SF_b is_SE_b is_SP_b is_SB_b orb].
    destruct (match_axiom (SP l ts pf)) as [| |k] eqn:EM; [reflexivity| |reflexivity].
    rewrite (gen_deconstruct_provable _ EM).
    destruct (deconstruct_provable (SP l ts pf)) as [[[[ants l0] ts0] pf0]|]; [|reflexivity].
    cbn [obind st_label st_terms fst snd]. rewrite ?gen_construct_axiom. cbn [st_label st_terms fst snd].
    destruct (mem l0 incl_), (mem l0 excl_); cbn [andb orb negb]; try reflexivity;
      rewrite Hsup; destruct (supporting sguards_fixed cut [] sd l0 ts0 pf0 ants); reflexivity.
  - cbn [is_SC_b is_SV_b is_SD_b is_SF_b is_SE_b is_SP_b is_SB_b orb].
    destruct (match_axiom (SB ss)) as [| |k] eqn:EM; [reflexivity| |reflexivity].
    rewrite (gen_deconstruct_provable _ EM).
    destruct (deconstruct_provable (SB ss)) as [[[[ants l0] ts0] pf0]|]; [|reflexivity].
    cbn [obind st_label st_terms fst snd]. rewrite ?gen_construct_axiom. cbn [st_label st_terms fst snd].
    destruct (mem l0 incl_), (mem l0 excl_); cbn [andb orb negb]; try reflexivity;
      rewrite Hsup; destruct (supporting sguards_fixed cut [] sd l0 ts0 pf0 ants); reflexivity.
Qed.

(* ================================================================== labels of a slice come from the database *)
Lemma entry_labels st kv : In kv (entry st) -> incl (stmt_labels (snd kv)) (stmt_labels st).
Proof.
  destruct st as [cs|vs|vs|l ty v|l ts|l ts|l ts pf|ss]; cbn [entry].
  - intros [].
  - intros [].
  - intros [<-|[]]. apply incl_refl.
  - intros [<-|[]]. apply incl_refl.
  - intros [<-|[]]. apply incl_refl.
  - cbn. intros [<-|[]]. apply incl_refl.
  - cbn. intros [<-|[]]. apply incl_refl.
  - destruct (match_axiom (SB ss)) as [| |k] eqn:EM; [intros []| |intros [<-|[]]; apply incl_refl].
    destruct (deconstruct_provable (SB ss)) as [[[[ants l0] ts0] pf0]|] eqn:ED; [|intros []].
    intros [<-|[]]. destruct (deconstruct_provable_ok _ _ _ _ _ ED) as [_ [[E _]|E]]; [discriminate|].
    injection E as ->. cbn [snd]. unfold construct_axiom. destruct ants as [|a ants].
    + cbn. apply incl_refl.
    + cbn [stmt_labels]. rewrite !flat_map_app. cbn. apply incl_refl.
Qed.

Lemma keep_entry_labels g n2 M kv st : In st (keep_entry g n2 M kv) -> incl (stmt_labels st) (stmt_labels (snd kv)).
Proof.
  unfold keep_entry. destruct kv as [k s0]. cbn [fst snd].
  assert (G : forall b : bool, In st (if b then [s0] else []) -> incl (stmt_labels st) (stmt_labels s0)).
  { intros [|]; [intros [<-|[]]; apply incl_refl|intros []]. }
  destruct s0; try apply G.
  destruct (Nat.leb 2 _); [|intros []]. intros [<-|[]]. intros x [].
Qed.

Lemma slice_labels_ok db sd incl_ excl_ l s :
  unique_labels db -> labels_ok db -> In (l, s) (fst (slice_database sguards_fixed db sd incl_ excl_)) -> labels_ok s.
Proof.
  intros U LO Hin. unfold slice_database in Hin.
  destruct (slice_loop_struct sd incl_ excl_ db [] l s) as (pre & st & post & ants & ts & pf & Edb & Ppre & MA & DP & SU);
    [exact U|exact Hin|]. cbn [app] in SU.
  destruct (supporting_inv _ _ _ _ _ _ _ SU) as (labels & n2 & M & C & _ & _ & _ & _ & _ & _ & _ & _ & _ & Es).
  assert (Hdb : forall x st0, In st0 db -> In x (stmt_labels st0) -> x <> "").
  { intros x st0 H1 H2. apply LO. apply in_flat_map. eauto. }
  intros x Hx. rewrite Es in Hx. cbn [flat_map stmt_labels app] in Hx. rewrite !flat_map_app in Hx.
  apply in_app_or in Hx. destruct Hx as [Hx|Hx].
  { unfold hdr in Hx. destruct M; destruct Hx. }
  apply in_app_or in Hx. destruct Hx as [Hx|Hx].
  - apply in_flat_map in Hx. destruct Hx as [st' [Hst' Hx]]. apply in_flat_map in Hst'. destruct Hst' as [kv [Hkv Hst']].
    apply (keep_entry_labels _ _ _ _ _ Hst') in Hx. apply in_flat_map in Hkv. destruct Hkv as [st0 [Hst0 Hkv]].
    apply (entry_labels _ _ Hkv) in Hx. apply (Hdb x st0); [|exact Hx]. rewrite Edb. apply in_or_app. now left.
  - cbn [flat_map stmt_labels] in Hx. rewrite app_nil_r in Hx.
    apply (Hdb x st); [rewrite Edb; apply in_or_app; right; now left|].
    destruct (deconstruct_provable_ok _ _ _ _ _ DP) as [_ [[-> ->]| ->]]; [exact Hx|exact Hx].
Qed.

(** C17 model, part 3: the parser of parser.py at token level: the grammar ([stmt] alternatives, by
    recursive descent; lark itself is validated by correspondence) and [ASTTransformer]
    (the unscoped metavariable accumulator [self.metavariables], the asserts of [disjoint_stmt] /
    [floating_stmt], and the s-expression-like [parse_term] / [parse_terms]).
    A Python exception (lark error, AssertionError wrapped in VisitError, UnboundLocalError) is [None]. *)
From Coq Require Import String List Bool Arith.
From Pi2 Require Import MM17.Ast.
Import ListNotations.
Open Scope string_scope.

(** [parse_term], branch [first == '(']: the loop over [enumerate(tokens[1:])].
    [split_close d l] scans [l = tokens[1:]] with [num_nested = d]; at the first position where the
    counter reaches 0 it returns (tokens before that position, tokens after it).  [None]: counter never
    reached 0 ([assert num_nested == 0], or [i] unbound for an empty list). *)
Definition step_depth (d : nat) (t : string) : nat :=
  if String.eqb t LP then S d else if String.eqb t RP then pred d else d.

Fixpoint split_close (d : nat) (l : list string) : option (list string * list string) :=
  match l with
  | [] => None
  | t :: l' =>
      let d' := step_depth d t in
      if Nat.eqb d' 0 then Some ([], l')
      else match split_close d' l' with
           | Some (body, rest) => Some (t :: body, rest)
           | None => None
           end
  end.

(** [parse_terms] (with [parse_term] inlined: it is only called from the loop of [parse_terms]).
    [body = tokens[1:i]]; [assert i > 2] is [2 <= length body]; [constant = tokens[1]];
    [subterms = parse_terms(tokens[2:i])]; the rest is [tokens[i+1:]]. *)
Fixpoint parse_terms (fuel : nat) (mvs : list string) (toks : list string) : option (list term) :=
  match fuel with
  | O => None
  | S f =>
      match toks with
      | [] => Some []
      | first :: tl =>
          if String.eqb first LP then
            match split_close 1 tl with
            | Some (c :: ((_ :: _) as argt), rest) =>
                match parse_terms f mvs argt with
                | Some args =>
                    match parse_terms f mvs rest with
                    | Some ts => Some (App c args :: ts)
                    | None => None
                    end
                | None => None
                end
            | _ => None
            end
          else
            let t := if mem first mvs then MV first else App first [] in
            match parse_terms f mvs tl with
            | Some ts => Some (t :: ts)
            | None => None
            end
      end
  end.

Definition parse_terms_top (mvs : list string) (toks : list string) : option (list term) :=
  parse_terms (S (length toks)) mvs toks.

(** maximal run of TOKENs ([token+] / [token*] of the grammar) *)
Fixpoint take_toks (l : list tok) : list string * list tok :=
  match l with
  | TS s :: l' => let (a, r) := take_toks l' in (s :: a, r)
  | _ => ([], l)
  end.

Definition is_nil {A} (l : list A) : bool := match l with [] => true | _ => false end.

(** [stmt*] up to (not including) a closing ["$}"] or the end of input.
    Returns statements, the accumulator afterwards, remaining tokens. *)
Fixpoint parse_stmts (fuel : nat) (mvs : list string) (toks : list tok)
  : option (list stmt * list string * list tok) :=
  match fuel with
  | O => None
  | S f =>
      let continue (s : stmt) (mvs' : list string) (rest : list tok) :=
        match parse_stmts f mvs' rest with
        | Some (ss, m, r) => Some (s :: ss, m, r)
        | None => None
        end in
      match toks with
      | [] => Some ([], mvs, [])
      | KClose :: _ => Some ([], mvs, toks)
      | KC :: tl =>
          match take_toks tl with
          | ((_ :: _) as cs, KDot :: rest) => continue (SC cs) mvs rest
          | _ => None
          end
      | KV :: tl =>
          match take_toks tl with
          | ((_ :: _) as vs, KDot :: rest) => continue (SV vs) (mvs ++ vs)%list rest
          | _ => None
          end
      | KD :: tl =>
          match take_toks tl with
          | ((_ :: _) as vs, KDot :: rest) =>
              if forallb (fun v => mem v mvs) vs then continue (SD vs) mvs rest else None
          | _ => None
          end
      | TS l :: k :: tl =>
          match k with
          | KF =>
              match tl with
              | TS ty :: TS v :: KDot :: rest =>
                  if mem v mvs then continue (SF l ty v) mvs rest else None
              | _ => None
              end
          | KE =>
              match take_toks tl with
              | ((_ :: _) as ws, KDot :: rest) =>
                  match parse_terms_top mvs ws with
                  | Some ts => continue (SE l ts) mvs rest
                  | None => None
                  end
              | _ => None
              end
          | KA =>
              match take_toks tl with
              | ((_ :: _) as ws, KDot :: rest) =>
                  match parse_terms_top mvs ws with
                  | Some ts => continue (SA l ts) mvs rest
                  | None => None
                  end
              | _ => None
              end
          | KP =>
              match take_toks tl with
              | ((_ :: _) as ws, KEq :: tl2) =>
                  match take_toks tl2 with
                  | (pf, KDot :: rest) =>
                      match parse_terms_top mvs ws with
                      | Some ts => continue (SP l ts (Some pf)) mvs rest
                      | None => None
                      end
                  | _ => None
                  end
              | _ => None
              end
          | _ => None
          end
      | KOpen :: tl =>
          match parse_stmts f mvs tl with
          | Some (ss, mvs', KClose :: rest) => continue (SB ss) mvs' rest
          | _ => None
          end
      | _ => None
      end
  end.

(** [parse_database] after lexing *)
Definition parse_db (toks : list tok) : option database :=
  match parse_stmts (S (length toks)) [] toks with
  | Some (ss, _, []) => Some ss
  | _ => None
  end.

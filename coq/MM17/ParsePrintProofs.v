(** C17 proofs: parse ∘ print = id on well-formed databases; print ∘ parse = id on token lists;
    parsed databases are well-formed. *)
From Coq Require Import String List Bool Arith Lia.
From Pi2 Require Import MM17.Ast MM17.Print MM17.Parse MM17.Wf.
Import ListNotations.
Open Scope string_scope.

(* ------------------------------------------------------------------ helpers *)
Lemma go_wf_terms mvs l :
  (fix go (l : list term) : bool := match l with [] => true | a :: l' => wf_term mvs a && go l' end) l
  = wf_terms mvs l.
Proof. induction l as [|a l IH]; simpl; [reflexivity|]. now rewrite IH. Qed.

Lemma go_wf_stmts l : forall m,
  (fix go (m : list string) (l : list stmt) : bool :=
     match l with [] => true | a :: l' => wf_stmt m a && go (m ++ decl a)%list l' end) m l
  = wf_stmts m l.
Proof. induction l as [|a l IH]; intros m; simpl; [reflexivity|]. now rewrite IH. Qed.

Lemma wf_term_app mvs c a args :
  wf_term mvs (App c (a :: args)) = wf_terms mvs (a :: args) && closes (c :: pts (a :: args)).
Proof. cbn [wf_term]. now rewrite go_wf_terms. Qed.

Lemma wf_stmt_block mvs ss : wf_stmt mvs (SB ss) = wf_stmts mvs ss.
Proof. cbn [wf_stmt]. apply go_wf_stmts. Qed.

Lemma pt_nonnil t : pt t <> [].
Proof. destruct t as [x|c [|a args]]; simpl; discriminate. Qed.

Lemma pt_app c a args : pt (App c (a :: args)) = LP :: c :: (pts (a :: args) ++ [RP])%list.
Proof. reflexivity. Qed.

Lemma LP_neq_RP : String.eqb RP LP = false.
Proof. reflexivity. Qed.

(* ------------------------------------------------------------------ the parenthesis scan *)
Lemma step_depth_zero d t : 1 <= d -> step_depth d t = 0 -> t = RP /\ d = 1.
Proof.
  unfold step_depth. intros Hd.
  destruct (String.eqb_spec t LP) as [->|_]; [discriminate|].
  destruct (String.eqb_spec t RP) as [->|_]; intros H; [split; [reflexivity|lia]|lia].
Qed.

Lemma split_close_scan body : forall d rest, 1 <= d ->
  scan d body = Some 1 -> split_close d (body ++ RP :: rest)%list = Some (body, rest).
Proof.
  induction body as [|t body IH]; intros d rest Hd H; simpl in *.
  - injection H as ->. reflexivity.
  - destruct (Nat.eqb (step_depth d t) 0) eqn:E; [discriminate|].
    apply Nat.eqb_neq in E. rewrite (IH (step_depth d t) rest); [reflexivity|lia|exact H].
Qed.

Lemma split_close_inv l : forall d body rest, 1 <= d ->
  split_close d l = Some (body, rest) -> l = (body ++ RP :: rest)%list /\ scan d body = Some 1.
Proof.
  induction l as [|t l IH]; intros d body rest Hd H; simpl in H; [discriminate|].
  destruct (Nat.eqb (step_depth d t) 0) eqn:E.
  - apply Nat.eqb_eq in E. apply step_depth_zero in E; [|exact Hd]. destruct E as [-> ->].
    injection H as <- <-. split; reflexivity.
  - destruct (split_close (step_depth d t) l) as [[b r]|] eqn:E2; [|discriminate].
    injection H as <- <-. apply Nat.eqb_neq in E.
    apply IH in E2; [|lia]. destruct E2 as [-> Hs]. split; [reflexivity|].
    simpl. apply Nat.eqb_neq in E. rewrite E. exact Hs.
Qed.

Lemma split_close_length l : forall d body rest,
  split_close d l = Some (body, rest) -> length l = S (length body + length rest).
Proof.
  induction l as [|t l IH]; intros d body rest H; simpl in H; [discriminate|].
  destruct (Nat.eqb (step_depth d t) 0).
  - injection H as <- <-. reflexivity.
  - destruct (split_close (step_depth d t) l) as [[b r]|] eqn:E2; [|discriminate].
    injection H as <- <-. apply IH in E2. simpl. lia.
Qed.

Lemma closes_scan body : closes body = true <-> scan 1 body = Some 1.
Proof.
  unfold closes. destruct (scan 1 body) as [[|[|n]]|]; split; intros H; try discriminate; try reflexivity.
Qed.

(** plain tokens do not move the counter *)
Lemma scan_app l1 : forall d l2, scan d (l1 ++ l2)%list =
  match scan d l1 with Some d' => scan d' l2 | None => None end.
Proof.
  induction l1 as [|t l1 IH]; intros d l2; simpl; [reflexivity|].
  destruct (Nat.eqb (step_depth d t) 0); [reflexivity|apply IH].
Qed.

Lemma go_plain l :
  (fix go (l : list term) : bool := match l with [] => true | a :: l' => plain_term a && go l' end) l
  = forallb plain_term l.
Proof. induction l as [|a l IH]; simpl; [reflexivity|]. now rewrite IH. Qed.

Lemma step_depth_plain d t : String.eqb t LP = false -> String.eqb t RP = false -> step_depth d t = d.
Proof. unfold step_depth. now intros -> ->. Qed.

Lemma scan_cons_plain d t l : 1 <= d -> String.eqb t LP = false -> String.eqb t RP = false ->
  scan d (t :: l) = scan d l.
Proof.
  intros Hd H1 H2. cbn [scan]. rewrite step_depth_plain by assumption.
  destruct d; [lia|reflexivity].
Qed.

Lemma scan_cons_LP d l : scan d (LP :: l) = scan (S d) l.
Proof. reflexivity. Qed.

Lemma scan_RP d : scan (S (S d)) [RP] = Some (S d).
Proof. reflexivity. Qed.

Lemma scan_plain_terms args :
  Forall (fun t => plain_term t = true -> forall d, 1 <= d -> scan d (pt t) = Some d) args ->
  forallb plain_term args = true -> forall d, 1 <= d -> scan d (pts args) = Some d.
Proof.
  induction args as [|a args IHa]; intros IH Hargs d Hd; [reflexivity|].
  simpl in Hargs. apply andb_true_iff in Hargs. destruct Hargs as [Ha Hr].
  inversion IH as [|? ? IHa0 IHr]; subst.
  unfold pts. simpl. rewrite scan_app. rewrite (IHa0 Ha d Hd). now apply IHa.
Qed.

Lemma scan_plain_term t : plain_term t = true -> forall d, 1 <= d -> scan d (pt t) = Some d.
Proof.
  induction t as [x|c args IH] using term_ind2; intros Hp d Hd.
  - cbn [plain_term] in Hp. apply andb_true_iff in Hp. destruct Hp as [H1 H2].
    apply negb_true_iff in H1, H2. cbn [pt]. now rewrite scan_cons_plain.
  - cbn [plain_term] in Hp. rewrite go_plain in Hp.
    apply andb_true_iff in Hp. destruct Hp as [Hp Hargs].
    apply andb_true_iff in Hp. destruct Hp as [H1 H2]. apply negb_true_iff in H1, H2.
    pose proof (scan_plain_terms args IH Hargs) as Hl.
    destruct args as [|a args].
    + cbn [pt]. now rewrite scan_cons_plain.
    + rewrite pt_app. rewrite scan_cons_LP. rewrite scan_cons_plain by (try assumption; lia).
      rewrite scan_app. rewrite Hl by lia. destruct d; [lia|]. apply scan_RP.
Qed.

Lemma closes_plain c args :
  String.eqb c LP = false -> String.eqb c RP = false -> forallb plain_term args = true ->
  closes (c :: pts args) = true.
Proof.
  intros H1 H2 Hargs. apply closes_scan. rewrite scan_cons_plain by (try assumption; lia).
  apply scan_plain_terms; [|assumption|lia].
  apply Forall_forall. intros t _. apply scan_plain_term.
Qed.

(* ------------------------------------------------------------------ terms *)
Lemma parse_terms_fuel mvs : forall f1 f2 toks, length toks < f1 -> length toks < f2 ->
  parse_terms f1 mvs toks = parse_terms f2 mvs toks.
Proof.
  induction f1 as [|f1 IH]; intros f2 toks H1 H2; [lia|].
  destruct f2 as [|f2]; [lia|].
  destruct toks as [|first tl]; [reflexivity|]. simpl in H1, H2. cbn [parse_terms].
  destruct (String.eqb first LP).
  - destruct (split_close 1 tl) as [[body rest]|] eqn:E; [|reflexivity].
    apply split_close_length in E.
    destruct body as [|c [|a argt]]; try reflexivity.
    simpl in E.
    rewrite (IH f2 (a :: argt)) by (simpl; lia).
    rewrite (IH f2 rest) by lia. reflexivity.
  - rewrite (IH f2 tl) by lia. reflexivity.
Qed.

(** one printed term in front of a token list *)
Definition pt_step mvs (t : term) : Prop :=
  wf_term mvs t = true -> forall rest f, length (pt t ++ rest)%list < f ->
  parse_terms f mvs (pt t ++ rest)%list =
  match parse_terms f mvs rest with Some ts => Some (t :: ts) | None => None end.

Lemma pts_steps mvs args : Forall (pt_step mvs) args -> wf_terms mvs args = true ->
  forall f, length (pts args) < f -> parse_terms f mvs (pts args) = Some args.
Proof.
  induction args as [|a args IHa]; intros IH Hw f Hf.
  - destruct f; [simpl in Hf; lia|reflexivity].
  - simpl in Hw. apply andb_true_iff in Hw. destruct Hw as [Ha Hr].
    inversion IH as [|? ? IHa0 IHr]; subst.
    unfold pts in *. simpl in *. rewrite (IHa0 Ha) by exact Hf.
    rewrite IHa; [reflexivity|assumption|assumption|]. rewrite app_length in Hf. lia.
Qed.

Lemma pt_step_all mvs t : pt_step mvs t.
Proof.
  induction t as [x|c args IH] using term_ind2; intros Hw rest f Hf.
  - cbn [wf_term] in Hw. apply andb_true_iff in Hw. destruct Hw as [Hm Hx].
    apply negb_true_iff in Hx.
    destruct f as [|f]; [lia|]. cbn [pt app parse_terms]. rewrite Hx, Hm.
    simpl in Hf. rewrite (parse_terms_fuel mvs f (S f) rest) by lia. reflexivity.
  - destruct args as [|a args].
    + cbn [wf_term] in Hw. apply andb_true_iff in Hw. destruct Hw as [Hm Hx].
      apply negb_true_iff in Hx, Hm.
      destruct f as [|f]; [lia|]. cbn [pt app parse_terms]. rewrite Hx, Hm.
      simpl in Hf. rewrite (parse_terms_fuel mvs f (S f) rest) by lia. reflexivity.
    + rewrite wf_term_app in Hw. apply andb_true_iff in Hw. destruct Hw as [Hargs Hc].
      apply closes_scan in Hc.
      destruct f as [|f]; [lia|]. rewrite pt_app.
      change ((LP :: c :: (pts (a :: args) ++ [RP])) ++ rest)%list
        with (LP :: ((c :: pts (a :: args)) ++ [RP]) ++ rest)%list.
      rewrite <- app_assoc. cbn [parse_terms]. change (String.eqb LP LP) with true. cbv iota.
      change ([RP] ++ rest)%list with (RP :: rest).
      rewrite (split_close_scan _ 1 rest (le_n 1) Hc).
      assert (Hne : pts (a :: args) <> []).
      { unfold pts. simpl. intros E. apply app_eq_nil in E. destruct E as [E _].
        now apply pt_nonnil in E. }
      rewrite pt_app in Hf. remember (pts (a :: args)) as w eqn:Ew.
      cbn [length app] in Hf. rewrite !app_length in Hf. cbn [length] in Hf.
      destruct w as [|w0 ws]; [congruence|].
      rewrite Ew.
      rewrite (pts_steps mvs (a :: args) IH Hargs) by (rewrite <- Ew; cbn [length] in *; lia).
      rewrite (parse_terms_fuel mvs f (S f) rest) by lia. reflexivity.
Qed.

Lemma parse_terms_pts mvs ts : wf_terms mvs ts = true -> parse_terms_top mvs (pts ts) = Some ts.
Proof.
  intros Hw. unfold parse_terms_top. apply pts_steps; [|assumption|lia].
  apply Forall_forall. intros t _. apply pt_step_all.
Qed.

(** converse: whatever [parse_terms] returns prints back to the consumed tokens and is well-formed *)
Lemma parse_terms_inv mvs : forall f toks ts,
  parse_terms f mvs toks = Some ts -> pts ts = toks /\ wf_terms mvs ts = true.
Proof.
  induction f as [|f IH]; intros toks ts H; [discriminate|].
  destruct toks as [|first tl]; cbn [parse_terms] in H.
  - injection H as <-. split; reflexivity.
  - destruct (String.eqb_spec first LP) as [->|Hne].
    + destruct (split_close 1 tl) as [[body rest]|] eqn:E; [|discriminate].
      destruct body as [|c [|a argt]]; try discriminate.
      destruct (parse_terms f mvs (a :: argt)) as [args|] eqn:E1; [|discriminate].
      destruct (parse_terms f mvs rest) as [ts'|] eqn:E2; [|discriminate].
      injection H as <-.
      apply IH in E1. apply IH in E2. destruct E1 as [P1 W1], E2 as [P2 W2].
      apply split_close_inv in E; [|lia]. destruct E as [-> Hs].
      destruct args as [|a' args]; [discriminate|].
      split.
      * unfold pts in *. cbn [flat_map]. rewrite pt_app. unfold pts. rewrite P1, P2.
        simpl. rewrite <- app_assoc. reflexivity.
      * cbn [wf_terms forallb]. rewrite wf_term_app. unfold wf_terms in *. rewrite W1, W2.
        rewrite P1. apply closes_scan in Hs. rewrite Hs. reflexivity.
    + destruct (parse_terms f mvs tl) as [ts'|] eqn:E2; [|discriminate].
      injection H as <-. apply IH in E2. destruct E2 as [P2 W2].
      apply String.eqb_neq in Hne.
      destruct (mem first mvs) eqn:Em.
      * split; [unfold pts in *; simpl; now rewrite P2|].
        cbn [wf_terms forallb wf_term]. rewrite Em, Hne. exact W2.
      * split; [unfold pts in *; simpl; now rewrite P2|].
        cbn [wf_terms forallb wf_term]. rewrite Em, Hne. exact W2.
Qed.

(* ------------------------------------------------------------------ statements *)
Definition kw_head (r : list tok) : Prop := match r with TS _ :: _ => False | _ => True end.

Lemma take_toks_app ws r : kw_head r -> take_toks (map TS ws ++ r)%list = (ws, r).
Proof.
  intros Hr. induction ws as [|w ws IH]; simpl.
  - destruct r as [|[] r]; try reflexivity. contradiction.
  - now rewrite IH.
Qed.

Lemma take_toks_inv l : forall ws r, take_toks l = (ws, r) -> l = (map TS ws ++ r)%list /\ kw_head r.
Proof.
  induction l as [|t l IH]; intros ws r H; simpl in H.
  - injection H as <- <-. split; [reflexivity|exact I].
  - destruct t; try (injection H as <- <-; split; [reflexivity|exact I]).
    destruct (take_toks l) as [a r0] eqn:E. injection H as <- <-.
    destruct (IH a r0 eq_refl) as [-> Hk]. split; [reflexivity|exact Hk].
Qed.

Definition tail_ok (r : list tok) : Prop := r = [] \/ exists r', r = KClose :: r'.

Lemma pts_nonnil ts : ts <> [] -> pts ts <> [].
Proof.
  destruct ts as [|t ts]; [congruence|]. intros _. unfold pts. simpl. intros E.
  apply app_eq_nil in E. destruct E as [E _]. now apply pt_nonnil in E.
Qed.

Lemma pts_nil_inv ts : pts ts = [] -> ts = [].
Proof. destruct ts as [|t ts]; [reflexivity|]. intros E. exfalso. revert E. apply pts_nonnil. discriminate. Qed.

Lemma parse_terms_top_inv mvs toks ts :
  parse_terms_top mvs toks = Some ts -> pts ts = toks /\ wf_terms mvs ts = true.
Proof. apply parse_terms_inv. Qed.

Lemma print_stmts_cons s l : print_stmts (s :: l) = (print_stmt s ++ print_stmts l)%list.
Proof. reflexivity. Qed.
Lemma decls_cons s l : decls (s :: l) = (decl s ++ decls l)%list.
Proof. reflexivity. Qed.
Lemma wf_stmts_cons0 mvs s l : decl s = [] -> wf_stmts mvs (s :: l) = wf_stmt mvs s && wf_stmts mvs l.
Proof. intros E. cbn [wf_stmts]. now rewrite E, app_nil_r. Qed.

Ltac norm_app := cbn [app]; rewrite <- ?app_assoc; cbn [app]; rewrite <- ?app_assoc; cbn [app].

Ltac inv_cont H IH :=
  match type of H with
  | match parse_stmts ?f ?m ?r with _ => _ end = Some _ =>
      let E := fresh "E" in let W := fresh "W" in let T := fresh "T" in
      destruct (parse_stmts f m r) as [[[? ?] ?]|] eqn:E; [|discriminate];
      injection H as <- <- <-; apply IH in E; destruct E as (-> & -> & W & T);
      split; [|split; [|split; [|exact T]]]
  end.

Lemma parse_stmts_inv : forall f mvs toks ss m r,
  parse_stmts f mvs toks = Some (ss, m, r) ->
  toks = (print_stmts ss ++ r)%list /\ m = (mvs ++ decls ss)%list /\ wf_stmts mvs ss = true /\ tail_ok r.
Proof.
  induction f as [|f IH]; intros mvs toks ss m r H; [discriminate|].
  cbn [parse_stmts] in H.
  destruct toks as [|t tl].
  { injection H as <- <- <-. split; [reflexivity|]. split; [now rewrite app_nil_r|].
    split; [reflexivity|now left]. }
  destruct t.
  - (* $c *)
    destruct (take_toks tl) as [cs rest] eqn:Et. apply take_toks_inv in Et. destruct Et as [-> _].
    destruct cs as [|c cs]; [discriminate|]. destruct rest as [|[] rest]; try discriminate.
    inv_cont H IH.
    + rewrite print_stmts_cons. cbn [print_stmt]. norm_app. reflexivity.
    + reflexivity.
    + rewrite wf_stmts_cons0 by reflexivity. exact W.
  - (* $v *)
    destruct (take_toks tl) as [cs rest] eqn:Et. apply take_toks_inv in Et. destruct Et as [-> _].
    destruct cs as [|c cs]; [discriminate|]. destruct rest as [|[] rest]; try discriminate.
    inv_cont H IH.
    + rewrite print_stmts_cons. cbn [print_stmt]. norm_app. reflexivity.
    + rewrite decls_cons. cbn [decl]. now rewrite app_assoc.
    + cbn [wf_stmts wf_stmt decl]. exact W.
  - (* $d *)
    destruct (take_toks tl) as [cs rest] eqn:Et. apply take_toks_inv in Et. destruct Et as [-> _].
    destruct cs as [|c cs]; [discriminate|]. destruct rest as [|[] rest]; try discriminate.
    destruct (forallb (fun v => mem v mvs) (c :: cs)) eqn:Ef; [|discriminate].
    inv_cont H IH.
    + rewrite print_stmts_cons. cbn [print_stmt]. norm_app. reflexivity.
    + reflexivity.
    + rewrite wf_stmts_cons0 by reflexivity. cbn [wf_stmt]. rewrite Ef. exact W.
  - discriminate. - discriminate. - discriminate. - discriminate. - discriminate. - discriminate.
  - (* ${ *)
    destruct (parse_stmts f mvs tl) as [[[bs m1] r1]|] eqn:Eb; [|discriminate].
    destruct r1 as [|[] r1]; try discriminate.
    apply IH in Eb. destruct Eb as (-> & -> & Wb & _).
    inv_cont H IH.
    + rewrite print_stmts_cons. cbn [print_stmt]. fold (print_stmts bs). norm_app. reflexivity.
    + rewrite decls_cons. cbn [decl]. fold (decls bs). now rewrite app_assoc.
    + cbn [wf_stmts]. rewrite wf_stmt_block, Wb. cbn [decl]. fold (decls bs). exact W.
  - (* $} *)
    injection H as <- <- <-. split; [reflexivity|]. split; [now rewrite app_nil_r|].
    split; [reflexivity|right; now eexists].
  - (* label *)
    destruct tl as [|k tl]; [discriminate|].
    destruct k; try discriminate.
    + (* $f *)
      destruct tl as [|[] [|[] [|[] rest]]]; try discriminate.
      destruct (mem s1 mvs) eqn:Em; [|discriminate].
      inv_cont H IH.
      * reflexivity.
      * reflexivity.
      * rewrite wf_stmts_cons0 by reflexivity. cbn [wf_stmt]. rewrite Em. exact W.
    + (* $e *)
      destruct (take_toks tl) as [ws rest] eqn:Et. apply take_toks_inv in Et. destruct Et as [-> _].
      destruct ws as [|w ws]; [discriminate|]. destruct rest as [|[] rest]; try discriminate.
      destruct (parse_terms_top mvs (w :: ws)) as [ts|] eqn:Ep; [|discriminate].
      apply parse_terms_top_inv in Ep. destruct Ep as [Ep Wt].
      inv_cont H IH.
      * rewrite print_stmts_cons. cbn [print_stmt]. rewrite Ep. norm_app. reflexivity.
      * reflexivity.
      * rewrite wf_stmts_cons0 by reflexivity. cbn [wf_stmt]. rewrite Wt.
        destruct ts; [discriminate|]. exact W.
    + (* $a *)
      destruct (take_toks tl) as [ws rest] eqn:Et. apply take_toks_inv in Et. destruct Et as [-> _].
      destruct ws as [|w ws]; [discriminate|]. destruct rest as [|[] rest]; try discriminate.
      destruct (parse_terms_top mvs (w :: ws)) as [ts|] eqn:Ep; [|discriminate].
      apply parse_terms_top_inv in Ep. destruct Ep as [Ep Wt].
      inv_cont H IH.
      * rewrite print_stmts_cons. cbn [print_stmt]. rewrite Ep. norm_app. reflexivity.
      * reflexivity.
      * rewrite wf_stmts_cons0 by reflexivity. cbn [wf_stmt]. rewrite Wt.
        destruct ts; [discriminate|]. exact W.
    + (* $p *)
      destruct (take_toks tl) as [ws rest] eqn:Et. apply take_toks_inv in Et. destruct Et as [-> _].
      destruct ws as [|w ws]; [discriminate|]. destruct rest as [|[] rest]; try discriminate.
      destruct (take_toks rest) as [pf rest2] eqn:Et2. apply take_toks_inv in Et2. destruct Et2 as [-> _].
      destruct rest2 as [|[] rest2]; try discriminate.
      destruct (parse_terms_top mvs (w :: ws)) as [ts|] eqn:Ep; [|discriminate].
      apply parse_terms_top_inv in Ep. destruct Ep as [Ep Wt].
      inv_cont H IH.
      * rewrite print_stmts_cons. cbn [print_stmt proof_toks]. rewrite Ep.
        norm_app. reflexivity.
      * reflexivity.
      * rewrite wf_stmts_cons0 by reflexivity. cbn [wf_stmt]. rewrite Wt.
        destruct ts; [discriminate|]. exact W.
Qed.

Lemma take_toks_length l ws r : take_toks l = (ws, r) -> length l = length ws + length r.
Proof. intros H. apply take_toks_inv in H. destruct H as [-> _]. now rewrite app_length, map_length. Qed.

Lemma parse_stmts_fuel : forall f1 f2 mvs toks, length toks < f1 -> length toks < f2 ->
  parse_stmts f1 mvs toks = parse_stmts f2 mvs toks.
Proof.
  induction f1 as [|f1 IH]; intros f2 mvs toks H1 H2; [lia|].
  destruct f2 as [|f2]; [lia|].
  cbn [parse_stmts].
  destruct toks as [|t tl]; [reflexivity|]. cbn [length] in H1, H2.
  destruct t; try reflexivity.
  - destruct (take_toks tl) as [cs rest] eqn:Et. apply take_toks_length in Et.
    destruct cs as [|c cs]; [reflexivity|]. destruct rest as [|[] rest]; try reflexivity.
    cbn [length] in Et. rewrite (IH f2) by lia. reflexivity.
  - destruct (take_toks tl) as [cs rest] eqn:Et. apply take_toks_length in Et.
    destruct cs as [|c cs]; [reflexivity|]. destruct rest as [|[] rest]; try reflexivity.
    cbn [length] in Et. rewrite (IH f2) by lia. reflexivity.
  - destruct (take_toks tl) as [cs rest] eqn:Et. apply take_toks_length in Et.
    destruct cs as [|c cs]; [reflexivity|]. destruct rest as [|[] rest]; try reflexivity.
    cbn [length] in Et. rewrite (IH f2) by lia. reflexivity.
  - rewrite (IH f2 mvs tl) by lia.
    destruct (parse_stmts f2 mvs tl) as [[[bs m1] r1]|] eqn:Eb; [|reflexivity].
    destruct r1 as [|[] r1]; try reflexivity.
    apply parse_stmts_inv in Eb. destruct Eb as (E & _).
    assert (length r1 < length tl) by (rewrite E, app_length; cbn [length]; lia).
    rewrite (IH f2) by lia. reflexivity.
  - destruct tl as [|k tl]; [reflexivity|]. cbn [length] in H1, H2.
    destruct k; try reflexivity.
    + destruct tl as [|[] [|[] [|[] rest]]]; try reflexivity.
      cbn [length] in H1, H2. rewrite (IH f2) by lia. reflexivity.
    + destruct (take_toks tl) as [cs rest] eqn:Et. apply take_toks_length in Et.
      destruct cs as [|c cs]; [reflexivity|]. destruct rest as [|[] rest]; try reflexivity.
      cbn [length] in Et. rewrite (IH f2) by lia. reflexivity.
    + destruct (take_toks tl) as [cs rest] eqn:Et. apply take_toks_length in Et.
      destruct cs as [|c cs]; [reflexivity|]. destruct rest as [|[] rest]; try reflexivity.
      cbn [length] in Et. rewrite (IH f2) by lia. reflexivity.
    + destruct (take_toks tl) as [cs rest] eqn:Et. apply take_toks_length in Et.
      destruct cs as [|c cs]; [reflexivity|]. destruct rest as [|[] rest]; try reflexivity.
      destruct (take_toks rest) as [pf rest2] eqn:Et2. apply take_toks_length in Et2.
      destruct rest2 as [|[] rest2]; try reflexivity.
      cbn [length] in Et, Et2. rewrite (IH f2) by lia. reflexivity.
Qed.

Definition lift_cons (s : stmt) (r : option (list stmt * list string * list tok)) :=
  match r with Some (ss, m, r) => Some (s :: ss, m, r) | None => None end.

Definition stmt_step (s : stmt) : Prop :=
  forall mvs tail f, wf_stmt mvs s = true -> length (print_stmt s ++ tail)%list < f ->
  parse_stmts f mvs (print_stmt s ++ tail)%list = lift_cons s (parse_stmts f (mvs ++ decl s)%list tail).

Lemma stmts_steps ss : Forall stmt_step ss -> forall mvs tail f,
  wf_stmts mvs ss = true -> tail_ok tail -> length (print_stmts ss ++ tail)%list < f ->
  parse_stmts f mvs (print_stmts ss ++ tail)%list = Some (ss, (mvs ++ decls ss)%list, tail).
Proof.
  induction ss as [|s ss IHs]; intros IH mvs tail f W T Hf.
  - cbn [print_stmts flat_map app decls]. rewrite app_nil_r.
    destruct f as [|f]; [lia|]. cbn [parse_stmts].
    destruct T as [->|[r' ->]]; reflexivity.
  - inversion IH as [|? ? Hs Hss]; subst.
    cbn [wf_stmts] in W. apply andb_true_iff in W. destruct W as [W1 W2].
    rewrite print_stmts_cons, <- app_assoc in *.
    rewrite (Hs mvs _ f W1 Hf).
    rewrite (IHs Hss); try assumption.
    + cbn [lift_cons]. rewrite decls_cons, app_assoc. reflexivity.
    + rewrite app_length in Hf. lia.
Qed.

Lemma step_fuel f mvs toks : length toks < f -> parse_stmts f mvs toks = parse_stmts (S f) mvs toks.
Proof. intros H. apply parse_stmts_fuel; lia. Qed.

Lemma nonnil_true {A} (l : list A) : nonnil l = true -> l <> [].
Proof. destruct l; [discriminate|discriminate]. Qed.

Lemma print_stmt_len s : 1 <= length (print_stmt s).
Proof. destruct s; cbn [print_stmt length]; lia. Qed.

Lemma stmt_step_all s : stmt_step s.
Proof.
  induction s as [cs|vs|vs|l ty v|l ts|l ts|l ts pf|ss IH] using stmt_ind2; intros mvs tail f W Hf;
    (destruct f as [|f]; [lia|]);
    match goal with |- _ = lift_cons ?s0 (parse_stmts _ ?m _) =>
      assert (Ht : length tail < f) by (rewrite app_length in Hf; pose proof (print_stmt_len s0); lia);
      rewrite <- (step_fuel f m tail Ht)
    end; clear Ht;
    cbn [print_stmt] in *; cbn [decl]; rewrite ?app_nil_r.
  - (* $c *) cbn [wf_stmt] in W. destruct cs as [|c cs]; [discriminate|].
    cbn [app parse_stmts]. rewrite <- app_assoc. rewrite take_toks_app by exact I.
    cbn [app]. cbn [length app] in Hf. rewrite !app_length in Hf. cbn [length] in Hf.
    reflexivity.
  - (* $v *) cbn [wf_stmt] in W. destruct vs as [|c cs]; [discriminate|].
    cbn [app parse_stmts]. rewrite <- app_assoc. rewrite take_toks_app by exact I.
    cbn [app]. cbn [length app] in Hf. rewrite !app_length in Hf. cbn [length] in Hf.
    reflexivity.
  - (* $d *) cbn [wf_stmt] in W. apply andb_true_iff in W. destruct W as [W1 W2].
    destruct vs as [|c cs]; [discriminate|].
    cbn [app parse_stmts]. rewrite <- app_assoc. rewrite take_toks_app by exact I.
    cbn [app]. rewrite W2. cbn [length app] in Hf. rewrite !app_length in Hf. cbn [length] in Hf.
    reflexivity.
  - (* $f *) cbn [wf_stmt] in W. cbn [app parse_stmts]. rewrite W.
    reflexivity.
  - (* $e *) cbn [wf_stmt] in W. apply andb_true_iff in W. destruct W as [W1 W2].
    apply nonnil_true, pts_nonnil in W1.
    cbn [app parse_stmts]. rewrite <- app_assoc. rewrite take_toks_app by exact I.
    cbn [app]. rewrite (parse_terms_pts _ _ W2).
    cbn [length app] in Hf. rewrite !app_length in Hf. cbn [length] in Hf.
    destruct (pts ts) as [|w ws]; [congruence|].
    reflexivity.
  - (* $a *) cbn [wf_stmt] in W. apply andb_true_iff in W. destruct W as [W1 W2].
    apply nonnil_true, pts_nonnil in W1.
    cbn [app parse_stmts]. rewrite <- app_assoc. rewrite take_toks_app by exact I.
    cbn [app]. rewrite (parse_terms_pts _ _ W2).
    cbn [length app] in Hf. rewrite !app_length in Hf. cbn [length] in Hf.
    destruct (pts ts) as [|w ws]; [congruence|].
    reflexivity.
  - (* $p *) cbn [wf_stmt] in W. apply andb_true_iff in W. destruct W as [W W3].
    apply andb_true_iff in W. destruct W as [W1 W2].
    destruct pf as [pf|]; [|discriminate].
    apply nonnil_true, pts_nonnil in W1.
    cbn [app parse_stmts proof_toks]. rewrite <- app_assoc. rewrite take_toks_app by exact I.
    cbn [app]. rewrite <- app_assoc. rewrite take_toks_app by exact I.
    cbn [app]. rewrite (parse_terms_pts _ _ W2).
    cbn [length app] in Hf. rewrite !app_length in Hf. cbn [length] in Hf.
    rewrite !app_length in Hf. cbn [length] in Hf.
    destruct (pts ts) as [|w ws]; [congruence|].
    reflexivity.
  - (* block *) rewrite wf_stmt_block in W. fold (print_stmts ss) in *. fold (decls ss).
    cbn [app parse_stmts]. rewrite <- app_assoc. cbn [app].
    cbn [length app] in Hf. rewrite !app_length in Hf. cbn [length] in Hf.
    rewrite (stmts_steps ss IH mvs (KClose :: tail) f W).
    + reflexivity.
    + right. now eexists.
    + rewrite app_length. cbn [length]. lia.
Qed.

(* ------------------------------------------------------------------ databases *)
Theorem parse_print_db db : wf_db db = true -> parse_db (print_db db) = Some db.
Proof.
  intros W. unfold parse_db, print_db.
  pose proof (stmts_steps db (proj2 (Forall_forall _ _) (fun s _ => stmt_step_all s)) [] []
                (S (length (print_stmts db))) W (or_introl eq_refl)) as H.
  rewrite app_nil_r in H. rewrite H by lia. reflexivity.
Qed.

Theorem parse_db_inv toks db : parse_db toks = Some db -> print_db db = toks /\ wf_db db = true.
Proof.
  unfold parse_db. intros H.
  destruct (parse_stmts (S (length toks)) [] toks) as [[[ss m] r]|] eqn:E; [|discriminate].
  destruct r; [|discriminate]. injection H as <-.
  apply parse_stmts_inv in E. destruct E as (-> & _ & W & _).
  rewrite app_nil_r. split; [reflexivity|exact W].
Qed.

Theorem print_parse_idem toks db : parse_db toks = Some db -> parse_db (print_db db) = Some db.
Proof. intros H. apply parse_db_inv in H. destruct H as [_ W]. now apply parse_print_db. Qed.

(** plain terms: the simple sufficient condition for the parenthesis clause of [wf_term] *)
Lemma wf_term_plain_app mvs c a args :
  String.eqb c LP = false -> String.eqb c RP = false -> forallb plain_term (a :: args) = true ->
  wf_terms mvs (a :: args) = true -> wf_term mvs (App c (a :: args)) = true.
Proof.
  intros H1 H2 Hp Hw. rewrite wf_term_app, Hw. cbn [andb]. now apply closes_plain.
Qed.

(** C17 proofs about the slicer model (fixed configuration [sguards_fixed]). *)
From Coq Require Import String List Bool Arith Lia.
From Pi2 Require Import MM17.Ast MM17.Print MM17.Parse MM17.Wf MM17.Slice MM17.SliceSpec MM17.ParsePrintProofs.
Import ListNotations.
Open Scope string_scope.

(* ------------------------------------------------------------------ library *)
Lemma mem_In x l : mem x l = true <-> In x l.
Proof.
  unfold mem. rewrite existsb_exists. split.
  - intros [y [Hy E]]. apply String.eqb_eq in E. now subst.
  - intros H. exists x. split; [assumption|apply String.eqb_refl].
Qed.

Lemma mem_false x l : mem x l = false <-> ~ In x l.
Proof.
  rewrite <- mem_In. destruct (mem x l); split; intros H.
  - discriminate.
  - exfalso. now apply H.
  - intros H'. discriminate.
  - reflexivity.
Qed.

Lemma insert_uniq_In y x l : In y (insert_uniq x l) <-> y = x \/ In y l.
Proof.
  induction l as [|z l IH]; simpl.
  - intuition.
  - destruct (String.compare x z) eqn:E.
    + apply String.compare_eq_iff in E. subst. simpl. intuition.
    + simpl. intuition.
    + simpl. rewrite IH. intuition.
Qed.

Lemma sort_uniq_In y l : In y (sort_uniq l) <-> In y l.
Proof.
  induction l as [|x l IH]; simpl; [reflexivity|].
  rewrite insert_uniq_In, IH. intuition.
Qed.

Lemma insert_uniq_nonnil x l : insert_uniq x l <> [].
Proof. destruct l as [|z l]; simpl; [discriminate|]. destruct (String.compare x z); discriminate. Qed.

Lemma sort_uniq_nonnil l : l <> [] -> sort_uniq l <> [].
Proof. destruct l; [congruence|]. intros _. simpl. apply insert_uniq_nonnil. Qed.

Lemma forallb_mem_incl (l m : list string) : forallb (fun v => mem v m) l = true <-> incl l m.
Proof.
  rewrite forallb_forall. unfold incl. split; intros H x Hx; [apply mem_In|apply mem_In]; auto.
Qed.

Lemma map_opt_In {A B} (f : A -> option B) l bs :
  map_opt f l = Some bs -> forall a, In a l -> exists b, f a = Some b /\ In b bs.
Proof.
  revert bs. induction l as [|x l IH]; intros bs H a Ha; [destruct Ha|].
  simpl in H. destruct (f x) as [b|] eqn:E; [|discriminate].
  destruct (map_opt f l) as [bs'|]; [|discriminate]. injection H as <-.
  destruct Ha as [->|Ha].
  - exists b. split; [assumption|now left].
  - destruct (IH bs' eq_refl a Ha) as [b' [H1 H2]]. exists b'. split; [assumption|now right].
Qed.

Lemma map_opt_In_rev {A B} (f : A -> option B) l bs :
  map_opt f l = Some bs -> forall b, In b bs -> exists a, In a l /\ f a = Some b.
Proof.
  revert bs. induction l as [|x l IH]; intros bs H b Hb; simpl in H.
  - injection H as <-. destruct Hb.
  - destruct (f x) as [b0|] eqn:E; [|discriminate].
    destruct (map_opt f l) as [bs'|]; [|discriminate]. injection H as <-.
    destruct Hb as [->|Hb].
    + exists x. split; [now left|assumption].
    + destruct (IH bs' eq_refl b Hb) as [a [H1 H2]]. exists a. split; [now right|assumption].
Qed.

(* ------------------------------------------------------------------ accumulator-independent shape *)
Fixpoint kterm (t : term) : bool :=
  match t with
  | MV x => negb (String.eqb x LP)
  | App c args =>
      match args with
      | [] => negb (String.eqb c LP)
      | _ => (fix go (l : list term) : bool := match l with [] => true | a :: l' => kterm a && go l' end) args
             && closes (c :: pts args)
      end
  end.

Lemma go_kterm l :
  (fix go (l : list term) : bool := match l with [] => true | a :: l' => kterm a && go l' end) l = forallb kterm l.
Proof. induction l as [|a l IH]; simpl; [reflexivity|]. now rewrite IH. Qed.

Lemma wf_term_split M t :
  wf_term M t = true <->
  kterm t = true /\ (forall x, In x (term_mvs t) -> In x M) /\ (forall c, In c (term_nullary t) -> ~ In c M).
Proof.
  induction t as [x|c args IH] using term_ind2.
  - cbn [wf_term kterm term_mvs term_nullary]. rewrite andb_true_iff, mem_In. split.
    + intros [H1 H2]. repeat split; [assumption| |intros ? []]. intros y [<-|[]]. assumption.
    + intros (H1 & H2 & _). split; [apply H2; now left|assumption].
  - destruct args as [|a args].
    + cbn [wf_term kterm term_mvs term_nullary flat_map]. rewrite andb_true_iff, negb_true_iff, mem_false. split.
      * intros [H1 H2]. repeat split; [assumption|intros ? []|]. intros y [<-|[]]. assumption.
      * intros (H1 & _ & H3). split; [apply H3; now left|assumption].
    + rewrite wf_term_app. cbn [kterm]. rewrite go_kterm.
      rewrite !andb_true_iff. unfold wf_terms. rewrite !forallb_forall.
      cbn [term_mvs term_nullary].
      split.
      * intros [Hw Hc]. split; [split; [|assumption]|split].
        -- intros t Ht. rewrite Forall_forall in IH. apply (IH t Ht). now apply Hw.
        -- intros x Hx. apply in_flat_map in Hx. destruct Hx as [t [Ht Hx]].
           rewrite Forall_forall in IH. apply (IH t Ht) in Hx; [assumption|now apply Hw].
        -- intros x Hx. apply in_flat_map in Hx. destruct Hx as [t [Ht Hx]].
           rewrite Forall_forall in IH. apply (IH t Ht) in Hx; [assumption|now apply Hw].
      * intros ([Hk Hc] & Hm & Hn). split; [|assumption].
        intros t Ht. rewrite Forall_forall in IH. apply (IH t Ht). split; [now apply Hk|split].
        -- intros x Hx. apply Hm. apply in_flat_map. eauto.
        -- intros x Hx. apply Hn. apply in_flat_map. eauto.
Qed.

Lemma wf_terms_split M ts :
  wf_terms M ts = true <->
  forallb kterm ts = true /\ (forall x, In x (flat_map term_mvs ts) -> In x M) /\
  (forall c, In c (flat_map term_nullary ts) -> ~ In c M).
Proof.
  unfold wf_terms. rewrite !forallb_forall. split.
  - intros H. split; [|split].
    + intros t Ht. now apply (wf_term_split M t), H.
    + intros x Hx. apply in_flat_map in Hx. destruct Hx as [t [Ht Hx]].
      apply (wf_term_split M t) in Hx; [assumption|now apply H].
    + intros x Hx. apply in_flat_map in Hx. destruct Hx as [t [Ht Hx]].
      apply (wf_term_split M t) in Hx; [assumption|now apply H].
  - intros (Hk & Hm & Hn) t Ht. apply wf_term_split. split; [now apply Hk|split].
    + intros x Hx. apply Hm. apply in_flat_map. eauto.
    + intros x Hx. apply Hn. apply in_flat_map. eauto.
Qed.

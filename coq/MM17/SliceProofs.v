(** C17 proofs about the slicer model (fixed configuration [sguards_fixed]). *)
From Coq Require Import String List Bool Arith Lia.
From Pi2 Require Import MM17.Ast MM17.Print MM17.Parse MM17.Wf MM17.Slice MM17.SliceSpec MM17.ParsePrintProofs.
Import ListNotations.
Open Scope string_scope.

(* ------------------------------------------------------------------ library *)
Lemma mem_In x l : mem x l = true <-> In x l.
Proof.
  unfold mem. rewrite existsb_exists. split.
  - intros [y [Hy E]]. apply String.eqb_eq in E. now subst.
  - intros H. exists x. split; [assumption|apply String.eqb_refl].
Qed.

Lemma mem_false x l : mem x l = false <-> ~ In x l.
Proof.
  rewrite <- mem_In. destruct (mem x l); split; intros H.
  - discriminate.
  - exfalso. now apply H.
  - intros H'. discriminate.
  - reflexivity.
Qed.

Lemma insert_uniq_In y x l : In y (insert_uniq x l) <-> y = x \/ In y l.
Proof.
  induction l as [|z l IH]; simpl.
  - intuition.
  - destruct (String.compare x z) eqn:E.
    + apply String.compare_eq_iff in E. subst. simpl. intuition.
    + simpl. intuition.
    + simpl. rewrite IH. intuition.
Qed.

Lemma sort_uniq_In y l : In y (sort_uniq l) <-> In y l.
Proof.
  induction l as [|x l IH]; simpl; [reflexivity|].
  rewrite insert_uniq_In, IH. intuition.
Qed.

Lemma insert_uniq_nonnil x l : insert_uniq x l <> [].
Proof. destruct l as [|z l]; simpl; [discriminate|]. destruct (String.compare x z); discriminate. Qed.

Lemma sort_uniq_nonnil l : l <> [] -> sort_uniq l <> [].
Proof. destruct l; [congruence|]. intros _. simpl. apply insert_uniq_nonnil. Qed.

Lemma forallb_mem_incl (l m : list string) : forallb (fun v => mem v m) l = true <-> incl l m.
Proof.
  rewrite forallb_forall. unfold incl. split; intros H x Hx; [apply mem_In|apply mem_In]; auto.
Qed.

Lemma map_opt_In {A B} (f : A -> option B) l bs :
  map_opt f l = Some bs -> forall a, In a l -> exists b, f a = Some b /\ In b bs.
Proof.
  revert bs. induction l as [|x l IH]; intros bs H a Ha; [destruct Ha|].
  simpl in H. destruct (f x) as [b|] eqn:E; [|discriminate].
  destruct (map_opt f l) as [bs'|]; [|discriminate]. injection H as <-.
  destruct Ha as [->|Ha].
  - exists b. split; [assumption|now left].
  - destruct (IH bs' eq_refl a Ha) as [b' [H1 H2]]. exists b'. split; [assumption|now right].
Qed.

Lemma map_opt_In_rev {A B} (f : A -> option B) l bs :
  map_opt f l = Some bs -> forall b, In b bs -> exists a, In a l /\ f a = Some b.
Proof.
  revert bs. induction l as [|x l IH]; intros bs H b Hb; simpl in H.
  - injection H as <-. destruct Hb.
  - destruct (f x) as [b0|] eqn:E; [|discriminate].
    destruct (map_opt f l) as [bs'|]; [|discriminate]. injection H as <-.
    destruct Hb as [->|Hb].
    + exists x. split; [now left|assumption].
    + destruct (IH bs' eq_refl b Hb) as [a [H1 H2]]. exists a. split; [now right|assumption].
Qed.

(* ------------------------------------------------------------------ accumulator-independent shape *)
Fixpoint kterm (t : term) : bool :=
  match t with
  | MV x => negb (String.eqb x LP)
  | App c args =>
      match args with
      | [] => negb (String.eqb c LP)
      | _ => (fix go (l : list term) : bool := match l with [] => true | a :: l' => kterm a && go l' end) args
             && closes (c :: pts args)
      end
  end.

Lemma go_kterm l :
  (fix go (l : list term) : bool := match l with [] => true | a :: l' => kterm a && go l' end) l = forallb kterm l.
Proof. induction l as [|a l IH]; simpl; [reflexivity|]. now rewrite IH. Qed.

Lemma kterm_app c a args :
  kterm (App c (a :: args)) = forallb kterm (a :: args) && closes (c :: pts (a :: args)).
Proof. cbn [kterm]. rewrite go_kterm. reflexivity. Qed.

Lemma wf_term_split M t :
  wf_term M t = true <->
  kterm t = true /\ (forall x, In x (term_mvs t) -> In x M) /\ (forall c, In c (term_nullary t) -> ~ In c M).
Proof.
  induction t as [x|c args IH] using term_ind2.
  - cbn [wf_term kterm term_mvs term_nullary]. rewrite andb_true_iff, mem_In. split.
    + intros [H1 H2]. repeat split; [assumption| |intros ? []]. intros y [<-|[]]. assumption.
    + intros (H1 & H2 & _). split; [apply H2; now left|assumption].
  - destruct args as [|a args].
    + cbn [wf_term kterm term_mvs term_nullary flat_map]. rewrite andb_true_iff, negb_true_iff, mem_false. split.
      * intros [H1 H2]. repeat split; [assumption|intros ? []|]. intros y [<-|[]]. assumption.
      * intros (H1 & _ & H3). split; [apply H3; now left|assumption].
    + rewrite wf_term_app, kterm_app.
      change (term_mvs (App c (a :: args))) with (flat_map term_mvs (a :: args)).
      change (term_nullary (App c (a :: args))) with (flat_map term_nullary (a :: args)).
      remember (a :: args) as l eqn:El. clear El a args.
      rewrite !andb_true_iff. unfold wf_terms. rewrite !forallb_forall.
      split.
      * intros [Hw Hc]. split; [split; [|assumption]|split].
        -- intros t Ht. rewrite Forall_forall in IH. apply (IH t Ht). now apply Hw.
        -- intros x Hx. apply in_flat_map in Hx. destruct Hx as [t [Ht Hx]].
           rewrite Forall_forall in IH. apply (IH t Ht) in Hx; [assumption|now apply Hw].
        -- intros x Hx. apply in_flat_map in Hx. destruct Hx as [t [Ht Hx]].
           rewrite Forall_forall in IH. apply (IH t Ht) in Hx; [assumption|now apply Hw].
      * intros ([Hk Hc] & Hm & Hn). split; [|assumption].
        intros t Ht. rewrite Forall_forall in IH. apply (IH t Ht). split; [now apply Hk|split].
        -- intros x Hx. apply Hm. apply in_flat_map. eauto.
        -- intros x Hx. apply Hn. apply in_flat_map. eauto.
Qed.

Lemma wf_terms_split M ts :
  wf_terms M ts = true <->
  forallb kterm ts = true /\ (forall x, In x (flat_map term_mvs ts) -> In x M) /\
  (forall c, In c (flat_map term_nullary ts) -> ~ In c M).
Proof.
  unfold wf_terms. rewrite !forallb_forall. split.
  - intros H. split; [|split].
    + intros t Ht. now apply (wf_term_split M t), H.
    + intros x Hx. apply in_flat_map in Hx. destruct Hx as [t [Ht Hx]].
      apply (wf_term_split M t) in Hx; [assumption|now apply H].
    + intros x Hx. apply in_flat_map in Hx. destruct Hx as [t [Ht Hx]].
      apply (wf_term_split M t) in Hx; [assumption|now apply H].
  - intros (Hk & Hm & Hn) t Ht. apply wf_term_split. split; [now apply Hk|split].
    + intros x Hx. apply Hm. apply in_flat_map. eauto.
    + intros x Hx. apply Hn. apply in_flat_map. eauto.
Qed.

(* ------------------------------------------------------------------ statements *)
Definition is_some {A} (o : option A) : bool := match o with Some _ => true | None => false end.

Fixpoint kshape (s : stmt) : bool :=
  match s with
  | SC _ | SV _ => false
  | SD vs => nonnil vs
  | SF _ _ _ => true
  | SE _ ts | SA _ ts => nonnil ts && forallb kterm ts
  | SP _ ts pf => nonnil ts && forallb kterm ts && is_some pf
  | SB ss => (fix go (l : list stmt) : bool := match l with [] => true | a :: l' => kshape a && go l' end) ss
  end.

Fixpoint nodecl (s : stmt) : bool :=
  match s with
  | SC _ | SV _ => false
  | SB ss => (fix go (l : list stmt) : bool := match l with [] => true | a :: l' => nodecl a && go l' end) ss
  | _ => true
  end.

Lemma go_kshape l :
  (fix go (l : list stmt) : bool := match l with [] => true | a :: l' => kshape a && go l' end) l = forallb kshape l.
Proof. induction l as [|a l IH]; simpl; [reflexivity|]. now rewrite IH. Qed.
Lemma go_nodecl l :
  (fix go (l : list stmt) : bool := match l with [] => true | a :: l' => nodecl a && go l' end) l = forallb nodecl l.
Proof. induction l as [|a l IH]; simpl; [reflexivity|]. now rewrite IH. Qed.
Lemma kshape_block ss : kshape (SB ss) = forallb kshape ss.
Proof. cbn [kshape]. apply go_kshape. Qed.
Lemma nodecl_block ss : nodecl (SB ss) = forallb nodecl ss.
Proof. cbn [nodecl]. apply go_nodecl. Qed.

Definition uses_ok (M : list string) (s : stmt) : Prop :=
  incl (stmt_mvs s) M /\ (forall c, In c (stmt_nullary s) -> ~ In c M).

Lemma uses_ok_block M ss : uses_ok M (SB ss) <-> Forall (uses_ok M) ss.
Proof.
  unfold uses_ok. cbn [stmt_mvs stmt_nullary]. rewrite Forall_forall. split.
  - intros [H1 H2] s Hs. split.
    + intros x Hx. apply H1. apply in_flat_map. eauto.
    + intros c Hc. apply H2. apply in_flat_map. eauto.
  - intros H. split.
    + intros x Hx. apply in_flat_map in Hx. destruct Hx as [s [Hs Hx]]. now apply (H s Hs).
    + intros c Hc. apply in_flat_map in Hc. destruct Hc as [s [Hs Hc]]. now apply (H s Hs).
Qed.

Lemma wf_of_kshape s : forall M, kshape s = true -> uses_ok M s -> wf_stmt M s = true /\ decl s = [].
Proof.
  induction s as [cs|vs|vs|l ty v|l ts|l ts|l ts pf|ss IH] using stmt_ind2; intros M K [U1 U2];
    cbn [kshape] in K; try discriminate; cbn [wf_stmt decl stmt_mvs stmt_nullary] in *.
  - split; [|reflexivity]. rewrite K. cbn [andb]. now apply forallb_mem_incl.
  - split; [|reflexivity]. apply mem_In. apply U1. now left.
  - apply andb_true_iff in K. destruct K as [K1 K2]. split; [|reflexivity]. rewrite K1. cbn [andb].
    apply wf_terms_split. auto.
  - apply andb_true_iff in K. destruct K as [K1 K2]. split; [|reflexivity]. rewrite K1. cbn [andb].
    apply wf_terms_split. auto.
  - apply andb_true_iff in K. destruct K as [K K3]. apply andb_true_iff in K. destruct K as [K1 K2].
    split; [|reflexivity]. rewrite K1. cbn [andb].
    replace (wf_terms M ts) with true by (symmetry; apply wf_terms_split; auto).
    destruct pf; [reflexivity|discriminate].
  - rewrite go_kshape in K. rewrite go_wf_stmts.
    assert (U : Forall (uses_ok M) ss) by (apply uses_ok_block; split; assumption).
    clear U1 U2. induction ss as [|a ss IHss]; [split; reflexivity|].
    inversion IH as [|? ? IHa IHr]; subst. inversion U as [|? ? Ua Ur]; subst.
    cbn [forallb] in K. apply andb_true_iff in K. destruct K as [Ka Kr].
    destruct (IHa M Ka Ua) as [Wa Da]. destruct (IHss IHr Kr Ur) as [Wr Dr].
    cbn [wf_stmts flat_map]. rewrite Wa, Da, app_nil_r. split; [exact Wr|exact Dr].
Qed.

Lemma nodecl_decl s : nodecl s = true -> decl s = [].
Proof.
  induction s as [cs|vs|vs|l ty v|l ts|l ts|l ts pf|ss IH] using stmt_ind2; intros N;
    cbn [nodecl decl] in *; try reflexivity; try discriminate.
  rewrite go_nodecl in N. induction ss as [|a ss IHss]; [reflexivity|].
  inversion IH as [|? ? IHa IHr]; subst. cbn [forallb] in N. apply andb_true_iff in N. destruct N as [Na Nr].
  cbn [flat_map]. rewrite (IHa Na), (IHss IHr Nr). reflexivity.
Qed.

Lemma kshape_of_wf s : forall M, wf_stmt M s = true -> nodecl s = true -> kshape s = true /\ uses_ok M s.
Proof.
  induction s as [cs|vs|vs|l ty v|l ts|l ts|l ts pf|ss IH] using stmt_ind2; intros M W N;
    cbn [nodecl] in N; try discriminate; cbn [wf_stmt kshape] in *.
  - unfold uses_ok; cbn [stmt_mvs stmt_nullary].
    apply andb_true_iff in W. destruct W as [W1 W2]. split; [assumption|]. split; [|intros ? []].
    now apply forallb_mem_incl.
  - unfold uses_ok; cbn [stmt_mvs stmt_nullary].
    split; [reflexivity|]. split; [|intros ? []]. intros x [<-|[]]. now apply mem_In.
  - unfold uses_ok; cbn [stmt_mvs stmt_nullary].
    apply andb_true_iff in W. destruct W as [W1 W2]. apply wf_terms_split in W2. destruct W2 as (A & B & C).
    rewrite W1, A. split; [reflexivity|]. split; assumption.
  - unfold uses_ok; cbn [stmt_mvs stmt_nullary].
    apply andb_true_iff in W. destruct W as [W1 W2]. apply wf_terms_split in W2. destruct W2 as (A & B & C).
    rewrite W1, A. split; [reflexivity|]. split; assumption.
  - unfold uses_ok; cbn [stmt_mvs stmt_nullary].
    apply andb_true_iff in W. destruct W as [W W3]. apply andb_true_iff in W. destruct W as [W1 W2].
    apply wf_terms_split in W2. destruct W2 as (A & B & C).
    rewrite W1, A. destruct pf; [|discriminate]. split; [reflexivity|]. split; assumption.
  - rewrite go_kshape. rewrite go_wf_stmts in W. rewrite go_nodecl in N.
    rewrite uses_ok_block.
    induction ss as [|a ss IHss]; [split; [reflexivity|constructor]|].
    inversion IH as [|? ? IHa IHr]; subst.
    cbn [forallb] in N. apply andb_true_iff in N. destruct N as [Na Nr].
    cbn [wf_stmts] in W. apply andb_true_iff in W. destruct W as [Wa Wr].
    rewrite (nodecl_decl a Na), app_nil_r in Wr.
    destruct (IHa M Wa Na) as [Ka Ua]. destruct (IHss IHr Wr Nr) as [Kr Ur].
    cbn [forallb]. rewrite Ka, Kr. split; [reflexivity|]. constructor; assumption.
Qed.

(* ------------------------------------------------------------------ dictionary *)
Definition okey (kv : option string * stmt) : list string := match fst kv with Some k => [k] | None => [] end.
Definition keys (d : dict) : list string := flat_map okey d.

Lemma dict_get_In k d st : dict_get k d = Some st -> In (Some k, st) d.
Proof.
  induction d as [|[k' v] d IH]; simpl; [discriminate|].
  destruct k' as [x|]; cbn [key_eqb].
  - destruct (String.eqb_spec k x) as [->|Hne].
    + intros H. injection H as <-. now left.
    + intros H. right. auto.
  - intros H. right. auto.
Qed.

Lemma dict_get_unique d : NoDup (keys d) -> forall k st, In (Some k, st) d -> dict_get k d = Some st.
Proof.
  induction d as [|[k' v] d IH]; intros ND k st Hin; [destruct Hin|].
  simpl. destruct Hin as [E|Hin].
  - injection E as -> ->. cbn [key_eqb]. now rewrite String.eqb_refl.
  - destruct k' as [x|]; cbn [key_eqb].
    + unfold keys in ND. cbn [flat_map okey fst app] in ND. inversion ND as [|? ? Hx ND']; subst.
      destruct (String.eqb_spec k x) as [->|Hne].
      * exfalso. apply Hx. apply in_flat_map. exists (Some x, st). split; [assumption|now left].
      * now apply IH.
    + unfold keys in ND. cbn [flat_map okey fst app] in ND. now apply IH.
Qed.

Lemma dict_set_In k v d kv : In kv (dict_set k v d) -> kv = (Some k, v) \/ In kv d.
Proof.
  induction d as [|[k' v'] d IH]; simpl.
  - intros [<-|[]]. now left.
  - destruct (key_eqb k k').
    + intros [<-|H]; [now left|right; now right].
    + intros [<-|H]; [right; now left|]. destruct (IH H) as [->|H']; [now left|right; now right].
Qed.

Lemma dict_set_keys k v d x : In x (keys (dict_set k v d)) -> x = k \/ In x (keys d).
Proof.
  intros H. apply in_flat_map in H. destruct H as [kv [Hkv Hx]].
  apply dict_set_In in Hkv. destruct Hkv as [->|Hkv].
  - destruct Hx as [<-|[]]. now left.
  - right. apply in_flat_map. eauto.
Qed.

Lemma dict_set_nodup k v d : NoDup (keys d) -> NoDup (keys (dict_set k v d)).
Proof.
  induction d as [|[k' v'] d IH]; intros ND.
  - simpl. constructor; [intros []|constructor].
  - simpl. destruct k' as [x|]; cbn [key_eqb].
    + unfold keys in *. cbn [flat_map okey fst app] in ND. inversion ND as [|? ? Hx ND']; subst.
      destruct (String.eqb_spec k x) as [->|Hne].
      * cbn [flat_map okey fst app]. constructor; assumption.
      * cbn [flat_map okey fst app]. constructor; [|now apply IH].
        intros H. apply (dict_set_keys k v d x) in H. destruct H as [->|H]; [congruence|contradiction].
    + unfold keys in *. cbn [flat_map okey fst app] in *. now apply IH.
Qed.

Lemma keys_app (d1 d2 : dict) : keys (d1 ++ d2)%list = (keys d1 ++ keys d2)%list.
Proof. unfold keys. apply flat_map_app. Qed.

(* ------------------------------------------------------------------ match_axiom / deconstruct_provable *)
Lemma ma_loop_ok : forall f q last l, ma_loop f q last = MAx l ->
  forallb nodecl q = true /\
  (exists ts, (In (SA l ts) q \/ last = Some (SA l ts)) \/ exists b, In b q /\ In l (stmt_labels b)).
Proof.
  induction f as [|f IH]; intros q last l H; [discriminate|].
  cbn [ma_loop] in H. destruct q as [|s q'].
  - destruct last as [[]|]; try discriminate. injection H as ->. split; [reflexivity|].
    eexists. left. right. reflexivity.
  - assert (Hnb : (forall ss, s <> SB ss) -> ok_in_axiom_block s = true -> ma_loop f q' (Some s) = MAx l ->
                  forallb nodecl (s :: q') = true /\
                  (exists ts, (In (SA l ts) (s :: q') \/ last = Some (SA l ts)) \/
                              exists b, In b (s :: q') /\ In l (stmt_labels b))).
    { intros Hs Hok H'. apply IH in H'. destruct H' as [N [ts R]]. split.
      - cbn [forallb]. rewrite N. destruct s; try discriminate; try reflexivity. exfalso. now apply (Hs ss).
      - destruct R as [[R|R]|[b [Hb Hl]]].
        + exists ts. left. left. now right.
        + injection R as ->. exists ts. left. left. now left.
        + exists ts. right. exists b. split; [now right|assumption]. }
    destruct s; try discriminate; try (apply Hnb; [intros ? ?; discriminate|reflexivity|exact H]).
    (* block *)
    apply IH in H. destruct H as [N [ts R]].
    rewrite forallb_app in N. apply andb_true_iff in N. destruct N as [N1 N2]. split.
    + cbn [forallb]. rewrite nodecl_block, N2, N1. reflexivity.
    + destruct R as [[R|R]|[b [Hb Hl]]].
      * apply in_app_or in R. destruct R as [R|R].
        -- exists ts. left. left. now right.
        -- exists ts. right. exists (SB ss). split; [now left|].
           cbn [stmt_labels]. apply in_flat_map. exists (SA l ts). split; [assumption|now left].
      * discriminate.
      * apply in_app_or in Hb. destruct Hb as [Hb|Hb].
        -- exists ts. right. exists b. split; [now right|assumption].
        -- exists ts. right. exists (SB ss). split; [now left|].
           cbn [stmt_labels]. apply in_flat_map. eauto.
Qed.

Lemma match_axiom_ok st l : match_axiom st = MAx l -> nodecl st = true /\ In l (stmt_labels st).
Proof.
  destruct st; cbn [match_axiom]; try discriminate.
  - intros H. injection H as ->. split; [reflexivity|now left].
  - intros H. apply ma_loop_ok in H. destruct H as [N [ts R]]. split; [now rewrite nodecl_block|].
    cbn [stmt_labels]. destruct R as [[R|R]|[b [Hb Hl]]].
    + apply in_flat_map. exists (SA l ts). split; [assumption|now left].
    + discriminate.
    + apply in_flat_map. eauto.
Qed.

Lemma forallb_rev {A} (f : A -> bool) l : forallb f (rev l) = forallb f l.
Proof.
  induction l as [|a l IH]; [reflexivity|]. simpl. rewrite forallb_app, IH. simpl.
  rewrite andb_true_r. apply andb_comm.
Qed.

Lemma deconstruct_provable_ok st ants l ts pf :
  deconstruct_provable st = Some (ants, l, ts, pf) ->
  forallb is_SD_SE ants = true /\ (st = SP l ts pf /\ ants = [] \/ st = SB (ants ++ [SP l ts pf])).
Proof.
  destruct st; cbn [deconstruct_provable]; try discriminate.
  - intros H. injection H as <- <- <- <-. split; [reflexivity|now left].
  - destruct (rev ss) as [|last rants] eqn:E; [discriminate|].
    destruct last; try discriminate.
    destruct (forallb is_SD_SE rants) eqn:F; [|discriminate].
    intros H. injection H as <- <- <- <-. split; [now rewrite forallb_rev|].
    right. f_equal. rewrite <- (rev_involutive ss), E. reflexivity.
Qed.

(* ------------------------------------------------------------------ constants *)
Lemma term_syms_consts t x : In x (term_syms t) -> x = LP \/ x = RP \/ In x (term_consts t).
Proof.
  induction t as [y|c args IH] using term_ind2; cbn [term_syms term_consts]; [intros []|].
  destruct args as [|a args].
  - intros [<-|[]]. right. right. now left.
  - intros [<-|[<-|H]]; [now left|right; right; now left|].
    apply in_app_or in H. destruct H as [H|[<-|[]]]; [|right; now left].
    apply in_flat_map in H. destruct H as [t [Ht Hx]].
    rewrite Forall_forall in IH. destruct (IH t Ht Hx) as [->|[->|H]]; [now left|right; now left|].
    right. right. right. apply in_flat_map. eauto.
Qed.

Lemma stmts_consts_In l cs : stmts_consts l = Some cs ->
  forall st, In st l -> exists c, stmt_consts st = Some c /\ incl c cs.
Proof.
  revert cs. induction l as [|a l IH]; intros cs H st Hst; [destruct Hst|].
  cbn [stmts_consts] in H. destruct (stmt_consts a) as [x|] eqn:E; [|discriminate].
  destruct (stmts_consts l) as [y|]; [|discriminate]. injection H as <-.
  destruct Hst as [->|Hst].
  - exists x. split; [assumption|]. apply incl_appl, incl_refl.
  - destruct (IH y eq_refl st Hst) as [c [H1 H2]]. exists c. split; [assumption|]. now apply incl_appr.
Qed.

Lemma go_stmt_consts l :
  (fix go (l : list stmt) : option (list string) :=
     match l with
     | [] => Some []
     | a :: l' => match stmt_consts a, go l' with Some x, Some y => Some (x ++ y)%list | _, _ => None end
     end) l = stmts_consts l.
Proof. induction l as [|a l IH]; [reflexivity|]. cbn [stmts_consts]. now rewrite IH. Qed.

Lemma go_chk l : forall cs vs,
  (fix go (cs' vs' : list string) (l : list stmt) : bool :=
     match l with
     | [] => true
     | a :: l' => match chk_stmt cs' vs' a with Some (c2, v2) => go c2 v2 l' | None => false end
     end) cs vs l = chk_stmts cs vs l.
Proof.
  induction l as [|a l IH]; intros cs vs; [reflexivity|]. cbn [chk_stmts].
  destruct (chk_stmt cs vs a) as [[c2 v2]|]; [apply IH|reflexivity].
Qed.

Lemma forallb_mem_incl' (l m : list string) : incl l m -> forallb (fun v => mem v m) l = true.
Proof. apply forallb_mem_incl. Qed.

(** a kept statement type-checks against the slice's declarations *)
Lemma chk_kept st : forall C M c, nodecl st = true -> stmt_consts st = Some c -> incl c C ->
  In LP C -> In RP C -> incl (stmt_mvs st) M -> chk_stmt C M st = Some (C, M).
Proof.
  induction st as [cs|vs|vs|l ty v|l ts|l ts|l ts pf|ss IH] using stmt_ind2; intros C M c N SC IC HL HR IM;
    cbn [nodecl] in N; try discriminate; cbn [chk_stmt stmt_consts stmt_mvs] in *.
  - now rewrite (forallb_mem_incl' _ _ IM).
  - injection SC as <-.
    replace (mem ty C) with true by (symmetry; apply mem_In, IC; now left).
    replace (mem v M) with true by (symmetry; apply mem_In, IM; now left). reflexivity.
  - injection SC as <-. rewrite (forallb_mem_incl' _ _ IM).
    replace (forallb (fun c => mem c C) (flat_map term_syms ts)) with true; [reflexivity|].
    symmetry. apply forallb_mem_incl. intros x Hx. apply in_flat_map in Hx. destruct Hx as [t [Ht Hx]].
    destruct (term_syms_consts t x Hx) as [->|[->|H]]; try assumption. apply IC. apply in_flat_map. eauto.
  - injection SC as <-. rewrite (forallb_mem_incl' _ _ IM).
    replace (forallb (fun c => mem c C) (flat_map term_syms ts)) with true; [reflexivity|].
    symmetry. apply forallb_mem_incl. intros x Hx. apply in_flat_map in Hx. destruct Hx as [t [Ht Hx]].
    destruct (term_syms_consts t x Hx) as [->|[->|H]]; try assumption. apply IC. apply in_flat_map. eauto.
  - injection SC as <-. rewrite (forallb_mem_incl' _ _ IM).
    replace (forallb (fun c => mem c C) (flat_map term_syms ts)) with true; [reflexivity|].
    symmetry. apply forallb_mem_incl. intros x Hx. apply in_flat_map in Hx. destruct Hx as [t [Ht Hx]].
    destruct (term_syms_consts t x Hx) as [->|[->|H]]; try assumption. apply IC. apply in_flat_map. eauto.
  - rewrite go_chk. rewrite go_nodecl in N. rewrite go_stmt_consts in SC.
    replace (chk_stmts C M ss) with true; [reflexivity|]. symmetry.
    revert c SC IC IM. induction ss as [|a ss IHss]; intros c SC IC IM; [reflexivity|].
    inversion IH as [|? ? IHa IHr]; subst.
    cbn [forallb] in N. apply andb_true_iff in N. destruct N as [Na Nr].
    cbn [stmts_consts] in SC. destruct (stmt_consts a) as [x|] eqn:Ea; [|discriminate].
    destruct (stmts_consts ss) as [y|] eqn:Es; [|discriminate]. injection SC as <-.
    cbn [chk_stmts]. rewrite (IHa C M x Na eq_refl).
    + apply (IHss IHr Nr y eq_refl).
      * intros z Hz. apply IC. apply in_or_app. now right.
      * intros z Hz. apply IM. cbn [flat_map]. apply in_or_app. now right.
    + intros z Hz. apply IC. apply in_or_app. now left.
    + assumption.
    + assumption.
    + intros z Hz. apply IM. cbn [flat_map]. apply in_or_app. now left.
Qed.

Lemma chk_stmts_kept l : forall C M cs, Forall (fun st => nodecl st = true /\ incl (stmt_mvs st) M) l ->
  stmts_consts l = Some cs -> incl cs C -> In LP C -> In RP C -> forall rest,
  chk_stmts C M (l ++ rest) = chk_stmts C M rest.
Proof.
  induction l as [|a l IH]; intros C M cs F SC IC HL HR rest; [reflexivity|].
  inversion F as [|? ? [Na Ma] Fr]; subst.
  cbn [stmts_consts] in SC. destruct (stmt_consts a) as [x|] eqn:Ea; [|discriminate].
  destruct (stmts_consts l) as [y|] eqn:Es; [|discriminate]. injection SC as <-.
  cbn [app chk_stmts]. rewrite (chk_kept a C M x Na Ea); try assumption.
  - apply (IH C M y Fr eq_refl); try assumption. intros z Hz. apply IC, in_or_app. now right.
  - intros z Hz. apply IC, in_or_app. now left.
Qed.

Lemma wf_header C M rest : C <> [] ->
  wf_stmts [] (SC C :: (match M with [] => [] | _ => [SV M] end) ++ rest) = wf_stmts M rest.
Proof. intros HC. destruct C; [congruence|]. destruct M; reflexivity. Qed.

Lemma chk_header C M rest :
  chk_stmts [] [] (SC C :: (match M with [] => [] | _ => [SV M] end) ++ rest) = chk_stmts C M rest.
Proof. destruct M; reflexivity. Qed.

(* ------------------------------------------------------------------ the invariant of slice_loop *)
Section Inv.
  Variable V Z : list string.
  Hypothesis disj : forall c, In c Z -> ~ In c V.

  Definition entry_ok (st : stmt) : Prop :=
    kshape st = true /\ nodecl st = true /\ incl (stmt_mvs st) V /\ incl (stmt_nullary st) Z.
  Definition src_ok (st : stmt) : Prop :=
    exists M0, incl M0 V /\ wf_stmt M0 st = true /\ incl (stmt_nullary st) Z.
  Definition kv_ok (kv : option string * stmt) : Prop :=
    entry_ok (snd kv) /\ match fst kv with Some k => In k (stmt_labels (snd kv)) | None => True end.
  Definition cut_inv (cut : dict) : Prop := Forall kv_ok cut /\ NoDup (keys cut).

  Lemma src_entry st : src_ok st -> nodecl st = true -> entry_ok st.
  Proof.
    intros (M0 & HM & W & HZ) N. destruct (kshape_of_wf st M0 W N) as [K [U1 U2]].
    repeat split; try assumption. intros x Hx. apply HM, U1, Hx.
  Qed.

  Lemma entry_wf st M : entry_ok st -> incl (stmt_mvs st) M -> incl M V -> wf_stmt M st = true /\ decl st = [].
  Proof.
    intros (K & N & HV & HZ) HM HMV. apply wf_of_kshape; [assumption|]. split; [assumption|].
    intros c Hc Hin. apply (disj c); [apply HZ, Hc|apply HMV, Hin].
  Qed.

  Lemma cut_inv_set k v cut : cut_inv cut -> entry_ok v -> In k (stmt_labels v) -> cut_inv (dict_set k v cut).
  Proof.
    intros [F ND] Hv Hk. split; [|now apply dict_set_nodup].
    apply Forall_forall. intros kv Hkv. apply dict_set_In in Hkv. destruct Hkv as [->|Hkv].
    - split; assumption.
    - rewrite Forall_forall in F. now apply F.
  Qed.

  Lemma cut_inv_anon v cut : cut_inv cut -> entry_ok v -> cut_inv (dict_add_anon v cut).
  Proof.
    intros [F ND] Hv. unfold dict_add_anon. split.
    - apply Forall_app. split; [assumption|]. constructor; [|constructor]. split; [assumption|exact I].
    - rewrite keys_app. unfold keys at 2. cbn. now rewrite app_nil_r.
  Qed.

  Lemma wf_stmts_nodecl M l : Forall (fun st => wf_stmt M st = true /\ decl st = []) l -> forall rest,
    wf_stmts M (l ++ rest) = wf_stmts M rest.
  Proof.
    induction l as [|a l IH]; intros F rest; [reflexivity|].
    inversion F as [|? ? [Wa Da] Fr]; subst. cbn [app wf_stmts]. rewrite Wa, Da, app_nil_r. now apply IH.
  Qed.

  Lemma proof_labels_some pf labels : proof_labels pf = Some labels -> is_some pf = true.
  Proof. destruct pf; [reflexivity|discriminate]. Qed.

  (** the heart: what [supporting_database_for_provable] returns is a well-formed, self-declaring database *)
  Lemma supporting_good cut sd l ts pf ess s :
    cut_inv cut -> entry_ok (SP l ts pf) -> Forall entry_ok ess ->
    supporting sguards_fixed cut [] sd l ts pf ess = Some s ->
    wf_db s = true /\ declares_all s = true /\ labels_resolve s.
  Proof.
    intros [CF ND] EP EE H. unfold supporting in H.
    destruct (proof_labels pf) as [labels|] eqn:EL; [|discriminate].
    set (n1 := (labels ++ flat_map (sugar_of cut) labels)%list) in *.
    set (n2 := (n1 ++ flat_map (fun x => match assoc_get x sd with Some d => d | None => [] end) n1)%list) in *.
    destruct (map_opt (fun x => dict_get x cut) n2) as [nst|] eqn:EN; [|discriminate].
    set (top_ess := filter is_SE (map snd cut)) in *.
    set (all := (SP l ts pf :: ess ++ top_ess ++ nst)%list) in *.
    destruct (stmts_consts all) as [cs|] eqn:ECS; [|discriminate].
    set (M := sort_uniq (flat_map stmt_mvs all)) in *.
    set (kept := flat_map (keep_entry sguards_fixed n2 M) cut) in *.
    cbn [g_float_consts sguards_fixed] in H.
    destruct (stmts_consts kept) as [cs2|] eqn:ECS2; [|discriminate].
    injection H as <-. cbn [filter map app].
    set (C := sort_uniq (builtins ++ cs ++ cs2)).
    (* facts *)
    assert (HallM : forall st, In st all -> incl (stmt_mvs st) M).
    { intros st Hst x Hx. apply sort_uniq_In. apply in_flat_map. eauto. }
    assert (Hall_ok : forall st, In st all -> entry_ok st).
    { intros st [<-|Hst]; [assumption|]. apply in_app_or in Hst. destruct Hst as [Hst|Hst].
      - rewrite Forall_forall in EE. now apply EE.
      - apply in_app_or in Hst. destruct Hst as [Hst|Hst].
        + apply filter_In in Hst. destruct Hst as [Hst _]. apply in_map_iff in Hst.
          destruct Hst as [kv [<- Hkv]]. rewrite Forall_forall in CF. now apply (CF kv Hkv).
        + destruct (map_opt_In_rev _ _ _ EN st Hst) as [k [_ Hk]]. apply dict_get_In in Hk.
          rewrite Forall_forall in CF. now apply (CF _ Hk). }
    assert (HMV : incl M V).
    { intros x Hx. unfold M in Hx. apply (proj1 (sort_uniq_In _ _)) in Hx.
      apply in_flat_map in Hx. destruct Hx as [st [Hst Hx]].
      destruct (Hall_ok st Hst) as (_ & _ & HV & _). now apply HV. }
    assert (Hkept : forall st, In st kept ->
              entry_ok st /\ incl (stmt_mvs st) M /\ wf_stmt M st = true /\ decl st = []).
    { intros st Hst. apply in_flat_map in Hst. destruct Hst as [kv [Hkv Hst]].
      rewrite Forall_forall in CF. destruct (CF kv Hkv) as [Ekv Lkv].
      unfold keep_entry in Hst. destruct kv as [k st0]. cbn [fst snd] in *.
      assert (Hgen : (key_in k n2 || match st0 with SF _ _ v => mem v M | SE _ _ => true | _ => false end) = true ->
                     incl (stmt_mvs st0) M).
      { intros Hk. apply orb_true_iff in Hk. destruct Hk as [Hk|Hk].
        - destruct k as [k|]; [|discriminate]. cbn [key_in] in Hk. apply mem_In in Hk.
          destruct (map_opt_In _ _ _ EN k Hk) as [b [Hb Hbin]].
          rewrite (dict_get_unique cut ND k st0 Hkv) in Hb. injection Hb as <-.
          apply HallM. right. apply in_or_app. right. apply in_or_app. now right.
        - destruct st0; try discriminate.
          + cbn [stmt_mvs]. intros x [<-|[]]. now apply mem_In.
          + apply HallM. right. apply in_or_app. right. apply in_or_app. left.
            apply filter_In. split; [|reflexivity]. apply in_map_iff. exists (k, SE l0 ts0). split; [reflexivity|assumption]. }
      assert (Hns : In st (if key_in k n2 || match st0 with SF _ _ v => mem v M | SE _ _ => true | _ => false end
                           then [st0] else []) ->
                    entry_ok st /\ incl (stmt_mvs st) M /\ wf_stmt M st = true /\ decl st = []).
      { intros Hst'.
        destruct (key_in k n2 || match st0 with SF _ _ v => mem v M | SE _ _ => true | _ => false end) eqn:Ek;
          [|destruct Hst'].
        destruct Hst' as [<-|[]]. pose proof (Hgen eq_refl) as HM0.
        destruct (entry_wf _ M Ekv HM0 HMV) as [W D]. repeat split; try assumption; apply Ekv. }
      destruct st0 as [cs0|vs0|vs0|l0 ty0 v0|l0 ts0|l0 ts0|l0 ts0 pf0|ss0]; try (apply Hns; exact Hst).
      clear Hns.
      (* SD: restricted to the declared variables *)
      destruct (Nat.leb 2 (length (filter (fun v => mem v M) vs0))) eqn:E2; [|destruct Hst].
      destruct Hst as [<-|[]].
      assert (HinM : incl (filter (fun v => mem v M) vs0) M).
      { intros x Hx. apply filter_In in Hx. now apply mem_In. }
      assert (Hnn : nonnil (filter (fun v => mem v M) vs0) = true).
      { destruct (filter (fun v => mem v M) vs0); [discriminate|reflexivity]. }
      split; [|split; [|split]].
      - repeat split; cbn [kshape nodecl stmt_mvs stmt_nullary]; try assumption; try reflexivity.
        + intros x Hx. now apply HMV, HinM.
        + intros x [].
      - exact HinM.
      - cbn [wf_stmt]. rewrite Hnn. cbn [andb]. now apply forallb_mem_incl.
      - reflexivity. }
    assert (Hblock : entry_ok (SB (ess ++ [SP l ts pf])) /\ incl (stmt_mvs (SB (ess ++ [SP l ts pf]))) M).
    { assert (Hin : forall st, In st (ess ++ [SP l ts pf]) -> In st all).
      { intros st Hst. apply in_app_or in Hst. destruct Hst as [Hst|[<-|[]]]; [|now left].
        right. apply in_or_app. now left. }
      split.
      - repeat split.
        + rewrite kshape_block. apply forallb_forall. intros st Hst. now apply (Hall_ok st (Hin st Hst)).
        + rewrite nodecl_block. apply forallb_forall. intros st Hst. now apply (Hall_ok st (Hin st Hst)).
        + cbn [stmt_mvs]. intros x Hx. apply in_flat_map in Hx. destruct Hx as [st [Hst Hx]].
          destruct (Hall_ok st (Hin st Hst)) as (_ & _ & HV & _). now apply HV.
        + cbn [stmt_nullary]. intros x Hx. apply in_flat_map in Hx. destruct Hx as [st [Hst Hx]].
          destruct (Hall_ok st (Hin st Hst)) as (_ & _ & _ & HZ). now apply HZ.
      - cbn [stmt_mvs]. intros x Hx. apply in_flat_map in Hx. destruct Hx as [st [Hst Hx]].
        now apply (HallM st (Hin st Hst)). }
    destruct Hblock as [EB MB].
    assert (HC : C <> []) by (apply sort_uniq_nonnil; discriminate).
    assert (HLP : In LP C) by (apply sort_uniq_In; now left).
    assert (HRP : In RP C) by (apply sort_uniq_In; right; now left).
    split; [|split].
    - (* wf_db *)
      unfold wf_db. rewrite wf_header by exact HC.
      rewrite wf_stmts_nodecl.
      + destruct (entry_wf _ M EB MB HMV) as [W D]. cbn [wf_stmts]. now rewrite W.
      + apply Forall_forall. intros st Hst. now apply Hkept.
    - (* declares_all *)
      unfold declares_all. rewrite chk_header.
      { rewrite (chk_stmts_kept kept C M cs2); try assumption.
        - destruct (stmts_consts_In all cs ECS (SP l ts pf) (or_introl eq_refl)) as [cP [HcP IcP]].
          assert (Hcb : exists cb, stmt_consts (SB (ess ++ [SP l ts pf])) = Some cb /\ incl cb cs).
          { cbn [stmt_consts]. rewrite go_stmt_consts.
            assert (Hin : forall st, In st (ess ++ [SP l ts pf]) -> In st all).
            { intros st Hst. apply in_app_or in Hst. destruct Hst as [Hst|[<-|[]]]; [|now left].
              right. apply in_or_app. now left. }
            revert Hin. generalize (ess ++ [SP l ts pf])%list. intros q. induction q as [|a q IHq]; intros Hin.
            - exists []. split; [reflexivity|intros ? []].
            - destruct (stmts_consts_In all cs ECS a (Hin a (or_introl eq_refl))) as [ca [Hca Ica]].
              destruct IHq as [cq [Hcq Icq]]; [intros st Hst; apply Hin; now right|].
              exists (ca ++ cq)%list. cbn [stmts_consts]. rewrite Hca, Hcq. split; [reflexivity|].
              now apply incl_app. }
          destruct Hcb as [cb [Hcb Icb]].
          cbn [chk_stmts]. rewrite (chk_kept _ C M cb); try assumption; try reflexivity.
          + now destruct EB as (_ & N & _).
          + intros x Hx. apply sort_uniq_In. apply in_or_app. right. apply in_or_app. left. now apply Icb.
        - apply Forall_forall. intros st Hst. destruct (Hkept st Hst) as ((_ & N & _) & HM & _). split; assumption.
        - intros x Hx. apply sort_uniq_In. apply in_or_app. right. apply in_or_app. now right. }
    - (* labels_resolve *)
      exists (SC C :: (match M with [] => [] | _ => [SV M] end) ++ kept)%list, ess, l, ts, pf, labels.
      split; [|split; [assumption|]].
      + cbn [app]. now rewrite <- app_assoc.
      + intros x Hx.
        assert (Hx2 : In x n2) by (apply in_or_app; left; apply in_or_app; now left).
        destruct (map_opt_In _ _ _ EN x Hx2) as [st [Hst _]].
        pose proof (dict_get_In _ _ _ Hst) as Hin.
        rewrite Forall_forall in CF. destruct (CF _ Hin) as [_ Hlab]. cbn [fst snd] in Hlab.
        assert (Hk : In st kept).
        { apply in_flat_map. exists (Some x, st). split; [assumption|].
          unfold keep_entry. cbn [fst snd key_in].
          replace (mem x n2) with true by (symmetry; now apply mem_In).
          destruct st; try (now left). destruct Hlab. }
        cbn [flat_map stmt_labels app]. rewrite flat_map_app. apply in_or_app. right.
        apply in_flat_map. exists st. split; assumption.
  Qed.
End Inv.

(* ------------------------------------------------------------------ slice_loop *)
Section Loop.
  Variable V Z : list string.
  Hypothesis disj : forall c, In c Z -> ~ In c V.
  Variable sd : list (string * list string).
  Variable incl_ excl_ : list string.

  Notation entry_ok := (entry_ok V Z).
  Notation src_ok := (src_ok V Z).
  Notation cut_inv := (cut_inv V Z).

  Lemma entry_ok_block ss : entry_ok (SB ss) <-> Forall entry_ok ss.
  Proof.
    unfold SliceProofs.entry_ok. rewrite kshape_block, nodecl_block. cbn [stmt_mvs stmt_nullary].
    rewrite Forall_forall, !forallb_forall. split.
    - intros (K & N & HV & HZ) st Hst. repeat split; [now apply K|now apply N| |].
      + intros x Hx. apply HV, in_flat_map. eauto.
      + intros x Hx. apply HZ, in_flat_map. eauto.
    - intros H. repeat split.
      + intros st Hst. now apply (H st Hst).
      + intros st Hst. now apply (H st Hst).
      + intros x Hx. apply in_flat_map in Hx. destruct Hx as [st [Hst Hx]]. now apply (H st Hst).
      + intros x Hx. apply in_flat_map in Hx. destruct Hx as [st [Hst Hx]]. now apply (H st Hst).
  Qed.

  Lemma entry_ok_SP_SA l ts pf : entry_ok (SP l ts pf) -> entry_ok (SA l ts).
  Proof.
    intros (K & N & HV & HZ). repeat split; try assumption.
    cbn [kshape] in *. apply andb_true_iff in K. now destruct K.
  Qed.

  Lemma SD_SE_nodecl ants : forallb is_SD_SE ants = true -> forallb nodecl ants = true.
  Proof.
    rewrite !forallb_forall. intros H st Hst. specialize (H st Hst). destruct st; try discriminate; reflexivity.
  Qed.

  Definition good (s : database) : Prop := wf_db s = true /\ declares_all s = true /\ labels_resolve s.

  Lemma slice_loop_good : forall stmts cut, Forall src_ok stmts -> cut_inv cut ->
    forall l s, In (l, s) (fst (slice_loop sguards_fixed sd incl_ excl_ stmts cut [])) -> good s.
  Proof.
    induction stmts as [|st rest IH]; intros cut F CI l s Hin; [destruct Hin|].
    inversion F as [|? ? Hst Fr]; subst.
    cbn [slice_loop] in Hin.
    assert (Hax : forall k, match_axiom st = MAx k ->
              In (l, s) (fst (slice_loop sguards_fixed sd incl_ excl_ rest (dict_set k st cut) [])) -> good s).
    { intros k Hk Hin'. destruct (match_axiom_ok st k Hk) as [N Hl].
      eapply (IH (dict_set k st cut)); [exact Fr| |exact Hin'].
      apply cut_inv_set; try assumption. now apply src_entry. }
    assert (Hprov : match_axiom st = MNone ->
              In (l, s) (fst (match deconstruct_provable st with
                  | None => ([], true)
                  | Some (ants, l0, ts, pf) =>
                      let cut' := dict_set l0 (construct_axiom ants l0 ts) cut in
                      if mem l0 incl_ && negb (mem l0 excl_) then
                        match supporting sguards_fixed cut [] sd l0 ts pf ants with
                        | None => ([], true)
                        | Some s0 => let (ys, c) := slice_loop sguards_fixed sd incl_ excl_ rest cut' [] in ((l0, s0) :: ys, c)
                        end
                      else slice_loop sguards_fixed sd incl_ excl_ rest cut' []
                  end)) -> good s).
    { intros _ Hin'.
      destruct (deconstruct_provable st) as [[[[ants l0] ts] pf]|] eqn:ED; [|destruct Hin'].
      destruct (deconstruct_provable_ok _ _ _ _ _ ED) as [HA Hform].
      assert (Nst : nodecl st = true).
      { destruct Hform as [[-> _]| ->]; [reflexivity|]. rewrite nodecl_block, forallb_app.
        rewrite (SD_SE_nodecl _ HA). reflexivity. }
      pose proof (src_entry V Z st Hst Nst) as Est.
      assert (EP : entry_ok (SP l0 ts pf) /\ Forall entry_ok ants).
      { destruct Hform as [[-> ->]| ->]; [split; [assumption|constructor]|].
        apply entry_ok_block in Est. apply Forall_app in Est. destruct Est as [E1 E2].
        inversion E2; subst. split; assumption. }
      destruct EP as [EP EA].
      assert (CI' : cut_inv (dict_set l0 (construct_axiom ants l0 ts) cut)).
      { apply cut_inv_set; try assumption.
        - unfold construct_axiom. destruct ants as [|a ants']; [now apply entry_ok_SP_SA in EP|].
          apply entry_ok_block. apply Forall_app. split; [assumption|].
          constructor; [now apply entry_ok_SP_SA in EP|constructor].
        - unfold construct_axiom. destruct ants as [|a ants']; [now left|].
          cbn [stmt_labels]. rewrite flat_map_app. apply in_or_app. right. now left. }
      cbv zeta in Hin'.
      destruct (mem l0 incl_ && negb (mem l0 excl_)).
      - destruct (supporting sguards_fixed cut [] sd l0 ts pf ants) as [s0|] eqn:ES; [|destruct Hin'].
        destruct (slice_loop sguards_fixed sd incl_ excl_ rest (dict_set l0 (construct_axiom ants l0 ts) cut) [])
          as [ys c] eqn:EY.
        cbn [fst In] in Hin'. destruct Hin' as [E|Hin'].
        + injection E as <- <-. destruct CI as [CF ND].
          apply (supporting_good V Z disj cut sd l0 ts pf ants s0); try assumption. split; assumption.
        + apply (IH _ Fr CI' l s). rewrite EY. exact Hin'.
      - apply (IH _ Fr CI' l s Hin'). }
    destruct st as [cs|vs|vs|l0 ty v|l0 ts|l0 ts|l0 ts pf|ss].
    - eapply (IH cut); eassumption.
    - eapply (IH cut); eassumption.
    - cbn [g_d_in_place sguards_fixed] in Hin. eapply (IH (dict_add_anon (SD vs) cut)); [exact Fr| |exact Hin].
      apply cut_inv_anon; [assumption|]. now apply src_entry.
    - eapply (IH (dict_set l0 (SF l0 ty v) cut)); [exact Fr| |exact Hin].
      apply cut_inv_set; [assumption| |now left]. now apply src_entry.
    - cbn [g_top_essential sguards_fixed] in Hin. eapply (IH (dict_set l0 (SE l0 ts) cut)); [exact Fr| |exact Hin].
      apply cut_inv_set; [assumption| |now left]. now apply src_entry.
    - destruct (match_axiom (SA l0 ts)) as [| |k] eqn:EM; [destruct Hin|now apply Hprov|now apply (Hax k)].
    - destruct (match_axiom (SP l0 ts pf)) as [| |k] eqn:EM; [destruct Hin|now apply Hprov|now apply (Hax k)].
    - destruct (match_axiom (SB ss)) as [| |k] eqn:EM; [destruct Hin|now apply Hprov|now apply (Hax k)].
  Qed.
End Loop.

Lemma wf_src V Z : forall db M, wf_stmts M db = true -> incl (M ++ decls db) V -> incl (db_nullary db) Z ->
  Forall (src_ok V Z) db.
Proof.
  induction db as [|a db IH]; intros M W HV HZ; [constructor|].
  cbn [wf_stmts] in W. apply andb_true_iff in W. destruct W as [Wa Wr].
  unfold decls, db_nullary in *. cbn [flat_map] in *.
  constructor.
  - exists M. split; [|split; [assumption|]].
    + intros x Hx. apply HV. apply in_or_app. now left.
    + intros x Hx. apply HZ. apply in_or_app. now left.
  - apply (IH (M ++ decl a)%list Wr).
    + rewrite <- app_assoc. exact HV.
    + intros x Hx. apply HZ. apply in_or_app. now right.
Qed.

Theorem slice_good db sd incl_ excl_ l s :
  wf_db db = true -> consistent db = true ->
  In (l, s) (fst (slice_database sguards_fixed db sd incl_ excl_)) ->
  wf_db s = true /\ declares_all s = true /\ labels_resolve s.
Proof.
  intros W Cn Hin. unfold slice_database in Hin.
  apply (slice_loop_good (decls db) (db_nullary db)) with (sd := sd) (incl_ := incl_) (excl_ := excl_)
                                                          (stmts := db) (cut := []) (l := l).
  - intros c Hc. unfold consistent in Cn. rewrite forallb_forall in Cn. specialize (Cn c Hc).
    apply negb_true_iff in Cn. now apply mem_false.
  - apply (wf_src _ _ db []); [exact W|apply incl_refl|apply incl_refl].
  - split; [constructor|constructor].
  - exact Hin.
Qed.

(* ------------------------------------------------------------------ floating order *)
Lemma sublist_refl {A} (l : list A) : sublist l l.
Proof. induction l; [apply sl_nil|now apply sl_cons]. Qed.

Lemma sublist_trans {A} (l1 l2 l3 : list A) : sublist l1 l2 -> sublist l2 l3 -> sublist l1 l3.
Proof.
  intros H12 H23. revert l1 H12. induction H23 as [|x l2 l3 H IH|x l2 l3 H IH]; intros l1 H12.
  - assumption.
  - apply sl_skip. now apply IH.
  - inversion H12; subst.
    + apply sl_skip. now apply IH.
    + apply sl_cons. now apply IH.
Qed.

Lemma sublist_app {A} (a b c d : list A) : sublist a b -> sublist c d -> sublist (a ++ c) (b ++ d).
Proof. intros H1 H2. induction H1; cbn [app]; [assumption|now apply sl_skip|now apply sl_cons]. Qed.

Lemma sublist_nil {A} (l : list A) : sublist [] l.
Proof. induction l; [apply sl_nil|now apply sl_skip]. Qed.

Lemma sublist_app_r {A} (a b c : list A) : sublist a b -> sublist a (b ++ c).
Proof. intros H. rewrite <- (app_nil_r a). apply sublist_app; [assumption|apply sublist_nil]. Qed.

Lemma dict_set_fresh k v d : ~ In k (keys d) -> dict_set k v d = (d ++ [(Some k, v)])%list.
Proof.
  induction d as [|[k' v'] d IH]; intros H; [reflexivity|].
  simpl. destruct k' as [x|]; cbn [key_eqb].
  - unfold keys in H. cbn [flat_map okey fst app] in H.
    destruct (String.eqb_spec k x) as [->|Hne]; [exfalso; apply H; now left|].
    rewrite IH; [reflexivity|]. intros Hin. apply H. now right.
  - unfold keys in H. cbn [flat_map okey fst app] in H. now rewrite IH.
Qed.

Definition SFs (d : dict) : list stmt := filter is_SF (map snd d).

Lemma keep_SF_sublist n2 M cut : sublist (filter is_SF (flat_map (keep_entry sguards_fixed n2 M) cut)) (SFs cut).
Proof.
  unfold SFs. induction cut as [|[k st] cut IH]; [apply sl_nil|].
  cbn [flat_map map snd]. rewrite filter_app.
  assert (H1 : sublist (filter is_SF (keep_entry sguards_fixed n2 M (k, st))) (if is_SF st then [st] else [])).
  { unfold keep_entry. cbn [fst snd].
    destruct st; cbn [is_SF];
      match goal with |- context [if ?b then _ else _] => destruct b end; cbn [filter is_SF];
      repeat first [apply sl_nil | apply sl_cons | apply sl_skip]. }
  cbn [filter]. destruct (is_SF st).
  - change (st :: filter is_SF (map snd cut)) with ([st] ++ filter is_SF (map snd cut))%list.
    now apply sublist_app.
  - apply (sublist_app _ [] _ _ H1 IH).
Qed.

Lemma filter_SF_slice C (M M' : list string) kept b :
  filter is_SF (SC C :: (match M with [] => [] | _ => [SV M] end)
                ++ map (fun p => SD [fst p; snd p]) (filter (pair_in M') []) ++ kept ++ [SB b]) = filter is_SF kept.
Proof.
  destruct M; cbn [app filter is_SF map]; rewrite filter_app; cbn [filter is_SF]; apply app_nil_r.
Qed.

Lemma filter_SF_slice0 C (M : list string) kept b :
  filter is_SF (SC C :: (match M with [] => [] | _ => [SV M] end) ++ kept ++ [SB b]) = filter is_SF kept.
Proof.
  destruct M; cbn [app filter is_SF]; rewrite filter_app; cbn [filter is_SF]; apply app_nil_r.
Qed.

Lemma supporting_SFs cut sd l ts pf ess s :
  supporting sguards_fixed cut [] sd l ts pf ess = Some s -> sublist (filter is_SF s) (SFs cut).
Proof.
  unfold supporting. intros H.
  destruct (proof_labels pf); [|discriminate]. destruct (map_opt _ _); [|discriminate].
  destruct (stmts_consts _); [|discriminate].
  destruct (if g_float_consts sguards_fixed then _ else _); [|discriminate].
  injection H as <-.
  first [rewrite filter_SF_slice | rewrite filter_SF_slice0]. apply keep_SF_sublist.
Qed.

Lemma floating_loop sd incl_ excl_ : forall stmts pre cut,
  NoDup (flat_map top_label (pre ++ stmts)) -> incl (keys cut) (flat_map top_label pre) ->
  sublist (SFs cut) (filter is_SF pre) ->
  forall l s, In (l, s) (fst (slice_loop sguards_fixed sd incl_ excl_ stmts cut [])) ->
  sublist (filter is_SF s) (filter is_SF (pre ++ stmts)).
Proof.
  induction stmts as [|st rest IH]; intros pre cut ND HK HS l s Hin; [destruct Hin|].
  assert (Happ : (pre ++ st :: rest = (pre ++ [st]) ++ rest)%list) by (rewrite <- app_assoc; reflexivity).
  (* a statement stored under its top_label *)
  assert (Hstore : forall k v, top_label st = [k] -> (is_SF v = true -> v = st) -> (is_SF st = true -> v = st) ->
            In (l, s) (fst (slice_loop sguards_fixed sd incl_ excl_ rest (dict_set k v cut) [])) ->
            sublist (filter is_SF s) (filter is_SF (pre ++ st :: rest))).
  { intros k v Hk Hv1 Hv2 Hin'. rewrite Happ. apply (IH (pre ++ [st])%list (dict_set k v cut)) with (l := l).
    - rewrite <- Happ. exact ND.
    - assert (Hfresh : ~ In k (keys cut)).
      { intros Hc. apply HK in Hc. rewrite flat_map_app in ND. cbn [flat_map] in ND. rewrite Hk in ND.
        apply NoDup_remove_2 in ND. apply ND. apply in_or_app. now left. }
      rewrite (dict_set_fresh k v cut Hfresh), keys_app. rewrite flat_map_app. cbn [flat_map]. rewrite Hk.
      unfold keys at 2. cbn. apply incl_app; [now apply incl_appl|]. apply incl_appr. intros x [<-|[]]. now left.
    - assert (Hfresh : ~ In k (keys cut)).
      { intros Hc. apply HK in Hc. rewrite flat_map_app in ND. cbn [flat_map] in ND. rewrite Hk in ND.
        apply NoDup_remove_2 in ND. apply ND. apply in_or_app. now left. }
      rewrite (dict_set_fresh k v cut Hfresh). unfold SFs. rewrite map_app, !filter_app. cbn [map snd filter].
      apply sublist_app; [exact HS|].
      destruct (is_SF v) eqn:Ev.
      + rewrite (Hv1 eq_refl) in *. rewrite Ev. apply sublist_refl.
      + destruct (is_SF st) eqn:Es; [rewrite (Hv2 eq_refl) in Ev; congruence|constructor].
    - exact Hin'. }
  assert (Hskip : top_label st = [] -> is_SF st = false -> forall cut', keys cut' = keys cut -> SFs cut' = SFs cut ->
            In (l, s) (fst (slice_loop sguards_fixed sd incl_ excl_ rest cut' [])) ->
            sublist (filter is_SF s) (filter is_SF (pre ++ st :: rest))).
  { intros Hk Hs cut' K' S' Hin'. rewrite Happ. apply (IH (pre ++ [st])%list cut') with (l := l).
    - rewrite <- Happ. exact ND.
    - rewrite K', flat_map_app. now apply incl_appl.
    - rewrite S', filter_app. cbn [filter]. rewrite Hs, app_nil_r. exact HS.
    - exact Hin'. }
  cbn [slice_loop] in Hin.
  assert (Hprov : forall (Hnsf : is_SF st = false), match_axiom st = MNone ->
            (top_label st = match deconstruct_provable st with Some (_, l0, _, _) => [l0] | None => [] end) ->
            In (l, s) (fst (match deconstruct_provable st with
                | None => ([], true)
                | Some (ants, l0, ts, pf) =>
                    let cut' := dict_set l0 (construct_axiom ants l0 ts) cut in
                    if mem l0 incl_ && negb (mem l0 excl_) then
                      match supporting sguards_fixed cut [] sd l0 ts pf ants with
                      | None => ([], true)
                      | Some s0 => let (ys, c) := slice_loop sguards_fixed sd incl_ excl_ rest cut' [] in ((l0, s0) :: ys, c)
                      end
                    else slice_loop sguards_fixed sd incl_ excl_ rest cut' []
                end)) -> sublist (filter is_SF s) (filter is_SF (pre ++ st :: rest))).
  { intros Hnsf _ Htl Hin'.
    destruct (deconstruct_provable st) as [[[[ants l0] ts] pf]|] eqn:ED; [|destruct Hin'].
    cbv zeta in Hin'.
    assert (Hca : is_SF (construct_axiom ants l0 ts) = false) by (unfold construct_axiom; destruct ants; reflexivity).
    assert (Hrec : In (l, s) (fst (slice_loop sguards_fixed sd incl_ excl_ rest (dict_set l0 (construct_axiom ants l0 ts) cut) [])) ->
                   sublist (filter is_SF s) (filter is_SF (pre ++ st :: rest))).
    { apply Hstore; [assumption|intros H; congruence|intros H; congruence]. }
    destruct (mem l0 incl_ && negb (mem l0 excl_)); [|now apply Hrec].
    destruct (supporting sguards_fixed cut [] sd l0 ts pf ants) as [s0|] eqn:ES; [|destruct Hin'].
    destruct (slice_loop sguards_fixed sd incl_ excl_ rest (dict_set l0 (construct_axiom ants l0 ts) cut) []) as [ys c] eqn:EY.
    cbn [fst In] in Hin'. destruct Hin' as [E|Hin'].
    - injection E as <- <-. apply supporting_SFs in ES.
      apply (sublist_trans _ _ _ ES). apply (sublist_trans _ _ _ HS). rewrite filter_app. apply sublist_app_r, sublist_refl.
    - apply Hrec. exact Hin'. }
  destruct st as [cs|vs|vs|l0 ty v|l0 ts|l0 ts|l0 ts pf|ss].
  - apply (Hskip eq_refl eq_refl cut eq_refl eq_refl Hin).
  - apply (Hskip eq_refl eq_refl cut eq_refl eq_refl Hin).
  - cbn [g_d_in_place sguards_fixed] in Hin. apply (Hskip eq_refl eq_refl (dict_add_anon (SD vs) cut)); [| |exact Hin].
    + unfold dict_add_anon. rewrite keys_app. unfold keys at 2. cbn. now rewrite app_nil_r.
    + unfold dict_add_anon, SFs. rewrite map_app, filter_app. cbn. now rewrite app_nil_r.
  - apply (Hstore l0 (SF l0 ty v) eq_refl); auto.
  - cbn [g_top_essential sguards_fixed] in Hin. apply (Hstore l0 (SE l0 ts) eq_refl); auto.
  - cbn [match_axiom] in Hin. apply (Hstore l0 (SA l0 ts) eq_refl); auto.
  - cbn [match_axiom] in Hin. apply (Hprov eq_refl eq_refl eq_refl Hin).
  - destruct (match_axiom (SB ss)) as [| |k] eqn:EM; [destruct Hin| |].
    + apply (Hprov eq_refl eq_refl); [|exact Hin]. cbn [top_label]. now rewrite EM.
    + apply (Hstore k (SB ss)); auto. cbn [top_label]. now rewrite EM.
Qed.

Theorem slice_floating_order db sd incl_ excl_ l s :
  unique_labels db -> In (l, s) (fst (slice_database sguards_fixed db sd incl_ excl_)) ->
  floating_order_preserved db s.
Proof.
  intros U Hin. unfold floating_order_preserved.
  apply (floating_loop sd incl_ excl_ db [] [] U) with (l := l).
  - intros x [].
  - constructor.
  - exact Hin.
Qed.

Lemma assoc_get_In {A} k (d : list (string * A)) v : assoc_get k d = Some v -> In (k, v) d.
Proof.
  induction d as [|[k' v'] d IH]; simpl; [discriminate|].
  destruct (String.eqb_spec k k') as [->|_]; intros H; [injection H as ->; now left|right; auto].
Qed.

Theorem slice_self_contained_all db sd incl_ excl_ l s :
  wf_db db = true -> consistent db = true -> unique_labels db ->
  In (l, s) (fst (slice_database sguards_fixed db sd incl_ excl_)) ->
  (declares_all s = true /\ labels_resolve s) /\ floating_order_preserved db s /\ parse_db (print_db s) = Some s.
Proof.
  intros W Cn U Hin. destruct (slice_good db sd incl_ excl_ l s W Cn Hin) as (Ws & Ds & Ls).
  split; [split; assumption|]. split; [now apply (slice_floating_order db sd incl_ excl_ l s)|].
  now apply parse_print_db.
Qed.

Theorem slice_self_contained db sd lemma s :
  wf_db db = true -> consistent db = true -> unique_labels db ->
  slice sguards_fixed db sd lemma = Some s ->
  (declares_all s = true /\ labels_resolve s) /\ floating_order_preserved db s /\ parse_db (print_db s) = Some s.
Proof.
  intros W Cn U H. unfold slice in H. apply assoc_get_In in H.
  now apply (slice_self_contained_all db sd [lemma] [] lemma s).
Qed.

(** C17 proofs about the reference verifier: the proof check only looks at the scope through the labels
    the proof names, the declared variables and the disjointness pairs; hence it is preserved when the
    scope is restricted in a way that keeps those ([scope_le]); [scope_agree] decides a sufficient
    condition. *)
From Coq Require Import String Ascii List Bool Arith Lia.
From Pi2 Require Import MM17.Ast MM17.Print MM17.Slice MM17.Verify.
Import ListNotations.
Open Scope string_scope.

Lemma mem_In' x l : mem x l = true <-> In x l.
Proof.
  unfold mem. rewrite existsb_exists. split.
  - intros [y [Hy E]]. apply String.eqb_eq in E. now subst.
  - intros H. exists x. split; [assumption|apply String.eqb_refl].
Qed.

(** [sc'] (the slice's scope at the lemma) is a restriction of [sc] (the database's) that keeps what the
    proof looks at *)
Definition scope_le (used : list string) (sc sc' : scope) : Prop :=
  (forall l, In l used -> assoc_get l (s_labels sc') = assoc_get l (s_labels sc)) /\
  incl (s_vars sc') (s_vars sc) /\
  (forall a b, dv_in (s_dvs sc) a b = true -> In a (s_vars sc') -> In b (s_vars sc') -> dv_in (s_dvs sc') a b = true).

Lemma vars_of_incl vs vs' e : incl vs' vs -> incl (vars_of vs' e) (vars_of vs e).
Proof.
  intros H x Hx. unfold vars_of in *. apply filter_In in Hx. destruct Hx as [H1 H2].
  apply filter_In. split; [assumption|]. apply mem_In'. apply H. now apply mem_In'.
Qed.

Lemma vars_of_in vs e x : In x (vars_of vs e) -> In x vs.
Proof. unfold vars_of. intros H. apply filter_In in H. destruct H as [_ H]. now apply mem_In'. Qed.

Lemma dv_ok_mono used sc sc' fr sigma : scope_le used sc sc' -> dv_ok sc fr sigma = true -> dv_ok sc' fr sigma = true.
Proof.
  intros (_ & HV & HD) H. unfold dv_ok in *. rewrite forallb_forall in *. intros p Hp. specialize (H p Hp).
  cbv zeta in *. rewrite forallb_forall in *. intros a Ha.
  specialize (H a (vars_of_incl _ _ _ HV a Ha)).
  rewrite forallb_forall in *. intros b Hb. specialize (H b (vars_of_incl _ _ _ HV b Hb)).
  apply andb_true_iff in H. destruct H as [H1 H2]. rewrite H1. cbn [andb].
  apply HD; [assumption|now apply vars_of_in in Ha|now apply vars_of_in in Hb].
Qed.

Lemma apply_assertion_mono used sc sc' fr st r : scope_le used sc sc' ->
  apply_assertion sc fr st = Some r -> apply_assertion sc' fr st = Some r.
Proof.
  intros L H. unfold apply_assertion in *. destruct (Nat.ltb (length st) (length (f_hyps fr))); [discriminate|].
  destruct (build_sigma (f_hyps fr) (rev (firstn (length (f_hyps fr)) st)) []) as [sigma|]; [|discriminate].
  destruct (dv_ok sc fr sigma) eqn:E; [|discriminate]. now rewrite (dv_ok_mono used sc sc' fr sigma L E).
Qed.

Lemma by_label_mono used sc sc' l st r : scope_le used sc sc' -> In l used ->
  by_label sc l st = Some r -> by_label sc' l st = Some r.
Proof.
  intros L Hl H. unfold by_label in *. destruct L as (HL & HV & HD). rewrite (HL l Hl).
  destruct (assoc_get l (s_labels sc)) as [[e|fr]|]; try assumption.
  apply (apply_assertion_mono used sc sc' fr st r); [repeat split; assumption|assumption].
Qed.

Lemma run_compressed_mono used sc sc' fr labels : scope_le used sc sc' -> incl labels used ->
  forall steps st saved r, run_compressed sc fr labels steps st saved = Some r ->
  run_compressed sc' fr labels steps st saved = Some r.
Proof.
  intros L HI. induction steps as [|s steps IH]; intros st saved r H; [assumption|].
  cbn [run_compressed] in *. destruct s as [n|].
  - cbv zeta in *. destruct (Nat.eqb n 0); [discriminate|].
    destruct (n <=? length (f_hyps fr))%nat.
    + destruct (nth_error (f_hyps fr) (n - 1)); [now apply IH|discriminate].
    + destruct (n <=? length (f_hyps fr) + length labels)%nat.
      * destruct (nth_error labels (n - length (f_hyps fr) - 1)) as [l|] eqn:En; [|discriminate].
        destruct (by_label sc l st) as [st2|] eqn:Eb; [|discriminate].
        rewrite (by_label_mono used sc sc' l st st2 L (HI l (nth_error_In _ _ En)) Eb). now apply IH.
      * destruct (nth_error saved (n - length (f_hyps fr) - length labels - 1)); [now apply IH|discriminate].
  - destruct st as [|top st']; [discriminate|]. now apply IH.
Qed.

Lemma run_normal_mono used sc sc' : scope_le used sc sc' ->
  forall labels st r, incl labels used -> run_normal sc labels st = Some r -> run_normal sc' labels st = Some r.
Proof.
  intros L. induction labels as [|l labels IH]; intros st r HI H; [assumption|].
  cbn [run_normal] in *. destruct (by_label sc l st) as [st2|] eqn:Eb; [|discriminate].
  rewrite (by_label_mono used sc sc' l st st2 L (HI l (or_introl eq_refl)) Eb).
  apply IH; [|assumption]. intros x Hx. apply HI. now right.
Qed.

Lemma before_first_incl x l b : before_first x l = Some b -> incl b l.
Proof.
  revert b. induction l as [|t l IH]; intros b H; [discriminate|]. cbn [before_first] in H.
  destruct (String.eqb t x); [injection H as <-; intros ? []|].
  destruct (before_first x l) as [b'|]; [|discriminate]. injection H as <-.
  intros y [<-|Hy]; [now left|right; now apply (IH b')].
Qed.

Lemma check_proof_mono sc sc' fr pf : scope_le (proof_toks pf) sc sc' ->
  check_proof sc fr pf = true -> check_proof sc' fr pf = true.
Proof.
  intros L H. unfold check_proof in *. destruct pf as [p|]; [|discriminate]. cbn [proof_toks] in L.
  destruct (mem "?" p); [discriminate|]. cbv zeta in *.
  destruct p as [|first rest].
  - exact H.
  - destruct (String.eqb first LP).
    + destruct (before_first RP rest) as [labels|] eqn:EB; [|discriminate].
      destruct (after_first RP rest) as [letters|]; [|discriminate].
      destruct (decode (flat_map chars letters) 0) as [steps|]; [|discriminate].
      destruct (run_compressed sc fr labels steps [] []) as [r|] eqn:ER; [|discriminate].
      rewrite (run_compressed_mono (first :: rest) sc sc' fr labels L) with (r := r); [exact H| |exact ER].
      intros x Hx. right. now apply (before_first_incl RP rest labels EB).
    + destruct (run_normal sc (first :: rest) []) as [r|] eqn:ER; [|discriminate].
      rewrite (run_normal_mono (first :: rest) sc sc' L (first :: rest) [] r (incl_refl _) ER). exact H.
Qed.

(* ------------------------------------------------------------------ soundness of the boolean comparisons *)
Lemma list_eqb_eq {A} (eqb : A -> A -> bool) :
  (forall a b, eqb a b = true -> a = b) -> forall l1 l2, list_eqb eqb l1 l2 = true -> l1 = l2.
Proof.
  intros H. induction l1 as [|a l1 IH]; intros [|b l2] E; try discriminate; [reflexivity|].
  cbn [list_eqb] in E. apply andb_true_iff in E. destruct E as [E1 E2].
  rewrite (H a b E1), (IH l2 E2). reflexivity.
Qed.

Lemma expr_eqb_eq a b : expr_eqb a b = true -> a = b.
Proof. apply list_eqb_eq. intros x y. apply String.eqb_eq. Qed.

Lemma hyp_eqb_eq a b : hyp_eqb a b = true -> a = b.
Proof.
  unfold hyp_eqb. intros E. apply andb_true_iff in E. destruct E as [E E3].
  apply andb_true_iff in E. destruct E as [E1 E2].
  apply String.eqb_eq in E1. apply Bool.eqb_prop in E2. apply expr_eqb_eq in E3.
  destruct a, b. cbn in *. now subst.
Qed.

Lemma spair_eqb_eq p q : spair_eqb p q = true -> p = q.
Proof.
  unfold spair_eqb. intros E. apply andb_true_iff in E. destruct E as [E1 E2].
  apply String.eqb_eq in E1, E2. destruct p, q. cbn in *. now subst.
Qed.

Lemma frame_eqb_eq a b : frame_eqb a b = true -> a = b.
Proof.
  unfold frame_eqb. intros E. apply andb_true_iff in E. destruct E as [E E3].
  apply andb_true_iff in E. destruct E as [E1 E2].
  apply (list_eqb_eq _ hyp_eqb_eq) in E1. apply (list_eqb_eq _ spair_eqb_eq) in E2. apply expr_eqb_eq in E3.
  destruct a, b. cbn in *. now subst.
Qed.

Lemma lentry_opt_eqb_eq a b : lentry_opt_eqb a b = true -> a = b.
Proof.
  destruct a as [[x|x]|], b as [[y|y]|]; cbn; intros E; try discriminate; try reflexivity.
  - now rewrite (expr_eqb_eq _ _ E).
  - now rewrite (frame_eqb_eq _ _ E).
Qed.

Lemma proof_eqb_eq a b : proof_eqb a b = true -> a = b.
Proof.
  destruct a, b; cbn; intros E; try discriminate; try reflexivity. now rewrite (expr_eqb_eq _ _ E).
Qed.

Lemma pair_eqb_dv_in dvs p a b : pair_eqb p (a, b) = true -> dv_in dvs (fst p) (snd p) = true -> dv_in dvs a b = true.
Proof.
  unfold dv_in. rewrite !existsb_exists. intros E [q [Hq Eq]]. exists q. split; [assumption|].
  unfold pair_eqb in *. cbn [fst snd] in *.
  apply orb_true_iff in E. apply orb_true_iff in Eq. apply orb_true_iff.
  destruct E as [E|E]; apply andb_true_iff in E; destruct E as [E1 E2];
    apply String.eqb_eq in E1, E2; subst.
  - destruct Eq as [Eq|Eq]; [left|right]; exact Eq.
  - destruct Eq as [Eq|Eq]; apply andb_true_iff in Eq; destruct Eq as [Q1 Q2]; [right|left];
      apply andb_true_iff; split; assumption.
Qed.

Lemma scope_agree_sound db s lemma : scope_agree db s lemma = true ->
  exists sc fr pf sc', vfind lemma db = Some (sc, fr, pf) /\ vfind lemma s = Some (sc', fr, pf) /\
                       scope_le (proof_toks pf) sc sc'.
Proof.
  unfold scope_agree. intros H.
  destruct (vfind lemma db) as [[[sc fr] pf]|]; [|discriminate].
  destruct (vfind lemma s) as [[[sc' fr'] pf']|]; [|discriminate].
  apply andb_true_iff in H. destruct H as [H H0].
  apply andb_true_iff in H. destruct H as [H H1].
  apply andb_true_iff in H. destruct H as [H H2].
  apply andb_true_iff in H. destruct H as [H H3].
  apply frame_eqb_eq in H. apply proof_eqb_eq in H3. subst fr' pf'.
  exists sc, fr, pf, sc'. split; [reflexivity|]. split; [reflexivity|]. split; [|split].
  - intros l Hl. rewrite forallb_forall in H2. now apply lentry_opt_eqb_eq, H2.
  - intros v Hv. rewrite forallb_forall in H1. now apply mem_In', H1.
  - intros a b Hab Ha Hb. unfold dv_in in Hab. apply existsb_exists in Hab. destruct Hab as [p [Hp Ep]].
    rewrite forallb_forall in H0. specialize (H0 p Hp).
    apply (pair_eqb_dv_in _ p a b Ep).
    apply orb_true_iff in H0. destruct H0 as [H0|H0]; [|exact H0].
    apply negb_true_iff in H0. exfalso.
    unfold pair_eqb in Ep. cbn [fst snd] in Ep. apply orb_true_iff in Ep.
    destruct Ep as [Ep|Ep]; apply andb_true_iff in Ep; destruct Ep as [E1 E2]; apply String.eqb_eq in E1, E2; subst;
      apply mem_In' in Ha; apply mem_In' in Hb; rewrite Ha, Hb in H0; discriminate.
Qed.

(** (3), partial: under the decidable premise [scope_agree] (evaluated on every real slice by the check) *)
Theorem slice_proof_verifies_partial db s lemma :
  scope_agree db s lemma = true -> mm_verify db lemma = true -> mm_verify s lemma = true.
Proof.
  intros A H. destruct (scope_agree_sound db s lemma A) as (sc & fr & pf & sc' & F1 & F2 & L).
  unfold mm_verify in *. rewrite F1 in H. rewrite F2. now apply (check_proof_mono sc sc' fr pf L).
Qed.

(* ------------------------------------------------------------------ sharper: only the labels the proof refers to *)
(** labels a proof refers to: the parenthesised list of a compressed proof, every token of a normal one *)
Definition proof_refs (pf : option (list string)) : list string :=
  match pf with
  | Some (first :: rest) =>
      if String.eqb first LP then match before_first RP rest with Some l => l | None => [] end
      else first :: rest
  | _ => []
  end.

Lemma check_proof_mono_refs sc sc' fr pf : scope_le (proof_refs pf) sc sc' ->
  check_proof sc fr pf = true -> check_proof sc' fr pf = true.
Proof.
  intros L H. unfold check_proof in *. destruct pf as [p|]; [|discriminate]. cbn [proof_refs] in L.
  destruct (mem "?" p); [discriminate|]. cbv zeta in *.
  destruct p as [|first rest].
  - exact H.
  - destruct (String.eqb first LP).
    + destruct (before_first RP rest) as [labels|] eqn:EB; [|discriminate].
      destruct (after_first RP rest) as [letters|]; [|discriminate].
      destruct (decode (flat_map chars letters) 0) as [steps|]; [|discriminate].
      destruct (run_compressed sc fr labels steps [] []) as [r|] eqn:ER; [|discriminate].
      rewrite (run_compressed_mono labels sc sc' fr labels L (incl_refl _)) with (r := r); [exact H|exact ER].
    + destruct (run_normal sc (first :: rest) []) as [r|] eqn:ER; [|discriminate].
      rewrite (run_normal_mono (first :: rest) sc sc' L (first :: rest) [] r (incl_refl _) ER). exact H.
Qed.

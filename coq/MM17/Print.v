(** C17 model, part 2: [Encoder] (ast.py:330-458) at token level.
    Every [self.write] of the Encoder writes whole tokens separated by blanks/newlines; the model
    returns the token sequence.  The blank/newline/indent layout is reproduced by the harness function
    [layout] (harness/c17.py) and compared character by character with [Encoder.encode_string]. *)
From Coq Require Import String List Bool.
From Pi2 Require Import MM17.Ast.
Import ListNotations.
Open Scope string_scope.

(** postvisit_metavariable / postvisit_application *)
Fixpoint pt (t : term) : list string :=
  match t with
  | MV x => [x]
  | App c [] => [c]
  | App c args => LP :: c :: flat_map pt args ++ [RP]
  end.

Definition pts (ts : list term) : list string := flat_map pt ts.

Definition proof_toks (pf : option (list string)) : list string :=
  match pf with Some p => p | None => ["?"] end.

Fixpoint print_stmt (s : stmt) : list tok :=
  match s with
  | SC cs => KC :: map TS cs ++ [KDot]
  | SV vs => KV :: map TS vs ++ [KDot]
  | SD vs => KD :: map TS vs ++ [KDot]
  | SF l ty v => [TS l; KF; TS ty; TS v; KDot]
  | SE l ts => TS l :: KE :: map TS (pts ts) ++ [KDot]
  | SA l ts => TS l :: KA :: map TS (pts ts) ++ [KDot]
  | SP l ts pf => TS l :: KP :: map TS (pts ts) ++ KEq :: map TS (proof_toks pf) ++ [KDot]
  | SB ss => KOpen :: flat_map print_stmt ss ++ [KClose]
  end.

Definition print_stmts (ss : list stmt) : list tok := flat_map print_stmt ss.

(** postvisit_database *)
Definition print_db (db : database) : list tok := print_stmts db.

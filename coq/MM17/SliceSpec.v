(** C17: what "self-contained slice" means (definitions used by the statements in Props/C17.v). *)
From Coq Require Import String List Bool Arith.
From Pi2 Require Import MM17.Ast MM17.Print MM17.Parse MM17.Wf MM17.Slice.
Import ListNotations.
Open Scope string_scope.

(** symbols used as zero-argument applications (the tokens the parser classifies by looking at
    [self.metavariables]) *)
Fixpoint term_nullary (t : term) : list string :=
  match t with
  | MV _ => []
  | App c args => match args with [] => [c] | _ => flat_map term_nullary args end
  end.

Fixpoint stmt_nullary (s : stmt) : list string :=
  match s with
  | SE _ ts | SA _ ts | SP _ ts _ => flat_map term_nullary ts
  | SB ss => flat_map stmt_nullary ss
  | _ => []
  end.
Definition db_nullary (db : database) : list string := flat_map stmt_nullary db.

(** no token is used both as a constant (zero-argument application) and as a variable declared somewhere in
    the database.  Valid Metamath satisfies this ($c and $v symbols are disjoint and every variable is declared
    before use); the parser alone does not (a token used before its [$v] is parsed as a constant). *)
Definition consistent (db : database) : bool :=
  forallb (fun c => negb (mem c (decls db))) (db_nullary db).

(** math symbols of a term other than its variables, as printed (so "(" and ")" when it has arguments) *)
Fixpoint term_syms (t : term) : list string :=
  match t with
  | MV _ => []
  | App c args => match args with [] => [c] | _ => LP :: c :: (flat_map term_syms args ++ [RP])%list end
  end.

(** [declares_all]: walking the database with Metamath scoping (declarations made inside a block end with
    it), every constant symbol (typecodes and parentheses included) is declared by an earlier [$c], every
    variable (in [$d], [$f], [$e], [$a], [$p]) by an earlier active [$v]. *)
Fixpoint chk_stmt (cs vs : list string) (s : stmt) : option (list string * list string) :=
  match s with
  | SC l => Some ((cs ++ l)%list, vs)
  | SV l => Some (cs, (vs ++ l)%list)
  | SD l => if forallb (fun v => mem v vs) l then Some (cs, vs) else None
  | SF _ ty v => if mem ty cs && mem v vs then Some (cs, vs) else None
  | SE _ ts | SA _ ts | SP _ ts _ =>
      if forallb (fun c => mem c cs) (flat_map term_syms ts) && forallb (fun v => mem v vs) (flat_map term_mvs ts)
      then Some (cs, vs) else None
  | SB ss =>
      if (fix go (cs' vs' : list string) (l : list stmt) : bool :=
            match l with
            | [] => true
            | a :: l' => match chk_stmt cs' vs' a with Some (c2, v2) => go c2 v2 l' | None => false end
            end) cs vs ss
      then Some (cs, vs) else None
  end.

Fixpoint chk_stmts (cs vs : list string) (l : list stmt) : bool :=
  match l with
  | [] => true
  | a :: l' => match chk_stmt cs vs a with Some (c2, v2) => chk_stmts c2 v2 l' | None => false end
  end.

Definition declares_all (s : database) : bool := chk_stmts [] [] s.

(** labels *)
Fixpoint stmt_labels (s : stmt) : list string :=
  match s with
  | SF l _ _ | SE l _ | SA l _ | SP l _ _ => [l]
  | SB ss => flat_map stmt_labels ss
  | _ => []
  end.

(** the slice ends with the lemma's block; every label of the compressed proof's label list names a
    statement of the slice before it *)
Definition labels_resolve (s : database) : Prop :=
  exists pre ess l ts pf labels,
    s = (pre ++ [SB (ess ++ [SP l ts pf])])%list /\ proof_labels pf = Some labels /\
    forall x, In x labels -> In x (flat_map stmt_labels pre).

Definition is_SF (s : stmt) : bool := match s with SF _ _ _ => true | _ => false end.

Inductive sublist {A} : list A -> list A -> Prop :=
| sl_nil : sublist [] []
| sl_skip x l1 l2 : sublist l1 l2 -> sublist l1 (x :: l2)
| sl_cons x l1 l2 : sublist l1 l2 -> sublist (x :: l1) (x :: l2).

(** top-level floating statements of the slice: same statements, same relative order as in the database *)
Definition floating_order_preserved (db s : database) : Prop :=
  sublist (filter is_SF s) (filter is_SF db).

(** the key under which [slice_database] stores a top-level statement *)
Definition top_label (st : stmt) : list string :=
  match st with
  | SF l _ _ | SE l _ | SA l _ | SP l _ _ => [l]
  | SB _ => match match_axiom st with
            | MAx l => [l]
            | _ => match deconstruct_provable st with Some (_, l, _, _) => [l] | None => [] end
            end
  | _ => []
  end.
Definition unique_labels (db : database) : Prop := NoDup (flat_map top_label db).

(** every floating statement of the database that precedes the lemma and whose variable the slice uses
    is in the slice *)
Definition slice_vars (s : database) : list string := flat_map stmt_mvs s.

(** C17 — Metamath databases survive printing, re-parsing and slicing.
    Property theorems only; the model is coq/MM17/{Ast,Print,Parse,Wf,Slice,Verify}.v. *)
From Coq Require Import String List Bool.
From Pi2 Require Import MM17.Ast MM17.Print MM17.Parse MM17.Wf MM17.ParsePrintProofs.
Import ListNotations.
Open Scope string_scope.

(** (1) printing then parsing is the identity on every well-formed database (all statement kinds,
    nested blocks, terms of any depth; no bound). *)
Theorem C17_parse_print : forall db, wf_db db = true -> parse_db (print_db db) = Some db.
Proof. exact parse_print_db. Qed.
Print Assumptions C17_parse_print.

(** [wf_db] is exactly what parsed databases satisfy, and at token level the printer inverts the parser. *)
Theorem C17_parsed_is_wf : forall toks db, parse_db toks = Some db -> print_db db = toks /\ wf_db db = true.
Proof. exact parse_db_inv. Qed.
Print Assumptions C17_parsed_is_wf.

(** the property as worded: "printing any parsed database and parsing again gives the same database" *)
Theorem C17_print_parse_idempotent : forall toks db, parse_db toks = Some db -> parse_db (print_db db) = Some db.
Proof. exact print_parse_idem. Qed.
Print Assumptions C17_print_parse_idempotent.

(** non-vacuity: nested blocks, a variable declared in an inner block and used after it (the parser's
    accumulator is not scoped), $d, $e, multi-argument constructor, compressed proof *)
Definition ex_db : database :=
  [ SC ["#Pattern"; "|-"; "\imp"; "("; ")"];
    SV ["ph0"; "ph1"];
    SF "ph0-is-pattern" "#Pattern" "ph0";
    SF "ph1-is-pattern" "#Pattern" "ph1";
    SA "imp-is-pattern" [App "#Pattern" []; App "\imp" [MV "ph0"; MV "ph1"]];
    SB [ SV ["x"]; SF "x-is-pattern" "#Pattern" "x"; SD ["x"; "ph0"];
         SB [ SE "mp.0" [App "|-" []; App "\imp" [MV "ph0"; MV "ph1"]];
              SE "mp.1" [App "|-" []; MV "ph0"];
              SA "mp" [App "|-" []; MV "ph1"] ] ];
    SP "thm" [App "|-" []; App "\imp" [MV "x"; App "\imp" [MV "ph0"; MV "x"]]]
       (Some ["("; "imp-is-pattern"; ")"; "ABZ"]) ].

Example C17_parse_print_nonvacuous : wf_db ex_db = true /\ parse_db (print_db ex_db) = Some ex_db.
Proof. split; vm_compute; reflexivity. Qed.

(** the hypothesis is needed: databases the parser cannot produce do not round-trip *)
Example C17_wf_needed_zero_arg_paren :
  parse_db (print_db [SA "a" [App ")" [App "x" []]]]) = None.
Proof. vm_compute. reflexivity. Qed.
Example C17_wf_needed_undeclared :
  parse_db (print_db [SA "a" [MV "x"]]) = Some [SA "a" [App "x" []]].
Proof. vm_compute. reflexivity. Qed.

(** (2) every slice is self-contained.  Model: [MM17/Slice.v] (the slicer after the three fix: commits;
    [syntax_deps], [include], [exclude] arbitrary).  Hypotheses forced by the proof:
    - [consistent db]: no token is both a zero-argument constant and a declared variable (else the slice,
      which declares all its variables up front, re-parses differently);
    - [unique_labels db]: the dictionary of kept statements is keyed by label (needed for the order claim only). *)
From Pi2 Require Import MM17.Slice MM17.SliceSpec MM17.SliceProofs.

Theorem C17_slice_self_contained : forall db sd lemma s,
  wf_db db = true -> consistent db = true -> unique_labels db ->
  slice sguards_fixed db sd lemma = Some s ->
  (declares_all s = true /\ labels_resolve s) /\ floating_order_preserved db s /\ parse_db (print_db s) = Some s.
Proof. exact slice_self_contained. Qed.
Print Assumptions C17_slice_self_contained.

(** the same for every slice the generator yields, any include/exclude sets *)
Theorem C17_slice_self_contained_all : forall db sd incl excl l s,
  wf_db db = true -> consistent db = true -> unique_labels db ->
  In (l, s) (fst (slice_database sguards_fixed db sd incl excl)) ->
  (declares_all s = true /\ labels_resolve s) /\ floating_order_preserved db s /\ parse_db (print_db s) = Some s.
Proof. exact slice_self_contained_all. Qed.
Print Assumptions C17_slice_self_contained_all.

(** non-vacuity: a database with a non-builtin typecode, a top-level $d after an assertion, a top-level
    $e, a rule block and two lemmas; both slices exist *)
Definition ex_slice_db : database :=
  [ SC ["wff"; "|-"; "("; ")"; "->"];
    SV ["p"; "q"];
    SF "wp" "wff" "p"; SF "wq" "wff" "q";
    SA "wi" [App "wff" []; App "->" [MV "p"; MV "q"]];
    SD ["p"; "q"];
    SB [ SE "mp.1" [App "|-" []; MV "p"]; SE "mp.2" [App "|-" []; App "->" [MV "p"; MV "q"]];
         SA "mp" [App "|-" []; MV "q"] ];
    SE "h" [App "|-" []; MV "p"];
    SA "ax1" [App "|-" []; App "->" [MV "p"; MV "q"]];
    SP "th1" [App "|-" []; MV "q"] (Some ["("; "ax1"; "mp"; ")"; "ABCABCDE"]);
    SB [ SD ["p"; "q"]; SP "th2" [App "wff" []; App "->" [MV "p"; MV "p"]] (Some ["("; "wi"; ")"; "AAC"]) ] ].

Example C17_slice_nonvacuous :
  wf_db ex_slice_db = true /\ consistent ex_slice_db = true /\ unique_labels ex_slice_db /\
  (exists s, slice sguards_fixed ex_slice_db [] "th1" = Some s) /\
  (exists s, slice sguards_fixed ex_slice_db [] "th2" = Some s).
Proof.
  split; [vm_compute; reflexivity|]. split; [vm_compute; reflexivity|]. split.
  - unfold unique_labels. vm_compute.
    repeat (constructor; [simpl; intuition discriminate|]). constructor.
  - split; eexists; vm_compute; reflexivity.
Qed.

(** the pinned slicer (before fix db29930) violated the statement: the typecode [wff] of the kept [$f]
    statements is not declared in the slice (finding D17a) *)
Theorem C17_slice_self_contained_refuted_pinned_typecode :
  exists db sd lemma s, wf_db db = true /\ consistent db = true /\
    slice sguards_pinned db sd lemma = Some s /\ declares_all s = false.
Proof.
  exists [ SC ["wff"; "|-"; "("; ")"; "->"]; SV ["p"; "q"]; SF "wp" "wff" "p"; SF "wq" "wff" "q";
           SA "ax1" [App "|-" []; App "->" [MV "p"; App "->" [MV "q"; MV "p"]]];
           SP "th1" [App "|-" []; App "->" [MV "p"; App "->" [MV "p"; MV "p"]]] (Some ["("; "ax1"; ")"; "AAB"]) ],
         [], "th1".
  eexists. split; [vm_compute; reflexivity|]. split; [vm_compute; reflexivity|].
  split; vm_compute; reflexivity.
Qed.

(** (3) the lemma's original proof still verifies in its slice, with the same statement.
    FULL STATEMENT (not proved in general; see C17_slice_proof_verifies_partial below and notes/C17.md):

      forall db sd lemma s, wf_db db = true -> consistent db = true -> unique_labels db ->
        slice sguards_fixed db sd lemma = Some s ->
        mm_verify db lemma = true -> mm_verify s lemma = true.

    [mm_verify] is the reference verifier of MM17/Verify.v (frames with mandatory hypotheses in database
    order, $d check, compressed and normal proofs).  What is proved here:
    - [C17_slice_proof_verifies_partial]: the statement for ANY two databases under the decidable premise
      [scope_agree db s lemma] (the lemma has the same frame and proof in both, every token of its proof
      resolves to the same hypothesis / assertion frame, the slice's scope restricts the database's).
      Missing for the full statement: [slice ... = Some s -> scope_agree db s lemma = true] (equality of the
      frames of all kept assertions); the check evaluates [scope_agree] with the extracted model on every
      real slice instead (must be 1).
    - the instance on the example database (both lemmas);
    - the refutation of the statement for the pinned slicer (D17b, D17c). *)
From Pi2 Require Import MM17.Verify MM17.VerifyProofs.

Theorem C17_slice_proof_verifies_partial : forall db s lemma,
  scope_agree db s lemma = true -> mm_verify db lemma = true -> mm_verify s lemma = true.
Proof. exact slice_proof_verifies_partial. Qed.
Print Assumptions C17_slice_proof_verifies_partial.

Example C17_slice_proof_verifies_partial_nonvacuous :
  exists s, slice sguards_fixed ex_slice_db [] "th1" = Some s /\ scope_agree ex_slice_db s "th1" = true /\
            mm_verify ex_slice_db "th1" = true.
Proof. eexists. split; [vm_compute; reflexivity|]. split; vm_compute; reflexivity. Qed.

Example C17_slice_proof_verifies_instance :
  mm_verify ex_slice_db "th1" = true /\ mm_verify ex_slice_db "th2" = true /\
  (exists s, slice sguards_fixed ex_slice_db [] "th1" = Some s /\ mm_verify s "th1" = true) /\
  (exists s, slice sguards_fixed ex_slice_db [] "th2" = Some s /\ mm_verify s "th2" = true).
Proof.
  split; [vm_compute; reflexivity|]. split; [vm_compute; reflexivity|].
  split; eexists; (split; [vm_compute; reflexivity|vm_compute; reflexivity]).
Qed.

(** pinned slicer, D17b: a top-level [$e] is dropped; the proof (numbered over the mandatory hypotheses
    wp wq h) no longer verifies *)
Theorem C17_slice_proof_verifies_refuted_pinned_top_essential :
  exists db sd lemma s, wf_db db = true /\ consistent db = true /\
    slice sguards_pinned db sd lemma = Some s /\ mm_verify db lemma = true /\ mm_verify s lemma = false.
Proof.
  exists [ SC ["#Pattern"; "|-"; "("; ")"; "->"]; SV ["p"; "q"];
           SF "wp" "#Pattern" "p"; SF "wq" "#Pattern" "q";
           SA "wi" [App "#Pattern" []; App "->" [MV "p"; MV "q"]];
           SB [ SE "mp.1" [App "|-" []; MV "p"]; SE "mp.2" [App "|-" []; App "->" [MV "p"; MV "q"]];
                SA "mp" [App "|-" []; MV "q"] ];
           SE "h" [App "|-" []; MV "p"];
           SA "ax1" [App "|-" []; App "->" [MV "p"; MV "q"]];
           SP "th1" [App "|-" []; MV "q"] (Some ["("; "ax1"; "mp"; ")"; "ABCABCDE"]) ],
         [], "th1".
  eexists. split; [vm_compute; reflexivity|]. split; [vm_compute; reflexivity|].
  split; [vm_compute; reflexivity|]. split; vm_compute; reflexivity.
Qed.

(** pinned slicer, D17c: the top-level [$d p q] is hoisted in front of [wi], which then cannot be
    instantiated with p := p, q := p any more *)
Theorem C17_slice_proof_verifies_refuted_pinned_disjoint_hoisted :
  exists db sd lemma s, wf_db db = true /\ consistent db = true /\
    slice sguards_pinned db sd lemma = Some s /\ mm_verify db lemma = true /\ mm_verify s lemma = false.
Proof.
  exists [ SC ["#Pattern"; "|-"; "("; ")"; "->"]; SV ["p"; "q"];
           SF "wp" "#Pattern" "p"; SF "wq" "#Pattern" "q";
           SA "wi" [App "#Pattern" []; App "->" [MV "p"; MV "q"]];
           SD ["p"; "q"];
           SA "ax1" [App "|-" []; App "->" [MV "p"; MV "q"]];
           SP "th2" [App "#Pattern" []; App "->" [MV "p"; MV "p"]] (Some ["("; "wi"; ")"; "AAB"]) ],
         [], "th2".
  eexists. split; [vm_compute; reflexivity|]. split; [vm_compute; reflexivity|].
  split; [vm_compute; reflexivity|]. split; vm_compute; reflexivity.
Qed.

(** (3) FULL: the lemma's original compressed proof verifies against its slice, with the same statement
    ([mm_verify] looks the lemma up by label and checks its proof against its own statement in each database;
    the statement is the same because the slice ends with the lemma's block, [C17_slice_self_contained]).
    All side conditions are decidable and hold for every valid Metamath database in the dialect of ast.py:
    - [sym_disjoint db] (strengthens [consistent]): no declared variable is a parenthesis, a [$c] constant, a
      typecode or the symbol of an application;
    - [all_labels_unique db] (strengthens [unique_labels]): all statement labels are distinct;
    - [compressed_lemma db lemma]: the proof starts with "(" (the slicer only handles compressed proofs; a
      normal proof containing labels named "(" / ")" would be mis-sliced).
    Proof (MM17/SliceVerifyProofs.v): simulation of the verifier's walk over the database prefix by its walk
    over the slice (hypotheses filtered by needed variable, [$d] pairs filtered to the declared variables, equal
    frames for every kept assertion, label table of the slice included in the database's), then
    [check_proof_mono_refs]. *)
From Pi2 Require Import MM17.VerifySpec MM17.SliceVerifyProofs.

Theorem C17_slice_proof_verifies : forall db sd lemma s,
  wf_db db = true -> sym_disjoint db = true -> all_labels_unique db -> compressed_lemma db lemma = true ->
  slice sguards_fixed db sd lemma = Some s ->
  mm_verify db lemma = true -> mm_verify s lemma = true.
Proof. exact slice_proof_verifies. Qed.
Print Assumptions C17_slice_proof_verifies.

Example C17_slice_proof_verifies_nonvacuous :
  wf_db ex_slice_db = true /\ sym_disjoint ex_slice_db = true /\ all_labels_unique ex_slice_db /\
  compressed_lemma ex_slice_db "th1" = true /\ mm_verify ex_slice_db "th1" = true /\
  exists s, slice sguards_fixed ex_slice_db [] "th1" = Some s.
Proof.
  split; [vm_compute; reflexivity|]. split; [vm_compute; reflexivity|]. split.
  - unfold all_labels_unique. vm_compute. repeat (constructor; [simpl; intuition discriminate|]). constructor.
  - split; [vm_compute; reflexivity|]. split; [vm_compute; reflexivity|]. eexists. vm_compute. reflexivity.
Qed.

(** [sym_disjoint] cannot be weakened to [consistent]: a declared variable used as the symbol of an application
    is a constant for parser and slicer (its [$f] is dropped, it is declared by [$c] in the slice) but a variable
    for Metamath, so the frames differ *)
Example C17_slice_proof_verifies_needs_sym_disjoint :
  exists db s, wf_db db = true /\ consistent db = true /\ sym_disjoint db = false /\
    slice sguards_fixed db [] "th" = Some s /\ mm_verify db "th" = true /\ mm_verify s "th" = false.
Proof.
  exists [ SC ["wff"; "|-"; "("; ")"]; SV ["f"; "x"]; SF "wf" "wff" "f"; SF "wx" "wff" "x";
           SA "ax" [App "|-" []; App "f" [MV "x"]];
           SP "th" [App "|-" []; App "f" [MV "x"]] (Some ["("; "ax"; ")"; "ABC"]) ].
  eexists. split; [vm_compute; reflexivity|]. split; [vm_compute; reflexivity|]. split; [vm_compute; reflexivity|].
  split; [vm_compute; reflexivity|]. split; vm_compute; reflexivity.
Qed.

(** ------------------------------------------------------------------------------------------------------------
    TIE BY TRANSLATION.  [GenMM.*] (coq/Gen/MMPrintSlice.v) is regenerated on every run from the CURRENT
    ast.py (Encoder) and metamath_extract_slice.py (construct_axiom, deconstruct_provable,
    supporting_database_for_provable, slice_database) by translators/mm_print_slice.py; MM17/GenMMPrintSliceAgree.v
    proves the generated functions equal to the model's.  The properties, stated of the generated functions:
    [norm] (MM17/GenLib.v) is the lexer's view of the printer's [write] calls (blanks/newlines separate, adjacent
    writes glue); [labels_ok]: no empty label (true of every parsed database: TOKEN is a non-empty regex). *)
From Pi2 Require Import MM17.GenLib Gen.MMPrintSlice MM17.GenMMPrintSliceAgree.

Theorem C17_source_printer_is_model : forall db, labels_ok db -> norm (GenMM.encode_database false db) = print_db db.
Proof. exact gen_encode_database_agrees. Qed.
Print Assumptions C17_source_printer_is_model.

Theorem C17_source_slicer_is_model : forall db sd incl excl,
  GenMM.slice_database db sd incl excl = slice_database sguards_fixed db sd incl excl.
Proof. exact gen_slice_database_agrees. Qed.
Print Assumptions C17_source_slicer_is_model.

Theorem C17_source_parse_print_parse : forall toks db,
  parse_db toks = Some db -> labels_ok db -> parse_db (norm (GenMM.encode_database false db)) = Some db.
Proof. intros toks db H L. rewrite (gen_encode_database_agrees db L). exact (print_parse_idem toks db H). Qed.
Print Assumptions C17_source_parse_print_parse.

Theorem C17_source_parse_print : forall db,
  wf_db db = true -> labels_ok db -> parse_db (norm (GenMM.encode_database false db)) = Some db.
Proof. intros db W L. rewrite (gen_encode_database_agrees db L). exact (parse_print_db db W). Qed.
Print Assumptions C17_source_parse_print.

Theorem C17_source_slice_self_contained : forall db sd incl excl l s,
  wf_db db = true -> consistent db = true -> unique_labels db -> labels_ok db ->
  In (l, s) (fst (GenMM.slice_database db sd incl excl)) ->
  (declares_all s = true /\ labels_resolve s) /\ floating_order_preserved db s /\
  parse_db (norm (GenMM.encode_database false s)) = Some s.
Proof.
  intros db sd incl excl l s W Cn U L Hin. rewrite gen_slice_database_agrees in Hin.
  destruct (slice_self_contained_all db sd incl excl l s W Cn U Hin) as (A & B & C).
  split; [exact A|]. split; [exact B|].
  rewrite (gen_encode_database_agrees s (slice_labels_ok db sd incl excl l s U L Hin)). exact C.
Qed.
Print Assumptions C17_source_slice_self_contained.

Theorem C17_source_slice_proof_verifies : forall db sd lemma s,
  wf_db db = true -> sym_disjoint db = true -> all_labels_unique db -> compressed_lemma db lemma = true ->
  assoc_get lemma (fst (GenMM.slice_database db sd [lemma] [])) = Some s ->
  mm_verify db lemma = true -> mm_verify s lemma = true.
Proof.
  intros db sd lemma s W S U C H. rewrite gen_slice_database_agrees in H. exact (slice_proof_verifies db sd lemma s W S U C H).
Qed.
Print Assumptions C17_source_slice_proof_verifies.

Example C17_source_nonvacuous :
  labels_ok ex_slice_db /\ norm (GenMM.encode_database false ex_slice_db) = print_db ex_slice_db /\
  exists s, assoc_get "th1" (fst (GenMM.slice_database ex_slice_db [] ["th1"] [])) = Some s.
Proof.
  split; [|split].
  - intros l Hl. vm_compute in Hl. intuition (subst; discriminate).
  - vm_compute. reflexivity.
  - eexists. vm_compute. reflexivity.
Qed.

(** C17 — Metamath databases survive printing, re-parsing and slicing.
    Property theorems only; the model is coq/MM17/{Ast,Print,Parse,Wf,Slice,Verify}.v. *)
From Coq Require Import String List Bool.
From Pi2 Require Import MM17.Ast MM17.Print MM17.Parse MM17.Wf MM17.ParsePrintProofs.
Import ListNotations.
Open Scope string_scope.

(** (1) printing then parsing is the identity on every well-formed database (all statement kinds,
    nested blocks, terms of any depth; no bound). *)
Theorem C17_parse_print : forall db, wf_db db = true -> parse_db (print_db db) = Some db.
Proof. exact parse_print_db. Qed.
Print Assumptions C17_parse_print.

(** [wf_db] is exactly what parsed databases satisfy, and at token level the printer inverts the parser. *)
Theorem C17_parsed_is_wf : forall toks db, parse_db toks = Some db -> print_db db = toks /\ wf_db db = true.
Proof. exact parse_db_inv. Qed.
Print Assumptions C17_parsed_is_wf.

(** the property as worded: "printing any parsed database and parsing again gives the same database" *)
Theorem C17_print_parse_idempotent : forall toks db, parse_db toks = Some db -> parse_db (print_db db) = Some db.
Proof. exact print_parse_idem. Qed.
Print Assumptions C17_print_parse_idempotent.

(** non-vacuity: nested blocks, a variable declared in an inner block and used after it (the parser's
    accumulator is not scoped), $d, $e, multi-argument constructor, compressed proof *)
Definition ex_db : database :=
  [ SC ["#Pattern"; "|-"; "\imp"; "("; ")"];
    SV ["ph0"; "ph1"];
    SF "ph0-is-pattern" "#Pattern" "ph0";
    SF "ph1-is-pattern" "#Pattern" "ph1";
    SA "imp-is-pattern" [App "#Pattern" []; App "\imp" [MV "ph0"; MV "ph1"]];
    SB [ SV ["x"]; SF "x-is-pattern" "#Pattern" "x"; SD ["x"; "ph0"];
         SB [ SE "mp.0" [App "|-" []; App "\imp" [MV "ph0"; MV "ph1"]];
              SE "mp.1" [App "|-" []; MV "ph0"];
              SA "mp" [App "|-" []; MV "ph1"] ] ];
    SP "thm" [App "|-" []; App "\imp" [MV "x"; App "\imp" [MV "ph0"; MV "x"]]]
       (Some ["("; "imp-is-pattern"; ")"; "ABZ"]) ].

Example C17_parse_print_nonvacuous : wf_db ex_db = true /\ parse_db (print_db ex_db) = Some ex_db.
Proof. split; vm_compute; reflexivity. Qed.

(** the hypothesis is needed: databases the parser cannot produce do not round-trip *)
Example C17_wf_needed_zero_arg_paren :
  parse_db (print_db [SA "a" [App ")" [App "x" []]]]) = None.
Proof. vm_compute. reflexivity. Qed.
Example C17_wf_needed_undeclared :
  parse_db (print_db [SA "a" [MV "x"]]) = Some [SA "a" [App "x" []]].
Proof. vm_compute. reflexivity. Qed.

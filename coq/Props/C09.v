(** C09 — The tautology prover is a correct decision procedure (property theorems only).

    Model: coq/Taut/Model.v (tied to generation/src/proof_generation/tautology.py by the
    correspondence check harness/c09.py on every run).  [decide ns fuel f]:
      Ok (Some true)  = prove_tautology returns (True, proof of f)
      Ok (Some false) = prove_tautology returns (False, proof of neg f)
      Ok None         = prove_tautology returns None (declines)
      Err             = AssertionError;   Fuel = the explicit fuel ran out (excluded in the statements)
    [ns] = g_resolution_no_shadow: [true] is the repaired loop (current tree), [false] the pinned loop (D6). *)
From Coq Require Import ZArith NArith List Bool Lia.
From Pi2 Require Import Taut.Model Taut.Stages Taut.Sets Taut.Resolution Taut.Complete Taut.Termination Taut.PLModel Taut.ProofLayer Taut.BuildTerm Taut.ProofLayer2 Taut.Glue Taut.Merge Taut.Glue2 Taut.AC Taut.Helpers Taut.Full
  Taut.GenPrelude Gen.TautVerdict Taut.GenTautAgree.
Import ListNotations.

(* ------------------------------------------------------------------------------------------ *)
(** * 1. every stage returns an equivalent formula in the advertised shape *)

Theorem C09_expand_equiv : forall v f, ktt v (expand f) = tt v f.
Proof. exact expand_tt. Qed.
Print Assumptions C09_expand_equiv.

(** to_conj_form: equivalent; result is a constant or an Or/Var tree *)
Theorem C09_to_conj_form : forall f,
  (forall v, cf_tt v (to_conj_form f) = tt v f) /\ conj_shape (to_conj_form f).
Proof. intro f; split; [intro v; apply to_conj_form_sound|apply to_conj_form_shape]. Qed.
Print Assumptions C09_to_conj_form.

(** propag_neg: total on Or/Var trees, equivalent, negation only on variables *)
Theorem C09_propag_neg : forall t, is_orform t = true ->
  exists t', propag_neg t = Some t' /\ (forall v, cf_tt v t' = cf_tt v t) /\ is_nnf t' = true.
Proof.
  intros t H. destruct (propag_neg_total t H) as [t' E]. exists t'. split; auto.
  split; [intro v; exact (proj1 (propag_neg_sound v _ _ E))|exact (proj2 (propag_neg_sound (fun _ => false) _ _ E))].
Qed.
Print Assumptions C09_propag_neg.
Example C09_propag_neg_nonvacuous :
  propag_neg (COr true (CVar false 0) (COr false (CVar true 1) (CVar false 2)))
  = Some (CAnd false (CVar true 0) (CAnd false (CVar false 1) (CVar true 2))).
Proof. reflexivity. Qed.

(** to_cnf: on negation-normal input never raises; any result is equivalent and in CNF *)
Theorem C09_to_cnf : forall fuel t, is_nnf t = true ->
  to_cnf fuel t <> Err /\
  forall t', to_cnf fuel t = Ok t' -> (forall v, cf_tt v t' = cf_tt v t) /\ is_cnf t' = true.
Proof.
  intros fuel t H. split; [apply to_cnf_no_err; auto|].
  intros t' E. split; [intro v; exact (proj1 (to_cnf_sound v _ _ _ E H))|exact (proj2 (to_cnf_sound (fun _ => false) _ _ _ E H))].
Qed.
Print Assumptions C09_to_cnf.
Example C09_to_cnf_nonvacuous :
  to_cnf 10 (COr false (CAnd false (CVar false 0) (CVar false 1)) (CVar true 2))
  = Ok (CAnd false (COr false (CVar false 0) (CVar true 2)) (COr false (CVar false 1) (CVar true 2))).
Proof. reflexivity. Qed.

(** to_clauses: total on CNF, clause list has the same truth table, clauses non-empty, literals non-zero *)
Theorem C09_to_clauses : forall t, is_cnf t = true ->
  exists cs, to_clauses t = Some cs /\ clauses_ok cs /\ forall v, clauses_tt v cs = cf_tt v t.
Proof.
  intros t H. destruct (to_clauses_sound (fun _ => false) t H) as (cs & E & Hok & _).
  exists cs. repeat split; try apply Hok; auto.
  intro v. destruct (to_clauses_sound v t H) as (cs' & E' & _ & Htt). congruence.
Qed.
Print Assumptions C09_to_clauses.
Example C09_to_clauses_nonvacuous :
  is_cnf (CAnd false (COr false (CVar false 0) (CVar true 1)) (CVar false 2)) = true /\
  to_clauses (CAnd false (COr false (CVar false 0) (CVar true 1)) (CVar false 2)) = Some [[1; -2]; [3]]%Z.
Proof. split; reflexivity. Qed.

(* ------------------------------------------------------------------------------------------ *)
(** * 2. resolvable / merge: the resolvent is implied by its parents *)

Theorem C09_resolvable_sound : forall v c1 c2 r rs,
  resolvable c1 c2 = Some (r, rs) -> Forall nz c2 ->
  clause_tt v c1 = true -> clause_tt v c2 = true -> clause_tt v rs = true.
Proof. exact resolvable_sound. Qed.
Print Assumptions C09_resolvable_sound.
Example C09_resolvable_nonvacuous :
  resolvable [1; 2]%Z [-1; 3]%Z = Some ((-1)%Z, [2; 3]%Z).
Proof. reflexivity. Qed.

(** the whole saturation loop (either variant, any fuel) only adds consequences, and answers
    `True` only if the clause set is unsatisfiable *)
Theorem C09_resolution_loop_sound : forall ns fuel h l b l' h',
  resolution_algorithm ns fuel h l = Ok (b, l', h') -> all_nz l ->
  (b = true -> forall v, ~ sat_all v l) /\ (forall v, sat_all v l -> sat_all v l').
Proof. exact resolution_algorithm_sound. Qed.
Print Assumptions C09_resolution_loop_sound.
Example C09_resolution_loop_sound_nonvacuous :
  exists l h, resolution_algorithm false 100 [([1]%Z, HIdx 0); ([-1]%Z, HIdx 1)] [[1]%Z; [-1]%Z] = Ok (true, l, h)
              /\ all_nz [[1]%Z; [-1]%Z].
Proof. eexists _, _. split; [vm_compute; reflexivity|]. repeat constructor; unfold nz; discriminate. Qed.

(* ------------------------------------------------------------------------------------------ *)
(** * 3. soundness of the verdicts — all formulas, any fuel, both loop variants *)

Theorem C09_decide_sound : forall ns fuel f r,
  decide ns fuel f = Ok r ->
  (r = Some true -> tautology f) /\ (r = Some false -> unsat f).
Proof. exact decide_sound. Qed.
Print Assumptions C09_decide_sound.
Example C09_decide_sound_nonvacuous :
  decide true 100 (FOr (FVar 0) (FNeg (FVar 0))) = Ok (Some true) /\
  decide true 100 (FAnd (FVar 0) (FNeg (FVar 0))) = Ok (Some false) /\
  decide true 100 (FVar 0) = Ok None.
Proof. repeat split; vm_compute; reflexivity. Qed.

(* ------------------------------------------------------------------------------------------ *)
(** * 4. completeness (repaired loop, g_resolution_no_shadow = true) *)

(** saturation invariant: when the loop answers `False`, every pair of the final list has been resolved
    (closed under [resolvable]), all clauses are non-trivial with non-zero literals, the empty clause is
    absent and the initial list is included.  This is the lemma that is FALSE for the pinned loop. *)
Theorem C09_saturate_closed : forall fuel h l l' h',
  resolution_algorithm true fuel h l = Ok (false, l', h') ->
  NoDup l -> (forall c, hint_mem c h = true <-> In c l) -> Forall good l -> ~ In [] l ->
  pairwise_closed l' /\ Forall good l' /\ ~ In [] l' /\ incl l l'.
Proof. exact saturate_closed. Qed.
Print Assumptions C09_saturate_closed.
Example C09_saturate_closed_nonvacuous :
  resolution_algorithm true 100 [([1; 2]%Z, HIdx 0); ([-1; 2]%Z, HIdx 1)] [[1; 2]%Z; [-1; 2]%Z]
  = Ok (false, [[1; 2]%Z; [-1; 2]%Z; [2]%Z],
        [([1; 2]%Z, HIdx 0); ([-1; 2]%Z, HIdx 1); ([2]%Z, HRes [-1; 2]%Z [1; 2]%Z 1%Z)]).
Proof. vm_compute. reflexivity. Qed.

(** a resolution-closed set of non-trivial clauses without the empty clause is satisfiable
    (variable elimination; resolvents with two clashes are tautologies, which is why the
    `len(common) != 1` skip is harmless) *)
Theorem C09_resolution_complete : forall S,
  pairwise_closed S -> Forall good S -> ~ In [] S -> exists v, sat_all v S.
Proof.
  intros S Hpc Hg Hne.
  assert (Hnt : forall c, In c S -> nontriv c).
  { intros c Hc. apply good_nontriv. rewrite Forall_forall in Hg. auto. }
  apply (resolution_complete (all_atoms S) S); auto.
  - apply all_atoms_pos. intros c x Hc Hx E. subst. exact (Hnt c Hc 0%Z Hx Hx).
  - apply all_atoms_in.
  - apply pairwise_sem_closed; auto.
Qed.
Print Assumptions C09_resolution_complete.
Example C09_resolution_complete_nonvacuous :
  pairwise_closed [[1; 2]; [-1; 2]; [2]]%Z /\ Forall good [[1; 2]; [-1; 2]; [2]]%Z /\ ~ In [] [[1; 2]; [-1; 2]; [2]]%Z.
Proof.
  split; [|split].
  - intros a b ca cb Hba Ha Hb r rs E.
    destruct a as [|[|[|a]]]; cbn in Ha; try discriminate;
      destruct b as [|[|[|b]]]; cbn in Hb; try discriminate; try lia;
      inversion Ha; inversion Hb; subst; vm_compute in E; try discriminate; inversion E; cbn; auto.
    all: try (destruct a; discriminate); try (destruct b; discriminate).
  - repeat constructor; unfold nz; discriminate.
  - cbn. intros [H|[H|[H|[]]]]; discriminate.
Qed.

(** the procedure never raises *)
Theorem C09_decide_no_err : forall ns fuel f, decide ns fuel f <> Err.
Proof. exact decide_no_err. Qed.
Print Assumptions C09_decide_no_err.

(** C09_decide: whenever the fuel suffices (result is not [Fuel]; [Err] is impossible), the verdict is
    exactly the semantic class of the formula — for ALL formulas *)
Theorem C09_decide : forall fuel f r,
  decide true fuel f = Ok r ->
  (r = Some true <-> tautology f) /\ (r = Some false <-> unsat f) /\ (r = None <-> contingent f).
Proof. exact decide_correct. Qed.
Print Assumptions C09_decide.
Example C09_decide_nonvacuous :
  decide true 1000 d6_witness = Ok (Some true) /\
  decide true 1000 (FEquiv (FVar 0) (FVar 1)) = Ok None /\
  decide true 1000 (FAnd (FEquiv (FVar 0) (FVar 1)) (FEquiv (FVar 0) (FNeg (FVar 1)))) = Ok (Some false).
Proof. repeat split; vm_compute; reflexivity. Qed.

(** enough fuel exists (explicit bound [enough_fuel f]: CNF height bound for to_cnf, (2^|literals|+1)^2
    for the loop), so the out-of-fuel case is impossible from there on *)
Theorem C09_decide_terminates : forall f fuel, (enough_fuel f <= fuel)%nat -> decide true fuel f <> Fuel.
Proof. exact decide_terminates. Qed.
Print Assumptions C09_decide_terminates.
Example C09_decide_terminates_nonvacuous : (enough_fuel (FVar 0) <= 10)%nat /\ decide true 10 (FVar 0) = Ok None.
Proof. split; vm_compute; [repeat constructor|reflexivity]. Qed.

(** unconditional statement of the property (verdict layer): for every formula the repaired procedure,
    run with enough fuel, returns — and returns `proved` iff tautology, `refuted` iff unsatisfiable,
    `declines` iff contingent *)
Theorem C09_decide_total : forall f,
  exists r, decide true (enough_fuel f) f = Ok r /\
    (r = Some true <-> tautology f) /\ (r = Some false <-> unsat f) /\ (r = None <-> contingent f).
Proof. exact decide_total_correct. Qed.
Print Assumptions C09_decide_total.

(* ------------------------------------------------------------------------------------------ *)
(** * 5. D6 (pinned loop, g_resolution_no_shadow = false): a tautology gets the verdict "inconclusive" *)

Theorem C09_refuted_shadow :
  exists f, tautology f /\ decide false 1000 f = Ok None /\ decide true 1000 f = Ok (Some true).
Proof.
  exists d6_witness. split.
  - intro v. unfold d6_witness. cbn. destruct (v 0%N), (v 1%N); reflexivity.
  - split; vm_compute; reflexivity.
Qed.
Print Assumptions C09_refuted_shadow.

(** the saturation invariant itself is refuted for the pinned loop: it answers `False` (inconclusive)
    on an unsatisfiable clause list, leaving the pair ({-1}, {1}) unresolved *)
Theorem C09_saturate_refuted_shadow :
  exists cs l h,
    start_resolution false 1000 cs = Ok (None, l, h) /\ clauses_ok cs /\
    (forall v, clauses_tt v cs = false) /\
    In [-1]%Z l /\ In [1]%Z l /\ resolvable [-1]%Z [1]%Z = Some (1%Z, []) /\ ~ In [] l.
Proof.
  eexists [[-2; -1; -2]; [-1]; [1]]%Z, _, _. split; [vm_compute; reflexivity|].
  split.
  { split; [discriminate|]. repeat constructor; unfold nz; try discriminate. }
  split.
  { intro v. cbn. destruct (v 0%N), (v 1%N); reflexivity. }
  cbn. repeat split; auto 10.
  intros [H|[H|[H|[H|[]]]]]; discriminate.
Qed.
Print Assumptions C09_saturate_refuted_shadow.

(** clause-level skeleton of the proof reconstruction: whenever the loop (either variant) reports the
    empty clause, build_proof_from_hint(hint, frozenset(), clauses) passes its asserts
    (`term_l[0] == -resolvant`, `term_r[0] == resolvant`, `frozenset(final_term) == cl`, dictionary
    lookups) and returns the empty clause (`assert not ret_list`) *)
Theorem C09_build_term_empty : forall ns fuel cls l h,
  start_resolution ns fuel cls = Ok (Some false, l, h) ->
  exists n, build_term n h [] cls = Ok [].
Proof. exact build_term_empty. Qed.
Print Assumptions C09_build_term_empty.
Example C09_build_term_nonvacuous :
  exists l h, start_resolution true 100 [[1]; [-2]; [2; -1]; [3]]%Z = Ok (Some false, l, h) /\
              build_term 10 h [] [[1]; [-2]; [2; -1]; [3]]%Z = Ok [].
Proof. eexists _, _. split; vm_compute; reflexivity. Qed.

(* ------------------------------------------------------------------------------------------ *)
(** * 6. proof layer (schema level, see Taut/PLModel.v) — PARTIAL

    Full statement (not proved in Coq):
      for every propositional pattern f, each stage (to_conj_form, propag_neg, to_cnf, to_clauses)
      returns ProofThunks whose conclusions are literally `f -> stage f` and `stage f -> f`, and
      prove_tautology returns a ProofThunk whose conclusion is literally `f` (verdict True) or `neg f`
      (verdict False); every ProofThunk replays on the interpreters using only Prop1-3, MP, Instantiate
      and the six declared Tautology axioms.
    Proved here: the first three stages (to_conj_form, propag_neg, to_cnf incl. its imp_trans_match1/2
    steps against the or_distr axioms), at the level of the docstring schemas of the library rules (that each rule
    proves its schema is C10): the composition never hits a failing assert and yields exactly the
    advertised conclusions.  Missing: to_clauses (and_assoc / or_assoc shifting with MetaVar(i+3)),
    ac_move_to_front, simplify_clause, merge_clauses, build_proof_from_hint and the final glue.  The full statement is checked on the implementation on every run (runner command Q: every
    returned ProofThunk is executed under StatefulInterpreter, conclusions compared literally). *)

Theorem C09_stage_proofs_conc_partial :
  (forall p, exists l r, tcfp p = Some (tcf p, l, r) /\ conj_spec p (tcf p) l r) /\
  (forall t b, is_orform t = true ->
     exists t' p1 p2, pnp b t = Some (t', p1, p2) /\ pn b t = Some t' /\
       p1 = KImp (pn_input b t) (cf_core t') /\ p2 = KImp (cf_core t') (pn_input b t)) /\
  (forall fuel t t', to_cnf fuel t = Ok t' -> is_nnf t = true ->
     to_cnf_p fuel t = Ok (t', KImp (cf_core t) (cf_core t'), KImp (cf_core t') (cf_core t))).
Proof. split; [exact tcfp_conc|split; [exact pnp_conc|exact to_cnf_p_conc]]. Qed.
Print Assumptions C09_stage_proofs_conc_partial.
Example C09_stage_proofs_conc_nonvacuous :
  tcfp (expand (FImp (FVar 0) (FVar 1))) =
  Some (COr false (CVar true 0) (CVar false 1),
        KImp (KImp (KVar 0) (KVar 1)) (KImp (nn (KVar 0)) (KVar 1)),
        Some (KImp (KImp (nn (KVar 0)) (KVar 1)) (KImp (KVar 0) (KVar 1)))).
Proof. reflexivity. Qed.

(** to_clauses (4th stage): the and/or-assoc shifting schemas built with MetaVar(i+3) and applied through
    imp_trans_match1/2 (match_single + instantiate, modelled by [kmatch]/[ksubst]) yield literally
    `cnf -> clause conjunction` and back, for every CNF tree *)
Theorem C09_to_clauses_proofs_conc : forall t, is_cnf t = true ->
  exists cs, to_clauses t = Some cs /\ cs <> [] /\
    to_clauses_p t = Some (cs, KImp (cf_core t) (cls_core cs), KImp (cls_core cs) (cf_core t)).
Proof. exact to_clauses_p_conc. Qed.
Print Assumptions C09_to_clauses_proofs_conc.
Example C09_to_clauses_proofs_nonvacuous :
  let t := CAnd false (CAnd false (CVar false 0) (CAnd false (CVar true 1) (CVar false 2)))
                      (COr false (COr false (CVar false 0) (COr false (CVar false 1) (CVar true 2))) (CVar false 3)) in
  is_cnf t = true /\
  to_clauses_p t = Some ([[1]; [-2]; [3]; [1; 2; -3; 4]]%Z,
                         KImp (cf_core t) (cls_core [[1]; [-2]; [3]; [1; 2; -3; 4]]%Z),
                         KImp (cls_core [[1]; [-2]; [3]; [1; 2; -3; 4]]%Z) (cf_core t)).
Proof. split; vm_compute; reflexivity. Qed.

(** Final glue — PARTIAL (proved modulo three named helper specs).
    Full statement: for every f, if prove_tautology returns (True, pf) then pf's conclusion is literally f, if it
    returns (False, pf) then literally neg f; likewise start_resolution_algorithm returns a proof of the clause
    conjunction / of its negation, and build_proof_from_hint a proof of `conjunction -> clause`.
    Proved: exactly that, for the schema-level model [prove_tautology_p] (all four stages, conjunction_implies_nth,
    the resolution_* rules, resolution_step, long_imp_trans, and_intro chain, dneg_elim/modus_ponens glue are
    modelled and composed), for EVERY formula, fuel and loop variant, under [helper_specs P]:
      H_simplify  simplify_clause(cl, x)[1] concludes  clause(cl) <-> clause(simplified cl)      (runner: QP S)
      H_merge     merge_clauses(l, len l, r) concludes  clause(l) \/ clause(r) <-> clause(l++r)   (runner: QP M)
      H_trivial   prove_trivial_clause(cl) concludes  clause(cl)  when cl has complementary literals (runner: QP T)
    (these three rest on ac_move_to_front / reduce_n_or_duplicates_at_front, not modelled; each is checked on the
    implementation on every run by executing the returned ProofThunk; [spec_pieces_ok] shows the specs are consistent).
    The model's conclusions are tied to the implementation's ProofThunk.conc on every run (pl=, plc=, pll=, plf=). *)
Theorem C09_prove_tautology_conc_partial : forall P, helper_specs P ->
  forall ns fuel f r, decide ns fuel f = Ok r ->
  prove_tautology_p P ns fuel f =
  Ok (match r with
      | Some true => Some (true, expand f)
      | Some false => Some (false, k_neg (expand f))
      | None => None
      end).
Proof. exact prove_tautology_conc_modulo. Qed.
Print Assumptions C09_prove_tautology_conc_partial.

Theorem C09_start_resolution_conc_partial : forall P, helper_specs P ->
  forall ns fuel cls vd l h, start_resolution ns fuel cls = Ok (vd, l, h) -> clauses_nz cls ->
  start_resolution_p P ns fuel cls =
  Ok (match vd with
      | Some true => Some (true, cls_core cls)
      | Some false => Some (false, k_neg (cls_core cls))
      | None => None
      end).
Proof. exact start_resolution_conc_modulo. Qed.
Print Assumptions C09_start_resolution_conc_partial.

Example C09_prove_tautology_conc_nonvacuous :
  helper_specs spec_pieces /\
  prove_tautology_p spec_pieces true 1000 d6_witness = Ok (Some (true, expand d6_witness)) /\
  prove_tautology_p spec_pieces true 1000 (FAnd (FVar 0) (FNeg (FVar 0)))
    = Ok (Some (false, k_neg (expand (FAnd (FVar 0) (FNeg (FVar 0)))))).
Proof. split; [exact spec_pieces_ok|split; vm_compute; reflexivity]. Qed.

(** merge_clauses modelled ([s_merge]: equiv_refl / equiv_sym(or_assoc) / equiv_transitivity / or_cong) and its spec
    proved: H_merge is discharged *)
Theorem C09_merge_clauses_conc : forall l r, l <> [] -> r <> [] ->
  s_merge (clause_core l) (length l) (clause_core r)
  = Some (k_equiv (k_or (clause_core l) (clause_core r)) (clause_core (l ++ r))).
Proof. exact s_merge_conc. Qed.
Print Assumptions C09_merge_clauses_conc.
Example C09_merge_clauses_nonvacuous :
  s_merge (clause_core [1; -2; 3]%Z) 3 (clause_core [3; 4]%Z)
  = Some (k_equiv (k_or (clause_core [1; -2; 3]%Z) (clause_core [3; 4]%Z)) (clause_core [1; -2; 3; 3; 4]%Z)).
Proof. vm_compute. reflexivity. Qed.

(** the glue theorem with merge_clauses discharged: only H_simplify (QP S) and H_trivial (QP T) remain *)
Theorem C09_prove_tautology_conc2_partial : forall simp triv, helper_specs2 simp triv ->
  forall ns fuel f r, decide ns fuel f = Ok r ->
  prove_tautology_p (pieces_merge simp triv) ns fuel f =
  Ok (match r with
      | Some true => Some (true, expand f)
      | Some false => Some (false, k_neg (expand f))
      | None => None
      end).
Proof. exact prove_tautology_conc_modulo2. Qed.
Print Assumptions C09_prove_tautology_conc2_partial.

(* ------------------------------------------------------------------------------------------ *)
(** * 7. the remaining helpers modelled and their specs proved: no hypothesis is left

    ac_move_to_front (for \/): the recursion `unroll(term_l, term_r, positions, l, unrolling)` is modelled
    literally ([unroll], one unit of fuel per call, both asserts, all six branches with assoc / assoc_rev /
    comm / cong / extract_op) and proved to conclude
        t0 \/ (t1 \/ ... tn)  <->  the terms at the given (ascending) positions first, the others in order. *)
Theorem C09_or_move_to_front_conc : forall ps terms,
  terms <> [] -> incr 0 ps -> (forall p, In p ps -> (p < length terms)%nat) ->
  or_move_to_front ps terms = Some (k_equiv (fold1 k_or terms) (fold1 k_or (moved ps terms))).
Proof. exact or_move_to_front_spec. Qed.
Print Assumptions C09_or_move_to_front_conc.
Example C09_or_move_to_front_nonvacuous :
  or_move_to_front [1; 3]%nat (map KVar [0; 1; 2; 3; 4]%N)
  = Some (k_equiv (fold1 k_or (map KVar [0; 1; 2; 3; 4]%N)) (fold1 k_or (map KVar [1; 3; 0; 2; 4]%N))).
Proof. vm_compute. reflexivity. Qed.

(** simplify_clause(cl, x)[1] (positions, or_move_to_front, reduce_n_or_duplicates_at_front, equiv_transitivity):
    discharges H_simplify *)
Theorem C09_simplify_clause_conc : forall cl x, cl <> [] -> Forall nz cl ->
  s_simplify cl x = Some (k_equiv (clause_core cl) (clause_core (simplify_clause cl x))).
Proof. exact s_simplify_spec. Qed.
Print Assumptions C09_simplify_clause_conc.
Example C09_simplify_clause_nonvacuous :
  s_simplify [2; 1; 1; 3]%Z 1%Z = Some (k_equiv (clause_core [2; 1; 1; 3]%Z) (clause_core [1; 2; 3]%Z)).
Proof. vm_compute. reflexivity. Qed.

(** prove_trivial_clause(cl) (first complementary pair in itertools.combinations order, or_move_to_front, and_r,
    or_assoc_r, or_l, dneg_elim / imp_refl, modus_ponens): discharges H_trivial *)
Theorem C09_trivial_clause_conc : forall cl, Forall nz cl -> is_trivial (mkset cl) = true ->
  s_trivial cl = Some (clause_core cl).
Proof. exact s_trivial_spec. Qed.
Print Assumptions C09_trivial_clause_conc.
Example C09_trivial_clause_nonvacuous :
  s_trivial [3; 1; 2; -1]%Z = Some (clause_core [3; 1; 2; -1]%Z) /\ is_trivial (mkset [3; 1; 2; -1]%Z) = true.
Proof. split; vm_compute; reflexivity. Qed.

(** C09_prove_tautology_conc — the proof-object layer at schema level, complete: for EVERY formula, fuel and
    loop variant, whenever the procedure delivers a verdict, the model of the returned proof (all helpers modelled,
    nothing assumed) concludes literally the pattern (verdict True) / its negation (verdict False), and declines
    exactly when the verdict layer declines.  (What remains outside Coq: that each library rule proves its docstring
    schema — C10 — and that executing the thunks on the interpreters yields these conclusions — checked at run time
    by Q / QS / QP.) *)
Theorem C09_prove_tautology_conc : forall ns fuel f r,
  decide ns fuel f = Ok r ->
  prove_tautology_p model_pieces ns fuel f =
  Ok (match r with
      | Some true => Some (true, expand f)
      | Some false => Some (false, k_neg (expand f))
      | None => None
      end).
Proof. exact prove_tautology_conc_full. Qed.
Print Assumptions C09_prove_tautology_conc.

Theorem C09_start_resolution_conc : forall ns fuel cls vd l h,
  start_resolution ns fuel cls = Ok (vd, l, h) -> clauses_nz cls ->
  start_resolution_p model_pieces ns fuel cls =
  Ok (match vd with
      | Some true => Some (true, cls_core cls)
      | Some false => Some (false, k_neg (cls_core cls))
      | None => None
      end).
Proof. exact start_resolution_conc_full. Qed.
Print Assumptions C09_start_resolution_conc.

Example C09_prove_tautology_conc_full_nonvacuous :
  prove_tautology_p model_pieces true 1000 d6_witness = Ok (Some (true, expand d6_witness)) /\
  prove_tautology_p model_pieces true 1000 (FAnd (FOr (FVar 0) (FVar 1)) (FAnd (FNeg (FVar 0)) (FNeg (FVar 1))))
    = Ok (Some (false, k_neg (expand (FAnd (FOr (FVar 0) (FVar 1)) (FAnd (FNeg (FVar 0)) (FNeg (FVar 1))))))).
Proof. split; vm_compute; reflexivity. Qed.

(* ------------------------------------------------------------------------------------------ *)
(** * 8. tie by TRANSLATION: the verdict layer regenerated from the current tautology.py

    coq/Gen/TautVerdict.v is produced on every run by translators/taut_verdict.py (Python-ast, fail closed) from the
    methods resolvable, is_trivial_clause, to_conj_form, propag_neg, to_cnf, to_clauses, resolution_algorithm,
    start_resolution_algorithm, prove_tautology.  Proof objects are projected away (see the generated header);
    the reading of the Python data model is Taut/GenPrelude.v.  Taut/GenTautAgree.v proves the generated functions equal
    to / in agreement with the hand-written model, so the theorems above transfer to the generated code. *)

(** the stage functions of the source *)
Theorem C09_source_stages_agree :
  (forall c1 c2, gen_resolvable c1 c2 = Ok (resolvable c1 c2)) /\
  (forall cl, gen_is_trivial_clause cl = Ok (is_trivial cl)) /\
  (forall fuel p, gen_to_conj_form fuel p = Fuel \/ gen_to_conj_form fuel p = Ok (tcf p)) /\
  (forall fuel t b, gen_propag_neg fuel (togb b t) = Fuel \/ gen_propag_neg fuel (togb b t) = of_option (pn b t)) /\
  (forall fuel t, gen_to_cnf fuel t = to_cnf fuel t) /\
  (forall fuel t, gen_to_clauses fuel t = Fuel \/ gen_to_clauses fuel t = of_option (to_clauses t)) /\
  (forall p fuel, (kdepth p < fuel)%nat -> gen_to_conj_form fuel p <> Fuel) /\
  (forall t b fuel, (cheight t < fuel)%nat -> gen_propag_neg fuel (togb b t) <> Fuel) /\
  (forall t fuel, (cheight t < fuel)%nat -> gen_to_clauses fuel t <> Fuel).
Proof.
  repeat split.
  - exact gen_resolvable_agree.
  - exact gen_is_trivial_agree.
  - exact gen_to_conj_form_spec.
  - exact gen_propag_neg_spec.
  - exact gen_to_cnf_agree.
  - exact gen_to_clauses_spec.
  - exact gen_to_conj_form_fuel.
  - exact gen_propag_neg_fuel.
  - exact gen_to_clauses_fuel.
Qed.
Print Assumptions C09_source_stages_agree.

(** the double loop of the source: every run of the model's loop (repaired configuration, no_shadow = true) is
    reproduced by the generated loops with the same verdict, final list and hint dictionary; the generated loops are
    monotone in their fuel.  Re-introducing `cl1, cl2 = cl2, cl1` changes the generated inner loop (cl1 becomes
    threaded state) and this lemma no longer type-checks. *)
Theorem C09_source_loop_agree :
  (forall n h l b l' h', resolution_algorithm true n h l = Ok (b, l', h') ->
     forall F, (S n < F)%nat -> gen_resolution_algorithm F h l = Ok (b, h', l')) /\
  (forall F h l x, gen_resolution_algorithm F h l = Ok x ->
     forall F', (F <= F')%nat -> gen_resolution_algorithm F' h l = Ok x) /\
  (forall n cls v l h, start_resolution true n cls = Ok (v, l, h) ->
     forall F, (S n < F)%nat -> (length cls < F)%nat -> gen_start_resolution_algorithm F cls = Ok v).
Proof. split; [exact resolution_algorithm_to_gen|split; [exact gen_ra_mono|exact gen_start_of_model]]. Qed.
Print Assumptions C09_source_loop_agree.

(** C09_source_decide: the decision function GENERATED FROM THE SOURCE is sound, complete and terminating:
    whatever it answers (any fuel) is the semantic class of the formula, and with [source_fuel f] it answers. *)
Theorem C09_source_decide :
  (forall F f r, gen_decide F f = Ok r ->
     (r = Some true <-> tautology f) /\ (r = Some false <-> unsat f) /\ (r = None <-> contingent f)) /\
  (forall f F, (source_fuel f <= F)%nat -> exists r, gen_decide F f = Ok r).
Proof.
  split.
  - intros F f r H. destruct (gen_decide_sound _ _ _ H) as [N HN]. exact (decide_correct _ _ _ HN).
  - intros f F HF. destruct (gen_decide_total f F HF) as (r & _ & Hr). exists r. exact Hr.
Qed.
Print Assumptions C09_source_decide.
Example C09_source_decide_nonvacuous :
  gen_decide 200 d6_witness = Ok (Some true) /\ gen_decide 200 (FVar 0) = Ok None /\
  gen_decide 300 (FAnd (FEquiv (FVar 0) (FVar 1)) (FEquiv (FVar 0) (FNeg (FVar 1)))) = Ok (Some false).
Proof. repeat split; vm_compute; reflexivity. Qed.

(** C09 — The tautology prover is a correct decision procedure (property theorems only). *)
From Coq Require Import ZArith NArith List Bool.
From Pi2 Require Import Taut.Model.
Import ListNotations.

(** D6 (pinned loop, g_resolution_no_shadow = false): a tautology gets the verdict "inconclusive". *)
Theorem C09_refuted_shadow :
  exists f, (forall v, tt v f = true) /\ decide false 5000 f = Ok None /\ decide true 5000 f = Ok (Some true).
Proof.
  exists d6_witness. split.
  - intro v. unfold d6_witness. cbn. destruct (v 0%N), (v 1%N); reflexivity.
  - split; vm_compute; reflexivity.
Qed.
Print Assumptions C09_refuted_shadow.

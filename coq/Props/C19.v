(** C19 — Pretty-printed notation shows the arguments it depends on.
    Model: coq/Py/Pretty.v ([Pattern.pretty], [Notation.print_instantiation], format strings as chunk lists);
    the notation table coq/Gen/Notations.v is regenerated from the current /repo on every run
    (harness/notations.py, runtime reflection).  [covers nt] = every metavariable of the definition has a hole
    in the format string. *)
From Coq Require Import NArith List Bool.
From Pi2 Require Import ML.Syntax Py.Pattern Py.Pretty Py.Families Py.PrettyFacts Py.Serial Py.SerialFacts Py.Witness Gen.Notations.
Import ListNotations.

(** all module-level notations of pattern.py / proofs/{propositional,definedness,kore,substitution}.py *)
Theorem C19_shipped_cover : forallb covers shipped = true.
Proof. vm_compute. reflexivity. Qed.
Print Assumptions C19_shipped_cover.

(** parametric families, for ALL parameters; the Gallina families are tied to the reflected samples *)
Theorem C19_family_sorted_exists : forall v, covers (fam_sorted_exists v) = true.
Proof. intro v. reflexivity. Qed.
Theorem C19_family_sorted_exists_tied :
  forallb (fun p => notation_eqb (fam_sorted_exists (fst p)) (snd p)) samples_sorted_exists = true.
Proof. vm_compute. reflexivity. Qed.
Theorem C19_family_kore_exists : forall v, covers (fam_kore_exists v) = true.
Proof. intro v. reflexivity. Qed.
Theorem C19_family_kore_exists_tied :
  forallb (fun p => notation_eqb (fam_kore_exists (fst p)) (snd p)) samples_kore_exists = true.
Proof. vm_compute. reflexivity. Qed.
Theorem C19_family_forall : forall v, covers (fam_forall v) = true.
Proof. intro v. reflexivity. Qed.
Theorem C19_family_forall_tied :
  forallb (fun p => notation_eqb (fam_forall (fst p)) (snd p)) samples_forall = true.
Proof. vm_compute. reflexivity. Qed.
Theorem C19_family_nary_app : forall sym name n cell, covers (nary_app sym name n cell) = true.
Proof. exact nary_app_covers. Qed.
Theorem C19_family_nary_app_tied :
  forallb (fun p => notation_eqb (fst p) (snd p)) samples_nary_app = true.
Proof. vm_compute. reflexivity. Qed.
Print Assumptions C19_family_nary_app.

(** a hole distinguishes: renderings that differ at a covered position give different text *)
Theorem C19_format_distinguishes : forall fmt (args args':list str) i r r' s s',
  has_hole fmt (N.of_nat i) = true ->
  nth_error args i = Some r -> nth_error args' i = Some r' ->
  (forall j, j <> i -> nth_error args j = nth_error args' j) ->
  r <> r' ->
  format fmt args = Some s -> format fmt args' = Some s' -> s <> s'.
Proof. exact format_distinguishes. Qed.
Theorem C19_hole_distinguishes : forall f n o nt args args' i r r' s s',
  o_simplify o = false -> find_notation (o_notations o) (nt_def nt) = Some nt ->
  has_hole (nt_fmt nt) (N.of_nat i) = true ->
  (exists a, nth_error args i = Some a /\ pretty f n o a = Some (Some r)) ->
  (exists a', nth_error args' i = Some a' /\ pretty f n o a' = Some (Some r')) ->
  (forall j, j <> i ->
     match nth_error args j, nth_error args' j with
     | Some a, Some a' => pretty f n o a = pretty f n o a'
     | None, None => True
     | _, _ => False
     end) ->
  r <> r' ->
  pretty f (S n) o (PInst (nt_def nt) (enumerate_from 0 args)) = Some (Some s) ->
  pretty f (S n) o (PInst (nt_def nt) (enumerate_from 0 args')) = Some (Some s') ->
  s <> s'.
Proof. exact hole_distinguishes. Qed.
Print Assumptions C19_hole_distinguishes.

(** [lines_match_opcodes]: for every sequence of interpreter calls (hence for both optimize settings: the
    memoising wrapper only changes the call sequence) the bytes written by the serialiser decode, uniquely and in
    order, into exactly one instruction per call = per pretty-printed step ([pretty_step c], Py/Serial.v), each
    with the operands the step shows; symbols are numbered by first occurrence *)
Theorem C19_lines_match_opcodes : forall tbl cs,
  decode (length cs) (emits tbl cs) = Some (instrs_of tbl cs) /\
  length (instrs_of tbl cs) = length (map pretty_step cs) /\
  Forall2 step_matches cs (instrs_of tbl cs).
Proof.
  intros tbl cs. split; [apply decode_emits|]. split; [rewrite map_length; apply instrs_of_length|apply steps_match].
Qed.
Theorem C19_symbols_numbered : forall cs tbl, NoDup tbl ->
  NoDup (final_tbl tbl cs) /\ (exists e, final_tbl tbl cs = tbl ++ e) /\
  Forall2 (fun c i => match c, i with
                      | KSymbol name, ISymbol k => nth_error (final_tbl tbl cs) (N.to_nat k) = Some name
                      | _, _ => True
                      end) cs (instrs_of tbl cs).
Proof. exact symbols_numbered. Qed.
Print Assumptions C19_lines_match_opcodes.

(** ---- non-vacuity ---- *)
Definition ex_opts : popts := {| o_simplify := false; o_notations := [bot_nt; neg_nt; and_nt]; o_syms := [] |}.
Example C19_ex_pretty :
  pretty flags_sound 20 ex_opts (and_p (PEVar 1) (neg_p (PEVar 2))) =
  Some (Some [40; 120;49; 32;8896;32; 172;120;50; 41]%N).    (* "(x1 ⋀ ¬x2)" *)
Proof. vm_compute. reflexivity. Qed.
Example C19_ex_covers : covers and_nt = true.
Proof. reflexivity. Qed.
Example C19_ex_emit :
  emits [] [KSymbol [115;49]; KMetaVar 0 [1] [] [] [] []; KInst [0;1]%N; KSymbol [115;49]] =
  [4;0; 9;0;1;1;0;0;0;0; 26;2;1;0; 4;0]%N.
Proof. vm_compute. reflexivity. Qed.

(** ---- D13 (pinned tree): a format string that swallowed its holes prints different patterns alike ---- *)
Theorem C19_refuted_swallowed_holes :
  covers equiv_pinned_nt = false /\
  exists o a b, a <> b /\
    pretty flags_sound 20 o (PInst equiv_def [(0%N, PEVar 1); (1%N, PEVar 2)]) =
    pretty flags_sound 20 o (PInst equiv_def [(0%N, PEVar 3); (1%N, PEVar 4)]) /\
    pretty flags_sound 20 o (PEVar 1) = Some (Some a) /\ pretty flags_sound 20 o (PEVar 3) = Some (Some b).
Proof.
  split; [reflexivity|].
  exists {| o_simplify := false; o_notations := [equiv_pinned_nt]; o_syms := [] |}, [120;49]%N, [120;51]%N.
  split; [discriminate|]. vm_compute. repeat split; reflexivity.
Qed.

(** D17: distinguishing is a theorem for ONE differing position only.  With several, a bracket-less format is
    ambiguous under self-nesting: kore.in_sort's '{0}:{1}' prints  a : (b : c)  and  (a : b) : c  alike. *)
Theorem C19_refuted_ambiguous_nesting :
  exists fmt args args' s, has_hole fmt 0%N = true /\ has_hole fmt 1%N = true /\
    nth_error args 0 <> nth_error args' 0 /\ nth_error args 1 <> nth_error args' 1 /\
    format fmt args = Some s /\ format fmt args' = Some s.
Proof.
  exists [Hole 0; Lit [58%N]; Hole 1], [[97]; [98;58;99]]%N, [[97;58;98]; [99]]%N, [97;58;98;58;99]%N.
  vm_compute. repeat split; try reflexivity; discriminate.
Qed.

(** C13 — Matching is sound and complete.
    Model: coq/Py/Pattern.v ([match_single], [match_list] = pattern.py [match], [nmatches]/[nassert] =
    [Notation.matches]/[assert_matches]).  Substitutions are insertion-ordered maps; [sub s t] = t extends s;
    [esub t s] = the bindings of t, expanded, are bindings of the notation-free map s.  Partial-correctness
    form over the fuel (termination: Py/Termination.v). *)
From Coq Require Import NArith List Bool.
From Pi2 Require Import ML.Syntax Py.Pattern Py.PatFacts Py.ExpandFacts Py.MatchFacts Py.Termination Py.Total Py.Bridge Py.Current Py.NaryFacts Py.Witness.
Import ListNotations.
Open Scope N_scope.

(** soundness: the seed is respected; instantiating the pattern with the answer gives the instance *)
Theorem C13_match_sound : forall f, f_mv_keep_subst f = true -> f_inst_extend f = true ->
  forall n p i seed th, match_single f n p i seed = Some (Some th) ->
  sub seed th /\
  forall th', sub th th' -> p_inst f (expand f p) (expand_delta f th') = expand f i.
Proof. exact match_sound. Qed.
Theorem C13_match_sound_py : forall f, f_mv_keep_subst f = true -> f_inst_extend f = true ->
  forall n p i seed th, match_single f n p i seed = Some (Some th) ->
  forall m r k e, py_inst f m p th = Some r -> py_eq f k r i = Some e -> e = true.
Proof. exact match_sound_py. Qed.
Print Assumptions C13_match_sound_py.

(** completeness for patterns whose expansion has no pending substitution *)
Theorem C13_match_complete : forall f, f_mv_keep_subst f = true -> f_inst_extend f = true ->
  f_match_simplify f = true ->
  forall n p i seed s res,
  nosub (expand f p) = true ->
  p_inst f (expand f p) s = expand f i ->
  (forall k, In k (p_metavars (expand f p)) -> alookup k s <> None) ->
  esub f seed s ->
  match_single f n p i seed = Some res ->
  exists th, res = Some th /\ esub f th s.
Proof. exact match_complete. Qed.
Print Assumptions C13_match_complete.

(** equation lists, including the empty solution *)
Theorem C13_match_list_sound : forall f, f_mv_keep_subst f = true -> f_inst_extend f = true ->
  f_match_list_none f = true ->
  forall n eqs ret th, match_list f n eqs ret = Some (Some th) ->
  sub ret th /\
  forall p i, In (p, i) eqs -> forall th', sub th th' -> p_inst f (expand f p) (expand_delta f th') = expand f i.
Proof. exact match_list_sound. Qed.
Theorem C13_match_list_complete : forall f, f_mv_keep_subst f = true -> f_inst_extend f = true ->
  f_match_simplify f = true -> f_match_list_none f = true ->
  forall n eqs ret s res,
  (forall p i, In (p, i) eqs ->
     nosub (expand f p) = true /\ p_inst f (expand f p) s = expand f i /\
     (forall k, In k (p_metavars (expand f p)) -> alookup k s <> None)) ->
  esub f ret s ->
  match_list f n eqs ret = Some res ->
  exists th, res = Some th /\ esub f th s.
Proof. exact match_list_complete. Qed.
Print Assumptions C13_match_list_complete.

(** deconstructing a notation application returns arguments that rebuild an equal pattern *)
Theorem C13_notation_roundtrip : forall f, f_mv_keep_subst f = true -> f_inst_extend f = true ->
  f_match_simplify f = true -> f_assert_none f = true ->
  forall n nt args res,
  length args = nt_arity nt ->
  nosub (expand f (nt_def nt)) = true ->
  (forall k, In k (p_metavars (expand f (nt_def nt))) -> (N.to_nat k < nt_arity nt)%nat) ->
  nassert f n nt (PInst (nt_def nt) (enumerate_from 0 args)) = Some res ->
  exists args', res = Some args' /\ length args' = nt_arity nt /\
    expand f (PInst (nt_def nt) (enumerate_from 0 args')) = expand f (PInst (nt_def nt) (enumerate_from 0 args)).
Proof. exact notation_roundtrip. Qed.
Print Assumptions C13_notation_roundtrip.

(** total correctness: with fuel beyond the structural measure [dm] matching always answers, the answer is
    sound, and it is not None on an instance of a substitution-free pattern *)
Theorem C13_match_single_total : forall f, f_mv_keep_subst f = true -> f_inst_extend f = true ->
  forall p i n, (dm p one + dm i one + dm i one <= n)%nat ->
  exists res, match_single f n p i [] = Some res /\
    (forall th, res = Some th ->
       forall th', sub th th' -> p_inst f (expand f p) (expand_delta f th') = expand f i) /\
    (f_match_simplify f = true -> nosub (expand f p) = true ->
     forall s, p_inst f (expand f p) s = expand f i ->
       (forall k, In k (p_metavars (expand f p)) -> alookup k s <> None) -> res <> None).
Proof. exact match_single_total. Qed.
Theorem C13_match_list_terminates : forall f, f_inst_extend f = true ->
  forall n eqs ret W,
  (forall e, In e eqs -> (dm (fst e) one + dm (snd e) one + W <= n)%nat /\ (dm (snd e) one <= W)%nat) ->
  (forall kv, In kv ret -> (dm (snd kv) one <= W)%nat) ->
  exists res, match_list f n eqs ret = Some res.
Proof. exact match_list_terminates. Qed.
Theorem C13_assert_matches_terminates : forall f, f_inst_extend f = true ->
  forall n nt p, (dm (nt_def nt) one + dm p one + dm p one <= n)%nat -> exists res, nassert f n nt p = Some res.
Proof. exact nassert_terminates. Qed.
Print Assumptions C13_match_single_total.

(** ---- non-vacuity ---- *)
Example C13_ex_match :
  match_single flags_sound 30 (and_p (pphi 0) (PImp (pphi 1) (pphi 0)))
               (and_p (neg_p (PEVar 1)) (PImp (PEVar 2) (neg_p (PEVar 1)))) [] =
  Some (Some [(0, neg_p (PEVar 1)); (1, PEVar 2)]).
Proof. vm_compute. reflexivity. Qed.
Example C13_ex_seed :
  match_single flags_sound 30 (PImp (pphi 0) (pphi 1)) (PImp (PEVar 1) (PEVar 2)) [(1, PEVar 2)] =
  Some (Some [(1, PEVar 2); (0, PEVar 1)]).
Proof. vm_compute. reflexivity. Qed.
Example C13_ex_seed_conflict :
  match_single flags_sound 30 (PImp (pphi 0) (pphi 1)) (PImp (PEVar 1) (PEVar 2)) [(1, PEVar 3)] = Some None.
Proof. vm_compute. reflexivity. Qed.
Example C13_ex_empty_solution : match_list flags_sound 30 [(PEVar 0, PEVar 0)] [] = Some (Some []).
Proof. vm_compute. reflexivity. Qed.
Example C13_ex_roundtrip :
  nassert flags_sound 30 and_nt (and_p (PEVar 1) (PEVar 2)) = Some (Some [PEVar 1; PEVar 2]).
Proof. vm_compute. reflexivity. Qed.
Example C13_ex_roundtrip0 : nassert flags_sound 30 bot_nt bot_p = Some (Some []).
Proof. vm_compute. reflexivity. Qed.

(** ---- refutations, one per missing repair ---- *)
(** D4a: [match([(x0, x0)])] returns None because the empty dict is falsy *)
Theorem C13_refuted_empty_list :
  exists eqs n, match_list flags_no_match_list_none n eqs [] = Some None /\
    forall p i, In (p, i) eqs -> expand flags_no_match_list_none p = expand flags_no_match_list_none i.
Proof.
  exists [(PEVar 0, PEVar 0)], 30%nat. split; [vm_compute; reflexivity|].
  intros p i [H|[]]. inversion H. reflexivity.
Qed.
(** D4b: [bot.assert_matches(bot())] raises because the empty tuple is falsy *)
Theorem C13_refuted_arity0 :
  exists nt n, nassert flags_no_assert_none n nt (PInst (nt_def nt) (enumerate_from 0 [])) = Some None /\ nt_arity nt = 0%nat.
Proof. exists bot_nt, 30%nat. split; vm_compute; reflexivity. Qed.
(** D4c: a notation whose body is a bare metavariable does not match although its expansion does *)
Theorem C13_refuted_bare_metavar :
  exists p i s n, match_single flags_no_match_simplify n p i [] = Some None /\
    nosub (expand flags_no_match_simplify p) = true /\
    p_inst flags_no_match_simplify (expand flags_no_match_simplify p) s = expand flags_no_match_simplify i.
Proof. exists bare_pat, (PEVar 3), [(1, EVar 3)], 30%nat. vm_compute. repeat split; reflexivity. Qed.
(** D5: with the pinned partial-Instantiate instantiation the returned substitution does not rebuild the instance *)
Theorem C13_refuted_sound_partial_inst :
  exists p i th n r, match_single flags_no_inst_extend n p i [] = Some (Some th) /\
    py_inst flags_no_inst_extend n p th = Some r /\ py_eq flags_no_inst_extend n r i = Some false.
Proof.
  exists d5_pat, (PImp (PEVar 7) (pphi 0)), [(1, pphi 0)], 30%nat, (PInst (PImp (pphi 0) (pphi 0)) [(0, PEVar 7)]).
  vm_compute. repeat split; reflexivity.
Qed.

(** ================================================================================================
    For the configuration the CURRENT code is in ([flags_current], D9d present), on corner-free inputs
    (Py/Bridge.v; see Props/C12.v). *)
Theorem C13_bridge_match_single : forall se ss f n p i ret,
  corner_free se ss p = true -> corner_free se ss i = true -> cfd se ss ret = true ->
  match_single f n p i ret = match_single (with_keep f) n p i ret /\
  forall th, match_single (with_keep f) n p i ret = Some (Some th) -> cfd se ss th = true.
Proof. exact match_single_bridge. Qed.
Theorem C13_bridge_match_list : forall se ss f n eqs ret,
  forallb (fun e => corner_free se ss (fst e) && corner_free se ss (snd e)) eqs = true -> cfd se ss ret = true ->
  match_list f n eqs ret = match_list (with_keep f) n eqs ret.
Proof. exact match_list_bridge. Qed.
Theorem C13_bridge_assert_matches : forall se ss f n nt p,
  corner_free se ss (nt_def nt) = true -> corner_free se ss p = true -> nassert f n nt p = nassert (with_keep f) n nt p.
Proof. exact nassert_bridge. Qed.

Theorem C13_match_sound_current_code : forall se ss n p i seed th,
  corner_free se ss p = true -> corner_free se ss i = true -> cfd se ss seed = true ->
  match_single flags_current n p i seed = Some (Some th) ->
  sub seed th /\ cfd se ss th = true /\
  forall th', cfd se ss th' = true -> sub th th' ->
    p_inst flags_current (expand flags_current p) (expand_delta flags_current th') = expand flags_current i.
Proof. exact (fun se ss => match_sound_cur se ss flags_current eq_refl). Qed.
Theorem C13_match_complete_current_code : forall se ss n p i seed s res,
  corner_free se ss p = true -> corner_free se ss i = true -> cfd se ss seed = true ->
  nosub (expand flags_current p) = true ->
  p_inst flags_current (expand flags_current p) s = expand flags_current i ->
  (forall k, In k (p_metavars (expand flags_current p)) -> alookup k s <> None) ->
  esub flags_current seed s ->
  match_single flags_current n p i seed = Some res ->
  exists th, res = Some th /\ esub flags_current th s.
Proof. exact (fun se ss => match_complete_cur se ss flags_current eq_refl eq_refl). Qed.
Print Assumptions C13_match_complete_current_code.

Example C13_ex_current_unconstrained :
  let p := and_p (pphi 0) (PImp (pphi 1) (pphi 0)) in
  let i := and_p (neg_p (PEVar 1)) (PImp (PESub (pphi 2) 1 (PEVar 2)) (neg_p (PEVar 1))) in
  corner_free [1] [] p = true /\ corner_free [1] [] i = true /\
  match_single flags_current 30 p i [] = Some (Some [(0, neg_p (PEVar 1)); (1, PESub (pphi 2) 1 (PEVar 2))]).
Proof. vm_compute. repeat split; reflexivity. Qed.
Example C13_ex_current_constrained :
  let p := PImp (PMVar 0 [3] [] [] [] []) (pphi 1) in
  let i := PImp (neg_p (PEVar 1)) (PESub (pphi 2) 1 (PEVar 2)) in
  corner_free [1] [] p = true /\ corner_free [1] [] i = true /\
  match_single flags_current 30 p i [] = Some (Some [(0, neg_p (PEVar 1)); (1, PESub (pphi 2) 1 (PEVar 2))]).
Proof. vm_compute. repeat split; reflexivity. Qed.

(** deconstruct_nary_application returns a head and arguments that rebuild an equal pattern *)
Theorem C13_deconstruct_nary_rebuilds : forall f, f_mv_keep_subst f = true -> f_inst_extend f = true ->
  forall n p h args, decon_nary f n p = Some (h, args) ->
  p_apps (expand f h) (map (expand f) args) = expand f p.
Proof. exact decon_nary_rebuild. Qed.
Theorem C13_deconstruct_nary_rebuilds_current_code : forall se ss n p h args,
  corner_free se ss p = true -> decon_nary flags_current n p = Some (h, args) ->
  p_apps (expand flags_current h) (map (expand flags_current) args) = expand flags_current p.
Proof.
  intros se ss n p h args Hc H. apply (decon_nary_expand_cur se ss flags_current eq_refl) in H; [|exact Hc].
  rewrite <- (p_spine_rebuild (expand flags_current p)), H. reflexivity.
Qed.
Print Assumptions C13_deconstruct_nary_rebuilds_current_code.

(** ================================================================================================
    C13_source_*: the theorems stated of the functions GENERATED from the current source
    (coq/Gen/PyPattern.v, rewritten from pattern.py / basic_interpreter.py on every run by translators/pypattern.py;
    agreement with the model: coq/Py/GenPyPatternAgree.v). *)
From Pi2 Require Import Py.GenSupport Gen.PyPattern Py.GenPyPatternAgree Py.SourceFacts.
Theorem C13_source_match_rebuilds : forall se ss n p i seed th m r,
  corner_free se ss p = true -> corner_free se ss i = true -> cfd se ss seed = true ->
  match_single flags_current n p i seed = Some (Some th) -> src_instantiate m p th = Some r ->
  expand flags_current r = expand flags_current i.
Proof. exact source_match_rebuilds. Qed.
Print Assumptions C13_source_match_rebuilds.

(** matching itself is now translated from the source: [src_match_single] / [src_match] (Gen/PyPattern.v) *)
Theorem C13_source_agreement_match_single : forall n p i ret, src_match_single n p i ret = match_single flags_current n p i ret.
Proof. exact src_match_single_eq. Qed.
Theorem C13_source_agreement_match : forall n eqs, src_match n eqs = match_list flags_current n eqs [].
Proof. exact src_match_eq. Qed.
Theorem C13_source_match_sound : forall se ss n p i seed th,
  corner_free se ss p = true -> corner_free se ss i = true -> cfd se ss seed = true ->
  src_match_single n p i seed = Some (Some th) ->
  sub seed th /\ cfd se ss th = true /\
  forall th', cfd se ss th' = true -> sub th th' ->
    p_inst flags_current (expand flags_current p) (expand_delta flags_current th') = expand flags_current i.
Proof. exact source_match_sound. Qed.
Theorem C13_source_match_complete : forall se ss n p i seed s res,
  corner_free se ss p = true -> corner_free se ss i = true -> cfd se ss seed = true ->
  nosub (expand flags_current p) = true -> p_inst flags_current (expand flags_current p) s = expand flags_current i ->
  (forall k, In k (p_metavars (expand flags_current p)) -> alookup k s <> None) -> esub flags_current seed s ->
  src_match_single n p i seed = Some res -> exists th, res = Some th /\ esub flags_current th s.
Proof. exact source_match_complete. Qed.
Theorem C13_source_match_list_sound : forall se ss n eqs th,
  forallb (fun e => corner_free se ss (fst e) && corner_free se ss (snd e)) eqs = true ->
  src_match n eqs = Some (Some th) ->
  forall p i, In (p, i) eqs -> forall th', cfd se ss th' = true -> sub th th' ->
    p_inst flags_current (expand flags_current p) (expand_delta flags_current th') = expand flags_current i.
Proof. exact source_match_list_sound. Qed.
Theorem C13_source_match_list_complete : forall se ss n eqs s res,
  forallb (fun e => corner_free se ss (fst e) && corner_free se ss (snd e)) eqs = true ->
  (forall p i, In (p, i) eqs ->
     nosub (expand flags_current p) = true /\ p_inst flags_current (expand flags_current p) s = expand flags_current i /\
     (forall k, In k (p_metavars (expand flags_current p)) -> alookup k s <> None)) ->
  src_match n eqs = Some res -> exists th, res = Some th.
Proof. exact source_match_list_complete. Qed.
Print Assumptions C13_source_match_list_complete.
Example C13_source_ex :
  src_match 30 [(PEVar 0, PEVar 0)] = Some (Some []) /\
  src_match_single 30 (and_p (pphi 0) (pphi 1)) (and_p (neg_p (PEVar 1)) (PEVar 2)) [] = Some (Some [(0, neg_p (PEVar 1)); (1, PEVar 2)]).
Proof. vm_compute. split; reflexivity. Qed.

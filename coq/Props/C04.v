(** C04 -- Generator-side verifier state is a faithful simulation of the real machine.

    Model: coq/Interp/Calls.v ([stateful_step] = StatefulInterpreter, every assert = reject;
    [emit] = SerializingInterpreter) against the lead's checker model ML/Machine.v ([exec], configuration
    [guards_sound] = the repaired lib.rs).  Relation [R f tr st] (Interp/Sim.v): element-wise equality up
    to the symbol numbering [f] of
      - the checker's stack and the tracker's stack WITH THE PUBLISH RESIDUES ERASED (ghost marks),
      - the two memories,
      - the checker's claim queue and, in the proof phase, the tracker's [claims]; before the proof
        phase, the claims published so far (ghost journal: the Python tracker keeps no record).

    The full statement ("for all call sequences the stateful interpreter accepts, the bytes so far run
    on the checker without error and leave the same terms") is FALSE of the faithful model; the
    refutations below are findings on the real code (D8, D9a, D9b, D9c/d, D9e, D16).  What is proved
    is the simulation for every history all of whose calls are inside the boundary [wf_call]
    (= [wf_code] is 0): no call reads a publish residue, and the checker's own side conditions that the
    tracker does not check (positivity of mu, well-formedness of metavariables and substitutions,
    agreement of Pattern.instantiate with the checker's instantiate) hold. *)
From Coq Require Import NArith List Bool.
From Pi2 Require Import ML.Syntax ML.Subst ML.Machine Interp.Calls Interp.Facts Interp.RoundTrip Interp.Sim.
From Pi2 Require Import Interp.SerialLib Gen.PySerial Interp.GenPySerialAgree.
Import ListNotations.
Open Scope N_scope.

(** one call = the checker executes its bytes and the relation is re-established *)
Theorem C04_sim : forall f tbl tr st c tr' tbl' bs,
  R f tr st -> stateful_step tr c = Some tr' -> emit tbl tr c = Some (tbl', bs) ->
  is_switch c = false -> wf_call guards_sound tr c = true -> agrees f tbl' ->
  exists st', exec guards_sound (t_phase tr) bs st = Some st' /\ R f tr' st'.
Proof. exact sim. Qed.
Print Assumptions C04_sim.

(** phase switches write nothing; the checker clears its stack between files, so does the tracker *)
Theorem C04_sim_into_claim : forall f tr st tr',
  R f tr st -> stateful_step tr CIntoClaim = Some tr' ->
  R f tr' (set_stack [] st) /\ t_phase tr = Gamma /\ t_phase tr' = Claim.
Proof. exact sim_into_claim. Qed.
Theorem C04_sim_into_proof : forall f tr st tr',
  R f tr st -> stateful_step tr CIntoProof = Some tr' -> wf_call guards_sound tr CIntoProof = true ->
  R f tr' (set_stack [] st) /\ t_phase tr = Claim /\ t_phase tr' = Proof.
Proof. exact sim_into_proof. Qed.

(** by induction on the call history: a whole phase ... *)
Theorem C04_simulation_phase : forall f cs tbl tr st tblF trF bs,
  R f tr st -> ser_run tbl tr cs = Some (tblF, trF, bs) -> wf_run tr cs -> agrees f tblF ->
  exists st', exec guards_sound (t_phase tr) bs st = Some st' /\ R f trF st' /\ t_phase trF = t_phase tr.
Proof. exact sim_run. Qed.
Print Assumptions C04_simulation_phase.

(** ... and a whole generation from a fresh interpreter: the three files run on the checker in
    sequence, and the states are related after each phase (apply it to every prefix of a history to
    get "after every call") *)
Theorem C04_simulation_module : forall cl gcs ccs pcs t1 tr1 gb tr1' t2 tr2 cb tr2' t3 tr3 pb,
  ser_run [] (fresh_tracker Gamma cl) gcs = Some (t1, tr1, gb) -> wf_run (fresh_tracker Gamma cl) gcs ->
  stateful_step tr1 CIntoClaim = Some tr1' ->
  ser_run t1 tr1' ccs = Some (t2, tr2, cb) -> wf_run tr1' ccs ->
  stateful_step tr2 CIntoProof = Some tr2' -> wf_call guards_sound tr2 CIntoProof = true ->
  ser_run t2 tr2' pcs = Some (t3, tr3, pb) -> wf_run tr2' pcs ->
  let f := numbering t3 in
  exists s1 s2 s3,
    exec guards_sound Gamma gb st0 = Some s1 /\ R f tr1 s1 /\
    exec guards_sound Claim cb (set_stack [] s1) = Some s2 /\ R f tr2 s2 /\
    exec guards_sound Proof pb (set_stack [] s2) = Some s3 /\ R f tr3 s3.
Proof. exact simulation_module. Qed.
Print Assumptions C04_simulation_module.

(** every Load addresses the first slot holding the intended term, on both sides *)
Theorem C04_load_index_correct : forall f tbl tr st t tr' tbl' bs,
  R f tr st -> stateful_step tr (CLoad t) = Some tr' -> emit tbl tr (CLoad t) = Some (tbl', bs) ->
  exists i, bs = [29; N.of_nat i] /\
    nth_error (t_memory tr) i = Some t /\
    nth_error (memory st) i = Some (rn_term f t) /\
    (forall j u, (j < i)%nat -> nth_error (t_memory tr) j = Some u -> u <> t).
Proof. exact load_index_correct. Qed.
Print Assumptions C04_load_index_correct.

(* ---------------------------------------------------------------------------------------------- *)
(** Non-vacuity: a three-phase generation (axiom with a symbol, claim, proof by prop1 + load + modus
    ponens, publish) is accepted, is inside the boundary, and satisfies all hypotheses. *)
Definition exA := App (Sym 7) (EVar 1).
Definition exq := Sym 9.
Definition ex_claim := Imp exq exA.
Definition ex_g : list call := [CSymbol 7; CEVar 1; CApp (Sym 7) (EVar 1); CPublishAxiom exA].
Definition ex_c : list call :=
  [CSymbol 9; CSymbol 7; CEVar 1; CApp (Sym 7) (EVar 1); CImplies exq exA; CPublishClaim ex_claim].
Definition ex_p : list call :=
  [CSymbol 7; CEVar 1; CApp (Sym 7) (EVar 1); CSymbol 9; CProp1;
   CInstantiate ax_prop1 [(0, exA); (1, exq)]; CLoad (TProved exA);
   CModusPonens (Imp exA (Imp exq exA)) exA; CPublishProof ex_claim].

Fixpoint wf_runb (tr:tracker) (cs:list call) : bool :=
  match cs with
  | [] => true
  | c :: cs' => wf_call guards_sound tr c &&
                match stateful_step tr c with Some tr' => wf_runb tr' cs' | None => true end
  end.
Lemma wf_runb_ok : forall cs tr, wf_runb tr cs = true -> wf_run tr cs.
Proof.
  induction cs as [|c cs IH]; intros tr H; cbn in *; [exact I|].
  apply andb_true_iff in H. destruct H as [H1 H2]. split; [exact H1|].
  destruct (stateful_step tr c); [apply IH; exact H2 | exact I].
Qed.

Example C04_simulation_nonvacuous :
  exists t1 tr1 gb tr1' t2 tr2 cb tr2' t3 tr3 pb,
    ser_run [] (fresh_tracker Gamma [ex_claim]) ex_g = Some (t1, tr1, gb) /\ wf_run (fresh_tracker Gamma [ex_claim]) ex_g /\
    stateful_step tr1 CIntoClaim = Some tr1' /\
    ser_run t1 tr1' ex_c = Some (t2, tr2, cb) /\ wf_run tr1' ex_c /\
    stateful_step tr2 CIntoProof = Some tr2' /\ wf_call guards_sound tr2 CIntoProof = true /\
    ser_run t2 tr2' ex_p = Some (t3, tr3, pb) /\ wf_run tr2' ex_p /\
    verify guards_sound gb cb pb <> None.
Proof.
  do 11 eexists.
  split; [vm_compute; reflexivity|]. split; [apply wf_runb_ok; vm_compute; reflexivity|].
  split; [vm_compute; reflexivity|].
  split; [vm_compute; reflexivity|]. split; [apply wf_runb_ok; vm_compute; reflexivity|].
  split; [vm_compute; reflexivity|]. split; [vm_compute; reflexivity|].
  split; [vm_compute; reflexivity|]. split; [apply wf_runb_ok; vm_compute; reflexivity|].
  vm_compute. discriminate.
Qed.

(* ---------------------------------------------------------------------------------------------- *)
(** Refutations of the un-restricted statement (each replayed on the real code by harness/c04.py). *)

(** the relation WITHOUT erasing residues *)
Definition R_plain (f:N -> N) (tr:tracker) (st:state) : Prop :=
  map (rn_term f) (map fst (t_stack tr)) = stack st /\
  map (rn_term f) (t_memory tr) = memory st /\ map (rn f) (claims_view tr) = claims st.

(** D8: after [evar 0; publish_axiom] the tracker's top is x0, the checker's stack is empty *)
Theorem C04_refuted_publish :
  exists cs tbl tr bs st,
    ser_run [] (fresh_tracker Gamma []) cs = Some (tbl, tr, bs) /\
    exec guards_sound Gamma bs st0 = Some st /\
    map fst (t_stack tr) = [TPat (EVar 0)] /\ stack st = [] /\ ~ R_plain (numbering tbl) tr st.
Proof.
  exists [CEVar 0; CPublishAxiom (EVar 0)]. do 4 eexists.
  split; [vm_compute; reflexivity|]. split; [vm_compute; reflexivity|].
  split; [reflexivity|]. split; [reflexivity|]. intros (H & _). vm_compute in H. discriminate.
Qed.

(** D8, consequence: a call that reads the residue is accepted by the tracker and underflows the checker *)
Theorem C04_refuted_pop_after_publish :
  exists cs tbl tr bs,
    ser_run [] (fresh_tracker Gamma []) cs = Some (tbl, tr, bs) /\ exec guards_sound Gamma bs st0 = None /\
    wf_code guards_sound (fresh_tracker Gamma []) (CEVar 0) = 0.
Proof.
  exists [CEVar 0; CPublishAxiom (EVar 0); CEVar 1; CImplies (EVar 0) (EVar 1)]. do 3 eexists.
  split; [vm_compute; reflexivity|]. split; vm_compute; reflexivity.
Qed.

Definition accepted_but_rejected (cs:list call) : Prop :=
  exists tbl tr bs, ser_run [] (fresh_tracker Gamma []) cs = Some (tbl, tr, bs) /\
                    exec guards_sound Gamma bs st0 = None.
Ltac abr := do 3 eexists; split; vm_compute; reflexivity.

(** D9a: non-positive mu *)
Theorem C04_refuted_mu_nonpositive :
  accepted_but_rejected [CSVar 0; CSVar 1; CImplies (SVar 0) (SVar 1); CMu 0 (Imp (SVar 0) (SVar 1))].
Proof. abr. Qed.
(** D9b: ill-shaped substitutions *)
Theorem C04_refuted_esubst_illformed :
  accepted_but_rejected [CEVar 1; CEVar 2; CESubst 0 (EVar 2) (EVar 1)].
Proof. abr. Qed.
Theorem C04_refuted_ssubst_illformed :
  accepted_but_rejected [CSVar 1; CSVar 2; CSSubst 0 (SVar 2) (SVar 1)].
Proof. abr. Qed.
(** D9e: metavariable whose application-context holes are declared fresh *)
Theorem C04_refuted_metavar_illformed : accepted_but_rejected [CMetaVar 0 [1] [] [] [] [1]].
Proof. abr. Qed.
(** D9c: instantiation that captures: the checker rejects *)
Theorem C04_refuted_instantiate_capture :
  accepted_but_rejected
    [CEVar 1; CExists 1 (EVar 1); CEVar 1; CMetaVar 0 [] [] [] [] []; CESubst 0 (phi 0) (EVar 1);
     CInstantiatePattern (ESub (phi 0) 0 (EVar 1)) [(0, Ex 1 (EVar 1))]; CPop (TPat (Ex 1 (EVar 1)))].
Proof. abr. Qed.
(** D9d: both sides accept and hold different terms (MetaVar.apply_esubst drops the substitution) *)
Theorem C04_refuted_instantiate_differs :
  exists cs tbl tr bs st,
    ser_run [] (fresh_tracker Gamma []) cs = Some (tbl, tr, bs) /\
    exec guards_sound Gamma bs st0 = Some st /\
    map fst (t_stack tr) = [TPat (MVar 1 [0] [] [] [] [])] /\
    stack st = [TPat (ESub (MVar 1 [0] [] [] [] []) 0 (EVar 1))].
Proof.
  exists [CMetaVar 1 [0] [] [] [] []; CEVar 1; CMetaVar 0 [] [] [] [] []; CESubst 0 (phi 0) (EVar 1);
          CInstantiatePattern (ESub (phi 0) 0 (EVar 1)) [(0, MVar 1 [0] [] [] [] [])]].
  do 4 eexists. split; [vm_compute; reflexivity|]. split; [vm_compute; reflexivity|]. split; reflexivity.
Qed.
(** D16: declared claims that are never published *)
Theorem C04_refuted_claims_argument :
  exists tr, stateful_run (fresh_tracker Gamma [EVar 0]) [CIntoClaim; CIntoProof] = Some tr /\
             t_claims tr = [EVar 0] /\ verify guards_sound [] [] [] = Some st0 /\ claims st0 = [].
Proof. eexists. split; [vm_compute; reflexivity|]. repeat split. Qed.

(* ---------------------------------------------------------------------------------------------- *)
(** The simulation stated of the bytes written by the methods REGENERATED from serializing_interpreter.py
    (Gen/PySerial.v; opcodes from instruction.py).  The tracker (super() calls) stays the hand-written
    [stateful_step], tied differentially. *)
Theorem C04_source_sim : forall f tbl tr st c tr' tbl' bs,
  R f tr st -> stateful_step tr c = Some tr' -> gen_emit_tbl tbl tr c = Some (tbl', bs) ->
  is_switch c = false -> wf_call guards_sound tr c = true -> agrees f tbl' ->
  exists st', exec guards_sound (t_phase tr) bs st = Some st' /\ R f tr' st'.
Proof. intros f tbl tr st c tr' tbl' bs HR Hs He. rewrite gen_emit_tbl_agrees in He. exact (sim f tbl tr st c tr' tbl' bs HR Hs He). Qed.
Print Assumptions C04_source_sim.

Theorem C04_source_simulation_phase : forall f cs tbl tr st tblF trF bs,
  R f tr st -> gen_ser_run tbl tr cs = Some (tblF, trF, bs) -> wf_run tr cs -> agrees f tblF ->
  exists st', exec guards_sound (t_phase tr) bs st = Some st' /\ R f trF st' /\ t_phase trF = t_phase tr.
Proof. intros f cs tbl tr st tblF trF bs HR H. rewrite gen_ser_run_agrees in H. exact (sim_run f cs tbl tr st tblF trF bs HR H). Qed.
Print Assumptions C04_source_simulation_phase.

Theorem C04_source_load_index_correct : forall f tbl tr st t tr' tbl' bs,
  R f tr st -> stateful_step tr (CLoad t) = Some tr' -> gen_emit_tbl tbl tr (CLoad t) = Some (tbl', bs) ->
  exists i, bs = [29; N.of_nat i] /\
    nth_error (t_memory tr) i = Some t /\
    nth_error (memory st) i = Some (rn_term f t) /\
    (forall j u, (j < i)%nat -> nth_error (t_memory tr) j = Some u -> u <> t).
Proof. intros f tbl tr st t tr' tbl' bs HR Hs He. rewrite gen_emit_tbl_agrees in He. exact (load_index_correct f tbl tr st t tr' tbl' bs HR Hs He). Qed.
Print Assumptions C04_source_load_index_correct.

(** C01 — Checker soundness: every accepted theorem is semantically valid.

    FULL STATEMENT (not proved in this generality):
      forall gamma claims proof st,
        verify guards_sound gamma claims proof = Some st ->          (the checker accepts)
        Forall mvalid (gamma_axioms guards_sound gamma) ->           (the theory is valid / empty)
        (forall c, In c (declared_claims guards_sound gamma claims) -> mvalid c) /\
        (forall p, In p (proved_terms st) -> mvalid p).
    [mvalid p]: p holds at every point of every model (any carrier type, any application and
    symbol interpretation), under every valuation of element/set variables and every *semantic*
    valuation of its metavariables that respects their freshness constraints (this subsumes every
    admissible syntactic instance, [C01_instances]).

    PROVED: the same statement for every stream in which the ESubst *instruction* is only applied
    to element-variable plugs ([plugs_evar], a computed boolean; true of the Quantifier axiom and of
    every stream the Python generator emits for the shipped libraries).  What is missing: syntactic
    substitution of a non-variable pattern for an element variable has no compositional semantics,
    so ESubst nodes with general plugs would have to be treated as opaque atoms whose valuation
    respects the freshness the checker judges for them (DESIGN.md section 12). *)
From Coq Require Import NArith List Bool.
From Pi2 Require Import ML.Syntax ML.Subst ML.Machine ML.Facts ML.Sem ML.Sound ML.Journal ML.GuardExt ML.Refute.
Import ListNotations.
Open Scope N_scope.

Definition plugs_evar (gamma claimsb proofb : list N) : bool :=
  match verify guards_evp gamma claimsb proofb with Some _ => true | None => false end.

Theorem C01_soundness_partial :
  forall gamma claimsb proofb st,
    verify guards_sound gamma claimsb proofb = Some st ->
    plugs_evar gamma claimsb proofb = true ->
    Forall mvalid (gamma_axioms guards_sound gamma) ->
    (forall c, In c (declared_claims guards_sound gamma claimsb) -> mvalid c) /\
    (forall p, In p (proved_terms st) -> mvalid p).
Proof.
  intros gamma cl pr st Hv Hp Hax. unfold plugs_evar in Hp.
  destruct (verify guards_evp gamma cl pr) as [st'|] eqn:E; [|discriminate].
  pose proof (verify_ext _ _ same_real_evp_sound eq_refl _ _ _ _ E) as Hv'.
  rewrite Hv in Hv'. inversion Hv'; subst st'.
  rewrite (declared_claims_ext _ _ same_real_evp_sound eq_refl _ _ _ _ E).
  apply (verify_sound guards_evp eq_refl eq_refl eq_refl eq_refl eq_refl eq_refl eq_refl eq_refl _ _ _ _ E).
  unfold gamma_axioms, journal in *.
  unfold verify, exec in E. destruct (exec_fuel guards_evp (length gamma) Gamma gamma st0) as [s1|] eqn:E1; [|discriminate].
  rewrite <- (journal_fuel_ext _ _ same_real_evp_sound eq_refl _ _ _ _ _ E1). exact Hax.
Qed.
Print Assumptions C01_soundness_partial.

(** every admissible instance of a proved schema is valid too (simultaneous instantiation as the
    checker performs it, constraints respected) *)
Theorem C01_instances :
  forall p vars plugs q, mvalid p -> evp p = true -> inst guards_sound p vars plugs = Some q -> mvalid q.
Proof. exact (instantiate_mvalid guards_sound eq_refl eq_refl eq_refl eq_refl). Qed.
Print Assumptions C01_instances.

(** in particular in every finite model: [mvalid] quantifies over all carrier types *)
Theorem C01_finite_models :
  forall p, mvalid p -> forall (n:nat) (app_i : Fin.t (S n) -> Fin.t (S n) -> Fin.t (S n) -> Prop) sym_i av,
    av_ok (Fin.t (S n)) av -> forall v d, eval (Fin.t (S n)) app_i sym_i av p v d.
Proof. intros p H n a s av Hav v d. exact (H _ a s av Hav v d). Qed.
Print Assumptions C01_finite_models.

(** the rule lemmas the invariant is made of *)
Theorem C01_rules :
  mvalid ax_prop1 /\ mvalid ax_prop2 /\ mvalid ax_prop3 /\ mvalid ax_quantifier /\ mvalid ax_existence /\
  (forall l r, mvalid (Imp l r) -> mvalid l -> mvalid r) /\
  (forall l r x, mvalid (Imp l r) -> e_fresh r x = true -> mvalid (Imp (Ex x l) r)) /\
  (forall p X plug q, mvalid p -> apply_ssubst guards_sound p X plug = Some q -> mvalid q).
Proof.
  repeat split; [exact prop1_mvalid | exact prop2_mvalid | exact prop3_mvalid | exact quantifier_mvalid
    | exact existence_mvalid | exact mp_mvalid | exact gen_mvalid
    | exact (substitution_mvalid guards_sound eq_refl eq_refl)].
Qed.
Print Assumptions C01_rules.

(** without the capture check in apply_ssubst (the pinned tree before commit "fix: apply_ssubst must
    not capture ...") the statement is false: an accepted stream certifies an invalid pattern *)
Theorem C01_unguarded_refuted :
  exists gamma claimsb proofb st,
    verify guards_pinned gamma claimsb proofb = Some st /\
    Forall mvalid (gamma_axioms guards_pinned gamma) /\
    exists c, In c (declared_claims guards_pinned gamma claimsb) /\ ~ mvalid c.
Proof.
  destruct d1_accepted_when_unguarded as [[st Hst] Hc].
  exists [], d1_claim, d1_proof, st. split; [exact Hst|]. split; [constructor|].
  exists d1_conclusion. split; [rewrite Hc; left; reflexivity | exact d1_conclusion_invalid].
Qed.
Print Assumptions C01_unguarded_refuted.

(** non-vacuity: a concrete accepted stream meets every hypothesis of C01_soundness_partial *)
Example C01_nonvacuous :
  exists st, verify guards_sound [] ok_claim ok_proof = Some st /\ plugs_evar [] ok_claim ok_proof = true /\
             declared_claims guards_sound [] ok_claim = [Imp (phi 0) (phi 0)].
Proof. eexists. split; [|split]; vm_compute; reflexivity. Qed.

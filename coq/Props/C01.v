(** C01 — Checker soundness: every accepted theorem is semantically valid.

    STATEMENT (proved in full, for the checker model with the sound guards = the current lib.rs):
      for ALL byte strings gamma, claims, proof (every interleaving of every instruction with arbitrary
      operands): if the checker accepts, and the patterns published by the gamma file are valid
      (in particular if the theory is empty), then every declared claim and every term the final
      state marks Proved is valid.
    [mvalid p]: p holds at every point of every model (ANY carrier type — in particular carriers of
    size 1..3 —, any application and symbol interpretation), under every valuation of element and set
    variables, and under every semantic valuation of its opaque nodes (metavariables, keyed by id and
    constraints, and ESubst nodes with a non-variable plug) that respects the freshness the checker
    judges for them.  For a pattern without metavariables this is ordinary validity; [C01_instances]
    shows every instance the checker's own Instantiate produces from a valid schema is valid again, so
    every admissible concrete instance is valid in the ordinary sense. *)
From Coq Require Import NArith List Bool.
From Pi2 Require Import ML.Syntax ML.Subst ML.Machine ML.Facts ML.Concrete ML.Sem ML.Sound ML.Journal ML.Refute.
Import ListNotations.
Open Scope N_scope.

Theorem C01_soundness :
  forall gamma claimsb proofb st,
    verify guards_sound gamma claimsb proofb = Some st ->
    Forall mvalid (gamma_axioms guards_sound gamma) ->
    (forall c, In c (declared_claims guards_sound gamma claimsb) -> mvalid c) /\
    (forall p, In p (proved_terms st) -> mvalid p).
Proof. exact (verify_sound guards_sound eq_refl eq_refl eq_refl eq_refl eq_refl eq_refl eq_refl). Qed.
Print Assumptions C01_soundness.

(** empty theory: no hypothesis at all *)
Corollary C01_soundness_empty_theory :
  forall claimsb proofb st, verify guards_sound [] claimsb proofb = Some st ->
    forall c, In c (declared_claims guards_sound [] claimsb) -> mvalid c.
Proof. intros cl pr st H. apply (C01_soundness [] cl pr st H). constructor. Qed.

(** every instance of a proved schema that the checker's Instantiate produces is valid too
    (simultaneous instantiation, constraints respected, plugs arbitrary — schematic or concrete) *)
Theorem C01_instances :
  forall p vars plugs q, mvalid p -> inst guards_sound p vars plugs = Some q -> mvalid q.
Proof. exact (instantiate_mvalid guards_sound eq_refl eq_refl eq_refl eq_refl). Qed.
Print Assumptions C01_instances.

(** for concrete patterns [mvalid] is ordinary validity: no atom is consulted *)
Theorem C01_concrete_is_ordinary_validity :
  forall p, concrete p = true -> mvalid p ->
    forall D app_i sym_i (v:val D) d, eval D app_i sym_i (fun _ _ _ => False) p v d.
Proof.
  intros p _ H D a s v d. apply H. unfold av_ok, seq. repeat split; intros; tauto.
Qed.

(** in particular in every finite model: [mvalid] quantifies over all carrier types *)
Theorem C01_finite_models :
  forall p, mvalid p -> forall (n:nat) (app_i : Fin.t (S n) -> Fin.t (S n) -> Fin.t (S n) -> Prop) sym_i av,
    av_ok (Fin.t (S n)) av -> forall v d, eval (Fin.t (S n)) app_i sym_i av p v d.
Proof. intros p H n a s av Hav v d. exact (H _ a s av Hav v d). Qed.
Print Assumptions C01_finite_models.

(** the rule lemmas the invariant is made of *)
Theorem C01_rules :
  mvalid ax_prop1 /\ mvalid ax_prop2 /\ mvalid ax_prop3 /\ mvalid ax_quantifier /\ mvalid ax_existence /\
  (forall l r, mvalid (Imp l r) -> mvalid l -> mvalid r) /\
  (forall l r x, mvalid (Imp l r) -> e_fresh r x = true -> mvalid (Imp (Ex x l) r)) /\
  (forall p X plug q, mvalid p -> apply_ssubst guards_sound p X plug = Some q -> mvalid q).
Proof.
  repeat split; [exact prop1_mvalid | exact prop2_mvalid | exact prop3_mvalid | exact quantifier_mvalid
    | exact existence_mvalid | exact mp_mvalid | exact gen_mvalid
    | exact (substitution_mvalid guards_sound eq_refl eq_refl)].
Qed.
Print Assumptions C01_rules.

(** without the capture check in apply_ssubst (the pinned tree before commit "fix: apply_ssubst must
    not capture ...") the statement is false: an accepted stream certifies an invalid pattern *)
Theorem C01_unguarded_refuted :
  exists gamma claimsb proofb st,
    verify guards_pinned gamma claimsb proofb = Some st /\
    Forall mvalid (gamma_axioms guards_pinned gamma) /\
    exists c, In c (declared_claims guards_pinned gamma claimsb) /\ ~ mvalid c.
Proof.
  destruct d1_accepted_when_unguarded as [[st Hst] Hc].
  exists [], d1_claim, d1_proof, st. split; [exact Hst|]. split; [constructor|].
  exists d1_conclusion. split; [rewrite Hc; left; reflexivity | exact d1_conclusion_invalid].
Qed.
Print Assumptions C01_unguarded_refuted.

(** non-vacuity: a concrete accepted stream meets every hypothesis *)
Example C01_nonvacuous :
  exists st, verify guards_sound [] ok_claim ok_proof = Some st /\
             declared_claims guards_sound [] ok_claim = [Imp (phi 0) (phi 0)].
Proof. eexists. split; vm_compute; reflexivity. Qed.

(** ** tie to the source by translation: the judgement and substitution functions the invariant rests on
       are regenerated from the CURRENT rust/src/lib.rs on every run (Gen/Judge.v, Gen/SubstFns.v) and
       proved equal to the model; in particular the capture checks are present in the source *)
From Pi2 Require Import Gen.Judge Gen.SubstFns Gen.InstFn ML.GenAgree.
Theorem C01_source_functions_validated :
  (forall p x, gen_e_fresh p x = e_fresh p x) /\ (forall p X, gen_s_fresh p X = s_fresh p X) /\
  (forall p X, gen_positive p X = pat_positive p X) /\ (forall p X, gen_negative p X = pat_negative p X) /\
  (forall p, gen_well_formed p = well_formed p) /\
  (forall p x plug, gen_apply_esubst p x plug = apply_esubst guards_sound p x plug) /\
  (forall p X plug, gen_apply_ssubst p X plug = apply_ssubst guards_sound p X plug) /\
  (forall p vars plugs, gen_instantiate_in_place p vars plugs = inst guards_sound p vars plugs).
Proof.
  exact (conj gen_e_fresh_eq (conj gen_s_fresh_eq (conj gen_positive_eq (conj gen_negative_eq
          (conj gen_well_formed_eq (conj gen_apply_esubst_eq (conj gen_apply_ssubst_eq gen_instantiate_in_place_eq))))))).
Qed.
(** the Instantiate rule stated on the source's own function *)
Corollary C01_source_instantiate_rule : forall p vars plugs q, mvalid p -> gen_instantiate_in_place p vars plugs = Some q -> mvalid q.
Proof. intros p vars plugs q H. rewrite gen_instantiate_in_place_eq. exact (C01_instances p vars plugs q H). Qed.
Print Assumptions C01_source_functions_validated.
(** the Substitution rule stated on the source's own function *)
Corollary C01_source_substitution_rule : forall p X plug q, mvalid p -> gen_apply_ssubst p X plug = Some q -> mvalid q.
Proof. intros p X plug q H. rewrite gen_apply_ssubst_eq. exact (substitution_mvalid guards_sound eq_refl eq_refl p X plug q H). Qed.

(** ** the interpreter loop itself by translation: [execute_instructions] and [verify] of the CURRENT rust/src/lib.rs are translated
       statement by statement into Gen/Exec.v on every run ([gen_step_i], [gen_exec], [gen_verify]: order of reads and pops, which check
       guards which push, what each phase publishes, what [verify] clears between the phases) and proved equal to the model
       (ML/GenExec.v); so the soundness theorem holds of the translated source text *)
From Pi2 Require Import Gen.Exec ML.GenExec.
Theorem C01_soundness_of_translated_source :
  forall gamma claimsb proofb st,
    gen_verify gamma claimsb proofb = Some st ->
    Forall mvalid (gamma_axioms guards_sound gamma) ->
    (forall c, In c (declared_claims guards_sound gamma claimsb) -> mvalid c) /\
    (forall p, In p (proved_terms st) -> mvalid p).
Proof. intros gamma claimsb proofb st. rewrite gen_verify_eq. exact (C01_soundness gamma claimsb proofb st). Qed.
Print Assumptions C01_soundness_of_translated_source.
Theorem C01_source_machine_validated :
  (forall ph i bs st, gen_step_i ph i bs st = step_i guards_sound ph i bs st) /\
  (forall ph bs st, gen_exec ph bs st = exec guards_sound ph bs st) /\
  (forall g c p, gen_verify g c p = verify guards_sound g c p).
Proof. exact (conj gen_step_i_eq (conj gen_exec_eq gen_verify_eq)). Qed.

(** C11 — Substitution and instantiation obey their algebra (checker side; generator-side lemmas from
    coq/Py are re-exported at the end once that component is built).

    lib.rs substitution either panics (conservatively, whenever the plug has a free variable that a
    binder on the path binds) or returns the textbook structural substitution.  All statements hold
    for ALL patterns / variables / plugs / maps; "concrete" = no metavariables or pending
    substitutions. *)
From Coq Require Import NArith List Bool.
From Pi2 Require Import ML.Syntax ML.Subst ML.Facts ML.Concrete ML.JudgeInst ML.Algebra ML.Compose ML.Sem.
Import ListNotations.
Open Scope N_scope.
Notation gs := guards_sound.

(** agreement with an independent textbook implementation (naive structural substitution, which is
    capture-avoiding substitution whenever no capture occurs; the checker rejects otherwise) *)
Theorem C11_esubst_textbook : forall a x r c, concrete a = true -> apply_esubst gs a x r = Some c -> c = esubst_ref a x r.
Proof. exact (apply_esubst_ref gs). Qed.
Theorem C11_ssubst_textbook : forall a X r c, concrete a = true -> apply_ssubst gs a X r = Some c -> c = ssubst_ref a X r.
Proof. exact (apply_ssubst_ref gs). Qed.
Print Assumptions C11_esubst_textbook.

(** replaces exactly the free occurrences, respecting binders: free variables of the result *)
Theorem C11_esubst_free_vars : forall a x r c y, concrete a = true -> apply_esubst gs a x r = Some c ->
  efree y c = (negb (N.eqb y x) && efree y a) || (efree x a && efree y r).
Proof. intros a x r c y Hc Hs. exact (efree_esubst gs a x r c y Hc eq_refl Hs). Qed.
Print Assumptions C11_esubst_free_vars.

(** identity when the variable does not occur *)
Theorem C11_esubst_fresh_identity : forall a x r c, concrete a = true -> efree x a = false -> apply_esubst gs a x r = Some c -> c = a.
Proof. exact (esubst_fresh_id gs). Qed.
Theorem C11_ssubst_fresh_identity : forall a X r c, concrete a = true -> sfree X a = false -> apply_ssubst gs a X r = Some c -> c = a.
Proof. exact (ssubst_fresh_id gs). Qed.

(** deferred on metavariables (and on pending substitutions) *)
Theorem C11_deferred_on_metavars : forall a x r, is_meta_head a = true ->
  apply_esubst gs a x r = Some (ESub a x r) /\ apply_ssubst gs a x r = Some (SSub a x r).
Proof. intros a x r H. split; [exact (esubst_deferred gs a x r H) | exact (ssubst_deferred gs a x r H)]. Qed.

(** instantiation: simultaneous, distributes over every constructor, resolves pending substitutions *)
Theorem C11_inst_simultaneous : forall id ef sf pos neg holes vars plugs plug,
  lookup id vars plugs = Some (Some plug) -> check_constraints ef sf pos neg plug = true ->
  inst gs (MVar id ef sf pos neg holes) vars plugs = Some plug.
Proof. intros. apply inst_simultaneous; assumption. Qed.
Theorem C11_inst_distributes : forall vars plugs,
  (forall l r, inst gs (Imp l r) vars plugs = match inst gs l vars plugs, inst gs r vars plugs with Some a, Some b => Some (Imp a b) | _, _ => None end) /\
  (forall l r, inst gs (App l r) vars plugs = match inst gs l vars plugs, inst gs r vars plugs with Some a, Some b => Some (App a b) | _, _ => None end) /\
  (forall y q, inst gs (Ex y q) vars plugs = option_map (Ex y) (inst gs q vars plugs)) /\
  (forall Y q, inst gs (Mu Y q) vars plugs = option_map (Mu Y) (inst gs q vars plugs)) /\
  (forall n, inst gs (EVar n) vars plugs = Some (EVar n)) /\ (forall n, inst gs (SVar n) vars plugs = Some (SVar n)) /\
  (forall n, inst gs (Sym n) vars plugs = Some (Sym n)).
Proof. exact (inst_distributes gs). Qed.
Theorem C11_inst_resolves_substitutions : forall p vars plugs q,
  closes p vars = true -> Forall (fun r => concrete r = true) plugs -> inst gs p vars plugs = Some q -> concrete q = true.
Proof. exact (inst_resolves gs). Qed.
Theorem C11_inst_identity_untouched : forall p vars plugs, touches p vars = false -> inst gs p vars plugs = Some p.
Proof. exact (inst_untouched gs). Qed.
Print Assumptions C11_inst_resolves_substitutions.

(** composition: instantiating twice equals instantiating once with the composed map (whenever the
    first step and the composed instantiation are defined; the composed plugs are d'(d(i)) for the
    keys of d, then d') — for ALL meta-patterns incl. pending substitutions, partial maps, and maps
    whose values mention other metavariables *)
Theorem C11_inst_compose : forall p v1 p1 v2 p2 p1' q1 q3,
  length v1 = length p1 -> inst_all gs p1 v2 p2 = Some p1' ->
  inst gs p v1 p1 = Some q1 -> inst gs p (v1 ++ v2) (p1' ++ p2) = Some q3 -> inst gs q1 v2 p2 = Some q3.
Proof. intros p. exact (inst_compose gs p). Qed.
Print Assumptions C11_inst_compose.
(** the converse definedness does not hold (the checker may reject the composed map conservatively) *)
Theorem C11_compose_converse_refuted :
  let p := MVar 0 [] [] [5] [] [] in
  let d_plug := ESub (MVar 1 [] [] [5] [] []) 7 (MVar 2 [] [5] [] [] []) in
  exists q1 q2,
    inst gs p [0] [d_plug] = Some q1 /\ inst gs q1 [1] [EVar 7] = Some q2 /\
    inst_all gs [d_plug] [1] [EVar 7] = Some [q2] /\ inst gs p ([0] ++ [1]) ([q2] ++ [EVar 7]) = None.
Proof. exact compose_converse_refuted. Qed.

(** the substitution lemmas of the semantics (any model, any carrier — in particular finite ones) *)
Theorem C11_ssubst_semantic : forall D app_i sym_i av, av_ok D av -> forall p X plug q v,
  apply_ssubst gs p X plug = Some q ->
  seq D (eval D app_i sym_i av q v) (eval D app_i sym_i av p (upd_s D v X (eval D app_i sym_i av plug v))).
Proof. intros D a s av Hav. exact (ssubst_sound D a s av Hav gs eq_refl eq_refl). Qed.
Theorem C11_esubst_semantic : forall D app_i sym_i av, av_ok D av -> forall p x z q v,
  apply_esubst gs p x (EVar z) = Some q ->
  seq D (eval D app_i sym_i av q v) (eval D app_i sym_i av p (upd_e D v x (ve D v z))).
Proof. intros D a s av Hav. exact (esubst_sound D a s av Hav gs eq_refl). Qed.
Theorem C11_inst_semantic : forall D app_i sym_i av vars plugs, av_ok D av -> forall p q v,
  inst gs p vars plugs = Some q ->
  seq D (eval D app_i sym_i av q v) (eval D app_i sym_i (av_upd D app_i sym_i gs av vars plugs) p v).
Proof. intros D a s. exact (inst_sound D a s gs eq_refl eq_refl eq_refl eq_refl). Qed.
Print Assumptions C11_inst_semantic.

(** without the capture checks (pinned tree) substitution is NOT capture-avoiding *)
Theorem C11_refuted_capture_unguarded :
  apply_ssubst guards_pinned (Ex 0 (SVar 0)) 0 (EVar 0) = Some (Ex 0 (EVar 0)) /\
  apply_esubst guards_pinned (Mu 0 (EVar 1)) 1 (SVar 0) = Some (Mu 0 (SVar 0)) /\
  apply_ssubst gs (Ex 0 (SVar 0)) 0 (EVar 0) = None /\ apply_esubst gs (Mu 0 (EVar 1)) 1 (SVar 0) = None.
Proof. repeat split. Qed.

(** non-vacuity *)
Example C11_nonvacuous :
  exists c, apply_esubst gs (Imp (EVar 1) (Ex 2 (App (EVar 1) (EVar 2)))) 1 (App (EVar 3) (Sym 0)) = Some c /\
            c = Imp (App (EVar 3) (Sym 0)) (Ex 2 (App (App (EVar 3) (Sym 0)) (EVar 2))) /\
            efree 3 c = true /\ efree 1 c = false.
Proof. eexists. repeat split. Qed.

(** ** the theorems hold of apply_esubst / apply_ssubst as they are written in the CURRENT
       rust/src/lib.rs: Gen/SubstFns.v is regenerated from the source on every run
       (translators/rust_subst.py) and proved equal to the model *)
From Pi2 Require Import Gen.SubstFns Gen.InstFn ML.GenAgree.
Theorem C11_substitution_translation_validated :
  (forall p x plug, gen_apply_esubst p x plug = apply_esubst gs p x plug) /\
  (forall p X plug, gen_apply_ssubst p X plug = apply_ssubst gs p X plug) /\
  (forall p vars plugs, gen_instantiate_in_place p vars plugs = inst gs p vars plugs).
Proof. exact (conj gen_apply_esubst_eq (conj gen_apply_ssubst_eq gen_instantiate_in_place_eq)). Qed.
(** the composition law stated on the source's own instantiate_in_place (Gen/InstFn.v, regenerated by translators/rust_inst.py) *)
Corollary C11_source_inst_compose : forall p v1 p1 v2 p2 p1' q1 q3,
  length v1 = length p1 -> inst_all gs p1 v2 p2 = Some p1' ->
  gen_instantiate_in_place p v1 p1 = Some q1 -> gen_instantiate_in_place p (v1 ++ v2) (p1' ++ p2) = Some q3 ->
  gen_instantiate_in_place q1 v2 p2 = Some q3.
Proof. intros p v1 p1 v2 p2 p1' q1 q3. rewrite !gen_instantiate_in_place_eq. apply C11_inst_compose. Qed.
Print Assumptions C11_substitution_translation_validated.
Corollary C11_source_esubst_textbook : forall a x r c, concrete a = true -> gen_apply_esubst a x r = Some c -> c = esubst_ref a x r.
Proof. intros a x r c. rewrite gen_apply_esubst_eq. apply C11_esubst_textbook. Qed.
Corollary C11_source_ssubst_textbook : forall a X r c, concrete a = true -> gen_apply_ssubst a X r = Some c -> c = ssubst_ref a X r.
Proof. intros a X r c. rewrite gen_apply_ssubst_eq. apply C11_ssubst_textbook. Qed.

(** ** generator side (pattern.py): the same algebra through notation.  Model and proofs: coq/Py
       (notes/PY_MODEL.md); [p_inst p_esubst p_ssubst] are the Python methods on expanded patterns,
       [py_inst py_esubst py_ssubst] the real methods on patterns with notation (fuel; totality in
       Py/Total.v).  Premises [f_* = true] name the repairs a configuration must contain; the current
       code has D5 repaired (2592e1c); [f_mv_keep_subst] is the recorded finding D9d. *)
From Pi2 Require Import Py.Pattern Py.PatFacts Py.SubstFacts Py.ExpandFacts Py.RulesFacts Py.Total Py.Termination Py.Witness.
Theorem C11_py_inst_compose : forall f, f_mv_keep_subst f = true -> forall t s' s,
  p_inst f (p_inst f t s') s = p_inst f t (amap (fun v => p_inst f v s) s' ++ unshadowed s s').
Proof. exact p_inst_comp. Qed.
Print Assumptions C11_py_inst_compose.
Theorem C11_py_inst_through_notation : forall f, f_mv_keep_subst f = true -> f_inst_extend f = true ->
  forall n p d r, py_inst f n p d = Some r -> expand f r = p_inst f (expand f p) (expand_delta f d).
Proof. exact py_inst_expand. Qed.
Theorem C11_py_esubst_through_notation : forall f, f_mv_keep_subst f = true -> f_inst_extend f = true ->
  forall n p x g r, py_esubst f n p x g = Some r -> expand f r = p_esubst f (expand f p) x (expand f g).
Proof. exact py_esubst_expand. Qed.
Theorem C11_py_ssubst_through_notation : forall f, f_mv_keep_subst f = true -> f_inst_extend f = true ->
  forall n p x g r, py_ssubst f n p x g = Some r -> expand f r = p_ssubst f (expand f p) x (expand f g).
Proof. exact py_ssubst_expand. Qed.
(** Python = checker whenever the checker accepts (so every checker-side law above transfers) *)
Theorem C11_py_esubst_agrees_with_checker : forall f, f_mv_keep_subst f = true -> forall g p x plug q,
  apply_esubst g p x plug = Some q -> p_esubst f p x plug = q.
Proof. exact apply_esubst_py. Qed.
Theorem C11_py_ssubst_agrees_with_checker : forall f, f_mv_keep_subst f = true -> forall g p x plug q,
  apply_ssubst g p x plug = Some q -> p_ssubst f p x plug = q.
Proof. exact apply_ssubst_py. Qed.
Theorem C11_py_inst_agrees_with_checker : forall f, f_mv_keep_subst f = true -> forall g vars plugs,
  length vars = length plugs -> forall p q, wf_meta p = true -> inst g p vars plugs = Some q -> p_inst' f p (zipd vars plugs) = q.
Proof. exact inst_checker_py. Qed.
Print Assumptions C11_py_inst_agrees_with_checker.
Theorem C11_py_esubst_fresh_identity : forall f p x g, concrete p = true -> e_fresh p x = true -> p_esubst f p x g = p.
Proof. exact p_esubst_fresh_id. Qed.
Theorem C11_py_deferred_on_metavars : forall f i a b c d e x g, f_mv_keep_subst f = true ->
  p_esubst f (MVar i a b c d e) x g = ESub (MVar i a b c d e) x g.
Proof. exact p_esubst_deferred. Qed.
Theorem C11_py_inst_resolves_pending : forall f i a b c d e x g v s, alookup i s = Some v ->
  p_inst f (ESub (MVar i a b c d e) x g) s = p_esubst f v x (p_inst f g s).
Proof. exact p_inst_resolves. Qed.

(** ** the generator-side laws for the configuration the CURRENT code is in ([flags_current], D9d present) on
       corner-free inputs (Py/Bridge.v: [cfp]/[cfs] on notation-free patterns and maps, [corner_free]/[cfd] on
       generator patterns and dicts).  Appended by builder "Py". *)
From Pi2 Require Import Py.Bridge Py.Current.
Theorem C11_py_inst_compose_current_code : forall se ss t s' s,
  cfp se ss t = true -> cfs se ss s' = true -> cfs se ss s = true ->
  p_inst flags_current (p_inst flags_current t s') s
  = p_inst flags_current t (amap (fun v => p_inst flags_current v s) s' ++ unshadowed s s').
Proof. exact (fun se ss => p_inst_comp_cur se ss flags_current). Qed.
Theorem C11_py_inst_through_notation_current_code : forall se ss n p d r,
  corner_free se ss p = true -> cfd se ss d = true -> py_inst flags_current n p d = Some r ->
  expand flags_current r = p_inst flags_current (expand flags_current p) (expand_delta flags_current d).
Proof. exact (fun se ss => py_inst_expand_cur se ss flags_current eq_refl). Qed.
Theorem C11_py_esubst_through_notation_current_code : forall se ss n p x pl r,
  corner_free se ss p = true -> mem x se = true -> corner_free se ss pl = true ->
  py_esubst flags_current n p x pl = Some r ->
  expand flags_current r = p_esubst flags_current (expand flags_current p) x (expand flags_current pl).
Proof. exact (fun se ss => py_esubst_expand_cur se ss flags_current eq_refl). Qed.
Theorem C11_py_ssubst_through_notation_current_code : forall se ss n p x pl r,
  corner_free se ss p = true -> mem x ss = true -> corner_free se ss pl = true ->
  py_ssubst flags_current n p x pl = Some r ->
  expand flags_current r = p_ssubst flags_current (expand flags_current p) x (expand flags_current pl).
Proof. exact (fun se ss => py_ssubst_expand_cur se ss flags_current eq_refl). Qed.
Theorem C11_py_bridge_p_inst : forall se ss f t s, cfp se ss t = true -> cfs se ss s = true ->
  p_inst f t s = p_inst (with_keep f) t s.
Proof. exact p_inst_bridge. Qed.
Theorem C11_py_bridge_p_esubst : forall se ss f t x b, cfp se ss t = true -> mem x se = true ->
  p_esubst f t x b = p_esubst (with_keep f) t x b.
Proof. exact p_esubst_bridge. Qed.
Theorem C11_py_bridge_p_ssubst : forall se ss f t x b, cfp se ss t = true -> mem x ss = true ->
  p_ssubst f t x b = p_ssubst (with_keep f) t x b.
Proof. exact p_ssubst_bridge. Qed.
Print Assumptions C11_py_inst_compose_current_code.

(** ================================================================================================
    C11_source_*: the theorems stated of the functions GENERATED from the current source
    (coq/Gen/PyPattern.v, rewritten from pattern.py / basic_interpreter.py on every run by translators/pypattern.py;
    agreement with the model: coq/Py/GenPyPatternAgree.v). *)
From Pi2 Require Import Py.GenSupport Gen.PyPattern Py.GenPyPatternAgree Py.SourceFacts.
Theorem C11_source_py_inst_through_notation : forall se ss n p d r, corner_free se ss p = true -> cfd se ss d = true ->
  src_instantiate n p d = Some r ->
  expand flags_current r = p_inst flags_current (expand flags_current p) (expand_delta flags_current d).
Proof. exact source_inst_expand. Qed.
Theorem C11_source_py_esubst_through_notation : forall se ss n p x g r, corner_free se ss p = true -> mem x se = true ->
  corner_free se ss g = true -> src_apply_esubst n p x g = Some r ->
  expand flags_current r = p_esubst flags_current (expand flags_current p) x (expand flags_current g).
Proof. exact source_esubst_expand. Qed.
Theorem C11_source_py_ssubst_through_notation : forall se ss n p x g r, corner_free se ss p = true -> mem x ss = true ->
  corner_free se ss g = true -> src_apply_ssubst n p x g = Some r ->
  expand flags_current r = p_ssubst flags_current (expand flags_current p) x (expand flags_current g).
Proof. exact source_ssubst_expand. Qed.
Print Assumptions C11_source_py_inst_through_notation.

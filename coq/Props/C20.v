(** C20 -- K execution traces become chained, checkable rewrite proofs.
    Model: coq/K/Kore.v (Kore terms, ConvertionScope, _convert_pattern, convert_substitutions; kore
    notations fully expanded) and coq/K/Exec.v (rewrite_event, from_proof_hints, from_kore_definition's
    rule loading, get_proof_hints).  Proofs: K/KoreProofs.v, K/ExecProofs.v.  Only statements here. *)
From Coq Require Import String Ascii NArith List Bool.
From Pi2 Require Import ML.Syntax ML.Subst ML.Machine PTerm.Model.
From Pi2 Require Import K.Kore K.Exec K.KoreProofs K.ExecProofs K.Accept K.Bridge.
From Pi2 Require Import K.GenPrims Gen.KoreConv K.GenKoreAgree.
Import ListNotations.
Open Scope string_scope.
Open Scope list_scope.
Open Scope nat_scope.

(** ** 1. The conversion scope: equal variables |-> equal metavariables, distinct |-> distinct.
    For EVERY scope the conversion starts from (hence for all scopes reachable by conversion):
    the result is the homomorphic image [pconvert] of the term under the FINAL scope's assignment
    name |-> position, that assignment is a function (equal names, equal ids), it is injective on
    element-variable names and on sort-variable names, every variable of the term is assigned, and
    ids of the two kinds are disjoint while the scope holds at most 100 element variables. *)
Theorem C20_scope_injective : forall S sc k sc' p,
  convert S sc k = Some (sc', p) ->
  extends sc sc'
  /\ pconvert S sc' k = Some p
  /\ (forall x s, In (x, s) (kevars k) -> exists i, meta_id sc' x = Some i)
  /\ (forall x y i, meta_id sc' x = Some i -> meta_id sc' y = Some i -> x = y)
  /\ (forall a b j, sortvar_id sc' a = Some j -> sortvar_id sc' b = Some j -> a = b)
  /\ (List.length (sc_meta sc') <= 100 ->
      forall x a i j, meta_id sc' x = Some i -> sortvar_id sc' a = Some j -> i <> j).
Proof. exact scope_injective_thm. Qed.
Print Assumptions C20_scope_injective.

(** a small world for examples and witnesses *)
Definition sS := SortApp "S".
Definition sym0 n := mkSym n 0 0 true.
Definition Sig1 := mkSig ["S"; "T"] [sym0 "a"; sym0 "b"; sym0 "c"; mkSym "f" 0 1 true; mkSym "g" 0 2 true].
Definition ka := KApp "a" [] [].
Definition kb := KApp "b" [] [].
Definition kf x := KApp "f" [] [x].
Definition kg x y := KApp "g" [] [x; y].
Definition kX := KEVar "X" sS.
Definition kY := KEVar "Y" sS.
Definition rule_ax l r := KRewrites sS (KAnd sS [l; KNode OpTop [sS] []]) (KAnd sS [r; KNode OpTop [sS] []]).

Example C20_scope_injective_nonvacuous :
  exists sc' p, convert Sig1 scope0 (KRewrites sS (kg kX (kf kY)) (kg kY kX)) = Some (sc', p)
                /\ sc_meta sc' = ["X"; "Y"].
Proof. eexists. eexists. split; vm_compute; reflexivity. Qed.

(** FULL statement for variables identified by name AND sort ("distinct variables are mapped to
    distinct metavariables" where X:S and X:T are distinct Kore variables) is FALSE of the code:
    the scope is keyed by the name only (language_semantics.py:669-672, `kore.EVar(name, _)`). *)
Theorem C20_scope_injective_by_name_and_sort_refuted :
  exists S k sc' p x s1 s2 i,
    convert S scope0 k = Some (sc', p) /\ In (x, s1) (kevars k) /\ In (x, s2) (kevars k) /\ s1 <> s2
    /\ p = nary_app (PSym "ksym_g") [PMeta i; PMeta i].
Proof.
  exists Sig1, (kg (KEVar "X" (SortApp "S")) (KEVar "X" (SortApp "T"))).
  eexists. eexists. exists "X", (SortApp "S"), (SortApp "T"), 0%N.
  split; [vm_compute; reflexivity|]. split; [left; reflexivity|]. split; [right; left; reflexivity|].
  split; [discriminate | reflexivity].
Qed.
Print Assumptions C20_scope_injective_by_name_and_sort_refuted.

(** without the bound of 100 element variables the two kinds collide: the 101st variable of a rule
    and its first sort variable are both metavariable 100 (SORT_PARAM_METAVAR) *)
Fixpoint xs (n:nat) : string := match n with O => "x" | S k => String "x" (xs k) end.
Definition Sig101 := mkSig ["S"] [sym0 "a"; mkSym "f" 1 101 true].
Definition k101 := KApp "f" [SortVar "T"] (map (fun i => KEVar (xs i) sS) (seq 0 101)).

Theorem C20_scope_injective_unbounded_refuted :
  exists S k sc' p x a i,
    convert S scope0 k = Some (sc', p) /\ meta_id sc' x = Some i /\ sortvar_id sc' a = Some i.
Proof.
  exists Sig101, k101. eexists. eexists. exists (xs 100), "T", 100%N.
  split; [vm_compute; reflexivity|]. split; vm_compute; reflexivity.
Qed.
Print Assumptions C20_scope_injective_unbounded_refuted.

(** ** 2. Instantiating a converted rule with converted substitutions = converting the substituted rule.
    [sc1] is the rule's cached scope, [sc2] the scope after [convert_substitutions] (equal to [sc1]
    for ground substitutions, second theorem).  Well-formedness: the scope holds at most 100 element
    variables, and no variable bound by an [\exists] of the rule is in the substitution's domain
    (then [ksubst] is the capture-avoiding substitution).  [convert_substs ... = Some _] implies that
    every substituted name is a variable of the rule (KeyError otherwise). *)
Theorem C20_convert_subst_commutes : forall S sc0 k sc1 p t sc2 d,
  convert S sc0 k = Some (sc1, p) ->
  convert_substs S sc1 t = Some (sc2, d) ->
  List.length (sc_meta sc2) <= 100 ->
  bound_ok (map fst t) k = true ->
  convert S sc2 (ksubst t k) = Some (sc2, inst d p).
Proof. exact convert_subst_commutes_thm. Qed.
Print Assumptions C20_convert_subst_commutes.

Theorem C20_convert_subst_commutes_ground : forall S sc0 k sc1 p t sc2 d,
  convert S sc0 k = Some (sc1, p) ->
  forallb (fun xv => ground (snd xv)) t = true ->
  convert_substs S sc1 t = Some (sc2, d) ->
  List.length (sc_meta sc1) <= 100 ->
  bound_ok (map fst t) k = true ->
  sc2 = sc1 /\ convert S sc1 (ksubst t k) = Some (sc1, inst d p).
Proof. exact convert_subst_commutes_ground_thm. Qed.
Print Assumptions C20_convert_subst_commutes_ground.

Example C20_convert_subst_commutes_nonvacuous :
  exists sc1 p d,
    convert Sig1 scope0 (KRewrites sS (kg kX (kf kY)) (kg kY kX)) = Some (sc1, p)
    /\ convert_substs Sig1 sc1 [("Y", kf ka); ("X", kb)] = Some (sc1, d)
    /\ convert Sig1 sc1 (ksubst [("Y", kf ka); ("X", kb)] (KRewrites sS (kg kX (kf kY)) (kg kY kX)))
       = Some (sc1, inst d p)
    /\ inst d p <> p.
Proof.
  eexists. eexists. eexists. split; [vm_compute; reflexivity|]. split; [vm_compute; reflexivity|].
  split; [vm_compute; reflexivity|]. vm_compute. discriminate.
Qed.

(** The literal reading of the property: the substituted rule converted in a FRESH scope, for what a
    trace provides -- a ground substitution that covers every variable of the rule -- and a rule
    without [\exists].  The only residue of the scope is the numbering of the sort variables. *)
Theorem C20_convert_subst_commutes_fresh : forall S k sc1 p t sc2 d,
  convert S scope0 k = Some (sc1, p) ->
  forallb (fun xv => ground (snd xv)) t = true ->
  convert_substs S sc1 t = Some (sc2, d) ->
  List.length (sc_meta sc1) <= 100 ->
  no_exists k = true ->
  (forall x s, In (x, s) (kevars k) -> assoc x t <> None) ->
  convert S scope0 (ksubst t k) = Some (mkScope [] (sc_sort sc1), inst d p).
Proof. exact convert_subst_commutes_fresh_thm. Qed.
Print Assumptions C20_convert_subst_commutes_fresh.

Example C20_convert_subst_commutes_fresh_nonvacuous :
  let k := KRewrites (SortVar "R") (kg kX (kf kY)) (kg kY kX) in
  let t := [("Y", kf ka); ("X", kb)] in
  exists sc1 p d,
    convert Sig1 scope0 k = Some (sc1, p) /\ convert_substs Sig1 sc1 t = Some (sc1, d)
    /\ no_exists k = true /\ (forall x s, In (x, s) (kevars k) -> assoc x t <> None)
    /\ convert_pattern Sig1 (ksubst t k) = Some (inst d p) /\ sc_sort sc1 = ["R"].
Proof.
  eexists. eexists. eexists. split; [vm_compute; reflexivity|]. split; [vm_compute; reflexivity|].
  split; [reflexivity|]. split.
  - intros x s Hin. simpl in Hin.
    repeat (destruct Hin as [Hin|Hin]; [inversion Hin; subst; simpl; discriminate|]). contradiction.
  - split; vm_compute; reflexivity.
Qed.

(** the bound is needed: with 101 variables, instantiating the 101st also rewrites the sort parameter *)
Theorem C20_convert_subst_commutes_unbounded_refuted :
  exists S k sc1 p t d,
    convert S scope0 k = Some (sc1, p)
    /\ forallb (fun xv => ground (snd xv)) t = true
    /\ convert_substs S sc1 t = Some (sc1, d)
    /\ bound_ok (map fst t) k = true
    /\ option_map (fun r => kpat_eqb (snd r) (inst d p)) (convert S sc1 (ksubst t k)) = Some false.
Proof.
  exists Sig101, k101. eexists. eexists. exists [(xs 100, KApp "a" [] [])]. eexists.
  split; [vm_compute; reflexivity|]. split; [reflexivity|]. split; [vm_compute; reflexivity|].
  split; vm_compute; reflexivity.
Qed.
Print Assumptions C20_convert_subst_commutes_unbounded_refuted.

(** ** 3. Traces of ANY length (induction on the hint list in ExecProofs.run_spec), for either
    guard configuration: a produced module claims exactly the instantiated rewrite of each step, in
    order, and each step starts from the configuration the previous one reached. *)
Theorem C20_trace_claims : forall G S hs m,
  from_hints G S hs = Some m -> m_claims m = map inst_rule hs /\ chained hs.
Proof. exact trace_claims_thm. Qed.
Print Assumptions C20_trace_claims.

Theorem C20_mismatch_refused : forall G S hs, ~ chained hs -> from_hints G S hs = None.
Proof. exact mismatch_refused_thm. Qed.
Print Assumptions C20_mismatch_refused.

(** conversely (repaired code, [guards_sound]): a chained trace of rewrite rules whose substituted
    values are applications of functional symbols is never refused *)
Theorem C20_chained_accepted : forall S hs,
  chained hs ->
  Forall (fun h => r_kind (h_rule h) = RRewrite /\ functional_axioms S (h_subst h) <> None) hs ->
  exists m, from_hints guards_sound S hs = Some m.
Proof. exact chained_accepted_thm. Qed.
Print Assumptions C20_chained_accepted.

Definition axs1 := [rule_ax (kf kX) kX; rule_ax ka kb; rule_ax kb ka].
Definition good_items := [TRule 0 [("X", ka)]; TConfig ka; TRule 1 []; TConfig kb].
Definition cycle_items := [TRule 1 []; TConfig kb; TRule 2 []; TConfig ka; TRule 1 []; TConfig kb].
Definition rules1 := match load_axioms Sig1 0 axs1 with Some rs => rs | None => [] end.
Definition hints_of init items := match hints_of_trace Sig1 rules1 init items with Some hs => hs | None => [] end.

Example C20_trace_claims_nonvacuous :
  exists m, from_hints guards_sound Sig1 (hints_of (kf ka) good_items) = Some m
            /\ List.length (m_claims m) = 2 /\ List.length (hints_of (kf ka) good_items) = 2.
Proof. eexists. split; [vm_compute; reflexivity|]. split; reflexivity. Qed.

Example C20_mismatch_refused_nonvacuous :
  hints_of (kf kb) [TRule 1 []; TConfig kb] <> [] /\ ~ chained (hints_of (kf kb) [TRule 1 []; TConfig kb]).
Proof.
  split; [vm_compute; discriminate|]. intros [s [r [M _]]]. vm_compute in M. discriminate.
Qed.

Example C20_chained_accepted_nonvacuous :
  chained (hints_of ka cycle_items)
  /\ Forall (fun h => r_kind (h_rule h) = RRewrite /\ functional_axioms Sig1 (h_subst h) <> None) (hints_of ka cycle_items)
  /\ List.length (hints_of ka cycle_items) = 3.
Proof.
  split.
  - vm_compute. repeat (eexists; eexists; split; [reflexivity|]). exact I.
  - split; [|reflexivity]. vm_compute. repeat constructor; discriminate.
Qed.

(** the tree as first pinned ([guards_pinned]: claims registered through ProofExp.add_claim, which
    asserts uniqueness) refuses a chained trace that repeats a step -- the cycle a => b => a => b *)
Theorem C20_chained_accepted_pinned_refuted :
  exists S hs,
    chained hs
    /\ Forall (fun h => r_kind (h_rule h) = RRewrite /\ functional_axioms S (h_subst h) <> None) hs
    /\ from_hints guards_pinned S hs = None
    /\ exists m, from_hints guards_sound S hs = Some m /\ List.length (m_claims m) = 3.
Proof.
  exists Sig1, (hints_of ka cycle_items).
  destruct C20_chained_accepted_nonvacuous as [H1 [H2 _]].
  split; [exact H1|]. split; [exact H2|]. split; [vm_compute; reflexivity|].
  eexists. split; [vm_compute; reflexivity | reflexivity].
Qed.
Print Assumptions C20_chained_accepted_pinned_refuted.

(** ** 4. "... and the serialised module is accepted by the checker".
    FULL statement (proved below as C20_module_accepted, section 4b, through PTerm's C02 theorem; the
    two partial results are kept because they do not depend on the PTerm component):
      from_hints guards_sound S hs = Some m ->
      ML.Machine.verify (serialise_gamma m) (serialise_claims m) (serialise_proofs m) = accept.
    It needs the model of SerializingInterpreter/ProofExp.execute_full (component M4, another
    builder).  What IS proved is its logical content at the level of the module: every claim is
    literally an instance [inst delta axiom] of an axiom published by the same module, through the
    proof expression recorded for it (Load axiom; Instantiate delta; Publish), in the same order.
    Acceptance of the real serialisation by the real Rust checker is covered by the tie only: every
    module the implementation produces in a check run is serialised and verified. *)
Theorem C20_module_accepted_partial : forall G S hs m,
  from_hints G S hs = Some m ->
  m_proofs m = map hint_proof hs
  /\ m_claims m = map (fun ad => inst (snd ad) (fst ad)) (m_proofs m)
  /\ Forall (fun ad => In (fst ad) (m_axioms m)) (m_proofs m)
  /\ Forall (fun h => r_kind (h_rule h) = RRewrite /\ functional_axioms S (h_subst h) <> None) hs.
Proof. exact claims_derivable_thm. Qed.
Print Assumptions C20_module_accepted_partial.

(** second part of what is proved towards acceptance, against the checker model itself
    (lead's ML/Subst.v [inst] = lib.rs instantiate_internal, ANY guard configuration [g]): for every
    step, the checker's Instantiate rule applied to the encoded published axiom, with ids and plugs
    in the order the machine receives them, computes exactly the encoded claim -- so the Publish
    instruction's comparison with the claim succeeds.  [sym] is any symbol table (the serialiser's
    first-occurrence numbering is one); a Python dict has no duplicate key ([NoDup]).
    Still missing for the full statement: the byte-level serialiser and the machine run. *)
Theorem C20_module_accepted_instantiate_partial : forall (sym:string -> N) g G S hs m,
  from_hints G S hs = Some m ->
  Forall (fun h => NoDup (map fst (h_subst h))) hs ->
  Forall2 (fun c ad =>
             In (fst ad) (m_axioms m)
             /\ Pi2.ML.Subst.inst g (enc sym (fst ad)) (rev (ids_of (snd ad))) (rev (plugs_of sym (snd ad)))
                = Some (enc sym c))
          (m_claims m) (m_proofs m).
Proof. exact steps_check_thm. Qed.
Print Assumptions C20_module_accepted_instantiate_partial.

Example C20_module_accepted_instantiate_nonvacuous :
  Forall (fun h => NoDup (map fst (h_subst h))) (hints_of (kf ka) good_items)
  /\ exists h, In h (hints_of (kf ka) good_items) /\ h_subst h <> [].
Proof.
  split.
  - vm_compute. repeat constructor; simpl; tauto.
  - vm_compute. eexists. split; [left; reflexivity | discriminate].
Qed.

(** ** 4b. The remaining partial closed: checker acceptance of the serialised module.
    [to_pterm sym pre m] (K/Bridge.v) is the module as a proof-term module of PTerm/Model.v: patterns
    encoded by any symbol table [sym], axioms = [pre] (the axioms of the imported sub-modules, published
    first in the gamma phase; any checker-well-formed list) followed by the module's own axioms (rewrite
    rules and functional assumptions), claims = the instantiated rules, proofs =
    [PDynInst (PLoadAxiom rule) delta] = [dynamic_inst(load_axiom(rule), substitution)].
    [serialize memo] is the model of [ProofExp.serialize] ([memo = None]: optimize=False; [Some _]:
    the memoiser), [verify] the checker model [ML/Machine.v]; C02_module_accepted supplies the
    compiler-correctness half, this development proves [module_ok].
    Hypotheses that remain: (i) [hint_wf]: every substitution is a dict (no duplicate key), and rule
    patterns and substituted values contain no [Mu] other than the notation bottom -- discharged, in
    [C20_generated_module_accepted], for everything the pipeline builds from Kore objects;
    (ii) [serialize ... = Some _], i.e. the generator itself does not raise while serialising (ids and
    symbol numbers fit a byte, ...) -- the same hypothesis as in C02, not discharged in general
    (satisfiable: the Example below computes a serialisation and the checker's final state). *)
Theorem C20_module_accepted : forall (sym:string -> N) pre G S hs m memo g c p,
  from_hints G S hs = Some m ->
  Forall hint_wf hs ->
  forallb pat_wf pre = true ->
  serialize memo (to_pterm sym pre m) = Some (g, c, p) ->
  exists st, verify Pi2.ML.Subst.guards_sound g c p = Some st.
Proof. exact module_accepted_thm. Qed.
Print Assumptions C20_module_accepted.

Theorem C20_generated_module_accepted : forall (sym:string -> N) pre G S axs init items m memo g c p,
  gen_module G S axs init items = Some m ->
  forallb pat_wf pre = true ->
  serialize memo (to_pterm sym pre m) = Some (g, c, p) ->
  exists st, verify Pi2.ML.Subst.guards_sound g c p = Some st.
Proof. exact generated_module_accepted_thm. Qed.
Print Assumptions C20_generated_module_accepted.

(** an injective symbol table and the Definedness axiom [ceil(x0)] as the imported part *)
Fixpoint str_code (s:string) : N :=
  match s with EmptyString => 0%N | String a r => (N_of_ascii a + 1 + 257 * str_code r)%N end.
Definition pre1 : list pat := [App (Sym (str_code sym_defined)) (EVar 0)].

Example C20_module_accepted_nonvacuous :
  exists m g c p st,
    gen_module Pi2.K.Exec.guards_sound Sig1 axs1 (kf ka) good_items = Some m
    /\ List.length (Pi2.K.Exec.m_claims m) = 2
    /\ serialize None (to_pterm str_code pre1 m) = Some (g, c, p)
    /\ verify Pi2.ML.Subst.guards_sound g c p = Some st
    /\ (exists g' c' p', serialize (Some []) (to_pterm str_code pre1 m) = Some (g', c', p')).
Proof.
  eexists. eexists. eexists. eexists. eexists.
  split; [vm_compute; reflexivity|]. split; [reflexivity|].
  split; [vm_compute; reflexivity|]. split; [vm_compute; reflexivity|].
  eexists. eexists. eexists. vm_compute. reflexivity.
Qed.

(** ** 5. End to end, from parsed Kore objects and LLVM-style hint events: the claims of a generated
    module are, in order, the conversions of the rewrite axioms (side conditions dropped) with the
    event's substitution applied at the KORE level; and they chain. *)
Theorem C20_generated_claims : forall G S axs init items m,
  gen_module G S axs init items = Some m ->
  exists hs, m_claims m = map inst_rule hs /\ chained hs
    /\ Forall (fun h => exists k sc1 sub sc2 a,
                 In a axs /\ classify a = AxRewrite k
                 /\ convert S scope0 k = Some (sc1, r_pat (h_rule h))
                 /\ convert_substs S sc1 (py_dict sub) = Some (sc2, h_subst h)
                 /\ (List.length (sc_meta sc2) <= 100 -> bound_ok (map fst (py_dict sub)) k = true ->
                     convert S sc2 (ksubst (py_dict sub) k) = Some (sc2, inst_rule h))) hs.
Proof. exact gen_claims_thm. Qed.
Print Assumptions C20_generated_claims.

Example C20_generated_claims_nonvacuous :
  exists m, gen_module guards_sound Sig1 axs1 (kf ka) good_items = Some m /\ List.length (m_claims m) = 2.
Proof. eexists. split; [vm_compute; reflexivity | reflexivity]. Qed.


(** ** 6. The same properties of the functions TRANSLATED from the current Python source.
    coq/Gen/KoreConv.v is regenerated on every run by translators/kore_conv.py (statement by statement,
    fail closed) from ConvertionScope.resolve_metavar / lookup_metavar / resolve_sort_param_metavar,
    KSort/KSymbol.aml_symbol, KSymbol.app, LanguageSemantics._convert_sort / _convert_pattern /
    convert_substitutions, ProofExp.add_axiom / add_axioms / add_assumptions, ExecutionProofExp.
    current_configuration / collect_functional_axioms / add_assumptions_for_rewrite_step / rewrite_event /
    from_proof_hints.  K/GenKoreAgree.v proves the generated functions EQUAL to the model (scopes through
    [absg]: the model's name lists as the Python dicts; recursion of _convert_pattern on fuel, any fuel
    >= the height of the term; pyk's typing of binders [gk_typed]). *)
Theorem C20_source_agreement :
  (forall S fuel k, gheight k <= fuel -> gk_typed k = true -> forall sc,
      gen__convert_pattern fuel S (absg sc) k = lift (convert (gs_sig S) sc (to_kore k)))
  /\ (forall S fuel t o sc, sem_cached_scope S o = Some (absg sc) ->
        Forall (fun xk => gheight (snd xk) <= fuel /\ gk_typed (snd xk) = true) t ->
        gen_convert_substitutions fuel S t o
        = match convert_substs (gs_sig S) sc (tk_subst t) with
          | Some (sc', d) => Some (absg sc', dict_of d) | None => None end)
  /\ (forall S st rule d,
        gen_rewrite_event S (absx st) rule d
        = option_map (fun st' => (absx st', (r_pat rule, d))) (rewrite_event Pi2.K.Exec.guards_sound S st (r_pat rule) d))
  /\ (forall S hs, gen_from_proof_hints hs S = from_hints Pi2.K.Exec.guards_sound S hs).
Proof.
  split; [exact agree_convert_pattern|]. split; [exact agree_convert_substitutions|].
  split; [exact agree_rewrite_event | exact agree_from_proof_hints].
Qed.
Print Assumptions C20_source_agreement.

Theorem C20_source_scope_injective : forall S fuel k g p,
  gheight k <= fuel -> gk_typed k = true ->
  gen__convert_pattern fuel S gscope0 k = Some (g, p) ->
  (forall x s, In (x, s) (kevars (to_kore k)) -> exists i, sd_get x (g_metavars g) = Some (PMeta i))
  /\ (forall x y q, sd_get x (g_metavars g) = Some q -> sd_get y (g_metavars g) = Some q -> x = y)
  /\ (forall a b q, sd_get a (g_sortparams g) = Some q -> sd_get b (g_sortparams g) = Some q -> a = b)
  /\ ((nat_len (g_metavars g) <= 100)%N ->
      forall x a q, sd_get x (g_metavars g) = Some q -> sd_get a (g_sortparams g) = Some q -> False).
Proof. exact source_scope_injective. Qed.
Print Assumptions C20_source_scope_injective.

Theorem C20_source_conv_commutes_subst : forall S fuel fuel2 k g1 p o t g2 d,
  gheight k <= fuel -> gk_typed k = true ->
  Forall (fun xk => gheight (snd xk) <= fuel /\ gk_typed (snd xk) = true) t ->
  NoDup (map fst t) ->
  gen__convert_pattern fuel S gscope0 k = Some (g1, p) ->
  sem_cached_scope S o = Some g1 ->
  gen_convert_substitutions fuel S t o = Some (g2, d) ->
  (nat_len (g_metavars g2) <= 100)%N ->
  bound_ok (map fst t) (to_kore k) = true ->
  gheight (gsubst t k) <= fuel2 ->
  gen__convert_pattern fuel2 S g2 (gsubst t k) = Some (g2, inst d p).
Proof. exact source_conv_commutes_subst. Qed.
Print Assumptions C20_source_conv_commutes_subst.

Theorem C20_source_trace_claims : forall S hs m,
  gen_from_proof_hints hs S = Some m -> m_claims m = map inst_rule hs /\ chained hs.
Proof. intros S hs m H. rewrite agree_from_proof_hints in H. eapply trace_claims_thm; eauto. Qed.
Print Assumptions C20_source_trace_claims.

Theorem C20_source_trace_mismatch_refused : forall S hs, ~ chained hs -> gen_from_proof_hints hs S = None.
Proof. intros S hs H. rewrite agree_from_proof_hints. apply mismatch_refused_thm. exact H. Qed.
Print Assumptions C20_source_trace_mismatch_refused.

Theorem C20_source_trace_chained_accepted : forall S hs,
  chained hs ->
  Forall (fun h => r_kind (h_rule h) = RRewrite /\ functional_axioms S (h_subst h) <> None) hs ->
  exists m, gen_from_proof_hints hs S = Some m.
Proof. intros S hs H1 H2. rewrite agree_from_proof_hints. apply chained_accepted_thm; assumption. Qed.
Print Assumptions C20_source_trace_chained_accepted.

(** the axiom list of the module built by the translated code has no duplicate (ProofExp.add_axiom's
    de-duplication; the 256 Load slots) as soon as it starts without one *)
Theorem C20_source_axioms_nodup : forall S x rule d x' pf,
  NoDup (x_axioms x) -> gen_rewrite_event S x rule d = Some (x', pf) -> NoDup (x_axioms x').
Proof. exact source_axioms_nodup. Qed.
Print Assumptions C20_source_axioms_nodup.

Example C20_source_nonvacuous :
  exists m, gen_from_proof_hints (hints_of (kf ka) good_items) Sig1 = Some m /\ List.length (m_claims m) = 2.
Proof. eexists. split; [vm_compute; reflexivity | reflexivity]. Qed.

(** C10 -- Every derived rule proves exactly its advertised schema.

    Full statement (properties.jsonl): each lemma / derived rule of the propositional and tautology
    libraries, applied to ANY argument patterns and ANY premise proofs of the required shape, returns a
    proof whose conclusion is exactly its documented schema at those arguments, and that proof replays
    without error using only Prop1-3, modus ponens, instantiation and the declared axioms.

    The statements below are about Gen/PropLib.v, which translators/proplib.py regenerates from the
    current Python source on every run (proofs/propositional.py, tautology.py, proofs/substitution.py,
    proofs/small_theory.py; proofs/kore.py and proofs/definedness.py declare notations only);
    [all_specs] / [all_wf] / [all_replays] are the generated conjunctions of one [<m>_spec] (statement
    read off the docstring, or Lib/Extra.v), one [<m>_wf] and one [<m>_replays] per method.
    Quantification is over all [pat] (not only propositional patterns) and all premise thunks.
    The model of [Pattern.instantiate] is the generator's own (PTerm/Model.v [py_inst]: constraints
    ignored, capture-unaware), so (1)-(2) hold for ALL patterns; whether the checker agrees is a
    hypothesis of (4) only, and (5) shows it cannot be dropped. *)
From Coq Require Import NArith List Bool.
From Pi2 Require Import ML.Syntax ML.Subst ML.Machine Lib.Term Lib.TermFacts Lib.Replay Lib.Embed Gen.PropLib Gen.PropLibSpec Lib.NthDef Lib.Nth.
Import ListNotations.
Open Scope N_scope.

(** (1) advertised conclusion: for every entry point, [ProofThunk.conc] is the documented schema *)
Theorem C10_schemas : all_specs.
Proof. exact all_specs_hold. Qed.
Print Assumptions C10_schemas.

(** (2) the stored conclusion is what replaying the term by the documented rules yields (the run-time
    re-check of proof.py:45 cannot fail), for premises that themselves replay.  [owf g axs]: [g] says
    whether Generalization may occur; the propositional / tautology / small-theory lemmas are stated
    for every [g] (so in particular without it), [universal_gen] / [top_univgen] for [g = true]. *)
Theorem C10_stored_conclusion_replays : all_wf.
Proof. exact all_wf_hold. Qed.
Print Assumptions C10_stored_conclusion_replays.

(** (1)+(2) combined for any thunk: it is a term whose replay WITHOUT Generalization gives the schema
    and whose leaves are only Prop1-3 (MP / Inst nodes by typing) and declared assumptions *)
Theorem C10_delivers : forall axs x s, conc x = Some s -> owf false axs x -> delivers axs x s.
Proof. exact conc_owf_delivers. Qed.
Print Assumptions C10_delivers.

Theorem C10_uses_only : forall axs t c, static_conc false axs t = Some c -> uses_only axs t = true.
Proof. exact static_conc_uses_only. Qed.
Print Assumptions C10_uses_only.

(** (3) replay of the RULE instructions on the checker's stack machine (ML/Machine.v [step_i], sound
    guards).  PARTIAL: the instructions that build the plug patterns of [Instantiate] are abstracted
    (plugs are pushed as already-built [TPat] entries); [checker_agrees]: on every Instantiate of the
    term the checker computes what the generator advertised.  The full statement is (4). *)
Theorem C10_replays_partial : forall axs t c st,
  static_conc true axs t = Some c ->
  checker_agrees axs t = true ->
  axioms_in_memory axs (memory st) ->
  replay t st = Some (push (TProved c) st).
Proof. exact replay_correct. Qed.
Print Assumptions C10_replays_partial.

(** (4) FULL replay, through C02's stack-compiler correctness ([PTerm/Compile.v compile_correct]).
    [compiles_to axs x s] (Lib/Embed.v): [x] is a thunk [(t, s)], the embedded term's static conclusion
    is [s], and for EVERY transformer stack [ls] (memoiser with any set), symbol table and serialiser state
    in which the serialiser emits bytes [bs] for the term ([PTerm.Model.compile ls axs (emb t) tbl st =
    Some (tbl', st', bs, c)]; it declines for ids / indices >= 256, an assumption missing from memory, a
    Generalization over a non-fresh variable), [c = s] and
      [exec guards_sound ph bs (mkst K mem C) = Some (mkst (TProved (map_sym T s) :: K) mem' C)]
    on ANY checker stack [K], in any phase -- pattern construction of all plugs, Save/Load included.
    [all_replays], one statement per translated method [m]:
      docstring rules:  [ax_incl <class axioms> axs -> pwf <pattern args> ->
                         (conc h = Some <premise schema> -> gok axs h -> [csimple h] ->)*
                         compiles_to axs (m args) <schema instance>]
      Extra.v rules:    the same premises, [conc (m args) = Some s -> compiles_to axs (m args) s]
                        ([s] is characterised by [<m>_spec]).
    CLASS COVERED (wider than [C02_lib_wf]'s):
      [pwf p] = [PTerm.Model.pat_wf p]: ANY meta-pattern the checker lets one build -- constrained
         metavariables (holes disjoint from e_fresh), pending ESubst/SSubst (non-redundant, meta-headed),
         positive Mu;
      [gok axs h]: the premise's term passes C02's [wf_for_checker], its stored conclusion is the static
         one and is [pwf];
      [csimple h] (conclusion substitution-free with unconstrained metavariables) is required ONLY of the
         premise that the six *_match* rules re-instantiate; it cannot be dropped: (5). *)
Theorem C10_replays : all_replays.
Proof. exact all_replays_hold. Qed.
Print Assumptions C10_replays.

Theorem C10_replays_any_thunk : forall axs x s,
  conc x = Some s -> gok axs x -> compiles_to axs x s.
Proof. exact replays_full. Qed.
Print Assumptions C10_replays_any_thunk.

(** the class of [C02_lib_wf] (everything substitution-free, unconstrained, Mu-positive) is a special case *)
Theorem C10_replays_covers_lib_wf_class : forall g axs x, owf g axs x -> sok x -> gok axs x.
Proof. exact sok_gok. Qed.

(** (5) where (4) stops: a *_match* rule re-instantiates a premise whose conclusion is NOT simple.
    Both premises are declared axioms that the checker accepts ([gok], [pwf]); the toolkit builds the
    thunk, its stored conclusion replays by the generator's own rules, the serialiser emits bytes --
    and the checker model REJECTS them. *)
Definition w1_a1 : pat := Imp (phi 1) (MVar 0 [0] [] [] [] []).   (* phi1 -> phi0{x0 fresh} *)
Definition w1_a2 : pat := Imp (EVar 0) (Sym 1).                   (* x0 -> s1 *)
(** D9d through a library rule: match_single binds the x0-fresh metavariable to x0 itself;
    the generator ignores the constraint, the checker's Instantiate panics *)
Theorem C10_replays_refuted_constrained :
  let axs := [w1_a1; w1_a2] in
  let h1 := load_ax axs w1_a1 in
  let h2 := load_ax axs w1_a2 in
  gok axs h1 /\ gok axs h2 /\ conc (imp_trans_match1 h1 h2) = Some (Imp (phi 1) (Sym 1)) /\
  toolkit_builds_checker_rejects axs (imp_trans_match1 h1 h2).
Proof.
  cbv zeta. split; [|split; [|split]].
  - apply load_ax_gok; [apply ax_incl_refl | reflexivity].
  - apply load_ax_gok; [apply ax_incl_refl | reflexivity].
  - vm_compute. reflexivity.
  - unfold toolkit_builds_checker_rejects. do 5 eexists.
    split; [vm_compute; reflexivity|]. split; [vm_compute; reflexivity|].
    split; vm_compute; reflexivity.
Qed.
Print Assumptions C10_replays_refuted_constrained.

Definition w2_a1 : pat := Imp (ESub (phi 0) 1 (EVar 2)) (phi 0).    (* phi0[x2/x1] -> phi0 *)
Definition w2_a2 : pat := Imp (Ex 2 (EVar 1)) (Sym 1).               (* (exists x2. x1) -> s1 *)
(** D9c through a library rule: the re-instantiated premise carries a pending substitution; the
    generator's apply_esubst captures x2 under the binder, the checker's refuses *)
Theorem C10_replays_refuted_capture :
  let axs := [w2_a1; w2_a2] in
  let h1 := load_ax axs w2_a1 in
  let h2 := load_ax axs w2_a2 in
  gok axs h1 /\ gok axs h2 /\
  conc (imp_trans_match1 h1 h2) = Some (Imp (Ex 2 (EVar 2)) (Sym 1)) /\
  toolkit_builds_checker_rejects axs (imp_trans_match1 h1 h2).
Proof.
  cbv zeta. split; [|split; [|split]].
  - apply load_ax_gok; [apply ax_incl_refl | reflexivity].
  - apply load_ax_gok; [apply ax_incl_refl | reflexivity].
  - vm_compute. reflexivity.
  - unfold toolkit_builds_checker_rejects. do 5 eexists.
    split; [vm_compute; reflexivity|]. split; [vm_compute; reflexivity|].
    split; vm_compute; reflexivity.
Qed.

(** non-vacuity of (4): the hypotheses hold -- with a CONSTRAINED metavariable and a PENDING SUBSTITUTION
    among the arguments -- and the serialiser does emit bytes, which the checker model executes to
    [Proved (a -> a /\ a)] *)
Definition nv_a : pat := Imp (MVar 3 [1] [] [] [] [2]) (ESub (phi 0) 1 (Sym 4)).
Example C10_replays_nonvacuous :
  let x := iand (imp_refl nv_a) (imp_refl nv_a) in
  pwf nv_a = true /\ gok [] x /\ owf false [] x /\
  exists t s tbl' st' bs,
    x = Some (t, s) /\ s = Imp nv_a (p_and nv_a nv_a) /\
    PM.compile [PM.LMemo [Imp nv_a nv_a]] [] (emb t) [] (PM.mksst [] [] [] Proof) = Some (tbl', st', bs, s) /\
    (1900 <? N.of_nat (length bs)) = true /\
    exec guards_sound Proof bs st0 = Some (mkst [TProved (PS.map_sym tbl' s)] (map (PS.map_term tbl') (PM.s_mem st')) []).
Proof.
  cbv zeta. split; [reflexivity|]. split; [|split].
  - apply iand_gok; [apply ax_incl_nil | |]; (apply imp_refl_gok; [apply ax_incl_nil | reflexivity]).
  - apply iand_wf; [apply ax_incl_nil | |]; apply imp_refl_wf; apply ax_incl_nil.
  - vm_compute. do 5 eexists. split; [reflexivity|]. split; [reflexivity|]. split; [reflexivity|]. split; reflexivity.
Qed.

(** non-vacuity: premises of the required shape exist, are replayable, and the rules then deliver *)
Example C10_nonvacuous_rule :
  let h := imp_provable (EVar 2) (imp_refl (App (Sym 0) (EVar 1))) in
  conc h = Some (Imp (EVar 2) (Imp (App (Sym 0) (EVar 1)) (App (Sym 0) (EVar 1)))) /\ owf false [] h /\
  delivers [] (imim_l (Ex 3 (EVar 3)) h)
    (Imp (Imp (Imp (App (Sym 0) (EVar 1)) (App (Sym 0) (EVar 1))) (Ex 3 (EVar 3))) (Imp (EVar 2) (Ex 3 (EVar 3)))).
Proof.
  cbv zeta. split; [|split].
  - apply imp_provable_spec. apply imp_refl_spec.
  - apply imp_provable_wf; [apply ax_incl_nil | apply imp_refl_wf; apply ax_incl_nil].
  - apply conc_owf_delivers.
    + eapply imim_l_spec. apply imp_provable_spec. apply imp_refl_spec.
    + apply imim_l_wf; [apply ax_incl_nil|]. apply imp_provable_wf; [apply ax_incl_nil | apply imp_refl_wf; apply ax_incl_nil].
Qed.

Example C10_nonvacuous_replay :
  exists t c, term_of (iand (imp_refl (EVar 0)) (imp_refl (EVar 0))) = Some t /\
              static_conc true [] t = Some c /\ checker_agrees [] t = true /\
              replay t st0 = Some (push (TProved c) st0) /\ (psize t > 100)%N.
Proof.
  vm_compute. eexists. eexists. repeat split; reflexivity.
Qed.

(** (6) the index-driven rule [Tautology.conjunction_implies_nth(term, n, l)] (recursive on its counters, so
    hand-modelled: Lib/NthDef.v [conj_nth], tied differentially): for EVERY list of l >= 1 conjuncts -- each an
    arbitrary pattern, possibly itself a conjunction -- and every n < l it proves
    p0 /\ (p1 /\ (... /\ p_{l-1})) -> p_n, the stored conclusion replays, and (for checker-well-formed
    conjuncts) the compiled bytes execute to that conclusion *)
Theorem C10_conjunction_implies_nth : forall ps p n, (n < S (length ps))%nat ->
  conc (conj_nth (big_and p ps) n (S (length ps))) = Some (Imp (big_and p ps) (nth n (p :: ps) p)).
Proof. exact conj_nth_spec. Qed.
Print Assumptions C10_conjunction_implies_nth.

Theorem C10_conjunction_implies_nth_replays : forall axs ps p n, (n < S (length ps))%nat ->
  ax_incl tautology_axioms axs -> pwf (big_and p ps) = true ->
  owf false axs (conj_nth (big_and p ps) n (S (length ps))) /\
  compiles_to axs (conj_nth (big_and p ps) n (S (length ps))) (Imp (big_and p ps) (nth n (p :: ps) p)).
Proof. exact conj_nth_replays. Qed.

(** the case the round-3 seed got wrong: the LAST conjunct is itself a conjunction and is selected whole *)
Example C10_nth_last_conjunct_is_a_conjunction :
  conc (conj_nth (big_and (EVar 0) [p_and (EVar 1) (EVar 2)]) 1 2)
  = Some (Imp (p_and (EVar 0) (p_and (EVar 1) (EVar 2))) (p_and (EVar 1) (EVar 2))).
Proof. apply (conj_nth_spec [p_and (EVar 1) (EVar 2)] (EVar 0) 1%nat). repeat constructor. Qed.

(** Generalization (proofs/substitution.py): [top_univgen] proves [forall x0 . T] and replays *)
Example C10_top_univgen :
  conc top_univgen = Some (p_neg (Ex 0 (p_neg p_top))) /\ owf true substitution_axioms top_univgen /\
  gok substitution_axioms top_univgen.
Proof.
  split; [exact top_univgen_spec|]. split.
  - apply top_univgen_wf. apply ax_incl_refl.
  - apply top_univgen_gok. apply ax_incl_refl.
Qed.

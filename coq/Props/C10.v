(** C10 -- Every derived rule proves exactly its advertised schema.

    Full statement (properties.jsonl): each lemma / derived rule of the propositional and tautology
    libraries, applied to ANY argument patterns and ANY premise proofs of the required shape, returns a
    proof whose conclusion is exactly its documented schema at those arguments, and that proof replays
    without error using only Prop1-3, modus ponens, instantiation and the declared axioms.

    The statements below are about Gen/PropLib.v, which translators/proplib.py regenerates from the
    current Python source on every run; [all_specs] / [all_wf] are the generated conjunctions of one
    [<m>_spec] (statement read off the docstring, or Lib/Extra.v) and one [<m>_wf] per method.
    Quantification is over all [pat] (not only propositional patterns) and all premise thunks. *)
From Coq Require Import NArith List Bool.
From Pi2 Require Import ML.Syntax ML.Subst ML.Machine Lib.Term Lib.TermFacts Lib.Replay Gen.PropLib Gen.PropLibSpec.
Import ListNotations.
Open Scope N_scope.

(** (1) advertised conclusion: for every entry point, [ProofThunk.conc] is the documented schema *)
Theorem C10_schemas : all_specs.
Proof. exact all_specs_hold. Qed.
Print Assumptions C10_schemas.

(** (2) the stored conclusion is what replaying the term by the documented rules yields (the run-time
    re-check of proof.py:45 cannot fail), for premises that themselves replay *)
Theorem C10_stored_conclusion_replays : all_wf.
Proof. exact all_wf_hold. Qed.
Print Assumptions C10_stored_conclusion_replays.

(** (1)+(2) combined for any thunk: it is a term whose replay gives the schema and whose leaves are
    only Prop1-3 (MP / Inst nodes by typing) and declared assumptions *)
Theorem C10_delivers : forall axs x s, conc x = Some s -> owf axs x -> delivers axs x s.
Proof. exact conc_owf_delivers. Qed.
Print Assumptions C10_delivers.

Theorem C10_uses_only : forall axs t c, static_conc axs t = Some c -> uses_only axs t = true.
Proof. exact static_conc_uses_only. Qed.
Print Assumptions C10_uses_only.

(** (3) replay on the checker's stack machine (ML/Machine.v, sound guards): the rule instructions of a
    term whose static conclusion is [c] leave [Proved c] on the stack.
    PARTIAL: the instructions that build the plug patterns of [Instantiate] are abstracted (plugs are
    pushed as already-built [TPat] entries); assumptions are loaded from memory slots by [Load].
    Full statement (compile to bytes, [exec] on the byte stream incl. pattern construction and
    well-formedness of Mu/MetaVar operands) is C02's [compile_correct]. *)
Theorem C10_replays_partial : forall axs t c st,
  static_conc axs t = Some c ->
  axioms_in_memory axs (memory st) ->
  replay t st = Some (push (TProved c) st).
Proof. exact replay_correct. Qed.
Print Assumptions C10_replays_partial.

(** non-vacuity: premises of the required shape exist, are replayable, and the rules then deliver *)
Example C10_nonvacuous_rule :
  let h := imp_provable (EVar 2) (imp_refl (App (Sym 0) (EVar 1))) in
  conc h = Some (Imp (EVar 2) (Imp (App (Sym 0) (EVar 1)) (App (Sym 0) (EVar 1)))) /\ owf [] h /\
  delivers [] (imim_l (Ex 3 (EVar 3)) h)
    (Imp (Imp (Imp (App (Sym 0) (EVar 1)) (App (Sym 0) (EVar 1))) (Ex 3 (EVar 3))) (Imp (EVar 2) (Ex 3 (EVar 3)))).
Proof.
  cbv zeta. split; [|split].
  - apply imp_provable_spec. apply imp_refl_spec.
  - apply imp_provable_wf; [apply ax_incl_nil | apply imp_refl_wf; apply ax_incl_nil].
  - apply conc_owf_delivers.
    + eapply imim_l_spec. apply imp_provable_spec. apply imp_refl_spec.
    + apply imim_l_wf; [apply ax_incl_nil|]. apply imp_provable_wf; [apply ax_incl_nil | apply imp_refl_wf; apply ax_incl_nil].
Qed.

Example C10_nonvacuous_replay :
  exists t c, term_of (iand (imp_refl (EVar 0)) (imp_refl (EVar 0))) = Some t /\
              static_conc [] t = Some c /\ replay t st0 = Some (push (TProved c) st0) /\ (psize t > 100)%N.
Proof.
  vm_compute. eexists. eexists. split; [reflexivity|]. split; [reflexivity|]. split; reflexivity.
Qed.

(** C10 -- Every derived rule proves exactly its advertised schema.

    Full statement (properties.jsonl): each lemma / derived rule of the propositional and tautology
    libraries, applied to ANY argument patterns and ANY premise proofs of the required shape, returns a
    proof whose conclusion is exactly its documented schema at those arguments, and that proof replays
    without error using only Prop1-3, modus ponens, instantiation and the declared axioms.

    The statements below are about Gen/PropLib.v, which translators/proplib.py regenerates from the
    current Python source on every run; [all_specs] / [all_wf] are the generated conjunctions of one
    [<m>_spec] (statement read off the docstring, or Lib/Extra.v) and one [<m>_wf] per method.
    Quantification is over all [pat] (not only propositional patterns) and all premise thunks. *)
From Coq Require Import NArith List Bool.
From Pi2 Require Import ML.Syntax ML.Subst ML.Machine Lib.Term Lib.TermFacts Lib.Replay Lib.Embed Gen.PropLib Gen.PropLibSpec.
Import ListNotations.
Open Scope N_scope.

(** (1) advertised conclusion: for every entry point, [ProofThunk.conc] is the documented schema *)
Theorem C10_schemas : all_specs.
Proof. exact all_specs_hold. Qed.
Print Assumptions C10_schemas.

(** (2) the stored conclusion is what replaying the term by the documented rules yields (the run-time
    re-check of proof.py:45 cannot fail), for premises that themselves replay *)
Theorem C10_stored_conclusion_replays : all_wf.
Proof. exact all_wf_hold. Qed.
Print Assumptions C10_stored_conclusion_replays.

(** (1)+(2) combined for any thunk: it is a term whose replay gives the schema and whose leaves are
    only Prop1-3 (MP / Inst nodes by typing) and declared assumptions *)
Theorem C10_delivers : forall axs x s, conc x = Some s -> owf axs x -> delivers axs x s.
Proof. exact conc_owf_delivers. Qed.
Print Assumptions C10_delivers.

Theorem C10_uses_only : forall axs t c, static_conc axs t = Some c -> uses_only axs t = true.
Proof. exact static_conc_uses_only. Qed.
Print Assumptions C10_uses_only.

(** (3) replay on the checker's stack machine (ML/Machine.v, sound guards): the rule instructions of a
    term whose static conclusion is [c] leave [Proved c] on the stack.
    PARTIAL: the instructions that build the plug patterns of [Instantiate] are abstracted (plugs are
    pushed as already-built [TPat] entries); assumptions are loaded from memory slots by [Load].
    Full statement (compile to bytes, [exec] on the byte stream incl. pattern construction and
    well-formedness of Mu/MetaVar operands) is C02's [compile_correct]. *)
Theorem C10_replays_partial : forall axs t c st,
  static_conc axs t = Some c ->
  axioms_in_memory axs (memory st) ->
  replay t st = Some (push (TProved c) st).
Proof. exact replay_correct. Qed.
Print Assumptions C10_replays_partial.

(** (4) FULL replay, through C02's stack-compiler correctness ([PTerm/Compile.v compile_correct],
    [PTerm/LibWf.v lib_wf]).  [compiles_to axs x s] (Lib/Embed.v): [x] is a thunk [(t, s)], [t] replays by the
    documented rules to [s] using only Prop1-3 / MP / Instantiate / declared axioms, and for EVERY transformer
    stack [ls] (memoiser with any set), symbol table and serialiser state in which the serialiser emits bytes
    [bs] for the embedded term ([PTerm.Model.compile ls axs (emb t) tbl st = Some (tbl', st', bs, c)]; it
    declines only for ids/indices >= 256 or an assumption missing from memory), [c = s] and
      [exec guards_sound ph bs (mkst K mem C) = Some (mkst (TProved (map_sym T s) :: K) mem' C)]
    on ANY checker stack [K], in any phase -- pattern construction of all plugs, Save/Load included.
    [all_replays] is the generated conjunction, one statement per translated method [m]:
      docstring rules:  [ax_incl <class axioms> axs -> pok <pattern args> ->
                         (conc h = Some <premise schema> -> owf axs h -> sok h ->)*
                         compiles_to axs (m args) <schema instance>]
      Extra.v rules:    the same premises, [conc (m args) = Some s -> compiles_to axs (m args) s]
                        ([s] is characterised by [<m>_spec]).
    CLASS COVERED ([C02_lib_wf]'s): [pok p] = [p] substitution-free, all metavariables unconstrained, every
    Mu positive ([LibWf.simple p && Model.pat_wf p]) for every pattern argument; [sok h] = the premise's term
    is in C02's propositional fragment ([simple_term]) and its conclusion is [pok].  Outside that class the
    unrestricted statement is FALSE (C02_refuted_*: non-positive Mu, redundant substitution, constrained
    metavariables are accepted by the toolkit and rejected by the checker). *)
Theorem C10_replays : all_replays.
Proof. exact all_replays_hold. Qed.
Print Assumptions C10_replays.

Theorem C10_replays_any_thunk : forall axs x s,
  conc x = Some s -> owf axs x -> sok x -> compiles_to axs x s.
Proof. exact replays_full. Qed.
Print Assumptions C10_replays_any_thunk.

(** non-vacuity of (4): the hypotheses hold and the serialiser does emit bytes (here 1 913 of them for a 128-rule proof, with
    the memoiser on), which the checker model executes to [Proved (x0 -> x0 /\ x0)] *)
Example C10_replays_nonvacuous :
  let x := iand (imp_refl (EVar 0)) (imp_refl (EVar 0)) in
  sok x /\ owf [] x /\
  exists t s tbl' st' bs,
    x = Some (t, s) /\
    PM.compile [PM.LMemo [Imp (EVar 0) (EVar 0)]] [] (emb t) [] (PM.mksst [] [] [] Proof) = Some (tbl', st', bs, s) /\
    (1900 <? N.of_nat (length bs)) = true /\
    exec guards_sound Proof bs st0 = Some (mkst [TProved s] (map (PS.map_term tbl') (PM.s_mem st')) []).
Proof.
  cbv zeta. split; [|split].
  - apply iand_sok; apply imp_refl_sok; reflexivity.
  - apply iand_wf; [apply ax_incl_nil | |]; apply imp_refl_wf; apply ax_incl_nil.
  - vm_compute. do 5 eexists. split; [reflexivity|]. split; [reflexivity|]. split; reflexivity.
Qed.

(** non-vacuity: premises of the required shape exist, are replayable, and the rules then deliver *)
Example C10_nonvacuous_rule :
  let h := imp_provable (EVar 2) (imp_refl (App (Sym 0) (EVar 1))) in
  conc h = Some (Imp (EVar 2) (Imp (App (Sym 0) (EVar 1)) (App (Sym 0) (EVar 1)))) /\ owf [] h /\
  delivers [] (imim_l (Ex 3 (EVar 3)) h)
    (Imp (Imp (Imp (App (Sym 0) (EVar 1)) (App (Sym 0) (EVar 1))) (Ex 3 (EVar 3))) (Imp (EVar 2) (Ex 3 (EVar 3)))).
Proof.
  cbv zeta. split; [|split].
  - apply imp_provable_spec. apply imp_refl_spec.
  - apply imp_provable_wf; [apply ax_incl_nil | apply imp_refl_wf; apply ax_incl_nil].
  - apply conc_owf_delivers.
    + eapply imim_l_spec. apply imp_provable_spec. apply imp_refl_spec.
    + apply imim_l_wf; [apply ax_incl_nil|]. apply imp_provable_wf; [apply ax_incl_nil | apply imp_refl_wf; apply ax_incl_nil].
Qed.

Example C10_nonvacuous_replay :
  exists t c, term_of (iand (imp_refl (EVar 0)) (imp_refl (EVar 0))) = Some t /\
              static_conc [] t = Some c /\ replay t st0 = Some (push (TProved c) st0) /\ (psize t > 100)%N.
Proof.
  vm_compute. eexists. eexists. split; [reflexivity|]. split; [reflexivity|]. split; reflexivity.
Qed.

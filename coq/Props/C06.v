(** C06 — Freshness and positivity judgements are sound for every instantiation (checker side;
    the generator side and "notation does not change the answer" are in the second half of this file
    once coq/Py is built: Py lemmas are re-exported below).

    For ALL meta-patterns p (nested binders, constrained metavariables, stacked ESubst/SSubst), all
    variables, and ALL instantiations [inst guards_sound p vars plugs = Some q] accepted by the checker
    (i.e. respecting the declared constraints) whose result q is concrete:
      e_fresh p x  = true  ->  x does not occur free in q
      s_fresh p X  = true  ->  X does not occur free in q
      positive p X = true  ->  X has no free negative occurrence in q
      negative p X = true  ->  X has no free positive occurrence in q
    and the freshness judgements are moreover stable under arbitrary (schematic) instantiation. *)
From Coq Require Import NArith List Bool.
From Pi2 Require Import ML.Syntax ML.Subst ML.Facts ML.Concrete ML.JudgeInst ML.Sem.
Import ListNotations.
Open Scope N_scope.

Theorem C06_e_fresh_sound : forall p x vars plugs q,
  e_fresh p x = true -> inst guards_sound p vars plugs = Some q -> concrete q = true -> efree x q = false.
Proof.
  intros p x vars plugs q H Hi Hc. destruct (fresh_inst guards_sound eq_refl _ _ _ _ Hi) as [F _].
  specialize (F x H). rewrite (e_fresh_concrete _ _ Hc) in F. apply negb_true_iff in F. exact F.
Qed.
Print Assumptions C06_e_fresh_sound.

Theorem C06_s_fresh_sound : forall p X vars plugs q,
  s_fresh p X = true -> inst guards_sound p vars plugs = Some q -> concrete q = true -> sfree X q = false.
Proof.
  intros p X vars plugs q H Hi Hc. destruct (fresh_inst guards_sound eq_refl _ _ _ _ Hi) as [_ F].
  specialize (F X H). rewrite (s_fresh_concrete _ _ Hc) in F. apply negb_true_iff in F. exact F.
Qed.
Print Assumptions C06_s_fresh_sound.

Theorem C06_positive_sound : forall p X vars plugs q,
  pat_positive p X = true -> inst guards_sound p vars plugs = Some q -> concrete q = true -> socc false X q = false.
Proof.
  intros p X vars plugs q H Hi Hc. pose proof (polar_inst guards_sound eq_refl _ _ _ _ Hi Hc true X H) as F.
  rewrite (polar_concrete _ _ _ Hc) in F. apply negb_true_iff in F. exact F.
Qed.
Print Assumptions C06_positive_sound.

Theorem C06_negative_sound : forall p X vars plugs q,
  pat_negative p X = true -> inst guards_sound p vars plugs = Some q -> concrete q = true -> socc true X q = false.
Proof.
  intros p X vars plugs q H Hi Hc. pose proof (polar_inst guards_sound eq_refl _ _ _ _ Hi Hc false X H) as F.
  rewrite (polar_concrete _ _ _ Hc) in F. apply negb_true_iff in F. exact F.
Qed.
Print Assumptions C06_negative_sound.

(** stability of freshness under ANY instantiation the checker accepts (plugs may be schematic) *)
Theorem C06_fresh_stable : forall p vars plugs q, inst guards_sound p vars plugs = Some q ->
  (forall x, e_fresh p x = true -> e_fresh q x = true) /\ (forall X, s_fresh p X = true -> s_fresh q X = true).
Proof. exact (fresh_inst guards_sound eq_refl). Qed.
Print Assumptions C06_fresh_stable.

(** the positivity judgement is conservative, not stable: an instance may be judged "unknown" *)
Theorem C06_polarity_not_stable_refuted :
  exists p X vars plugs q, pat_positive p X = true /\ inst guards_sound p vars plugs = Some q /\ pat_positive q X = false.
Proof.
  exists (ESub (MVar 0 [] [] [5] [] []) 1 (MVar 1 [] [5] [] [] [])), 5, [0], [EVar 1], (MVar 1 [] [5] [] [] []).
  repeat split.
Qed.

(** semantic form (used by C01): a variable judged fresh does not influence the denotation *)
Theorem C06_e_fresh_semantic : forall D app_i sym_i av, av_ok D av -> forall p x v a,
  e_fresh p x = true -> seq D (eval D app_i sym_i av p (upd_e D v x a)) (eval D app_i sym_i av p v).
Proof. exact e_fresh_sound. Qed.
Theorem C06_s_fresh_semantic : forall D app_i sym_i av, av_ok D av -> forall p X v A,
  s_fresh p X = true -> seq D (eval D app_i sym_i av p (upd_s D v X A)) (eval D app_i sym_i av p v).
Proof. exact s_fresh_sound. Qed.
Print Assumptions C06_e_fresh_semantic.

(** non-vacuity: a stacked substitution over a constrained metavariable, judged and instantiated *)
Example C06_nonvacuous :
  let p := Ex 2 (SSub (ESub (MVar 0 [3] [] [4; 5] [] []) 1 (EVar 2)) 4 (Imp (SVar 6) (SVar 5))) in
  e_fresh p 3 = true /\ pat_positive p 5 = true /\
  exists q, inst guards_sound p [0] [App (EVar 1) (SVar 4)] = Some q /\ concrete q = true /\
            efree 3 q = false /\ socc false 5 q = false /\ sfree 5 q = true.
Proof. vm_compute. repeat split. eexists. repeat split. Qed.

(** ** the theorems hold of the judgement functions as they are written in the CURRENT rust/src/lib.rs:
       Gen/Judge.v is regenerated from the source on every run (translators/rust_judge.py) and proved
       equal to the model the lemmas above are about *)
From Pi2 Require Import Gen.Judge ML.GenAgree.
Theorem C06_judgements_translation_validated :
  (forall p x, gen_e_fresh p x = e_fresh p x) /\ (forall p X, gen_s_fresh p X = s_fresh p X) /\
  (forall p X, gen_positive p X = pat_positive p X) /\ (forall p X, gen_negative p X = pat_negative p X) /\
  (forall p, gen_is_redundant_subst p = is_redundant_subst p) /\ (forall p, gen_well_formed p = well_formed p).
Proof.
  exact (conj gen_e_fresh_eq (conj gen_s_fresh_eq (conj gen_positive_eq (conj gen_negative_eq
           (conj gen_is_redundant_subst_eq gen_well_formed_eq))))).
Qed.
Print Assumptions C06_judgements_translation_validated.

Corollary C06_source_judgements_sound : forall p v vars plugs q,
  inst guards_sound p vars plugs = Some q -> concrete q = true ->
  (gen_e_fresh p v = true -> efree v q = false) /\ (gen_s_fresh p v = true -> sfree v q = false) /\
  (gen_positive p v = true -> socc false v q = false) /\ (gen_negative p v = true -> socc true v q = false).
Proof.
  intros p v vars plugs q Hi Hc. rewrite gen_e_fresh_eq, gen_s_fresh_eq, gen_positive_eq, gen_negative_eq.
  repeat split; intros H; [eapply C06_e_fresh_sound | eapply C06_s_fresh_sound | eapply C06_positive_sound | eapply C06_negative_sound]; eassumption.
Qed.
Print Assumptions C06_source_judgements_sound.

(** ** generator side (pattern.py `evar_is_free`, which despite its name answers "is fresh"): notation
       does not change the answer.  Model and proofs: coq/Py (notes/PY_MODEL.md).  The statements hold for
       every configuration of the model in which the listed repairs are present; the current code has
       D3 and D5 repaired (commits 1bcbbf7, 2592e1c); `f_mv_keep_subst` is the recorded finding D9d
       (a substitution on a declared-fresh variable of a metavariable is dropped; pinned by
       test_pattern.py), on which model and code differ only in that corner. *)
From Pi2 Require Import Py.Pattern Py.ExpandFacts Py.Total Py.Termination Py.Witness.
Theorem C06_py_fresh_is_judgement_of_expansion : forall f,
  f_mv_keep_subst f = true -> f_inst_extend f = true -> f_fresh_simplify f = true ->
  forall n p x r, py_fresh f n p x = Some r -> r = e_fresh (expand f p) x.
Proof. exact py_fresh_expand. Qed.
Print Assumptions C06_py_fresh_is_judgement_of_expansion.
Theorem C06_py_fresh_total : forall f,
  f_mv_keep_subst f = true -> f_inst_extend f = true -> f_fresh_simplify f = true ->
  forall p x n, (dm p one <= n)%nat -> py_fresh f n p x = Some (e_fresh (expand f p) x).
Proof. exact py_fresh_total. Qed.
(** hence the generator-side judgement is sound for every instantiation of the expansion (checker-side theorem) *)
Corollary C06_py_fresh_sound : forall f,
  f_mv_keep_subst f = true -> f_inst_extend f = true -> f_fresh_simplify f = true ->
  forall n p x vars plugs q, py_fresh f n p x = Some true ->
    inst guards_sound (expand f p) vars plugs = Some q -> concrete q = true -> efree x q = false.
Proof.
  intros f H1 H2 H3 n p x vars plugs q Hf Hi Hc.
  apply (C06_e_fresh_sound (expand f p) x vars plugs q); [|exact Hi|exact Hc].
  symmetry. exact (py_fresh_expand f H1 H2 H3 n p x true Hf).
Qed.
Print Assumptions C06_py_fresh_sound.
(** pinned tree (before commit 1bcbbf7): and(x1, x2) is judged fresh for x1 *)
Theorem C06_py_refuted_notation_pinned :
  exists p x n, py_fresh flags_no_fresh_simplify n p x = Some true /\ e_fresh (expand flags_no_fresh_simplify p) x = false.
Proof. exists (and_p (PEVar 1) (PEVar 2)), 1, 20%nat. vm_compute. split; reflexivity. Qed.

(** ** the same for the configuration the CURRENT code is in ([flags_current]: every repair applied, D9d's drop
       of a substitution on a declared-fresh variable still present), on corner-free patterns
       (Py/Bridge.v [corner_free se ss p]: no metavariable of p declares fresh a variable in se/ss, and every
       pending substitution of p is on a variable in se/ss; every pattern without e_fresh/s_fresh declarations
       qualifies, [unconstrained_corner_free]).  Appended by builder "Py". *)
From Pi2 Require Import Py.Bridge Py.Current.
Theorem C06_py_fresh_is_judgement_of_expansion_current_code : forall se ss n p x r,
  corner_free se ss p = true -> py_fresh flags_current n p x = Some r -> r = e_fresh (expand flags_current p) x.
Proof. exact (fun se ss => py_fresh_expand_cur se ss flags_current eq_refl eq_refl). Qed.
Theorem C06_py_fresh_bridge : forall se ss f n p x, corner_free se ss p = true ->
  py_fresh f n p x = py_fresh (with_keep f) n p x.
Proof. exact py_fresh_bridge. Qed.
Corollary C06_py_fresh_sound_current_code : forall se ss n p x vars plugs q,
  corner_free se ss p = true -> py_fresh flags_current n p x = Some true ->
  inst guards_sound (expand flags_current p) vars plugs = Some q -> concrete q = true -> efree x q = false.
Proof.
  intros se ss n p x vars plugs q Hc Hf Hi Hq.
  apply (C06_e_fresh_sound (expand flags_current p) x vars plugs q); [|exact Hi|exact Hq].
  symmetry. exact (C06_py_fresh_is_judgement_of_expansion_current_code se ss n p x true Hc Hf).
Qed.
Print Assumptions C06_py_fresh_sound_current_code.
Example C06_py_ex_current_code :
  corner_free [1] [] (and_p (PMVar 0 [3] [] [] [] []) (PESub (PMVar 1 [] [] [] [] []) 1 (PEVar 2))) = true /\
  py_fresh flags_current 30 (and_p (PMVar 0 [3] [] [] [] []) (PESub (PMVar 1 [] [] [] [] []) 1 (PEVar 2))) 3 = Some false /\
  py_fresh flags_current 30 (and_p (PMVar 0 [3] [] [] [] []) (PEVar 2)) 3 = Some true.
Proof. vm_compute. repeat split; reflexivity. Qed.

(** ================================================================================================
    C06_source_*: the theorems stated of the functions GENERATED from the current source
    (coq/Gen/PyPattern.v, rewritten from pattern.py / basic_interpreter.py on every run by translators/pypattern.py;
    agreement with the model: coq/Py/GenPyPatternAgree.v). *)
From Pi2 Require Import Py.GenSupport Gen.PyPattern Py.GenPyPatternAgree Py.SourceFacts.
Theorem C06_source_py_fresh_is_judgement_of_expansion : forall se ss n p x r, corner_free se ss p = true ->
  src_evar_is_free n p x = Some r -> r = e_fresh (expand flags_current p) x.
Proof. exact source_fresh_expand. Qed.
Corollary C06_source_py_fresh_sound : forall se ss n p x vars plugs q,
  corner_free se ss p = true -> src_evar_is_free n p x = Some true ->
  inst guards_sound (expand flags_current p) vars plugs = Some q -> concrete q = true -> efree x q = false.
Proof.
  intros se ss n p x vars plugs q Hc Hf Hi Hq.
  apply (C06_e_fresh_sound (expand flags_current p) x vars plugs q); [|exact Hi|exact Hq].
  symmetry. exact (source_fresh_expand se ss n p x true Hc Hf).
Qed.
Print Assumptions C06_source_py_fresh_sound.

(** C02 -- Every proof the toolkit generates is accepted by the checker.

    FULL STATEMENT (properties.jsonl): for every module [m] and both optimise settings,
        [serialize memo m = Some (g, c, p)  ->  exists st, verify guards_sound g c p = Some st]
    ("if the toolkit itself accepts a proof expression, the checker must not reject its
    serialisation").  It is FALSE of the faithful model of the pinned generator: the
    [C02_refuted_*] theorems give one toolkit-accepted, checker-rejected module per check the
    generator lacks (D9a-f).  It is proved under [module_ok], which collects exactly those checks
    ([pat_wf]: Mu positivity, redundant / ill-shaped substitutions, MetaVar hole/freshness overlap;
    [inst_agree]: the checker's Instantiate succeeds and computes the generator's instantiate,
    i.e. metavariable constraints and capture; all claims discharged) plus [dynamic] (the static
    [ProofExp.instantiate] cannot be serialised at all, C08-D10).  The checker is
    [ML/Machine.v] with [guards_sound]. *)
From Coq Require Import NArith List Bool.
From Pi2 Require Import ML.Syntax ML.Subst ML.Machine PTerm.Model PTerm.Facts PTerm.MapSym PTerm.Compile PTerm.LibWf Gen.C02Shipped PTerm.PyRt Gen.PyProofDSL PTerm.GenPyProofDSLAgree.
Import ListNotations.
Open Scope N_scope.

(** stack-compiler correctness: the bytes written while a thunk runs under the serialiser (under
    ANY stack of transformers [ls], e.g. the memoiser with any memoisation set) make the checker
    push exactly the advertised conclusion -- symbols renumbered by the final symbol table [T] --
    on ANY checker stack [K], and track the memory *)
Theorem C02_compile_correct : forall ls axs t tbl s tbl' s' bs c,
  dynamic t = true -> wf_for_checker axs t = true ->
  mem_shape_ok (s_mem s) -> loads_ok t (s_mem s) = true ->
  compile ls axs t tbl s = Some (tbl', s', bs, c) ->
  static_conc axs t = Some c /\
  forall T, ext T tbl' -> forall ph K C,
    exec guards_sound ph bs (mkst K (map (map_term T) (s_mem s)) C)
    = Some (mkst (TProved (map_sym T c) :: K) (map (map_term T) (s_mem s')) C).
Proof. exact compile_correct. Qed.
Print Assumptions C02_compile_correct.

(** whole modules, both optimise settings ([memo = None]: plain; [Some ms]: memoiser with whatever
    set the counting pass suggested) *)
Theorem C02_module_accepted : forall memo m g c p,
  module_ok m = true -> serialize memo m = Some (g, c, p) ->
  exists st, verify guards_sound g c p = Some st.
Proof. exact module_accepted. Qed.
Print Assumptions C02_module_accepted.

(** the premise [wf_for_checker] is discharged generically on the propositional fragment (no
    Quantifier axiom; plugs and loaded axioms without substitution nodes, metavariables
    unconstrained, Mu positive): all of [Propositional] over such argument patterns *)
Theorem C02_lib_wf : forall axs t c, simple_term t = true -> static_conc axs t = Some c ->
  wf_for_checker axs t = true /\ dynamic t = true.
Proof. exact lib_wf. Qed.
Print Assumptions C02_lib_wf.
Example C02_lib_wf_covers_shipped_propositional :
  forallb simple_term (m_proofs m_propositional) = true /\ forallb simple_term (m_proofs m_small_theory) = true.
Proof. vm_compute. split; reflexivity. Qed.

(** ** Refutations of the unrestricted statement: toolkit accepts, checker rejects *)
Definition toolkit_accepts_checker_rejects (m:pmodule) : Prop :=
  (exists g c p, serialize None m = Some (g, c, p) /\ verify guards_sound g c p = None) /\
  (exists g c p, serialize (Some []) m = Some (g, c, p) /\ verify guards_sound g c p = None).
Ltac refute := split; eexists _, _, _; split; vm_compute; reflexivity.

Definition bot' := Mu 0 (SVar 0).
Definition one_proof (axs:list pat) (t:pterm) : pmodule :=
  mkmod axs (match static_conc axs t with Some c => [c] | None => [] end) [t].

(** D9a: a non-positive Mu goes through [Interpreter.mu] unchecked *)
Definition w_mu := one_proof [] (PDynInst PProp1 [(0, Mu 0 (Imp (SVar 0) bot'))]).
Theorem C02_refuted_mu_positivity : toolkit_accepts_checker_rejects w_mu.
Proof. refute. Qed.
(** D9b: a redundant substitution [phi0[x0/x0]] *)
Definition w_redundant := one_proof [] (PDynInst PProp1 [(0, ESub (phi 0) 0 (EVar 0))]).
Theorem C02_refuted_redundant_subst : toolkit_accepts_checker_rejects w_redundant.
Proof. refute. Qed.
(** D9c: [Exists.apply_esubst] captures: Quantifier instantiated at [exists x1. x0] *)
Definition w_capture := one_proof [] (PDynInst PQuant [(0, Ex 1 (EVar 0))]).
Theorem C02_refuted_capture : toolkit_accepts_checker_rejects w_capture.
Proof. refute. Qed.
(** D9d: metavariable constraints are ignored at instantiation ([can_be_replaced_by] = True) *)
Definition ax_fresh := MVar 0 [0] [] [] [] [].
Definition w_constraints := one_proof [ax_fresh] (PDynInst (PLoadAxiom ax_fresh) [(0, EVar 0)]).
Theorem C02_refuted_metavar_constraints : toolkit_accepts_checker_rejects w_constraints.
Proof. refute. Qed.
(** D9e: a declared claim without a proof is not noticed by the generator *)
Definition w_claims := mkmod [] [py_prop1; Imp (phi 0) (phi 0)] [PProp1].
Theorem C02_refuted_undischarged_claim : toolkit_accepts_checker_rejects w_claims.
Proof. refute. Qed.
(** D9f: a MetaVar whose application-context holes overlap its e_fresh list *)
Definition w_holes := one_proof [] (PDynInst PProp1 [(0, MVar 0 [0] [] [] [] [0])]).
Theorem C02_refuted_metavar_holes : toolkit_accepts_checker_rejects w_holes.
Proof. refute. Qed.
Print Assumptions C02_refuted_capture.

(** none of the witnesses is [module_ok] *)
Example C02_witnesses_not_module_ok :
  map module_ok [w_mu; w_redundant; w_capture; w_constraints; w_claims; w_holes] = [false; false; false; false; false; false].
Proof. vm_compute. reflexivity. Qed.

(** ** Instances: the shipped modules (terms regenerated from /repo on every run, Gen/C02Shipped.v) *)
Example C02_shipped_propositional :
  module_ok m_propositional = true /\ accepted None m_propositional = true /\ accepted (Some memo_propositional) m_propositional = true.
Proof. exact propositional_ok. Qed.
Example C02_shipped_small_theory :
  module_ok m_small_theory = true /\ accepted None m_small_theory = true /\ accepted (Some memo_small_theory) m_small_theory = true.
Proof. exact small_theory_ok. Qed.
Example C02_shipped_substitution :
  module_ok m_substitution = true /\ accepted None m_substitution = true /\ accepted (Some memo_substitution) m_substitution = true.
Proof. exact substitution_ok. Qed.
Example C02_shipped_tautology :
  module_ok m_tautology = true /\ accepted None m_tautology = true /\ accepted (Some memo_tautology) m_tautology = true.
Proof. exact tautology_ok. Qed.

(** non-vacuity of [C02_compile_correct]: a memoising serialiser, an axiom load, a symbol table *)
Definition ex_ax : pat := Imp (Sym 7) (Sym 9).
Definition ex_term : pterm := PMP (PDynInst PProp1 [(0, ex_ax); (1, Sym 7)]) (PLoadAxiom ex_ax).
Definition ex_state : sstate := mksst [] [TProved ex_ax] [] Proof.
Example C02_compile_hypotheses_satisfiable :
  dynamic ex_term = true /\ wf_for_checker [ex_ax] ex_term = true /\ loads_ok ex_term (s_mem ex_state) = true /\
  exists tbl' s' bs, compile [LMemo [ex_ax; Sym 7]] [ex_ax] ex_term [9; 7] ex_state = Some (tbl', s', bs, Imp (Sym 7) ex_ax).
Proof. vm_compute. repeat split. eexists _, _, _. reflexivity. Qed.

(** ** Tie to the source by TRANSLATION (Gen/PyProofDSL.v, regenerated on every run; agreement proofs in
    PTerm/GenPyProofDSLAgree.v): which interpreter calls a proof term makes, in which order, through which
    transformer stack, and which phase publishes what, are read off the current text of proof.py /
    basic_interpreter.py / interpreter.py / interpreter_transformer.py / optimizing_interpreters.py.  The bytes per
    call ([ser_run]: stateful_interpreter.py + serializing_interpreter.py) remain tied differentially. *)
Theorem C02_source_compile_correct : forall ls axs t tbl s tbl' s' bs c,
  dynamic t = true -> wf_for_checker axs t = true ->
  mem_shape_ok (s_mem s) -> loads_ok t (s_mem s) = true ->
  gen_compile ls axs t tbl s = Some (tbl', s', bs, c) ->
  option_map th_conc (build axs t) = Some c /\
  forall T, ext T tbl' -> forall ph K C,
    exec guards_sound ph bs (mkst K (map (map_term T) (s_mem s)) C)
    = Some (mkst (TProved (map_sym T c) :: K) (map (map_term T) (s_mem s')) C).
Proof. intros until c. rewrite gen_compile_eq, gen_static_conc_agree. apply compile_correct. Qed.
Print Assumptions C02_source_compile_correct.

Theorem C02_source_module_accepted : forall memo m g c p,
  module_ok m = true -> gen_serialize memo m = Some (g, c, p) ->
  exists st, verify guards_sound g c p = Some st.
Proof. intros memo m g c p. rewrite gen_serialize_eq. apply module_accepted. Qed.
Print Assumptions C02_source_module_accepted.

(** the translated gamma phase on an import TREE publishes the model's flat axiom list (sub-modules first) *)
Theorem C02_source_gamma_phase_order : forall b ls t mem,
  tree_gamma t (stack_obj b ls) false (mkrst mem Gamma)
  = lift_u Gamma (gamma_calls (cfg_inS ls) (cfg_loads b ls) (flat_axioms t) mem).
Proof. exact tree_gamma_agree. Qed.
Print Assumptions C02_source_gamma_phase_order.

(** C03 -- Published theory and claims are exactly what was declared.

    Model: coq/Interp/Module.v (patterns with notation, the [Interpreter.pattern] traversal, the
    memoising wrapper, [execute_gamma_phase] / [execute_claims_phase] of a module with imported
    submodules) over coq/Interp/Calls.v (tracker + serialiser).  Observation: the lead's
    [ML/Journal.v]: [gamma_axioms] = the terms consumed by the Publish instructions of the gamma file,
    [declared_claims] = the checker's claim queue after the claim file.

    The theorems are stated for the call sequences the module produces when
      - the serialiser accepts them ([ser_run ... = Some _]; in particular no id above 255), and
      - they are inside the boundary of C04 ([wf_run]: the checker's own side conditions hold for the
        declared patterns; a module outside it is REJECTED by the checker, which publishes nothing --
        that is C02's subject, not an extra or missing axiom).
    Both hypotheses are decided by the extracted model on every generated module of the tie.
    Diamond imports (D15): [flat_axioms] is the import-tree walk, a module imported along two paths is
    walked (and published) once per path; the theorem states that sequence exactly. *)
From Coq Require Import NArith List Bool.
From Pi2 Require Import ML.Syntax ML.Subst ML.Machine ML.Journal
  Interp.Calls Interp.Facts Interp.RoundTrip Interp.Sim Interp.Module Interp.ModuleFacts.
From Pi2 Require Import Interp.SerialLib Gen.PySerial Interp.GenPySerialAgree.
Import ListNotations.
Open Scope N_scope.

(** gamma file: the journal is the declared theory (submodules first, import order, recursively; then
    own), in order, renumbered by the table -- nothing added, nothing dropped *)
Theorem C03_gamma_exact : forall f m cl cs t1 tr1 gb,
  gamma_calls m = Some cs ->
  ser_run [] (fresh_tracker Gamma cl) cs = Some (t1, tr1, gb) -> wf_run (fresh_tracker Gamma cl) cs ->
  agrees f t1 ->
  gamma_axioms guards_sound gb = map (rn f) (map expand (flat_axioms m)).
Proof. exact gamma_exact. Qed.
Print Assumptions C03_gamma_exact.

(** claim file: published reversed, hence queued in declaration order *)
Theorem C03_claims_exact : forall f m cl gcs t1 tr1 gb tr1' ccs t2 tr2 cb,
  ser_run [] (fresh_tracker Gamma cl) gcs = Some (t1, tr1, gb) -> wf_run (fresh_tracker Gamma cl) gcs ->
  stateful_step tr1 CIntoClaim = Some tr1' ->
  claim_calls m = Some ccs ->
  ser_run t1 tr1' ccs = Some (t2, tr2, cb) -> wf_run tr1' ccs ->
  agrees f t2 ->
  exists s1, exec guards_sound Gamma gb st0 = Some s1 /\
    journal guards_sound Claim cb (set_stack [] s1) = map (rn f) (rev (map expand (m_claims m))) /\
    declared_claims guards_sound gb cb = map (rn f) (map expand (m_claims m)).
Proof. exact claims_exact. Qed.
Print Assumptions C03_claims_exact.

(** the same with optimisation on, for EVERY set of patterns the memoiser may be told to save *)
Theorem C03_gamma_exact_opt : forall f sel m cl cs mem1 t1 tr1 gb,
  mgamma_calls sel m = Some (cs, mem1) ->
  ser_run [] (fresh_tracker Gamma cl) cs = Some (t1, tr1, gb) -> wf_run (fresh_tracker Gamma cl) cs ->
  agrees f t1 ->
  gamma_axioms guards_sound gb = map (rn f) (map expand (flat_axioms m)).
Proof. exact gamma_exact_opt. Qed.
Theorem C03_claims_exact_opt : forall f sel m cl gcs t1 tr1 gb tr1' mem1 ccs mem2 t2 tr2 cb,
  ser_run [] (fresh_tracker Gamma cl) gcs = Some (t1, tr1, gb) -> wf_run (fresh_tracker Gamma cl) gcs ->
  stateful_step tr1 CIntoClaim = Some tr1' ->
  mclaim_calls sel m mem1 = Some (ccs, mem2) ->
  ser_run t1 tr1' ccs = Some (t2, tr2, cb) -> wf_run tr1' ccs ->
  agrees f t2 ->
  declared_claims guards_sound gb cb = map (rn f) (map expand (m_claims m)).
Proof. exact claims_exact_opt. Qed.
Print Assumptions C03_claims_exact_opt.

(** identical whether or not optimisation is on: each gamma file, decoded with the symbol table of its
    own serialisation, is the declared theory itself (the two tables may number symbols differently:
    a notation argument its body never uses is built without the memoiser and skipped by a Load) *)
Theorem C03_opt_irrelevant : forall sel m cl cs1 t1 tr1 gb1 cs2 mem2 t2 tr2 gb2,
  gamma_calls m = Some cs1 ->
  ser_run [] (fresh_tracker Gamma cl) cs1 = Some (t1, tr1, gb1) -> wf_run (fresh_tracker Gamma cl) cs1 ->
  mgamma_calls sel m = Some (cs2, mem2) ->
  ser_run [] (fresh_tracker Gamma cl) cs2 = Some (t2, tr2, gb2) -> wf_run (fresh_tracker Gamma cl) cs2 ->
  map (unrn t1) (gamma_axioms guards_sound gb1) = map (unrn t2) (gamma_axioms guards_sound gb2).
Proof. exact opt_irrelevant_gamma. Qed.
Print Assumptions C03_opt_irrelevant.

Theorem C03_gamma_exact_names : forall sel m cl cs mem1 t1 tr1 gb,
  mgamma_calls sel m = Some (cs, mem1) ->
  ser_run [] (fresh_tracker Gamma cl) cs = Some (t1, tr1, gb) -> wf_run (fresh_tracker Gamma cl) cs ->
  map (unrn t1) (gamma_axioms guards_sound gb) = map expand (flat_axioms m).
Proof. exact gamma_exact_names. Qed.

Theorem C03_opt_irrelevant_claims : forall sel m cl
    gcs1 t1 tr1 gb1 tr1' ccs1 u1 ur1 cb1
    gcs2 mem2 t2 tr2 gb2 tr2' ccs2 mem3 u2 ur2 cb2,
  ser_run [] (fresh_tracker Gamma cl) gcs1 = Some (t1, tr1, gb1) -> wf_run (fresh_tracker Gamma cl) gcs1 ->
  stateful_step tr1 CIntoClaim = Some tr1' -> claim_calls m = Some ccs1 ->
  ser_run t1 tr1' ccs1 = Some (u1, ur1, cb1) -> wf_run tr1' ccs1 ->
  ser_run [] (fresh_tracker Gamma cl) gcs2 = Some (t2, tr2, gb2) -> wf_run (fresh_tracker Gamma cl) gcs2 ->
  stateful_step tr2 CIntoClaim = Some tr2' -> mclaim_calls sel m mem2 = Some (ccs2, mem3) ->
  ser_run t2 tr2' ccs2 = Some (u2, ur2, cb2) -> wf_run tr2' ccs2 ->
  map (unrn u1) (declared_claims guards_sound gb1 cb1) = map expand (m_claims m) /\
  map (unrn u2) (declared_claims guards_sound gb2 cb2) = map expand (m_claims m).
Proof. exact opt_irrelevant_claims. Qed.
Print Assumptions C03_opt_irrelevant_claims.

(** the journal of ANY accepted in-boundary run is the sequence of its publish calls (the general
    fact behind the four theorems above; also covers the proof file) *)
Theorem C03_journal_exact : forall f cs tbl tr st tblF trF bs,
  R f tr st -> ser_run tbl tr cs = Some (tblF, trF, bs) -> wf_run tr cs -> agrees f tblF ->
  journal guards_sound (t_phase tr) bs st = map (rn f) (pub_of cs) /\
  exists st', exec guards_sound (t_phase tr) bs st = Some st' /\ R f trF st' /\ t_phase trF = t_phase tr.
Proof. exact journal_run. Qed.
Print Assumptions C03_journal_exact.

(** distinct symbols receive distinct numbers ... *)
Theorem C03_symtab_injective : forall tbl a b i, idx_of a tbl = Some i -> idx_of b tbl = Some i -> a = b.
Proof. exact symtab_injective. Qed.
(** ... the same symbol the same number in the three files (one table, only ever extended) ... *)
Theorem C03_symtab_shared : forall cs tbl tr tblF trF bs a i,
  ser_run tbl tr cs = Some (tblF, trF, bs) -> idx_of a tbl = Some i -> idx_of a tblF = Some i.
Proof. exact symtab_stable. Qed.
(** ... every written value is a byte, the table never exceeds 256 names ... *)
Theorem C03_emit_bytes : forall tbl tr c tbl' bs, emit tbl tr c = Some (tbl', bs) -> Forall (fun b => b < 256) bs.
Proof. exact emit_bytes. Qed.
Theorem C03_symtab_bounded : forall cs tbl tr tblF trF bs,
  ser_run tbl tr cs = Some (tblF, trF, bs) -> (length tbl <= 256)%nat -> (length tblF <= 256)%nat.
Proof. exact symtab_bounded. Qed.
(** ... and what cannot be encoded is refused, not encoded ambiguously *)
Theorem C03_refuse_over_255 : forall tbl tr name,
  idx_of name tbl = None -> (256 <= length tbl)%nat -> emit tbl tr (CSymbol name) = None.
Proof. exact refuse_symbol_over_255. Qed.
Theorem C03_refuse_ids_over_255 : forall tbl tr id, 256 <= id ->
  emit tbl tr (CEVar id) = None /\ emit tbl tr (CSVar id) = None /\
  (forall a b c d e, emit tbl tr (CMetaVar id a b c d e) = None) /\
  (forall p, emit tbl tr (CExists id p) = None) /\ (forall p, emit tbl tr (CMu id p) = None).
Proof. exact refuse_ids_over_255. Qed.
Print Assumptions C03_refuse_over_255.

(* ---------------------------------------------------------------------------------------------- *)
(** Non-vacuity: a diamond (one submodule imported along two paths), a duplicated axiom, an axiom in
    notation form; the hypotheses hold with and without the memoiser and the journals are computed. *)
Definition nneg (p:npat) : npat := NInst (NImp (NMV 0 [] [] [] [] []) (NMu 0 (NS 0))) [(0, p)].
Definition exD := Mod [NY 7; nneg (NY 7)] [] [].
Definition exL := Mod [NApp (NY 8) (NE 1)] [] [exD].
Definition exRoot := Mod [NY 9; NY 9] [NImp (NY 9) (NY 7)] [exL; exD].
Definition ex_sel (p:npat) : bool := npat_eqb p (NY 7) || npat_eqb p (nneg (NY 7)).

Fixpoint wf_runb (tr:tracker) (cs:list call) : bool :=
  match cs with
  | [] => true
  | c :: cs' => wf_call guards_sound tr c &&
                match stateful_step tr c with Some tr' => wf_runb tr' cs' | None => true end
  end.
Lemma wf_runb_ok : forall cs tr, wf_runb tr cs = true -> wf_run tr cs.
Proof.
  induction cs as [|c cs IH]; intros tr H; cbn in *; [exact I|].
  apply andb_true_iff in H. destruct H as [H1 H2]. split; [exact H1|].
  destruct (stateful_step tr c); [apply IH; exact H2 | exact I].
Qed.

Example C03_gamma_exact_nonvacuous :
  exists cs t1 tr1 gb,
    gamma_calls exRoot = Some cs /\ ser_run [] (fresh_tracker Gamma []) cs = Some (t1, tr1, gb) /\
    wf_run (fresh_tracker Gamma []) cs /\ t1 = [7; 8; 9] /\
    gamma_axioms guards_sound gb =
      [Sym 0; Imp (Sym 0) bot; App (Sym 1) (EVar 1); Sym 0; Imp (Sym 0) bot; Sym 2; Sym 2].
Proof.
  do 4 eexists. split; [vm_compute; reflexivity|]. split; [vm_compute; reflexivity|].
  split; [apply wf_runb_ok; vm_compute; reflexivity|]. split; vm_compute; reflexivity.
Qed.

Example C03_opt_nonvacuous :
  exists cs mem t1 tr1 gb,
    mgamma_calls ex_sel exRoot = Some (cs, mem) /\ ser_run [] (fresh_tracker Gamma []) cs = Some (t1, tr1, gb) /\
    wf_run (fresh_tracker Gamma []) cs /\ In (CLoad (TPat (Sym 7))) cs /\
    map (unrn t1) (gamma_axioms guards_sound gb) = map expand (flat_axioms exRoot).
Proof.
  do 5 eexists. split; [vm_compute; reflexivity|]. split; [vm_compute; reflexivity|].
  split; [apply wf_runb_ok; vm_compute; reflexivity|]. split; [vm_compute; tauto|]. vm_compute. reflexivity.
Qed.

(** the 257th symbol *)
Example C03_refuse_nonvacuous :
  exists tbl, length tbl = 256%nat /\ idx_of 999 tbl = None /\
              emit tbl (fresh_tracker Gamma []) (CSymbol 999) = None /\
              emit (firstn 255 tbl) (fresh_tracker Gamma []) (CSymbol 999) <> None.
Proof.
  exists (map N.of_nat (seq 0 256)). split; [reflexivity|]. split; [vm_compute; reflexivity|].
  split; [vm_compute; reflexivity|]. vm_compute. discriminate.
Qed.

(* ---------------------------------------------------------------------------------------------- *)
(** Stated of the bytes written by the methods REGENERATED from serializing_interpreter.py (Gen/PySerial.v,
    opcodes from instruction.py).  The traversal of proof.py / the memoiser ([gamma_calls], [mgamma_calls])
    and the tracker stay hand-written models, tied differentially. *)
Theorem C03_source_gamma_exact : forall f m cl cs t1 tr1 gb,
  gamma_calls m = Some cs ->
  gen_ser_run [] (fresh_tracker Gamma cl) cs = Some (t1, tr1, gb) -> wf_run (fresh_tracker Gamma cl) cs ->
  agrees f t1 ->
  gamma_axioms guards_sound gb = map (rn f) (map expand (flat_axioms m)).
Proof. intros f m cl cs t1 tr1 gb Hc H. rewrite gen_ser_run_agrees in H. exact (gamma_exact f m cl cs t1 tr1 gb Hc H). Qed.
Print Assumptions C03_source_gamma_exact.

Theorem C03_source_gamma_exact_opt : forall sel m cl cs mem1 t1 tr1 gb,
  mgamma_calls sel m = Some (cs, mem1) ->
  gen_ser_run [] (fresh_tracker Gamma cl) cs = Some (t1, tr1, gb) -> wf_run (fresh_tracker Gamma cl) cs ->
  map (unrn t1) (gamma_axioms guards_sound gb) = map expand (flat_axioms m).
Proof. intros sel m cl cs mem1 t1 tr1 gb Hc H. rewrite gen_ser_run_agrees in H. exact (gamma_exact_names sel m cl cs mem1 t1 tr1 gb Hc H). Qed.
Print Assumptions C03_source_gamma_exact_opt.

Theorem C03_source_journal_exact : forall f cs tbl tr st tblF trF bs,
  R f tr st -> gen_ser_run tbl tr cs = Some (tblF, trF, bs) -> wf_run tr cs -> agrees f tblF ->
  journal guards_sound (t_phase tr) bs st = map (rn f) (pub_of cs).
Proof.
  intros f cs tbl tr st tblF trF bs HR H Hw Hf. rewrite gen_ser_run_agrees in H.
  exact (proj1 (journal_run f cs tbl tr st tblF trF bs HR H Hw Hf)).
Qed.

(** what the translated symbol() does with its dict: distinct numbers, never re-numbered, never above 255 *)
Theorem C03_source_symbol_numbering : forall tbl tr name tbl' bs,
  gen_emit_tbl tbl tr (CSymbol name) = Some (tbl', bs) ->
  exists i, idx_of name tbl' = Some i /\ bs = [4; N.of_nat i] /\ N.of_nat i < 256 /\
            (forall a j, idx_of a tbl = Some j -> idx_of a tbl' = Some j).
Proof.
  intros tbl tr name tbl' bs H. rewrite gen_emit_tbl_agrees in H. pose proof (emit_bytes _ _ _ _ _ H) as Hb.
  cbn in H. destruct (idx_of name tbl) as [i|] eqn:Ei.
  - apply with_tbl_some in H. destruct H as [-> H]. apply bytes_some in H. subst bs.
    exists i. split; [exact Ei|]. split; [reflexivity|]. split; [|auto].
    apply Forall_inv_tail in Hb. apply Forall_inv in Hb. exact Hb.
  - apply with_tbl_some in H. destruct H as [-> H]. apply bytes_some in H. subst bs.
    exists (length tbl). split; [unfold idx_of in *; rewrite (idx_from_app_miss _ _ _ Ei); reflexivity|].
    split; [reflexivity|]. split.
    + apply Forall_inv_tail in Hb. apply Forall_inv in Hb. exact Hb.
    + intros a j Ha. unfold idx_of in *. apply idx_from_app_hit. exact Ha.
Qed.
Print Assumptions C03_source_symbol_numbering.

Theorem C03_source_refuse_over_255 : forall tbl tr name,
  idx_of name tbl = None -> (256 <= length tbl)%nat -> gen_emit_tbl tbl tr (CSymbol name) = None.
Proof. intros. rewrite gen_emit_tbl_agrees. apply refuse_symbol_over_255; assumption. Qed.

Theorem C03_source_emit_bytes : forall tbl tr c tbl' bs,
  gen_emit_tbl tbl tr c = Some (tbl', bs) -> Forall (fun b => b < 256) bs.
Proof. intros tbl tr c tbl' bs H. rewrite gen_emit_tbl_agrees in H. exact (emit_bytes _ _ _ _ _ H). Qed.
Print Assumptions C03_source_emit_bytes.

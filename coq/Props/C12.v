(** C12 — Notation is transparent.
    Model: coq/Py/Pattern.v (generation/src/proof_generation/pattern.py).  [expand] is the full notation
    expansion into the checker's [pat]; [p_inst]/[p_esubst]/[p_ssubst] are the same Python methods on
    notation-free patterns.  Fuel: every statement is of the form "whenever the function returns";
    the [C12_*_total] theorems (Py/Termination.v, Py/Total.v) show that it does return, with the same answer,
    as soon as the fuel reaches the structural measure [dm] of the arguments.
    The theorems hold for every flag configuration with the listed repairs; [_refuted] theorems exhibit
    a witness for each missing repair (replayed on the implementation by harness/c12.py). *)
From Coq Require Import NArith List Bool.
From Pi2 Require Import ML.Syntax Py.Pattern Py.PatFacts Py.MetaFacts Py.ExpandFacts Py.Termination Py.Total Py.Bridge Py.Current Py.NaryFacts Py.Witness.
Import ListNotations.
Open Scope N_scope.

(** equality = structural equality of the full expansions *)
Theorem C12_py_eq_expand : forall f, f_mv_keep_subst f = true -> f_inst_extend f = true ->
  forall n a b r, py_eq f n a b = Some r -> r = pat_eqb (expand f a) (expand f b).
Proof. exact py_eq_expand. Qed.
Print Assumptions C12_py_eq_expand.

(** ... hence an equivalence relation *)
Theorem C12_py_eq_refl : forall f, f_mv_keep_subst f = true -> f_inst_extend f = true ->
  forall n a r, py_eq f n a a = Some r -> r = true.
Proof. exact py_eq_refl. Qed.
Theorem C12_py_eq_sym : forall f, f_mv_keep_subst f = true -> f_inst_extend f = true ->
  forall n m a b r r', py_eq f n a b = Some r -> py_eq f m b a = Some r' -> r = r'.
Proof. exact py_eq_sym. Qed.
Theorem C12_py_eq_trans : forall f, f_mv_keep_subst f = true -> f_inst_extend f = true ->
  forall n m k a b c r, py_eq f n a b = Some true -> py_eq f m b c = Some true -> py_eq f k a c = Some r -> r = true.
Proof. exact py_eq_trans. Qed.
Print Assumptions C12_py_eq_trans.

(** every operation gives, on a pattern, a result whose expansion is the operation's result on the expansion *)
Theorem C12_inst_transparent : forall f, f_mv_keep_subst f = true -> f_inst_extend f = true ->
  forall n p d r, py_inst f n p d = Some r -> expand f r = p_inst f (expand f p) (expand_delta f d).
Proof. exact py_inst_expand. Qed.
Theorem C12_esubst_transparent : forall f, f_mv_keep_subst f = true -> f_inst_extend f = true ->
  forall n p x g r, py_esubst f n p x g = Some r -> expand f r = p_esubst f (expand f p) x (expand f g).
Proof. exact py_esubst_expand. Qed.
Theorem C12_ssubst_transparent : forall f, f_mv_keep_subst f = true -> f_inst_extend f = true ->
  forall n p x g r, py_ssubst f n p x g = Some r -> expand f r = p_ssubst f (expand f p) x (expand f g).
Proof. exact py_ssubst_expand. Qed.
Theorem C12_simplify_transparent : forall f, f_mv_keep_subst f = true -> f_inst_extend f = true ->
  forall n p r, simplify f n p = Some r -> expand f r = expand f p.
Proof. exact simplify_expand. Qed.
Theorem C12_fresh_transparent : forall f, f_mv_keep_subst f = true -> f_inst_extend f = true ->
  f_fresh_simplify f = true ->
  forall n p x r, py_fresh f n p x = Some r -> r = e_fresh (expand f p) x.
Proof. exact py_fresh_expand. Qed.
Print Assumptions C12_fresh_transparent.

(** destructuring ([unwrap]/[extract]/[deconstruct]) sees exactly the head of the expansion *)
Theorem C12_unwrap_imp : forall f, f_mv_keep_subst f = true -> f_inst_extend f = true ->
  forall n p u, unwrap_imp f n p = Some u ->
  match u with
  | Some (l, r) => expand f p = Imp (expand f l) (expand f r)
  | None => forall a b, expand f p <> Imp a b
  end.
Proof. exact unwrap_imp_expand. Qed.
Theorem C12_unwrap_app : forall f, f_mv_keep_subst f = true -> f_inst_extend f = true ->
  forall n p u, unwrap_app f n p = Some u ->
  match u with
  | Some (l, r) => expand f p = App (expand f l) (expand f r)
  | None => forall a b, expand f p <> App a b
  end.
Proof. exact unwrap_app_expand. Qed.
Theorem C12_deconstruct_evar : forall f, f_mv_keep_subst f = true -> f_inst_extend f = true ->
  forall n p u, decon_evar f n p = Some u ->
  match u with Some x => expand f p = EVar x | None => forall x, expand f p <> EVar x end.
Proof. exact decon_evar_expand. Qed.
Theorem C12_deconstruct_svar : forall f, f_mv_keep_subst f = true -> f_inst_extend f = true ->
  forall n p u, decon_svar f n p = Some u ->
  match u with Some x => expand f p = SVar x | None => forall x, expand f p <> SVar x end.
Proof. exact decon_svar_expand. Qed.
Theorem C12_deconstruct_symbol : forall f, f_mv_keep_subst f = true -> f_inst_extend f = true ->
  forall n p u, decon_sym f n p = Some u ->
  match u with Some x => expand f p = Sym x | None => forall x, expand f p <> Sym x end.
Proof. exact decon_sym_expand. Qed.
Theorem C12_deconstruct_exists : forall f, f_mv_keep_subst f = true -> f_inst_extend f = true ->
  forall n p u, decon_ex f n p = Some u ->
  match u with Some (x, q) => expand f p = Ex x (expand f q) | None => forall x q, expand f p <> Ex x q end.
Proof. exact decon_ex_expand. Qed.
Theorem C12_deconstruct_mu : forall f, f_mv_keep_subst f = true -> f_inst_extend f = true ->
  forall n p u, decon_mu f n p = Some u ->
  match u with Some (x, q) => expand f p = Mu x (expand f q) | None => forall x q, expand f p <> Mu x q end.
Proof. exact decon_mu_expand. Qed.
Print Assumptions C12_deconstruct_mu.

(** metavars(): contains every metavariable of the expansion; exact when no substitution is pending anywhere.
    (Not exact in general, in ANY configuration: C12_refuted_metavars.) *)
Theorem C12_metavars_incl : forall f p k, In k (p_metavars (expand f p)) -> In k (metavars p).
Proof. exact metavars_incl. Qed.
Theorem C12_metavars_exact : forall f p, psubfree p = true ->
  forall k, In k (metavars p) <-> In k (p_metavars (expand f p)).
Proof. intros f p Hp k. split; [apply metavars_exact; exact Hp|apply metavars_incl]. Qed.
Print Assumptions C12_metavars_exact.

(** ---- total correctness: out of fuel is impossible beyond the structural measure [dm] ---- *)
Theorem C12_py_eq_total : forall f, f_mv_keep_subst f = true -> f_inst_extend f = true ->
  forall a b n, (dm a one + dm b one <= n)%nat -> py_eq f n a b = Some (pat_eqb (expand f a) (expand f b)).
Proof. exact py_eq_total. Qed.
Theorem C12_fresh_total : forall f, f_mv_keep_subst f = true -> f_inst_extend f = true -> f_fresh_simplify f = true ->
  forall p x n, (dm p one <= n)%nat -> py_fresh f n p x = Some (e_fresh (expand f p) x).
Proof. exact py_fresh_total. Qed.
Theorem C12_inst_total : forall f, f_mv_keep_subst f = true -> f_inst_extend f = true ->
  forall p d n, (dm p (E d) <= n)%nat ->
  exists r, py_inst f n p d = Some r /\ expand f r = p_inst f (expand f p) (expand_delta f d).
Proof. exact py_inst_total. Qed.
Theorem C12_esubst_total : forall f, f_mv_keep_subst f = true -> f_inst_extend f = true ->
  forall p x g n, (dm p one <= n)%nat ->
  exists r, py_esubst f n p x g = Some r /\ expand f r = p_esubst f (expand f p) x (expand f g).
Proof. exact py_esubst_total. Qed.
Theorem C12_ssubst_total : forall f, f_mv_keep_subst f = true -> f_inst_extend f = true ->
  forall p x g n, (dm p one <= n)%nat ->
  exists r, py_ssubst f n p x g = Some r /\ expand f r = p_ssubst f (expand f p) x (expand f g).
Proof. exact py_ssubst_total. Qed.
Theorem C12_hnf_terminates : forall f, f_inst_extend f = true ->
  forall n p, (dm p one <= n)%nat -> exists h, hnf f n p = Some h /\ (dm h one <= dm p one)%nat /\ is_inst h = false.
Proof. exact hnf_terminates. Qed.
Print Assumptions C12_py_eq_total.

(** ---- non-vacuity: the functions do return on notation-laden inputs ---- *)
Example C12_ex_eq : py_eq flags_sound 20 (and_p (PEVar 1) (neg_p (PEVar 2)))
                      (embed (expand flags_sound (and_p (PEVar 1) (neg_p (PEVar 2))))) = Some true.
Proof. vm_compute. reflexivity. Qed.
Example C12_ex_neq : py_eq flags_sound 20 (and_p (PEVar 1) (PEVar 2)) (and_p (PEVar 2) (PEVar 1)) = Some false.
Proof. vm_compute. reflexivity. Qed.
Example C12_ex_fresh : py_fresh flags_sound 20 (and_p (PEVar 1) (PEVar 2)) 1 = Some false.
Proof. vm_compute. reflexivity. Qed.
Example C12_ex_inst : py_inst flags_sound 20 d5_pat d5_delta = Some (PInst (PImp (pphi 0) (pphi 1)) [(0, PEVar 7); (1, pphi 0)]).
Proof. vm_compute. reflexivity. Qed.

(** ---- refutations: one per missing repair ---- *)
(** D3: Instantiate.evar_is_free without simplify(): and(x1,x2) is judged x1-fresh *)
Theorem C12_refuted_fresh_notation :
  exists p x n, py_fresh flags_no_fresh_simplify n p x = Some true /\ e_fresh (expand flags_no_fresh_simplify p) x = false.
Proof. exists (and_p (PEVar 1) (PEVar 2)), 1, 20%nat. vm_compute. split; reflexivity. Qed.

(** D5: partial Instantiate, pushed-down delta is captured by the notation's own map *)
Theorem C12_refuted_partial_inst :
  exists p d n r, py_inst flags_no_inst_extend n p d = Some r /\
    expand flags_no_inst_extend r <> p_inst flags_no_inst_extend (expand flags_no_inst_extend p) (expand_delta flags_no_inst_extend d).
Proof.
  exists d5_pat, d5_delta, 20%nat. eexists. split; [vm_compute; reflexivity|]. vm_compute. discriminate.
Qed.
(** ... so [==] is no longer equality of expansions, and simplify() changes the meaning *)
Theorem C12_refuted_eq_partial_inst :
  exists a b n, py_eq flags_no_inst_extend n a b = Some true /\
    pat_eqb (expand flags_no_inst_extend a) (expand flags_no_inst_extend b) = false.
Proof.
  exists (PInst d5_pat d5_delta), (PImp (PEVar 7) (PEVar 7)), 20%nat. vm_compute. split; reflexivity.
Qed.

(** D16: Instantiate.metavars() counts a plug that the expansion drops (holds for the sound configuration too:
    the code has no repair for it; recorded as a finding) *)
Theorem C12_refuted_metavars :
  exists p k, In k (metavars p) /\ ~ In k (p_metavars (expand flags_sound p)).
Proof. exists mvs_pat, 5. vm_compute. split; [auto|intros []]. Qed.

(** D9d: MetaVar.apply_esubst drops a substitution on a declared-fresh variable; instantiation through
    a notation then differs from instantiation of the expansion *)
Theorem C12_refuted_mv_drop :
  exists p d n r, py_inst flags_mv_drop n p d = Some r /\
    expand flags_mv_drop r <> p_inst flags_mv_drop (expand flags_mv_drop p) (expand_delta flags_mv_drop d).
Proof.
  exists drop_pat, drop_delta, 20%nat. eexists. split; [vm_compute; reflexivity|]. vm_compute. discriminate.
Qed.

(** ================================================================================================
    The configuration the CURRENT code is in: [flags_current] = every repair applied, [f_mv_keep_subst = false]
    (D9d: a metavariable drops a substitution on a variable it declares fresh; pinned by test_pattern.py).
    On corner-free inputs (Py/Bridge.v: no metavariable anywhere in the inputs declares e_fresh/s_fresh a variable
    in [se]/[ss], and every pending substitution of the inputs -- and the operation's own variable -- is on a
    variable in [se]/[ss]) every operation returns the same result as under [flags_sound], and the results are
    corner-free again ([C12_bridge_*]); so the theorems above hold for the current code on such inputs. *)
Theorem C12_unconstrained_corner_free : forall se ss p, unconstrained p = true ->
  (forall x, In x (etargets p) -> In x se) -> (forall x, In x (stargets p) -> In x ss) -> corner_free se ss p = true.
Proof. exact unconstrained_corner_free. Qed.

Theorem C12_bridge_py_eq : forall se ss f n a b, corner_free se ss a = true -> corner_free se ss b = true ->
  py_eq f n a b = py_eq (with_keep f) n a b.
Proof. exact py_eq_bridge. Qed.
Theorem C12_bridge_py_inst : forall se ss f n p d, corner_free se ss p = true -> cfd se ss d = true ->
  py_inst f n p d = py_inst (with_keep f) n p d.
Proof. exact py_inst_bridge. Qed.
Theorem C12_bridge_py_inst_preserves : forall se ss h n p d r, corner_free se ss p = true -> cfd se ss d = true ->
  py_inst h n p d = Some r -> corner_free se ss r = true.
Proof. exact py_inst_cf. Qed.
Theorem C12_bridge_py_esubst : forall se ss f n p x pl, corner_free se ss p = true -> mem x se = true ->
  corner_free se ss pl = true -> py_esubst f n p x pl = py_esubst (with_keep f) n p x pl.
Proof. exact py_esubst_bridge. Qed.
Theorem C12_bridge_py_ssubst : forall se ss f n p x pl, corner_free se ss p = true -> mem x ss = true ->
  corner_free se ss pl = true -> py_ssubst f n p x pl = py_ssubst (with_keep f) n p x pl.
Proof. exact py_ssubst_bridge. Qed.
Theorem C12_bridge_py_fresh : forall se ss f n p x, corner_free se ss p = true ->
  py_fresh f n p x = py_fresh (with_keep f) n p x.
Proof. exact py_fresh_bridge. Qed.
Theorem C12_bridge_expand : forall se ss f p, corner_free se ss p = true -> expand f p = expand (with_keep f) p.
Proof. exact expand_eq. Qed.
Theorem C12_bridge_hnf : forall se ss f n p, corner_free se ss p = true -> hnf f n p = hnf (with_keep f) n p.
Proof. exact hnf_bridge. Qed.
Print Assumptions C12_bridge_py_inst.

Theorem C12_py_eq_expand_current_code : forall se ss n a b r,
  corner_free se ss a = true -> corner_free se ss b = true ->
  py_eq flags_current n a b = Some r -> r = pat_eqb (expand flags_current a) (expand flags_current b).
Proof. exact (fun se ss => py_eq_expand_cur se ss flags_current eq_refl). Qed.
Theorem C12_py_eq_total_current_code : forall se ss a b n,
  corner_free se ss a = true -> corner_free se ss b = true -> (dm a one + dm b one <= n)%nat ->
  py_eq flags_current n a b = Some (pat_eqb (expand flags_current a) (expand flags_current b)).
Proof. exact (fun se ss => py_eq_total_cur se ss flags_current eq_refl). Qed.
Theorem C12_inst_transparent_current_code : forall se ss n p d r,
  corner_free se ss p = true -> cfd se ss d = true -> py_inst flags_current n p d = Some r ->
  expand flags_current r = p_inst flags_current (expand flags_current p) (expand_delta flags_current d).
Proof. exact (fun se ss => py_inst_expand_cur se ss flags_current eq_refl). Qed.
Theorem C12_esubst_transparent_current_code : forall se ss n p x pl r,
  corner_free se ss p = true -> mem x se = true -> corner_free se ss pl = true ->
  py_esubst flags_current n p x pl = Some r ->
  expand flags_current r = p_esubst flags_current (expand flags_current p) x (expand flags_current pl).
Proof. exact (fun se ss => py_esubst_expand_cur se ss flags_current eq_refl). Qed.
Theorem C12_ssubst_transparent_current_code : forall se ss n p x pl r,
  corner_free se ss p = true -> mem x ss = true -> corner_free se ss pl = true ->
  py_ssubst flags_current n p x pl = Some r ->
  expand flags_current r = p_ssubst flags_current (expand flags_current p) x (expand flags_current pl).
Proof. exact (fun se ss => py_ssubst_expand_cur se ss flags_current eq_refl). Qed.
Theorem C12_simplify_transparent_current_code : forall se ss n p r, corner_free se ss p = true ->
  simplify flags_current n p = Some r -> expand flags_current r = expand flags_current p.
Proof. exact (fun se ss => simplify_expand_cur se ss flags_current eq_refl). Qed.
Theorem C12_fresh_transparent_current_code : forall se ss n p x r, corner_free se ss p = true ->
  py_fresh flags_current n p x = Some r -> r = e_fresh (expand flags_current p) x.
Proof. exact (fun se ss => py_fresh_expand_cur se ss flags_current eq_refl eq_refl). Qed.
Print Assumptions C12_py_eq_expand_current_code.

(** non-vacuity: notation + unconstrained metavariables + a pending substitution on x1 ... *)
Example C12_ex_current_unconstrained :
  let a := and_p (pphi 0) (PESub (pphi 1) 1 (PEVar 2)) in
  corner_free [1] [] a = true /\ unconstrained a = true /\
  py_eq flags_current 30 a (embed (expand flags_current a)) = Some true /\
  py_inst flags_current 30 a [(1, neg_p (PEVar 1))] =
    Some (PInst and_def [(0, pphi 0); (1, PImp (PEVar 2) bot_def)]).
Proof. vm_compute. repeat split; reflexivity. Qed.
(** ... and a metavariable that declares x3 fresh while only x1 is ever substituted *)
Example C12_ex_current_constrained :
  let a := neg_p (PImp (PMVar 0 [3] [] [] [] []) (PESub (pphi 1) 1 (PEVar 2))) in
  corner_free [1] [] a = true /\ unconstrained a = false /\
  py_esubst flags_current 30 a 1 (PEVar 5) =
    Some (PImp (PImp (PESub (PMVar 0 [3] [] [] [] []) 1 (PEVar 5)) (PESub (PESub (pphi 1) 1 (PEVar 2)) 1 (PEVar 5))) bot_def).
Proof. vm_compute. repeat split; reflexivity. Qed.
(** the D9d witness is exactly what the predicate excludes *)
Example C12_ex_current_corner : corner_free [1] [] drop_pat = false.
Proof. reflexivity. Qed.

(** ---- deconstruct_nary_application (proofs/kore.py): head and arguments of a pattern are the head and arguments of
    its expansion ([p_spine] = the application spine of a notation-free pattern) ---- *)
Theorem C12_deconstruct_nary : forall f, f_mv_keep_subst f = true -> f_inst_extend f = true ->
  forall n p h args, decon_nary f n p = Some (h, args) -> p_spine (expand f p) = (expand f h, map (expand f) args).
Proof. exact decon_nary_expand. Qed.
Theorem C12_deconstruct_nary_terminates : forall f, f_inst_extend f = true ->
  forall n p, (dm p one <= n)%nat -> exists ha, decon_nary f n p = Some ha.
Proof. exact decon_nary_terminates. Qed.
Theorem C12_deconstruct_nary_current_code : forall se ss n p h args,
  corner_free se ss p = true -> decon_nary flags_current n p = Some (h, args) ->
  p_spine (expand flags_current p) = (expand flags_current h, map (expand flags_current) args).
Proof. exact (fun se ss => decon_nary_expand_cur se ss flags_current eq_refl). Qed.
Print Assumptions C12_deconstruct_nary_current_code.
Example C12_ex_deconstruct_nary :
  decon_nary flags_current 30 (PInst (PApp (PApp (PSym 7) (pphi 1)) (pphi 0)) [(1, neg_p (PEVar 1)); (0, PEVar 2)]) =
  Some (PSym 7, [neg_p (PEVar 1); PEVar 2]).
Proof. vm_compute. reflexivity. Qed.

(** ================================================================================================
    C12_source_*: the theorems stated of the functions GENERATED from the current source
    (coq/Gen/PyPattern.v, rewritten from pattern.py / basic_interpreter.py on every run by translators/pypattern.py;
    agreement with the model: coq/Py/GenPyPatternAgree.v). *)
From Pi2 Require Import Py.GenSupport Gen.PyPattern Py.GenPyPatternAgree Py.SourceFacts.
Theorem C12_source_agreement : forall n,
  (forall p d, src_instantiate n p d = py_inst flags_current n p d) /\
  (forall p x g, src_apply_esubst n p x g = py_esubst flags_current n p x g) /\
  (forall p x g, src_apply_ssubst n p x g = py_ssubst flags_current n p x g).
Proof. exact src_ops_eq. Qed.
Theorem C12_source_agreement_fresh : forall n p x, src_evar_is_free n p x = py_fresh flags_current n p x.
Proof. exact src_evar_is_free_eq. Qed.
Theorem C12_source_agreement_metavars : forall p, src_metavars p = metavars p.
Proof. exact src_metavars_eq. Qed.
Theorem C12_source_fresh_transparent : forall se ss n p x r, corner_free se ss p = true ->
  src_evar_is_free n p x = Some r -> r = e_fresh (expand flags_current p) x.
Proof. exact source_fresh_expand. Qed.
Theorem C12_source_fresh_total : forall se ss p x n, corner_free se ss p = true -> (dm p one <= n)%nat ->
  src_evar_is_free n p x = Some (e_fresh (expand flags_current p) x).
Proof. exact source_fresh_total. Qed.
Theorem C12_source_inst_transparent : forall se ss n p d r, corner_free se ss p = true -> cfd se ss d = true ->
  src_instantiate n p d = Some r -> expand flags_current r = p_inst flags_current (expand flags_current p) (expand_delta flags_current d).
Proof. exact source_inst_expand. Qed.
Theorem C12_source_esubst_transparent : forall se ss n p x g r, corner_free se ss p = true -> mem x se = true ->
  corner_free se ss g = true -> src_apply_esubst n p x g = Some r ->
  expand flags_current r = p_esubst flags_current (expand flags_current p) x (expand flags_current g).
Proof. exact source_esubst_expand. Qed.
Theorem C12_source_ssubst_transparent : forall se ss n p x g r, corner_free se ss p = true -> mem x ss = true ->
  corner_free se ss g = true -> src_apply_ssubst n p x g = Some r ->
  expand flags_current r = p_ssubst flags_current (expand flags_current p) x (expand flags_current g).
Proof. exact source_ssubst_expand. Qed.
Theorem C12_source_metavars_incl : forall p k, In k (p_metavars (expand flags_current p)) -> In k (src_metavars p).
Proof. exact source_metavars_incl. Qed.
Theorem C12_source_metavars_exact : forall p, psubfree p = true ->
  forall k, In k (src_metavars p) <-> In k (p_metavars (expand flags_current p)).
Proof. exact source_metavars_exact. Qed.
Print Assumptions C12_source_inst_transparent.
Example C12_source_ex : src_evar_is_free 30 (and_p (PEVar 1) (neg_p (PEVar 2))) 1 = Some false /\
  src_instantiate 30 d5_pat d5_delta = Some (PInst (PImp (pphi 0) (pphi 1)) [(0, PEVar 7); (1, pphi 0)]).
Proof. vm_compute. split; reflexivity. Qed.

(** ---- unwrap / extract of EVERY class, the base class [Pattern] and [Instantiate] itself included (class codes:
    Py/Pattern.v [head_code], 11 = Pattern): the answer is [Some fields] exactly when the expansion's head has the asked
    class (always for Pattern, never for Instantiate), and the fields expand to the expansion's fields ---- *)
Theorem C12_unwrap_any_class : forall f, f_mv_keep_subst f = true -> f_inst_extend f = true ->
  forall n c p u, unwrap_cls f n c p = Some u ->
  match u with
  | Some l => (c = 11 \/ c = p_head_code (expand f p)) /\ map (expand f) l = p_children (expand f p)
  | None => c <> 11 /\ c <> p_head_code (expand f p)
  end.
Proof. exact unwrap_cls_expand. Qed.
Theorem C12_bridge_unwrap_any_class : forall se ss f n c p, corner_free se ss p = true ->
  unwrap_cls f n c p = unwrap_cls (with_keep f) n c p.
Proof. exact unwrap_cls_bridge. Qed.
Example C12_ex_unwrap_base : unwrap_cls flags_current 30 11 (neg_p (pphi 0)) = Some (Some [pphi 0; bot_p]) /\
  unwrap_cls flags_current 30 10 (neg_p (pphi 0)) = Some None.
Proof. vm_compute. split; reflexivity. Qed.
